#!/usr/bin/env python3
# seedkeep.py <src seed-out/X dir> <seeded id> <property> <caught: yes|no|after-strengthening> "<needs>" "<ran>" "<caught_by>"
import sys, os, shutil, json
src, sid, prop, caught, needs, ran, by = sys.argv[1:8]
dst = f"/verif/seeded/{sid}"
os.makedirs(dst, exist_ok=True)
for name in os.listdir(src):
    p = os.path.join(src, name)
    if name.endswith('.log'): continue
    if os.path.isdir(p):
        shutil.copytree(p, os.path.join(dst, name), dirs_exist_ok=True)
    else:
        shutil.copy(p, dst)
# go files of demonstrations must not be picked up by `go build ./...` anywhere: keep them as .txt
for root, _, files in os.walk(dst):
    for f in files:
        if f.endswith('.go'):
            os.rename(os.path.join(root, f), os.path.join(root, f + '.txt'))
json.dump({"id": sid, "property": prop, "breaks": prop, "needs_to_manifest": needs, "confirmed_by": ran,
           "detected": caught, "detected_by": by}, open(os.path.join(dst, "meta.json"), "w"), indent=1)
print("kept", dst, sorted(os.listdir(dst)))
