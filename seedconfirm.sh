#!/bin/sh
# seedconfirm.sh <seed-out/X dir> test <pkgdir> <TestName>   |   seedconfirm.sh <seed-out/X dir> run <relative demo dir>
# Confirms in a scratch worktree: patch applies, builds, suite passes with it, demo fails with it and passes without it.
d=$(readlink -f "$1"); kind=$2
wt=/tmp/wt-conf-$$
git -C /repo worktree add -q "$wt" HEAD || exit 2
trap 'git -C /repo worktree remove --force "$wt" >/dev/null 2>&1' EXIT
export GOFLAGS=-mod=mod GOPROXY=off
cd "$wt"
rundemo() {
  if [ "$kind" = test ]; then
    cp "$d"/demo_test.go "$wt/$3"/zz_seed_demo_test.go
    go test -vet=off -count=1 "./$3" -run "$4" >/tmp/demo-$$.log 2>&1; rc=$?
    rm -f "$wt/$3"/zz_seed_demo_test.go
  elif [ "$kind" = tagtestin ]; then
    cp "$d"/demo_test.go "$wt/$3"/zz_seed_demo_test.go
    go test -tags seeddemo -vet=off -count=1 "./$3" -run "$4" >/tmp/demo-$$.log 2>&1; rc=$?
    rm -f "$wt/$3"/zz_seed_demo_test.go
  elif [ "$kind" = tagtest ]; then
    mkdir -p "$wt/seed-demo" && cp "$d"/demo_test.go "$wt/seed-demo"/
    go test -tags seeddemo -vet=off -count=1 ./seed-demo/ >/tmp/demo-$$.log 2>&1; rc=$?
    rm -rf "$wt/seed-demo"
  else
    mkdir -p "$wt/seed-demo" && cp -r "$d/$3"/* "$wt/seed-demo"/
    go run ./seed-demo >/tmp/demo-$$.log 2>&1; rc=$?
    rm -rf "$wt/seed-demo"
  fi
  return $rc
}
rundemo "$@" && echo "HEAD: demo passes" || { echo "HEAD: demo FAILS (bad seed)"; tail -5 /tmp/demo-$$.log; }
git apply "$d/patch.diff" || { echo "patch does not apply"; exit 1; }
go build ./... && echo "patched: builds" || { echo "patched: build FAILS"; exit 1; }
unshare -n sh -c "ip link set lo up && go test -vet=off -count=1 ./..." >/tmp/suite-$$.log 2>&1 && echo "patched: suite passes" || { echo "patched: suite FAILS"; grep -E "^(FAIL|---)|tests_test.go" /tmp/suite-$$.log | head -5; }
rundemo "$@" && echo "patched: demo passes (bad seed)" || { echo "patched: demo fails (good)"; tail -3 /tmp/demo-$$.log | cut -c1-300; }
rm -f /tmp/demo-$$.log /tmp/suite-$$.log
