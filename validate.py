#!/usr/bin/env python3-vt
import json,jsonschema,sys,glob
m=json.load(open('/verif/MANIFEST.json')); jsonschema.validate(m,json.load(open('/root/.vp/MANIFEST.schema.json')))
sch=json.load(open('/root/.vp/EVIDENCE.schema.json'))
for f in sorted(glob.glob('/verif/evidence/*.json')):
    e=json.load(open(f))
    try: jsonschema.validate(e,sch)
    except Exception as ex: print('INVALID', f, str(ex)[:200]); continue
    print(f.split('/')[-1], e['tier'], e['coverage']['evaluations'], e['coverage']['distinct_nontrivial'], e['coverage'].get('verdict'))
print('manifest ok; checks:', [c['property_id'] for c in m['checks']])
