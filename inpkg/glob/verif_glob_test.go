package glob

// In-package layer of property C12 (injected with `go test -overlay`, never
// stored in the repository under test).
//
// For VERIF_GLOB_PAIRS (pattern, name) pairs drawn from VERIF_GLOB_SEED:
//   - an independent backtracking matcher written from the documented syntax
//     agrees with Match;
//   - Match(p, s) == true implies that s lies inside the range every caller
//     derives from Parse(p, desc).Limits, read the way that caller reads it:
//     scan-asc    ScanRange(L0, L1, asc):   L0 <= s <  L1   (SCAN, PDEL)
//     scan-desc   ScanRange(L0, L1, desc):  L1 <  s <= L0   (SCAN DESC)
//     keys        Ascend(L0) until s > L1:  L0 <= s <= L1   (KEYS)
//     hooks       Ascend(L0) until s > L1 if L1 != "":      (HOOKS, CHANS, PDELHOOK, PDELCHAN)
//     search-asc  values [L0, L1)                           (SEARCH)
//     search-desc values [L1, L0)                           (SEARCH DESC)
//     Limits {"",""} means "scan everything" for every caller.
//
// Output (stdout, parsed by the harness):
//   VERIFGLOB seed=.. pairs=.. patterns=.. matched=.. limited=.. fails=.. fails_endsff=.. ambiguous=..
//   VERIFGLOB-FAIL caller=<c> class=<ends-ff|other> pattern="…" name="…" limits=[…]

import (
	"fmt"
	"math/rand"
	"os"
	"sort"
	"strconv"
	"sync"
	"testing"
	"unicode/utf8"
)

// ---- independent matcher -------------------------------------------------

type vtok struct {
	kind byte // 'L' literal byte, '*', '?', 'C' class
	b    byte
	neg  bool
	rs   [][2]rune
}

func vparse(p string) ([]vtok, bool) {
	var out []vtok
	for i := 0; i < len(p); {
		switch p[i] {
		case '*':
			out = append(out, vtok{kind: '*'})
			i++
		case '?':
			out = append(out, vtok{kind: '?'})
			i++
		case '\\':
			if i+1 >= len(p) {
				return nil, false
			}
			out = append(out, vtok{kind: 'L', b: p[i+1]})
			i += 2
		case '[':
			i++
			t := vtok{kind: 'C'}
			if i < len(p) && p[i] == '^' {
				t.neg = true
				i++
			}
			for {
				if i >= len(p) {
					return nil, false
				}
				if p[i] == ']' {
					if len(t.rs) == 0 {
						return nil, false
					}
					i++
					break
				}
				lo, n, ok := vclassChar(p[i:])
				if !ok {
					return nil, false
				}
				i += n
				hi := lo
				if i < len(p) && p[i] == '-' {
					i++
					hi, n, ok = vclassChar(p[i:])
					if !ok {
						return nil, false
					}
					i += n
				}
				t.rs = append(t.rs, [2]rune{lo, hi})
			}
			out = append(out, t)
		default:
			out = append(out, vtok{kind: 'L', b: p[i]})
			i++
		}
	}
	return out, true
}

func vclassChar(s string) (rune, int, bool) {
	if len(s) == 0 || s[0] == '-' || s[0] == ']' {
		return 0, 0, false
	}
	k := 0
	if s[0] == '\\' {
		k = 1
		if len(s) == 1 {
			return 0, 0, false
		}
	}
	r, n := utf8.DecodeRuneInString(s[k:])
	if r == utf8.RuneError && n <= 1 {
		return 0, 0, false
	}
	return r, k + n, true
}

// vmatch: whole reports whether '*' may only stop after whole characters
// (false: at any byte offset). The documented syntax does not decide between
// the two readings; pairs on which they differ are not judged.
func vmatch(toks []vtok, s string, whole bool) bool {
	if len(toks) == 0 {
		return s == ""
	}
	t := toks[0]
	switch t.kind {
	case '*':
		for k := 0; k <= len(s); {
			if vmatch(toks[1:], s[k:], whole) {
				return true
			}
			if k == len(s) {
				break
			}
			if whole {
				_, n := utf8.DecodeRuneInString(s[k:])
				k += n
			} else {
				k++
			}
		}
		return false
	case 'L':
		return len(s) > 0 && s[0] == t.b && vmatch(toks[1:], s[1:], whole)
	case '?':
		if len(s) == 0 {
			return false
		}
		_, n := utf8.DecodeRuneInString(s)
		return vmatch(toks[1:], s[n:], whole)
	case 'C':
		if len(s) == 0 {
			return false
		}
		r, n := utf8.DecodeRuneInString(s)
		in := false
		for _, rg := range t.rs {
			if rg[0] <= r && r <= rg[1] {
				in = true
			}
		}
		return in != t.neg && vmatch(toks[1:], s[n:], whole)
	}
	return false
}

// ---- generator -------------------------------------------------------------

type vgen struct{ r *rand.Rand }

var vplain = []byte("abcABz019_-]^!,")
var vhostile = []byte{0x00, 0xff, 0x01, 0x7f, 0xfe, 0x80}
var vmeta = []byte(`*?[\`)

func (g *vgen) lit() byte {
	if g.r.Intn(5) == 0 {
		return vhostile[g.r.Intn(len(vhostile))]
	}
	if g.r.Intn(3) > 0 {
		return "abc"[g.r.Intn(3)]
	}
	return vplain[g.r.Intn(len(vplain))]
}

func (g *vgen) char() string {
	switch {
	case g.r.Intn(8) == 0:
		return []string{"é", "ÿ", "世", "\x00", "\xff", "\x80"}[g.r.Intn(6)]
	case g.r.Intn(12) == 0:
		return string(vmeta[g.r.Intn(len(vmeta))])
	}
	return string([]byte{g.lit()})
}

func (g *vgen) lits(n int) string {
	b := make([]byte, 0, n)
	for i := 0; i < n; i++ {
		b = append(b, g.lit())
	}
	return string(b)
}

func (g *vgen) classRune() rune {
	if g.r.Intn(8) == 0 {
		return []rune{'é', 0xff, '世', 0x00, 0x7f}[g.r.Intn(5)]
	}
	if g.r.Intn(8) == 0 {
		return []rune{'*', '?', '[', ']', '\\', '-', '^'}[g.r.Intn(7)]
	}
	return rune("abcdABz019"[g.r.Intn(10)])
}

func vclassText(r rune) string {
	switch r {
	case '\\', '-', ']', '^', '[':
		return "\\" + string(r)
	}
	return string(r)
}

func (g *vgen) class() string {
	s := "["
	if g.r.Intn(3) == 0 {
		s += "^"
	}
	for i, n := 0, 1+g.r.Intn(3); i < n; i++ {
		lo := g.classRune()
		if g.r.Intn(2) == 0 {
			hi := g.classRune()
			if hi < lo && g.r.Intn(4) > 0 {
				lo, hi = hi, lo
			}
			s += vclassText(lo) + "-" + vclassText(hi)
		} else {
			s += vclassText(lo)
		}
	}
	return s + "]"
}

func vesc(c byte) string {
	switch c {
	case '*', '?', '[', '\\':
		return "\\" + string([]byte{c})
	}
	return string([]byte{c})
}

func (g *vgen) pattern() string {
	r := g.r
	var p string
	switch r.Intn(14) {
	case 0:
		return g.lits(1 + r.Intn(3))
	case 1:
		p = "*"
	case 2:
		p = "?"
	case 3:
		p = g.class()
	case 4:
		p = "\\" + string([]byte{vmeta[r.Intn(len(vmeta))]})
	case 5:
		p = g.lits(1+r.Intn(2)) + "\\" + string([]byte{"*?[\\ab"[r.Intn(6)]})
	case 6:
		p = g.lits(r.Intn(2)) + "\x00"
		if r.Intn(3) == 0 {
			p += "\x00"
		}
	case 7:
		p = g.lits(r.Intn(2)) + "\xff"
		if r.Intn(3) == 0 {
			p += "\xff"
		}
	case 8:
		p = "\\" + string([]byte{g.lit()}) + g.lits(r.Intn(2))
	default:
		p = g.lits(1 + r.Intn(3))
	}
	n := r.Intn(4)
	if p != "*" && n == 0 && r.Intn(3) > 0 {
		n = 1
	}
	for i := 0; i < n; i++ {
		switch r.Intn(9) {
		case 0, 1, 2:
			p += "*"
		case 3:
			p += "?"
		case 4:
			p += g.class()
		case 5:
			p += vesc(vmeta[r.Intn(len(vmeta))])
		default:
			p += g.lits(1 + r.Intn(2))
		}
	}
	return p
}

func (g *vgen) sample(toks []vtok) string {
	var s string
	for _, t := range toks {
		switch t.kind {
		case 'L':
			s += string([]byte{t.b})
		case '*':
			for k := g.r.Intn(4); k > 0; k-- {
				s += g.char()
			}
		case '?':
			s += g.char()
		case 'C':
			if !t.neg {
				rg := t.rs[g.r.Intn(len(t.rs))]
				c := rg[0]
				if rg[1] > rg[0] {
					c += rune(g.r.Intn(int(rg[1]-rg[0]) + 1))
				}
				if !utf8.ValidRune(c) {
					c = rg[0]
				}
				s += string(c)
			} else {
				s += g.char()
			}
		}
	}
	return s
}

func vbump(s string, d int) string {
	b := []byte(s)
	b[len(b)-1] = byte(int(b[len(b)-1]) + d)
	return string(b)
}

// prefixes: unescaped bytes before the first metacharacter, and literal bytes
// (escapes resolved) before the first wildcard.
func vprefixes(toks []vtok, p string) (raw, lit string) {
	for i := 0; i < len(p); i++ {
		if p[i] == '*' || p[i] == '?' || p[i] == '[' || p[i] == '\\' {
			break
		}
		raw += string([]byte{p[i]})
	}
	for _, t := range toks {
		if t.kind != 'L' {
			break
		}
		lit += string([]byte{t.b})
	}
	return
}

func (g *vgen) names(p string, toks []vtok, out []string) []string {
	raw, lit := vprefixes(toks, p)
	for _, pre := range []string{raw, lit} {
		if pre == "" {
			out = append(out, "\x00", "\xff")
			continue
		}
		out = append(out, pre, pre+"\x00", pre+"\xff", pre+"\xff\xff", pre+"a",
			vbump(pre, -1), vbump(pre, +1), vbump(pre, -1)+"\xff", vbump(pre, +1)+"\x00",
			pre[:len(pre)-1]+"\xff")
		if lit == raw {
			break
		}
	}
	for i := 0; i < 6; i++ {
		s := g.sample(toks)
		out = append(out, s)
		switch g.r.Intn(4) {
		case 0:
			out = append(out, s+g.char())
		case 1:
			if len(s) > 1 {
				out = append(out, s[:len(s)-1])
			}
		case 2:
			out = append(out, g.char()+s)
		}
	}
	for i := 0; i < 3; i++ {
		s := ""
		for k := 1 + g.r.Intn(3); k > 0; k-- {
			s += g.char()
		}
		out = append(out, s)
	}
	return out
}

// ---- the callers' readings of Limits --------------------------------------

type vcaller struct {
	name  string
	desc  bool
	in    func(l0, l1, s string) bool
	lower func(l0, l1, s string) bool // the lower-bound half of in
	upper int                         // index of the upper bound in Limits
}

var vcallers = []vcaller{
	{"scan-asc", false, func(l0, l1, s string) bool { return l0 <= s && s < l1 }, func(l0, l1, s string) bool { return l0 <= s }, 1},
	{"scan-desc", true, func(l0, l1, s string) bool { return l1 < s && s <= l0 }, func(l0, l1, s string) bool { return l1 < s }, 0},
	{"keys", false, func(l0, l1, s string) bool { return l0 <= s && s <= l1 }, func(l0, l1, s string) bool { return l0 <= s }, 1},
	{"hooks", false, func(l0, l1, s string) bool { return l0 <= s && (l1 == "" || s <= l1) }, func(l0, l1, s string) bool { return l0 <= s }, 1},
	{"search-asc", false, func(l0, l1, s string) bool { return l0 <= s && s < l1 }, func(l0, l1, s string) bool { return l0 <= s }, 1},
	{"search-desc", true, func(l0, l1, s string) bool { return l1 <= s && s < l0 }, func(l0, l1, s string) bool { return l1 <= s }, 0},
}

func venvInt(name string, def int64) int64 {
	if v := os.Getenv(name); v != "" {
		if n, err := strconv.ParseInt(v, 10, 64); err == nil {
			return n
		}
	}
	return def
}

func TestVerifGlob(t *testing.T) {
	seed := venvInt("VERIF_GLOB_SEED", 1)
	total := venvInt("VERIF_GLOB_PAIRS", 1000000)
	const workers = 8
	var mu sync.Mutex
	var pairs, patterns, matched, limited, fails, failsFF, ambig int64
	var lines []string
	var wg sync.WaitGroup
	for w := 0; w < workers; w++ {
		wg.Add(1)
		go func(w int) {
			defer wg.Done()
			g := &vgen{r: rand.New(rand.NewSource(seed*7919 + int64(w)*104729 + 3))}
			var lp, lpat, lm, ll, lf, lff, lamb int64
			var llines []string
			nclass := map[string]int{}
			fail := func(caller, class, p, s string, lim []string) {
				lf++
				if class == "ends-ff" {
					lff++
				}
				nclass[class+caller]++
				if nclass[class+caller] <= 2 {
					llines = append(llines, fmt.Sprintf("VERIFGLOB-FAIL caller=%s class=%s pattern=%q name=%q limits=%q", caller, class, p, s, lim))
				}
			}
			var buf []string
			quota := total / workers
			for lp < quota {
				p := g.pattern()
				toks, ok := vparse(p)
				if !ok {
					fail("generator", "other", p, "", nil)
					continue
				}
				lpat++
				raw, _ := vprefixes(toks, p)
				class := "other"
				if len(raw) > 0 && raw[len(raw)-1] == 0xff {
					class = "ends-ff"
				}
				asc := Parse(p, false)
				desc := Parse(p, true)
				buf = g.names(p, toks, buf[:0])
				for _, s := range buf {
					lp++
					want := vmatch(toks, s, false)
					ambiguous := want != vmatch(toks, s, true)
					got, err := Match(p, s)
					if err != nil {
						fail("match-error", "other", p, s, nil)
						continue
					}
					if ambiguous {
						lamb++
					} else if got != want {
						fail("match", "other", p, s, []string{fmt.Sprint(got), fmt.Sprint(want)})
						continue
					}
					if !got {
						continue
					}
					lm++
					if s == "" {
						continue
					}
					for _, c := range vcallers {
						gl := asc
						if c.desc {
							gl = desc
						}
						if len(gl.Limits) != 2 {
							fail(c.name, "other", p, s, gl.Limits)
							continue
						}
						if gl.Limits[0] == "" && gl.Limits[1] == "" {
							continue
						}
						ll++
						if !c.in(gl.Limits[0], gl.Limits[1], s) {
							// the known class: the literal prefix ends in 0xFF, the
							// upper bound is prefix+0x00 and only that bound excludes s
							cl := "other"
							if class == "ends-ff" && gl.Limits[c.upper] == raw+"\x00" && c.lower(gl.Limits[0], gl.Limits[1], s) {
								cl = "ends-ff"
							}
							fail(c.name, cl, p, s, gl.Limits)
						}
					}
				}
			}
			mu.Lock()
			pairs += lp
			patterns += lpat
			matched += lm
			limited += ll
			fails += lf
			failsFF += lff
			ambig += lamb
			lines = append(lines, llines...)
			mu.Unlock()
		}(w)
	}
	wg.Wait()
	sort.Strings(lines)
	for _, l := range lines {
		fmt.Println(l)
	}
	fmt.Printf("VERIFGLOB seed=%d pairs=%d patterns=%d matched=%d limited=%d fails=%d fails_endsff=%d ambiguous=%d\n", seed, pairs, patterns, matched, limited, fails, failsFF, ambig)
	if fails > 0 {
		t.Fail()
	}
}
