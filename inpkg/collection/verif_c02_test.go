//go:build verif

// In-package second layer of check C02 (injected with `go test -overlay`, never
// copied into /repo): Collection.Within / Collection.Intersects against a full
// Scan applying the same predicate, over random histories with float32-hostile
// coordinates. Output is parsed by verifharness/checks/c02.
package collection

import (
	"fmt"
	"math"
	"math/rand"
	"os"
	"sort"
	"strconv"
	"strings"
	"testing"

	"github.com/tidwall/geojson"
	"github.com/tidwall/geojson/geometry"
	"github.com/tidwall/tile38/internal/field"
	"github.com/tidwall/tile38/internal/object"
)

type vc02Gen struct {
	rng        *rand.Rand
	lat, lon   float64
	spread     float64
	lats, lons []float64
	world      bool
}

func vc02Clamp(v, lo, hi float64) float64 {
	if v < lo {
		return lo
	}
	if v > hi {
		return hi
	}
	return v
}

func vc02Ulps(v float64, k int) float64 {
	for ; k > 0; k-- {
		v = math.Nextafter(v, math.Inf(1))
	}
	for ; k < 0; k++ {
		v = math.Nextafter(v, math.Inf(-1))
	}
	return v
}

func (g *vc02Gen) hostile(v float64) float64 {
	switch g.rng.Intn(8) {
	case 0:
		return float64(float32(v))
	case 1:
		return vc02Ulps(float64(float32(v)), 1+g.rng.Intn(2))
	case 2:
		return vc02Ulps(float64(float32(v)), -1-g.rng.Intn(2))
	case 3:
		f := float32(v)
		n := math.Nextafter32(f, float32(math.Inf(1)))
		return (float64(f) + float64(n)) / 2
	case 4:
		step := g.spread / 4
		if g.world {
			step = 0.5
		}
		return math.Round(v/step) * step
	}
	return v
}

func (g *vc02Gen) raw() (lat, lon float64) {
	if g.world {
		lat, lon = g.rng.Float64()*180-90, g.rng.Float64()*360-180
	} else {
		lat = g.lat + (g.rng.Float64()*2-1)*g.spread
		lon = g.lon + (g.rng.Float64()*2-1)*g.spread
	}
	lat, lon = g.hostile(lat), g.hostile(lon)
	return vc02Clamp(lat, -90, 90), vc02Clamp(lon, -180, 180)
}

func (g *vc02Gen) latlon() (lat, lon float64) {
	lat, lon = g.raw()
	if len(g.lats) < 2048 {
		g.lats = append(g.lats, lat)
		g.lons = append(g.lons, lon)
	} else {
		i := g.rng.Intn(len(g.lats))
		g.lats[i], g.lons[i] = lat, lon
	}
	return
}

func (g *vc02Gen) jitter(v float64) float64 {
	switch g.rng.Intn(6) {
	case 0:
		return vc02Ulps(v, 1)
	case 1:
		return vc02Ulps(v, -1)
	case 2:
		f := float32(v)
		n := math.Nextafter32(f, float32(math.Inf(1)))
		p := math.Nextafter32(f, float32(math.Inf(-1)))
		return float64(p) + (float64(n)-float64(p))*g.rng.Float64()
	}
	return v
}

func (g *vc02Gen) pool() (lat, lon float64) {
	if len(g.lats) == 0 || g.rng.Intn(5) == 0 {
		return g.raw()
	}
	lat = vc02Clamp(g.jitter(g.lats[g.rng.Intn(len(g.lats))]), -90, 90)
	lon = vc02Clamp(g.jitter(g.lons[g.rng.Intn(len(g.lons))]), -180, 180)
	return
}

func (g *vc02Gen) extent() float64 {
	if g.world {
		return []float64{1e-6, 0.01, 1, 20, 90}[g.rng.Intn(5)] * (0.5 + g.rng.Float64())
	}
	if g.rng.Intn(6) == 0 {
		return g.spread * 20 * g.rng.Float64()
	}
	return g.spread * (0.01 + g.rng.Float64())
}

func (g *vc02Gen) star(lat, lon, radius float64, n int, jag float64, align bool) []geometry.Point {
	pts := make([]geometry.Point, 0, n+1)
	phase := g.rng.Float64() * 2 * math.Pi
	for i := 0; i < n; i++ {
		a := phase + 2*math.Pi*float64(i)/float64(n)
		rr := radius * (1 - jag*g.rng.Float64())
		y := vc02Clamp(lat+rr*math.Sin(a), -90, 90)
		x := vc02Clamp(lon+rr*math.Cos(a), -180, 180)
		if align && g.rng.Intn(6) == 0 {
			py, px := g.pool()
			if g.rng.Intn(2) == 0 {
				y = py
			} else {
				x = px
			}
		}
		p := geometry.Point{X: x, Y: y}
		if len(pts) > 0 && pts[len(pts)-1] == p {
			continue
		}
		pts = append(pts, p)
	}
	pts = append(pts, pts[0])
	return pts
}

// object builds one stored object of the given kind.
func (g *vc02Gen) object(kind int) geojson.Object {
	switch kind {
	case 0:
		la, lo := g.latlon()
		return geojson.NewPoint(geometry.Point{X: lo, Y: la})
	case 1:
		la, lo := g.latlon()
		la2, lo2 := vc02Clamp(la+g.extent(), -90, 90), vc02Clamp(lo+g.extent(), -180, 180)
		if g.rng.Intn(3) == 0 {
			la2, lo2 = vc02Clamp(g.hostile(la2), -90, 90), vc02Clamp(g.hostile(lo2), -180, 180)
		}
		if la2 < la {
			la, la2 = la2, la
		}
		if lo2 < lo {
			lo, lo2 = lo2, lo
		}
		g.lats, g.lons = append(g.lats, la2), append(g.lons, lo2)
		return geojson.NewRect(geometry.Rect{Min: geometry.Point{X: lo, Y: la}, Max: geometry.Point{X: lo2, Y: la2}})
	case 2:
		la, lo := g.latlon()
		e := g.extent()
		pts := []geometry.Point{{X: lo, Y: la}}
		for i := 0; i < 1+g.rng.Intn(4); i++ {
			p := geometry.Point{X: vc02Clamp(lo+(g.rng.Float64()*2-1)*e, -180, 180), Y: vc02Clamp(la+(g.rng.Float64()*2-1)*e, -90, 90)}
			if p == pts[len(pts)-1] {
				continue
			}
			pts = append(pts, p)
		}
		if len(pts) < 2 {
			return geojson.NewPoint(pts[0])
		}
		return geojson.NewLineString(geometry.NewLine(pts, nil))
	case 3:
		la, lo := g.latlon()
		pts := g.star(la, lo, g.extent(), 3+g.rng.Intn(9), 0.6*float64(g.rng.Intn(2)), false)
		if len(pts) < 4 {
			return geojson.NewPoint(pts[0])
		}
		return geojson.NewPolygon(geometry.NewPoly(pts, nil, nil))
	}
	return String("s" + strconv.Itoa(g.rng.Intn(100)))
}

type vc02Area struct {
	kind string
	obj  geojson.Object
}

func (g *vc02Gen) area(ghosts []geometry.Rect) vc02Area {
	switch x := g.rng.Intn(100); {
	case x < 50:
		var a, b, c, d float64
		switch y := g.rng.Intn(10); {
		case y == 0 && len(ghosts) > 0:
			r := ghosts[g.rng.Intn(len(ghosts))]
			a, b, c, d = r.Min.Y, r.Min.X, r.Max.Y, r.Max.X
		case y == 1:
			a, b = g.pool()
			c, d = a, b
		default:
			a, b = g.pool()
			c, d = g.pool()
		}
		if a > c {
			a, c = c, a
		}
		if b > d {
			b, d = d, b
		}
		return vc02Area{"rect", geojson.NewRect(geometry.Rect{Min: geometry.Point{X: b, Y: a}, Max: geometry.Point{X: d, Y: c}})}
	case x < 65:
		la, lo := g.pool()
		sp := g.spread
		if g.world {
			sp = 30
		}
		return vc02Area{"circle", geojson.NewCircle(geometry.Point{X: lo, Y: la}, sp*111e3*g.rng.Float64()*2, 64)}
	case x < 72:
		la, lo := g.pool()
		return vc02Area{"point", geojson.NewPoint(geometry.Point{X: lo, Y: la})}
	default:
		la, lo := g.pool()
		pts := g.star(la, lo, g.extent()*3, 3+g.rng.Intn(12), 0.7*float64(g.rng.Intn(2)), true)
		if len(pts) < 4 {
			return vc02Area{"point", geojson.NewPoint(pts[0])}
		}
		return vc02Area{"polygon", geojson.NewPolygon(geometry.NewPoly(pts, nil, nil))}
	}
}

func TestVerifC02IndexVsScan(t *testing.T) {
	seed := int64(1)
	if v := os.Getenv("VERIF_C02_SEED"); v != "" {
		seed, _ = strconv.ParseInt(v, 10, 64)
	}
	target := int64(200000)
	if v := os.Getenv("VERIF_C02_COMPARISONS"); v != "" {
		target, _ = strconv.ParseInt(v, 10, 64)
	}
	rng := rand.New(rand.NewSource(seed*7919 + 31))
	var comparisons, queries, datasets, mismatches, nontrivial, multilevel int64
	areaKinds := map[string]int64{}
	classes := map[string]int64{}
	for comparisons < target {
		datasets++
		g := &vc02Gen{rng: rng}
		switch rng.Intn(6) {
		case 0:
			g.world = true
		case 1:
			g.lat, g.lon, g.spread = 89.5*float64(1-2*rng.Intn(2)), rng.Float64()*360-180, []float64{1e-5, 0.01, 0.5}[rng.Intn(3)]
		case 2:
			g.lat, g.lon, g.spread = rng.Float64()*160-80, 180*float64(1-2*rng.Intn(2)), []float64{1e-5, 0.01, 2}[rng.Intn(3)]
		default:
			g.lat, g.lon = rng.Float64()*170-85, rng.Float64()*350-175
			g.spread = []float64{1e-7, 1e-5, 1e-3, 0.05, 1, 10}[rng.Intn(6)]
		}
		c := New()
		kinds := map[string]int{}
		var ghosts []geometry.Rect
		n := []int{10, 80, 200, 600}[rng.Intn(4)]
		nids := n + n/3 + 2
		ops := n*2 + rng.Intn(n)
		var hist []string
		for i := 0; i < ops; i++ {
			id := "o" + strconv.Itoa(rng.Intn(nids))
			if rng.Intn(100) < 78 {
				k := rng.Intn(4)
				if rng.Intn(30) == 0 {
					k = 4
				}
				if pk, ok := kinds[id]; ok && rng.Intn(3) == 0 {
					k = pk // move
				}
				o := g.object(k)
				prev := c.Set(object.New(id, o, 0, field.List{}))
				if prev != nil && prev.IsSpatial() {
					ghosts = append(ghosts, prev.Rect())
				}
				kinds[id] = k
				if len(hist) < 4000 {
					hist = append(hist, "SET "+id+" "+o.String())
				}
			} else {
				prev := c.Delete(id)
				if prev != nil && prev.IsSpatial() {
					ghosts = append(ghosts, prev.Rect())
				}
				delete(kinds, id)
				if len(hist) < 4000 {
					hist = append(hist, "DEL "+id)
				}
			}
		}
		if rng.Intn(4) == 0 {
			ids := make([]string, 0, len(kinds))
			for id := range kinds {
				ids = append(ids, id)
			}
			sort.Strings(ids)
			rng.Shuffle(len(ids), func(i, j int) { ids[i], ids[j] = ids[j], ids[i] })
			for i := 1 + rng.Intn(10); i < len(ids); i++ {
				c.Delete(ids[i])
				delete(kinds, ids[i])
				if len(hist) < 4000 {
					hist = append(hist, "DEL "+ids[i])
				}
			}
		}
		if c.Count() > 64 {
			multilevel++
		}
		for q := 0; q < 60 && comparisons < target; q++ {
			a := g.area(ghosts)
			for _, cmd := range []string{"within", "intersects"} {
				pred := func(o *object.Object) bool {
					if cmd == "within" {
						return o.Geo().Within(a.obj)
					}
					return o.Geo().Intersects(a.obj)
				}
				idx := map[string]int{}
				iter := func(o *object.Object) bool { idx[o.ID()]++; return true }
				if cmd == "within" {
					c.Within(a.obj, 0, nil, nil, iter)
				} else {
					c.Intersects(a.obj, 0, nil, nil, iter)
				}
				scan := map[string]bool{}
				c.Scan(false, nil, nil, func(o *object.Object) bool {
					comparisons++
					if o.IsSpatial() && !o.Geo().Empty() && pred(o) {
						scan[o.ID()] = true
					}
					return true
				})
				queries++
				areaKinds[a.kind]++
				if len(scan) > 0 || len(idx) > 0 {
					nontrivial++
				}
				report := func(kind, id string) {
					mismatches++
					class := kind + "/" + cmd + "/" + a.kind
					classes[class]++
					if classes[class] > 2 {
						return
					}
					obj := "-"
					if o := c.Get(id); o != nil {
						obj = o.String()
					}
					h := hist
					if len(h) > 400 {
						h = h[len(h)-400:]
					}
					fmt.Printf("VERIF-C02-MISMATCH kind=%s cmd=%s area=%s id=%s n=%d\tobject=%s\tareajson=%s\thistory_tail=%s\n", kind, cmd, a.kind, id, c.Count(), obj, a.obj.String(), strings.Join(h, " ; "))
				}
				for id, k := range idx {
					if k > 1 {
						report("duplicate", id)
					} else if !scan[id] {
						report("invented", id)
					}
				}
				for id := range scan {
					if idx[id] == 0 {
						report("lost", id)
					}
				}
				if rng.Intn(4) == 0 {
					sp := uint8(1 + rng.Intn(5))
					sidx := map[string]int{}
					siter := func(o *object.Object) bool { sidx[o.ID()]++; return true }
					if cmd == "within" {
						c.Within(a.obj, sp, nil, nil, siter)
					} else {
						c.Intersects(a.obj, sp, nil, nil, siter)
					}
					queries++
					for id, k := range sidx {
						if k > 1 {
							report("sparse-duplicate", id)
						} else if !scan[id] {
							report("sparse-invented", id)
						}
					}
				}
			}
		}
	}
	ak := make([]string, 0, len(areaKinds))
	for k, v := range areaKinds {
		ak = append(ak, fmt.Sprintf("%s:%d", k, v))
	}
	sort.Strings(ak)
	ck := make([]string, 0, len(classes))
	for k, v := range classes {
		ck = append(ck, fmt.Sprintf("%s:%d", k, v))
	}
	sort.Strings(ck)
	fmt.Printf("VERIF-C02-SUMMARY seed=%d comparisons=%d queries=%d nontrivial=%d datasets=%d multilevel=%d mismatches=%d areas=%s classes=%s\n",
		seed, comparisons, queries, nontrivial, datasets, multilevel, mismatches, strings.Join(ak, ","), strings.Join(ck, ","))
}
