#!/bin/sh
# setup_cmd: build the harness binary offline from files on disk.
set -e
cd "$(dirname "$0")/harness"
export GOFLAGS=-mod=mod GOPROXY=off
mkdir -p ../bin
go build -o ../bin/verifcheck ./cmd/verifcheck
