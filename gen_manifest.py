#!/usr/bin/env python3
# Regenerates MANIFEST.json from the table below (kept in one place so that it stays valid).
import json
CHECKS = {
 "C01": ("exploration", "Every reply of the real server is compared with an independent sequential map model, and the full visible dataset with the model state, over a breadth-first sweep of the small-alphabet state graph and long random programs over hostile alphabets.",
         "Trusts the harness RESP codec and kmodel (written from the docs); geometry text of HASH/OBJECT literals pinned at first read; TTL judged as interval.",
         "runtime monitoring: reference-model oracle over client-observed replies and API state dumps", "4/C01"),
 "C03": ("fault_enumeration", "Real server processes are stopped (SIGTERM), killed (kill -9 at PRNG instants) or kill themselves at named crash points in the append/flush/pre-write path; the API-visible state before the stop is compared with the state after restart; a command matrix makes every data-modifying command (directly and from every script variant) the last write to a dedicated key; under load every acknowledged unique token must be present, objects never partially applied, and the recovered state must equal a model replay of the recovered log.",
         "kill -9 keeps the page cache (no power-loss semantics); dump through the public API; kmodel for log replay.",
         "runtime monitoring with fault injection: state-dump differential across stop/crash/restart, acknowledged-token oracle, log-replay model", "4/C03"),
 "C04": ("fault_enumeration", "Logs written by real servers are cut at enumerated byte offsets (every offset of short logs in thorough; tail commands, boundary neighbourhoods, loader-buffer boundaries and PRNG offsets in quick) and padded with zero runs; each variant is loaded by a real server and judged on: starts, repaired size == last command boundary, state == clean-cut load, later write survives a second restart.",
         "The state of a clean-cut log is taken as reference (C03 decides its correctness); independent log parser for the boundaries.",
         "runtime monitoring with fault enumeration: differential start-up on truncated/padded logs", "4/C04"),
 "C08": ("exploration", "A verif build carries an in-process monitor that, at every reply write, compares the sending goroutine's last logged command sequence number with the flushed sequence number; workloads of 2-16 concurrently writing connections run under perturbation patterns (sleep/yield at the four legal preemption points of the pre-write path) that manufacture the flush/clear/test interleavings on demand; a hook-free second oracle kills the process at PRNG instants and requires every acknowledged token in appendonly.aof.",
         "Ownership of a logged command by the goroutine that executes it; kill -9 keeps data handed to write(2). No fsync claim.",
         "runtime monitoring: in-process assertion at the send hook under injected schedule perturbations + kill-9 acknowledged-token oracle", "4/C08"),
 "C09": ("fault_enumeration", "Real servers run AOFSHRINK on generated datasets sized on the scan-batch boundaries; verif gate points park the rewrite after every key batch / id batch / before the swap while a scripted writer issues every write command against scanned, in-scan and unscanned keys; named crash points kill the process at each step of the rewrite and of the rename sequence (with and without concurrent token writers); oracles: live dump before == after the shrink, dump after restart == live dump, TTLs not shortened beyond rounding, every acknowledged token recovered after a crash.",
         "Shrink completion read from the hook arrival counter; SIGKILL keeps the page cache; known finding rename-during-shrink is matched only when the difference is confined to collections named in an applied RENAME.",
         "runtime monitoring with fault injection: gate/crash points inside the rewrite, dump differential across shrink/restart", "4/C09"),
 "C07": ("exploration", "Histories of 2-32 concurrent connections are recorded at the client boundary (call/return times from one monotonic clock, replies) together with the append-only file; a linear-time log-order checker matches every log entry to the operation that caused it (unique tokens, per-client command-word casing), replays the log through the sequential model (each write's reply must equal the model's at its log position), checks that log order never contradicts real time and that every read / no-op write equals the model's reply at some log position inside its real-time window with cross-client monotonicity; short histories are also checked with porcupine, independently of the log; the same workload (plus live fences and background expiry) runs on a -race build, reports touching lock-guarded state and runtime fatals are violations.",
         "kmodel as the sequential specification; harness clock; race reports are classified by stack frames (statistics/logging races are recorded, not judged).",
         "runtime monitoring: offline log-order/linearizability checkers over recorded histories (porcupine + own checker) and the Go race detector", "4/C07"),
 "C19": ("exploration", "Model-tracked histories biased to kind-changing overwrites, TTL changes, renames, drops and PDEL run against a verif build; at intervals an in-process AUDIT command cross-checks the id tree against the spatial, value and expiry indexes, the four counters, the hook registries and the group maps, and a client-side monitor recomputes STATS, SERVER totals, SCAN COUNT, SEARCH COUNT, KEYS and BOUNDS from the SCAN dump and checks that every retrievable object is found through SEARCH / WITHIN / INTERSECTS / NEARBY and nothing else is; in_memory_size and num_points are compared with a fresh server holding one SET per object.",
         "A BOUNDS-born rectangle counts 2 points; BOUNDS deviations below one float32 step are the listed finding bounds-float32-tie; the AUDIT code is part of the trusted base.",
         "runtime monitoring: in-process invariant audit at quiescent points + client-side recomputation oracle", "4/C19"),
 "C18": ("exploration", "Atomicity: concurrent script clients (EVAL/EVALSHA/EVALNA) write two objects per call with a unique token while plain writers and single-SCAN readers run; monitors: no SCAN sees a half-applied script, no foreign log entry between the two writes of an atomic script (EVALNA interleavings are counted to show the monitor can see them), porcupine with each script as one model step. Read-only: a hostile script list under EVALRO/EVALROSHA with dump and log-size differential. Sandbox: everything reachable from the script globals is enumerated from Go (verif build) and probed from inside scripts for every Lua 5.1 / gopher-lua library name and compared with the documented allow-list; creation of globals and survival of per-call globals (also on failing calls, observed through WHEREEVAL on the pooled state) are probed.",
         "The allow-list coded in the check is the documented environment; kmodel for the porcupine step; restart/follower reproduction of script writes is decided by C03/C06.",
         "runtime monitoring: recorded-history checkers (reader snapshots, log adjacency, porcupine) + differential probes + in-process enumeration of the Lua environment", "4/C18"),
 "C14": ("exploration", "Sequences of SET EX / EXPIRE / PERSIST / overwrite / delete / rename / FSET / JSET at PRNG phases relative to the 100 ms sweeper run against real servers; a time-disciplined oracle judges 'never early' against the client's send time, 'eventually gone' against ack time + T + 5 s while PING answers within 100 ms (reads straddling a deadline are not judged), TTL replies as intervals, successors surviving a predecessor's deadline (stale timers), and that every expiry is a logged DEL observed by fences (del message), a caught-up follower, and a restart; hooks/channels with EX likewise; bulk expiry of 50-500 objects.",
         "Client monotonic clock vs server wall clock (20 ms guard band, no clock steps); machine load yields no judgement or inconclusive; known finding restart:ttl-rearmed.",
         "runtime monitoring: bounded-progress oracle over polled reads, log/fence/follower/restart observers", "4/C14"),
 "C06": ("fault_enumeration", "Leader and follower run as separate processes with a harness TCP proxy between them; generated leader histories (all write commands, hooks, scripts, > 512 KiB logs) with a monotone marker; follower initial states {empty, true prefix, unrelated data} x {below, above the checksum window}; fault sequences from {follower restart, kill -9, connection drop, cut at a byte offset, leader AOFSHRINK, follower SIGSTOP/SIGCONT, sliced delivery, leader restart}; oracles: bounded convergence to dump equality once healthy and quiescent, and a HEALTHZ poller that requires the follower's marker to be at least what the leader had acknowledged before the follower's latest reconnect whenever it claims healthy.",
         "Reconnect instants are read at the proxy; 25 s bounded-progress window; dumps through the public API.",
         "runtime monitoring with fault injection: two-process dump differential + online marker monitor", "4/C06"),
}
def main():
    old = json.load(open('/verif/MANIFEST.json'))
    checks = []
    for pid in sorted(CHECKS):
        lvl, text, note, tech, ref = CHECKS[pid]
        checks.append({
            "property_id": pid, "quick_cmd": f"./check {pid} quick", "thorough_cmd": f"./check {pid} thorough",
            "evidence_file": f"evidence/{pid}.json", "engine": "verifcheck",
            "level_claimed": {"category": lvl, "text": text + " Held = on the executions produced; evidence lists what was observed.", "design_ref": "DESIGN.md " + ref},
            "level_note": note, "technique": tech})
    props = [json.loads(l)["id"] for l in open('/verif/properties.jsonl')]
    na = [{"property_id": p, "reason": "check under construction in this session (see DESIGN.md section 4); not yet claimed"} for p in props if p not in CHECKS]
    old["checks"] = checks
    old["not_applicable"] = na
    old["engines"][0]["serves_properties"] = sorted(CHECKS)
    json.dump(old, open('/verif/MANIFEST.json', 'w'), indent=1)
main()
