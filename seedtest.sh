#!/bin/sh
# seedtest.sh <patch.diff> <Cxx> [quick|thorough] [seed]
# Applies a seeded change to a scratch worktree of /repo HEAD (outside /repo and /verif), runs the
# check against it (VERIF_REPO), prints the verdict lines, removes the worktree.
set -e
patch=$(readlink -f "$1"); prop=$2; tier=${3:-quick}; seed=${4:-1}
wt=/tmp/wt-eval-$$; vd=/tmp/vd-eval-$$
git -C /repo worktree add -q "$wt" HEAD
trap 'git -C /repo worktree remove --force "$wt" >/dev/null 2>&1; rm -rf "$vd"' EXIT
git -C "$wt" apply "$patch"
mkdir -p "$vd"; cp /verif/KNOWN_FINDINGS.txt "$vd"/; [ -d /verif/inpkg ] && cp -r /verif/inpkg "$vd"/
cd /verif
VERIF_REPO="$wt" VERIF_DIR="$vd" VERIF_SEED=$seed ./check "$prop" "$tier" 2>/dev/null | grep -E "^(VIOLATION|KNOWN-FINDING|RESULT|INCONCLUSIVE)" | cut -c1-420 | awk 'NR<=6 || /RESULT/'
