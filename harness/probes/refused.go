// Package probes holds small fixed scenarios shared by several checks.
package probes

import (
	"fmt"
	"time"

	"verifharness/core"
	"verifharness/dump"
	"verifharness/respc"
	"verifharness/srv"
)

// RefusedChangesNothing: a command that is answered with an error (or, for the
// NX / XX / missing-target forms, with a negative answer) leaves the dataset,
// the key list and the collection count exactly as they were. The commands are
// ones the server refuses for reasons outside the plain keyspace model - a
// hook or channel on a RENAME operand, a JSON path the setter rejects, invalid
// geometry, reserved field names - on keys that exist and on keys that do not.
func RefusedChangesNothing(ctx *core.Ctx, bin, prefix string) {
	s, err := srv.Start(srv.Opts{Bin: bin})
	if err != nil {
		ctx.Inconclusive("refused-commands probe: " + err.Error())
		return
	}
	defer s.Kill9()
	c, err := respc.Dial(s.Addr(), 5*time.Second)
	if err != nil {
		ctx.Inconclusive("refused-commands probe: " + err.Error())
		return
	}
	defer c.Close()
	c.Timeout = 10 * time.Second
	for _, cmd := range [][]string{
		{"SET", "src", "a", "FIELD", "n", "1", "POINT", "1", "2"}, {"SET", "src", "b", "STRING", "text"},
		{"SET", "dst", "x", "FIELD", "n", "2", "POINT", "3", "4"}, {"SET", "dst", "y", "OBJECT", `{"type":"Feature","geometry":{"type":"Point","coordinates":[5,6]},"properties":{"p":1}}`},
		{"SET", "plain", "p", "POINT", "7", "8"}, {"SET", "plain", "doc", "STRING", `{"a":{"b":1}}`},
		{"SET", "hooked", "h", "POINT", "9", "10"},
		{"SETCHAN", "chan-on-dst", "NEARBY", "dst", "FENCE", "POINT", "3", "4", "1000"},
		{"SETCHAN", "chan-on-hooked", "WITHIN", "hooked", "FENCE", "BOUNDS", "0", "0", "20", "20"},
	} {
		if r, err := c.Do(cmd...); err != nil || r.IsErr() {
			ctx.Inconclusive(fmt.Sprintf("refused-commands probe: setup %q: %v %s", cmd, err, r.String()))
			return
		}
	}
	type snap struct {
		st         *dump.State
		keys, srvn string
	}
	take := func() (snap, error) {
		st, err := dump.TakeConn(c, dump.Opts{})
		if err != nil {
			return snap{}, err
		}
		k, err := c.Do("KEYS", "*")
		if err != nil {
			return snap{}, err
		}
		sv, err := c.Do("SERVER")
		if err != nil {
			return snap{}, err
		}
		n := ""
		for i := 0; i+1 < len(sv.Arr); i += 2 {
			if sv.Arr[i].Str == "num_collections" || sv.Arr[i].Str == "num_objects" || sv.Arr[i].Str == "num_hooks" {
				n += sv.Arr[i].Str + "=" + sv.Arr[i+1].Text() + " "
			}
		}
		return snap{st, k.String(), n}, nil
	}
	cmds := [][]string{
		// RENAME operands that carry a channel: refused, and nothing may have happened before the refusal
		{"RENAME", "src", "dst"}, {"RENAMENX", "src", "dst"}, {"RENAME", "hooked", "plain"}, {"RENAME", "plain", "hooked"}, {"RENAME", "hooked", "fresh1"}, {"RENAMENX", "hooked", "fresh2"},
		{"RENAME", "nokey", "plain"}, {"RENAMENX", "nokey", "fresh3"},
		// JSON edits the setter rejects, on new keys, new ids and existing objects of both kinds
		{"JSET", "newkey1", "id", "", "1"}, {"JSET", "plain", "newid", "", "1"}, {"JSET", "plain", "doc", "", "1"}, {"JSET", "dst", "y", "type", "Nonsense"}, {"JSET", "dst", "y", "geometry.coordinates", "x"},
		{"JSET", "newkey2", "id", "a", "{", "RAW"}, {"JDEL", "newkey3", "id", "a"}, {"JDEL", "plain", "doc", ""}, {"JDEL", "dst", "y", "type"}, {"JDEL", "dst", "y", "geometry"},
		// writes that fail while their arguments are parsed, after the key may have been looked up or created
		{"SET", "newkey4", "id", "POINT", "abc", "1"}, {"SET", "newkey5", "id", "OBJECT", `{"type":"Point","coordinates":[1`}, {"SET", "newkey6", "id", "FIELD", "z", "1", "POINT", "1", "1"},
		{"SET", "newkey7", "id", "EX", "soon", "POINT", "1", "1"}, {"SET", "newkey8", "id", "BOUNDS", "1", "2", "3"}, {"SET", "newkey9", "id", "HASH", "!!!"}, {"SET", "newkey10", "id", "XX", "POINT", "1", "1"},
		{"SET", "plain", "p", "NX", "POINT", "50", "50"}, {"SET", "plain", "newid2", "XX", "POINT", "50", "50"}, {"SET", "plain", "p", "FIELD", "lat", "1", "POINT", "50", "50"}, {"SET", "plain", "p", "POINT", "91", "1000", "x"},
		{"FSET", "newkey11", "id", "f", "1"}, {"FSET", "plain", "noid", "f", "1"}, {"FSET", "plain", "p", "XX"}, {"FSET", "plain", "p", "z", "1"}, {"FSET", "plain", "noid", "XX", "f", "1"},
		{"EXPIRE", "newkey12", "id", "10"}, {"EXPIRE", "plain", "noid", "10"}, {"EXPIRE", "plain", "p", "soon"}, {"PERSIST", "newkey13", "id"}, {"PERSIST", "plain", "p"},
		{"DEL", "newkey14", "id", "ERRON404"}, {"DEL", "plain", "noid", "ERRON404"}, {"DEL", "plain", "noid"}, {"PDEL", "newkey15", "*"}, {"PDEL", "plain", "zz*"}, {"DROP", "newkey16"},
		// hook commands that are refused
		{"SETCHAN", "badchan", "NEARBY", "plain", "FENCE", "POINT", "abc", "1", "10"}, {"SETHOOK", "badhook", "nosuchscheme://x", "NEARBY", "plain", "FENCE", "POINT", "1", "1", "10"},
		{"SETCHAN", "chan-on-dst", "NEARBY", "dst", "FENCE", "POINT", "3"}, {"DELCHAN", "nochan"}, {"PDELCHAN", "zz*"}, {"DELHOOK", "chan-on-dst"},
	}
	before, err := take()
	if err != nil {
		ctx.Inconclusive("refused-commands probe: " + err.Error())
		return
	}
	for _, cmd := range cmds {
		r, err := c.Do(cmd...)
		if err != nil {
			if !s.Alive() {
				_, site := s.Crashed()
				ctx.Violation("crash:"+site, fmt.Sprintf("server died on %q: %s", cmd, site), map[string]any{"command": cmd})
			} else {
				ctx.Inconclusive(fmt.Sprintf("refused-commands probe: %q: %v", cmd, err))
			}
			return
		}
		negative := r.IsErr() || (r.Kind == ':' && r.Int == 0) || (r.Kind == '$' && r.Nil)
		if !negative {
			// the server accepted it: not a refused command on this tree, the dataset moves on
			ctx.Count(prefix+"_refused_probe_accepted", 1)
			if before, err = take(); err != nil {
				ctx.Inconclusive("refused-commands probe: " + err.Error())
				return
			}
			continue
		}
		after, err := take()
		if err != nil {
			ctx.Inconclusive("refused-commands probe: " + err.Error())
			return
		}
		ctx.Eval(1)
		ctx.Count(prefix+"_refused_commands_checked", 1)
		ctx.Distinct("refused|" + cmd[0] + "|" + r.String())
		d := dump.Diff(before.st, after.st)
		if d == "" && before.keys != after.keys {
			d = "KEYS * was " + before.keys + ", is " + after.keys
		}
		if d == "" && before.srvn != after.srvn {
			d = "SERVER counters were " + before.srvn + ", are " + after.srvn
		}
		if d != "" {
			ctx.Violation("refused-command-changed-state:"+cmd[0], fmt.Sprintf("%q was answered %s and still changed the server (A=before B=after): %s", cmd, r.String(), d), map[string]any{"command": cmd, "reply": r.String()})
			return
		}
	}
}
