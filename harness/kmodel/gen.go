package kmodel

import (
	"fmt"
	"math/rand"
	"strconv"
	"strings"

	"verifharness/dump"
)

// CompareDump compares the model's dataset with a dump taken through the API.
// Returns "" when equal.
func (m *Model) CompareDump(st *dump.State) string {
	var out []string
	for _, k := range sortedKeys(m.Cols) {
		col := m.Cols[k]
		got, ok := st.Cols[k]
		if !ok {
			out = append(out, fmt.Sprintf("collection %q (%d objects) missing from server", k, len(col)))
			continue
		}
		gm := map[string]dump.Object{}
		for _, o := range got {
			gm[o.ID] = o
		}
		ids := sortedKeys(col)
		if len(got) == len(ids) {
			for i, id := range ids {
				if got[i].ID != id {
					out = append(out, fmt.Sprintf("collection %q: scan order differs at %d: model %q server %q", k, i, id, got[i].ID))
					break
				}
			}
		}
		for _, id := range ids {
			o := col[id]
			g, ok := gm[id]
			if !ok {
				out = append(out, fmt.Sprintf("%q/%q missing from server", k, id))
				continue
			}
			want := o.Text
			if !o.Str && o.Text == "" {
				if c, ok := m.Canonical[o.Lit]; ok {
					want = c
				} else {
					m.Canonical[o.Lit] = g.Text
					want = g.Text
				}
			}
			if want != g.Text {
				out = append(out, fmt.Sprintf("%q/%q object: model %q server %q", k, id, want, g.Text))
			}
			var wf []string
			for _, n := range sortedKeys(o.Fields) {
				wf = append(wf, n, o.Fields[n].Data)
			}
			if strings.Join(wf, "\x01") != strings.Join(g.Fields, "\x01") {
				out = append(out, fmt.Sprintf("%q/%q fields: model %q server %q", k, id, wf, g.Fields))
			}
			if o.HasEx != g.HasEx {
				out = append(out, fmt.Sprintf("%q/%q has-deadline: model %v server %v", k, id, o.HasEx, g.HasEx))
			}
		}
		for _, g := range got {
			if _, ok := col[g.ID]; !ok {
				out = append(out, fmt.Sprintf("%q/%q on server but not in model", k, g.ID))
			}
		}
	}
	for k, c := range st.Cols {
		if _, ok := m.Cols[k]; !ok {
			out = append(out, fmt.Sprintf("collection %q (%d objects) on server but not in model", k, len(c)))
		}
	}
	if len(out) > 6 {
		out = out[:6]
	}
	return strings.Join(out, "; ")
}

// Gen generates keyspace commands.
type Gen struct {
	R      *rand.Rand
	Keys   []string
	IDs    []string
	Fields []string
	Rich   bool          // richer literals (geojson kinds, odd numbers, unicode)
	NoTTL  bool          // never generate EX/EXPIRE
	Token  func() string // optional: unique token source embedded into a field "tok"
}

// DefaultGen is the small alphabet (many collisions).
func DefaultGen(r *rand.Rand) *Gen {
	return &Gen{R: r, Keys: []string{"k1", "k2", "kx"}, IDs: []string{"a", "b", "ab", "az", "c1"}, Fields: []string{"f", "g", "Speed"}}
}

// RichGen uses hostile names.
func RichGen(r *rand.Rand) *Gen {
	return &Gen{R: r, Rich: true,
		Keys:   []string{"k1", "k:2", "key with space", "k*", "k?x", "клю", "k\x01", "K1", "[k]"},
		IDs:    []string{"a", "b", "a*", "a?", "ad", "id with space", "İd", "a\\b", "\"q\"", "a{b}", "0", "-1", "truck:1", "[x]"},
		Fields: []string{"f", "g", "Speed", "speed", "a b", "ŧ", "F", "_", "x9", "name\"q", ""}}
}

func (g *Gen) pick(a []string) string { return a[g.R.Intn(len(a))] }

var richObjects = []string{
	`{"type":"Point","coordinates":[-112.5,33.25]}`,
	`{"type":"Point","coordinates":[10,20,30]}`,
	`{"type":"LineString","coordinates":[[0,0],[1,1],[2,0.5]]}`,
	`{"type":"Polygon","coordinates":[[[0,0],[4,0],[4,4],[0,4],[0,0]]]}`,
	`{"type":"Polygon","coordinates":[[[0,0],[10,0],[10,10],[0,10],[0,0]],[[2,2],[4,2],[4,4],[2,4],[2,2]]]}`,
	`{"type":"MultiPoint","coordinates":[[1,2],[3,4]]}`,
	`{"type":"MultiLineString","coordinates":[[[0,0],[1,1]],[[2,2],[3,3]]]}`,
	`{"type":"MultiPolygon","coordinates":[[[[0,0],[1,0],[1,1],[0,1],[0,0]]],[[[5,5],[6,5],[6,6],[5,6],[5,5]]]]}`,
	`{"type":"GeometryCollection","geometries":[{"type":"Point","coordinates":[1,1]},{"type":"LineString","coordinates":[[0,0],[2,2]]}]}`,
	`{"type":"Feature","geometry":{"type":"Point","coordinates":[7,8]},"properties":{"name":"x","n":1}}`,
	`{"type":"Feature","id":"fid","geometry":{"type":"Polygon","coordinates":[[[0,0],[1,0],[1,1],[0,0]]]},"properties":null}`,
	`{"type":"FeatureCollection","features":[{"type":"Feature","geometry":{"type":"Point","coordinates":[1,2]},"properties":{}}]}`,
	`{"type":"MultiPoint","coordinates":[]}`,
	`{"type":"GeometryCollection","geometries":[]}`,
	`{ "type" : "Point" , "coordinates" : [ 1.50 , 2.0 ] }`,
}

var richValues = []string{"1", "2", "-3", "2.5", "1e3", "0", "0.0", "-0", "00", "0x10", "1_0", " 7 ", "abc", "ABC", "Abc", "hello world",
	"true", "false", "null", "True", `{"a":1, "b":[1,2]}`, `[1, 2,3]`, `"quoted"`, `""`, "é", "10", "9", "1.0", "1.00", "+5", ".5", "5.", "tok"}

var hashes = []string{"9tbnwg", "9tbnw", "u4pruydqqvj", "s0", "7zzzzz", "ezs42"}

func (g *Gen) num() string {
	switch g.R.Intn(4) {
	case 0:
		return strconv.Itoa(g.R.Intn(5))
	case 1:
		return strconv.FormatFloat(float64(g.R.Intn(2000)-1000)/8, 'f', -1, 64)
	case 2:
		return strconv.Itoa(g.R.Intn(180) - 90)
	}
	return strconv.FormatFloat(g.R.Float64()*100-50, 'f', 4, 64)
}

func (g *Gen) value() string {
	if g.Rich && g.R.Intn(2) == 0 {
		return g.pick(richValues)
	}
	switch g.R.Intn(6) {
	case 0:
		return "0"
	case 1:
		return g.pick([]string{"abc", "ABC", "xyz", "b"})
	default:
		return strconv.Itoa(g.R.Intn(4))
	}
}

// Object returns the object part of a SET.
func (g *Gen) Object() []string {
	n := 4
	if g.Rich {
		n = 8
	}
	switch g.R.Intn(n) {
	case 0:
		return []string{"STRING", g.pick([]string{"hello", "", "v1", "with space", `{"j":1}`, "0"})}
	case 1, 2:
		lat := strconv.FormatFloat(float64(g.R.Intn(1600)-800)/10, 'f', -1, 64)
		lon := strconv.FormatFloat(float64(g.R.Intn(3400)-1700)/10, 'f', -1, 64)
		if g.R.Intn(4) == 0 {
			if g.R.Intn(4) == 0 {
				return []string{"POINT", lat, lon, g.pick([]string{"0", "0.0", "-0", "0e0"})} // an altitude of zero is still an altitude
			}
			return []string{"POINT", lat, lon, strconv.Itoa(g.R.Intn(100) + 1)}
		}
		return []string{"POINT", lat, lon}
	case 3:
		a := g.R.Intn(80) - 40
		b := g.R.Intn(160) - 80
		return []string{"BOUNDS", strconv.Itoa(a), strconv.Itoa(b), strconv.Itoa(a + 1 + g.R.Intn(10)), strconv.Itoa(b + 1 + g.R.Intn(10))}
	case 4:
		return []string{"HASH", g.pick(hashes)}
	case 5, 6:
		return []string{"OBJECT", g.pick(richObjects)}
	default:
		return []string{"point", "33.5", "-112.25"}
	}
}

func word(w string, r *rand.Rand) string {
	switch r.Intn(5) {
	case 0:
		return strings.ToLower(w)
	case 1:
		return strings.ToUpper(w[:1]) + strings.ToLower(w[1:])
	}
	return w
}

// Next returns one command (reads and writes mixed).
func (g *Gen) Next() []string {
	r := g.R
	k, id := g.pick(g.Keys), g.pick(g.IDs)
	switch r.Intn(34) {
	case 0, 1, 2, 3, 4, 5, 6:
		a := []string{word("SET", r), k, id}
		nf := r.Intn(3)
		if g.Token != nil {
			a = append(a, "FIELD", "tok", g.Token())
		}
		for i := 0; i < nf; i++ {
			a = append(a, word("FIELD", r), g.pick(g.Fields), g.value())
		}
		if !g.NoTTL && r.Intn(5) == 0 {
			a = append(a, word("EX", r), strconv.Itoa(1000+r.Intn(1000)))
		}
		switch r.Intn(6) {
		case 0:
			a = append(a, word("NX", r))
		case 1:
			a = append(a, word("XX", r))
		}
		return append(a, g.Object()...)
	case 7, 8, 9:
		a := []string{word("FSET", r), k, id}
		if r.Intn(4) == 0 {
			a = append(a, "XX")
		}
		n := 1 + r.Intn(2)
		for i := 0; i < n; i++ {
			a = append(a, g.pick(g.Fields), g.value())
		}
		return a
	case 10, 11:
		if r.Intn(4) == 0 {
			return []string{word("DEL", r), k, id, "ERRON404"}
		}
		return []string{word("DEL", r), k, id}
	case 12:
		pats := []string{"*", "a*", "?", "b", "[a-b]*", "c?", "*1"}
		if g.Rich {
			// escaped metacharacters: the pattern names ONE id that contains *, ?, [ or \
			pats = append(pats, `a\*`, `a\?`, `\[x\]`, `a\\b`, `a\**`, `id\ with*`, `\a`)
		}
		return []string{word("PDEL", r), k, g.pick(pats)}
	case 13:
		return []string{word("DROP", r), k}
	case 14:
		return []string{word("RENAME", r), k, g.pick(g.Keys)}
	case 15:
		return []string{word("RENAMENX", r), k, g.pick(g.Keys)}
	case 16:
		if r.Intn(6) == 0 {
			return []string{word("FLUSHDB", r)}
		}
		return []string{"TYPE", k}
	case 17:
		if g.NoTTL {
			return []string{"EXISTS", k, id}
		}
		return []string{word("EXPIRE", r), k, id, strconv.Itoa(1000 + r.Intn(1000))}
	case 18:
		return []string{word("PERSIST", r), k, id}
	case 19:
		return []string{"JSET", k, id, g.pick([]string{"p", "q", "r"}), g.pick([]string{"1", "2.5", "abc", "true", "null", "x1"})}
	case 20:
		if r.Intn(2) == 0 {
			return []string{"JSET", k, id, g.pick([]string{"p", "q"}), g.pick([]string{"7", "abc"}), g.pick([]string{"RAW", "STR"})}
		}
		return []string{"JSET", k, id, g.pick([]string{"coordinates.0", "coordinates.1"}), strconv.Itoa(r.Intn(80))}
	case 21:
		return []string{"JDEL", k, id, g.pick([]string{"p", "q", "r", "coordinates.2"})}
	case 22:
		return []string{"GET", k, id}
	case 23:
		return []string{"GET", k, id, "WITHFIELDS"}
	case 24:
		return []string{"FGET", k, id, g.pick(g.Fields)}
	case 25:
		return []string{"EXISTS", k, id}
	case 26:
		return []string{"FEXISTS", k, id, g.pick(g.Fields)}
	case 27:
		return []string{"TTL", k, id}
	case 28:
		if g.Rich && r.Intn(2) == 0 {
			return []string{"KEYS", g.pick([]string{`k\*`, `k\?x`, `\[k\]`, `k\**`, `[kK]1`, `k[^1]*`})}
		}
		return []string{"KEYS", g.pick([]string{"*", "k*", "k?", "k1"})}
	case 29:
		return []string{"SCAN", k}
	case 30:
		return []string{"SCAN", k, g.pick([]string{"IDS", "COUNT"})}
	case 31:
		if r.Intn(2) == 0 {
			return []string{"JGET", k, id}
		}
		return []string{"JGET", k, id, g.pick([]string{"p", "q", "type"})}
	case 32:
		if g.Rich && r.Intn(2) == 0 {
			return []string{"SCAN", k, "MATCH", g.pick([]string{`a\*`, `a\?`, `\[x\]`, `a\\b`, `[a-b]?`, `*\**`}), g.pick([]string{"IDS", "IDS", "COUNT"})}
		}
		if r.Intn(3) == 0 {
			// several patterns (any may match), one prefix inside the other, in both orders and directions
			p := g.pick([]string{"a*|ab*", "ab*|a*", "b*|a*", "a*|b*|ab*", "i*|id*", "id*|i*"})
			c := []string{"SCAN", k}
			if r.Intn(2) == 0 {
				c = append(c, "DESC")
			}
			for _, pat := range strings.Split(p, "|") {
				c = append(c, "MATCH", pat)
			}
			return append(c, g.pick([]string{"IDS", "COUNT"}))
		}
		return []string{"SCAN", k, "MATCH", g.pick([]string{"a*", "*", "?", "b"}), g.pick([]string{"IDS", "IDS", "COUNT"})}
	default:
		return []string{"GET", k, id, "WITHFIELDS"}
	}
}
