// Package kmodel is the sequential reference model of the tile38 keyspace:
// collection -> id -> (object, fields, has-deadline). It is written from the
// command documentation and reply conventions (DESIGN.md appendix B), not by
// calling tile38 code. It predicts the exact RESP reply of every keyspace
// command and the visible state after it.
package kmodel

import (
	"bytes"
	"encoding/json"
	"math"
	"sort"
	"strconv"
	"strings"
	"unicode"

	"verifharness/respc"
)

// Value kinds in the documented order Null < False < Number < String < True < JSON.
const (
	KNull = iota
	KFalse
	KNumber
	KString
	KTrue
	KJSON
)

// FVal is a canonical field value.
type FVal struct {
	Kind int
	Data string
	Num  float64
}

// IsZero: the literal number 0 is "unset".
func (v FVal) IsZero() bool { return v.Kind == KNumber && v.Data == "0" }

// Canon canonicalises a field value as documented: surrounding space trimmed,
// JSON numbers keep their text, true/false/null, JSON objects/arrays minified,
// JSON string literals unquoted, inf/nan spellings normalised, else a string.
func Canon(s string) FVal {
	s = strings.TrimSpace(s)
	if n, err := strconv.ParseFloat(s, 64); err == nil {
		if math.IsInf(n, 1) {
			return FVal{KNumber, "+Inf", n}
		}
		if math.IsInf(n, -1) {
			return FVal{KNumber, "-Inf", n}
		}
		if math.IsNaN(n) {
			return FVal{KNumber, "NaN", n}
		}
		if isJSONNumber(s) {
			return FVal{KNumber, s, n}
		}
	} else if json.Valid([]byte(s)) {
		switch {
		case s == "null":
			return FVal{KNull, "null", 0}
		case s == "true":
			return FVal{KTrue, "true", 0}
		case s == "false":
			return FVal{KFalse, "false", 0}
		case s[0] == '{' || s[0] == '[':
			var b bytes.Buffer
			json.Compact(&b, []byte(s))
			return FVal{KJSON, b.String(), 0}
		case s[0] == '"':
			var str string
			if json.Unmarshal([]byte(s), &str) == nil {
				s = str
			}
		}
	}
	switch strings.ToLower(s) {
	case "nan":
		return FVal{KNumber, "NaN", math.NaN()}
	case "inf", "+inf", "infinity", "+infinity":
		return FVal{KNumber, "+Inf", math.Inf(1)}
	case "-inf", "-infinity":
		return FVal{KNumber, "-Inf", math.Inf(-1)}
	}
	return FVal{KString, s, 0}
}

func isJSONNumber(s string) bool {
	// JSON grammar: -? (0|[1-9][0-9]*) (.[0-9]+)? ([eE][+-]?[0-9]+)?
	i := 0
	if i < len(s) && s[i] == '-' {
		i++
	}
	if i >= len(s) {
		return false
	}
	if s[i] == '0' {
		i++
	} else if s[i] >= '1' && s[i] <= '9' {
		for i < len(s) && s[i] >= '0' && s[i] <= '9' {
			i++
		}
	} else {
		return false
	}
	if i < len(s) && s[i] == '.' {
		i++
		j := i
		for i < len(s) && s[i] >= '0' && s[i] <= '9' {
			i++
		}
		if i == j {
			return false
		}
	}
	if i < len(s) && (s[i] == 'e' || s[i] == 'E') {
		i++
		if i < len(s) && (s[i] == '+' || s[i] == '-') {
			i++
		}
		j := i
		for i < len(s) && s[i] >= '0' && s[i] <= '9' {
			i++
		}
		if i == j {
			return false
		}
	}
	return i == len(s)
}

func lowerASCII(s string) string {
	b := []byte(s)
	for i, c := range b {
		if c >= 'A' && c <= 'Z' {
			b[i] = c + 32
		}
	}
	return string(b)
}

// Less is the documented value order (strings compare case-insensitively).
func Less(a, b FVal) bool {
	if a.Kind != b.Kind {
		return a.Kind < b.Kind
	}
	switch a.Kind {
	case KNumber:
		return a.Num < b.Num
	case KString:
		la, lb := lowerASCII(a.Data), lowerASCII(b.Data)
		if la != lb {
			// compare bytewise on folded text, prefix shorter first
			return la < lb
		}
		return false
	}
	return a.Data < b.Data
}

// Equal under the value order.
func Equal(a, b FVal) bool { return !Less(a, b) && !Less(b, a) }

// Zero is the value of an unset field.
var Zero = FVal{KNumber, "0", 0}

// Obj is one stored object.
type Obj struct {
	Str        bool     // string object
	Text       string   // string value, or the predicted geometry text ("" when opaque)
	Lit        string   // geometry literal key (pins opaque canonical text)
	GType      string   // GeoJSON type name when known ("Point", "Polygon", ...)
	Pt         []string // for points: formatted x, y[, z]
	BoundsArgs []string // for BOUNDS-born objects: minlat minlon maxlat maxlon as given
	JDoc       []KV     // for strings built by JSET: ordered members
	IsJDoc     bool
	Fields     map[string]FVal
	HasEx      bool
	ExSec      float64 // the seconds given
	Stamp      int64   // logical time of the command that set the deadline
}

// KV is a JSON member with its raw value text.
type KV struct{ K, Raw string }

func (o *Obj) clone() *Obj {
	n := *o
	n.Fields = make(map[string]FVal, len(o.Fields))
	for k, v := range o.Fields {
		n.Fields[k] = v
	}
	n.Pt = append([]string(nil), o.Pt...)
	n.JDoc = append([]KV(nil), o.JDoc...)
	return &n
}

// Hook is a registered webhook or channel (only what RENAME/FLUSHDB need).
type Hook struct {
	Name    string
	Key     string
	Channel bool
}

// Model is the whole visible dataset.
type Model struct {
	Cols  map[string]map[string]*Obj
	Hooks map[string]*Hook // name with "h:" / "c:" prefix
	// Canon pins the canonical text tile38 returns for an opaque geometry literal.
	Canonical map[string]string
	Clock     int64
}

// New returns the empty model.
func New() *Model {
	return &Model{Cols: map[string]map[string]*Obj{}, Hooks: map[string]*Hook{}, Canonical: map[string]string{}}
}

// Clone deep-copies the dataset (the canonical-text table is shared).
func (m *Model) Clone() *Model {
	n := &Model{Cols: map[string]map[string]*Obj{}, Hooks: map[string]*Hook{}, Canonical: m.Canonical, Clock: m.Clock}
	for k, c := range m.Cols {
		nc := make(map[string]*Obj, len(c))
		for id, o := range c {
			nc[id] = o.clone()
		}
		n.Cols[k] = nc
	}
	for k, h := range m.Hooks {
		hh := *h
		n.Hooks[k] = &hh
	}
	return n
}

// Markers inside expected replies.
const (
	MarkGeo    = "\x00G:"   // bulk: opaque geometry text for literal key
	MarkTTL    = "\x00TTL:" // int: remaining seconds of a deadline given as seconds
	MarkAnyErr = "\x00ANYERR"
	MarkAny    = "\x00ANY"
)

func errReply(s string) respc.Reply { return respc.Err("ERR " + s) }
func wrongArgs(cmd string) respc.Reply {
	return respc.Err("ERR wrong number of arguments for '" + cmd + "' command")
}
func invalidArg(a string) respc.Reply { return errReply("invalid argument '" + a + "'") }

var (
	errKeyNotFound = errReply("key not found")
	errIDNotFound  = errReply("id not found")
)

// Match compares an expected reply (possibly containing markers) with the
// observed one, learning canonical geometry texts on first sight.
func (m *Model) Match(exp, got respc.Reply) (bool, string) {
	if exp.Kind == '$' && !exp.Nil && strings.HasPrefix(exp.Str, MarkAny) && !strings.HasPrefix(exp.Str, MarkAnyErr) {
		return true, ""
	}
	if exp.Kind == '-' && exp.Str == MarkAnyErr {
		if got.Kind == '-' {
			return true, ""
		}
		return false, "expected an error reply, got " + got.String()
	}
	if exp.Kind == ':' && strings.HasPrefix(exp.Str, MarkTTL) {
		if got.Kind != ':' {
			return false, "expected integer TTL, got " + got.String()
		}
		sec, _ := strconv.ParseFloat(exp.Str[len(MarkTTL):], 64)
		if got.Int < 0 || float64(got.Int) > sec {
			return false, "TTL " + got.String() + " outside [0," + strconv.FormatFloat(sec, 'f', -1, 64) + "]"
		}
		return true, ""
	}
	if exp.Kind == '$' && !exp.Nil && strings.HasPrefix(exp.Str, MarkGeo) {
		lit := exp.Str[len(MarkGeo):]
		if got.Kind != '$' || got.Nil {
			return false, "expected geometry text for " + lit + ", got " + got.String()
		}
		if c, ok := m.Canonical[lit]; ok {
			if c != got.Str {
				return false, "geometry text for " + lit + " changed: first read " + c + ", now " + got.Str
			}
			return true, ""
		}
		if !json.Valid([]byte(got.Str)) || !strings.Contains(got.Str, `"type"`) {
			return false, "geometry text for " + lit + " is not GeoJSON: " + got.Str
		}
		m.Canonical[lit] = got.Str
		return true, ""
	}
	if exp.Kind != got.Kind {
		return false, "expected " + exp.String() + " got " + got.String()
	}
	switch exp.Kind {
	case '*':
		if exp.Nil != got.Nil || len(exp.Arr) != len(got.Arr) {
			return false, "expected " + m.Show(exp) + " got " + got.String()
		}
		for i := range exp.Arr {
			if ok, why := m.Match(exp.Arr[i], got.Arr[i]); !ok {
				return false, why + " (element " + strconv.Itoa(i) + " of " + got.String() + ")"
			}
		}
		return true, ""
	case ':':
		if exp.Int != got.Int {
			return false, "expected " + exp.String() + " got " + got.String()
		}
	default:
		if exp.Nil != got.Nil || exp.Str != got.Str {
			return false, "expected " + exp.String() + " got " + got.String()
		}
	}
	return true, ""
}

// Show renders an expected reply with markers made readable.
func (m *Model) Show(r respc.Reply) string {
	return strings.ReplaceAll(r.String(), "\\x00", "~")
}

func sortedKeys[V any](mp map[string]V) []string {
	ks := make([]string, 0, len(mp))
	for k := range mp {
		ks = append(ks, k)
	}
	sort.Strings(ks)
	return ks
}

// fmtNum formats a coordinate as tile38 documents its output: shortest decimal.
func fmtNum(s string) (string, bool) {
	f, err := strconv.ParseFloat(s, 64)
	if err != nil {
		return "", false
	}
	return strconv.FormatFloat(f, 'f', -1, 64), true
}

// objText is the expected object text reply.
func objText(o *Obj) respc.Reply {
	if o.Str {
		return respc.Bulk(o.Text)
	}
	if o.Text != "" {
		return respc.Bulk(o.Text)
	}
	return respc.Bulk(MarkGeo + o.Lit)
}

func fieldsReply(o *Obj) (respc.Reply, bool) {
	names := sortedKeys(o.Fields)
	if len(names) == 0 {
		return respc.Reply{}, false
	}
	arr := make([]respc.Reply, 0, 2*len(names))
	for _, n := range names {
		arr = append(arr, respc.Bulk(n), respc.Bulk(o.Fields[n].Data))
	}
	return respc.Array(arr...), true
}

func pointText(pt []string) string {
	return `{"type":"Point","coordinates":[` + strings.Join(pt, ",") + `]}`
}

func isReserved(name string) bool {
	switch name {
	case "z", "lat", "lon":
		return true
	}
	return false
}

// parseGeo interprets the object part of SET starting at args[i]; returns the
// object (without fields/deadline), the next index, or an error reply.
func parseGeo(args []string, i int) (*Obj, int, *respc.Reply) {
	bad := func(r respc.Reply) (*Obj, int, *respc.Reply) { return nil, 0, &r }
	switch strings.ToLower(args[i]) {
	case "string":
		if i+1 >= len(args) {
			return bad(wrongArgs("set"))
		}
		return &Obj{Str: true, Text: args[i+1]}, i + 2, nil
	case "point":
		if i+2 >= len(args) {
			return bad(wrongArgs("set"))
		}
		j := i + 3
		var zs string
		hasZ := false
		if j < len(args) {
			if _, err := strconv.ParseFloat(args[j], 64); err == nil {
				zs = args[j]
				hasZ = true
				j++
			}
		}
		lat, ok1 := fmtNum(args[i+1])
		if !ok1 {
			return bad(invalidArg(args[i+1]))
		}
		lon, ok2 := fmtNum(args[i+2])
		if !ok2 {
			return bad(invalidArg(args[i+2]))
		}
		pt := []string{lon, lat}
		if hasZ {
			z, _ := fmtNum(zs)
			pt = append(pt, z)
		}
		return &Obj{Text: pointText(pt), GType: "Point", Pt: pt}, j, nil
	case "bounds":
		if i+4 >= len(args) {
			return bad(wrongArgs("set"))
		}
		var v [4]string
		for k := 0; k < 4; k++ {
			s, ok := fmtNum(args[i+1+k])
			if !ok {
				return bad(invalidArg(args[i+1+k]))
			}
			v[k] = s
		}
		minlat, minlon, maxlat, maxlon := v[0], v[1], v[2], v[3]
		txt := `{"type":"Polygon","coordinates":[[[` + minlon + `,` + minlat + `],[` + maxlon + `,` + minlat + `],[` + maxlon + `,` + maxlat + `],[` + minlon + `,` + maxlat + `],[` + minlon + `,` + minlat + `]]]}`
		return &Obj{Text: txt, GType: "Polygon", BoundsArgs: append([]string(nil), args[i+1:i+5]...)}, i + 5, nil
	case "hash":
		if i+1 >= len(args) {
			return bad(wrongArgs("set"))
		}
		return &Obj{Lit: "hash:" + args[i+1], GType: "Point"}, i + 2, nil
	case "object":
		if i+1 >= len(args) {
			return bad(wrongArgs("set"))
		}
		js := args[i+1]
		if !json.Valid([]byte(js)) {
			r := respc.Err(MarkAnyErr)
			return bad(r)
		}
		var probe struct {
			Type string `json:"type"`
		}
		json.Unmarshal([]byte(js), &probe)
		return &Obj{Lit: "object:" + js, GType: probe.Type}, i + 2, nil
	}
	return bad(invalidArg(args[i]))
}

// Apply executes one command and returns the expected RESP reply. known=false
// means the model does not cover this command form (the caller must not judge).
func (m *Model) Apply(args []string) (exp respc.Reply, known bool) {
	m.Clock++
	if len(args) == 0 {
		return respc.Reply{}, false
	}
	cmd := strings.ToLower(args[0])
	switch cmd {
	case "set":
		return m.set(args)
	case "fset":
		return m.fset(args)
	case "del":
		if len(args) < 3 {
			return wrongArgs(cmd), true
		}
		erron := false
		for _, a := range args[3:] {
			if strings.ToLower(a) == "erron404" {
				erron = true
			} else {
				return invalidArg(a), true
			}
		}
		col := m.Cols[args[1]]
		if col == nil {
			if erron {
				return errKeyNotFound, true
			}
			return respc.Int(0), true
		}
		if _, ok := col[args[2]]; !ok {
			if erron {
				return errIDNotFound, true
			}
			return respc.Int(0), true
		}
		delete(col, args[2])
		if len(col) == 0 {
			delete(m.Cols, args[1])
		}
		return respc.Int(1), true
	case "pdel":
		if len(args) != 3 {
			return wrongArgs(cmd), true
		}
		col := m.Cols[args[1]]
		n := 0
		for _, id := range sortedKeys(col) {
			if GlobMatch(args[2], id) {
				delete(col, id)
				n++
			}
		}
		if col != nil && len(col) == 0 {
			delete(m.Cols, args[1])
		}
		return respc.Int(int64(n)), true
	case "drop":
		if len(args) != 2 {
			return wrongArgs(cmd), true
		}
		if _, ok := m.Cols[args[1]]; ok {
			delete(m.Cols, args[1])
			return respc.Int(1), true
		}
		return respc.Int(0), true
	case "rename", "renamenx":
		if len(args) != 3 {
			return wrongArgs(cmd), true
		}
		nx := cmd == "renamenx"
		col, ok := m.Cols[args[1]]
		if !ok {
			return errKeyNotFound, true
		}
		hasHook, hasChan := false, false
		for _, h := range m.Hooks {
			if h.Key == args[1] || h.Key == args[2] {
				if h.Channel {
					hasChan = true
				} else {
					hasHook = true
				}
			}
		}
		if hasHook {
			return errReply("key has hooks set"), true
		}
		if hasChan {
			return errReply("key has channels set"), true
		}
		_, exists := m.Cols[args[2]]
		if exists && nx {
			return respc.Int(0), true
		}
		delete(m.Cols, args[1])
		m.Cols[args[2]] = col
		if nx {
			return respc.Int(1), true
		}
		return respc.Simple("OK"), true
	case "flushdb":
		if len(args) != 1 {
			return wrongArgs(cmd), true
		}
		m.Cols = map[string]map[string]*Obj{}
		m.Hooks = map[string]*Hook{}
		return respc.Simple("OK"), true
	case "expire":
		if len(args) != 4 {
			return wrongArgs(cmd), true
		}
		sec, err := strconv.ParseFloat(args[3], 64)
		if err != nil {
			return invalidArg(args[3]), true
		}
		o := m.get(args[1], args[2])
		if o == nil {
			return respc.Int(0), true
		}
		o.HasEx = true
		o.ExSec = sec
		o.Stamp = m.Clock
		return respc.Int(1), true
	case "persist":
		if len(args) != 3 {
			return wrongArgs(cmd), true
		}
		o := m.get(args[1], args[2])
		if o == nil || !o.HasEx {
			return respc.Int(0), true
		}
		o.HasEx = false
		return respc.Int(1), true
	case "ttl":
		if len(args) != 3 {
			return wrongArgs(cmd), true
		}
		o := m.get(args[1], args[2])
		if o == nil {
			return respc.Int(-2), true
		}
		if !o.HasEx {
			return respc.Int(-1), true
		}
		return respc.Reply{Kind: ':', Str: MarkTTL + strconv.FormatFloat(o.ExSec, 'f', -1, 64)}, true
	case "get":
		return m.getCmd(args)
	case "fget":
		if len(args) < 4 {
			return wrongArgs(cmd), true
		}
		col := m.Cols[args[1]]
		if col == nil {
			return errKeyNotFound, true
		}
		o := col[args[2]]
		if o == nil {
			return errIDNotFound, true
		}
		if strings.Contains(args[3], ".") {
			return respc.Reply{}, false // dotted names are JSON paths
		}
		if v, ok := o.Fields[args[3]]; ok {
			return respc.Bulk(v.Data), true
		}
		return respc.Bulk("0"), true
	case "exists":
		if len(args) != 3 {
			return wrongArgs(cmd), true
		}
		col := m.Cols[args[1]]
		if col == nil {
			return errKeyNotFound, true
		}
		if col[args[2]] != nil {
			return respc.Int(1), true
		}
		return respc.Int(0), true
	case "fexists":
		if len(args) != 4 {
			return wrongArgs(cmd), true
		}
		col := m.Cols[args[1]]
		if col == nil {
			return errKeyNotFound, true
		}
		o := col[args[2]]
		if o == nil {
			return errIDNotFound, true
		}
		if strings.Contains(args[3], ".") {
			return respc.Reply{}, false
		}
		if _, ok := o.Fields[args[3]]; ok {
			return respc.Int(1), true
		}
		return respc.Int(0), true
	case "type":
		if len(args) != 2 {
			return wrongArgs(cmd), true
		}
		if _, ok := m.Cols[args[1]]; ok {
			return respc.Simple("hash"), true
		}
		return respc.Simple("none"), true
	case "keys":
		if len(args) != 2 {
			return wrongArgs(cmd), true
		}
		var arr []respc.Reply
		for _, k := range sortedKeys(m.Cols) {
			if GlobMatch(args[1], k) {
				arr = append(arr, respc.Bulk(k))
			}
		}
		return respc.Array(arr...), true
	case "scan":
		return m.scan(args)
	case "jset":
		return m.jset(args)
	case "jdel":
		return m.jdel(args)
	case "jget":
		return m.jget(args)
	case "sethook", "setchan":
		// only bookkeeping needed by RENAME/FLUSHDB; reply not modelled here
		if len(args) >= 3 {
			pre := "h:"
			if cmd == "setchan" {
				pre = "c:"
			}
			key := ""
			// find the collection key: first arg after NEARBY/WITHIN/INTERSECTS
			for i := 2; i < len(args)-1; i++ {
				switch strings.ToLower(args[i]) {
				case "nearby", "within", "intersects":
					key = args[i+1]
				}
				if key != "" {
					break
				}
			}
			m.Hooks[pre+args[1]] = &Hook{Name: args[1], Key: key, Channel: cmd == "setchan"}
		}
		return respc.Reply{}, false
	case "delhook", "delchan":
		if len(args) == 2 {
			pre := "h:"
			if cmd == "delchan" {
				pre = "c:"
			}
			delete(m.Hooks, pre+args[1])
		}
		return respc.Reply{}, false
	case "pdelhook", "pdelchan":
		if len(args) == 2 {
			pre := "h:"
			if cmd == "pdelchan" {
				pre = "c:"
			}
			for k, h := range m.Hooks {
				if strings.HasPrefix(k, pre) && GlobMatch(args[1], h.Name) {
					delete(m.Hooks, k)
				}
			}
		}
		return respc.Reply{}, false
	}
	return respc.Reply{}, false
}

func (m *Model) get(key, id string) *Obj {
	col := m.Cols[key]
	if col == nil {
		return nil
	}
	return col[id]
}

func (m *Model) set(args []string) (respc.Reply, bool) {
	if len(args) < 3 {
		return wrongArgs("set"), true
	}
	key, id := args[1], args[2]
	type fv struct {
		name string
		v    FVal
	}
	var fields []fv
	var nx, xx, hasEx bool
	var exSec float64
	var obj *Obj
	for i := 3; i < len(args); {
		switch strings.ToLower(args[i]) {
		case "field":
			if i+2 >= len(args) {
				return wrongArgs("set"), true
			}
			name := strings.TrimSpace(args[i+1])
			if isReserved(args[i+1]) {
				return invalidArg(args[i+1]), true
			}
			if strings.Contains(name, ".") {
				return respc.Reply{}, false
			}
			fields = append(fields, fv{name, Canon(args[i+2])})
			i += 3
		case "ex":
			if i+1 >= len(args) {
				return wrongArgs("set"), true
			}
			s, err := strconv.ParseFloat(args[i+1], 64)
			if err != nil {
				return invalidArg(args[i+1]), true
			}
			hasEx = true
			exSec = s
			i += 2
		case "nx":
			if xx {
				return invalidArg(args[i]), true
			}
			nx = true
			i++
		case "xx":
			if nx {
				return invalidArg(args[i]), true
			}
			xx = true
			i++
		case "return":
			return respc.Reply{}, false
		default:
			o, ni, bad := parseGeo(args, i)
			if bad != nil {
				return *bad, true
			}
			obj = o
			i = ni
		}
	}
	if obj == nil {
		return wrongArgs("set"), true
	}
	old := m.get(key, id)
	if xx && old == nil {
		return respc.Null(), true
	}
	if nx && old != nil {
		return respc.Null(), true
	}
	obj.Fields = map[string]FVal{}
	if old != nil {
		for k, v := range old.Fields {
			obj.Fields[k] = v
		}
	}
	for _, f := range fields {
		if f.v.IsZero() {
			delete(obj.Fields, f.name)
		} else {
			obj.Fields[f.name] = f.v
		}
	}
	obj.HasEx = hasEx
	obj.ExSec = exSec
	obj.Stamp = m.Clock
	col := m.Cols[key]
	if col == nil {
		col = map[string]*Obj{}
		m.Cols[key] = col
	}
	col[id] = obj
	return respc.Simple("OK"), true
}

func (m *Model) fset(args []string) (respc.Reply, bool) {
	if len(args) < 5 {
		return wrongArgs("fset"), true
	}
	key, id := args[1], args[2]
	xx := false
	type fv struct {
		name string
		v    FVal
	}
	var fields []fv
	for i := 3; i < len(args); i++ {
		switch strings.ToLower(args[i]) {
		case "xx":
			xx = true
		case "return":
			return respc.Reply{}, false
		default:
			name := args[i]
			i++
			if i == len(args) {
				return wrongArgs("fset"), true
			}
			if isReserved(name) {
				return invalidArg(name), true
			}
			if strings.Contains(name, ".") {
				return respc.Reply{}, false
			}
			fields = append(fields, fv{strings.TrimSpace(name), Canon(args[i])})
		}
	}
	col := m.Cols[key]
	if col == nil {
		return errKeyNotFound, true
	}
	o := col[id]
	if o == nil {
		if xx {
			return respc.Int(0), true
		}
		return errIDNotFound, true
	}
	n := 0
	for _, f := range fields {
		prev, ok := o.Fields[f.name]
		if !ok {
			prev = Zero
		}
		if !Equal(prev, f.v) || prev.Data != f.v.Data {
			n++
			if f.v.IsZero() {
				delete(o.Fields, f.name)
			} else {
				o.Fields[f.name] = f.v
			}
		}
	}
	return respc.Int(int64(n)), true
}

func (m *Model) getCmd(args []string) (respc.Reply, bool) {
	if len(args) < 3 {
		return wrongArgs("get"), true
	}
	withfields := false
	kind := "object"
	for i := 3; i < len(args); i++ {
		switch strings.ToLower(args[i]) {
		case "withfields":
			withfields = true
		case "object":
			kind = "object"
		case "point", "bounds", "hash":
			return respc.Reply{}, false
		default:
			return wrongArgs("get"), true
		}
	}
	_ = kind
	o := m.get(args[1], args[2])
	if o == nil {
		return respc.Null(), true
	}
	if !withfields {
		return objText(o), true
	}
	arr := []respc.Reply{objText(o)}
	if fr, ok := fieldsReply(o); ok {
		arr = append(arr, fr)
	}
	return respc.Array(arr...), true
}

// scan models: SCAN key [LIMIT n] [IDS|COUNT|OBJECTS] [ASC|DESC] [MATCH pat]
func (m *Model) scan(args []string) (respc.Reply, bool) {
	if len(args) < 2 {
		return wrongArgs("scan"), true
	}
	limit := 100
	out := "objects"
	desc := false
	var pats []string
	var wheres []func(o *Obj) bool
	for i := 2; i < len(args); i++ {
		switch strings.ToLower(args[i]) {
		case "where":
			// WHERE name min max  |  WHERE "name OP number"
			if i+1 < len(args) && strings.ContainsAny(args[i+1], "<>=!") {
				f, ok := parseSimpleExpr(args[i+1])
				if !ok {
					return respc.Reply{}, false
				}
				wheres = append(wheres, f)
				i++
				continue
			}
			if i+3 >= len(args) || strings.Contains(args[i+1], ".") {
				return respc.Reply{}, false
			}
			name := args[i+1]
			lo, err1 := strconv.ParseFloat(args[i+2], 64)
			hi, err2 := strconv.ParseFloat(args[i+3], 64)
			if err1 != nil || err2 != nil {
				return respc.Reply{}, false
			}
			wheres = append(wheres, func(o *Obj) bool {
				v, ok := o.Fields[name]
				if !ok {
					v = Zero
				}
				if v.Kind != KNumber {
					// only numeric fields are modelled
					return v.Kind < KNumber && false
				}
				return v.Num >= lo && v.Num <= hi
			})
			i += 3
		case "limit":
			if i+1 >= len(args) {
				return respc.Reply{}, false
			}
			n, err := strconv.Atoi(args[i+1])
			if err != nil || n <= 0 {
				return respc.Reply{}, false
			}
			limit = n
			i++
		case "ids":
			out = "ids"
		case "count":
			out = "count"
		case "objects":
			out = "objects"
		case "asc":
			desc = false
		case "desc":
			desc = true
		case "match":
			if i+1 >= len(args) {
				return respc.Reply{}, false
			}
			pats = append(pats, args[i+1])
			i++
		default:
			return respc.Reply{}, false
		}
	}
	col := m.Cols[args[1]]
	ids := sortedKeys(col)
	if desc {
		for i, j := 0, len(ids)-1; i < j; i, j = i+1, j-1 {
			ids[i], ids[j] = ids[j], ids[i]
		}
	}
	var sel []string
	for _, id := range ids {
		ok := len(pats) == 0
		for _, p := range pats {
			if GlobMatch(p, id) {
				ok = true
			}
		}
		for _, w := range wheres {
			if !w(col[id]) {
				ok = false
			}
		}
		if ok {
			sel = append(sel, id)
		}
	}
	cursor := int64(0)
	if len(sel) > limit {
		return respc.Reply{}, false // paging is C11's business
	}
	if out == "count" {
		return respc.Int(int64(len(sel))), true
	}
	items := make([]respc.Reply, 0, len(sel))
	for _, id := range sel {
		o := col[id]
		if out == "ids" {
			items = append(items, respc.Bulk(id))
			continue
		}
		e := []respc.Reply{respc.Bulk(id), objText(o)}
		if fr, ok := fieldsReply(o); ok {
			e = append(e, fr)
		}
		items = append(items, respc.Array(e...))
	}
	return respc.Array(respc.Int(cursor), respc.Array(items...)), true
}

// parseSimpleExpr handles `name OP number` (OP in > >= < <= == !=); a missing
// field reads as 0; only numeric field values are modelled (others: no match
// claimed -> the caller restricts the alphabet to numeric values for such fields).
func parseSimpleExpr(e string) (func(o *Obj) bool, bool) {
	parts := strings.Fields(e)
	if len(parts) != 3 || !simpleWord(parts[0]) {
		return nil, false
	}
	n, err := strconv.ParseFloat(parts[2], 64)
	if err != nil {
		return nil, false
	}
	name, op := parts[0], parts[1]
	switch op {
	case ">", ">=", "<", "<=", "==", "!=":
	default:
		return nil, false
	}
	return func(o *Obj) bool {
		v := 0.0
		if f, ok := o.Fields[name]; ok {
			if f.Kind != KNumber {
				return false
			}
			v = f.Num
		}
		switch op {
		case ">":
			return v > n
		case ">=":
			return v >= n
		case "<":
			return v < n
		case "<=":
			return v <= n
		case "==":
			return v == n
		}
		return v != n
	}, true
}

func simpleWord(s string) bool {
	if s == "" {
		return false
	}
	for _, r := range s {
		if !(unicode.IsLetter(r) || unicode.IsDigit(r) || r == '_') || r > 127 {
			return false
		}
	}
	return true
}

func docText(doc []KV) string {
	var sb strings.Builder
	sb.WriteByte('{')
	for i, kv := range doc {
		if i > 0 {
			sb.WriteByte(',')
		}
		sb.WriteString(strconv.Quote(kv.K))
		sb.WriteByte(':')
		sb.WriteString(kv.Raw)
	}
	sb.WriteByte('}')
	return sb.String()
}

// jset models JSET on (a) missing ids and string objects that are flat JSON
// documents built by earlier JSETs, with a single-word path, and (b) Point
// objects with path coordinates.N. Other forms are "unknown".
func (m *Model) jset(args []string) (respc.Reply, bool) {
	if len(args) != 5 && len(args) != 6 {
		return wrongArgs("jset"), true
	}
	raw, str := false, false
	if len(args) == 6 {
		switch strings.ToLower(args[5]) {
		case "raw":
			raw = true
		case "str":
			str = true
		default:
			return invalidArg(args[5]), true
		}
	}
	key, id, path, val := args[1], args[2], args[3], args[4]
	if !raw && !str {
		if val == "true" || val == "false" || val == "null" || isPlainJSONNumber(val) {
			raw = true
		}
	}
	o := m.get(key, id)
	if o != nil && !o.Str {
		// geometry: only Point coordinates.N with a numeric value
		if o.Pt == nil || !strings.HasPrefix(path, "coordinates.") || !raw || !isPlainJSONNumber(val) {
			return respc.Reply{}, false
		}
		idx, err := strconv.Atoi(path[len("coordinates."):])
		if err != nil || idx < 0 || idx >= len(o.Pt) {
			return respc.Reply{}, false
		}
		v, _ := fmtNum(val)
		o.Pt[idx] = v
		o.Text = pointText(o.Pt)
		o.HasEx = false // re-enters SET without EX
		return respc.Simple("OK"), true
	}
	if !simpleWord(path) {
		return respc.Reply{}, false
	}
	if raw && !(val == "true" || val == "false" || val == "null" || isPlainJSONNumber(val)) {
		return respc.Reply{}, false
	}
	if !raw && !simpleWord(val) {
		return respc.Reply{}, false
	}
	if raw && isPlainJSONNumber(val) {
		// only canonically spelled numbers: JGET re-formats the others (2.50 -> 2.5)
		if c, _ := fmtNum(val); c != val {
			return respc.Reply{}, false
		}
	}
	rawText := val
	if !raw {
		rawText = strconv.Quote(val)
	}
	var doc []KV
	var fields map[string]FVal
	if o != nil {
		if !o.IsJDoc {
			return respc.Reply{}, false
		}
		doc = o.JDoc
		fields = o.Fields
	} else {
		fields = map[string]FVal{}
	}
	found := false
	for i := range doc {
		if doc[i].K == path {
			doc[i].Raw = rawText
			found = true
		}
	}
	if !found {
		doc = append(doc, KV{path, rawText})
	}
	n := &Obj{Str: true, Text: docText(doc), JDoc: doc, IsJDoc: true, Fields: fields, Stamp: m.Clock}
	col := m.Cols[key]
	if col == nil {
		col = map[string]*Obj{}
		m.Cols[key] = col
	}
	col[id] = n
	return respc.Simple("OK"), true
}

func isPlainJSONNumber(s string) bool {
	// the conservative subset: optional '-', digits, optional fraction
	if s == "" {
		return false
	}
	i := 0
	if s[0] == '-' {
		i++
	}
	if i >= len(s) {
		return false
	}
	if s[i] == '0' && i+1 < len(s) && s[i+1] != '.' {
		return false
	}
	d := 0
	for i < len(s) && s[i] >= '0' && s[i] <= '9' {
		i++
		d++
	}
	if d == 0 {
		return false
	}
	if i < len(s) && s[i] == '.' {
		i++
		d = 0
		for i < len(s) && s[i] >= '0' && s[i] <= '9' {
			i++
			d++
		}
		if d == 0 {
			return false
		}
	}
	return i == len(s)
}

func (m *Model) jdel(args []string) (respc.Reply, bool) {
	if len(args) != 4 {
		return wrongArgs("jdel"), true
	}
	key, id, path := args[1], args[2], args[3]
	col := m.Cols[key]
	if col == nil {
		return respc.Int(0), true
	}
	o := col[id]
	if o == nil {
		return respc.Int(0), true
	}
	if !o.Str {
		if o.Pt != nil && len(o.Pt) == 3 && path == "coordinates.2" {
			o.Pt = o.Pt[:2]
			o.Text = pointText(o.Pt)
			o.HasEx = false
			return respc.Int(1), true
		}
		return respc.Reply{}, false
	}
	if !o.IsJDoc || !simpleWord(path) {
		return respc.Reply{}, false
	}
	for i := range o.JDoc {
		if o.JDoc[i].K == path {
			o.JDoc = append(o.JDoc[:i:i], o.JDoc[i+1:]...)
			o.Text = docText(o.JDoc)
			o.HasEx = false
			return respc.Int(1), true
		}
	}
	return respc.Int(0), true
}

func (m *Model) jget(args []string) (respc.Reply, bool) {
	if len(args) < 3 || len(args) > 5 {
		return wrongArgs("jget"), true
	}
	raw := false
	if len(args) == 5 {
		if strings.ToLower(args[4]) != "raw" {
			return invalidArg(args[4]), true
		}
		raw = true
	}
	o := m.get(args[1], args[2])
	if o == nil {
		return respc.Null(), true
	}
	if len(args) == 3 {
		if o.Str && !o.IsJDoc {
			return respc.Reply{}, false
		}
		return objText(o), true
	}
	path := args[3]
	if !o.Str {
		if path == "type" && o.GType != "" && !raw {
			return respc.Bulk(o.GType), true
		}
		return respc.Reply{}, false
	}
	if !o.IsJDoc || !simpleWord(path) {
		return respc.Reply{}, false
	}
	for _, kv := range o.JDoc {
		if kv.K == path {
			if !raw && kv.Raw == "null" {
				// the string form of a JSON null is the empty string
				return respc.Bulk(""), true
			}
			if raw || kv.Raw[0] != '"' {
				return respc.Bulk(kv.Raw), true
			}
			s, _ := strconv.Unquote(kv.Raw)
			return respc.Bulk(s), true
		}
	}
	return respc.Null(), true
}

// GlobMatch is the documented glob: * ? [set] [a-z] [^neg] and \ escape.
func GlobMatch(pat, s string) bool {
	return globMatch([]byte(pat), []byte(s))
}

func globMatch(p, s []byte) bool {
	for len(p) > 0 {
		switch p[0] {
		case '*':
			for len(p) > 0 && p[0] == '*' {
				p = p[1:]
			}
			if len(p) == 0 {
				return true
			}
			for i := 0; i <= len(s); i++ {
				if globMatch(p, s[i:]) {
					return true
				}
			}
			return false
		case '?':
			if len(s) == 0 {
				return false
			}
			// one character (UTF-8 aware)
			n := 1
			if s[0] >= 0x80 {
				_, n = decodeRune(s)
			}
			s = s[n:]
			p = p[1:]
		case '[':
			if len(s) == 0 {
				return false
			}
			ok, rest, valid := matchClass(p, s)
			if !valid {
				return false
			}
			if !ok {
				return false
			}
			n := 1
			if s[0] >= 0x80 {
				_, n = decodeRune(s)
			}
			s = s[n:]
			p = rest
		case '\\':
			if len(p) < 2 {
				return false
			}
			if len(s) == 0 || s[0] != p[1] {
				return false
			}
			s = s[1:]
			p = p[2:]
		default:
			if len(s) == 0 || s[0] != p[0] {
				return false
			}
			s = s[1:]
			p = p[1:]
		}
	}
	return len(s) == 0
}

func decodeRune(b []byte) (rune, int) {
	r := []rune(string(b[:min(len(b), 4)]))
	if len(r) == 0 {
		return 0, 1
	}
	return r[0], len(string(r[0]))
}

func matchClass(p, s []byte) (ok bool, rest []byte, valid bool) {
	// p[0] == '['
	i := 1
	neg := false
	if i < len(p) && p[i] == '^' {
		neg = true
		i++
	}
	c := s[0]
	matched := false
	first := true
	for {
		if i >= len(p) {
			return false, nil, false
		}
		if p[i] == ']' && !first {
			i++
			break
		}
		first = false
		lo := p[i]
		if lo == '\\' {
			i++
			if i >= len(p) {
				return false, nil, false
			}
			lo = p[i]
		}
		i++
		hi := lo
		if i+1 < len(p) && p[i] == '-' && p[i+1] != ']' {
			hi = p[i+1]
			if hi == '\\' {
				if i+2 >= len(p) {
					return false, nil, false
				}
				hi = p[i+2]
				i++
			}
			i += 2
		}
		if lo <= c && c <= hi {
			matched = true
		}
	}
	return matched != neg, p[i:], true
}

// Key is a canonical text of the dataset (for state equality / hashing).
func (m *Model) Key() string {
	var sb strings.Builder
	for _, k := range sortedKeys(m.Cols) {
		sb.WriteString(strconv.Quote(k) + "{")
		col := m.Cols[k]
		for _, id := range sortedKeys(col) {
			o := col[id]
			sb.WriteString(strconv.Quote(id) + "=")
			if o.Str {
				sb.WriteString("s:" + strconv.Quote(o.Text))
			} else {
				sb.WriteString("g:" + o.Text + o.Lit)
			}
			sb.WriteString("[")
			for _, f := range sortedKeys(o.Fields) {
				sb.WriteString(strconv.Quote(f) + ":" + strconv.Quote(o.Fields[f].Data) + ",")
			}
			sb.WriteString("]")
			if o.HasEx {
				sb.WriteString("!")
			}
			sb.WriteString(";")
		}
		sb.WriteString("}")
	}
	for _, h := range sortedKeys(m.Hooks) {
		sb.WriteString("|" + h + "@" + m.Hooks[h].Key)
	}
	return sb.String()
}
