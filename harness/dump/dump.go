// Package dump reads the visible dataset of a server through its public API
// only and renders it canonically, so that two dumps compare byte for byte.
package dump

import (
	"encoding/json"
	"fmt"
	"sort"
	"strings"
	"time"

	"verifharness/respc"
)

// Object is one retrievable object.
type Object struct {
	ID     string   `json:"id"`
	Text   string   `json:"obj"`
	Fields []string `json:"fields,omitempty"` // name, value, name, value...
	// FJ is the fields object as printed in JSON output mode (keeps the value
	// KIND visible: "123" vs 123, "true" vs true); empty when not collected.
	FJ    string `json:"fj,omitempty"`
	HasEx bool   `json:"ex"`
}

// HookInfo is a hook or channel.
type HookInfo struct {
	Name      string            `json:"name"`
	Key       string            `json:"key"`
	HasEx     bool              `json:"ex"`
	Endpoints []string          `json:"endpoints,omitempty"`
	Command   []string          `json:"command"`
	Meta      map[string]string `json:"meta,omitempty"`
	// ExMag is the decimal order of magnitude of the remaining lifetime (only with Opts.HookTTLMagnitude)
	ExMag int `json:"ex_magnitude,omitempty"`
}

// State is the whole visible dataset.
type State struct {
	Cols  map[string][]Object `json:"cols"`
	Hooks []HookInfo          `json:"hooks"`
	Chans []HookInfo          `json:"chans"`
}

// Canon renders canonical JSON.
func (s *State) Canon() string {
	b, _ := json.Marshal(s)
	return string(b)
}

// NObjects counts objects.
func (s *State) NObjects() int {
	n := 0
	for _, c := range s.Cols {
		n += len(c)
	}
	return n
}

// Opts selects what is read.
type Opts struct {
	Password string
	NoTTL    bool
	NoHooks  bool
	// HookTTLMagnitude also records the order of magnitude of every hook's and channel's
	// remaining lifetime (callers choose lifetimes far from a power of ten)
	HookTTLMagnitude bool
}

func mag(o Opts, ttl int) int {
	if !o.HookTTLMagnitude || ttl <= 0 {
		return 0
	}
	return len(fmt.Sprint(ttl))
}

// Take reads the dataset from addr.
func Take(addr string, o Opts) (*State, error) {
	c, err := respc.Dial(addr, 5*time.Second)
	if err != nil {
		return nil, err
	}
	defer c.Close()
	c.Timeout = 60 * time.Second
	if o.Password != "" {
		if r, err := c.Do("AUTH", o.Password); err != nil || r.IsErr() {
			return nil, fmt.Errorf("auth: %v %s", err, r.String())
		}
	}
	return TakeConn(c, o)
}

// TakeConn reads the dataset over an existing RESP-mode connection.
func TakeConn(c *respc.Conn, o Opts) (*State, error) {
	st := &State{Cols: map[string][]Object{}}
	r, err := c.Do("KEYS", "*")
	if err != nil {
		return nil, err
	}
	if r.Kind != '*' {
		return nil, fmt.Errorf("KEYS: %s", r.String())
	}
	for _, k := range r.Arr {
		key := k.Str
		var objs []Object
		cursor := "0"
		for {
			sr, err := c.Do("SCAN", key, "CURSOR", cursor, "LIMIT", "100000")
			if err != nil {
				return nil, err
			}
			if sr.Kind != '*' || len(sr.Arr) != 2 {
				return nil, fmt.Errorf("SCAN %q: %s", key, sr.String())
			}
			for _, it := range sr.Arr[1].Arr {
				if it.Kind != '*' || len(it.Arr) < 2 {
					return nil, fmt.Errorf("SCAN %q item: %s", key, it.String())
				}
				ob := Object{ID: it.Arr[0].Str, Text: it.Arr[1].Str}
				if len(it.Arr) > 2 {
					for _, f := range it.Arr[2].Arr {
						ob.Fields = append(ob.Fields, f.Str)
					}
				}
				objs = append(objs, ob)
			}
			cursor = sr.Arr[0].Text()
			if cursor == "0" {
				break
			}
		}
		if !o.NoTTL {
			// pipelined TTLs
			for i := 0; i < len(objs); i += 500 {
				j := min(i+500, len(objs))
				for _, ob := range objs[i:j] {
					if err := c.Send("TTL", key, ob.ID); err != nil {
						return nil, err
					}
				}
				for x := i; x < j; x++ {
					tr, err := c.Recv()
					if err != nil {
						return nil, err
					}
					if tr.Kind != ':' {
						return nil, fmt.Errorf("TTL %q %q: %s", key, objs[x].ID, tr.String())
					}
					objs[x].HasEx = tr.Int >= 0
					if tr.Int == -2 {
						// expired between SCAN and TTL; mark distinctly
						objs[x].HasEx = true
					}
				}
			}
		}
		st.Cols[key] = objs
	}
	if !o.NoHooks {
		if _, err := c.Do("OUTPUT", "json"); err != nil {
			return nil, err
		}
		// field kinds: the same SCAN in JSON mode
		for key, objs := range st.Cols {
			js, err := c.DoJSON("SCAN", key, "LIMIT", "1000000")
			if err != nil {
				return nil, err
			}
			var doc struct {
				OK      bool `json:"ok"`
				Objects []struct {
					ID     string          `json:"id"`
					Fields json.RawMessage `json:"fields"`
				} `json:"objects"`
			}
			if err := json.Unmarshal([]byte(js), &doc); err != nil || !doc.OK {
				c.Do("OUTPUT", "resp")
				return nil, fmt.Errorf("SCAN %q in JSON mode: %v %.200s", key, err, js)
			}
			fj := map[string]string{}
			for _, o := range doc.Objects {
				if len(o.Fields) > 0 {
					fj[o.ID] = string(o.Fields)
				}
			}
			for i := range objs {
				objs[i].FJ = fj[objs[i].ID]
			}
		}
		for _, which := range []string{"HOOKS", "CHANS"} {
			js, err := c.DoJSON(which, "*")
			if err != nil {
				return nil, err
			}
			var doc struct {
				OK    bool `json:"ok"`
				Hooks []struct {
					Name      string            `json:"name"`
					Key       string            `json:"key"`
					TTL       int               `json:"ttl"`
					Endpoints []string          `json:"endpoints"`
					Command   []string          `json:"command"`
					Meta      map[string]string `json:"meta"`
				} `json:"hooks"`
				Chans []struct {
					Name    string            `json:"name"`
					Key     string            `json:"key"`
					TTL     int               `json:"ttl"`
					Command []string          `json:"command"`
					Meta    map[string]string `json:"meta"`
				} `json:"chans"`
			}
			if err := json.Unmarshal([]byte(js), &doc); err != nil || !doc.OK {
				c.Do("OUTPUT", "resp")
				return nil, fmt.Errorf("%s *: %v %s", which, err, js)
			}
			for _, h := range doc.Hooks {
				st.Hooks = append(st.Hooks, HookInfo{h.Name, h.Key, h.TTL >= 0, h.Endpoints, h.Command, h.Meta, mag(o, h.TTL)})
			}
			for _, h := range doc.Chans {
				st.Chans = append(st.Chans, HookInfo{h.Name, h.Key, h.TTL >= 0, nil, h.Command, h.Meta, mag(o, h.TTL)})
			}
		}
		sort.Slice(st.Hooks, func(i, j int) bool { return st.Hooks[i].Name < st.Hooks[j].Name })
		sort.Slice(st.Chans, func(i, j int) bool { return st.Chans[i].Name < st.Chans[j].Name })
		if _, err := c.Do("OUTPUT", "resp"); err != nil {
			return nil, err
		}
	}
	return st, nil
}

// Diff returns a short description of the first differences ("" = equal).
func Diff(a, b *State) string {
	if a.Canon() == b.Canon() {
		return ""
	}
	var out []string
	keys := map[string]bool{}
	for k := range a.Cols {
		keys[k] = true
	}
	for k := range b.Cols {
		keys[k] = true
	}
	ks := make([]string, 0, len(keys))
	for k := range keys {
		ks = append(ks, k)
	}
	sort.Strings(ks)
	for _, k := range ks {
		ca, oka := a.Cols[k]
		cb, okb := b.Cols[k]
		if !oka {
			out = append(out, fmt.Sprintf("collection %q only in B (%d objects)", k, len(cb)))
			continue
		}
		if !okb {
			out = append(out, fmt.Sprintf("collection %q only in A (%d objects)", k, len(ca)))
			continue
		}
		ma := map[string]Object{}
		for _, o := range ca {
			ma[o.ID] = o
		}
		mb := map[string]Object{}
		for _, o := range cb {
			mb[o.ID] = o
		}
		for id, oa := range ma {
			ob, ok := mb[id]
			if !ok {
				out = append(out, fmt.Sprintf("%q/%q only in A", k, id))
			} else {
				ja, _ := json.Marshal(oa)
				jb, _ := json.Marshal(ob)
				if string(ja) != string(jb) {
					out = append(out, fmt.Sprintf("%q/%q differs: A=%s B=%s", k, id, trunc(string(ja)), trunc(string(jb))))
				}
			}
		}
		for id := range mb {
			if _, ok := ma[id]; !ok {
				out = append(out, fmt.Sprintf("%q/%q only in B", k, id))
			}
		}
		if len(out) > 6 {
			break
		}
	}
	ha, _ := json.Marshal(a.Hooks)
	hb, _ := json.Marshal(b.Hooks)
	if string(ha) != string(hb) {
		out = append(out, "hooks differ: A="+trunc(string(ha))+" B="+trunc(string(hb)))
	}
	ca, _ := json.Marshal(a.Chans)
	cb, _ := json.Marshal(b.Chans)
	if string(ca) != string(cb) {
		out = append(out, "chans differ: A="+trunc(string(ca))+" B="+trunc(string(cb)))
	}
	if len(out) == 0 {
		out = append(out, "order differs")
	}
	sort.Strings(out)
	if len(out) > 8 {
		out = out[:8]
	}
	return strings.Join(out, "; ")
}

func trunc(s string) string {
	if len(s) > 300 {
		return s[:300] + "..."
	}
	return s
}

// DiffKeys returns the collection keys whose content differs between a and b,
// plus "<hooks>" / "<chans>" when those differ.
func DiffKeys(a, b *State) []string {
	var out []string
	seen := map[string]bool{}
	for k := range a.Cols {
		seen[k] = true
	}
	for k := range b.Cols {
		seen[k] = true
	}
	for k := range seen {
		ja, _ := json.Marshal(a.Cols[k])
		jb, _ := json.Marshal(b.Cols[k])
		_, ina := a.Cols[k]
		_, inb := b.Cols[k]
		if ina != inb || string(ja) != string(jb) {
			out = append(out, k)
		}
	}
	ha, _ := json.Marshal(a.Hooks)
	hb, _ := json.Marshal(b.Hooks)
	if string(ha) != string(hb) {
		out = append(out, "<hooks>")
	}
	ca, _ := json.Marshal(a.Chans)
	cb, _ := json.Marshal(b.Chans)
	if string(ca) != string(cb) {
		out = append(out, "<chans>")
	}
	sort.Strings(out)
	return out
}
