// Package globref is an independent reference for tile38's glob syntax, written
// from the documented grammar (not from tile38's matcher):
//
//	'*'            any sequence of bytes (also empty)
//	'?'            any single character
//	'[' ['^'] { c | c '-' c } ']'   character class, non-empty, '^' negates
//	'\' c          the byte c literally
//	c              the byte c literally
//
// '?' and classes consume one UTF-8 encoded character of the name (a byte that
// is not valid UTF-8 is one character with value U+FFFD, as Go decodes it);
// literals compare byte by byte. The matcher is a plain backtracking matcher
// over a parsed token list; patterns that are not well-formed give an error.
package globref

import (
	"errors"
	"unicode/utf8"
)

// ErrBad is returned for patterns outside the documented grammar.
var ErrBad = errors.New("globref: malformed pattern")

// TokKind is the kind of one parsed pattern element.
type TokKind byte

const (
	TLit   TokKind = 'L' // literal byte
	TEsc   TokKind = 'E' // escaped literal byte
	TStar  TokKind = '*'
	TAny   TokKind = '?'
	TClass TokKind = 'C'
)

// Range is one class item lo..hi (inclusive).
type Range struct{ Lo, Hi rune }

// Tok is one parsed pattern element.
type Tok struct {
	Kind   TokKind
	B      byte    // TLit / TEsc
	Neg    bool    // TClass
	Ranges []Range // TClass
}

// Parse splits a pattern into tokens or fails with ErrBad.
func Parse(p string) ([]Tok, error) {
	var out []Tok
	for i := 0; i < len(p); {
		switch p[i] {
		case '*':
			out = append(out, Tok{Kind: TStar})
			i++
		case '?':
			out = append(out, Tok{Kind: TAny})
			i++
		case '\\':
			if i+1 >= len(p) {
				return nil, ErrBad
			}
			out = append(out, Tok{Kind: TEsc, B: p[i+1]})
			i += 2
		case '[':
			i++
			t := Tok{Kind: TClass}
			if i < len(p) && p[i] == '^' {
				t.Neg = true
				i++
			}
			for {
				if i >= len(p) {
					return nil, ErrBad
				}
				if p[i] == ']' {
					if len(t.Ranges) == 0 {
						return nil, ErrBad
					}
					i++
					break
				}
				lo, n, err := classChar(p[i:])
				if err != nil {
					return nil, err
				}
				i += n
				hi := lo
				if i < len(p) && p[i] == '-' {
					i++
					hi, n, err = classChar(p[i:])
					if err != nil {
						return nil, err
					}
					i += n
				}
				t.Ranges = append(t.Ranges, Range{lo, hi})
			}
			out = append(out, t)
		default:
			out = append(out, Tok{Kind: TLit, B: p[i]})
			i++
		}
	}
	return out, nil
}

func classChar(s string) (rune, int, error) {
	if len(s) == 0 || s[0] == '-' || s[0] == ']' {
		return 0, 0, ErrBad
	}
	k := 0
	if s[0] == '\\' {
		k = 1
		if len(s) == 1 {
			return 0, 0, ErrBad
		}
	}
	r, n := utf8.DecodeRuneInString(s[k:])
	if r == utf8.RuneError && n <= 1 {
		return 0, 0, ErrBad
	}
	return r, k + n, nil
}

// Match reports whether the whole of s matches pattern p ('*' may stop at any
// byte offset).
func Match(p, s string) (bool, error) {
	toks, err := Parse(p)
	if err != nil {
		return false, err
	}
	return MatchToks(toks, s), nil
}

// Match3 gives the verdict under both readings of '*': stopping at any byte
// offset, or only after whole characters. The two readings differ only when a
// '*' could end in the middle of a multi-byte character, which the documented
// syntax does not decide; must = both say yes, may = at least one says yes.
func Match3(p, s string) (must, may bool, err error) {
	toks, err := Parse(p)
	if err != nil {
		return false, false, err
	}
	a := matchToks(toks, s, false)
	b := a
	if hasStar(toks) && !isASCII(s) {
		b = matchToks(toks, s, true)
	}
	return a && b, a || b, nil
}

func hasStar(toks []Tok) bool {
	for _, t := range toks {
		if t.Kind == TStar {
			return true
		}
	}
	return false
}

func isASCII(s string) bool {
	for i := 0; i < len(s); i++ {
		if s[i] >= 0x80 {
			return false
		}
	}
	return true
}

// MatchToks matches a parsed pattern (memoised backtracking, '*' may stop at
// any byte offset).
func MatchToks(toks []Tok, s string) bool { return matchToks(toks, s, false) }

func matchToks(toks []Tok, s string, wholeChars bool) bool {
	// dead[i][j]: tokens i.. cannot match s[j:]
	dead := make(map[[2]int]bool)
	var rec func(i, j int) bool
	rec = func(i, j int) bool {
		if i == len(toks) {
			return j == len(s)
		}
		key := [2]int{i, j}
		if dead[key] {
			return false
		}
		t := toks[i]
		ok := false
		switch t.Kind {
		case TStar:
			for k := j; k <= len(s) && !ok; {
				ok = rec(i+1, k)
				if k == len(s) {
					break
				}
				if wholeChars {
					_, n := utf8.DecodeRuneInString(s[k:])
					k += n
				} else {
					k++
				}
			}
		case TLit, TEsc:
			ok = j < len(s) && s[j] == t.B && rec(i+1, j+1)
		case TAny:
			if j < len(s) {
				_, n := utf8.DecodeRuneInString(s[j:])
				ok = rec(i+1, j+n)
			}
		case TClass:
			if j < len(s) {
				r, n := utf8.DecodeRuneInString(s[j:])
				in := false
				for _, rg := range t.Ranges {
					if rg.Lo <= r && r <= rg.Hi {
						in = true
					}
				}
				ok = in != t.Neg && rec(i+1, j+n)
			}
		}
		if !ok {
			dead[key] = true
		}
		return ok
	}
	return rec(0, 0)
}

// LitPrefix returns the bytes of the pattern that every match must start with
// (literal and escaped bytes up to the first wildcard or class).
func LitPrefix(toks []Tok) string {
	var b []byte
	for _, t := range toks {
		if t.Kind != TLit && t.Kind != TEsc {
			break
		}
		b = append(b, t.B)
	}
	return string(b)
}

// RawPrefix returns the unescaped literal bytes before the first
// metacharacter of any kind ('*', '?', '[' or '\').
func RawPrefix(toks []Tok) string {
	var b []byte
	for _, t := range toks {
		if t.Kind != TLit {
			break
		}
		b = append(b, t.B)
	}
	return string(b)
}

// Shape is a short signature of a pattern used as a distinctness class:
// the first token kinds (runs collapsed), then flags for hostile bytes in the
// literal prefix.
func Shape(p string) string {
	toks, err := Parse(p)
	if err != nil {
		return "bad"
	}
	var sig []byte
	for _, t := range toks {
		k := byte(t.Kind)
		if t.Kind == TClass && t.Neg {
			k = 'N'
		}
		if len(sig) > 0 && sig[len(sig)-1] == k && (k == 'L' || k == '*') {
			continue
		}
		sig = append(sig, k)
		if len(sig) >= 5 {
			sig = append(sig, '~')
			break
		}
	}
	if len(sig) == 0 {
		return "empty"
	}
	out := string(sig)
	pre := RawPrefix(toks)
	if len(pre) > 0 {
		switch pre[len(pre)-1] {
		case 0x00:
			out += "+end00"
		case 0xff:
			out += "+endff"
		}
	}
	for i := 0; i < len(p); i++ {
		if p[i] >= 0x80 {
			out += "+hi"
			break
		}
	}
	return out
}
