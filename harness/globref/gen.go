package globref

import (
	"math/rand"
	"sort"
	"unicode/utf8"
)

// Gen produces well-formed patterns and names that sit on the boundaries of
// the id ranges an implementation may derive from a pattern's literal prefix.
type Gen struct {
	R *rand.Rand
	// Hostile enables bytes 0x00, 0xff, 0x7f and multi-byte characters.
	Hostile bool
}

var plainLits = []byte("abcABz019_-]^!,")
var hostileLits = []byte{0x00, 0xff, 0x01, 0x7f, 0xfe, 0x80}
var metaBytes = []byte(`*?[\`)

func (g *Gen) litByte() byte {
	if g.Hostile && g.R.Intn(5) == 0 {
		return hostileLits[g.R.Intn(len(hostileLits))]
	}
	if g.R.Intn(3) > 0 {
		return "abc"[g.R.Intn(3)]
	}
	return plainLits[g.R.Intn(len(plainLits))]
}

// char returns one character (possibly multi-byte) for names.
func (g *Gen) char() string {
	if g.Hostile && g.R.Intn(8) == 0 {
		return []string{"é", "ÿ", "世", "\x00", "\xff", "\x80"}[g.R.Intn(6)]
	}
	if g.R.Intn(12) == 0 {
		return string(metaBytes[g.R.Intn(len(metaBytes))])
	}
	return string(g.litByte())
}

func (g *Gen) classRune() rune {
	if g.Hostile && g.R.Intn(8) == 0 {
		return []rune{'é', 0xff, '世', 0x00, 0x7f}[g.R.Intn(5)]
	}
	if g.R.Intn(8) == 0 {
		return []rune{'*', '?', '[', ']', '\\', '-', '^'}[g.R.Intn(7)]
	}
	return rune("abcdABz019"[g.R.Intn(10)])
}

func classText(r rune) string {
	switch r {
	case '\\', '-', ']', '^', '[':
		return "\\" + string(r)
	}
	return string(r)
}

func (g *Gen) class() string {
	s := "["
	if g.R.Intn(3) == 0 {
		s += "^"
	}
	n := 1 + g.R.Intn(3)
	for i := 0; i < n; i++ {
		lo := g.classRune()
		if g.R.Intn(2) == 0 {
			hi := g.classRune()
			if hi < lo && g.R.Intn(4) > 0 {
				lo, hi = hi, lo
			}
			s += classText(lo) + "-" + classText(hi)
		} else {
			s += classText(lo)
		}
	}
	return s + "]"
}

func (g *Gen) lits(n int) string {
	var b []byte
	for i := 0; i < n; i++ {
		c := g.litByte()
		b = append(b, c)
	}
	return string(b)
}

// escOrLit writes a byte so that it is matched literally.
func escByte(c byte) string {
	switch c {
	case '*', '?', '[', '\\':
		return "\\" + string(c)
	}
	return string(c)
}

// Pattern returns one well-formed pattern. The head (what comes before the
// first wildcard) is drawn from the list of shapes the property text names.
func (g *Gen) Pattern() string {
	r := g.R
	var p string
	// head
	switch r.Intn(14) {
	case 0: // pure literal
		return g.lits(1 + r.Intn(3))
	case 1: // star only / star first
		p = "*"
	case 2: // '?' first
		p = "?"
	case 3: // class first
		p = g.class()
	case 4: // escaped metacharacter first
		p = "\\" + string(metaBytes[r.Intn(len(metaBytes))])
	case 5: // literal then escape before the first wildcard
		p = g.lits(1+r.Intn(2)) + "\\" + string([]byte{"*?[\\ab"[r.Intn(6)]})
	case 6: // prefix ending in 0x00
		if !g.Hostile {
			p = g.lits(1 + r.Intn(3))
			break
		}
		p = g.lits(r.Intn(2)) + "\x00"
		if r.Intn(3) == 0 {
			p += "\x00"
		}
	case 7: // prefix ending in 0xff
		if !g.Hostile {
			p = g.lits(1 + r.Intn(3))
			break
		}
		p = g.lits(r.Intn(2)) + "\xff"
		if r.Intn(3) == 0 {
			p += "\xff"
		}
	case 8: // needless escape of an ordinary byte
		p = "\\" + string(g.litByte()) + g.lits(r.Intn(2))
	default:
		p = g.lits(1 + r.Intn(3))
	}
	// tail
	n := r.Intn(4)
	if p != "*" && n == 0 && r.Intn(3) > 0 {
		n = 1
	}
	for i := 0; i < n; i++ {
		switch r.Intn(9) {
		case 0, 1, 2:
			p += "*"
		case 3:
			p += "?"
		case 4:
			p += g.class()
		case 5:
			p += escByte(metaBytes[r.Intn(len(metaBytes))])
		default:
			p += g.lits(1 + r.Intn(2))
		}
	}
	if _, err := Parse(p); err != nil {
		// cannot happen by construction; fall back to something plain
		return "a*"
	}
	return p
}

// Sample returns a string matching the pattern (by construction, then
// confirmed with the matcher; ok=false when none was found).
func (g *Gen) Sample(p string) (string, bool) {
	toks, err := Parse(p)
	if err != nil {
		return "", false
	}
	for try := 0; try < 6; try++ {
		var s string
		for _, t := range toks {
			switch t.Kind {
			case TLit, TEsc:
				s += string([]byte{t.B})
			case TStar:
				for k := g.R.Intn(4); k > 0; k-- {
					s += g.char()
				}
			case TAny:
				s += g.char()
			case TClass:
				s += g.classMember(t)
			}
		}
		if MatchToks(toks, s) {
			return s, true
		}
	}
	return "", false
}

func (g *Gen) classMember(t Tok) string {
	if !t.Neg {
		for try := 0; try < 8; try++ {
			rg := t.Ranges[g.R.Intn(len(t.Ranges))]
			if rg.Hi < rg.Lo {
				continue
			}
			span := int(rg.Hi-rg.Lo) + 1
			var c rune
			switch g.R.Intn(3) {
			case 0:
				c = rg.Lo
			case 1:
				c = rg.Hi
			default:
				c = rg.Lo + rune(g.R.Intn(span))
			}
			if utf8.ValidRune(c) && c != utf8.RuneError {
				return string(c)
			}
		}
		return "a"
	}
	for try := 0; try < 8; try++ {
		c := g.char()
		r, _ := utf8.DecodeRuneInString(c)
		in := false
		for _, rg := range t.Ranges {
			if rg.Lo <= r && r <= rg.Hi {
				in = true
			}
		}
		if !in {
			return c
		}
	}
	return "~"
}

func bump(s string, d int) string {
	if len(s) == 0 {
		return s
	}
	b := []byte(s)
	b[len(b)-1] = byte(int(b[len(b)-1]) + d)
	return string(b)
}

// Boundary returns the names on the edges of the ranges derivable from the
// pattern's literal prefix: prefix, prefix+0x00, prefix+0xff.., prefix with
// its last byte -1 / +1, the prefix shortened, and the same for the unescaped
// prefix (up to the first backslash).
func Boundary(p string) []string {
	toks, err := Parse(p)
	if err != nil {
		return nil
	}
	var out []string
	for _, pre := range []string{RawPrefix(toks), LitPrefix(toks)} {
		if pre == "" {
			out = append(out, "\x00", "\xff", "\x01", "\xfe")
			continue
		}
		out = append(out, pre, pre+"\x00", pre+"\xff", pre+"\xff\xff", pre+"\x00\x00", pre+"a",
			bump(pre, -1), bump(pre, +1), bump(pre, -1)+"\xff", bump(pre, +1)+"\x00",
			pre[:len(pre)-1], pre[:len(pre)-1]+"\xff", pre[:len(pre)-1]+"\x00")
	}
	return out
}

// Names builds a name universe for a group of patterns: boundary names,
// samples that match, near misses and noise. Names are distinct, non-empty,
// free of white space, sorted bytewise.
func (g *Gen) Names(pats []string, perPattern, noise int) []string {
	set := map[string]bool{}
	add := func(s string) {
		if s == "" || len(s) > 24 {
			return
		}
		for i := 0; i < len(s); i++ {
			switch s[i] {
			case ' ', '\t', '\n', '\r', '\v', '\f':
				return
			}
		}
		set[s] = true
	}
	for _, p := range pats {
		for _, b := range Boundary(p) {
			if g.Hostile || g.R.Intn(2) == 0 {
				add(b)
			}
		}
		for i := 0; i < perPattern; i++ {
			s, ok := g.Sample(p)
			if !ok {
				continue
			}
			add(s)
			// near misses
			switch g.R.Intn(4) {
			case 0:
				add(s + g.char())
			case 1:
				if len(s) > 1 {
					add(s[:len(s)-1])
				}
			case 2:
				add(g.char() + s)
			case 3:
				if len(s) > 0 {
					k := g.R.Intn(len(s))
					add(s[:k] + g.char() + s[k+1:])
				}
			}
		}
	}
	for i := 0; i < noise; i++ {
		n := 1 + g.R.Intn(4)
		s := ""
		for k := 0; k < n; k++ {
			s += g.char()
		}
		add(s)
	}
	out := make([]string, 0, len(set))
	for s := range set {
		out = append(out, s)
	}
	sort.Strings(out)
	return out
}
