package globref

import (
	"math/rand"
	"path"
	"strings"
	"testing"
)

// Sanity: on names without '/', the reference agrees with Go's path.Match
// (same documented grammar), and Sample produces matches.
func TestAgainstPathMatch(t *testing.T) {
	g := &Gen{R: rand.New(rand.NewSource(7)), Hostile: true}
	shapes := map[string]int{}
	matched := 0
	for i := 0; i < 20000; i++ {
		p := g.Pattern()
		shapes[Shape(p)]++
		names := g.Names([]string{p}, 4, 4)
		for _, s := range names {
			if strings.Contains(s, "/") || strings.Contains(p, "/") {
				continue
			}
			want, err := path.Match(p, s)
			if err != nil {
				t.Fatalf("path.Match rejects generated pattern %q: %v", p, err)
			}
			got, err := Match(p, s)
			if err != nil {
				t.Fatalf("globref rejects %q", p)
			}
			if got != want {
				t.Fatalf("pattern %q name %q: globref %v path.Match %v", p, s, got, want)
			}
			if got {
				matched++
			}
		}
	}
	if matched < 20000 || len(shapes) < 30 {
		t.Fatalf("weak generator: matched=%d shapes=%d", matched, len(shapes))
	}
	t.Logf("matched=%d shapes=%d", matched, len(shapes))
}

func TestMalformed(t *testing.T) {
	for _, p := range []string{"[", "[]", "[^]", "[a-]", "a\\", "[a", "[-a]", "[a-\\"} {
		if _, err := Match(p, "a"); err == nil {
			t.Fatalf("pattern %q accepted", p)
		}
	}
	for _, c := range []struct {
		p, s string
		w    bool
	}{{"a*", "a", true}, {"a*b", "ab", true}, {"a*b", "axxb", true}, {"a*b", "axxbc", false}, {"?", "é", true}, {"?", "\xff", true}, {"??", "é", false},
		{"[^a]", "b", true}, {"[^a]", "a", false}, {"[a-c]x", "bx", true}, {"\\*", "*", true}, {"\\*", "a", false}, {"", "", true}, {"*", "", true}, {"[\\]]", "]", true}, {"a]", "a]", true}} {
		if got, err := Match(c.p, c.s); err != nil || got != c.w {
			t.Fatalf("Match(%q,%q)=%v,%v want %v", c.p, c.s, got, err, c.w)
		}
	}
}
