// Package core holds the verdict discipline shared by all checks: three-valued
// verdicts, VIOLATION / KNOWN-FINDING / INCONCLUSIVE lines, replay files,
// evidence files and known-findings matching.
package core

import (
	"bufio"
	"encoding/json"
	"fmt"
	"math/rand"
	"os"
	"path/filepath"
	"sort"
	"strconv"
	"strings"
	"sync"
	"time"

	"verifharness/srv"
)

// VerifDir is /verif (where evidence, replays and KNOWN_FINDINGS.txt live).
var VerifDir = func() string {
	if v := os.Getenv("VERIF_DIR"); v != "" {
		return v
	}
	return "/verif"
}()

// Finding is one line of KNOWN_FINDINGS.txt.
type Finding struct {
	Kind string // "finding" or "fixed"
	Prop string
	Key  string
	Text string
}

// LoadFindings parses KNOWN_FINDINGS.txt. Only "finding:" lines suppress.
func LoadFindings() []Finding {
	f, err := os.Open(filepath.Join(VerifDir, "KNOWN_FINDINGS.txt"))
	if err != nil {
		return nil
	}
	defer f.Close()
	var out []Finding
	sc := bufio.NewScanner(f)
	sc.Buffer(make([]byte, 1<<20), 1<<20)
	for sc.Scan() {
		l := strings.TrimSpace(sc.Text())
		if l == "" || strings.HasPrefix(l, "#") {
			continue
		}
		var fd Finding
		switch {
		case strings.HasPrefix(l, "finding:"):
			fd.Kind = "finding"
			l = strings.TrimSpace(l[len("finding:"):])
		case strings.HasPrefix(l, "fixed:"):
			fd.Kind = "fixed"
			l = strings.TrimSpace(l[len("fixed:"):])
		default:
			continue
		}
		for _, tok := range strings.Fields(l) {
			if strings.HasPrefix(tok, "property=") {
				fd.Prop = tok[len("property="):]
			} else if strings.HasPrefix(tok, "key=") {
				fd.Key = tok[len("key="):]
			}
		}
		fd.Text = l
		out = append(out, fd)
	}
	return out
}

// Ctx is the per-run context of one check.
type Ctx struct {
	Prop  string
	Tier  string
	Level string
	Seed  int64
	Rng   *rand.Rand
	start time.Time

	mu           sync.Mutex
	findings     []Finding
	violations   int
	printed      int
	knownSeen    map[string]int
	inconclusive []string
	evaluations  int64
	distinct     map[string]struct{}
	Rule         string
	samples      []any
	counters     map[string]int64
	extra        map[string]any
	Assumptions  []string
	MinDistinct  int // fewer → inconclusive ("a run that observed nothing")
	replayN      int
}

// New creates the context from argv-style parameters and environment.
func New(prop, tier, level string) *Ctx {
	seed := int64(1)
	if v := os.Getenv("VERIF_SEED"); v != "" {
		if n, err := strconv.ParseInt(v, 10, 64); err == nil {
			seed = n
		}
	}
	if tier != "quick" && tier != "thorough" {
		tier = "quick"
	}
	c := &Ctx{Prop: prop, Tier: tier, Level: level, Seed: seed, start: time.Now(),
		findings: LoadFindings(), knownSeen: map[string]int{}, distinct: map[string]struct{}{},
		counters: map[string]int64{}, extra: map[string]any{}, MinDistinct: 2}
	// the PRNG mixes the property id so that checks do not share streams
	h := int64(0)
	for _, ch := range prop {
		h = h*131 + int64(ch)
	}
	c.Rng = rand.New(rand.NewSource(seed*1000003 + h))
	return c
}

// Thorough reports the tier.
func (c *Ctx) Thorough() bool { return c.Tier == "thorough" }

// Pick returns q for quick and t for thorough.
func (c *Ctx) Pick(q, t int) int {
	if c.Thorough() {
		return t
	}
	return q
}

// SubRng derives an independent deterministic PRNG (for goroutines).
func (c *Ctx) SubRng(n int64) *rand.Rand {
	return rand.New(rand.NewSource(c.Seed*7919 + n*104729 + 17))
}

// Eval counts executed cases.
func (c *Ctx) Eval(n int) {
	c.mu.Lock()
	c.evaluations += int64(n)
	c.mu.Unlock()
}

// Distinct records a non-trivial case under its distinctness key.
func (c *Ctx) Distinct(key string) {
	c.mu.Lock()
	c.distinct[key] = struct{}{}
	c.mu.Unlock()
}

// DistinctN returns how many distinct keys were recorded.
func (c *Ctx) DistinctN() int {
	c.mu.Lock()
	defer c.mu.Unlock()
	return len(c.distinct)
}

// Count adds to a named counter in the evidence.
func (c *Ctx) Count(name string, n int64) {
	c.mu.Lock()
	c.counters[name] += n
	c.mu.Unlock()
}

// Counter reads a named counter.
func (c *Ctx) Counter(name string) int64 {
	c.mu.Lock()
	defer c.mu.Unlock()
	return c.counters[name]
}

// Set stores an arbitrary evidence value.
func (c *Ctx) Set(name string, v any) {
	c.mu.Lock()
	c.extra[name] = v
	c.mu.Unlock()
}

// Sample keeps up to 8 literal cases for the evidence file.
func (c *Ctx) Sample(v any) {
	c.mu.Lock()
	if len(c.samples) < 8 {
		c.samples = append(c.samples, v)
	}
	c.mu.Unlock()
}

// Violation reports a refutation. key names the scenario class (matched against
// KNOWN_FINDINGS.txt); replay is serialised to a replay file.
// machineStalled is srv.MachineStalled (core does not import srv).
const machineStalled = "machine stalled"

func (c *Ctx) Violation(key, what string, replay any) {
	if strings.Contains(what, machineStalled) {
		// a server that could not be started because nothing could (see srv.Start): no verdict
		c.Inconclusive("start-up watchdog fired while a canary server could not start either (" + key + ")")
		return
	}
	c.mu.Lock()
	defer c.mu.Unlock()
	for _, f := range c.findings {
		if f.Kind == "finding" && f.Prop == c.Prop && f.Key != "" && f.Key == key {
			if c.knownSeen[key] == 0 {
				fmt.Printf("KNOWN-FINDING: property=%s key=%s %s\n", c.Prop, key, oneLine(what))
			}
			c.knownSeen[key]++
			return
		}
	}
	c.violations++
	if c.printed >= 25 {
		return
	}
	c.printed++
	c.replayN++
	dir := filepath.Join(VerifDir, "replays", c.Prop)
	os.MkdirAll(dir, 0o755)
	path := filepath.Join(dir, fmt.Sprintf("%d-%s-%d.json", c.Seed, c.Tier, c.replayN))
	doc := map[string]any{"property": c.Prop, "key": key, "what": what, "seed": c.Seed, "tier": c.Tier, "replay": replay}
	b, err := json.MarshalIndent(doc, "", " ")
	if err != nil {
		b = []byte(fmt.Sprintf("{\"property\":%q,\"key\":%q,\"what\":%q}", c.Prop, key, what))
	}
	os.WriteFile(path, b, 0o644)
	fmt.Printf("VIOLATION property=%s replay=%s key=%s %s\n", c.Prop, path, key, oneLine(what))
}

// Violations returns the number of unlisted violations so far.
func (c *Ctx) Violations() int {
	c.mu.Lock()
	defer c.mu.Unlock()
	return c.violations
}

func oneLine(s string) string {
	s = strings.ReplaceAll(s, "\n", " | ")
	if len(s) > 600 {
		s = s[:600] + "..."
	}
	return s
}

// Inconclusive records a reason the run cannot decide.
func (c *Ctx) Inconclusive(reason string) {
	c.mu.Lock()
	c.inconclusive = append(c.inconclusive, reason)
	c.mu.Unlock()
}

// Logf prints progress to stderr.
func (c *Ctx) Logf(format string, a ...any) {
	fmt.Fprintf(os.Stderr, "[%s %6.1fs] %s\n", c.Prop, time.Since(c.start).Seconds(), fmt.Sprintf(format, a...))
}

// Finish writes the evidence file, prints the verdict and exits.
func (c *Ctx) Finish() {
	srv.Cleanup()
	c.mu.Lock()
	defer c.mu.Unlock()
	cov := map[string]any{
		"evaluations":         c.evaluations,
		"distinct_nontrivial": len(c.distinct),
		"rule":                c.Rule,
		"samples":             c.samples,
	}
	keys := make([]string, 0, len(c.counters))
	for k := range c.counters {
		keys = append(keys, k)
	}
	sort.Strings(keys)
	cnt := map[string]int64{}
	for _, k := range keys {
		cnt[k] = c.counters[k]
	}
	cov["counters"] = cnt
	if len(c.samples) == 0 {
		cov["samples"] = []any{map[string]any{"note": "no literal case was recorded by this run", "counters": cnt}}
	}
	for k, v := range c.extra {
		cov[k] = v
	}
	if len(c.knownSeen) > 0 {
		cov["known_findings_seen"] = c.knownSeen
	}
	if len(c.inconclusive) > 0 {
		cov["inconclusive_reasons"] = c.inconclusive
	}
	if len(c.distinct) < c.MinDistinct && c.violations == 0 {
		c.inconclusive = append(c.inconclusive, fmt.Sprintf("observed only %d distinct non-trivial cases (minimum %d)", len(c.distinct), c.MinDistinct))
	}
	verdict := "held"
	if c.violations > 0 {
		verdict = "violated"
	} else if len(c.inconclusive) > 0 {
		verdict = "inconclusive"
	}
	cov["verdict"] = verdict
	doc := map[string]any{
		"property_id": c.Prop,
		"tier":        c.Tier,
		"seed":        c.Seed,
		"level":       c.Level,
		"coverage":    cov,
		"assumptions": c.Assumptions,
		"wall_s":      time.Since(c.start).Seconds(),
		"violations":  c.violations,
	}
	if c.Assumptions == nil {
		doc["assumptions"] = []string{}
	}
	os.MkdirAll(filepath.Join(VerifDir, "evidence"), 0o755)
	b, _ := json.MarshalIndent(doc, "", " ")
	os.WriteFile(filepath.Join(VerifDir, "evidence", c.Prop+".json"), append(b, '\n'), 0o644)
	fmt.Printf("RESULT property=%s tier=%s seed=%d verdict=%s evaluations=%d distinct_nontrivial=%d violations=%d known=%d wall=%.1fs\n",
		c.Prop, c.Tier, c.Seed, verdict, c.evaluations, len(c.distinct), c.violations, len(c.knownSeen), time.Since(c.start).Seconds())
	switch verdict {
	case "violated":
		os.Exit(1)
	case "inconclusive":
		for _, r := range c.inconclusive {
			fmt.Printf("INCONCLUSIVE property=%s reason=%s\n", c.Prop, oneLine(r))
		}
		os.Exit(2)
	}
	os.Exit(0)
}

// Fatal ends the run as inconclusive (harness/infrastructure trouble).
func (c *Ctx) Fatal(format string, a ...any) {
	c.Inconclusive(fmt.Sprintf(format, a...))
	c.Finish()
}
