package notif

import (
	"net/http"
	"strings"
	"testing"
	"time"
)

func post(t *testing.T, url, body string, timeout time.Duration) (int, error) {
	t.Helper()
	c := &http.Client{Timeout: timeout}
	resp, err := c.Post(url, "application/json", strings.NewReader(body))
	if err != nil {
		return 0, err
	}
	resp.Body.Close()
	return resp.StatusCode, nil
}

// TestEndpointModes: only 2xx-answered requests are deliveries; 5xx, hang and refuse are not.
func TestEndpointModes(t *testing.T) {
	e, err := NewEndpoint()
	if err != nil {
		t.Fatal(err)
	}
	defer e.Close()
	e.KeepAttempts(true)
	u := e.URL("/h1")
	st := e.Stream("/h1")
	if code, err := post(t, u, `{"id":"a"}`, 2*time.Second); err != nil || code != 200 {
		t.Fatalf("accept: %v %v", code, err)
	}
	e.Script("/h1", Fail5xx)
	if code, _ := post(t, u, `{"id":"b"}`, 2*time.Second); code != 503 {
		t.Fatalf("5xx: %v", code)
	}
	e.Script("", Hang)
	if _, err := post(t, u, `{"id":"c"}`, 300*time.Millisecond); err == nil {
		t.Fatalf("hang: request answered")
	}
	e.Refuse()
	if _, err := post(t, u, `{"id":"d"}`, time.Second); err == nil {
		t.Fatalf("refuse: request answered")
	}
	if err := e.Reopen(); err != nil {
		t.Fatal(err)
	}
	if code, err := post(t, u, `{"id":"e"}`, 2*time.Second); err != nil || code != 200 {
		t.Fatalf("accept after reopen: %v %v", code, err)
	}
	before, v, why := st.Await(func(m Msg) bool { return m.ID() == "e" }, WaitOpts{Watchdog: 2 * time.Second})
	if v != Arrived || len(before) != 1 || before[0].ID() != "a" {
		t.Fatalf("delivered stream: %v %v %v", before, v, why)
	}
	if n := len(e.Attempts()); n != 4 {
		t.Fatalf("attempts %d, want 4 (a, b, c, e)", n)
	}
	// watchdog without a server address: inconclusive, never "lost"
	if _, v, _ := st.Await(func(m Msg) bool { return false }, WaitOpts{Watchdog: 50 * time.Millisecond}); v != Inconclusive {
		t.Fatalf("verdict %v", v)
	}
}

func TestPlanMarker(t *testing.T) {
	set := func(l ...string) map[string]bool {
		m := map[string]bool{}
		for _, x := range l {
			m[x] = true
		}
		return m
	}
	cases := []struct {
		d, a map[string]bool
		n    int
		ok   bool
	}{
		{nil, nil, 1, true},
		{set("exit"), nil, 2, true},
		{set("cross"), set("set"), 2, true},
		{set("enter"), set("fset"), 0, false},
		{set("outside"), set("fset"), 2, true},
		{set("enter"), set("del", "drop"), 2, true},
		{set("enter"), set("drop"), 0, false},
	}
	for i, c := range cases {
		p, ok := PlanMarker(c.d, c.a)
		if ok != c.ok || len(p) != c.n {
			t.Errorf("case %d: %v %v", i, p, ok)
		}
	}
}
