// Package notif holds the notification collectors shared by the geofence
// checks (C05, C10, C20): a SUBSCRIBE/PSUBSCRIBE reader, a live-fence reader
// and a scripted local HTTP webhook endpoint.
//
// # The marker protocol
//
// A collector never decides "no more messages" by sleeping. After the command
// under test the caller pushes a MARKER through the same ordered pipe that
// carries the notifications, and everything received before the marker is
// attributed to the command under test.
//
//   - Channels: `PUBLISH <channel> MARK:<n>` on every channel under test. In
//     tile38 a write publishes its fence messages (aof.go queueHooks ->
//     Server.Publish) before its reply is sent, and Publish appends to the
//     subscriber's single FIFO (pubsub.go subtarget.msgs), so a PUBLISH issued
//     after the write's reply was read is queued behind the write's messages.
//     The marker is published on the SAME channel as the messages it closes,
//     so the argument also holds for an implementation with per-channel queues.
//     This verdict is purely logical (no clock involved).
//
//   - Webhooks and live fences have no out-of-band message, and two hooks are
//     NOT ordered relative to each other (every webhook has its own sender
//     goroutine, hooks.go Hook.manager), so a "companion hook" would be unsound.
//     The only ordered pipe is the hook's own queue (buntdb keys in qidx order,
//     sent sequentially by Hook.proc) resp. the live connection's detail list
//     (live.go lb.details). The marker therefore is a MARKER OBJECT MOVE: a fresh
//     object with a reserved id prefix is SET (and, if the hook's DETECT/COMMANDS
//     filters need it, moved/FSET/DELeted) so that its last step produces at
//     least one message under that hook's filters (PlanMarker). The first
//     message carrying the marker id is the marker; all messages with the
//     reserved prefix are marker traffic and are never judged.
//     A hook whose filters admit no producible message (e.g. COMMANDS drop) is
//     "unmarkable" and can only be observed on a channel.
//
// The marker not arriving within a generous watchdog (default 20 s) while the
// server still answers PING is the Lost verdict; if the server does not answer
// PING, or the collector's own connection broke, the verdict is Inconclusive.
package notif

import (
	"encoding/json"
	"fmt"
	"math"
	"strings"
	"sync"
	"time"

	"verifharness/respc"
)

// Verdict of waiting for a marker.
type Verdict int

const (
	Arrived      Verdict = iota // marker seen
	Lost                        // watchdog expired, server answers PING
	Inconclusive                // watchdog expired / stream broke, server unresponsive or harness trouble
)

func (v Verdict) String() string {
	switch v {
	case Arrived:
		return "arrived"
	case Lost:
		return "lost"
	}
	return "inconclusive"
}

// DefaultWatchdog is the marker watchdog.
var DefaultWatchdog = 20 * time.Second

// Msg is one received notification (or marker).
type Msg struct {
	Channel string         // channel name (SUBSCRIBE), URL path (webhook), "" (live)
	Pattern string         // pattern for pmessage
	Raw     string         // payload text
	J       map[string]any // parsed payload if it is a JSON object
	Seq     int64          // arrival number within its collector
}

// Str returns a top-level string member ("" if absent).
func (m Msg) Str(k string) string {
	if m.J == nil {
		return ""
	}
	s, _ := m.J[k].(string)
	return s
}

// ID is the "id" member.
func (m Msg) ID() string { return m.Str("id") }

func parseMsg(channel, pattern, raw string) Msg {
	m := Msg{Channel: channel, Pattern: pattern, Raw: raw}
	if len(raw) > 0 && raw[0] == '{' {
		var j map[string]any
		if json.Unmarshal([]byte(raw), &j) == nil {
			m.J = j
		}
	}
	return m
}

// Stream is an ordered, unbounded queue of received messages fed by a
// collector goroutine.
type Stream struct {
	mu     sync.Mutex
	items  []Msg
	err    error
	seq    int64
	notify chan struct{}
}

func newStream() *Stream { return &Stream{notify: make(chan struct{}, 1)} }

func (s *Stream) push(m Msg) {
	s.mu.Lock()
	s.seq++
	m.Seq = s.seq
	s.items = append(s.items, m)
	s.mu.Unlock()
	select {
	case s.notify <- struct{}{}:
	default:
	}
}

func (s *Stream) fail(err error) {
	s.mu.Lock()
	if s.err == nil {
		s.err = err
	}
	s.mu.Unlock()
	select {
	case s.notify <- struct{}{}:
	default:
	}
}

// Received is the number of messages ever pushed.
func (s *Stream) Received() int64 {
	s.mu.Lock()
	defer s.mu.Unlock()
	return s.seq
}

// Drain removes and returns everything queued (no waiting).
func (s *Stream) Drain() []Msg {
	s.mu.Lock()
	defer s.mu.Unlock()
	out := s.items
	s.items = nil
	return out
}

// WaitOpts controls Await.
type WaitOpts struct {
	Watchdog time.Duration // 0 = DefaultWatchdog
	Addr     string        // server address for the PING probe
}

// Ping reports whether the server answers PING within 3 s on a fresh connection.
func Ping(addr string) bool {
	if addr == "" {
		return false
	}
	c, err := respc.Dial(addr, 3*time.Second)
	if err != nil {
		return false
	}
	defer c.Close()
	c.Timeout = 3 * time.Second
	r, err := c.Do("PING")
	return err == nil && !r.IsErr()
}

// Await consumes messages up to and including the first one for which isMarker
// is true and returns the messages before it.
//
// The watchdog only counts time during which this process was demonstrably
// running: the wait is cut into slices of at most 250 ms and a slice that took
// more than three times its planned length (machine stall, VM pause, clock
// jump) is not counted at all. When the budget is used up the server is probed
// with PING; if it answers, the queue gets a last grace period of 3 s (a
// responsive server delivers within milliseconds) before the verdict is Lost.
func (s *Stream) Await(isMarker func(Msg) bool, o WaitOpts) (before []Msg, v Verdict, why string) {
	wd := o.Watchdog
	if wd == 0 {
		wd = DefaultWatchdog
	}
	// take drains the queue up to the marker
	take := func() (found bool, err error) {
		s.mu.Lock()
		defer s.mu.Unlock()
		for len(s.items) > 0 {
			m := s.items[0]
			s.items = s.items[1:]
			if isMarker(m) {
				return true, nil
			}
			before = append(before, m)
		}
		s.items = nil
		return false, s.err
	}
	// waitSlice waits up to d for a notification and returns the time to charge
	waitSlice := func(d time.Duration) time.Duration {
		start := time.Now()
		t := time.NewTimer(d)
		select {
		case <-s.notify:
		case <-t.C:
		}
		t.Stop()
		el := time.Since(start)
		if el > 3*d {
			return 0 // stalled: do not charge
		}
		return el
	}
	var used time.Duration
	for {
		found, err := take()
		if found {
			return before, Arrived, ""
		}
		if err != nil {
			// the collector's own pipe broke: not a statement about notifications
			return before, Inconclusive, "collector stream ended: " + err.Error()
		}
		if used >= wd {
			break
		}
		d := wd - used
		if d > 250*time.Millisecond {
			d = 250 * time.Millisecond
		}
		used += waitSlice(d)
	}
	if !Ping(o.Addr) {
		return before, Inconclusive, fmt.Sprintf("marker not seen within %v and server does not answer PING", wd)
	}
	for grace := time.Duration(0); grace < 3*time.Second; {
		grace += waitSlice(250 * time.Millisecond)
		if found, _ := take(); found {
			return before, Arrived, ""
		}
	}
	return before, Lost, fmt.Sprintf("marker not seen within %v (+3 s after a successful PING), server answers PING", wd)
}

// ---------------------------------------------------------------- channels

// Sub is a SUBSCRIBE/PSUBSCRIBE connection with a reader goroutine.
type Sub struct {
	Addr string
	S    *Stream
	c    *respc.Conn
	acks chan string
	mu   sync.Mutex
	n    int
	// Discarded counts messages on channels that were not asked for in Collect.
	Discarded int64
	carry     []Msg
}

// Subscribe opens a connection and subscribes to the channels and patterns.
func Subscribe(addr string, channels, patterns []string) (*Sub, error) {
	c, err := respc.Dial(addr, 5*time.Second)
	if err != nil {
		return nil, err
	}
	c.Timeout = 10 * time.Second
	sub := &Sub{Addr: addr, S: newStream(), c: c, acks: make(chan string, 1024)}
	if len(channels) == 0 && len(patterns) == 0 {
		c.Close()
		return nil, fmt.Errorf("nothing to subscribe to")
	}
	// the first command switches the connection into pub/sub mode; confirmations
	// are read synchronously for it, then the reader goroutine takes over.
	sendFirst := func(cmd string, names []string) error {
		if err := c.Send(append([]string{cmd}, names...)...); err != nil {
			return err
		}
		for range names {
			r, err := c.Recv()
			if err != nil {
				return err
			}
			if r.Kind != '*' || len(r.Arr) != 3 || strings.ToLower(r.Arr[0].Str) != strings.ToLower(cmd) {
				return fmt.Errorf("unexpected %s confirmation: %s", cmd, r.String())
			}
		}
		return nil
	}
	if len(channels) > 0 {
		if err := sendFirst("SUBSCRIBE", channels); err != nil {
			c.Close()
			return nil, err
		}
	}
	if len(patterns) > 0 {
		if err := sendFirst("PSUBSCRIBE", patterns); err != nil {
			c.Close()
			return nil, err
		}
	}
	go sub.reader()
	return sub, nil
}

// reader parses the RESP push messages: ["message",chan,payload],
// ["pmessage",pattern,chan,payload], ["subscribe"|"psubscribe"|...,name,count].
func (sub *Sub) reader() {
	for {
		// no read deadline: a deadline firing in the middle of a reply would
		// desynchronise the parser; waiting is bounded by Await's watchdog and
		// the goroutine ends when Close closes the socket.
		sub.c.C.SetReadDeadline(time.Time{})
		r, err := respc.ReadReply(sub.c.R)
		if err != nil {
			sub.S.fail(err)
			return
		}
		if r.Kind != '*' || len(r.Arr) < 3 {
			// +OK (quit), PONG, errors: not notifications
			continue
		}
		switch strings.ToLower(r.Arr[0].Str) {
		case "message":
			sub.S.push(parseMsg(r.Arr[1].Str, "", r.Arr[2].Str))
		case "pmessage":
			if len(r.Arr) >= 4 {
				sub.S.push(parseMsg(r.Arr[2].Str, r.Arr[1].Str, r.Arr[3].Str))
			}
		case "subscribe", "psubscribe", "unsubscribe", "punsubscribe":
			select {
			case sub.acks <- r.Arr[0].Str + " " + r.Arr[1].Str:
			default:
			}
		}
	}
}

// Add subscribes to more channels on the running connection.
func (sub *Sub) Add(pattern bool, names ...string) error {
	cmd := "SUBSCRIBE"
	if pattern {
		cmd = "PSUBSCRIBE"
	}
	if err := sub.c.Send(append([]string{cmd}, names...)...); err != nil {
		return err
	}
	for range names {
		select {
		case <-sub.acks:
		case <-time.After(10 * time.Second):
			return fmt.Errorf("no %s confirmation within 10 s", cmd)
		}
	}
	return nil
}

// MarkText is the payload of marker n.
func MarkText(n int) string { return fmt.Sprintf("MARK:%d", n) }

// Mark publishes a fresh marker on every given channel through ctl (any
// ordinary connection; it must be used AFTER the reply of the command under
// test was read, or be the same connection). It returns the marker number.
func (sub *Sub) Mark(ctl *respc.Conn, channels ...string) (int, error) {
	sub.mu.Lock()
	sub.n++
	n := sub.n
	sub.mu.Unlock()
	txt := MarkText(n)
	for _, ch := range channels {
		if err := ctl.Send("PUBLISH", ch, txt); err != nil {
			return n, err
		}
	}
	for _, ch := range channels {
		r, err := ctl.Recv()
		if err != nil {
			return n, err
		}
		if r.IsErr() {
			return n, fmt.Errorf("PUBLISH %s: %s", ch, r.Str)
		}
		if r.Kind == ':' && r.Int < 1 {
			return n, fmt.Errorf("PUBLISH %s reached %d subscribers (subscriber not registered)", ch, r.Int)
		}
	}
	return n, nil
}

// Collect waits for marker n on every given channel and returns, per channel,
// the messages received on that channel before its marker. Messages on other
// channels are discarded.
func (sub *Sub) Collect(n int, channels []string, o WaitOpts) (map[string][]Msg, Verdict, string) {
	if o.Addr == "" {
		o.Addr = sub.Addr
	}
	txt := MarkText(n)
	want := map[string]bool{}
	for _, ch := range channels {
		want[ch] = true
	}
	out := map[string][]Msg{}
	open := len(want)
	closed := map[string]bool{}
	// messages that arrived on an already closed channel during the previous
	// Collect belong to this one
	carry := sub.carry
	sub.carry = nil
	for _, m := range carry {
		if want[m.Channel] {
			out[m.Channel] = append(out[m.Channel], m)
		} else {
			sub.Discarded++
		}
	}
	for open > 0 {
		var hit string
		before, v, why := sub.S.Await(func(m Msg) bool {
			if m.Raw == txt && want[m.Channel] {
				hit = m.Channel
				return true
			}
			return false
		}, o)
		for _, m := range before {
			switch {
			case strings.HasPrefix(m.Raw, "MARK:"):
			case want[m.Channel]:
				out[m.Channel] = append(out[m.Channel], m)
			case closed[m.Channel]:
				sub.carry = append(sub.carry, m)
			default:
				sub.Discarded++
			}
		}
		if v != Arrived {
			return out, v, why
		}
		delete(want, hit) // later messages on this channel belong to the next Collect
		closed[hit] = true
		open--
	}
	return out, Arrived, ""
}

// Close ends the subscription.
func (sub *Sub) Close() { sub.c.Close() }

// ---------------------------------------------------------------- live fences

// Live is a live geofence connection (`NEARBY|WITHIN|INTERSECTS key FENCE ...`).
type Live struct {
	Addr string
	S    *Stream
	c    *respc.Conn
}

// OpenLive sends the fence command on its own connection, checks the first
// reply (`+OK`, or `{"ok":true,"live":true}` with jsonMode) and starts the reader:
// afterwards every reply is one bulk string holding one event.
func OpenLive(addr string, jsonMode bool, args ...string) (*Live, error) {
	c, err := respc.Dial(addr, 5*time.Second)
	if err != nil {
		return nil, err
	}
	c.Timeout = 10 * time.Second
	if jsonMode {
		if r, err := c.Do("OUTPUT", "json"); err != nil || r.IsErr() {
			c.Close()
			return nil, fmt.Errorf("OUTPUT json: %v %s", err, r.String())
		}
	}
	r, err := c.Do(args...)
	if err != nil {
		c.Close()
		return nil, err
	}
	ok := false
	if jsonMode {
		var j map[string]any
		if json.Unmarshal([]byte(r.Str), &j) == nil && j["ok"] == true && j["live"] == true {
			ok = true
		}
	} else {
		ok = r.Kind == '+' && r.Str == "OK"
	}
	if !ok {
		c.Close()
		return nil, fmt.Errorf("live fence not accepted: %s", r.String())
	}
	l := &Live{Addr: addr, S: newStream(), c: c}
	go func() {
		for {
			c.C.SetReadDeadline(time.Time{}) // see Sub.reader
			r, err := respc.ReadReply(c.R)
			if err != nil {
				l.S.fail(err)
				return
			}
			if r.Kind == '$' && !r.Nil {
				l.S.push(parseMsg("", "", r.Str))
			}
		}
	}()
	return l, nil
}

// Close ends the live fence.
func (l *Live) Close() { l.c.Close() }

// ---------------------------------------------------------------- marker moves

// StepKind is one abstract step of a marker object move.
type StepKind int

const (
	StepSetIn   StepKind = iota // SET marker at a point clearly inside the area
	StepSetOutA                 // SET marker at a point clearly outside (side A)
	StepSetOutB                 // SET marker clearly outside on the opposite side: the path A->B clearly crosses
	StepFset                    // FSET marker <some field> <new value>
	StepDel                     // DEL marker
)

// PlanMarker returns the steps of a marker object move for a static fence with
// the given DETECT set (nil = default = all) and COMMANDS filter (nil = all),
// such that the LAST step produces at least one message carrying the marker id
// and no earlier step is needed to be visible. ok=false: unmarkable.
// The marker object is fresh (did not exist before the first step), matches the
// fence's MATCH pattern and satisfies its WHERE clause (caller's duty).
//
// Derivation (fence.go fenceMatch, README "detect"): none->in is `enter`
// (falls back to `inside`), in->out is `exit` (falls back to `outside`),
// out->out over the area is `cross` (falls back to `outside`), FSET reports
// `inside`/`outside` only, DEL of an inside object reports `del` whatever DETECT is.
func PlanMarker(detect, accept map[string]bool) (steps []StepKind, ok bool) {
	has := func(d string) bool { return detect == nil || detect[d] }
	acc := func(c string) bool { return accept == nil || accept[c] }
	switch {
	case acc("set") && (has("inside") || has("enter")):
		return []StepKind{StepSetIn}, true
	case acc("set") && has("outside"):
		return []StepKind{StepSetOutA}, true
	case acc("set") && has("exit"):
		return []StepKind{StepSetIn, StepSetOutA}, true
	case acc("set") && has("cross"):
		return []StepKind{StepSetOutA, StepSetOutB}, true
	case acc("fset") && has("inside"):
		return []StepKind{StepSetIn, StepFset}, true
	case acc("fset") && has("outside"):
		return []StepKind{StepSetOutA, StepFset}, true
	case acc("del"):
		return []StepKind{StepSetIn, StepDel}, true
	}
	return nil, false
}

// ---------------------------------------------------------------- geometry

// EarthRadius is the radius tile38 uses (github.com/tidwall/geojson/geo: earthRadius = 6371e3).
const EarthRadius = 6371e3

// Haversine is the great-circle distance in metres on a sphere of EarthRadius.
func Haversine(latA, lonA, latB, lonB float64) float64 {
	const rad = math.Pi / 180
	p1, p2 := latA*rad, latB*rad
	dp := p2 - p1
	dl := (lonB - lonA) * rad
	a := math.Sin(dp/2)*math.Sin(dp/2) + math.Cos(p1)*math.Cos(p2)*math.Sin(dl/2)*math.Sin(dl/2)
	if a > 1 {
		a = 1
	}
	return EarthRadius * 2 * math.Asin(math.Sqrt(a))
}

// Destination returns the point reached from (lat,lon) after metres on the given bearing.
func Destination(lat, lon, meters, bearingDeg float64) (float64, float64) {
	const rad = math.Pi / 180
	d := meters / EarthRadius
	t := bearingDeg * rad
	p1, l1 := lat*rad, lon*rad
	p2 := math.Asin(math.Sin(p1)*math.Cos(d) + math.Cos(p1)*math.Sin(d)*math.Cos(t))
	l2 := l1 + math.Atan2(math.Sin(t)*math.Sin(d)*math.Cos(p1), math.Cos(d)-math.Sin(p1)*math.Sin(p2))
	return p2 / rad, l2 / rad
}
