package notif

import (
	"fmt"
	"io"
	"net"
	"net/http"
	"sync"
	"sync/atomic"
	"time"

	"verifharness/srv"
)

// Action is what the scripted endpoint does with one request.
type Action int

const (
	Accept  Action = iota // read body, answer 200: the only outcome that counts as a delivery
	Fail5xx               // read body, answer 503
	Hang                  // read body, do not answer until Release / client gives up (tile38: 5 s) / 30 s; then 503
)

// Attempt is one request seen by the endpoint, delivered or not.
type Attempt struct {
	Path   string
	Body   string
	Action Action
	At     time.Time
}

// Endpoint is a local HTTP webhook receiver on 127.0.0.1:<port>. Requests are
// recorded in arrival order; each URL path has its own Stream, so every hook
// gets its own path (a hook's messages are ordered, different hooks are not).
// Refusing connections is modelled by closing the listener (Refuse/Reopen).
type Endpoint struct {
	Port int

	mu       sync.Mutex
	ln       net.Listener
	hs       *http.Server
	streams  map[string]*Stream
	script   map[string][]Action // per path, consumed one per request
	gscript  []Action            // any path, consumed one per request (after the path script)
	deflt    Action
	attempts []Attempt
	release  chan struct{}
	keep     bool // keep attempts
	discard  map[string]bool
	refusing atomic.Bool
	last     map[string]string // per path: body of the last delivered request
	dropDup  bool
	redeliv  int64
}

// NewEndpoint starts the endpoint on a free port.
func NewEndpoint() (*Endpoint, error) {
	var last error
	for i := 0; i < 5; i++ {
		e := &Endpoint{Port: srv.FreePort(), streams: map[string]*Stream{}, script: map[string][]Action{}, release: make(chan struct{})}
		if err := e.listen(); err != nil {
			last = err
			continue
		}
		return e, nil
	}
	return nil, last
}

func (e *Endpoint) listen() error {
	ln, err := net.Listen("tcp", fmt.Sprintf("127.0.0.1:%d", e.Port))
	if err != nil {
		return err
	}
	hs := &http.Server{Handler: http.HandlerFunc(e.handle), ReadTimeout: 30 * time.Second, WriteTimeout: 40 * time.Second, IdleTimeout: 120 * time.Second}
	e.mu.Lock()
	e.ln, e.hs = ln, hs
	e.mu.Unlock()
	go hs.Serve(&gateListener{Listener: ln, e: e})
	return nil
}

// gateListener drops connections accepted while the endpoint is refusing.
type gateListener struct {
	net.Listener
	e *Endpoint
}

func (g *gateListener) Accept() (net.Conn, error) {
	for {
		c, err := g.Listener.Accept()
		if err != nil {
			return nil, err
		}
		if g.e.refusing.Load() {
			c.Close()
			continue
		}
		return c, nil
	}
}

// URL of a path ("/x").
func (e *Endpoint) URL(path string) string {
	return fmt.Sprintf("http://127.0.0.1:%d%s", e.Port, path)
}

// Stream of the delivered (2xx-answered) requests of one path.
func (e *Endpoint) Stream(path string) *Stream {
	e.mu.Lock()
	defer e.mu.Unlock()
	s := e.streams[path]
	if s == nil {
		s = newStream()
		e.streams[path] = s
	}
	return s
}

// Forget drops the stream of a path (a later request re-creates it).
func (e *Endpoint) Forget(path string) {
	e.mu.Lock()
	delete(e.streams, path)
	e.mu.Unlock()
}

// Discard makes the endpoint accept but not record the requests of a path
// (for hooks that only exist to load the server).
func (e *Endpoint) Discard(path string) {
	e.mu.Lock()
	if e.discard == nil {
		e.discard = map[string]bool{}
	}
	e.discard[path] = true
	e.mu.Unlock()
}

// DropRedeliveries (opt-in, used by C05/C20): a request whose body is identical
// to the previously delivered request of the same path is answered 200 but NOT
// recorded again. Webhooks are at-least-once: tile38 re-sends a message when it
// did not get the 2xx answer within its 5 s client timeout although the
// endpoint had received it (e.g. after a machine stall); every tile38 message
// text is unique (nanosecond time, group, detect) and a failed message is the
// first one to be re-sent, so a redelivery is always adjacent to its original.
// Checks about duplicates proper (C10) leave this off.
func (e *Endpoint) DropRedeliveries(on bool) {
	e.mu.Lock()
	e.dropDup = on
	e.mu.Unlock()
}

// Redelivered counts the suppressed adjacent identical requests.
func (e *Endpoint) Redelivered() int64 {
	e.mu.Lock()
	defer e.mu.Unlock()
	return e.redeliv
}

// SetDefault sets the action for requests without a scripted action.
func (e *Endpoint) SetDefault(a Action) {
	e.mu.Lock()
	e.deflt = a
	e.mu.Unlock()
}

// Script queues actions for the next requests of one path ("" = any path).
func (e *Endpoint) Script(path string, actions ...Action) {
	e.mu.Lock()
	if path == "" {
		e.gscript = append(e.gscript, actions...)
	} else {
		e.script[path] = append(e.script[path], actions...)
	}
	e.mu.Unlock()
}

// KeepAttempts makes the endpoint remember every request (Attempts).
func (e *Endpoint) KeepAttempts(on bool) {
	e.mu.Lock()
	e.keep = on
	e.mu.Unlock()
}

// Attempts returns all requests seen so far (only with KeepAttempts).
func (e *Endpoint) Attempts() []Attempt {
	e.mu.Lock()
	defer e.mu.Unlock()
	return append([]Attempt(nil), e.attempts...)
}

// Release lets all hanging requests finish (with 503).
func (e *Endpoint) Release() {
	e.mu.Lock()
	close(e.release)
	e.release = make(chan struct{})
	e.mu.Unlock()
}

// Refuse starts an outage: connections accepted from now on are closed at
// once and requests arriving on kept-alive connections are dropped without an
// answer (the sender sees EOF / reset = a failed send, nothing is recorded).
// A request whose handler already started is NOT interrupted: it is recorded
// and gets its answer, so "recorded as delivered" always implies "the sender
// received 2xx" (otherwise a legitimate retry would show up as a duplicate).
func (e *Endpoint) Refuse() { e.refusing.Store(true) }

// Reopen ends the outage.
func (e *Endpoint) Reopen() error {
	e.refusing.Store(false)
	return nil
}

// Close stops the endpoint.
func (e *Endpoint) Close() {
	e.Release()
	e.refusing.Store(true)
	e.mu.Lock()
	hs := e.hs
	e.hs, e.ln = nil, nil
	e.mu.Unlock()
	if hs != nil {
		hs.Close()
	}
}

func (e *Endpoint) handle(w http.ResponseWriter, r *http.Request) {
	if e.refusing.Load() {
		// outage: drop the connection without an answer, record nothing
		if hj, ok := w.(http.Hijacker); ok {
			if c, _, err := hj.Hijack(); err == nil {
				c.Close()
				return
			}
		}
		w.WriteHeader(503)
		return
	}
	body, err := io.ReadAll(io.LimitReader(r.Body, 64<<20))
	if err != nil {
		w.WriteHeader(400)
		return
	}
	path := r.URL.Path
	e.mu.Lock()
	act := e.deflt
	if q := e.script[path]; len(q) > 0 {
		act = q[0]
		e.script[path] = q[1:]
	} else if len(e.gscript) > 0 {
		act = e.gscript[0]
		e.gscript = e.gscript[1:]
	}
	if e.keep {
		e.attempts = append(e.attempts, Attempt{Path: path, Body: string(body), Action: act, At: time.Now()})
	}
	rel := e.release
	if act == Accept && !e.discard[path] && e.dropDup && len(body) > 0 && e.last[path] == string(body) {
		e.redeliv++
	} else if act == Accept && !e.discard[path] {
		if e.dropDup {
			if e.last == nil {
				e.last = map[string]string{}
			}
			e.last[path] = string(body)
		}
		// recorded under the lock and before the 200 is written: the sender
		// only sends the hook's next message after it has read this answer, so
		// the stream order is the hook's send order.
		s := e.streams[path]
		if s == nil {
			s = newStream()
			e.streams[path] = s
		}
		s.push(parseMsg(path, "", string(body)))
	}
	e.mu.Unlock()
	switch act {
	case Accept:
		w.WriteHeader(200)
		io.WriteString(w, "ok\n")
	case Fail5xx:
		w.WriteHeader(503)
	case Hang:
		select {
		case <-rel:
		case <-r.Context().Done():
		case <-time.After(30 * time.Second):
		}
		w.WriteHeader(503)
	}
}
