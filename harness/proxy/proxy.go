// Package proxy is a small TCP proxy placed between a follower and its leader:
// it forwards bytes verbatim but can drop connections, cut a connection after a
// number of leader->follower bytes, and deliver the stream in slices with pauses.
package proxy

import (
	"bytes"
	"net"
	"sync"
	"sync/atomic"
	"time"
)

// Proxy forwards to Target.
type Proxy struct {
	ln      net.Listener
	Target  string
	mu      sync.Mutex
	conns   map[net.Conn]net.Conn
	cutAt   int64 // cut a connection once it carried this many leader->follower bytes (0 = off); one-shot
	chunk   int   // deliver in slices of this many bytes (0 = off)
	delay   time.Duration
	accepts []time.Time
	pauseAt int
	pauseOn string
	paused  atomic.Bool
	holdOn  string
	holding atomic.Bool
	// Down counts leader->follower bytes in total
	Down atomic.Int64
	Cuts atomic.Int64
}

// Start listens on a free loopback port.
func Start(target string) (*Proxy, error) {
	ln, err := net.Listen("tcp", "127.0.0.1:0")
	if err != nil {
		return nil, err
	}
	p := &Proxy{ln: ln, Target: target, conns: map[net.Conn]net.Conn{}}
	go p.loop()
	return p, nil
}

// Port of the proxy.
func (p *Proxy) Port() int { return p.ln.Addr().(*net.TCPAddr).Port }

// SetTarget changes where new connections go (leader restarted on a new port).
func (p *Proxy) SetTarget(t string) {
	p.mu.Lock()
	p.Target = t
	p.mu.Unlock()
}

// Accepts returns the times at which connections were accepted.
func (p *Proxy) Accepts() []time.Time {
	p.mu.Lock()
	defer p.mu.Unlock()
	return append([]time.Time(nil), p.accepts...)
}

// DropAll closes every current connection.
func (p *Proxy) DropAll() {
	p.mu.Lock()
	for a, b := range p.conns {
		a.Close()
		b.Close()
	}
	p.mu.Unlock()
}

// CutAfter arms a one-shot cut: the next connection that carries n
// leader->follower bytes is closed at exactly that offset.
func (p *Proxy) CutAfter(n int64) {
	p.mu.Lock()
	p.cutAt = n
	p.mu.Unlock()
}

// Throttle delivers leader->follower data in slices of chunk bytes with a pause.
func (p *Proxy) Throttle(chunk int, delay time.Duration) {
	p.mu.Lock()
	p.chunk, p.delay = chunk, delay
	p.mu.Unlock()
}

// PauseFromAccept pauses the proxy as soon as its n-th connection (counting
// from the start of the proxy) is accepted; earlier connections pass freely.
func (p *Proxy) PauseFromAccept(n int) {
	p.mu.Lock()
	p.pauseAt = n
	p.mu.Unlock()
}

// PauseOnRequest pauses the proxy when a follower->leader segment contains
// the given bytes: the leader's answer to that request is held back.
func (p *Proxy) PauseOnRequest(sub string) {
	p.mu.Lock()
	p.pauseOn = sub
	p.mu.Unlock()
}

// HoldRequest holds back, unforwarded, the first follower->leader segment that
// contains the given bytes (and everything behind it on that connection) until
// ReleaseRequest: the leader does not see the request meanwhile.
func (p *Proxy) HoldRequest(sub string) {
	p.mu.Lock()
	p.holdOn = sub
	p.mu.Unlock()
}

// RequestHeld reports whether a segment is being held back.
func (p *Proxy) RequestHeld() bool { return p.holding.Load() }

// ReleaseRequest forwards the held segment.
func (p *Proxy) ReleaseRequest() { p.holding.Store(false) }

// Pause stops forwarding leader->follower data until Resume.
func (p *Proxy) Pause()  { p.paused.Store(true) }
func (p *Proxy) Resume() { p.paused.Store(false) }

// Close stops the proxy.
func (p *Proxy) Close() {
	p.ln.Close()
	p.DropAll()
}

func (p *Proxy) loop() {
	for {
		c, err := p.ln.Accept()
		if err != nil {
			return
		}
		p.mu.Lock()
		target := p.Target
		p.accepts = append(p.accepts, time.Now())
		if p.pauseAt > 0 && len(p.accepts) >= p.pauseAt {
			p.paused.Store(true)
			p.pauseAt = 0
		}
		p.mu.Unlock()
		up, err := net.DialTimeout("tcp", target, 2*time.Second)
		if err != nil {
			c.Close()
			continue
		}
		p.mu.Lock()
		p.conns[c] = up
		p.mu.Unlock()
		go p.pipeUp(c, up)
		go p.pipeDown(c, up)
	}
}

func (p *Proxy) forget(c, up net.Conn) {
	c.Close()
	up.Close()
	p.mu.Lock()
	delete(p.conns, c)
	p.mu.Unlock()
}

func (p *Proxy) pipeUp(c, up net.Conn) {
	buf := make([]byte, 32*1024)
	for {
		n, err := c.Read(buf)
		if n > 0 {
			p.mu.Lock()
			if p.pauseOn != "" && bytes.Contains(buf[:n], []byte(p.pauseOn)) {
				// the answer to this request (and everything after it) is held back
				p.paused.Store(true)
				p.pauseOn = ""
			}
			held := false
			if p.holdOn != "" && bytes.Contains(buf[:n], []byte(p.holdOn)) {
				p.holding.Store(true)
				p.holdOn = ""
				held = true
			}
			p.mu.Unlock()
			for held && p.holding.Load() {
				time.Sleep(time.Millisecond)
			}
			if _, werr := up.Write(buf[:n]); werr != nil {
				break
			}
		}
		if err != nil {
			break
		}
	}
	p.forget(c, up)
}

func (p *Proxy) pipeDown(c, up net.Conn) {
	buf := make([]byte, 32*1024)
	var carried int64
	for {
		n, err := up.Read(buf)
		data := buf[:n]
		for len(data) > 0 {
			for p.paused.Load() {
				time.Sleep(time.Millisecond)
			}
			p.mu.Lock()
			chunk, delay, cutAt := p.chunk, p.delay, p.cutAt
			p.mu.Unlock()
			m := len(data)
			if chunk > 0 && m > chunk {
				m = chunk
			}
			if cutAt > 0 && carried+int64(m) >= cutAt {
				m = int(cutAt - carried)
				if m > 0 {
					c.Write(data[:m])
					p.Down.Add(int64(m))
				}
				p.mu.Lock()
				p.cutAt = 0
				p.mu.Unlock()
				p.Cuts.Add(1)
				p.forget(c, up)
				return
			}
			if _, werr := c.Write(data[:m]); werr != nil {
				p.forget(c, up)
				return
			}
			carried += int64(m)
			p.Down.Add(int64(m))
			data = data[m:]
			if chunk > 0 && delay > 0 {
				time.Sleep(delay)
			}
		}
		if err != nil {
			break
		}
	}
	p.forget(c, up)
}
