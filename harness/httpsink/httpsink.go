// Package httpsink is a trivial local webhook endpoint that accepts everything
// (200) and counts requests. Used where hooks must exist but deliveries are not
// judged (an unreachable endpoint makes tile38 stall every write by 500 ms).
package httpsink

import (
	"fmt"
	"io"
	"net"
	"net/http"
	"sync/atomic"
)

// Sink is a running endpoint.
type Sink struct {
	ln    net.Listener
	srv   *http.Server
	Count atomic.Int64
}

// Start listens on a free loopback port.
func Start() (*Sink, error) {
	ln, err := net.Listen("tcp", "127.0.0.1:0")
	if err != nil {
		return nil, err
	}
	s := &Sink{ln: ln}
	s.srv = &http.Server{Handler: http.HandlerFunc(func(w http.ResponseWriter, r *http.Request) {
		io.Copy(io.Discard, r.Body)
		s.Count.Add(1)
		w.WriteHeader(200)
	})}
	go s.srv.Serve(ln)
	return s, nil
}

// URL returns an endpoint URL with the given path.
func (s *Sink) URL(path string) string {
	return fmt.Sprintf("http://%s/%s", s.ln.Addr().String(), path)
}

// Close stops the endpoint.
func (s *Sink) Close() { s.srv.Close() }
