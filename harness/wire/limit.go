package wire

import (
	"syscall"
	"unsafe"
)

const rlimitAS = 9 // RLIMIT_AS on linux

// LimitAddressSpace caps the address space of a running child (prlimit64), so
// that a request that allocates without bound ends as an out-of-memory crash of
// that child instead of exhausting the machine. The child keeps its own pid, so
// the readiness check of srv (SERVER pid == child pid) stays in force — a
// wrapper command would switch that check off.
func LimitAddressSpace(pid int, bytes uint64) error {
	lim := struct{ Cur, Max uint64 }{bytes, bytes}
	_, _, e := syscall.RawSyscall6(syscall.SYS_PRLIMIT64, uintptr(pid), rlimitAS, uintptr(unsafe.Pointer(&lim)), 0, 0, 0)
	if e != 0 {
		return e
	}
	return nil
}
