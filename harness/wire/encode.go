// Package wire holds the transport-level pieces shared by C16 and C17:
// encoders for the four request transports of tile38 (RESP arrays, telnet-style
// inline commands, native "$<n> <line>", HTTP GET/POST, plus the websocket
// upgrade request), framers/readers for the matching reply streams, a mask for
// timing fields, a strict JSON validator, and the command-template table with
// its mutation/shape generators. It is written from the wire formats (and the
// quoting rules the server's reader implements), it does not import tile38 code.
package wire

import (
	"bytes"
	"fmt"
	"strconv"
	"strings"
)

// Proto names a request transport.
type Proto int

const (
	RESP Proto = iota
	Telnet
	Native
	HTTPGet
	HTTPPost
	WS
)

func (p Proto) String() string {
	switch p {
	case RESP:
		return "resp"
	case Telnet:
		return "telnet"
	case Native:
		return "native"
	case HTTPGet:
		return "http-get"
	case HTTPPost:
		return "http-post"
	case WS:
		return "websocket"
	}
	return "?"
}

// ReplyFraming says how replies on a connection of this transport are framed.
// Telnet connections get RESP replies.
func (p Proto) ReplyFraming() Proto {
	switch p {
	case RESP, Telnet:
		return RESP
	case Native:
		return Native
	case WS:
		return WS
	}
	return HTTPGet
}

// EncodeRESP builds the RESP array-of-bulk form (any bytes representable).
func EncodeRESP(args ...string) []byte {
	var b bytes.Buffer
	b.WriteByte('*')
	b.WriteString(strconv.Itoa(len(args)))
	b.WriteString("\r\n")
	for _, a := range args {
		b.WriteByte('$')
		b.WriteString(strconv.Itoa(len(a)))
		b.WriteString("\r\n")
		b.WriteString(a)
		b.WriteString("\r\n")
	}
	return b.Bytes()
}

// telnetBare reports whether a token can be sent unquoted in an inline command:
// non-empty, no space, no quote characters anywhere (a quote in the middle of a
// bare token is an "unbalanced quotes" protocol error in the server's reader),
// no CR/LF.
func telnetBare(a string, first bool) bool {
	if a == "" {
		return false
	}
	for i := 0; i < len(a); i++ {
		switch a[i] {
		case ' ', '"', '\'', '\n', '\r':
			return false
		}
	}
	if first && (a[0] == '*' || a[0] == '$') {
		return false
	}
	return true
}

// EncodeTelnet builds an inline command terminated by CRLF. Tokens that need it
// are double-quoted with the reader's escapes: \\ \" \n \r \t (any other \x is
// x). ok=false when the command cannot be expressed: an empty command, or a
// first token that would be taken for another protocol (leading '*' or '$'
// cannot be hidden because the dispatch looks at the first byte of the line, and
// a quoted first token starts with '"' which is fine — so only the empty command
// is unrepresentable).
func EncodeTelnet(args ...string) ([]byte, bool) {
	if len(args) == 0 {
		return nil, false
	}
	var b bytes.Buffer
	for i, a := range args {
		if i > 0 {
			b.WriteByte(' ')
		}
		if telnetBare(a, i == 0) {
			b.WriteString(a)
			continue
		}
		b.WriteByte('"')
		for j := 0; j < len(a); j++ {
			c := a[j]
			switch c {
			case '\\':
				b.WriteString(`\\`)
			case '"':
				b.WriteString(`\"`)
			case '\n':
				b.WriteString(`\n`)
			case '\r':
				b.WriteString(`\r`)
			case '\t':
				b.WriteString(`\t`)
			default:
				b.WriteByte(c)
			}
		}
		b.WriteByte('"')
	}
	b.WriteString("\r\n")
	// A line whose first bytes are G/P/O and that ends in " HTTP/x.y" is sniffed as
	// HTTP by the server; such a line is not a telnet command.
	line := b.Bytes()
	if len(line) > 11 && (line[0] == 'G' || line[0] == 'P' || line[0] == 'O') &&
		string(line[len(line)-11:len(line)-5]) == " HTTP/" {
		return nil, false
	}
	return line, true
}

// NativeLine joins tokens with single spaces as the native/HTTP line parser
// expects. ok=false when a token cannot survive that parser: empty, contains a
// space or CR/LF, starts with '"', or starts with '{' and is not the last token
// (a '{' makes the rest of the line one JSON argument, which may contain spaces).
func NativeLine(args ...string) (string, bool) {
	if len(args) == 0 {
		return "", false
	}
	for i, a := range args {
		if a == "" {
			return "", false
		}
		last := i == len(args)-1
		if a[0] == '"' {
			return "", false
		}
		if a[0] == '{' {
			if !last {
				return "", false
			}
			if strings.ContainsAny(a, "\r\n") {
				return "", false
			}
			continue
		}
		if strings.ContainsAny(a, " \r\n") {
			return "", false
		}
	}
	return strings.Join(args, " "), true
}

// EncodeNative builds "$<n> <line>\r\n".
func EncodeNative(args ...string) ([]byte, bool) {
	line, ok := NativeLine(args...)
	if !ok {
		return nil, false
	}
	return []byte("$" + strconv.Itoa(len(line)) + " " + line + "\r\n"), true
}

func urlEscapeToken(a string) string {
	var b strings.Builder
	for i := 0; i < len(a); i++ {
		c := a[i]
		switch {
		case c >= 'a' && c <= 'z', c >= 'A' && c <= 'Z', c >= '0' && c <= '9', c == '-', c == '_', c == '.', c == '~', c == '*', c == ',':
			b.WriteByte(c)
		case c == ' ':
			b.WriteString("%20")
		default:
			fmt.Fprintf(&b, "%%%02X", c)
		}
	}
	return b.String()
}

// httpSafe: over HTTP a one-token command whose token contains '?' or ends in
// .mvt/.pbf or starts with "viewer" is routed elsewhere by the server; those are
// not commands.
func httpSafe(args []string) bool {
	if len(args) == 1 {
		a := args[0]
		if strings.Contains(a, "?") || strings.HasSuffix(a, ".mvt") || strings.HasSuffix(a, ".pbf") || strings.HasPrefix(a, "viewer") {
			return false
		}
	}
	return true
}

// EncodeHTTPGet builds "GET /CMD+arg+arg HTTP/1.1" with percent-escaped tokens
// ('+' separates tokens). Same representability as the native line (the server
// unescapes the path, then splits it like a native line).
func EncodeHTTPGet(args ...string) ([]byte, bool) {
	if _, ok := NativeLine(args...); !ok || !httpSafe(args) {
		return nil, false
	}
	parts := make([]string, len(args))
	for i, a := range args {
		parts[i] = urlEscapeToken(a)
	}
	return []byte("GET /" + strings.Join(parts, "+") + " HTTP/1.1\r\nHost: t\r\n\r\n"), true
}

// EncodeHTTPPost builds "POST / HTTP/1.1" with the native line as the body.
func EncodeHTTPPost(args ...string) ([]byte, bool) {
	line, ok := NativeLine(args...)
	if !ok || !httpSafe(args) {
		return nil, false
	}
	return []byte("POST / HTTP/1.1\r\nHost: t\r\nContent-Length: " + strconv.Itoa(len(line)) + "\r\n\r\n" + line), true
}

// EncodeWS builds the websocket upgrade request carrying the command in the path
// (tile38 runs exactly that command and answers in one text frame).
func EncodeWS(args ...string) ([]byte, bool) {
	if _, ok := NativeLine(args...); !ok || !httpSafe(args) {
		return nil, false
	}
	parts := make([]string, len(args))
	for i, a := range args {
		parts[i] = urlEscapeToken(a)
	}
	return []byte("GET /" + strings.Join(parts, "+") + " HTTP/1.1\r\nHost: t\r\nUpgrade: websocket\r\nConnection: Upgrade\r\n" +
		"Sec-WebSocket-Version: 13\r\nSec-WebSocket-Key: dGhlIHNhbXBsZSBub25jZQ==\r\n\r\n"), true
}

// Encode dispatches on the transport.
func Encode(p Proto, args ...string) ([]byte, bool) {
	switch p {
	case RESP:
		return EncodeRESP(args...), true
	case Telnet:
		return EncodeTelnet(args...)
	case Native:
		return EncodeNative(args...)
	case HTTPGet:
		return EncodeHTTPGet(args...)
	case HTTPPost:
		return EncodeHTTPPost(args...)
	case WS:
		return EncodeWS(args...)
	}
	return nil, false
}
