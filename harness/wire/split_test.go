package wire

import (
	"math/rand"
	"testing"
)

func TestSplitCommandsNeverPanics(t *testing.T) {
	rng := rand.New(rand.NewSource(1))
	seeds := []string{"*1\r\n$9223372036854775807\r\nPING\r\n", "*2\r\n$4\r\nJSET\r\n$-5\r\n", "$9223372036854775807 PING\r\n", "*9223372036854775807\r\n", "JSET k \"a b\" 99999999999 v\r\n"}
	for _, s := range seeds {
		SplitCommands([]byte(s))
	}
	for i := 0; i < 200000; i++ {
		b := []byte(seeds[rng.Intn(len(seeds))])
		for k := 0; k < 3; k++ {
			b[rng.Intn(len(b))] = byte(rng.Intn(256))
		}
		SplitCommands(b)
		FrameRESP(b)
		FrameNative(b)
		FrameHTTP(b)
		FrameWS(b)
	}
	if !JSETBalloon([]string{"JSET", "k", "i", "a.1000000", "v"}) || JSETBalloon([]string{"JSET", "k", "i", "a.999999", "v"}) || !JSETBalloon([]string{"jset", "k", "i", "99999999999999999999999", "v"}) || JSETBalloon([]string{"JSET", "k", "i", "x1000000", "v"}) {
		t.Fatal("JSETBalloon rule")
	}
}
