package wire

import (
	"bytes"
	"encoding/json"
	"fmt"
	"io"
	"regexp"
	"strings"

	"verifharness/respc"
)

// elapsed is emitted as "elapsed":"12.3µs"; the defect D7 form is "elapsed":90ns.
var elapsedRe = regexp.MustCompile(`"elapsed":("[^"]*"|[0-9.]+(ns|µs|us|ms|s|m|h)+[0-9.a-zµ]*)`)

// Mask blanks timing fields in a JSON reply text.
func Mask(b []byte) []byte {
	if !bytes.Contains(b, []byte(`"elapsed":`)) {
		return b
	}
	return elapsedRe.ReplaceAll(b, []byte(`"elapsed":"_"`))
}

// MaskString is Mask for strings.
func MaskString(s string) string {
	if !strings.Contains(s, `"elapsed":`) {
		return s
	}
	return elapsedRe.ReplaceAllString(s, `"elapsed":"_"`)
}

func maskReply(r *respc.Reply) {
	switch r.Kind {
	case '$', '+':
		r.Str = MaskString(r.Str)
	case '*':
		for i := range r.Arr {
			maskReply(&r.Arr[i])
		}
	}
}

// Canon renders one framed reply of the given transport in a canonical text in
// which timing fields are blanked and length prefixes that depend on them are
// dropped; two reply streams are equal "up to timing" iff their Canon sequences
// are equal.
func Canon(p Proto, frame []byte) string {
	switch p.ReplyFraming() {
	case RESP:
		r, err := ParseRESP(frame)
		if err != nil {
			return "!raw:" + string(frame)
		}
		maskReply(&r)
		return r.String()
	case Native:
		return "$ " + string(Mask(NativePayload(frame)))
	case WS:
		op, pl := WSPayload(frame)
		return fmt.Sprintf("ws%d ", op) + string(Mask(pl))
	}
	h, err := ParseHTTP(frame)
	if err != nil {
		return "!raw:" + string(frame)
	}
	var sb strings.Builder
	sb.WriteString(h.Status)
	for _, k := range []string{"connection", "content-type", "access-control-allow-origin", "upgrade", "sec-websocket-accept"} {
		if v, ok := h.Headers[k]; ok {
			sb.WriteString("|" + k + "=" + v)
		}
	}
	sb.WriteString("|")
	sb.Write(Mask(h.Body))
	return sb.String()
}

// StrictJSON checks that b is exactly one JSON document (surrounding white space
// allowed, nothing else after it) and returns it decoded with numbers kept as
// json.Number.
func StrictJSON(b []byte) (any, error) {
	dec := json.NewDecoder(bytes.NewReader(b))
	dec.UseNumber()
	var v any
	if err := dec.Decode(&v); err != nil {
		return nil, err
	}
	// nothing but white space may follow
	var extra any
	if err := dec.Decode(&extra); err != io.EOF {
		if err == nil {
			return nil, fmt.Errorf("trailing JSON value after the first document")
		}
		return nil, fmt.Errorf("trailing bytes after the JSON document: %v", err)
	}
	return v, nil
}

// JSONReply validates a JSON-mode reply: one document, an object, boolean "ok",
// and a string "err" when ok is false.
func JSONReply(b []byte) (map[string]any, error) {
	v, err := StrictJSON(b)
	if err != nil {
		return nil, err
	}
	m, ok := v.(map[string]any)
	if !ok {
		return nil, fmt.Errorf("reply is not a JSON object")
	}
	okv, has := m["ok"]
	if !has {
		return m, fmt.Errorf(`no "ok" member`)
	}
	okb, isb := okv.(bool)
	if !isb {
		return m, fmt.Errorf(`"ok" is not a boolean`)
	}
	if !okb {
		e, has := m["err"]
		if !has {
			return m, fmt.Errorf(`"ok":false without "err"`)
		}
		if _, iss := e.(string); !iss {
			return m, fmt.Errorf(`"err" is not a string`)
		}
	}
	return m, nil
}
