package wire

import (
	"crypto/sha1"
	"encoding/hex"
	"math/rand"
	"strconv"
	"strings"
	"unicode/utf8"
)

// Kind classifies a template token; it selects the hostile replacements.
type Kind int

const (
	Word   Kind = iota // command or option word
	Key                // collection key
	ID                 // object id
	Num                // floating point argument
	Int                // integer argument (limit, cursor, precision, counts)
	Field              // field name
	Val                // free value (field value, string, message)
	JSON               // GeoJSON / JSON argument
	Pat                // glob pattern
	Script             // Lua source
	Sha                // script digest
	URL                // hook endpoint
	Name               // hook / channel / client name
	Path               // JSON path
	Hash               // geohash / quadkey
)

// Tok is one template token.
type Tok struct {
	S string
	K Kind
}

// Flags of a template.
const (
	FLive   = 1 << iota // the connection goes live / streams after the first reply
	FGlobal             // changes server-global behaviour seen by other connections (gates, flush, kill)
	FDev                // needs a --dev server
	FRead               // never changes the dataset
	FNoCmp              // reply is process dependent: only well-formedness is judged
	FCloses             // the server closes the connection after it (QUIT)
	FScript             // needs SCRIPT LOAD of ScriptBody first (sha templates)
)

// Tmpl is one valid command form.
type Tmpl struct {
	ID    string
	Cmd   string // name in core/commands.json ("CONFIG GET"), or dispatcher name when undocumented
	Toks  []Tok
	Flags int
}

// Args renders the template's valid form.
func (t *Tmpl) Args() []string {
	a := make([]string, len(t.Toks))
	for i, k := range t.Toks {
		a[i] = k.S
		if k.K == URL && k.S == hookURLMark {
			a[i] = HookURL
		}
	}
	return a
}

// DocumentedCommands is the key set of core/commands.json at the pinned commit.
var DocumentedCommands = []string{"AOF", "AOFMD5", "AOFSHRINK", "AUTH", "BOUNDS", "CHANS", "CONFIG GET", "CONFIG REWRITE", "CONFIG SET", "DEL", "DELCHAN", "DELHOOK", "DROP", "EVAL", "EVALNA", "EVALNASHA", "EVALRO", "EVALROSHA", "EVALSHA", "EXISTS", "EXPIRE", "FEXISTS", "FGET", "FLUSHDB", "FOLLOW", "FSET", "GC", "GET", "HOOKS", "INTERSECTS", "JDEL", "JGET", "JSET", "KEYS", "NEARBY", "OUTPUT", "PDEL", "PDELCHAN", "PDELHOOK", "PERSIST", "PING", "PSUBSCRIBE", "QUIT", "READONLY", "RENAME", "RENAMENX", "SCAN", "SCRIPT EXISTS", "SCRIPT FLUSH", "SCRIPT LOAD", "SEARCH", "SERVER", "SET", "SETCHAN", "SETHOOK", "STATS", "SUBSCRIBE", "TEST", "TIMEOUT", "TTL", "WITHIN"}

// UndocumentedCommands are dispatcher names without an entry in commands.json
// (DESIGN.md appendix A).
var UndocumentedCommands = []string{"TYPE", "INFO", "ROLE", "HEALTHZ", "ECHO", "CLIENT", "PUBLISH", "MONITOR", "SLAVEOF", "REPLCONF", "HELLO", "MASSINSERT", "SLEEP", "SHUTDOWN"}

// ScriptBody is the script whose digest the *SHA templates use.
const ScriptBody = "return tile38.call('get', KEYS[1], ARGV[1])"

// ScriptSha is sha1(ScriptBody) in hex.
var ScriptSha = func() string {
	h := sha1.Sum([]byte(ScriptBody))
	return hex.EncodeToString(h[:])
}()

// PolyJSON is a small polygon around (33,-112).
const PolyJSON = `{"type":"Polygon","coordinates":[[[-112.3,33.3],[-112.1,33.3],[-112.1,33.6],[-112.3,33.6],[-112.3,33.3]]]}`

// FeatJSON is a feature with properties.
const FeatJSON = `{"type":"Feature","geometry":{"type":"Point","coordinates":[-112.2,33.45]},"properties":{"name":"x y","n":5}}`

func w(s string) Tok   { return Tok{s, Word} }
func k(s string) Tok   { return Tok{s, Key} }
func id(s string) Tok  { return Tok{s, ID} }
func n(s string) Tok   { return Tok{s, Num} }
func in(s string) Tok  { return Tok{s, Int} }
func f(s string) Tok   { return Tok{s, Field} }
func v(s string) Tok   { return Tok{s, Val} }
func js(s string) Tok  { return Tok{s, JSON} }
func p(s string) Tok   { return Tok{s, Pat} }
func lua(s string) Tok { return Tok{s, Script} }
func sha(s string) Tok { return Tok{s, Sha} }
func url(s string) Tok { return Tok{s, URL} }
func nm(s string) Tok  { return Tok{s, Name} }
func pa(s string) Tok  { return Tok{s, Path} }
func gh(s string) Tok  { return Tok{s, Hash} }

func t(id, cmd string, flags int, toks ...Tok) *Tmpl {
	return &Tmpl{ID: id, Cmd: cmd, Toks: toks, Flags: flags}
}

// HookURL is the endpoint used by hook templates and states. The default is a
// port nobody listens on; checks point it at StartSink() so that deliveries
// succeed (a failing endpoint makes the hook manager sleep 500 ms while holding
// the hook's lock, which slows every later command touching that hook).
var HookURL = "http://127.0.0.1:9/verif"

const hookURLMark = "@HOOKURL@"

var templates []*Tmpl

// Templates returns the table: one valid template per command form, covering
// every command of commands.json, the undocumented dispatcher names and every
// option word.
func Templates() []*Tmpl { return templates }

func init() {
	pt := []Tok{w("POINT"), n("33.5"), n("-112.2")}
	add := func(x *Tmpl) { templates = append(templates, x) }
	cat := func(parts ...[]Tok) []Tok {
		var o []Tok
		for _, p := range parts {
			o = append(o, p...)
		}
		return o
	}
	// ---- writes
	add(t("SET.point", "SET", 0, cat([]Tok{w("SET"), k("fleet"), id("truck1")}, pt)...))
	add(t("SET.pointz", "SET", 0, w("SET"), k("fleet"), id("truck2"), w("POINT"), n("33.4"), n("-112.1"), n("120")))
	add(t("SET.fields.ex", "SET", 0, w("SET"), k("fleet"), id("truck1"), w("FIELD"), f("speed"), n("10"), w("FIELD"), f("name"), v("bob"), w("EX"), n("5000"), w("POINT"), n("33.5"), n("-112.2")))
	add(t("SET.nx", "SET", 0, w("SET"), k("fleet"), id("truck9"), w("NX"), w("POINT"), n("33.1"), n("-112.9")))
	add(t("SET.xx", "SET", 0, w("SET"), k("fleet"), id("truck1"), w("XX"), w("POINT"), n("33.5"), n("-112.2")))
	add(t("SET.bounds", "SET", 0, w("SET"), k("fleet"), id("box1"), w("BOUNDS"), n("33.1"), n("-112.4"), n("33.2"), n("-112.3")))
	add(t("SET.hash", "SET", 0, w("SET"), k("fleet"), id("h1"), w("HASH"), gh("9tbnthxzr")))
	add(t("SET.object", "SET", 0, w("SET"), k("fleet"), id("area1"), w("OBJECT"), js(PolyJSON)))
	add(t("SET.feature", "SET", 0, w("SET"), k("fleet"), id("feat1"), w("OBJECT"), js(FeatJSON)))
	add(t("SET.string", "SET", 0, w("SET"), k("fleet"), id("str1"), w("STRING"), v("hello")))
	add(t("SET.fieldjson", "SET", 0, w("SET"), k("fleet"), id("truck1"), w("FIELD"), f("info"), js(`{"a":[1,2],"b":"c"}`), w("POINT"), n("33.5"), n("-112.2")))
	add(t("SET.return.obj", "SET", 0, w("SET"), k("fleet"), id("truck1"), w("POINT"), n("33.5"), n("-112.2"), w("RETURN"), w("WITHFIELDS"), w("OBJECT")))
	add(t("SET.return.point", "SET", 0, w("SET"), k("fleet"), id("truck1"), w("FIELD"), f("speed"), n("12"), w("POINT"), n("33.5"), n("-112.2"), w("RETURN"), w("POINT")))
	add(t("SET.return.bounds", "SET", 0, w("SET"), k("fleet"), id("truck1"), w("POINT"), n("33.5"), n("-112.2"), w("RETURN"), w("BOUNDS")))
	add(t("SET.return.hash", "SET", 0, w("SET"), k("fleet"), id("truck1"), w("POINT"), n("33.5"), n("-112.2"), w("RETURN"), w("HASH"), in("7")))
	add(t("FSET.one", "FSET", 0, w("FSET"), k("fleet"), id("truck1"), f("speed"), n("55")))
	add(t("FSET.multi.xx", "FSET", 0, w("FSET"), k("fleet"), id("truck1"), w("XX"), f("speed"), n("56"), f("name"), v("al")))
	add(t("FSET.return", "FSET", 0, w("FSET"), k("fleet"), id("truck1"), f("speed"), n("57"), w("RETURN"), w("WITHFIELDS"), w("POINT")))
	add(t("FSET.xx.return", "FSET", 0, w("FSET"), k("fleet"), id("truck1"), w("XX"), f("speed"), n("58"), w("RETURN"), w("OBJECT")))
	add(t("DEL", "DEL", 0, w("DEL"), k("fleet"), id("truck1")))
	add(t("DEL.erron404", "DEL", 0, w("DEL"), k("fleet"), id("truck1"), w("ERRON404")))
	add(t("PDEL", "PDEL", 0, w("PDEL"), k("fleet"), p("truck*")))
	add(t("DROP", "DROP", 0, w("DROP"), k("fleet")))
	add(t("RENAME", "RENAME", 0, w("RENAME"), k("fleet"), k("fleet2")))
	add(t("RENAMENX", "RENAMENX", 0, w("RENAMENX"), k("fleet"), k("other")))
	add(t("FLUSHDB", "FLUSHDB", FGlobal, w("FLUSHDB")))
	add(t("EXPIRE", "EXPIRE", 0, w("EXPIRE"), k("fleet"), id("truck1"), n("5000")))
	add(t("PERSIST", "PERSIST", 0, w("PERSIST"), k("fleet"), id("truck2")))
	add(t("JSET", "JSET", 0, w("JSET"), k("fleet"), id("jdoc"), pa("a.b"), v("7")))
	add(t("JSET.raw", "JSET", 0, w("JSET"), k("fleet"), id("jdoc"), pa("c"), js(`{"d":[1,2]}`), w("RAW")))
	add(t("JSET.str", "JSET", 0, w("JSET"), k("fleet"), id("jdoc"), pa("e"), v("12"), w("STR")))
	add(t("JSET.geo", "JSET", 0, w("JSET"), k("fleet"), id("feat1"), pa("properties.n"), v("9")))
	add(t("JDEL", "JDEL", 0, w("JDEL"), k("fleet"), id("jdoc"), pa("a.b")))
	add(t("JDEL.geo", "JDEL", 0, w("JDEL"), k("fleet"), id("feat1"), pa("properties.n")))
	// ---- reads
	add(t("GET", "GET", FRead, w("GET"), k("fleet"), id("truck1")))
	add(t("GET.withfields", "GET", FRead, w("GET"), k("fleet"), id("truck1"), w("WITHFIELDS")))
	add(t("GET.object", "GET", FRead, w("GET"), k("fleet"), id("area1"), w("OBJECT")))
	add(t("GET.point", "GET", FRead, w("GET"), k("fleet"), id("truck2"), w("WITHFIELDS"), w("POINT")))
	add(t("GET.point.negz", "GET", FRead, w("GET"), k("fleet"), id("negz"), w("WITHFIELDS"), w("POINT")))
	add(t("GET.point.featz", "GET", FRead, w("GET"), k("fleet"), id("featz"), w("POINT")))
	add(t("GET.point.gcz", "GET", FRead, w("GET"), k("fleet"), id("gcz"), w("WITHFIELDS"), w("POINT")))
	add(t("SCAN.points", "SCAN", FRead, w("SCAN"), k("fleet"), w("POINTS")))
	add(t("GET.bounds", "GET", FRead, w("GET"), k("fleet"), id("area1"), w("BOUNDS")))
	add(t("GET.hash", "GET", FRead, w("GET"), k("fleet"), id("truck1"), w("HASH"), in("9")))
	add(t("GET.string", "GET", FRead, w("GET"), k("fleet"), id("str1")))
	add(t("FGET", "FGET", FRead, w("FGET"), k("fleet"), id("truck1"), f("speed")))
	add(t("FEXISTS", "FEXISTS", FRead, w("FEXISTS"), k("fleet"), id("truck1"), f("speed")))
	add(t("EXISTS", "EXISTS", FRead, w("EXISTS"), k("fleet"), id("truck1")))
	add(t("TTL", "TTL", FRead, w("TTL"), k("fleet"), id("truck1")))
	add(t("TYPE", "TYPE", FRead, w("TYPE"), k("fleet")))
	add(t("BOUNDS", "BOUNDS", FRead, w("BOUNDS"), k("fleet")))
	add(t("KEYS", "KEYS", FRead, w("KEYS"), p("*")))
	add(t("KEYS.pat", "KEYS", FRead, w("KEYS"), p("fl*t")))
	add(t("STATS", "STATS", FRead, w("STATS"), k("fleet"), k("nokey")))
	add(t("JGET", "JGET", FRead, w("JGET"), k("fleet"), id("jdoc")))
	add(t("JGET.path", "JGET", FRead, w("JGET"), k("fleet"), id("jdoc"), pa("a.b")))
	add(t("JGET.esc", "JGET", FRead, w("JGET"), k("fleet"), id("jdoc"), pa("esc")))
	add(t("JGET.raw", "JGET", FRead, w("JGET"), k("fleet"), id("jdoc"), pa("a"), w("RAW")))
	add(t("JGET.geo", "JGET", FRead, w("JGET"), k("fleet"), id("feat1"), pa("properties.name")))
	// ---- scans and searches
	add(t("SCAN", "SCAN", FRead, w("SCAN"), k("fleet")))
	add(t("SCAN.opts", "SCAN", FRead, w("SCAN"), k("fleet"), w("CURSOR"), in("1"), w("LIMIT"), in("3"), w("MATCH"), p("t*"), w("DESC"), w("IDS")))
	add(t("SCAN.asc.count", "SCAN", FRead, w("SCAN"), k("fleet"), w("ASC"), w("COUNT")))
	add(t("SCAN.where", "SCAN", FRead, w("SCAN"), k("fleet"), w("WHERE"), f("speed"), n("0"), n("100"), w("OBJECTS")))
	add(t("SCAN.whereop", "SCAN", FRead, w("SCAN"), k("fleet"), w("WHERE"), f("speed"), v(">="), n("5"), w("NOFIELDS"), w("POINTS")))
	add(t("SCAN.whereexpr", "SCAN", FRead, w("SCAN"), k("fleet"), w("WHERE"), v("speed > 5 && speed < 100"), w("IDS")))
	add(t("SCAN.wherein", "SCAN", FRead, w("SCAN"), k("fleet"), w("WHEREIN"), f("speed"), in("2"), n("10"), n("55"), w("HASHES"), in("6")))
	add(t("SCAN.whereeval", "SCAN", FRead, w("SCAN"), k("fleet"), w("WHEREEVAL"), lua("return FIELDS.speed ~= nil and FIELDS.speed > ARGV[1]+0"), in("1"), n("5"), w("BOUNDS")))
	add(t("SCAN.whereevalsha", "SCAN", FRead|FScript, w("SCAN"), k("fleet"), w("WHEREEVALSHA"), sha(ScriptSha), in("0"), w("IDS")))
	add(t("SEARCH", "SEARCH", FRead, w("SEARCH"), k("fleet")))
	add(t("SEARCH.opts", "SEARCH", FRead, w("SEARCH"), k("fleet"), w("MATCH"), p("h*"), w("LIMIT"), in("5"), w("DESC"), w("IDS")))
	add(t("SEARCH.count", "SEARCH", FRead, w("SEARCH"), k("fleet"), w("ASC"), w("CURSOR"), in("0"), w("COUNT")))
	add(t("NEARBY.point", "NEARBY", FRead, w("NEARBY"), k("fleet"), w("POINT"), n("33.5"), n("-112.2"), n("50000")))
	add(t("NEARBY.knn", "NEARBY", FRead, w("NEARBY"), k("fleet"), w("LIMIT"), in("2"), w("DISTANCE"), w("IDS"), w("POINT"), n("33.5"), n("-112.2")))
	add(t("NEARBY.opts", "NEARBY", FRead, w("NEARBY"), k("fleet"), w("MATCH"), p("truck*"), w("WHERE"), f("speed"), n("-inf"), n("+inf"), w("DISTANCE"), w("POINTS"), w("POINT"), n("33.5"), n("-112.2"), n("90000")))
	add(t("NEARBY.sparse", "NEARBY", FRead, w("NEARBY"), k("fleet"), w("SPARSE"), in("2"), w("COUNT"), w("POINT"), n("33.5"), n("-112.2"), n("90000")))
	add(t("NEARBY.fence", "NEARBY", FRead|FLive, w("NEARBY"), k("fleet"), w("FENCE"), w("DETECT"), v("inside,enter"), w("COMMANDS"), v("set,del"), w("NODWELL"), w("POINT"), n("33.5"), n("-112.2"), n("6000")))
	add(t("NEARBY.roam", "NEARBY", FRead|FLive, w("NEARBY"), k("fleet"), w("FENCE"), w("ROAM"), k("fleet"), p("*"), n("1000")))
	add(t("WITHIN.bounds", "WITHIN", FRead, w("WITHIN"), k("fleet"), w("BOUNDS"), n("33"), n("-113"), n("34"), n("-112")))
	add(t("WITHIN.circle", "WITHIN", FRead, w("WITHIN"), k("fleet"), w("IDS"), w("CIRCLE"), n("33.5"), n("-112.2"), n("40000")))
	add(t("WITHIN.object", "WITHIN", FRead, w("WITHIN"), k("fleet"), w("COUNT"), w("OBJECT"), js(PolyJSON)))
	add(t("WITHIN.sector", "WITHIN", FRead, w("WITHIN"), k("fleet"), w("IDS"), w("SECTOR"), n("33.5"), n("-112.2"), n("50000"), n("0"), n("90")))
	add(t("WITHIN.hash", "WITHIN", FRead, w("WITHIN"), k("fleet"), w("POINTS"), w("HASH"), gh("9tbn")))
	add(t("WITHIN.tile", "WITHIN", FRead, w("WITHIN"), k("fleet"), w("IDS"), w("TILE"), in("24"), in("51"), in("7")))
	add(t("WITHIN.quadkey", "WITHIN", FRead, w("WITHIN"), k("fleet"), w("IDS"), w("QUADKEY"), gh("0231")))
	add(t("WITHIN.get", "WITHIN", FRead, w("WITHIN"), k("fleet"), w("IDS"), w("GET"), k("fleet"), id("area1")))
	add(t("WITHIN.point", "WITHIN", FRead, w("WITHIN"), k("fleet"), w("IDS"), w("POINT"), n("33.5"), n("-112.2")))
	add(t("WITHIN.buffer", "WITHIN", FRead, w("WITHIN"), k("fleet"), w("BUFFER"), n("1000"), w("IDS"), w("BOUNDS"), n("33.4"), n("-112.3"), n("33.6"), n("-112.1")))
	add(t("NEARBY.buffer", "NEARBY", FRead, w("NEARBY"), k("fleet"), w("BUFFER"), n("100"), w("IDS"), w("POINT"), n("33.5"), n("-112.2"), n("5000")))
	add(t("INTERSECTS.buffer", "INTERSECTS", FRead, w("INTERSECTS"), k("fleet"), w("BUFFER"), n("100"), w("IDS"), w("POINT"), n("33.5"), n("-112.2")))
	add(t("TEST.lines", "TEST", FRead, w("TEST"), w("OBJECT"), js(`{"type":"LineString","coordinates":[[0,0],[1,0],[1,1]]}`), w("WITHIN"), w("OBJECT"), js(`{"type":"LineString","coordinates":[[0,0],[1,0],[2,0]]}`)))
	add(t("WITHIN.fence", "WITHIN", FRead|FLive, w("WITHIN"), k("fleet"), w("FENCE"), w("DETECT"), v("enter,exit,cross,inside,outside"), w("BOUNDS"), n("33"), n("-113"), n("34"), n("-112")))
	add(t("INTERSECTS.bounds", "INTERSECTS", FRead, w("INTERSECTS"), k("fleet"), w("BOUNDS"), n("33"), n("-113"), n("34"), n("-112")))
	add(t("INTERSECTS.clip", "INTERSECTS", FRead, w("INTERSECTS"), k("fleet"), w("CLIP"), w("OBJECTS"), w("BOUNDS"), n("33.2"), n("-112.25"), n("33.5"), n("-112.15")))
	add(t("INTERSECTS.clipby", "INTERSECTS", FRead, w("INTERSECTS"), k("fleet"), w("IDS"), w("OBJECT"), js(PolyJSON), w("CLIPBY"), w("BOUNDS"), n("33.2"), n("-112.25"), n("33.5"), n("-112.15")))
	add(t("INTERSECTS.mvt", "INTERSECTS", FRead, w("INTERSECTS"), k("fleet"), w("MVT"), in("24"), in("51"), in("7")))
	add(t("INTERSECTS.circle.sparse", "INTERSECTS", FRead, w("INTERSECTS"), k("fleet"), w("SPARSE"), in("3"), w("IDS"), w("CIRCLE"), n("33.5"), n("-112.2"), n("90000")))
	add(t("INTERSECTS.whereeval", "INTERSECTS", FRead, w("INTERSECTS"), k("fleet"), w("WHEREEVAL"), lua("return ID ~= 'x'"), in("0"), w("IDS"), w("BOUNDS"), n("33"), n("-113"), n("34"), n("-112")))
	add(t("TEST.point.within", "TEST", FRead, w("TEST"), w("POINT"), n("33.5"), n("-112.2"), w("WITHIN"), w("BOUNDS"), n("33"), n("-113"), n("34"), n("-112")))
	add(t("TEST.clip", "TEST", FRead, w("TEST"), w("OBJECT"), js(PolyJSON), w("INTERSECTS"), w("CLIP"), w("BOUNDS"), n("33.2"), n("-112.25"), n("33.5"), n("-112.15")))
	add(t("TEST.expr", "TEST", FRead, w("TEST"), w("GET"), k("fleet"), id("truck1"), w("INTERSECTS"), w("("), w("CIRCLE"), n("33.5"), n("-112.2"), n("1000"), w("OR"), w("NOT"), w("HASH"), gh("9tbn"), w(")"), w("AND"), w("TILE"), in("24"), in("51"), in("7")))
	add(t("TEST.sector.quadkey", "TEST", FRead, w("TEST"), w("QUADKEY"), gh("0231"), w("INTERSECTS"), w("SECTOR"), n("33.5"), n("-112.2"), n("50000"), n("0"), n("90")))
	// ---- hooks and channels
	add(t("SETHOOK", "SETHOOK", 0, w("SETHOOK"), nm("hook1"), url(hookURLMark), w("META"), nm("m1"), v("v1"), w("EX"), n("9000"), w("NEARBY"), k("fleet"), w("FENCE"), w("POINT"), n("33.5"), n("-112.2"), n("6000")))
	add(t("SETHOOK.within", "SETHOOK", 0, w("SETHOOK"), nm("hook2"), url(hookURLMark), w("WITHIN"), k("fleet"), w("FENCE"), w("DETECT"), v("enter,exit"), w("OBJECT"), js(PolyJSON)))
	add(t("SETHOOK.roam", "SETHOOK", 0, w("SETHOOK"), nm("hook3"), url(hookURLMark), w("NEARBY"), k("fleet"), w("FENCE"), w("ROAM"), k("fleet"), p("*"), n("500")))
	add(t("SETCHAN", "SETCHAN", 0, w("SETCHAN"), nm("chan1"), w("INTERSECTS"), k("fleet"), w("FENCE"), w("BOUNDS"), n("33"), n("-113"), n("34"), n("-112")))
	add(t("DELHOOK", "DELHOOK", 0, w("DELHOOK"), nm("hook1")))
	add(t("PDELHOOK", "PDELHOOK", 0, w("PDELHOOK"), p("hook*")))
	add(t("HOOKS", "HOOKS", FRead, w("HOOKS"), p("*")))
	add(t("DELCHAN", "DELCHAN", 0, w("DELCHAN"), nm("chan1")))
	add(t("PDELCHAN", "PDELCHAN", 0, w("PDELCHAN"), p("ch*")))
	add(t("CHANS", "CHANS", FRead, w("CHANS"), p("*")))
	add(t("PUBLISH", "PUBLISH", FRead, w("PUBLISH"), nm("chan1"), v("hello there")))
	add(t("SUBSCRIBE", "SUBSCRIBE", FRead|FLive, w("SUBSCRIBE"), nm("chan1")))
	add(t("PSUBSCRIBE", "PSUBSCRIBE", FRead|FLive, w("PSUBSCRIBE"), p("ch*")))
	// ---- scripts
	add(t("EVAL", "EVAL", 0, w("EVAL"), lua("return tile38.call('set', KEYS[1], ARGV[1], 'POINT', 33, -112)"), in("1"), k("fleet"), id("ev1")))
	add(t("EVAL.table", "EVAL", 0, w("EVAL"), lua("return {1, 'two', {3, 'four'}, true}"), in("0")))
	add(t("EVAL.echo", "EVAL", FRead, w("EVAL"), lua("return {ARGV[1], KEYS[1], #ARGV[1]}"), in("1"), k("fleet"), v("a \"quoted\" \\ value")))
	add(t("EVAL.number", "EVAL", FRead, w("EVAL"), lua("return tonumber(ARGV[1])"), in("0"), n("12.75")))
	add(t("EVAL.status", "EVAL", FRead, w("EVAL"), lua("return {ok = ARGV[1]}"), in("0"), v("FINE")))
	add(t("EVAL.error", "EVAL", FRead, w("EVAL"), lua("return {err = ARGV[1]}"), in("0"), v("custom failure")))
	add(t("EVAL.bool", "EVAL", FRead, w("EVAL"), lua("return ARGV[1] == 'x'"), in("0"), v("x")))
	add(t("EVAL.div", "EVAL", FRead, w("EVAL"), lua("return ARGV[1] / ARGV[2]"), in("0"), n("10"), n("4")))
	add(t("EVAL.map", "EVAL", FRead, w("EVAL"), lua("return {[ARGV[1] + 0] = 'v', name = ARGV[2]}"), in("0"), n("1.5"), v("x")))
	add(t("EVAL.func", "EVAL", FRead, w("EVAL"), lua("return tostring"), in("0")))
	add(t("EVAL.functbl", "EVAL", FRead, w("EVAL"), lua("return {1, tile38.call, 'x'}"), in("0")))
	add(t("EVALRO", "EVALRO", FRead, w("EVALRO"), lua(ScriptBody), in("1"), k("fleet"), id("truck1")))
	add(t("EVALNA", "EVALNA", FRead, w("EVALNA"), lua("return ARGV[1] .. ':' .. #KEYS"), in("1"), k("fleet"), v("x")))
	add(t("EVALSHA", "EVALSHA", FScript, w("EVALSHA"), sha(ScriptSha), in("1"), k("fleet"), id("truck1")))
	add(t("EVALROSHA", "EVALROSHA", FRead|FScript, w("EVALROSHA"), sha(ScriptSha), in("1"), k("fleet"), id("truck1")))
	add(t("EVALNASHA", "EVALNASHA", FRead|FScript, w("EVALNASHA"), sha(ScriptSha), in("1"), k("fleet"), id("truck1")))
	add(t("SCRIPT LOAD", "SCRIPT LOAD", FRead, w("SCRIPT"), w("LOAD"), lua("return 42")))
	add(t("SCRIPT EXISTS", "SCRIPT EXISTS", FRead|FScript, w("SCRIPT"), w("EXISTS"), sha(ScriptSha), sha("0000000000000000000000000000000000000000")))
	add(t("SCRIPT FLUSH", "SCRIPT FLUSH", FRead, w("SCRIPT"), w("FLUSH")))
	// ---- connection / server
	add(t("PING", "PING", FRead, w("PING")))
	add(t("PING.arg", "PING", FRead, w("PING"), v("hi")))
	add(t("ECHO", "ECHO", FRead, w("ECHO"), v("hi there")))
	add(t("OUTPUT", "OUTPUT", FRead, w("OUTPUT")))
	add(t("OUTPUT.json", "OUTPUT", FRead, w("OUTPUT"), w("json")))
	add(t("OUTPUT.resp", "OUTPUT", FRead, w("OUTPUT"), w("resp")))
	add(t("QUIT", "QUIT", FRead|FCloses, w("QUIT")))
	add(t("TIMEOUT", "TIMEOUT", FRead, w("TIMEOUT"), n("5"), w("SCAN"), k("fleet"), w("COUNT")))
	add(t("TIMEOUT.write", "TIMEOUT", FRead, w("TIMEOUT"), n("5"), w("DROP"), k("fleet")))
	add(t("SERVER", "SERVER", FRead|FNoCmp, w("SERVER")))
	add(t("SERVER.ext", "SERVER", FRead|FNoCmp, w("SERVER"), w("EXT")))
	add(t("INFO", "INFO", FRead|FNoCmp, w("INFO")))
	add(t("INFO.section", "INFO", FRead|FNoCmp, w("INFO"), w("server"), w("replication")))
	add(t("ROLE", "ROLE", FRead|FNoCmp, w("ROLE")))
	add(t("HEALTHZ", "HEALTHZ", FRead, w("HEALTHZ")))
	add(t("GC", "GC", FRead, w("GC")))
	add(t("AOFSHRINK", "AOFSHRINK", FRead, w("AOFSHRINK")))
	add(t("AOFMD5", "AOFMD5", FRead|FNoCmp, w("AOFMD5"), in("0"), in("0")))
	add(t("AOF", "AOF", FRead|FLive, w("AOF"), in("0")))
	add(t("MONITOR", "MONITOR", FRead|FLive, w("MONITOR")))
	add(t("CONFIG GET", "CONFIG GET", FRead, w("CONFIG"), w("GET"), p("*")))
	add(t("CONFIG GET.one", "CONFIG GET", FRead, w("CONFIG"), w("GET"), p("keepalive")))
	add(t("CONFIG SET", "CONFIG SET", FGlobal, w("CONFIG"), w("SET"), w("keepalive"), in("300")))
	add(t("CONFIG SET.maxmemory", "CONFIG SET", FGlobal, w("CONFIG"), w("SET"), w("maxmemory"), v("0")))
	add(t("CONFIG SET.requirepass", "CONFIG SET", FGlobal, w("CONFIG"), w("SET"), w("requirepass"), v("")))
	add(t("CONFIG SET.protected", "CONFIG SET", FGlobal, w("CONFIG"), w("SET"), w("protected-mode"), w("no")))
	add(t("CONFIG REWRITE", "CONFIG REWRITE", FGlobal, w("CONFIG"), w("REWRITE")))
	add(t("CLIENT LIST", "CLIENT", FRead|FNoCmp|FGlobal, w("CLIENT"), w("LIST")))
	add(t("CLIENT GETNAME", "CLIENT", FRead|FGlobal, w("CLIENT"), w("GETNAME")))
	add(t("CLIENT SETNAME", "CLIENT", FRead|FGlobal, w("CLIENT"), w("SETNAME"), nm("me")))
	add(t("CLIENT KILL", "CLIENT", FRead|FGlobal, w("CLIENT"), w("KILL"), w("ID"), in("999999")))
	add(t("AUTH", "AUTH", FRead|FGlobal, w("AUTH"), v("secret")))
	add(t("READONLY", "READONLY", FGlobal, w("READONLY"), w("no")))
	add(t("FOLLOW", "FOLLOW", FGlobal|FNoCmp, w("FOLLOW"), w("no"), w("one")))
	add(t("FOLLOW.host", "FOLLOW", FGlobal|FNoCmp, w("FOLLOW"), v("127.0.0.1"), in("9")))
	add(t("SLAVEOF", "SLAVEOF", FGlobal|FNoCmp, w("SLAVEOF"), w("no"), w("one")))
	add(t("REPLCONF", "REPLCONF", FRead, w("REPLCONF"), w("listening-port"), in("9851")))
	add(t("REPLCONF.ip", "REPLCONF", FRead, w("REPLCONF"), w("ip-address"), v("127.0.0.1")))
	add(t("HELLO", "HELLO", FRead, w("HELLO"), in("3")))
	add(t("SHUTDOWN", "SHUTDOWN", FRead|FGlobal, w("SHUTDOWN")))
	add(t("MASSINSERT", "MASSINSERT", FDev, w("MASSINSERT"), in("1"), in("2")))
	add(t("SLEEP", "SLEEP", FDev|FRead, w("SLEEP"), n("0.001")))
}

// OptionWords is the dictionary of command and option words used by mutations.
var OptionWords = []string{
	"SET", "GET", "DEL", "PDEL", "DROP", "FSET", "FGET", "SCAN", "SEARCH", "NEARBY", "WITHIN", "INTERSECTS", "TEST", "KEYS", "TTL", "EXPIRE", "PERSIST",
	"JSET", "JGET", "JDEL", "SETHOOK", "SETCHAN", "HOOKS", "CHANS", "EVAL", "EVALRO", "EVALNA", "STATS", "BOUNDS", "TYPE", "EXISTS", "FEXISTS", "RENAME", "RENAMENX", "TIMEOUT", "OUTPUT", "PING", "ECHO",
	"FIELD", "EX", "NX", "XX", "RETURN", "WITHFIELDS", "OBJECT", "POINT", "HASH", "STRING", "ERRON404", "RAW", "STR",
	"CURSOR", "LIMIT", "MATCH", "ASC", "DESC", "WHERE", "WHEREIN", "WHEREEVAL", "WHEREEVALSHA", "NOFIELDS", "SPARSE", "FENCE", "COMMANDS", "DISTANCE", "DETECT", "NODWELL", "CLIP", "BUFFER",
	"COUNT", "IDS", "OBJECTS", "POINTS", "HASHES",
	"CIRCLE", "SECTOR", "TILE", "MVT", "QUADKEY", "GEO", "ROAM", "CLIPBY", "AND", "OR", "NOT", "(", ")",
	"META", "LOAD", "inside", "enter,exit", "json", "resp", "EXT", "LIST",
}

// HostileAny are replacements tried at any position.
var HostileAny = []string{"", "inf", "-inf", "nan", "1e309", "-0", "0", "-1", "18446744073709551615", "9223372036854775807", "99999999999999999999999", "*", "[", "\\", "a[b-", "?", "{", `{"type":`, "\x00", "'", `"`, "\xff\xfe"}

// HostileNum are replacements for numeric positions.
var HostileNum = []string{"abc", "inf", "+Inf", "-inf", "nan", "NaN", "1e309", "-1e309", "-0", "", "99999999999999999999999", "18446744073709551615", "9223372036854775808", "-9223372036854775809", "-1", "0", "1.5", "0x10", "1e-320", "90.00000000000001", "-180.0000001", "1_0", " 1", "1 "}

// HostileName are names needing escaping or matching oddly.
var HostileName = []string{`a"b`, `a\b`, "a\nb", "a\rb", "a\x01b", "a\x7fb", "\xff\xfe", "\xc3", "ключ", "a b", "*", "a*", "[", "", "é ", "<&>", "%41", "a+b", "a'b", "{x}"}

// HostileJSON are broken or odd GeoJSON arguments.
var HostileJSON = []string{`{`, `{"type":"Point","coordinates":[1,2`, `{"type":"Nope"}`, `[]`, `null`, `{"type":"Point","coordinates":["a","b"]}`, `{"type":"Polygon","coordinates":[]}`, `{"type":"Polygon","coordinates":[[]]}`,
	`{"type":"Feature","geometry":null}`, `{"type":"FeatureCollection","features":[]}`, `{"type":"GeometryCollection","geometries":[]}`, `{"type":"Point","coordinates":[1e999,2]}`, `{"type":"Point","coordinates":[1,2],"bbox":[1]}`,
	`{"type":"LineString","coordinates":[[1,2]]}`, `{"type":"Point","coordinates":[1,2]} trailing`, `{"type":"Point","coordinates":[1,2],"x":"` + "\x01" + `"}`, `{"type":"MultiPolygon","coordinates":[[[[0,0],[1,1],[0,0]]]]}`}

// LongToken is a very long token.
var LongToken = strings.Repeat("A", 70000)

// HostileURL are endpoint arguments: every scheme the endpoint parser knows, with parts missing.
var HostileURL = func() []string {
	var out []string
	for _, sc := range []string{"local", "http", "https", "disque", "grpc", "redis", "kafka", "amqp", "amqps", "mqtt", "pubsub", "sqs", "nats", "cf-queue", "nosuch"} {
		for _, rest := range []string{":", "://", "://127.0.0.1", "://127.0.0.1/", "://127.0.0.1/topic", "://127.0.0.1:x/topic", "://:/", "://127.0.0.1:1/topic?a=&b", "://u:p@127.0.0.1:1", "://127.0.0.1:1/a/b/c?x=%zz"} {
			out = append(out, sc+rest)
		}
	}
	return append(out, "Endpoint=", "Endpoint=sb://x/;SharedAccessKeyName=", "http://127.0.0.1:9/a,", ",", "http://127.0.0.1:9/a,nats://127.0.0.1")
}()

func hostileFor(kd Kind) []string {
	switch kd {
	case Num, Int:
		return HostileNum
	case URL:
		return append(append([]string{}, HostileName...), HostileURL...)
	case Key, ID, Field, Name, Pat, Path, Hash, Sha:
		return HostileName
	case JSON:
		return HostileJSON
	}
	return HostileAny
}

// alwaysFor lists the hostile values tried at every token of a kind even when
// the sweep is subsampled.
func alwaysFor(kd Kind) []string {
	switch kd {
	case Num:
		return []string{"", "nan", "inf"}
	case Int:
		return []string{"", "18446744073709551615", "9223372036854775807", "-1"}
	case Key, ID, Field, Name, Pat, Path, Hash, Sha, URL:
		return []string{"", `a"b`, "\xff\xfe"}
	case JSON:
		return []string{"{"}
	}
	return []string{""}
}

// Mutation describes what Mutate did (for logs and quarantine keys).
type Mutation struct {
	Op  string // replace-word, replace-hostile, delete, insert, truncate, duplicate, swap
	Pos int
	Val string
}

func (m Mutation) String() string {
	v := m.Val
	if len(v) > 24 {
		v = v[:24] + "~"
	}
	return m.Op + "@" + strconv.Itoa(m.Pos) + "=" + strconv.Quote(v)
}

// Mutate applies 0-3 token-level mutations to the template's valid form.
func Mutate(rng *rand.Rand, tm *Tmpl) ([]string, []Mutation) {
	args := tm.Args()
	kinds := make([]Kind, len(tm.Toks))
	for i, tk := range tm.Toks {
		kinds[i] = tk.K
	}
	nm := rng.Intn(4)
	var muts []Mutation
	for m := 0; m < nm && len(args) > 0; m++ {
		pos := rng.Intn(len(args))
		switch rng.Intn(10) {
		case 0, 1: // dictionary word
			wd := OptionWords[rng.Intn(len(OptionWords))]
			args[pos] = wd
			muts = append(muts, Mutation{"replace-word", pos, wd})
		case 2, 3, 4: // hostile value fitting the kind (or any)
			var h []string
			if rng.Intn(3) == 0 {
				h = HostileAny
			} else {
				h = hostileFor(kinds[pos])
			}
			val := h[rng.Intn(len(h))]
			if rng.Intn(60) == 0 {
				val = LongToken
			}
			args[pos] = val
			muts = append(muts, Mutation{"replace-hostile", pos, val})
		case 5: // delete
			if pos == 0 && rng.Intn(4) != 0 {
				pos = rng.Intn(len(args))
			}
			args = append(args[:pos:pos], args[pos+1:]...)
			kinds = append(kinds[:pos:pos], kinds[pos+1:]...)
			muts = append(muts, Mutation{"delete", pos, ""})
		case 6: // insert
			var val string
			if rng.Intn(2) == 0 {
				val = OptionWords[rng.Intn(len(OptionWords))]
			} else {
				val = HostileAny[rng.Intn(len(HostileAny))]
			}
			args = append(args[:pos:pos], append([]string{val}, args[pos:]...)...)
			kinds = append(kinds[:pos:pos], append([]Kind{Val}, kinds[pos:]...)...)
			muts = append(muts, Mutation{"insert", pos, val})
		case 7: // truncate
			if pos == 0 {
				pos = 1
			}
			args = args[:pos]
			kinds = kinds[:pos]
			muts = append(muts, Mutation{"truncate", pos, ""})
		case 8: // duplicate
			args = append(args[:pos+1:pos+1], args[pos:]...)
			kinds = append(kinds[:pos+1:pos+1], kinds[pos:]...)
			muts = append(muts, Mutation{"duplicate", pos, args[pos]})
		case 9: // swap
			q := rng.Intn(len(args))
			args[pos], args[q] = args[q], args[pos]
			kinds[pos], kinds[q] = kinds[q], kinds[pos]
			muts = append(muts, Mutation{"swap", pos, strconv.Itoa(q)})
		}
	}
	return args, muts
}

// Shape is one systematic argument shape of a template.
type Shape struct {
	Name string
	Args []string
}

// Shapes enumerates the systematic argument shapes of a template: the valid
// form, every single-token deletion, every truncation, every duplication, an
// extra trailing argument, and per token the hostile replacements that fit its
// kind (all of them when full, otherwise perTok PRNG-chosen ones).
func Shapes(tm *Tmpl, rng *rand.Rand, perTok int, full bool) []Shape {
	base := tm.Args()
	out := []Shape{{"valid", base}}
	cp := func() []string { return append([]string(nil), base...) }
	for i := 1; i < len(base); i++ {
		a := cp()
		a = append(a[:i], a[i+1:]...)
		out = append(out, Shape{"drop@" + strconv.Itoa(i), a})
	}
	for i := 1; i < len(base); i++ {
		out = append(out, Shape{"trunc@" + strconv.Itoa(i), cp()[:i]})
	}
	for i := 1; i < len(base); i++ {
		a := cp()
		a = append(a[:i+1], a[i:]...)
		out = append(out, Shape{"dup@" + strconv.Itoa(i), a})
	}
	out = append(out, Shape{"extra", append(cp(), "extra")})
	out = append(out, Shape{"extra2", append(cp(), "RETURN", "OBJECT")})
	out = append(out, Shape{"lower", lowerFirst(cp())})
	for i := 1; i < len(base); i++ {
		h := hostileFor(tm.Toks[i].K)
		var pick []int
		if full || perTok >= len(h) || tm.Toks[i].K == URL { // endpoint shapes are always tried in full
			for j := range h {
				pick = append(pick, j)
			}
		} else {
			pick = rng.Perm(len(h))[:perTok]
			// the values that are always tried for this kind
			for _, must := range alwaysFor(tm.Toks[i].K) {
				has := false
				for _, j := range pick {
					if h[j] == must {
						has = true
					}
				}
				if !has {
					for j := range h {
						if h[j] == must {
							pick = append(pick, j)
							break
						}
					}
				}
			}
		}
		for _, j := range pick {
			a := cp()
			a[i] = h[j]
			out = append(out, Shape{"garble@" + strconv.Itoa(i) + ":" + shortName(h[j]), a})
		}
		if tm.Toks[i].K == Word && isAreaWord(base[i]) && areaPosition(base, i) {
			for _, aw := range AreaWords {
				if !strings.EqualFold(aw, base[i]) {
					a := cp()
					a[i] = aw
					out = append(out, Shape{"area@" + strconv.Itoa(i) + ":" + aw, a})
					out = append(out, Shape{"areaend@" + strconv.Itoa(i) + ":" + aw, cp2(a[:i+1])})
				}
			}
		}
		if tm.Toks[i].K == Word && (full || rng.Intn(3) == 0) {
			a := cp()
			a[i] = OptionWords[rng.Intn(len(OptionWords))]
			out = append(out, Shape{"word@" + strconv.Itoa(i) + ":" + a[i], a})
		}
	}
	return out
}

// AreaWords are the area-type words of the search commands (GEO is accepted by
// the type table of WITHIN/INTERSECTS).
var AreaWords = []string{"POINT", "CIRCLE", "BOUNDS", "HASH", "TILE", "MVT", "QUADKEY", "GET", "OBJECT", "SECTOR", "GEO", "ROAM"}

func isAreaWord(s string) bool {
	for _, a := range AreaWords {
		if strings.EqualFold(a, s) {
			return true
		}
	}
	return false
}

// areaPosition: the token is the area type of a search-like command (not the
// output selector BOUNDS/POINTS or a SET object type).
func areaPosition(args []string, i int) bool {
	switch strings.ToUpper(args[0]) {
	case "NEARBY", "WITHIN", "INTERSECTS", "SETHOOK", "SETCHAN", "TEST":
	default:
		return false
	}
	// the last area word in the command, or any area word for TEST
	if strings.ToUpper(args[0]) == "TEST" {
		return true
	}
	for j := i + 1; j < len(args); j++ {
		if isAreaWord(args[j]) && !strings.EqualFold(args[j], "GET") {
			return false
		}
	}
	return true
}

func cp2(a []string) []string { return append([]string(nil), a...) }

func lowerFirst(a []string) []string {
	for i := range a {
		if i == 0 {
			a[i] = strings.ToLower(a[i])
		}
	}
	return a
}

func shortName(s string) string {
	if len(s) > 16 {
		s = s[:16] + "~"
	}
	return strconv.QuoteToASCII(s)
}

// CommandWord returns the upper-cased command (two words for CONFIG/SCRIPT/CLIENT)
// and the first area/option word found in args: the class name used in wedge keys.
func CommandWord(args []string) string {
	if len(args) == 0 {
		return "-"
	}
	clean := func(s string) string {
		s = strings.ToUpper(s)
		var sb strings.Builder
		for _, c := range s {
			if (c >= 'A' && c <= 'Z') || (c >= '0' && c <= '9') || c == '-' || c == '_' {
				sb.WriteRune(c)
			}
		}
		if sb.Len() > 16 {
			return sb.String()[:16]
		}
		return sb.String()
	}
	out := clean(args[0])
	if out == "" {
		out = "EMPTY"
		if args[0] != "" {
			out = "ODD"
		}
	}
	for _, a := range args[1:] {
		switch strings.ToUpper(a) {
		case "SECTOR", "CIRCLE", "OBJECT", "BOUNDS", "HASH", "TILE", "MVT", "QUADKEY", "GEO", "ROAM", "POINT", "WHERE", "WHEREIN", "WHEREEVAL", "WHEREEVALSHA", "RETURN", "BUFFER", "CLIPBY", "SPARSE":
			return out + "+" + strings.ToUpper(a)
		}
	}
	return out
}

// ---- dataset states shared by the checks

// StateNames are the dataset states of C17.
var StateNames = []string{"empty", "small", "hooks"}

// StateCommands returns the commands that build a state from a flushed server
// (FLUSHDB and SCRIPT FLUSH are sent first by the caller).
func StateCommands(name string) [][]string {
	if name == "empty" {
		return nil
	}
	c := [][]string{
		{"SET", "fleet", "truck1", "FIELD", "speed", "10", "FIELD", "name", "bob", "POINT", "33.5", "-112.2"},
		{"SET", "fleet", "truck2", "FIELD", "speed", "70", "EX", "100000", "POINT", "33.4", "-112.1", "120"},
		{"SET", "fleet", "area1", "FIELD", "info", `{"a":[1,2],"b":"c"}`, "OBJECT", PolyJSON},
		{"SET", "fleet", "feat1", "OBJECT", FeatJSON},
		{"SET", "fleet", "box1", "BOUNDS", "33.1", "-112.4", "33.2", "-112.3"},
		{"SET", "fleet", "negz", "FIELD", "speed", "21", "POINT", "33.44", "-112.24", "-42.5"},
		{"SET", "fleet", "featz", "FIELD", "speed", "33", "OBJECT", `{"type":"Feature","geometry":{"type":"Point","coordinates":[-112.23,33.47,77]},"properties":{"k":"v"}}`},
		{"SET", "fleet", "gcz", "OBJECT", `{"type":"GeometryCollection","geometries":[{"type":"Point","coordinates":[-112.21,33.48,12.5]}]}`},
		{"SET", "fleet", "str1", "STRING", "hello"},
		{"SET", "fleet", "h1", "FIELD", "flag", "true", "FIELD", "nn", "null", "HASH", "9tbnthxzr"},
		{"SET", "fleet", "jdoc", "STRING", `{"a":{"b":1},"s":"x","esc":"q\"b\\s \u0001\u0007\u001b\u007f\n\t é世 \udb40\udc01\u2028<&>"}`},
		{"SET", "fleet", `q"uo\te`, "FIELD", `f"1`, `v"\1`, "POINT", "33.45", "-112.25"},
		{"SET", "fleet", "nl\nid\x01", "FIELD", "speed", "1e2", "POINT", "33.46", "-112.26"},
		{"SET", "fleet", "bad\xff\xfeutf", "STRING", "val\xffue \"q\" \\ \n end"},
		{"SET", `we"ird\key`, "id é", "FIELD", "spd", "-0.5", "POINT", "10", "20"},
		{"SET", "other", "o1", "POINT", "1", "2"},
		{"SET", "k\xffey\n", "i1", "FIELD", "f\xfe", "s\xfd", "POINT", "3", "4"},
	}
	if name == "hooks" {
		c = append(c,
			[]string{"SETHOOK", "hook1", HookURL, "META", "m1", "v1", "NEARBY", "fleet", "FENCE", "POINT", "33.5", "-112.2", "6000"},
			[]string{"SETHOOK", `ho"ok\2`, HookURL + "," + HookURL + "2", "META", `m"k`, "v\n2", "EX", "90000", "WITHIN", "fleet", "FENCE", "DETECT", "enter,exit", "OBJECT", PolyJSON},
			[]string{"SETCHAN", "chan1", "INTERSECTS", "fleet", "FENCE", "BOUNDS", "33", "-113", "34", "-112"},
			[]string{"SETCHAN", "ch\"an\x012", "NEARBY", "other", "FENCE", "ROAM", "fleet", "*", "500"},
		)
	}
	return c
}

// NormString maps a byte string to what a JSON string can carry: every byte
// that is not part of valid UTF-8 becomes U+FFFD (one per byte, as encoding/json
// does on both encode and decode).
func NormString(s string) string {
	ok := true
	for i := 0; i < len(s); {
		r, n := utf8.DecodeRuneInString(s[i:])
		if r == utf8.RuneError && n == 1 {
			ok = false
			break
		}
		i += n
	}
	if ok {
		return s
	}
	var sb strings.Builder
	for i := 0; i < len(s); {
		r, n := utf8.DecodeRuneInString(s[i:])
		if r == utf8.RuneError && n == 1 {
			sb.WriteRune(utf8.RuneError)
		} else {
			sb.WriteString(s[i : i+n])
		}
		i += n
	}
	return sb.String()
}

// JSETBalloon reports the known memory/time balloon: a JSET whose JSON path has
// a numeric component >= 1000000 (the array is padded with nulls up to that
// index while the write lock is held).
func JSETBalloon(args []string) bool {
	if len(args) < 4 || !strings.EqualFold(args[0], "JSET") {
		return false
	}
	for _, comp := range strings.Split(args[3], ".") {
		if comp == "" {
			continue
		}
		digits := true
		for _, c := range comp {
			if c < '0' || c > '9' {
				digits = false
				break
			}
		}
		if !digits {
			continue
		}
		comp = strings.TrimLeft(comp, "0")
		if len(comp) > 7 || (len(comp) == 7 && comp >= "1000000") {
			return true
		}
	}
	return false
}

// SplitCommands is a best-effort decoder of a raw request stream into commands
// (RESP arrays, native "$n line", inline lines); used only to name the command
// behind a wedge found with byte-level inputs.
func SplitCommands(raw []byte) [][]string {
	var out [][]string
	b := raw
	for len(b) > 0 && len(out) < 64 {
		switch b[0] {
		case '*':
			e := crlf(b, 0)
			if e < 0 {
				return out
			}
			n, err := strconv.Atoi(string(b[1:e]))
			if err != nil || n < 0 || n > 1024 {
				b = b[e+2:]
				continue
			}
			b = b[e+2:]
			var args []string
			okc := true
			for i := 0; i < n; i++ {
				if len(b) == 0 || b[0] != '$' {
					okc = false
					break
				}
				e := crlf(b, 0)
				if e < 0 {
					okc = false
					break
				}
				l, err := strconv.Atoi(string(b[1:e]))
				if err != nil || l < 0 || l > len(b) || e+2+l+2 > len(b) {
					okc = false
					break
				}
				args = append(args, string(b[e+2:e+2+l]))
				b = b[e+2+l+2:]
			}
			if okc && len(args) > 0 {
				out = append(out, args)
			}
			if !okc {
				if e := crlf(b, 0); e >= 0 {
					b = b[e+2:]
				} else {
					return out
				}
			}
		default:
			e := crlf(b, 0)
			line := b
			if e >= 0 {
				line, b = b[:e], b[e+2:]
			} else {
				b = nil
			}
			s := string(line)
			if len(s) > 0 && s[0] == '$' {
				if sp := strings.IndexByte(s, ' '); sp > 0 {
					s = s[sp+1:]
				}
			}
			if f := strings.Fields(strings.NewReplacer(`"`, "", "+", " ").Replace(s)); len(f) > 0 {
				if (f[0] == "GET" || f[0] == "POST") && len(f) > 1 && strings.HasPrefix(f[1], "/") {
					f = f[1:]
					f[0] = strings.TrimPrefix(f[0], "/")
					if f[len(f)-1] == "HTTP/1.1" {
						f = f[:len(f)-1]
					}
				}
				out = append(out, f)
			}
		}
	}
	return out
}

// LineWithinLine reports the known geometry-library hang: a WITHIN-type test
// (TEST ... WITHIN ..., or a WITHIN search) in which the tested object and the
// area are LineString/MultiLineString geometries (for a search the stored
// objects are the tested side, so a line area literal is enough to match).
func LineWithinLine(args []string) bool {
	if len(args) > 2 && strings.EqualFold(args[0], "TIMEOUT") {
		args = args[2:]
	}
	if len(args) == 0 {
		return false
	}
	n := 0
	within := false
	for _, a := range args[1:] {
		if strings.Contains(a, "LineString") {
			n++
		}
		if strings.EqualFold(a, "WITHIN") {
			within = true
		}
	}
	switch strings.ToUpper(args[0]) {
	case "TEST":
		return within && n >= 2
	case "WITHIN":
		return n >= 1
	}
	return false
}
