package wire

import (
	"bufio"
	"bytes"
	"encoding/binary"
	"errors"
	"fmt"
	"io"
	"net"
	"strconv"
	"strings"
	"sync"
	"time"

	"verifharness/respc"
)

// ErrIncomplete: the buffer does not yet hold a whole reply.
var ErrIncomplete = errors.New("incomplete reply")

// ErrMalformed: the bytes cannot be the start of a well-formed reply.
var ErrMalformed = errors.New("malformed reply")

func malformed(format string, a ...any) error {
	return fmt.Errorf("%w: %s", ErrMalformed, fmt.Sprintf(format, a...))
}

func crlf(b []byte, from int) int {
	for i := from; i+1 < len(b); i++ {
		if b[i] == '\r' && b[i+1] == '\n' {
			return i
		}
	}
	return -1
}

// FrameRESP returns the length of the first complete RESP value in b.
func FrameRESP(b []byte) (int, error) {
	return frameRESP(b, 0, 0)
}

func frameRESP(b []byte, at, depth int) (int, error) {
	if depth > 64 {
		return 0, malformed("nesting too deep")
	}
	if at >= len(b) {
		return 0, ErrIncomplete
	}
	e := crlf(b, at)
	switch b[at] {
	case '+', '-', ':', '$', '*':
	default:
		return 0, malformed("bad type byte %q at offset %d", b[at], at)
	}
	if e < 0 {
		if len(b)-at > 1<<20 && (b[at] == ':' || b[at] == '$' || b[at] == '*') {
			return 0, malformed("unterminated header")
		}
		return 0, ErrIncomplete
	}
	line := b[at+1 : e]
	next := e + 2
	switch b[at] {
	case '+', '-':
		for _, c := range line {
			if c == '\r' || c == '\n' {
				return 0, malformed("CR or LF inside a simple line")
			}
		}
		return next, nil
	case ':':
		if _, err := strconv.ParseInt(string(line), 10, 64); err != nil {
			return 0, malformed("bad integer %q", trunc(line))
		}
		return next, nil
	case '$':
		n, err := strconv.ParseInt(string(line), 10, 64)
		if err != nil || n < -1 || n > 1<<31 {
			return 0, malformed("bad bulk length %q", trunc(line))
		}
		if n == -1 {
			return next, nil
		}
		end := next + int(n) + 2
		if end > len(b) {
			return 0, ErrIncomplete
		}
		if b[end-2] != '\r' || b[end-1] != '\n' {
			return 0, malformed("bulk of %d bytes not terminated by CRLF", n)
		}
		return end, nil
	case '*':
		n, err := strconv.ParseInt(string(line), 10, 64)
		if err != nil || n < -1 || n > 1<<26 {
			return 0, malformed("bad array length %q", trunc(line))
		}
		for i := int64(0); i < n; i++ {
			nn, err := frameRESP(b, next, depth+1)
			if err != nil {
				return 0, err
			}
			next = nn
		}
		return next, nil
	}
	return 0, malformed("unreachable")
}

func trunc(b []byte) string {
	if len(b) > 60 {
		return string(b[:60]) + "..."
	}
	return string(b)
}

// ParseRESP decodes one complete RESP value (as framed by FrameRESP).
func ParseRESP(b []byte) (respc.Reply, error) {
	br := bufio.NewReaderSize(bytes.NewReader(b), 4096)
	r, err := respc.ReadReply(br)
	if err != nil {
		return r, malformed("%v", err)
	}
	if br.Buffered() > 0 {
		return r, malformed("trailing bytes after RESP value")
	}
	return r, nil
}

// FrameNative returns the length of the first "$<n> <payload>\r\n" reply.
func FrameNative(b []byte) (int, error) {
	if len(b) == 0 {
		return 0, ErrIncomplete
	}
	if b[0] != '$' {
		return 0, malformed("native reply does not start with '$': %q", trunc(b))
	}
	sp := -1
	for i := 1; i < len(b) && i < 24; i++ {
		if b[i] == ' ' {
			sp = i
			break
		}
		if b[i] < '0' || b[i] > '9' {
			return 0, malformed("bad native length in %q", trunc(b))
		}
	}
	if sp < 0 {
		if len(b) >= 24 {
			return 0, malformed("native length too long")
		}
		return 0, ErrIncomplete
	}
	n, err := strconv.Atoi(string(b[1:sp]))
	if err != nil || sp == 1 || n < 0 || n > 1<<31 {
		return 0, malformed("bad native length in %q", trunc(b))
	}
	end := sp + 1 + n + 2
	if end > len(b) {
		return 0, ErrIncomplete
	}
	if b[end-2] != '\r' || b[end-1] != '\n' {
		return 0, malformed("native payload of %d bytes not terminated by CRLF", n)
	}
	return end, nil
}

// NativePayload extracts the payload of a framed native reply.
func NativePayload(frame []byte) []byte {
	sp := bytes.IndexByte(frame, ' ')
	return frame[sp+1 : len(frame)-2]
}

// HTTPResponse is a parsed HTTP response.
type HTTPResponse struct {
	Status  string
	Code    int
	Headers map[string]string
	Body    []byte
	HasLen  bool
}

// FrameHTTP returns the length of the first complete HTTP response: status line,
// headers, and Content-Length bytes of body (no Content-Length = no body, as in
// the 101/204/500 responses of the server).
func FrameHTTP(b []byte) (int, error) {
	if len(b) < 5 {
		if !bytes.HasPrefix([]byte("HTTP/"), b) {
			return 0, malformed("not an HTTP response: %q", trunc(b))
		}
		return 0, ErrIncomplete
	}
	if !bytes.HasPrefix(b, []byte("HTTP/")) {
		return 0, malformed("not an HTTP response: %q", trunc(b))
	}
	he := bytes.Index(b, []byte("\r\n\r\n"))
	if he < 0 {
		if len(b) > 1<<16 {
			return 0, malformed("HTTP header too long")
		}
		return 0, ErrIncomplete
	}
	cl := 0
	for _, l := range strings.Split(string(b[:he]), "\r\n")[1:] {
		i := strings.IndexByte(l, ':')
		if i < 0 {
			return 0, malformed("bad header line %q", l)
		}
		if strings.EqualFold(strings.TrimSpace(l[:i]), "Content-Length") {
			n, err := strconv.Atoi(strings.TrimSpace(l[i+1:]))
			if err != nil || n < 0 || n > 1<<31 {
				return 0, malformed("bad Content-Length %q", l)
			}
			cl = n
		}
	}
	end := he + 4 + cl
	if end > len(b) {
		return 0, ErrIncomplete
	}
	return end, nil
}

// ParseHTTP decodes a framed HTTP response.
func ParseHTTP(frame []byte) (HTTPResponse, error) {
	var r HTTPResponse
	he := bytes.Index(frame, []byte("\r\n\r\n"))
	if he < 0 {
		return r, malformed("no header end")
	}
	lines := strings.Split(string(frame[:he]), "\r\n")
	r.Status = lines[0]
	parts := strings.SplitN(lines[0], " ", 3)
	if len(parts) < 2 {
		return r, malformed("bad status line %q", lines[0])
	}
	code, err := strconv.Atoi(parts[1])
	if err != nil {
		return r, malformed("bad status code in %q", lines[0])
	}
	r.Code = code
	r.Headers = map[string]string{}
	for _, l := range lines[1:] {
		i := strings.IndexByte(l, ':')
		if i < 0 {
			return r, malformed("bad header line %q", l)
		}
		k := strings.ToLower(strings.TrimSpace(l[:i]))
		r.Headers[k] = strings.TrimSpace(l[i+1:])
		if k == "content-length" {
			r.HasLen = true
		}
	}
	r.Body = frame[he+4:]
	return r, nil
}

// FrameWS returns the length of the first complete server-to-client websocket
// frame (unmasked) and its payload bounds.
func FrameWS(b []byte) (int, error) {
	if len(b) < 2 {
		return 0, ErrIncomplete
	}
	if b[1]&0x80 != 0 {
		return 0, malformed("server frame is masked")
	}
	l := int(b[1] & 0x7f)
	hdr := 2
	switch l {
	case 126:
		if len(b) < 4 {
			return 0, ErrIncomplete
		}
		l = int(binary.BigEndian.Uint16(b[2:]))
		hdr = 4
	case 127:
		if len(b) < 10 {
			return 0, ErrIncomplete
		}
		v := binary.BigEndian.Uint64(b[2:])
		if v > 1<<31 {
			return 0, malformed("websocket frame too long")
		}
		l = int(v)
		hdr = 10
	}
	if hdr+l > len(b) {
		return 0, ErrIncomplete
	}
	return hdr + l, nil
}

// WSPayload extracts opcode and payload of a framed websocket frame.
func WSPayload(frame []byte) (opcode byte, payload []byte) {
	l := int(frame[1] & 0x7f)
	hdr := 2
	if l == 126 {
		hdr = 4
	} else if l == 127 {
		hdr = 10
	}
	return frame[0] & 0x0f, frame[hdr:]
}

// Frame dispatches on the reply framing of a transport.
func Frame(p Proto, b []byte) (int, error) {
	switch p.ReplyFraming() {
	case RESP:
		return FrameRESP(b)
	case Native:
		return FrameNative(b)
	case WS:
		return FrameWS(b)
	}
	return FrameHTTP(b)
}

// SplitAll cuts a complete reply byte stream into frames; rest holds the bytes
// after the last complete frame (err is ErrIncomplete when rest is a partial
// frame, ErrMalformed when it cannot be a frame).
func SplitAll(p Proto, b []byte) (frames [][]byte, rest []byte, err error) {
	for len(b) > 0 {
		n, e := Frame(p, b)
		if e != nil {
			return frames, b, e
		}
		frames = append(frames, b[:n])
		b = b[n:]
	}
	return frames, nil, nil
}

// Conn is a raw client connection with a receive buffer and framing.
type Conn struct {
	C       net.Conn
	Buf     []byte
	Timeout time.Duration
	EOF     bool
	tmp     []byte
}

// Dial opens a TCP connection with Nagle disabled (segments are sent as written).
func Dial(addr string, timeout time.Duration) (*Conn, error) {
	c, err := net.DialTimeout("tcp", addr, timeout)
	if err != nil {
		return nil, err
	}
	if tc, ok := c.(*net.TCPConn); ok {
		tc.SetNoDelay(true)
	}
	return &Conn{C: c, Timeout: timeout, tmp: tmpPool.Get().([]byte)}, nil
}

var tmpPool = sync.Pool{New: func() any { return make([]byte, 64*1024) }}

// Close closes the socket.
func (c *Conn) Close() error {
	if c.tmp != nil {
		tmpPool.Put(c.tmp)
		c.tmp = nil
	}
	return c.C.Close()
}

// Write sends one segment.
func (c *Conn) Write(b []byte) error {
	c.C.SetWriteDeadline(time.Now().Add(c.Timeout))
	_, err := c.C.Write(b)
	return err
}

// CloseWrite half-closes: the server sees EOF after the bytes sent so far.
func (c *Conn) CloseWrite() error {
	if tc, ok := c.C.(*net.TCPConn); ok {
		return tc.CloseWrite()
	}
	return nil
}

func (c *Conn) fill(deadline time.Time) error {
	if c.tmp == nil {
		return io.ErrClosedPipe
	}
	c.C.SetReadDeadline(deadline)
	n, err := c.C.Read(c.tmp)
	if n > 0 {
		c.Buf = append(c.Buf, c.tmp[:n]...)
	}
	if err != nil {
		if err == io.EOF {
			c.EOF = true
		}
		return err
	}
	return nil
}

// Next returns the next complete reply frame (removing it from the buffer),
// reading as needed until the timeout.
func (c *Conn) Next(p Proto, timeout time.Duration) ([]byte, error) {
	deadline := time.Now().Add(timeout)
	for {
		if len(c.Buf) > 0 {
			n, err := Frame(p, c.Buf)
			if err == nil {
				f := append([]byte(nil), c.Buf[:n]...)
				c.Buf = c.Buf[n:]
				return f, nil
			}
			if !errors.Is(err, ErrIncomplete) {
				return nil, err
			}
		}
		if err := c.fill(deadline); err != nil {
			return nil, err
		}
	}
}

// ReadToEOF reads until the peer closes (or the timeout); the whole received
// byte stream is in c.Buf afterwards. timedOut reports a deadline expiry.
func (c *Conn) ReadToEOF(timeout time.Duration) (timedOut bool, err error) {
	deadline := time.Now().Add(timeout)
	for {
		e := c.fill(deadline)
		if e == nil {
			continue
		}
		if e == io.EOF {
			return false, nil
		}
		var ne net.Error
		if errors.As(e, &ne) && ne.Timeout() {
			return true, nil
		}
		// connection reset etc.: what was received stays in Buf
		return false, e
	}
}

// IsTimeout reports a network timeout error.
func IsTimeout(err error) bool {
	var ne net.Error
	return errors.As(err, &ne) && ne.Timeout()
}
