package wire

import (
	"io"
	"net"
	"net/http"
	"sync/atomic"
)

// SinkHits counts webhook deliveries received by the sink.
var SinkHits atomic.Int64

// StartSink starts an HTTP endpoint on 127.0.0.1 that answers 200 to anything
// and points HookURL at it. stop closes it.
func StartSink() (url string, stop func(), err error) {
	ln, err := net.Listen("tcp", "127.0.0.1:0")
	if err != nil {
		return "", nil, err
	}
	srv := &http.Server{Handler: http.HandlerFunc(func(w http.ResponseWriter, r *http.Request) {
		io.Copy(io.Discard, r.Body)
		SinkHits.Add(1)
		w.WriteHeader(200)
	})}
	go srv.Serve(ln)
	url = "http://" + ln.Addr().String() + "/verif"
	HookURL = url
	return url, func() { srv.Close() }, nil
}
