// Package aoflog parses tile38's appendonly.aof (a stream of RESP arrays of bulk
// strings, possibly with NUL padding between commands) independently of redcon.
package aoflog

import (
	"os"
	"strconv"
)

// Entry is one logged command.
type Entry struct {
	Args  []string
	Start int // offset of '*'
	End   int // offset just past the final CRLF
}

// Parse returns the complete commands of data and the offset of the last
// command boundary (bytes after it are an incomplete command, padding or junk).
// ok=false when a malformed (not merely incomplete) command is met.
func Parse(data []byte) (entries []Entry, boundary int, ok bool) {
	i := 0
	ok = true
	for i < len(data) {
		if data[i] == 0 {
			i++
			continue
		}
		start := i
		if data[i] != '*' {
			return entries, boundary, false
		}
		n, j, st := readInt(data, i+1)
		if st == incomplete {
			return entries, boundary, true
		}
		if st == bad || n < 0 {
			return entries, boundary, false
		}
		i = j
		args := make([]string, 0, n)
		for k := 0; k < n; k++ {
			if i >= len(data) {
				return entries, boundary, true
			}
			if data[i] != '$' {
				return entries, boundary, false
			}
			l, j, st := readInt(data, i+1)
			if st == incomplete {
				return entries, boundary, true
			}
			if st == bad || l < 0 {
				return entries, boundary, false
			}
			i = j
			if i+l+2 > len(data) {
				return entries, boundary, true
			}
			if data[i+l] != '\r' || data[i+l+1] != '\n' {
				return entries, boundary, false
			}
			args = append(args, string(data[i:i+l]))
			i += l + 2
		}
		entries = append(entries, Entry{Args: args, Start: start, End: i})
		boundary = i
	}
	// trailing NULs after the last command are padding: boundary stays at the last command end
	return entries, boundary, true
}

const (
	good = iota
	incomplete
	bad
)

func readInt(data []byte, i int) (n, next, status int) {
	j := i
	for j < len(data) && data[j] != '\r' {
		if (data[j] < '0' || data[j] > '9') && !(j == i && data[j] == '-') {
			return 0, 0, bad
		}
		j++
	}
	if j+1 >= len(data) {
		return 0, 0, incomplete
	}
	if data[j+1] != '\n' || j == i {
		return 0, 0, bad
	}
	v, err := strconv.Atoi(string(data[i:j]))
	if err != nil {
		return 0, 0, bad
	}
	return v, j + 2, good
}

// ReadFile parses a log file.
func ReadFile(path string) ([]Entry, int, bool, error) {
	b, err := os.ReadFile(path)
	if err != nil {
		return nil, 0, false, err
	}
	e, bd, ok := Parse(b)
	return e, bd, ok, nil
}
