module verifharness

go 1.24.0
