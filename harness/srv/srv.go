// Package srv builds the tile38 server from /repo's working tree and runs it as
// a child process. Nothing here decides a property; it only produces executions.
package srv

import (
	"bufio"
	"bytes"
	"errors"
	"fmt"
	"net"
	"os"
	"os/exec"
	"os/signal"
	"path/filepath"
	"regexp"
	"strconv"
	"strings"
	"sync"
	"syscall"
	"time"

	"verifharness/respc"
)

// RepoDir is the tree under test.
var RepoDir = envOr("VERIF_REPO", "/repo")

func envOr(k, d string) string {
	if v := os.Getenv(k); v != "" {
		return v
	}
	return d
}

var (
	workOnce sync.Once
	workDir  string
	regMu    sync.Mutex
	children = map[*Server]struct{}{}
)

// WorkDir returns the per-process scratch root (outside /repo and /verif); it is
// removed by Cleanup.
func WorkDir() string {
	workOnce.Do(func() {
		base := envOr("VERIF_SCRATCH", os.TempDir())
		d, err := os.MkdirTemp(base, "t38v-")
		if err != nil {
			panic(err)
		}
		workDir = d
		// the owner holds an exclusive flock on owner.lock for its whole life
		if f, err := os.OpenFile(filepath.Join(d, "owner.lock"), os.O_CREATE|os.O_RDWR, 0o644); err == nil {
			syscall.Flock(int(f.Fd()), syscall.LOCK_EX|syscall.LOCK_NB)
			ownerLock = f
		}
		sweepStale(base)
		c := make(chan os.Signal, 2)
		// (not SIGPIPE: with a handler installed it is also delivered for writes to sockets the
		// server has closed; a root left behind by `| head` is swept by the next run)
		signal.Notify(c, syscall.SIGINT, syscall.SIGTERM, syscall.SIGHUP)
		go func() {
			<-c
			Cleanup()
			os.Exit(2)
		}()
	})
	return workDir
}

var ownerLock *os.File

// sweepStale removes scratch roots left behind by harness processes that were
// killed before they could clean up: the flock their owner held is free.
func sweepStale(base string) {
	ents, _ := filepath.Glob(filepath.Join(base, "t38v-*"))
	for _, d := range ents {
		if d == workDir {
			continue
		}
		f, err := os.OpenFile(filepath.Join(d, "owner.lock"), os.O_RDWR, 0)
		if err != nil {
			// roots of older harness versions carry no lock file: stale after a day
			if fi, e := os.Stat(d); e == nil && time.Since(fi.ModTime()) > 24*time.Hour {
				os.RemoveAll(d)
			}
			continue
		}
		if syscall.Flock(int(f.Fd()), syscall.LOCK_EX|syscall.LOCK_NB) == nil {
			os.RemoveAll(d)
		}
		f.Close()
	}
}

// Cleanup kills every child and removes the scratch root.
func Cleanup() {
	regMu.Lock()
	list := make([]*Server, 0, len(children))
	for s := range children {
		list = append(list, s)
	}
	regMu.Unlock()
	for _, s := range list {
		s.Kill9()
	}
	if workDir != "" && os.Getenv("VERIF_KEEP") == "" {
		os.RemoveAll(workDir)
	}
}

var buildMu sync.Mutex
var built = map[string]string{}

// Build compiles cmd/tile38-server from RepoDir with the verif tag.
// kind: "plain", "race", "asan", "notag" (no hooks).
func Build(kind string) (string, error) {
	buildMu.Lock()
	defer buildMu.Unlock()
	if p, ok := built[kind]; ok {
		return p, nil
	}
	out := filepath.Join(WorkDir(), "t38srv-"+kind)
	args := []string{"build"}
	switch kind {
	case "plain":
		args = append(args, "-tags", "verif")
	case "race":
		args = append(args, "-race", "-tags", "verif")
	case "asan":
		args = append(args, "-asan", "-tags", "verif")
	case "notag":
	default:
		return "", fmt.Errorf("unknown build kind %q", kind)
	}
	args = append(args, "-o", out, "./cmd/tile38-server")
	cmd := exec.Command("go", args...)
	cmd.Dir = RepoDir
	cmd.Env = append(os.Environ(), "GOFLAGS=-mod=mod", "GOPROXY=off")
	var buf bytes.Buffer
	cmd.Stdout = &buf
	cmd.Stderr = &buf
	if err := cmd.Run(); err != nil {
		return "", fmt.Errorf("build %s failed: %v\n%s", kind, err, tail(buf.String(), 4000))
	}
	built[kind] = out
	return out, nil
}

func tail(s string, n int) string {
	if len(s) > n {
		return s[len(s)-n:]
	}
	return s
}

// Opts configures a server process.
type Opts struct {
	Bin          string   // binary path from Build
	Dir          string   // data directory ("" = new dir)
	Args         []string // extra args
	Env          []string // extra env
	Host         string   // "" = 127.0.0.1
	NoWait       bool     // do not wait for readiness
	Password     string   // if set, readiness probe authenticates
	Wrapper      []string // e.g. strace ...
	ReadyTimeout time.Duration
	noCanary     bool // internal: this is the canary of another start
}

// Server is one child process.
type Server struct {
	Opts   Opts
	Dir    string
	Port   int
	Cmd    *exec.Cmd
	Stderr string // path of stderr file
	done   chan struct{}
	werr   error
	mu     sync.Mutex
	exited bool
}

var dirSeq int
var dirMu sync.Mutex

// NewDir returns a fresh data directory under the scratch root.
func NewDir() string {
	dirMu.Lock()
	dirSeq++
	n := dirSeq
	dirMu.Unlock()
	d := filepath.Join(WorkDir(), fmt.Sprintf("d%05d", n))
	os.MkdirAll(d, 0o755)
	return d
}

// freePort picks a port OUTSIDE the kernel's ephemeral range (so that other
// processes' `:0` listeners and outgoing connections never land on it) at a
// pseudo-random position, and never hands out the same port twice in one
// process: a stale client of some other check that reconnects to a port its dead
// server used to own must not reach a server of this check.
var (
	portMu   sync.Mutex
	portUsed = map[int]bool{}
	portNext = 20000 + int(time.Now().UnixNano()/1000+int64(os.Getpid())*7919)%11000
)

func freePort() (int, error) {
	portMu.Lock()
	defer portMu.Unlock()
	for i := 0; i < 4000; i++ {
		p := portNext
		portNext++
		if portNext >= 31000 {
			portNext = 20000
		}
		if portUsed[p] {
			continue
		}
		l, err := net.Listen("tcp", "127.0.0.1:"+strconv.Itoa(p))
		if err != nil {
			continue
		}
		l.Close()
		portUsed[p] = true
		return p, nil
	}
	l, err := net.Listen("tcp", "127.0.0.1:0")
	if err != nil {
		return 0, err
	}
	p := l.Addr().(*net.TCPAddr).Port
	l.Close()
	return p, nil
}

// FreePort exposes the port picker (for proxies / endpoints).
func FreePort() int {
	p, err := freePort()
	if err != nil {
		panic(err)
	}
	return p
}

// Start launches a server; retries on port clash.
func Start(o Opts) (*Server, error) {
	if o.Dir == "" {
		o.Dir = NewDir()
	}
	var lastErr error
	for attempt := 0; attempt < 5; attempt++ {
		s, err := start1(o)
		if err == nil {
			return s, nil
		}
		lastErr = err
		if !strings.Contains(err.Error(), "address already in use") {
			break
		}
	}
	return nil, lastErr
}

func start1(o Opts) (*Server, error) {
	port, err := freePort()
	if err != nil {
		return nil, err
	}
	host := o.Host
	if host == "" {
		host = "127.0.0.1"
	}
	args := []string{"-h", host, "-p", strconv.Itoa(port), "-d", o.Dir}
	args = append(args, o.Args...)
	var cmd *exec.Cmd
	if len(o.Wrapper) > 0 {
		all := append(append([]string{}, o.Wrapper[1:]...), o.Bin)
		all = append(all, args...)
		cmd = exec.Command(o.Wrapper[0], all...)
	} else {
		cmd = exec.Command(o.Bin, args...)
	}
	cmd.Env = append(os.Environ(), o.Env...)
	cmd.SysProcAttr = &syscall.SysProcAttr{Pdeathsig: syscall.SIGKILL}
	stderrPath := filepath.Join(o.Dir, fmt.Sprintf("stderr-%d.log", time.Now().UnixNano()))
	f, err := os.Create(stderrPath)
	if err != nil {
		return nil, err
	}
	cmd.Stdout = f
	cmd.Stderr = f
	if err := cmd.Start(); err != nil {
		f.Close()
		return nil, err
	}
	f.Close()
	s := &Server{Opts: o, Dir: o.Dir, Port: port, Cmd: cmd, Stderr: stderrPath, done: make(chan struct{})}
	regMu.Lock()
	children[s] = struct{}{}
	regMu.Unlock()
	go func() {
		s.werr = cmd.Wait()
		s.mu.Lock()
		s.exited = true
		s.mu.Unlock()
		close(s.done)
		regMu.Lock()
		delete(children, s)
		regMu.Unlock()
	}()
	if o.NoWait {
		return s, nil
	}
	to := o.ReadyTimeout
	if to == 0 {
		to = 60 * time.Second
	}
	if err := s.WaitReady(to); err != nil {
		st := s.StderrTail(3000)
		alive := s.Alive()
		s.Kill9()
		if alive && !o.noCanary {
			// the process was still there when the watchdog fired: a server that hangs while it
			// starts, or a machine that does not let anything start (memory pressure, an overloaded
			// host)? A canary on an empty directory decides; the second case is not a verdict
			// about the server.
			cdir := NewDir()
			t0 := time.Now()
			cs, cerr := start1(Opts{Bin: o.Bin, Dir: cdir, ReadyTimeout: to / 2, noCanary: true})
			if cs != nil {
				cs.Kill9()
			}
			os.RemoveAll(cdir)
			if cerr != nil {
				return nil, fmt.Errorf("server not ready: %s: %v (a canary server on an empty directory did not become ready either); stderr: %s", MachineStalled, err, st)
			}
			return nil, fmt.Errorf("server not ready: %v (a canary server on an empty directory was ready in %v); stderr: %s", err, time.Since(t0).Round(time.Millisecond), st)
		}
		return nil, fmt.Errorf("server not ready: %v; stderr: %s", err, st)
	}
	return s, nil
}

// MachineStalled marks start-up errors that say nothing about the server under test.
const MachineStalled = "machine stalled"

// Addr is host:port of the server.
func (s *Server) Addr() string {
	host := s.Opts.Host
	if host == "" {
		host = "127.0.0.1"
	}
	return net.JoinHostPort(host, strconv.Itoa(s.Port))
}

// Pid of the server process itself (not a wrapper) — with a wrapper the pid
// check in readiness is skipped.
func (s *Server) Pid() int { return s.Cmd.Process.Pid }

var pidRe = regexp.MustCompile(`"pid":(\d+)`)

// WaitReady: ready means SERVER answered with the child's pid (the listener
// answers PING before the log is loaded).
func (s *Server) WaitReady(timeout time.Duration) error {
	deadline := time.Now().Add(timeout)
	var last error
	for time.Now().Before(deadline) {
		if !s.Alive() {
			return fmt.Errorf("process exited: %v", s.werr)
		}
		c, err := respc.Dial(s.Addr(), 2*time.Second)
		if err != nil {
			last = err
			time.Sleep(3 * time.Millisecond)
			continue
		}
		c.Timeout = 5 * time.Second
		if s.Opts.Password != "" {
			c.Do("AUTH", s.Opts.Password)
		}
		r, err := c.Do("SERVER")
		c.Close()
		if err != nil {
			last = err
			time.Sleep(3 * time.Millisecond)
			continue
		}
		if r.Kind == '-' {
			last = errors.New(r.Str)
			if strings.Contains(r.Str, "LOADING") {
				time.Sleep(3 * time.Millisecond)
				continue
			}
			if strings.Contains(r.Str, "catching up") || strings.Contains(r.Str, "authentication") {
				// follower not caught up / password: process is up; check pid via STATS not possible; accept
				return nil
			}
			time.Sleep(3 * time.Millisecond)
			continue
		}
		// RESP: array of key,value
		pid := ""
		for i := 0; i+1 < len(r.Arr); i += 2 {
			if r.Arr[i].Str == "pid" {
				pid = r.Arr[i+1].Str
				if pid == "" {
					pid = strconv.FormatInt(r.Arr[i+1].Int, 10)
				}
			}
		}
		if pid == "" {
			if m := pidRe.FindStringSubmatch(r.Str); m != nil {
				pid = m[1]
			}
		}
		if len(s.Opts.Wrapper) > 0 || pid == strconv.Itoa(s.Pid()) {
			return nil
		}
		last = fmt.Errorf("pid mismatch: got %q want %d", pid, s.Pid())
		time.Sleep(5 * time.Millisecond)
	}
	return fmt.Errorf("timeout: %v", last)
}

// Alive reports whether the process has not exited.
func (s *Server) Alive() bool {
	s.mu.Lock()
	defer s.mu.Unlock()
	return !s.exited
}

// Done is closed when the process exits.
func (s *Server) Done() <-chan struct{} { return s.done }

// Signal sends sig to the child.
func (s *Server) Signal(sig syscall.Signal) {
	if s.Alive() {
		s.Cmd.Process.Signal(sig)
	}
}

// Kill9 kills and reaps.
func (s *Server) Kill9() {
	if s.Alive() {
		s.Cmd.Process.Signal(syscall.SIGKILL)
	}
	select {
	case <-s.done:
	case <-time.After(10 * time.Second):
	}
}

// Term stops gracefully (SIGTERM), escalating after the timeout.
func (s *Server) Term(timeout time.Duration) bool {
	if s.Alive() {
		s.Cmd.Process.Signal(syscall.SIGTERM)
	}
	select {
	case <-s.done:
		return true
	case <-time.After(timeout):
		s.Kill9()
		return false
	}
}

// Abort sends SIGABRT so that the goroutine dump lands in the stderr file.
func (s *Server) Abort() {
	if s.Alive() {
		s.Cmd.Process.Signal(syscall.SIGABRT)
	}
	select {
	case <-s.done:
	case <-time.After(10 * time.Second):
		s.Kill9()
	}
}

// WaitExit waits for the process to exit by itself.
func (s *Server) WaitExit(timeout time.Duration) bool {
	select {
	case <-s.done:
		return true
	case <-time.After(timeout):
		return false
	}
}

// Restart starts a new process on the same data directory with the same options.
func (s *Server) Restart() (*Server, error) {
	o := s.Opts
	o.Dir = s.Dir
	return Start(o)
}

// AOFPath is the append-only file.
func (s *Server) AOFPath() string { return filepath.Join(s.Dir, "appendonly.aof") }

// StderrTail returns the last n bytes of stderr.
func (s *Server) StderrTail(n int) string {
	b, _ := os.ReadFile(s.Stderr)
	return tail(string(b), n)
}

// AllStderr returns the concatenation of every stderr file in the data directory.
func (s *Server) AllStderr() string {
	m, _ := filepath.Glob(filepath.Join(s.Dir, "stderr-*.log"))
	var sb strings.Builder
	for _, p := range m {
		b, _ := os.ReadFile(p)
		sb.Write(b)
	}
	return sb.String()
}

// Crashed reports a panic / fatal error / sanitizer report in the server's stderr and returns
// the crash site (first tile38 frame) when it can.
func (s *Server) Crashed() (bool, string) {
	died, site := CrashIn(s.StderrTail(1 << 20))
	if died && s.Dir != "" {
		if _, err := os.Stat(s.Dir); os.IsNotExist(err) {
			// the harness' scratch directory was removed under a running server (seen once when
			// the sandbox was being snapshotted while two checks ran): the server then dies in its
			// next log flush. That is an accident of the machinery, not a statement about the server.
			return true, MachineStalled + ": the server's data directory " + s.Dir + " vanished under it (" + site + ")"
		}
	}
	return died, site
}

var frameRe = regexp.MustCompile(`(github\.com/tidwall/\S+?)\((?:0x[0-9a-f]+|\.\.\.|\)|\{)`)

// CrashIn scans a stderr text.
func CrashIn(text string) (bool, string) {
	idx := -1
	for _, pat := range []string{"panic: ", "fatal error: ", "ERROR: AddressSanitizer", "[signal SIG"} {
		if i := strings.Index(text, pat); i >= 0 && (idx < 0 || i < idx) {
			idx = i
		}
	}
	if idx < 0 {
		return false, ""
	}
	rest := text[idx:]
	line := rest
	if i := strings.IndexByte(line, '\n'); i >= 0 {
		line = line[:i]
	}
	site := ""
	sc := bufio.NewScanner(strings.NewReader(rest))
	sc.Buffer(make([]byte, 1<<20), 1<<20)
	for sc.Scan() {
		l := sc.Text()
		if m := frameRe.FindStringSubmatch(l); m != nil {
			if strings.Contains(m[1], "tile38") {
				site = m[1]
				break
			}
			if site == "" {
				site = m[1]
			}
		}
	}
	return true, strings.TrimSpace(line) + " @ " + site
}

// RaceReports counts "WARNING: DATA RACE" blocks in files with the given
// log_path prefix and returns the blocks.
func RaceReports(prefix string) []string {
	m, _ := filepath.Glob(prefix + "*")
	var out []string
	for _, p := range m {
		b, err := os.ReadFile(p)
		if err != nil {
			continue
		}
		parts := strings.Split(string(b), "==================")
		for _, part := range parts {
			if strings.Contains(part, "WARNING: DATA RACE") {
				out = append(out, part)
			}
		}
	}
	return out
}
