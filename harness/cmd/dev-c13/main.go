// dev-c13: throw-away driver for the C13 check.
package main

import (
	"os"

	"verifharness/checks/c13"
	"verifharness/core"
)

func main() {
	tier := "quick"
	if len(os.Args) > 1 {
		tier = os.Args[1]
	}
	ctx := core.New("C13", tier, "exploration")
	c13.Run(ctx)
	ctx.Finish()
}
