// dev-c13: throw-away driver for the C13 check.
//
//	dev-c13 quick|thorough         run the check
//	dev-c13 ddmin <replay.json>    shrink a replay's command list while NEARBY order stays broken
package main

import (
	"encoding/json"
	"fmt"
	"os"
	"strconv"
	"time"

	"verifharness/checks/c13"
	"verifharness/core"
	"verifharness/respc"
	"verifharness/srv"
)

func main() {
	tier := "quick"
	if len(os.Args) > 1 {
		tier = os.Args[1]
	}
	if tier == "ddmin" {
		ddmin(os.Args[2])
		return
	}
	ctx := core.New("C13", tier, "exploration")
	c13.Run(ctx)
	ctx.Finish()
}

func ddmin(path string) {
	defer srv.Cleanup()
	b, _ := os.ReadFile(path)
	var doc struct {
		Replay struct {
			Commands [][]string `json:"commands"`
			Query    []string   `json:"query"`
		} `json:"replay"`
	}
	if err := json.Unmarshal(b, &doc); err != nil {
		panic(err)
	}
	cmds := doc.Replay.Commands[:len(doc.Replay.Commands)-1]
	q := doc.Replay.Query
	bin, err := srv.Build("plain")
	if err != nil {
		panic(err)
	}
	s, err := srv.Start(srv.Opts{Bin: bin, Args: []string{"--appendonly", "no"}})
	if err != nil {
		panic(err)
	}
	c, _ := respc.Dial(s.Addr(), time.Second)
	c.Timeout = 20 * time.Second
	var last respc.Reply
	bad := func(cs [][]string) bool {
		c.Send("FLUSHDB")
		for _, x := range cs {
			c.Send(x...)
		}
		c.Send(q...)
		var r respc.Reply
		for i := 0; i < len(cs)+2; i++ {
			r, err = c.Recv()
			if err != nil {
				panic(err)
			}
		}
		last = r
		if len(r.Arr) != 2 {
			return false
		}
		prev := -1.0
		for _, e := range r.Arr[1].Arr {
			if len(e.Arr) != 2 {
				return false
			}
			v, _ := strconv.ParseFloat(e.Arr[1].Str, 64)
			if prev > v*(1+1e-6)+1e-3 {
				return true
			}
			prev = v
		}
		return false
	}
	fmt.Println("initially bad:", bad(cmds), len(cmds))
	if !bad(cmds) {
		return
	}
	n := 2
	for len(cmds) >= 2 {
		chunk := len(cmds) / n
		if chunk < 1 {
			chunk = 1
		}
		reduced := false
		for i := 0; i < len(cmds); i += chunk {
			end := i + chunk
			if end > len(cmds) {
				end = len(cmds)
			}
			cand := append(append([][]string{}, cmds[:i]...), cmds[end:]...)
			if len(cand) > 0 && bad(cand) {
				cmds = cand
				if n > 2 {
					n--
				}
				reduced = true
				break
			}
		}
		if !reduced {
			if chunk == 1 {
				break
			}
			n *= 2
			if n > len(cmds) {
				n = len(cmds)
			}
		}
	}
	bad(cmds)
	fmt.Println("minimal:", len(cmds))
	for _, x := range cmds {
		fmt.Println(x)
	}
	fmt.Println(q)
	fmt.Println(last.String())
}
