// dev-c12: throw-away driver for the C12 check (the real wiring is in cmd/verifcheck).
package main

import (
	"os"

	"verifharness/checks/c12"
	"verifharness/core"
)

func main() {
	tier := "quick"
	if len(os.Args) > 1 {
		tier = os.Args[1]
	}
	ctx := core.New("C12", tier, "exploration")
	c12.Run(ctx)
	ctx.Finish()
}
