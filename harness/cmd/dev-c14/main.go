// dev-c14: throw-away driver for the C14 check while it is not wired into verifcheck.
//
//	dev-c14 quick|thorough      run the check
//	dev-c14 probe-rearm         side probe: does a restart re-arm a TTL from load time?
package main

import (
	"fmt"
	"os"
	"time"

	"verifharness/checks/c14"
	"verifharness/core"
	"verifharness/respc"
	"verifharness/srv"
)

func probeRearm() {
	defer srv.Cleanup()
	bin, err := srv.Build("plain")
	if err != nil {
		fmt.Println(err)
		return
	}
	s, err := srv.Start(srv.Opts{Bin: bin})
	if err != nil {
		fmt.Println(err)
		return
	}
	c, _ := respc.Dial(s.Addr(), 5*time.Second)
	c.Timeout = 10 * time.Second
	t0 := time.Now()
	r, _ := c.Do("SET", "k", "a", "EX", "8", "POINT", "1", "1")
	fmt.Println("t=0 SET k a EX 8 POINT 1 1 =>", r.String())
	time.Sleep(7500 * time.Millisecond)
	r, _ = c.Do("TTL", "k", "a")
	fmt.Printf("t=%.1f TTL => %s\n", time.Since(t0).Seconds(), r.String())
	c.Close()
	s.Term(10 * time.Second)
	s2, err := s.Restart()
	if err != nil {
		fmt.Println(err)
		return
	}
	c, _ = respc.Dial(s2.Addr(), 5*time.Second)
	c.Timeout = 10 * time.Second
	for i := 0; i < 10; i++ {
		r, _ = c.Do("TTL", "k", "a")
		g, _ := c.Do("GET", "k", "a")
		fmt.Printf("t=%.1f (after restart) TTL => %s GET => %s\n", time.Since(t0).Seconds(), r.String(), g.String())
		if r.Int == -2 {
			break
		}
		time.Sleep(1 * time.Second)
	}
	s2.Kill9()
}

func main() {
	tier := "quick"
	if len(os.Args) > 1 {
		tier = os.Args[1]
	}
	if tier == "probe-rearm" {
		probeRearm()
		return
	}
	ctx := core.New("C14", tier, "exploration")
	c14.Run(ctx)
	ctx.Finish()
}
