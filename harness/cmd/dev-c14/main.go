// dev-c14: throw-away driver for the C14 check while it is not wired into verifcheck.
package main

import (
	"os"

	"verifharness/checks/c14"
	"verifharness/core"
)

func main() {
	tier := "quick"
	if len(os.Args) > 1 {
		tier = os.Args[1]
	}
	ctx := core.New("C14", tier, "exploration")
	c14.Run(ctx)
	ctx.Finish()
}
