// dev-c17: throw-away driver for the C17 check.
package main

import (
	"os"

	"verifharness/checks/c17"
	"verifharness/core"
)

func main() {
	tier := "quick"
	if len(os.Args) > 1 {
		tier = os.Args[1]
	}
	ctx := core.New("C17", tier, "exploration")
	c17.Run(ctx)
	ctx.Finish()
}
