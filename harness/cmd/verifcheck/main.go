// verifcheck: one binary, one sub-command per property.
//   verifcheck <Cxx> quick|thorough
package main

import (
	"fmt"
	"os"
	"strings"

	"verifharness/checks/c01"
	"verifharness/checks/c02"
	"verifharness/checks/c03"
	"verifharness/checks/c04"
	"verifharness/checks/c05"
	"verifharness/checks/c06"
	"verifharness/checks/c07"
	"verifharness/checks/c08"
	"verifharness/checks/c09"
	"verifharness/checks/c10"
	"verifharness/checks/c11"
	"verifharness/checks/c12"
	"verifharness/checks/c13"
	"verifharness/checks/c14"
	"verifharness/checks/c15"
	"verifharness/checks/c16"
	"verifharness/checks/c17"
	"verifharness/checks/c18"
	"verifharness/checks/c19"
	"verifharness/checks/c20"
	"verifharness/core"
)

type entry struct {
	level string
	run   func(*core.Ctx)
}

var table = map[string]entry{
	"C01": {"exploration", c01.Run},
	"C02": {"exploration", c02.Run},
	"C03": {"fault_enumeration", c03.Run},
	"C04": {"fault_enumeration", c04.Run},
	"C05": {"exploration", c05.Run},
	"C06": {"fault_enumeration", c06.Run},
	"C07": {"exploration", c07.Run},
	"C08": {"exploration", c08.Run},
	"C09": {"fault_enumeration", c09.Run},
	"C10": {"exploration", c10.Run},
	"C11": {"exploration", c11.Run},
	"C12": {"exploration", c12.Run},
	"C13": {"exploration", c13.Run},
	"C14": {"exploration", c14.Run},
	"C15": {"exploration", c15.Run},
	"C16": {"exploration", c16.Run},
	"C17": {"exploration", c17.Run},
	"C18": {"exploration", c18.Run},
	"C19": {"exploration", c19.Run},
	"C20": {"exploration", c20.Run},
}

func main() {
	if len(os.Args) < 2 {
		fmt.Fprintln(os.Stderr, "usage: verifcheck <property> [quick|thorough]")
		os.Exit(2)
	}
	id := strings.ToUpper(os.Args[1])
	tier := os.Getenv("VERIF_TIER")
	if len(os.Args) > 2 {
		tier = os.Args[2]
	}
	e, ok := table[id]
	if !ok {
		fmt.Fprintf(os.Stderr, "unknown property %s\n", id)
		os.Exit(2)
	}
	ctx := core.New(id, tier, e.level)
	defer func() {
		if r := recover(); r != nil {
			ctx.Inconclusive(fmt.Sprintf("harness panic: %v", r))
			ctx.Finish()
		}
	}()
	e.run(ctx)
	ctx.Finish()
}
