// t38do: debugging aid — start a server built from /repo (verif tag) and run
// commands given one per line on stdin (shell-like quoting not supported: args
// are separated by TAB if a TAB is present, else by spaces).
package main

import (
	"bufio"
	"fmt"
	"os"
	"strings"
	"time"

	"verifharness/respc"
	"verifharness/srv"
)

func main() {
	kind := "plain"
	if len(os.Args) > 1 {
		kind = os.Args[1]
	}
	bin, err := srv.Build(kind)
	if err != nil {
		fmt.Println(err)
		os.Exit(1)
	}
	s, err := srv.Start(srv.Opts{Bin: bin, Args: os.Args[min(2, len(os.Args)):]})
	if err != nil {
		fmt.Println(err)
		os.Exit(1)
	}
	defer srv.Cleanup()
	c, _ := respc.Dial(s.Addr(), time.Second)
	c.Timeout = 10 * time.Second
	sc := bufio.NewScanner(os.Stdin)
	sc.Buffer(make([]byte, 1<<20), 1<<20)
	for sc.Scan() {
		l := sc.Text()
		if strings.TrimSpace(l) == "" {
			continue
		}
		var args []string
		if strings.Contains(l, "\t") {
			args = strings.Split(l, "\t")
		} else {
			args = strings.Fields(l)
		}
		if args[0] == "!restart" {
			c.Close()
			s.Term(5 * time.Second)
			s, err = s.Restart()
			if err != nil {
				fmt.Println(err)
				return
			}
			c, _ = respc.Dial(s.Addr(), time.Second)
			fmt.Println("restarted")
			continue
		}
		r, err := c.Do(args...)
		if err != nil {
			fmt.Println("ERR", err, s.StderrTail(2000))
			return
		}
		out := r.String()
		if r.Kind == '$' {
			out = r.Str
		}
		fmt.Printf("%s => %s\n", l, out)
	}
}
