// dev-c02: throw-away driver for the C02 check.
package main

import (
	"os"

	"verifharness/checks/c02"
	"verifharness/core"
)

func main() {
	tier := "quick"
	if len(os.Args) > 1 {
		tier = os.Args[1]
	}
	ctx := core.New("C02", tier, "exploration")
	c02.Run(ctx)
	ctx.Finish()
}
