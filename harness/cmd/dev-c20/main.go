package main

import (
	"os"

	"verifharness/checks/c20"
	"verifharness/core"
)

func main() {
	tier := "quick"
	if len(os.Args) > 1 {
		tier = os.Args[1]
	}
	ctx := core.New("C20", tier, "exploration")
	c20.Run(ctx)
	ctx.Finish()
}
