// dev-c15: throw-away driver for the C15 check.
package main

import (
	"os"

	"verifharness/checks/c15"
	"verifharness/core"
)

func main() {
	tier := "quick"
	if len(os.Args) > 1 {
		tier = os.Args[1]
	}
	ctx := core.New("C15", tier, "exploration")
	c15.Run(ctx)
	ctx.Finish()
}
