package main

import (
	"os"

	"verifharness/checks/c05"
	"verifharness/core"
)

func main() {
	tier := "quick"
	if len(os.Args) > 1 {
		tier = os.Args[1]
	}
	ctx := core.New("C05", tier, "exploration")
	c05.Run(ctx)
	ctx.Finish()
}
