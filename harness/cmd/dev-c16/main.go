// throw-away probe
package main

import (
	"fmt"
	"os"
	"time"

	"verifharness/respc"
	"verifharness/srv"
	"verifharness/wire"
)

func main() {
	bin, err := srv.Build("plain")
	if err != nil {
		panic(err)
	}
	defer srv.Cleanup()
	s, err := srv.Start(srv.Opts{Bin: bin})
	if err != nil {
		panic(err)
	}
	ctl, _ := respc.Dial(s.Addr(), 5*time.Second)
	ctl.Timeout = 5 * time.Second
	reset := func() {
		if !s.Alive() {
			_, site := s.Crashed()
			fmt.Println("   !!! CRASHED", site)
			s, _ = srv.Start(srv.Opts{Bin: bin})
			ctl, _ = respc.Dial(s.Addr(), 5*time.Second)
			ctl.Timeout = 5 * time.Second
		}
		ctl.Do("FLUSHDB")
		ctl.Do("SCRIPT", "FLUSH")
		for _, c := range wire.StateCommands(os.Args[1]) {
			r, err := ctl.Do(c...)
			if err != nil || r.IsErr() {
				fmt.Println("STATE ERR", c, r, err)
			}
		}
		ctl.Do("SCRIPT", "LOAD", wire.ScriptBody)
	}
	for _, tm := range wire.Templates() {
		if tm.Flags&wire.FDev != 0 {
			continue
		}
		for _, mode := range []string{"resp", "json"} {
			reset()
			c, err := respc.Dial(s.Addr(), 3*time.Second)
			if err != nil {
				panic(err)
			}
			c.Timeout = 3 * time.Second
			if mode == "json" {
				c.Do("OUTPUT", "json")
			}
			r, err := c.Do(tm.Args()...)
			out := r.String()
			if len(out) > 300 {
				out = out[:300] + "..."
			}
			fmt.Printf("%-22s %s  %v  %s\n", tm.ID, mode, err, out)
			c.Close()
		}
	}
}
