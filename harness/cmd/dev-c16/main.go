// throw-away probe
package main

import (
	"fmt"
	"strconv"
	"time"

	"verifharness/srv"
	"verifharness/wire"
)

func show(addr string, p wire.Proto, raw []byte) {
	c, err := wire.Dial(addr, 3*time.Second)
	if err != nil {
		panic(err)
	}
	defer c.Close()
	c.Write(raw)
	c.CloseWrite()
	to, err := c.ReadToEOF(2 * time.Second)
	fmt.Printf("--- %s send %s\n    timedout=%v err=%v recv %s\n", p, strconv.Quote(string(raw)), to, err, strconv.Quote(string(c.Buf)))
	fr, rest, e := wire.SplitAll(p, c.Buf)
	for _, f := range fr {
		fmt.Printf("    frame: %s\n", wire.Canon(p, f))
	}
	if e != nil {
		fmt.Printf("    rest=%q err=%v\n", rest, e)
	}
}

func main() {
	bin, err := srv.Build("plain")
	if err != nil {
		panic(err)
	}
	defer srv.Cleanup()
	s, err := srv.Start(srv.Opts{Bin: bin})
	if err != nil {
		panic(err)
	}
	a := s.Addr()
	cat := func(bs ...[]byte) []byte {
		var o []byte
		for _, b := range bs {
			o = append(o, b...)
		}
		return o
	}
	enc := func(p wire.Proto, args ...string) []byte {
		b, ok := wire.Encode(p, args...)
		if !ok {
			panic(fmt.Sprint("unrepresentable ", p, args))
		}
		return b
	}
	show(a, wire.RESP, cat(enc(wire.RESP, "SET", "k", "a b", "STRING", "x\r\ny\"z"), enc(wire.RESP, "GET", "k", "a b"), enc(wire.RESP, "OUTPUT", "json"), enc(wire.RESP, "GET", "k", "a b"), enc(wire.RESP, "NOPE")))
	show(a, wire.Telnet, cat(enc(wire.Telnet, "SET", "k", "a b", "STRING", "x\r\ny\"z\\w'q"), enc(wire.Telnet, "GET", "k", "a b"), enc(wire.Telnet, "SET", "k", "e", "STRING", ""), enc(wire.Telnet, "GET", "k", "e"), enc(wire.Telnet, "OUTPUT", "json"), enc(wire.Telnet, "GET", "k", "a b")))
	show(a, wire.Native, cat(enc(wire.Native, "SET", "k", "n1", "POINT", "1", "2"), enc(wire.Native, "GET", "k", "n1"), enc(wire.Native, "SET", "k", "o", "OBJECT", `{"type":"Point","coordinates":[1, 2]}`), enc(wire.Native, "OUTPUT", "resp"), enc(wire.Native, "GET", "k", "n1"), enc(wire.Native, "GET", "k", "zz"), enc(wire.Native, "NOPE")))
	show(a, wire.HTTPGet, enc(wire.HTTPGet, "GET", "k", "n1", "WITHFIELDS"))
	show(a, wire.HTTPGet, enc(wire.HTTPGet, "SET", "k", "h\"1é", "OBJECT", `{"type":"Point","coordinates":[1, 2]}`))
	show(a, wire.HTTPPost, enc(wire.HTTPPost, "SCAN", "k", "IDS"))
	show(a, wire.HTTPGet, cat(enc(wire.HTTPGet, "PING"), enc(wire.HTTPGet, "PING")))
	show(a, wire.HTTPGet, enc(wire.HTTPGet, "NEARBY", "k", "FENCE", "POINT", "1", "2", "1000"))
	show(a, wire.Native, enc(wire.Native, "NEARBY", "k", "FENCE", "POINT", "1", "2", "1000"))
	show(a, wire.Native, enc(wire.Native, "SUBSCRIBE", "c1"))
	show(a, wire.HTTPGet, enc(wire.HTTPGet, "SUBSCRIBE", "c1"))
	show(a, wire.WS, enc(wire.WS, "GET", "k", "n1"))
	show(a, wire.WS, enc(wire.WS, "NEARBY", "k", "FENCE", "POINT", "1", "2", "1000"))
	show(a, wire.RESP, []byte("*1\r\n$4\r\nPING\r\n*2\r\n$abc\r\n"))
	show(a, wire.RESP, []byte("\x00\x01garbage\r\n"))
	show(a, wire.RESP, []byte("PING\r\n\"unbalanced\r\nPING\r\n"))
	show(a, wire.HTTPGet, []byte("GET / HTTP/1.1\r\n\r\n"))
	show(a, wire.HTTPGet, []byte("PUT /x HTTP/1.1\r\n\r\n"))
	show(a, wire.HTTPGet, []byte("OPTIONS /x HTTP/1.1\r\n\r\n"))
	show(a, wire.RESP, cat(enc(wire.RESP, "QUIT"), enc(wire.RESP, "PING")))
	show(a, wire.RESP, cat(enc(wire.RESP, "AOF", "0")))
	show(a, wire.RESP, cat(enc(wire.RESP, "OUTPUT", "json"), enc(wire.RESP, "EVAL", "return 0/0", "0"), enc(wire.RESP, "EVAL", "return {[2]='a'}", "0"), enc(wire.RESP, "EVAL", "return print", "0"),enc(wire.RESP, "EVAL", "return 1.5", "0")))
	fmt.Println(s.Alive())
}
