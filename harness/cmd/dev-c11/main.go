// dev-c11: throw-away driver for the C11 check (the real wiring is in cmd/verifcheck).
package main

import (
	"os"

	"verifharness/checks/c11"
	"verifharness/core"
)

func main() {
	tier := "quick"
	if len(os.Args) > 1 {
		tier = os.Args[1]
	}
	ctx := core.New("C11", tier, "exploration")
	c11.Run(ctx)
	ctx.Finish()
}
