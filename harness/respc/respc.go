// Package respc is a small, independent RESP client and codec (it does not use
// redcon/resp, so that the reply parser is not the code under test).
package respc

import (
	"bufio"
	"bytes"
	"errors"
	"fmt"
	"io"
	"net"
	"strconv"
	"strings"
	"time"
)

// Reply is one RESP value. Kind: '+', '-', ':', '$', '*'. Nil for null bulk/array.
type Reply struct {
	Kind byte
	Str  string
	Int  int64
	Arr  []Reply
	Nil  bool
}

// String renders a canonical, unambiguous text form (used for comparisons).
func (r Reply) String() string {
	var sb strings.Builder
	r.write(&sb)
	return sb.String()
}

func (r Reply) write(sb *strings.Builder) {
	switch r.Kind {
	case '+':
		sb.WriteString("+" + r.Str)
	case '-':
		sb.WriteString("-" + r.Str)
	case ':':
		sb.WriteString(":" + strconv.FormatInt(r.Int, 10))
	case '$':
		if r.Nil {
			sb.WriteString("nil")
		} else {
			sb.WriteString(strconv.Quote(r.Str))
		}
	case '*':
		if r.Nil {
			sb.WriteString("nilarr")
			return
		}
		sb.WriteByte('[')
		for i, e := range r.Arr {
			if i > 0 {
				sb.WriteByte(' ')
			}
			e.write(sb)
		}
		sb.WriteByte(']')
	default:
		sb.WriteString("?")
	}
}

// IsErr reports an error reply.
func (r Reply) IsErr() bool { return r.Kind == '-' }

// Text returns the string payload for simple/bulk strings, the decimal for ints.
func (r Reply) Text() string {
	if r.Kind == ':' {
		return strconv.FormatInt(r.Int, 10)
	}
	return r.Str
}

// Constructors used by models.
func Simple(s string) Reply { return Reply{Kind: '+', Str: s} }
func Err(s string) Reply    { return Reply{Kind: '-', Str: s} }
func Int(n int64) Reply     { return Reply{Kind: ':', Int: n} }
func Bulk(s string) Reply   { return Reply{Kind: '$', Str: s} }
func Null() Reply           { return Reply{Kind: '$', Nil: true} }
func Array(a ...Reply) Reply {
	if a == nil {
		a = []Reply{}
	}
	return Reply{Kind: '*', Arr: a}
}

// ErrProtocol is returned for malformed RESP.
var ErrProtocol = errors.New("malformed RESP")

// ReadReply parses one value.
func ReadReply(br *bufio.Reader) (Reply, error) {
	line, err := readLine(br)
	if err != nil {
		return Reply{}, err
	}
	if len(line) == 0 {
		return Reply{}, fmt.Errorf("%w: empty line", ErrProtocol)
	}
	switch line[0] {
	case '+':
		return Reply{Kind: '+', Str: string(line[1:])}, nil
	case '-':
		return Reply{Kind: '-', Str: string(line[1:])}, nil
	case ':':
		n, err := strconv.ParseInt(string(line[1:]), 10, 64)
		if err != nil {
			return Reply{}, fmt.Errorf("%w: bad int %q", ErrProtocol, line)
		}
		return Reply{Kind: ':', Int: n}, nil
	case '$':
		n, err := strconv.ParseInt(string(line[1:]), 10, 64)
		if err != nil || n < -1 || n > 1<<30 {
			return Reply{}, fmt.Errorf("%w: bad bulk len %q", ErrProtocol, line)
		}
		if n == -1 {
			return Reply{Kind: '$', Nil: true}, nil
		}
		buf := make([]byte, n+2)
		if _, err := io.ReadFull(br, buf); err != nil {
			return Reply{}, err
		}
		if buf[n] != '\r' || buf[n+1] != '\n' {
			return Reply{}, fmt.Errorf("%w: bulk not terminated", ErrProtocol)
		}
		return Reply{Kind: '$', Str: string(buf[:n])}, nil
	case '*':
		n, err := strconv.ParseInt(string(line[1:]), 10, 64)
		if err != nil || n < -1 || n > 1<<26 {
			return Reply{}, fmt.Errorf("%w: bad array len %q", ErrProtocol, line)
		}
		if n == -1 {
			return Reply{Kind: '*', Nil: true}, nil
		}
		arr := make([]Reply, 0, n)
		for i := int64(0); i < n; i++ {
			e, err := ReadReply(br)
			if err != nil {
				return Reply{}, err
			}
			arr = append(arr, e)
		}
		return Reply{Kind: '*', Arr: arr}, nil
	}
	return Reply{}, fmt.Errorf("%w: bad type byte %q in %q", ErrProtocol, line[0], trunc(line))
}

func trunc(b []byte) string {
	if len(b) > 80 {
		return string(b[:80]) + "..."
	}
	return string(b)
}

func readLine(br *bufio.Reader) ([]byte, error) {
	var line []byte
	for {
		part, err := br.ReadSlice('\n')
		line = append(line, part...)
		if err == bufio.ErrBufferFull {
			continue
		}
		if err != nil {
			return nil, err
		}
		break
	}
	if len(line) < 2 || line[len(line)-2] != '\r' {
		return nil, fmt.Errorf("%w: line without CRLF %q", ErrProtocol, trunc(line))
	}
	return line[:len(line)-2], nil
}

// Encode builds the RESP array-of-bulk form of a command.
func Encode(args ...string) []byte {
	var b bytes.Buffer
	b.WriteByte('*')
	b.WriteString(strconv.Itoa(len(args)))
	b.WriteString("\r\n")
	for _, a := range args {
		b.WriteByte('$')
		b.WriteString(strconv.Itoa(len(a)))
		b.WriteString("\r\n")
		b.WriteString(a)
		b.WriteString("\r\n")
	}
	return b.Bytes()
}

// Conn is one client connection.
type Conn struct {
	C       net.Conn
	R       *bufio.Reader
	Timeout time.Duration
}

// Dial connects.
func Dial(addr string, timeout time.Duration) (*Conn, error) {
	c, err := net.DialTimeout("tcp", addr, timeout)
	if err != nil {
		return nil, err
	}
	return &Conn{C: c, R: bufio.NewReaderSize(c, 64*1024), Timeout: 30 * time.Second}, nil
}

// DialFrom connects from a specific local address.
func DialFrom(local, addr string, timeout time.Duration) (*Conn, error) {
	la, err := net.ResolveTCPAddr("tcp", local)
	if err != nil {
		return nil, err
	}
	d := net.Dialer{Timeout: timeout, LocalAddr: la}
	c, err := d.Dial("tcp", addr)
	if err != nil {
		return nil, err
	}
	return &Conn{C: c, R: bufio.NewReaderSize(c, 64*1024), Timeout: 30 * time.Second}, nil
}

// Close closes the socket.
func (c *Conn) Close() error { return c.C.Close() }

// Send writes a command without reading the reply.
func (c *Conn) Send(args ...string) error {
	return c.WriteRaw(Encode(args...))
}

// WriteRaw writes bytes as is.
func (c *Conn) WriteRaw(b []byte) error {
	if c.Timeout > 0 {
		c.C.SetWriteDeadline(time.Now().Add(c.Timeout))
	}
	_, err := c.C.Write(b)
	return err
}

// Recv reads one reply.
func (c *Conn) Recv() (Reply, error) {
	if c.Timeout > 0 {
		c.C.SetReadDeadline(time.Now().Add(c.Timeout))
	}
	return ReadReply(c.R)
}

// RecvTimeout reads one reply with a specific timeout.
func (c *Conn) RecvTimeout(d time.Duration) (Reply, error) {
	c.C.SetReadDeadline(time.Now().Add(d))
	return ReadReply(c.R)
}

// Do sends a command and reads its reply.
func (c *Conn) Do(args ...string) (Reply, error) {
	if err := c.Send(args...); err != nil {
		return Reply{}, err
	}
	return c.Recv()
}

// DoJSON sends a command on a connection in JSON output mode and returns the
// JSON document (the server wraps it in a bulk string on RESP connections).
func (c *Conn) DoJSON(args ...string) (string, error) {
	r, err := c.Do(args...)
	if err != nil {
		return "", err
	}
	if r.Kind != '$' && r.Kind != '+' {
		return "", fmt.Errorf("unexpected reply kind %q in JSON mode: %s", r.Kind, r.String())
	}
	return r.Str, nil
}

// IsTimeout reports a network timeout error.
func IsTimeout(err error) bool {
	var ne net.Error
	return errors.As(err, &ne) && ne.Timeout()
}
