package geo

import (
	"math"
	"math/rand"
	"strconv"
	"strings"
)

// F formats a float64 so that it parses back to the identical value.
func F(v float64) string { return strconv.FormatFloat(v, 'g', -1, 64) }

// Ulps moves v by k float64 ulps (k may be negative).
func Ulps(v float64, k int) float64 {
	for ; k > 0; k-- {
		v = math.Nextafter(v, math.Inf(1))
	}
	for ; k < 0; k++ {
		v = math.Nextafter(v, math.Inf(-1))
	}
	return v
}

// Obj is one generated object: the SET arguments (after the id) and, for the
// independent oracles, its bounding rectangle computed from the generated
// coordinates (never from a server reply).
type Obj struct {
	Kind    string   // point pointz bounds hash line polygon concave holed multipoint multiline multipolygon collection feature fcollection string empty
	Args    []string // e.g. ["POINT","33","-112"] or ["OBJECT", "{...}"]
	Rect    Rect     // valid when HasRect
	HasRect bool     // false for string/empty/hash
	Spatial bool     // false for strings
	Empty   bool     // empty geometry (stored, never indexed)
	JSON    string   // GeoJSON text for OBJECT kinds ("" otherwise)
}

// Region describes where coordinates are drawn from.
type Region struct {
	Name   string
	Lat    float64
	Lon    float64
	Spread float64 // degrees (half width); <0 = whole world
}

// Gen draws float32-hostile geographic coordinates and objects built from them.
// It remembers the coordinates it emitted (pools) so that queries can be aligned
// with object coordinates to the ulp.
type Gen struct {
	Rng    *rand.Rand
	Reg    Region
	Lats   []float64
	Lons   []float64
	NoPool bool
	// PoolBias (percent): LatLon and polygon vertices reuse remembered object
	// coordinates with this probability (used for query areas).
	PoolBias int
}

// RandomRegion picks a region class.
func RandomRegion(rng *rand.Rand) Region {
	spreads := []float64{1e-7, 1e-5, 1e-3, 0.05, 1, 10, 40}
	sp := spreads[rng.Intn(len(spreads))]
	switch rng.Intn(10) {
	case 0, 1:
		return Region{"world", 0, 0, -1}
	case 2:
		return Region{"npole", 90, rng.Float64()*360 - 180, math.Min(sp, 5)}
	case 3:
		return Region{"spole", -90, rng.Float64()*360 - 180, math.Min(sp, 5)}
	case 4:
		lon := 180.0
		if rng.Intn(2) == 0 {
			lon = -180
		}
		return Region{"antimeridian", rng.Float64()*160 - 80, lon, math.Min(sp, 10)}
	case 5:
		return Region{"zero", 0, 0, sp}
	default:
		return Region{"local", rng.Float64()*170 - 85, rng.Float64()*350 - 175, sp}
	}
}

func clamp(v, lo, hi float64) float64 {
	if v < lo {
		return lo
	}
	if v > hi {
		return hi
	}
	return v
}

// hostile makes v awkward for a float64 -> float32 index: exactly representable,
// one or two float64 ulps off a float32 value, halfway between two float32
// values, or left alone.
func (g *Gen) hostile(v float64) float64 {
	switch g.Rng.Intn(8) {
	case 0:
		return float64(float32(v))
	case 1:
		return Ulps(float64(float32(v)), 1+g.Rng.Intn(2))
	case 2:
		return Ulps(float64(float32(v)), -1-g.Rng.Intn(2))
	case 3:
		f := float32(v)
		n := math.Nextafter32(f, float32(math.Inf(1)))
		return (float64(f) + float64(n)) / 2
	case 4:
		// coarse grid: produces exact duplicates and shared edges
		step := 0.5
		if g.Reg.Spread > 0 {
			step = g.Reg.Spread / 4
		}
		return math.Round(v/step) * step
	}
	return v
}

func (g *Gen) remember(lat, lon float64) {
	if g.NoPool {
		return
	}
	if len(g.Lats) < 4096 {
		g.Lats = append(g.Lats, lat)
		g.Lons = append(g.Lons, lon)
	} else {
		i := g.Rng.Intn(len(g.Lats))
		g.Lats[i], g.Lons[i] = lat, lon
	}
}

// RawLatLon draws a coordinate pair in the region without remembering it.
func (g *Gen) RawLatLon() (lat, lon float64) {
	r := g.Rng
	if g.Reg.Spread < 0 {
		lat, lon = r.Float64()*180-90, r.Float64()*360-180
		switch r.Intn(12) {
		case 0:
			lat = 90 - r.Float64()*1e-3
		case 1:
			lat = -90 + r.Float64()*1e-3
		case 2:
			lon = 180 - r.Float64()*1e-3
		case 3:
			lon = -180 + r.Float64()*1e-3
		case 4:
			lat, lon = (r.Float64()-0.5)*1e-30, (r.Float64()-0.5)*1e-30
		case 5:
			lat, lon = (r.Float64()-0.5)*1e-310, (r.Float64()-0.5)*1e-310 // float64 denormals
		}
	} else {
		lat = g.Reg.Lat + (r.Float64()*2-1)*g.Reg.Spread
		lon = g.Reg.Lon + (r.Float64()*2-1)*g.Reg.Spread
		if lon > 180 {
			lon -= 360
		}
		if lon < -180 {
			lon += 360
		}
		if lat > 90 {
			lat = 180 - lat
		}
		if lat < -90 {
			lat = -180 - lat
		}
	}
	lat, lon = g.hostile(lat), g.hostile(lon)
	return clamp(lat, -90, 90), clamp(lon, -180, 180)
}

// LatLon draws a coordinate pair and remembers it.
func (g *Gen) LatLon() (lat, lon float64) {
	if g.PoolBias > 0 && len(g.Lats) > 0 && g.Rng.Intn(100) < g.PoolBias {
		return g.PoolLat(), g.PoolLon()
	}
	lat, lon = g.RawLatLon()
	g.remember(lat, lon)
	return
}

// PoolLat returns a latitude some object used (optionally a few ulps off), or a
// fresh one when the pool is empty.
func (g *Gen) PoolLat() float64 {
	if len(g.Lats) == 0 {
		la, _ := g.RawLatLon()
		return la
	}
	v := g.Lats[g.Rng.Intn(len(g.Lats))]
	return clamp(g.jitter(v), -90, 90)
}

// PoolLon is PoolLat for longitudes.
func (g *Gen) PoolLon() float64 {
	if len(g.Lons) == 0 {
		_, lo := g.RawLatLon()
		return lo
	}
	v := g.Lons[g.Rng.Intn(len(g.Lons))]
	return clamp(g.jitter(v), -180, 180)
}

func (g *Gen) jitter(v float64) float64 {
	switch g.Rng.Intn(6) {
	case 0:
		return Ulps(v, 1)
	case 1:
		return Ulps(v, -1)
	case 2:
		// stay inside the same float32 gap
		f := float32(v)
		n := math.Nextafter32(f, float32(math.Inf(1)))
		p := math.Nextafter32(f, float32(math.Inf(-1)))
		return float64(p) + (float64(n)-float64(p))*g.Rng.Float64()
	}
	return v
}

func rectOf(pts [][2]float64) Rect {
	r := Rect{math.Inf(1), math.Inf(1), math.Inf(-1), math.Inf(-1)}
	for _, p := range pts {
		r = r.Union(PointRect(p[0], p[1]))
	}
	return r
}

func posJSON(p [2]float64) string { return "[" + F(p[1]) + "," + F(p[0]) + "]" }

func ringJSON(pts [][2]float64) string {
	var sb strings.Builder
	sb.WriteByte('[')
	for i, p := range pts {
		if i > 0 {
			sb.WriteByte(',')
		}
		sb.WriteString(posJSON(p))
	}
	sb.WriteByte(']')
	return sb.String()
}

// extent picks the size (degrees) of an extended object: tiny to huge.
func (g *Gen) extent() float64 {
	e := []float64{1e-9, 1e-6, 1e-4, 0.01, 0.3, 3, 30, 120}
	max := 7
	if g.Reg.Spread > 0 {
		// mostly comparable with the region, sometimes much larger
		if g.Rng.Intn(6) != 0 {
			return g.Reg.Spread * (0.01 + g.Rng.Float64())
		}
	}
	return e[g.Rng.Intn(max+1)] * (0.5 + g.Rng.Float64())
}

// star returns a simple (non self-intersecting in the plane) closed ring of n
// vertices around (lat,lon); concave when jag > 0. [lat,lon] pairs, first == last.
func (g *Gen) star(lat, lon, radius float64, n int, jag float64, scale float64) [][2]float64 {
	pts := make([][2]float64, 0, n+1)
	phase := g.Rng.Float64() * 2 * math.Pi
	for i := 0; i < n; i++ {
		a := phase + 2*math.Pi*float64(i)/float64(n)
		rr := radius * scale
		if jag > 0 {
			rr *= 1 - jag*g.Rng.Float64()
		}
		la := clamp(lat+rr*math.Sin(a), -90, 90)
		lo := clamp(lon+rr*math.Cos(a), -180, 180)
		if scale == 1 && g.Rng.Intn(4) == 0 {
			la, lo = clamp(g.hostile(la), -90, 90), clamp(g.hostile(lo), -180, 180)
		}
		if scale == 1 && g.PoolBias > 0 && len(g.Lats) > 0 && g.Rng.Intn(8) == 0 {
			// one coordinate of the vertex coincides with an object coordinate
			if g.Rng.Intn(2) == 0 {
				la = g.PoolLat()
			} else {
				lo = g.PoolLon()
			}
		}
		if len(pts) > 0 && la == pts[len(pts)-1][0] && lo == pts[len(pts)-1][1] {
			continue
		}
		pts = append(pts, [2]float64{la, lo})
	}
	if len(pts) > 1 && pts[len(pts)-1] == pts[0] {
		pts = pts[:len(pts)-1]
	}
	if len(pts) < 3 {
		// clamping at a pole / the antimeridian collapsed the ring: a small triangle
		// that stays inside the legal range
		d := math.Max(radius*scale, 1e-9)
		sy, sx := 1.0, 1.0
		if lat > 0 {
			sy = -1
		}
		if lon > 0 {
			sx = -1
		}
		pts = [][2]float64{{lat, lon}, {lat + sy*d, lon}, {lat, lon + sx*d}}
		if pts[1][0] == lat || pts[2][1] == lon { // d below the resolution of the coordinates
			pts[1][0], pts[2][1] = lat+sy*1e-3, lon+sx*1e-3
		}
	}
	pts = append(pts, pts[0])
	return pts
}

// PolygonJSON builds a polygon (optionally concave, optionally with a hole) and
// returns its coordinates text and the exterior points (for the bbox). Fewer than 64 points.
func (g *Gen) polygonCoords(concave, holed bool) (string, [][2]float64) {
	lat, lon := g.LatLon()
	radius := g.extent()
	n := 3 + g.Rng.Intn(9)
	jag := 0.0
	if concave {
		jag = 0.75
		n = 6 + g.Rng.Intn(14)
	}
	ext := g.star(lat, lon, radius, n, jag, 1)
	all := append([][2]float64{}, ext...)
	s := "[" + ringJSON(ext)
	if holed {
		// hole strictly inside the smallest possible outer radius
		hole := g.star(lat, lon, radius, 3+g.Rng.Intn(6), 0, (1-jag)*0.5*(0.3+0.6*g.Rng.Float64()))
		s += "," + ringJSON(hole)
		// the bounding rectangle of a polygon is that of its exterior ring
	}
	for _, p := range ext {
		g.remember(p[0], p[1])
	}
	return s + "]", all
}

func (g *Gen) lineCoords() (string, [][2]float64) {
	lat, lon := g.LatLon()
	n := 2 + g.Rng.Intn(6)
	ext := g.extent()
	pts := [][2]float64{{lat, lon}}
	for i := 1; i < n; i++ {
		la := clamp(lat+(g.Rng.Float64()*2-1)*ext, -90, 90)
		lo := clamp(lon+(g.Rng.Float64()*2-1)*ext, -180, 180)
		switch g.Rng.Intn(6) {
		case 0:
			la = pts[len(pts)-1][0] // horizontal segment
		case 1:
			lo = pts[len(pts)-1][1] // vertical segment
		}
		if la == pts[len(pts)-1][0] && lo == pts[len(pts)-1][1] {
			// no zero-length segments: a repeated vertex makes tile38's line-in-line
			// test spin forever (reported separately), which would wedge the server
			continue
		}
		pts = append(pts, [2]float64{la, lo})
		g.remember(la, lo)
	}
	if len(pts) < 2 {
		l2 := lat + 1e-3
		if lat > 0 {
			l2 = lat - 1e-3
		}
		pts = append(pts, [2]float64{l2, lon})
	}
	return ringJSON(pts), pts
}

// Kinds lists the object kinds Object can build.
var Kinds = []string{"point", "pointz", "bounds", "hash", "line", "polygon", "concave", "holed", "multipoint", "multiline", "multipolygon", "collection", "feature", "fcollection", "string", "empty"}

var geohashAlphabet = "0123456789bcdefghjkmnpqrstuvwxyz"

// Geohash returns a random geohash of 1..12 characters.
func (g *Gen) Geohash(maxLen int) string {
	n := 1 + g.Rng.Intn(maxLen)
	b := make([]byte, n)
	for i := range b {
		b[i] = geohashAlphabet[g.Rng.Intn(32)]
	}
	return string(b)
}

// geometry returns the GeoJSON text and the points of a non-collection geometry.
func (g *Gen) geometry(kind string) (string, [][2]float64) {
	switch kind {
	case "point":
		la, lo := g.LatLon()
		return `{"type":"Point","coordinates":` + posJSON([2]float64{la, lo}) + `}`, [][2]float64{{la, lo}}
	case "line":
		s, pts := g.lineCoords()
		return `{"type":"LineString","coordinates":` + s + `}`, pts
	case "polygon", "concave", "holed":
		s, pts := g.polygonCoords(kind == "concave" || (kind == "holed" && g.Rng.Intn(2) == 0), kind == "holed")
		return `{"type":"Polygon","coordinates":` + s + `}`, pts
	case "multipoint":
		n := 1 + g.Rng.Intn(5)
		var pts [][2]float64
		for i := 0; i < n; i++ {
			la, lo := g.LatLon()
			pts = append(pts, [2]float64{la, lo})
		}
		return `{"type":"MultiPoint","coordinates":` + ringJSON(pts) + `}`, pts
	case "multiline":
		n := 1 + g.Rng.Intn(3)
		var all [][2]float64
		var parts []string
		for i := 0; i < n; i++ {
			s, pts := g.lineCoords()
			parts = append(parts, s)
			all = append(all, pts...)
		}
		return `{"type":"MultiLineString","coordinates":[` + strings.Join(parts, ",") + `]}`, all
	case "multipolygon":
		n := 1 + g.Rng.Intn(3)
		var all [][2]float64
		var parts []string
		for i := 0; i < n; i++ {
			s, pts := g.polygonCoords(g.Rng.Intn(2) == 0, g.Rng.Intn(3) == 0)
			parts = append(parts, s)
			all = append(all, pts...)
		}
		return `{"type":"MultiPolygon","coordinates":[` + strings.Join(parts, ",") + `]}`, all
	}
	panic("geo: unknown geometry kind " + kind)
}

var simpleGeoms = []string{"point", "line", "polygon", "concave", "holed", "multipoint", "multiline", "multipolygon"}

// Object builds an object of the given kind.
func (g *Gen) Object(kind string) Obj {
	o := Obj{Kind: kind, Spatial: true, HasRect: true}
	switch kind {
	case "point":
		la, lo := g.LatLon()
		o.Args = []string{"POINT", F(la), F(lo)}
		o.Rect = PointRect(la, lo)
	case "pointz":
		la, lo := g.LatLon()
		o.Args = []string{"POINT", F(la), F(lo), F(math.Round(g.Rng.Float64()*1000) + 1)}
		o.Rect = PointRect(la, lo)
	case "bounds":
		la, lo := g.LatLon()
		la2 := clamp(la+g.extent(), -90, 90)
		lo2 := clamp(lo+g.extent(), -180, 180)
		if g.Rng.Intn(3) == 0 {
			la2, lo2 = clamp(g.hostile(la2), -90, 90), clamp(g.hostile(lo2), -180, 180)
		}
		if la2 < la {
			la, la2 = la2, la
		}
		if lo2 < lo {
			lo, lo2 = lo2, lo
		}
		g.remember(la2, lo2)
		o.Args = []string{"BOUNDS", F(la), F(lo), F(la2), F(lo2)}
		o.Rect = Rect{la, lo, la2, lo2}
	case "hash":
		o.Args = []string{"HASH", g.Geohash(12)}
		o.HasRect = false
	case "string":
		o.Args = []string{"STRING", "s" + strconv.Itoa(g.Rng.Intn(1000))}
		o.Spatial, o.HasRect = false, false
	case "empty":
		e := []string{`{"type":"GeometryCollection","geometries":[]}`, `{"type":"MultiPoint","coordinates":[]}`, `{"type":"FeatureCollection","features":[]}`, `{"type":"MultiPolygon","coordinates":[]}`}
		o.JSON = e[g.Rng.Intn(len(e))]
		o.Args = []string{"OBJECT", o.JSON}
		o.HasRect, o.Empty = false, true
	case "collection", "fcollection":
		n := 1 + g.Rng.Intn(4)
		var all [][2]float64
		var parts []string
		for i := 0; i < n; i++ {
			s, pts := g.geometry(simpleGeoms[g.Rng.Intn(len(simpleGeoms))])
			if kind == "fcollection" {
				s = `{"type":"Feature","geometry":` + s + `,"properties":{"n":` + strconv.Itoa(i) + `}}`
			}
			parts = append(parts, s)
			all = append(all, pts...)
		}
		if kind == "collection" {
			o.JSON = `{"type":"GeometryCollection","geometries":[` + strings.Join(parts, ",") + `]}`
		} else {
			o.JSON = `{"type":"FeatureCollection","features":[` + strings.Join(parts, ",") + `]}`
		}
		o.Args = []string{"OBJECT", o.JSON}
		o.Rect = rectOf(all)
	case "feature":
		s, pts := g.geometry(simpleGeoms[g.Rng.Intn(len(simpleGeoms))])
		o.JSON = `{"type":"Feature","geometry":` + s + `,"properties":{"name":"f"}}`
		o.Args = []string{"OBJECT", o.JSON}
		o.Rect = rectOf(pts)
	default:
		s, pts := g.geometry(kind)
		o.JSON = s
		o.Args = []string{"OBJECT", s}
		o.Rect = rectOf(pts)
	}
	return o
}
