// Package geo is the harness' independent geometric oracle: great-circle
// distance on the documented sphere, point-in-rectangle, segment-rectangle
// crossing and a numeric point-to-(lat/lon rectangle) distance. It shares no
// code with tile38 or tidwall/geojson.
//
// Every comparison helper is three-valued: a case that falls inside the
// don't-care band around a boundary is "unsure" and must not be judged.
package geo

import "math"

// R is the earth radius in metres that tile38 documents and uses for every
// distance it reports (tidwall/geojson/geo earthRadius, collection/geodesic.go).
const R = 6371e3

// Default don't-care band: a distance d is only judged against a bound b when
// |d-b| > RelEps*max(d,b) + AbsEps.
const (
	RelEps = 1e-6
	AbsEps = 1e-6 // metres
)

func rad(d float64) float64 { return d * math.Pi / 180 }

// Finite reports whether all values are finite numbers.
func Finite(v ...float64) bool {
	for _, x := range v {
		if math.IsNaN(x) || math.IsInf(x, 0) {
			return false
		}
	}
	return true
}

// Haversine returns the great-circle distance in metres between two points
// given in degrees.
func Haversine(lat1, lon1, lat2, lon2 float64) float64 {
	if lat1 == lat2 && lon1 == lon2 {
		return 0
	}
	p1, p2 := rad(lat1), rad(lat2)
	sdp := math.Sin((p2 - p1) / 2)
	sdl := math.Sin(rad(lon2-lon1) / 2)
	a := sdp*sdp + math.Cos(p1)*math.Cos(p2)*sdl*sdl
	if a > 1 {
		a = 1
	}
	if a < 0 {
		a = 0
	}
	return 2 * R * math.Asin(math.Sqrt(a))
}

// Band is the width of the don't-care band around a distance bound b.
func Band(a, b float64) float64 {
	m := math.Max(math.Abs(a), math.Abs(b))
	return RelEps*m + AbsEps
}

// Cmp compares two distances: -1 when a is surely smaller than b, +1 when
// surely larger, 0 when the two are within the don't-care band.
func Cmp(a, b float64) int {
	w := Band(a, b)
	switch {
	case a < b-w:
		return -1
	case a > b+w:
		return 1
	}
	return 0
}

// Close reports |a-b| within the band (used for DISTANCE agreement).
func Close(a, b float64) bool { return Cmp(a, b) == 0 }

// Rect is a latitude/longitude rectangle (degrees, Min <= Max, it never wraps
// the antimeridian: tile38 rectangles do not either).
type Rect struct {
	MinLat, MinLon, MaxLat, MaxLon float64
}

// IsPoint reports a degenerate rectangle.
func (r Rect) IsPoint() bool { return r.MinLat == r.MaxLat && r.MinLon == r.MaxLon }

// Valid reports finite, ordered bounds.
func (r Rect) Valid() bool {
	return Finite(r.MinLat, r.MinLon, r.MaxLat, r.MaxLon) && r.MinLat <= r.MaxLat && r.MinLon <= r.MaxLon
}

// Contains is the exact closed-rectangle membership test.
func (r Rect) Contains(lat, lon float64) bool {
	return lat >= r.MinLat && lat <= r.MaxLat && lon >= r.MinLon && lon <= r.MaxLon
}

// ContainsBand returns (inside, sure): sure is false when the point is within
// epsDeg degrees of an edge line of the rectangle (then inside must not be judged).
func (r Rect) ContainsBand(lat, lon, epsDeg float64) (inside, sure bool) {
	inside = r.Contains(lat, lon)
	near := func(v, e float64) bool { return math.Abs(v-e) <= epsDeg }
	if near(lat, r.MinLat) || near(lat, r.MaxLat) || near(lon, r.MinLon) || near(lon, r.MaxLon) {
		// only relevant when the point is near the rectangle at all
		grown := Rect{r.MinLat - epsDeg, r.MinLon - epsDeg, r.MaxLat + epsDeg, r.MaxLon + epsDeg}
		if grown.Contains(lat, lon) {
			return inside, false
		}
	}
	return inside, true
}

// Overlaps is the exact closed-rectangle overlap test.
func (r Rect) Overlaps(o Rect) bool {
	return r.MinLat <= o.MaxLat && o.MinLat <= r.MaxLat && r.MinLon <= o.MaxLon && o.MinLon <= r.MaxLon
}

// Union grows r to include o.
func (r Rect) Union(o Rect) Rect {
	return Rect{math.Min(r.MinLat, o.MinLat), math.Min(r.MinLon, o.MinLon), math.Max(r.MaxLat, o.MaxLat), math.Max(r.MaxLon, o.MaxLon)}
}

// PointRect is the rectangle of a single point.
func PointRect(lat, lon float64) Rect { return Rect{lat, lon, lat, lon} }

// SegCrossesRect reports whether the straight (planar lat/lon) segment a-b has a
// point in the closed rectangle (Liang-Barsky). sure is false when an end point or
// the clipped parameter range is within epsDeg of deciding the other way.
func SegCrossesRect(alat, alon, blat, blon float64, r Rect, epsDeg float64) (crosses, sure bool) {
	eval := func(rr Rect) bool {
		t0, t1 := 0.0, 1.0
		dx, dy := blon-alon, blat-alat
		clip := func(p, q float64) bool {
			if p == 0 {
				return q >= 0
			}
			t := q / p
			if p < 0 {
				if t > t1 {
					return false
				}
				if t > t0 {
					t0 = t
				}
			} else {
				if t < t0 {
					return false
				}
				if t < t1 {
					t1 = t
				}
			}
			return true
		}
		return clip(-dx, alon-rr.MinLon) && clip(dx, rr.MaxLon-alon) && clip(-dy, alat-rr.MinLat) && clip(dy, rr.MaxLat-alat) && t0 <= t1
	}
	crosses = eval(r)
	grown := Rect{r.MinLat - epsDeg, r.MinLon - epsDeg, r.MaxLat + epsDeg, r.MaxLon + epsDeg}
	shrunk := Rect{r.MinLat + epsDeg, r.MinLon + epsDeg, r.MaxLat - epsDeg, r.MaxLon - epsDeg}
	if crosses {
		sure = shrunk.MinLat <= shrunk.MaxLat && shrunk.MinLon <= shrunk.MaxLon && eval(shrunk)
	} else {
		sure = !eval(grown)
	}
	return crosses, sure
}

const invPhi = 0.6180339887498949

// minOnEdge minimises f over t in [0,1]: dense sampling, then golden-section
// refinement in the bracket around every sample that is a local minimum of the
// sampled sequence (the distance from a point to a meridian or parallel arc has
// at most two local minima on the arc - e.g. both ends of a parallel that spans
// 360 degrees - so 512 samples always bracket the global one).
func minOnEdge(f func(t float64) float64) float64 {
	const n = 512
	var v [n + 1]float64
	best := math.Inf(1)
	for i := 0; i <= n; i++ {
		v[i] = f(float64(i) / n)
		if v[i] < best {
			best = v[i]
		}
	}
	refined := 0
	for i := 0; i <= n && refined < 8; i++ {
		if (i > 0 && v[i-1] < v[i]) || (i < n && v[i+1] < v[i]) {
			continue
		}
		if i > 0 && v[i-1] == v[i] && i < n && v[i+1] == v[i] {
			continue // flat run: interior of a plateau cannot hide a lower value than its ends
		}
		refined++
		if r := golden(f, math.Max(0, float64(i-1)/n), math.Min(1, float64(i+1)/n)); r < best {
			best = r
		}
	}
	return best
}

func golden(f func(t float64) float64, lo, hi float64) float64 {
	a, b := lo, hi
	c := b - (b-a)*invPhi
	d := a + (b-a)*invPhi
	fc, fd := f(c), f(d)
	for i := 0; i < 90 && b-a > 1e-16; i++ {
		if fc < fd {
			b, d, fd = d, c, fc
			c = b - (b-a)*invPhi
			fc = f(c)
		} else {
			a, c, fc = c, d, fd
			d = a + (b-a)*invPhi
			fd = f(d)
		}
	}
	best := math.Inf(1)
	for _, v := range []float64{fc, fd, f(a), f(b), f(lo), f(hi)} {
		if v < best {
			best = v
		}
	}
	return best
}

// PointRectDist is the great-circle distance in metres from a point to the
// closest point of a closed lat/lon rectangle (0 inside), computed numerically:
// the minimum of the haversine distance over the four boundary arcs (two
// meridian arcs, two parallel arcs).
func PointRectDist(lat, lon float64, r Rect) float64 {
	if r.IsPoint() {
		return Haversine(lat, lon, r.MinLat, r.MinLon)
	}
	if r.Contains(lat, lon) {
		return 0
	}
	best := math.Inf(1)
	upd := func(v float64) {
		if v < best {
			best = v
		}
	}
	lerp := func(a, b, t float64) float64 {
		if t <= 0 {
			return a
		}
		if t >= 1 {
			return b
		}
		return a + (b-a)*t
	}
	if r.MinLon != r.MaxLon {
		upd(minOnEdge(func(t float64) float64 { return Haversine(lat, lon, r.MinLat, lerp(r.MinLon, r.MaxLon, t)) }))
		if r.MinLat != r.MaxLat {
			upd(minOnEdge(func(t float64) float64 { return Haversine(lat, lon, r.MaxLat, lerp(r.MinLon, r.MaxLon, t)) }))
		}
	}
	if r.MinLat != r.MaxLat {
		upd(minOnEdge(func(t float64) float64 { return Haversine(lat, lon, lerp(r.MinLat, r.MaxLat, t), r.MinLon) }))
		if r.MinLon != r.MaxLon {
			upd(minOnEdge(func(t float64) float64 { return Haversine(lat, lon, lerp(r.MinLat, r.MaxLat, t), r.MaxLon) }))
		}
	}
	return best
}
