package geo

import (
	"math"
	"math/rand"
	"testing"
)

// brute force: dense grid over the whole closed rectangle.
func bruteRect(lat, lon float64, r Rect) float64 {
	best := math.Inf(1)
	const n = 400
	for i := 0; i <= n; i++ {
		la := r.MinLat + (r.MaxLat-r.MinLat)*float64(i)/n
		for j := 0; j <= n; j++ {
			lo := r.MinLon + (r.MaxLon-r.MinLon)*float64(j)/n
			if d := Haversine(lat, lon, la, lo); d < best {
				best = d
			}
		}
	}
	return best
}

func TestPointRectDistAgainstBruteForce(t *testing.T) {
	rng := rand.New(rand.NewSource(7))
	for it := 0; it < 300; it++ {
		a, b := rng.Float64()*180-90, rng.Float64()*180-90
		c, d := rng.Float64()*360-180, rng.Float64()*360-180
		if it%3 == 0 { // small rect
			b = a + rng.Float64()*2
			d = c + rng.Float64()*2
			if b > 90 {
				b = 90
			}
			if d > 180 {
				d = 180
			}
		}
		r := Rect{math.Min(a, b), math.Min(c, d), math.Max(a, b), math.Max(c, d)}
		lat, lon := rng.Float64()*180-90, rng.Float64()*360-180
		if it%5 == 0 { // full-width rectangle, query next to the seam
			r.MinLon, r.MaxLon = -180, 180
			lon = 180 - rng.Float64()*0.01
			lat = r.MinLat - rng.Float64()*0.01
		}
		got := PointRectDist(lat, lon, r)
		want := bruteRect(lat, lon, r)
		// the grid can only overestimate the minimum, by at most one grid cell diagonal
		cell := Haversine(0, 0, (r.MaxLat-r.MinLat)/400, (r.MaxLon-r.MinLon)/400)
		if it%5 == 0 && lat >= -90 {
			// analytic: straight south of the rectangle along the meridian
			want = rad(r.MinLat-lat) * R
			cell = 1e-6
		}
		if got > want+1e-6 || got < want-cell-1e-6 {
			t.Fatalf("rect %+v point %v,%v: numeric %v brute %v (cell %v)", r, lat, lon, got, want, cell)
		}
	}
}

func TestHaversineKnown(t *testing.T) {
	// quarter of a great circle
	if d := Haversine(0, 0, 0, 90); math.Abs(d-math.Pi/2*R) > 1e-6 {
		t.Fatal(d)
	}
	if d := Haversine(90, 0, -90, 0); math.Abs(d-math.Pi*R) > 1e-3 {
		t.Fatal(d)
	}
	if Cmp(100, 100.00001) != 0 || Cmp(100, 101) != -1 || Cmp(101, 100) != 1 {
		t.Fatal("cmp")
	}
}
