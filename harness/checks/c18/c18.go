// Package c18: scripts are atomic, honour their read-only variants, and are
// sandboxed. DESIGN.md section 4, C18.
package c18

import (
	"fmt"
	"os"
	"regexp"
	"sort"
	"strconv"
	"strings"
	"sync"
	"time"

	"github.com/anishathalye/porcupine"

	"verifharness/aoflog"
	"verifharness/core"
	"verifharness/dump"
	"verifharness/kmodel"
	"verifharness/respc"
	"verifharness/srv"
)

// the documented environment of a script (tile38 scripting documentation and
// the comments of the sandbox: a base subset, table, math, string, os.clock /
// os.difftime, json, tile38; per-call KEYS ARGV DEADLINE EVAL_CMD).
var allowTop = map[string]bool{
	"_G": true, "_VERSION": true, "_GOPHER_LUA_VERSION": true, "tonumber": true, "tostring": true,
	"table": true, "math": true, "string": true, "os": true, "json": true, "tile38": true,
}
var allowNested = map[string][]string{
	"os":     {"clock", "difftime"},
	"json":   {"decode", "encode"},
	"tile38": {"call", "pcall", "error_reply", "status_reply", "sha1hex", "distance_to"},
	"table":  {"concat", "getn", "insert", "maxn", "remove", "sort"},
	"string": {"byte", "char", "dump", "find", "format", "gfind", "gmatch", "gsub", "len", "lower", "match", "rep", "reverse", "sub", "upper", "__index"},
	"math": {"abs", "acos", "asin", "atan", "atan2", "ceil", "cos", "cosh", "deg", "exp", "floor", "fmod", "frexp", "huge", "ldexp", "log", "log10", "max", "min", "mod", "modf", "pi", "pow",
		"rad", "random", "randomseed", "sin", "sinh", "sqrt", "tan", "tanh"},
}

// candidate names of everything the Lua 5.1 / gopher-lua standard libraries can define
var candidates = []string{
	"assert", "collectgarbage", "dofile", "error", "getfenv", "getmetatable", "ipairs", "load", "loadfile", "loadstring", "module", "next", "pairs", "pcall", "print",
	"rawequal", "rawget", "rawset", "require", "select", "setfenv", "setmetatable", "type", "unpack", "xpcall", "newproxy", "_printregs", "goto",
	"io", "package", "debug", "coroutine", "channel", "utf8", "bit", "bit32",
	"os.execute", "os.exit", "os.getenv", "os.remove", "os.rename", "os.setenv", "os.setlocale", "os.time", "os.date", "os.tmpname",
	"io.open", "io.popen", "io.read", "io.write", "io.lines", "io.stdout", "package.loadlib", "package.path", "debug.getinfo", "debug.sethook", "debug.getregistry",
	"string.dump", "coroutine.create", "KEYS", "ARGV", "DEADLINE", "EVAL_CMD", "ID", "FIELDS", "PROPERTIES",
}

func conn(s *srv.Server) (*respc.Conn, error) {
	c, err := respc.Dial(s.Addr(), 5*time.Second)
	if err != nil {
		return nil, err
	}
	c.Timeout = 20 * time.Second
	return c, nil
}

// ---------------------------------------------------------------- sandbox

func sandbox(ctx *core.Ctx, bin string) {
	s, err := srv.Start(srv.Opts{Bin: bin})
	if err != nil {
		ctx.Inconclusive(err.Error())
		return
	}
	defer s.Kill9()
	c, err := conn(s)
	if err != nil {
		ctx.Inconclusive(err.Error())
		return
	}
	defer c.Close()
	// (1) walk from Go: VERIF LUAGLOBALS
	r, err := c.Do("VERIF", "LUAGLOBALS")
	if err != nil || r.IsErr() {
		ctx.Inconclusive(fmt.Sprintf("VERIF LUAGLOBALS unavailable: %v %s", err, r.String()))
	} else {
		lines := strings.Split(strings.TrimSpace(r.Str), "\n")
		ctx.Count("globals_reachable_entries", int64(len(lines)))
		seenTop := map[string]bool{}
		for _, l := range lines {
			i := strings.LastIndex(l, ":")
			if i < 0 {
				continue
			}
			path, typ := l[:i], l[i+1:]
			ctx.Eval(1)
			parts := strings.Split(path, ".")
			top := parts[0]
			if strings.HasPrefix(top, "<") {
				// metatables: globals metatable must only hold __newindex; string metatable only __index -> string table
				if top == "<globals-metatable>" && len(parts) == 2 && parts[1] != "__newindex" {
					ctx.Violation("sandbox:extra-global:"+path, "globals metatable holds "+path+" ("+typ+")", nil)
				}
				continue
			}
			seenTop[top] = true
			if !allowTop[top] {
				ctx.Violation("sandbox:extra-global:"+top, fmt.Sprintf("script environment exposes %s (%s) which is not in the documented allow-list", path, typ), map[string]any{"luaglobals": lines})
				continue
			}
			if len(parts) >= 2 && top != "_G" {
				ok := false
				for _, n := range allowNested[top] {
					if n == parts[1] {
						ok = true
					}
				}
				if !ok {
					ctx.Violation("sandbox:extra-global:"+top+"."+parts[1], fmt.Sprintf("script environment exposes %s (%s) which is not in the documented allow-list", path, typ), map[string]any{"luaglobals": lines})
				}
			}
			ctx.Distinct("reachable|" + path)
		}
		for name := range allowTop {
			if !seenTop[name] {
				ctx.Violation("sandbox:missing-global:"+name, "documented global "+name+" is missing from the script environment", nil)
			}
		}
	}
	// (2) script-side probe of every candidate name, in every script variant
	for _, variant := range []string{"EVAL", "EVALRO", "EVALNA"} {
		for _, name := range candidates {
			expr := name
			if i := strings.IndexByte(name, '.'); i > 0 {
				expr = "(" + name[:i] + " and " + name + ")"
			}
			rep, err := c.Do(variant, "return tostring("+expr+")", "0")
			if err != nil {
				ctx.Inconclusive("probe i/o: " + err.Error())
				return
			}
			ctx.Eval(1)
			got := rep.Str
			present := rep.Kind == '$' && got != "nil" && got != "false"
			top := strings.SplitN(name, ".", 2)[0]
			allowed := false
			switch name {
			case "KEYS", "ARGV", "EVAL_CMD":
				allowed = true // the call's own
			case "DEADLINE":
				allowed = true
			case "string.dump":
				allowed = true
			}
			_ = top
			if present && !allowed {
				ctx.Violation("sandbox:extra-global:"+name, fmt.Sprintf("%s script sees %s = %s", variant, name, got), nil)
			}
			ctx.Distinct("probe|" + variant + "|" + name)
		}
	}
	// (3c) the documented library tables are not a side channel between calls
	for _, t := range [][3]string{
		{`tile38.saved = ARGV return 1`, `return tostring(tile38.saved and tile38.saved[1])`, "nil"},
		{`string.saved = KEYS return 1`, `return tostring(string.saved and string.saved[1])`, "nil"},
		{`json.x = 1 return 1`, `return tostring(json.x)`, "nil"},
		{`math.pi = 3 return 1`, `return tostring(math.pi == 3)`, "false"},
	} {
		rep, err := c.Do("EVAL", t[0], "1", "secretkey", "secretarg")
		if err != nil {
			ctx.Inconclusive("i/o: " + err.Error())
			return
		}
		ctx.Eval(1)
		chk, _ := c.Do("EVAL", t[1], "0")
		if chk.Str != t[2] {
			ctx.Violation("sandbox:library-table-writable", fmt.Sprintf("script %q (reply %s) changed a documented library table for later calls on the pooled state: %q now answers %q", t[0], rep.String(), t[1], chk.Str), map[string]any{"script": t[0], "probe": t[1]})
			break
		}
		ctx.Distinct("libtable|" + t[0])
	}
	c.Do("EVAL", `tile38.saved = nil string.saved = nil json.x = nil math.pi = 3.141592653589793 return 1`, "0")
	// (3d) raw writes into the globals table through the table library (the guard only sees
	// assignments): table.insert(_G, v) makes _G[1]
	if rep, err := c.Do("EVAL", `table.insert(_G, ARGV[1]) return 1`, "0", "secretarg"); err == nil {
		ctx.Eval(1)
		chk, _ := c.Do("EVAL", `return tostring(_G[1])`, "0")
		if chk.Str != "nil" {
			ctx.Violation("sandbox:global-created:table-insert", fmt.Sprintf("script `table.insert(_G, ARGV[1]) return 1` (reply %s) created the global slot _G[1] that later calls on the pooled state read: %q", rep.String(), chk.Str), nil)
		}
		c.Do("EVAL", `table.remove(_G) return 1`, "0")
		ctx.Distinct("newglobal|table.insert")
	}
	// (3) new globals cannot be created
	for _, src := range []string{`x = 1; return 1`, `_G.x2 = 1; return 1`, `_G["x3"] = 1; return 1`, `local t = _G; t.x4 = 1; return 1`, `tile38 = nil; return 1`} {
		rep, err := c.Do("EVAL", src, "0")
		if err != nil {
			ctx.Inconclusive("i/o: " + err.Error())
			return
		}
		ctx.Eval(1)
		chk, _ := c.Do("EVAL", `return tostring(x) .. tostring(x2) .. tostring(x3) .. tostring(x4)`, "0")
		if chk.Str != "nilnilnilnil" {
			ctx.Violation("sandbox:global-created", fmt.Sprintf("script %q (reply %s) created a global visible to later calls: probe says %q", src, rep.String(), chk.Str), nil)
			return
		}
		chk2, _ := c.Do("EVAL", `return (tile38 and "T" or "nil")`, "0")
		if chk2.Str != "T" {
			ctx.Violation("sandbox:existing-global-overwritable", fmt.Sprintf("script %q (reply %s) replaced a documented global for later calls on the pooled state (tile38 is now %s)", src, rep.String(), chk2.Str), nil)
		}
		ctx.Distinct("newglobal|" + src)
	}
	// (3b) the same on interpreter states created on demand: one SCAN with ten
	// WHEREEVAL clauses holds ten states at once (more than the initial pool);
	// the first five clauses are harmless, the others try to create a global.
	c.Do("SET", "sbx", "o1", "FIELD", "f", "1", "POINT", "1", "1")
	{
		cmd := []string{"SCAN", "sbx"}
		for i := 0; i < 5; i++ {
			cmd = append(cmd, "WHEREEVAL", "return true", "0")
		}
		for i := 6; i <= 10; i++ {
			cmd = append(cmd, "WHEREEVAL", fmt.Sprintf("gx%d = 1; return true", i), "0")
		}
		cmd = append(cmd, "IDS")
		rep, err := c.Do(cmd...)
		if err != nil {
			ctx.Inconclusive("i/o: " + err.Error())
			return
		}
		ctx.Eval(1)
		// now hold ten states again and ask each whether it sees a leaked global
		probe := []string{"SCAN", "sbx"}
		for i := 0; i < 10; i++ {
			probe = append(probe, "WHEREEVAL", "return gx6 == nil and gx7 == nil and gx8 == nil and gx9 == nil and gx10 == nil", "0")
		}
		probe = append(probe, "IDS")
		pr, err := c.Do(probe...)
		if err != nil {
			ctx.Inconclusive("i/o: " + err.Error())
			return
		}
		clean := pr.Kind == '*' && len(pr.Arr) == 2 && len(pr.Arr[1].Arr) == 1
		if !clean {
			ctx.Violation("sandbox:global-created:on-demand-state", fmt.Sprintf("scripts running on interpreter states beyond the initial pool (ten WHEREEVAL clauses in one SCAN, reply %s) created globals that later scripts on the pooled states see (probe reply %s)", rep.String(), pr.String()), nil)
			return
		}
		ctx.Distinct("newglobal|on-demand-states")
	}
	// (4) a call's KEYS/ARGV/EVAL_CMD do not survive the call (also on error paths)
	c.Do("SET", "sbx", "o1", "FIELD", "f", "1", "POINT", "1", "1")
	leakers := [][]string{
		{"EVAL", "return 1", "1", "secretkey", "secretarg"},
		{"EVAL", "this is not lua(", "1", "secretkey", "secretarg"},
		{"EVAL", "error('boom')", "1", "secretkey", "secretarg"},
		{"EVALSHA", "0123456789012345678901234567890123456789", "1", "secretkey", "secretarg"},
		{"EVALRO", "return nosuch.field", "1", "secretkey", "secretarg"},
		{"EVALNA", "return tile38.call('nosuchcmd')", "1", "secretkey", "secretarg"},
		{"EVAL", "return 1", "2", "secretkey"},
		// calls without keys / without arguments that write INTO the tables they were given
		{"EVAL", "KEYS[1] = ARGV[1] KEYS.stash = ARGV[1] return 1", "0", "secretarg"},
		{"EVALRO", "ARGV[1] = 'secretarg' ARGV.stash = 'secretarg' return 1", "0"},
		{"EVALNA", "KEYS[1] = 'secretkey' return 1", "0"},
	}
	for _, lk := range leakers {
		c.Do(lk...)
		ctx.Eval(1)
		for _, probe := range []string{`return KEYS ~= nil`, `return EVAL_CMD ~= nil`, `return DEADLINE ~= nil`} {
			rep, err := c.Do("SCAN", "sbx", "WHEREEVAL", probe, "0", "IDS")
			if err != nil {
				ctx.Inconclusive("i/o: " + err.Error())
				return
			}
			if rep.Kind == '*' && len(rep.Arr) == 2 && len(rep.Arr[1].Arr) > 0 {
				ctx.Violation("sandbox:call-globals-survive:"+strings.ToLower(lk[0])+":"+classify(lk[1]), fmt.Sprintf("after %q a later WHEREEVAL script on the pooled state sees the previous call's globals (%s is true)", lk, probe), map[string]any{"call": lk, "probe": probe})
			}
		}
		rep, _ := c.Do("EVAL", `return tostring(ARGV[1]) .. tostring(KEYS[1])`, "0")
		if rep.Str == "nilnil" {
			// the same through the other variants, and members that are not array slots
			for _, kind := range []string{"EVALRO", "EVALNA"} {
				if r2, _ := c.Do(kind, `return tostring(ARGV[1]) .. tostring(KEYS[1]) .. tostring(KEYS.stash) .. tostring(ARGV.stash)`, "0"); r2.Str != "nilnilnilnil" && !r2.IsErr() {
					rep.Str = kind + ": " + r2.Str
				}
			}
		}
		if rep.Str != "nilnil" {
			ctx.Violation("sandbox:call-globals-survive:next-eval", fmt.Sprintf("after %q the next EVAL with no keys/args sees %q", lk, rep.Str), nil)
		}
		ctx.Distinct("leak|" + lk[0] + "|" + classify(lk[1]))
	}
}

func classify(src string) string {
	switch {
	case strings.Contains(src, "not lua"):
		return "syntax-error"
	case strings.Contains(src, "error("):
		return "runtime-error"
	case strings.Contains(src, "nosuch.field"):
		return "index-error"
	case strings.Contains(src, "nosuchcmd"):
		return "call-error"
	case len(src) == 40:
		return "unknown-sha"
	}
	return "ok"
}

// ---------------------------------------------------------------- read-only variants

func hostileRO() []string {
	set := `tile38.call('set','ro','a','point',1,2)`
	out := []string{
		`return ` + set,
		`return tile38.pcall('set','ro','a','point',1,2)`,
		`EVAL_CMD = 'eval'; return ` + set,
		`EVAL_CMD = 'evalna'; return ` + set,
		`_G.EVAL_CMD = 'eval'; return ` + set,
		`_G['EVAL_CMD'] = 'evalsha'; return tile38.pcall('set','ro','a','point',1,2)`,
		`local g = _G; g.EVAL_CMD = 'eval'; return ` + set,
		`return tile38.call('timeout','5','set','ro','a','point',1,2)`,
		`return tile38.call('TIMEOUT','5','SET','ro','a','POINT',1,2)`,
		`return tile38.call('SET','ro','a','point',1,2)`,
		`return tile38.call('Set','ro','a','point',1,2)`,
		`tile38.pcall('set','ro','a','point',1,2); tile38.pcall('set','ro','b','string','x'); return 1`,
		`return tile38.call('eval', "return tile38.call('set','ro','a','point',1,2)", 0)`,
		`return tile38.call('evalna', "return tile38.call('set','ro','a','point',1,2)", 0)`,
	}
	for _, w := range [][]string{{"del", "ro", "keep"}, {"drop", "ro"}, {"fset", "ro", "keep", "f", "9"}, {"flushdb"}, {"expire", "ro", "keep", "100"}, {"persist", "ro", "ttl"},
		{"jset", "ro", "keep", "p", "1"}, {"jdel", "ro", "doc", "p"}, {"pdel", "ro", "*"}, {"rename", "ro", "ro2"}, {"renamenx", "ro", "ro3"},
		{"sethook", "h", "http://127.0.0.1:9/x", "nearby", "ro", "fence", "point", "1", "2", "100"}, {"setchan", "c", "nearby", "ro", "fence", "point", "1", "2", "100"},
		{"delchan", "existing"}, {"pdelchan", "*"}, {"delhook", "x"}, {"pdelhook", "*"}, {"aofshrink"}, {"readonly", "yes"}, {"config", "set", "requirepass", "x"}, {"follow", "127.0.0.1", "1"}} {
		q := make([]string, len(w))
		for i, a := range w {
			q[i] = "'" + a + "'"
		}
		out = append(out, `return tile38.pcall(`+strings.Join(q, ",")+`)`)
		out = append(out, `EVAL_CMD = 'eval'; return tile38.pcall(`+strings.Join(q, ",")+`)`)
	}
	return out
}

func readOnly(ctx *core.Ctx, bin string) {
	s, err := srv.Start(srv.Opts{Bin: bin})
	if err != nil {
		ctx.Inconclusive(err.Error())
		return
	}
	defer s.Kill9()
	c, err := conn(s)
	if err != nil {
		ctx.Inconclusive(err.Error())
		return
	}
	defer c.Close()
	for _, cmd := range [][]string{{"SET", "ro", "keep", "FIELD", "f", "1", "POINT", "5", "5"}, {"SET", "ro", "ttl", "EX", "5000", "STRING", "v"}, {"JSET", "ro", "doc", "p", "1"},
		{"SETCHAN", "existing", "NEARBY", "ro", "FENCE", "POINT", "1", "2", "100"}} {
		c.Do(cmd...)
	}
	aofSize := func() int64 {
		// flushes happen before replies; the file size is what counts
		fi, err := os.Stat(s.AOFPath())
		if err != nil {
			return -1
		}
		return fi.Size()
	}
	before, err := dump.Take(s.Addr(), dump.Opts{})
	if err != nil {
		ctx.Inconclusive(err.Error())
		return
	}
	time.Sleep(1100 * time.Millisecond) // background flush has run
	size0 := aofSize()
	scripts := hostileRO()
	for i, src := range scripts {
		for _, variant := range []string{"EVALRO", "EVALROSHA"} {
			var rep respc.Reply
			if variant == "EVALROSHA" {
				lr, err := c.Do("SCRIPT", "LOAD", src)
				if err != nil || lr.IsErr() {
					continue
				}
				rep, err = c.Do("EVALROSHA", lr.Str, "0")
			} else {
				rep, err = c.Do("EVALRO", src, "0")
			}
			if err != nil {
				time.Sleep(50 * time.Millisecond)
				if !s.Alive() {
					_, site := s.Crashed()
					ctx.Violation("evalro-crash:"+site, fmt.Sprintf("%s %q killed the server: %s", variant, src, site), nil)
				} else {
					ctx.Inconclusive("i/o: " + err.Error())
				}
				return
			}
			ctx.Eval(1)
			after, err := dump.Take(s.Addr(), dump.Opts{})
			if err != nil {
				ctx.Inconclusive(err.Error())
				return
			}
			time.Sleep(5 * time.Millisecond)
			size1 := aofSize()
			rebind := strings.Contains(src, "EVAL_CMD")
			if d := dump.Diff(before, after); d != "" || size1 != size0 {
				key := "evalro-modifies-data"
				if rebind {
					key = "evalro-evalcmd-rebind"
				}
				ctx.Violation(key, fmt.Sprintf("%s %q (reply %s) changed the dataset or the log (log %d -> %d bytes): %s", variant, src, rep.String(), size0, size1, d), map[string]any{"script": src, "variant": variant})
				// restore for the following scripts
				before = after
				size0 = size1
			}
			ctx.Distinct(fmt.Sprintf("ro|%s|%d", variant, i))
		}
	}
	ctx.Count("hostile_ro_scripts", int64(len(scripts)))
	ctx.Sample(map[string]any{"hostile_readonly_script": scripts[2], "variants": "EVALRO, EVALROSHA"})
	// WHEREEVAL clauses run on pooled interpreter states: whatever script used the state before,
	// a clause of a read command (also one nested in an EVALRO script) must not be able to write
	setz := `tile38.call('set','ro','wz','point',2,2)`
	for _, prev := range [][]string{{"EVAL", "return 1", "0"}, {"EVALNA", "return 1", "0"}, {"EVALSHA", "", "0"}, {"EVAL", "error('x')", "0"}} {
		if prev[0] == "EVALSHA" {
			lr, err := c.Do("SCRIPT", "LOAD", "return 1")
			if err != nil || lr.IsErr() {
				continue
			}
			prev[1] = lr.Str
		}
		for _, reader := range [][]string{
			{"SCAN", "ro", "WHEREEVAL", "return " + setz + " ~= nil", "0", "IDS"},
			{"SCAN", "ro", "WHEREEVAL", "return tile38.pcall('del','ro','keep') ~= nil", "0", "IDS"},
			{"NEARBY", "ro", "WHEREEVAL", "tile38.pcall('fset','ro','keep','f','77') return true", "0", "IDS", "POINT", "5", "5"},
			{"EVALRO", `return tile38.call('scan','ro','WHEREEVAL',"tile38.call('set','ro','fromro','point',2,2) return true",0,'IDS')`, "0"},
		} {
			c.Do(prev...)
			rep, err := c.Do(reader...)
			if err != nil {
				ctx.Inconclusive("i/o: " + err.Error())
				return
			}
			ctx.Eval(1)
			after, err := dump.Take(s.Addr(), dump.Opts{})
			if err != nil {
				ctx.Inconclusive(err.Error())
				return
			}
			time.Sleep(5 * time.Millisecond)
			size1 := aofSize()
			if d := dump.Diff(before, after); d != "" || size1 != size0 {
				key := "whereeval-modifies-data"
				if reader[0] == "EVALRO" {
					key = "evalro-modifies-data:nested-whereeval"
				}
				ctx.Violation(key, fmt.Sprintf("after %q, the read command %q (reply %s) changed the dataset or the log (log %d -> %d bytes): %s", prev, reader, rep.String(), size0, size1, d), map[string]any{"previous_call": prev, "read_command": reader})
				before = after
				size0 = size1
			}
			ctx.Distinct("whereeval-write|" + prev[0] + "|" + reader[0] + "|" + classify(reader[len(reader)-2]))
		}
	}
}

// ---------------------------------------------------------------- script writes are logged

// scriptWritesLogged: every write command a script may call, from every script
// variant, must appear in appendonly.aof (so that restarts and followers
// reproduce it), and a restart must yield the same dataset.
func scriptWritesLogged(ctx *core.Ctx, bin string) {
	s, err := srv.Start(srv.Opts{Bin: bin})
	if err != nil {
		ctx.Inconclusive(err.Error())
		return
	}
	defer func() { s.Kill9() }()
	c, err := conn(s)
	if err != nil {
		ctx.Inconclusive(err.Error())
		return
	}
	defer c.Close()
	type wcase struct {
		name  string
		setup [][]string
		call  string // Lua argument list of tile38.call, @K = key
	}
	cases := []wcase{
		{"set", nil, `'set','@K','a','field','f',7,'point',3,4`},
		{"del", [][]string{{"SET", "@K", "a", "POINT", "1", "2"}, {"SET", "@K", "b", "POINT", "1", "2"}}, `'del','@K','a'`},
		{"drop", [][]string{{"SET", "@K", "a", "POINT", "1", "2"}}, `'drop','@K'`},
		{"fset", [][]string{{"SET", "@K", "a", "POINT", "1", "2"}}, `'fset','@K','a','f',8`},
		{"expire", [][]string{{"SET", "@K", "a", "POINT", "1", "2"}}, `'expire','@K','a',5000`},
		{"persist", [][]string{{"SET", "@K", "a", "EX", "5000", "POINT", "1", "2"}}, `'persist','@K','a'`},
		{"jset", nil, `'jset','@K','a','p',9`},
		{"pdel", [][]string{{"SET", "@K", "a1", "POINT", "1", "2"}, {"SET", "@K", "b1", "POINT", "1", "2"}}, `'pdel','@K','a*'`},
		{"rename", [][]string{{"SET", "@K", "a", "POINT", "1", "2"}}, `'rename','@K','@K:to'`},
		{"renamenx", [][]string{{"SET", "@K", "a", "POINT", "1", "2"}}, `'renamenx','@K','@K:to'`},
		{"flushdb-free", [][]string{{"SET", "@K", "a", "POINT", "1", "2"}}, `'expire','@K','a',4000`},
	}
	logLen := func() int {
		es, _, _, _ := aoflog.ReadFile(s.AOFPath())
		return len(es)
	}
	for _, variant := range []string{"EVAL", "EVALSHA", "EVALNA", "EVALNASHA"} {
		for _, wc := range cases {
			key := "sw:" + strings.ToLower(variant) + ":" + wc.name
			for _, st := range wc.setup {
				a := make([]string, len(st))
				for i, x := range st {
					a[i] = strings.ReplaceAll(x, "@K", key)
				}
				c.Do(a...)
			}
			before := logLen()
			src := "return tile38.call(" + strings.ReplaceAll(wc.call, "@K", key) + ")"
			var rep respc.Reply
			if strings.HasSuffix(variant, "SHA") {
				lr, err := c.Do("SCRIPT", "LOAD", src)
				if err != nil || lr.IsErr() {
					ctx.Inconclusive("script load failed")
					return
				}
				rep, err = c.Do(variant, lr.Str, "0")
			} else {
				rep, err = c.Do(variant, src, "0")
			}
			if err != nil {
				ctx.Inconclusive("i/o: " + err.Error())
				return
			}
			ctx.Eval(1)
			if rep.IsErr() {
				ctx.Count("script_write_rejected:"+wc.name, 1)
				continue
			}
			es, _, okp, err := aoflog.ReadFile(s.AOFPath())
			if err != nil || !okp {
				ctx.Inconclusive("cannot parse the log")
				return
			}
			want := strings.SplitN(strings.Trim(strings.SplitN(wc.call, ",", 2)[0], "'"), " ", 2)[0]
			found := false
			for _, e := range es[min(before, len(es)):] {
				if strings.EqualFold(e.Args[0], want) && len(e.Args) > 1 && strings.HasPrefix(e.Args[1], key) {
					found = true
				}
			}
			if !found {
				ctx.Violation("script-write-not-logged:"+strings.ToLower(variant)+":"+want, fmt.Sprintf("%s script calling tile38.call(%s) was answered %s but appendonly.aof holds no %s entry for %s", variant, strings.ReplaceAll(wc.call, "@K", key), rep.String(), want, key), map[string]any{"variant": variant, "call": wc.call})
				continue
			}
			ctx.Distinct("scriptlog|" + variant + "|" + wc.name)
		}
	}
	before, err := dump.Take(s.Addr(), dump.Opts{})
	if err != nil {
		ctx.Inconclusive(err.Error())
		return
	}
	c.Close()
	s.Kill9()
	s2, err := s.Restart()
	if err != nil {
		ctx.Violation("script-write-restart-fails", "server does not restart after the script-write matrix: "+err.Error(), nil)
		return
	}
	s = s2
	after, err := dump.Take(s2.Addr(), dump.Opts{})
	if err != nil {
		ctx.Inconclusive(err.Error())
		return
	}
	if d := dump.Diff(before, after); d != "" {
		ctx.Violation("script-write-lost-on-restart", "dataset after restart differs from the dataset the scripts produced (A=before B=after): "+d, nil)
	}
}

// ---------------------------------------------------------------- atomicity

type sop struct {
	Client  int        `json:"client"`
	Args    []string   `json:"args"`
	Steps   [][]string `json:"steps,omitempty"` // the commands a script executes, in order
	Call    int64      `json:"call"`
	Ret     int64      `json:"ret"`
	Reply   string     `json:"reply"`
	reply   respc.Reply
	hasRep  bool
	isWrite bool
}

const twoSets = `tile38.call('set', KEYS[1], 'a', 'field', 'tok', ARGV[1], 'point', 1, 2); local g = tile38.call('get', KEYS[1], 'a'); tile38.call('set', KEYS[1], 'b', 'field', 'tok', ARGV[1], 'point', 3, 4); return ARGV[1]`

var tokField = regexp.MustCompile(`tok`)

func atomicity(ctx *core.Ctx, bin string, caseNo int, race bool) {
	r := ctx.SubRng(int64(caseNo) + 180000)
	var env []string
	dir := srv.NewDir()
	if race {
		env = append(env, "GORACE=halt_on_error=0 log_path="+dir+"/race")
	}
	args := []string{}
	if caseNo%2 == 1 {
		args = append(args, "--spinlock")
	}
	s, err := srv.Start(srv.Opts{Bin: bin, Dir: dir, Env: env, Args: args, ReadyTimeout: 120 * time.Second})
	if err != nil {
		ctx.Inconclusive(err.Error())
		return
	}
	defer s.Kill9()
	var wg sync.WaitGroup
	var mu sync.Mutex
	stop := make(chan struct{})
	var torn []string
	var scans, scansBoth int64
	nScripts := 2 + r.Intn(3)
	perClient := ctx.Pick(150, 500)
	variantOf := func(ci int) string { return []string{"EVAL", "EVALSHA", "EVALNA"}[(ci+caseNo)%3] }
	sha := ""
	if c0, err := conn(s); err == nil {
		if lr, err := c0.Do("SCRIPT", "LOAD", twoSets); err == nil {
			sha = lr.Str
		}
		c0.Close()
	}
	// script writers: collection s<i> is written only by scripts of client i
	for ci := 0; ci < nScripts; ci++ {
		wg.Add(1)
		go func(ci int) {
			defer wg.Done()
			c, err := conn(s)
			if err != nil {
				return
			}
			defer c.Close()
			v := variantOf(ci)
			for i := 0; i < perClient; i++ {
				tok := fmt.Sprintf("%d", ci*1000000+i)
				var err error
				cmd := []string{v, twoSets, "1", "s" + strconv.Itoa(ci), tok}
				if v == "EVALSHA" {
					cmd[1] = sha
				}
				if i%3 == 2 {
					// the same call under a generous TIMEOUT: still one indivisible step
					cmd = append([]string{"TIMEOUT", "30"}, cmd...)
				}
				_, err = c.Do(cmd...)
				if err != nil {
					return
				}
			}
		}(ci)
	}
	// plain writers on other ids of the same collections, and on their own
	for wi := 0; wi < 2; wi++ {
		wg.Add(1)
		go func(wi int) {
			defer wg.Done()
			rr := ctx.SubRng(int64(caseNo)*10 + int64(wi) + 181000)
			c, err := conn(s)
			if err != nil {
				return
			}
			defer c.Close()
			for i := 0; ; i++ {
				select {
				case <-stop:
					return
				default:
				}
				k := "s" + strconv.Itoa(rr.Intn(nScripts))
				switch rr.Intn(3) {
				case 0:
					c.Do("SET", k, "c", "FIELD", "tok", "w"+strconv.Itoa(i), "POINT", "5", "5")
				case 1:
					c.Do("FSET", k, "c", "n", strconv.Itoa(i))
				default:
					c.Do("SET", "other", "x", "STRING", strconv.Itoa(i))
				}
			}
		}(wi)
	}
	// readers: one SCAN shows both objects of a script with the same token
	for ri := 0; ri < 3; ri++ {
		wg.Add(1)
		go func(ri int) {
			defer wg.Done()
			c, err := conn(s)
			if err != nil {
				return
			}
			defer c.Close()
			for {
				select {
				case <-stop:
					return
				default:
				}
				ci := ri % nScripts
				rep, err := c.Do("SCAN", "s"+strconv.Itoa(ci))
				if err != nil {
					return
				}
				if rep.Kind != '*' || len(rep.Arr) != 2 {
					continue
				}
				toks := map[string]string{}
				for _, it := range rep.Arr[1].Arr {
					if len(it.Arr) >= 3 {
						for f := 0; f+1 < len(it.Arr[2].Arr); f += 2 {
							if it.Arr[2].Arr[f].Str == "tok" {
								toks[it.Arr[0].Str] = it.Arr[2].Arr[f+1].Str
							}
						}
					}
				}
				mu.Lock()
				scans++
				ta, oka := toks["a"]
				tb, okb := toks["b"]
				if oka && okb {
					scansBoth++
				}
				if variantOf(ci) != "EVALNA" && (oka != okb || ta != tb) && len(torn) < 3 {
					torn = append(torn, fmt.Sprintf("SCAN s%d shows a.tok=%q(%v) b.tok=%q(%v) (script variant %s)", ci, ta, oka, tb, okb, variantOf(ci)))
				}
				mu.Unlock()
			}
		}(ri)
	}
	// wait for the script writers (the first nScripts goroutines) by polling the log size is awkward: use a timer bound on ops instead
	done := make(chan struct{})
	go func() {
		// the script writers are the only goroutines that end by themselves
		for {
			time.Sleep(20 * time.Millisecond)
			c, err := conn(s)
			if err != nil {
				close(done)
				return
			}
			all := true
			for ci := 0; ci < nScripts; ci++ {
				rep, err := c.Do("FGET", "s"+strconv.Itoa(ci), "b", "tok")
				if err != nil || rep.Str != fmt.Sprintf("%d", ci*1000000+perClient-1) {
					all = false
				}
			}
			c.Close()
			if all {
				close(done)
				return
			}
		}
	}()
	select {
	case <-done:
	case <-time.After(120 * time.Second):
		ctx.Inconclusive("atomicity workload did not finish in time")
	}
	close(stop)
	wg.Wait()
	if !s.Alive() {
		_, site := s.Crashed()
		ctx.Violation("runtime-fatal:"+site, "server died during the script atomicity workload: "+site, map[string]any{"stderr": s.StderrTail(3000)})
		return
	}
	ctx.Eval(1)
	ctx.Count("scans_observed", scans)
	ctx.Count("scans_with_both_objects", scansBoth)
	if len(torn) > 0 {
		ctx.Violation("script-not-atomic:reader", "a single SCAN observed a half-applied script: "+strings.Join(torn, "; "), map[string]any{"case": caseNo})
	}
	// log adjacency
	s.Term(20 * time.Second)
	entries, _, ok, err := aoflog.ReadFile(s.AOFPath())
	if err != nil || !ok {
		ctx.Inconclusive("cannot parse the log")
		return
	}
	tokOf := func(e aoflog.Entry) (key, id, tok string) {
		a := e.Args
		if len(a) >= 7 && strings.ToLower(a[0]) == "set" && strings.HasPrefix(a[1], "s") {
			for i := 3; i+2 < len(a); i++ {
				if a[i] == "field" && a[i+1] == "tok" {
					return a[1], a[2], a[i+2]
				}
			}
		}
		return "", "", ""
	}
	var nonAdjNA, adj int64
	for i, e := range entries {
		key, id, tok := tokOf(e)
		if id != "a" || strings.HasPrefix(tok, "w") {
			continue
		}
		ci, _ := strconv.Atoi(key[1:])
		isNA := variantOf(ci) == "EVALNA"
		nextOK := false
		if i+1 < len(entries) {
			k2, id2, t2 := tokOf(entries[i+1])
			nextOK = k2 == key && id2 == "b" && t2 == tok
		}
		if nextOK {
			adj++
			continue
		}
		if isNA {
			nonAdjNA++
			continue
		}
		between := "end of log"
		if i+1 < len(entries) {
			between = fmt.Sprint(entries[i+1].Args)
		}
		ctx.Violation("script-not-atomic:log", fmt.Sprintf("another command is logged between the two writes of one %s script (token %s on %s): %s", variantOf(ci), tok, key, between), map[string]any{"case": caseNo})
		break
	}
	ctx.Count("script_write_pairs_adjacent_in_log", adj)
	ctx.Count("evalna_pairs_interleaved_in_log", nonAdjNA)
	if race {
		reps := srv.RaceReports(dir + "/race")
		ctx.Count("race_reports_side_observation", int64(len(reps)))
	}
	if scansBoth > 0 && adj > 0 {
		ctx.Distinct(fmt.Sprintf("atomic|scripts=%d|spin=%v|na=%v", nScripts, caseNo%2 == 1, nonAdjNA > 0))
	}
	if caseNo == 0 {
		ctx.Sample(map[string]any{"script": twoSets, "script_clients": nScripts, "scans_observed": scans, "pairs_adjacent_in_log": adj, "evalna_pairs_interleaved": nonAdjNA})
	}
}

// porcupine: short histories with a script as one step
func porcupineScripts(ctx *core.Ctx, bin string, caseNo int) {
	r := ctx.SubRng(int64(caseNo) + 185000)
	s, err := srv.Start(srv.Opts{Bin: bin})
	if err != nil {
		ctx.Inconclusive(err.Error())
		return
	}
	defer s.Kill9()
	start := time.Now()
	var mu sync.Mutex
	var ops []*sop
	var wg sync.WaitGroup
	nclients := 3 + r.Intn(2)
	for ci := 0; ci < nclients; ci++ {
		wg.Add(1)
		go func(ci int) {
			defer wg.Done()
			rr := ctx.SubRng(int64(caseNo)*100 + int64(ci) + 186000)
			c, err := conn(s)
			if err != nil {
				return
			}
			defer c.Close()
			for i := 0; i < 6+rr.Intn(6); i++ {
				tok := fmt.Sprintf("%d", ci*1000+i)
				var p *sop
				switch rr.Intn(6) {
				case 0, 1:
					v := []string{"EVAL", "EVALSHA"}[rr.Intn(2)]
					src := `tile38.call('set', 'p', 'a', 'string', ARGV[1]); tile38.call('set', 'p', 'b', 'string', ARGV[1]); return 1`
					if rr.Intn(2) == 0 {
						src = `tile38.call('del', 'p', 'a'); tile38.call('set', 'p', 'b', 'string', ARGV[1]); tile38.call('set', 'p', 'a', 'string', ARGV[1]); return 1`
					}
					steps := [][]string{{"set", "p", "a", "string", tok}, {"set", "p", "b", "string", tok}}
					if strings.HasPrefix(src, "tile38.call('del'") {
						steps = [][]string{{"del", "p", "a"}, {"set", "p", "b", "string", tok}, {"set", "p", "a", "string", tok}}
					}
					a := []string{"EVAL", src, "0", tok}
					if v == "EVALSHA" {
						lr, err := c.Do("SCRIPT", "LOAD", src)
						if err != nil {
							return
						}
						a = []string{"EVALSHA", lr.Str, "0", tok}
					}
					p = &sop{Client: ci, Args: a, Steps: steps}
				case 2:
					p = &sop{Client: ci, Args: []string{"SET", "p", []string{"a", "b"}[rr.Intn(2)], "STRING", "w" + tok}}
				case 3:
					p = &sop{Client: ci, Args: []string{"SCAN", "p"}}
				case 4:
					p = &sop{Client: ci, Args: []string{"GET", "p", []string{"a", "b"}[rr.Intn(2)]}}
				default:
					p = &sop{Client: ci, Args: []string{"DEL", "p", []string{"a", "b"}[rr.Intn(2)]}}
				}
				p.Call = int64(time.Since(start))
				rep, err := c.Do(p.Args...)
				p.Ret = int64(time.Since(start))
				if err == nil {
					p.reply, p.hasRep, p.Reply = rep, true, rep.String()
				}
				mu.Lock()
				ops = append(ops, p)
				mu.Unlock()
				if err != nil {
					return
				}
			}
		}(ci)
	}
	wg.Wait()
	model := porcupine.Model{
		Init: func() interface{} { return kmodel.New() },
		Step: func(state, input, output interface{}) (bool, interface{}) {
			m := state.(*kmodel.Model).Clone()
			p := input.(*sop)
			if p.Steps != nil {
				for _, st := range p.Steps {
					m.Apply(st)
				}
				return true, m
			}
			exp, known := m.Apply(p.Args)
			if !known || !p.hasRep {
				return true, m
			}
			ok, _ := m.Match(exp, p.reply)
			return ok, m
		},
		Equal: func(a, b interface{}) bool { return a.(*kmodel.Model).Key() == b.(*kmodel.Model).Key() },
	}
	var pops []porcupine.Operation
	var maxT int64
	for _, p := range ops {
		if p.Ret > maxT {
			maxT = p.Ret
		}
	}
	for _, p := range ops {
		ret := p.Ret
		if !p.hasRep {
			ret = maxT + 1
		}
		pops = append(pops, porcupine.Operation{ClientId: p.Client, Input: p, Output: p, Call: p.Call, Return: ret})
	}
	res := porcupine.CheckOperationsTimeout(model, pops, 20*time.Second)
	ctx.Eval(1)
	switch res {
	case porcupine.Ok:
		ctx.Count("porcupine_ok", 1)
		ctx.Distinct(fmt.Sprintf("porcupine|%d", caseNo))
	case porcupine.Unknown:
		ctx.Count("porcupine_unknown", 1)
	case porcupine.Illegal:
		ctx.Violation("script-not-atomic:porcupine", fmt.Sprintf("history of %d operations is not linearizable with each script as one indivisible step", len(ops)), map[string]any{"ops": ops})
	}
}

// Run is the C18 check.
func Run(ctx *core.Ctx) {
	ctx.Rule = "atomicity: 2-4 script clients (EVAL / EVALSHA / EVALNA by rotation) each set two objects of their own collection to one unique token with a read in between, while plain writers hit other ids of the same collections and readers issue single SCANs: no SCAN may show the two objects with different tokens (EVAL/EVALSHA), and in the log no other entry may sit between the two writes of one EVAL/EVALSHA script (EVALNA pairs may be interleaved - counted, which shows the monitor can see interleaving); short mixed histories are checked by porcupine with each script as ONE model step. read-only: a list of hostile scripts (direct and pcall writes of every write command, TIMEOUT wrapper, upper-case command words, nested eval, rebinding EVAL_CMD through every route) under EVALRO and EVALROSHA: dump and log size must not change. sandbox: everything reachable from the script globals (walked from Go in a verif build, and probed from inside scripts for every name the Lua 5.1 / gopher-lua libraries can define) must be in the documented allow-list; scripts cannot create globals; KEYS/ARGV/EVAL_CMD/DEADLINE of a call are not visible to a later EVAL or WHEREEVAL on the same pooled state, also after calls that fail. non-trivial/distinct = each probed name x variant, each hostile script x variant, each atomicity configuration that observed both objects and adjacent log pairs"
	ctx.Assumptions = []string{"the allow-list in this check is the documented script environment", "kmodel as sequential specification for the porcupine step"}
	bin, err := srv.Build("plain")
	if err != nil {
		ctx.Fatal("%v", err)
	}
	sandbox(ctx, bin)
	readOnly(ctx, bin)
	scriptWritesLogged(ctx, bin)
	var wg sync.WaitGroup
	sem := make(chan struct{}, 4)
	for i := 0; i < ctx.Pick(8, 150); i++ {
		wg.Add(1)
		sem <- struct{}{}
		go func(i int) {
			defer wg.Done()
			defer func() { <-sem }()
			atomicity(ctx, bin, i, false)
		}(i)
	}
	for i := 0; i < ctx.Pick(30, 1500); i++ {
		wg.Add(1)
		sem <- struct{}{}
		go func(i int) {
			defer wg.Done()
			defer func() { <-sem }()
			porcupineScripts(ctx, bin, i)
		}(i)
	}
	wg.Wait()
	if ctx.Thorough() {
		if rbin, err := srv.Build("race"); err == nil {
			for i := 0; i < 6; i++ {
				atomicity(ctx, rbin, 1000+i, true)
			}
		}
	}
	_ = sort.Strings
	_ = tokField
}
