// Package c20: roaming geofences (DESIGN.md section 4 "C20").
//
// `SETCHAN|SETHOOK|live ... NEARBY fleet FENCE [NODWELL] ROAM fleet <pattern> <meters>`:
// for every SET of a fenced object the set of `nearby` ids must be the other
// pattern-matching objects within <meters> (haversine, R = 6371e3 like tile38)
// of the NEW position, minus under NODWELL those already within <meters> of the
// previous position; `faraway` = within before and not now; `meters` = true
// distance. Every SET is closed by markers (package notif): PUBLISH on the
// channel; for webhooks and live fences a fresh marker object is SET next to a
// far-away anchor object that matches the pattern, which yields one `nearby`
// message carrying the marker id.
//
// Each neighbour is judged on its own. A neighbour that is (now or before)
// inside the search rectangle but outside the circle is "corner-tainted": a
// wrong outcome for it is attributed to the scenario class
// "roam:radius-not-applied" (known defect D8: the radius is never applied);
// all other neighbours are judged strictly under their own keys, so NODWELL,
// faraway, pattern and meters are judged independently of that defect.
package c20

import (
	"fmt"
	"math"
	"math/rand"
	"sort"
	"strconv"
	"strings"
	"sync"
	"time"

	"verifharness/core"
	"verifharness/kmodel"
	"verifharness/notif"
	"verifharness/respc"
	"verifharness/srv"
)

const (
	band   = 1.5e-3 // no generated pair has |d/r - 1| below this (the statement's don't-care band is 1e-3)
	mkMark = "0mk"  // marker ids: <letter>0mk...
)

type pos struct{ lat, lon float64 }

func r7(x float64) float64 {
	v, _ := strconv.ParseFloat(strconv.FormatFloat(x, 'f', 7, 64), 64)
	return v
}
func f7(x float64) string { return strconv.FormatFloat(x, 'f', -1, 64) }

func dist(a, b pos) float64 { return notif.Haversine(a.lat, a.lon, b.lat, b.lon) }

// inSearchRect replicates the search rectangle of a roam fence (bounding
// rectangle of the circle, geo.RectFromCenter). Only used to attribute wrong
// outcomes to the known radius defect and for the distinctness key.
func inSearchRect(c, p pos, meters float64) bool {
	const rad = math.Pi / 180
	r := meters / notif.EarthRadius
	lat := c.lat * rad
	if math.Abs(p.lat*rad-lat) > r*(1+1e-9) {
		return false
	}
	latT := math.Asin(math.Sin(lat) / math.Cos(r))
	dl := math.Acos((math.Cos(r) - math.Sin(latT)*math.Sin(lat)) / (math.Cos(latT) * math.Cos(lat)))
	if math.IsNaN(dl) {
		return true
	}
	return math.Abs(p.lon-c.lon)*rad <= dl*(1+1e-9)
}

const (
	kChan = iota
	kHook
	kLive
)

var kindName = []string{"chan", "hook", "live"}

type fence struct {
	kind   int
	name   string
	stream *notif.Stream
	live   *notif.Live
}

type cfg struct {
	n        int
	r        float64
	centre   pos
	pattern  string
	nodwell  bool
	anchorID string
	anchor   pos
	fences   []*fence
	args     []string
	objs     map[string]pos
	nextID   int
}

type sess struct {
	ctx  *core.Ctx
	rng  *rand.Rand
	s    *srv.Server
	ctl  *respc.Conn
	sub  *notif.Sub
	ep   *notif.Endpoint
	key  string
	log  [][]string
	dead bool
	wid  int
	mkN  int

	radiusReported int
}

func (ss *sess) infra(format string, a ...any) {
	if ss.dead {
		return
	}
	ss.dead = true
	msg := fmt.Sprintf(format, a...)
	if ss.s != nil && !ss.s.Alive() {
		_, site := ss.s.Crashed()
		msg += " (server process died: " + site + ")"
	}
	ss.ctx.Inconclusive(fmt.Sprintf("worker %d: %s", ss.wid, msg))
}

func (ss *sess) do(args ...string) (respc.Reply, bool) {
	if ss.dead {
		return respc.Reply{}, false
	}
	ss.log = append(ss.log, args)
	r, err := ss.ctl.Do(args...)
	if err != nil {
		ss.infra("i/o error on %q: %v", args, err)
		return r, false
	}
	if r.IsErr() {
		ss.infra("harness command rejected: %q -> %s", args, r.Str)
		return r, false
	}
	return r, true
}

func newSess(ctx *core.Ctx, bin string, wid int) *sess {
	ss := &sess{ctx: ctx, rng: ctx.SubRng(int64(2000 + wid)), key: "fleet", wid: wid}
	s, err := srv.Start(srv.Opts{Bin: bin, Args: []string{"--appendonly", "no"}})
	if err != nil {
		ctx.Inconclusive("server start: " + err.Error())
		ss.dead = true
		return ss
	}
	ss.s = s
	c, err := respc.Dial(s.Addr(), 5*time.Second)
	if err != nil {
		ctx.Inconclusive("dial: " + err.Error())
		ss.dead = true
		return ss
	}
	c.Timeout = 60 * time.Second
	ss.ctl = c
	if ss.sub, err = notif.Subscribe(s.Addr(), []string{"r0", "r1"}, nil); err != nil {
		ctx.Inconclusive("subscribe: " + err.Error())
		ss.dead = true
		return ss
	}
	if ss.ep, err = notif.NewEndpoint(); err != nil {
		ctx.Inconclusive("endpoint: " + err.Error())
		ss.dead = true
		return ss
	}
	ss.ep.DropRedeliveries(true)
	return ss
}

func (ss *sess) close() {
	if ss.sub != nil {
		ss.sub.Close()
	}
	if ss.ctl != nil {
		ss.ctl.Close()
	}
	if ss.s != nil {
		ss.s.Kill9()
	}
	if ss.ep != nil {
		ss.ep.Close()
	}
}

func (ss *sess) replay(extra map[string]any) map[string]any {
	l := ss.log
	if len(l) > 300 {
		l = l[len(l)-300:]
	}
	cp := make([][]string, len(l))
	copy(cp, l)
	m := map[string]any{"worker": ss.wid, "commands": cp}
	for k, v := range extra {
		m[k] = v
	}
	return m
}

func isMarkerID(id string) bool { return len(id) >= 4 && id[1:4] == mkMark }

func matchPattern(pattern, id string) bool {
	if strings.ContainsAny(pattern, "*?[") {
		return kmodel.GlobMatch(pattern, id)
	}
	return pattern == id
}

// ------------------------------------------------------------ position generator

var classes = []string{"in", "in", "corner", "corner", "edge-in", "edge-out", "far", "cluster"}

// offset returns a position at the given class relative to y.
func (ss *sess) offset(y pos, r float64, class string) pos {
	rng := ss.rng
	switch class {
	case "corner":
		// neighbour in the corner of the search rectangle: |dx|,|dy| in [0.75,0.97] r => distance 1.06..1.37 r
		dy := (0.75 + rng.Float64()*0.22) * r * float64(rng.Intn(2)*2-1)
		dx := (0.75 + rng.Float64()*0.22) * r * float64(rng.Intn(2)*2-1)
		lat := y.lat + dy/notif.EarthRadius*180/math.Pi
		lon := y.lon + dx/(notif.EarthRadius*math.Cos(y.lat*math.Pi/180))*180/math.Pi
		return pos{r7(lat), r7(lon)}
	}
	var d float64
	switch class {
	case "in", "cluster":
		d = (0.05 + rng.Float64()*0.9) * r
	case "edge-in":
		d = (0.990 + rng.Float64()*0.008) * r
	case "edge-out":
		d = (1.002 + rng.Float64()*0.008) * r
	default:
		d = (2 + rng.Float64()*4) * r
	}
	lat, lon := notif.Destination(y.lat, y.lon, d, rng.Float64()*360)
	return pos{r7(lat), r7(lon)}
}

// pick chooses a new position for id such that no pair distance lies in the don't-care band.
func (ss *sess) pick(c *cfg, id string) (pos, string, bool) {
	var others []string
	for o := range c.objs {
		if o != id {
			others = append(others, o)
		}
	}
	sort.Strings(others)
	if old, has := c.objs[id]; has && ss.rng.Intn(10) == 0 {
		// a re-SET at the identical position: old and new neighbour sets coincide
		return old, "same", true
	}
	for try := 0; try < 60; try++ {
		var p pos
		class := classes[ss.rng.Intn(len(classes))]
		if len(others) == 0 {
			p, class = c.centre, "first"
		} else {
			p = ss.offset(c.objs[others[ss.rng.Intn(len(others))]], c.r, class)
		}
		ok := true
		for _, o := range others {
			d := dist(p, c.objs[o])
			if math.Abs(d/c.r-1) < band || d < 0.01 {
				ok = false
				break
			}
		}
		if old, has := c.objs[id]; ok && has {
			// also keep the previous position's relation to everything stable (it was checked when generated)
			_ = old
		}
		if ok {
			return p, class, true
		}
	}
	return pos{}, "", false
}

// ------------------------------------------------------------ one configuration

func (ss *sess) setup(c *cfg, kinds []int) bool {
	a := []string{"NEARBY", ss.key, "FENCE"}
	if c.nodwell {
		a = append(a, "NODWELL")
	}
	a = append(a, "ROAM", ss.key, c.pattern, f7(c.r))
	c.args = a
	for _, k := range kinds {
		f := &fence{kind: k}
		switch k {
		case kChan:
			f.name = fmt.Sprintf("r%d", c.n%2)
			if _, ok := ss.do(append([]string{"SETCHAN", f.name}, a...)...); !ok {
				return false
			}
		case kHook:
			// never reused: see checks/c05 hookName (sender goroutine of a deleted
			// hook vs. a same-named successor)
			f.name = fmt.Sprintf("rh%d_%d", ss.wid, c.n)
			path := "/" + f.name
			ss.ep.Forget(path)
			f.stream = ss.ep.Stream(path)
			if _, ok := ss.do(append([]string{"SETHOOK", f.name, ss.ep.URL(path)}, a...)...); !ok {
				return false
			}
		case kLive:
			l, err := notif.OpenLive(ss.s.Addr(), ss.rng.Intn(2) == 0, a...)
			ss.log = append(ss.log, append([]string{"#live"}, a...))
			if err != nil {
				ss.infra("live fence %q: %v", a, err)
				return false
			}
			f.live, f.stream = l, l.S
		}
		c.fences = append(c.fences, f)
	}
	if c.anchorID != "" {
		if _, ok := ss.do("SET", ss.key, c.anchorID, "POINT", f7(c.anchor.lat), f7(c.anchor.lon)); !ok {
			return false
		}
		// whatever the anchor's creation caused is closed by the first move's markers
	}
	return true
}

func (ss *sess) teardown(c *cfg) {
	for _, f := range c.fences {
		switch f.kind {
		case kChan:
			if ss.rng.Intn(2) == 0 {
				ss.do("DELCHAN", f.name)
			}
		case kHook:
			ss.do("DELHOOK", f.name)
			ss.ep.Forget("/" + f.name)
		case kLive:
			f.live.Close()
		}
	}
	if !ss.dead {
		ss.ctl.Do("DROP", ss.key)
	}
}

type entry struct {
	Kind   string  `json:"kind"` // nearby / faraway
	ID     string  `json:"id"`
	Meters float64 `json:"meters"`
	lat    float64
	lon    float64
	hasObj bool
	key    string
}

// move executes one judged SET.
func (ss *sess) move(c *cfg, id string, p pos, class string) bool {
	old, hadOld := c.objs[id]
	cmd := []string{"SET", ss.key, id, "POINT", f7(p.lat), f7(p.lon)}
	if _, ok := ss.do(cmd...); !ok {
		return false
	}
	c.objs[id] = p
	// markers
	opts := notif.WaitOpts{Addr: ss.s.Addr()}
	var chans []string
	for _, f := range c.fences {
		if f.kind == kChan {
			chans = append(chans, f.name)
		}
	}
	markN := 0
	if len(chans) > 0 {
		n, err := ss.sub.Mark(ss.ctl, chans...)
		if err != nil {
			ss.infra("marker publish: %v", err)
			return false
		}
		markN = n
		ss.log = append(ss.log, []string{"PUBLISH", strings.Join(chans, "|"), notif.MarkText(n)})
		ss.ctx.Count("markers_chan", 1)
	}
	mid := ""
	for _, f := range c.fences {
		if f.kind != kChan {
			ss.mkN++
			mid = fmt.Sprintf("%s%d", c.anchorID, ss.mkN)
			lat, lon := notif.Destination(c.anchor.lat, c.anchor.lon, 0.2*c.r, 0)
			if _, ok := ss.do("SET", ss.key, mid, "POINT", f7(r7(lat)), f7(r7(lon))); !ok {
				return false
			}
			break
		}
	}
	got := map[*fence][]notif.Msg{}
	if len(chans) > 0 {
		copts := opts
		copts.Watchdog = 2 * notif.DefaultWatchdog
		res, v, why := ss.sub.Collect(markN, chans, copts)
		if v != notif.Arrived {
			ss.markerTrouble("chan", v, why)
			return false
		}
		for _, f := range c.fences {
			if f.kind == kChan {
				got[f] = res[f.name]
			}
		}
	}
	for _, f := range c.fences {
		if f.kind == kChan {
			continue
		}
		l, ok := ss.awaitObjMarker(c, f, mid, opts)
		if !ok {
			return false
		}
		ss.ctx.Count("markers_"+kindName[f.kind], 1)
		got[f] = l
	}
	if mid != "" {
		ss.do("DEL", ss.key, mid)
	}
	ss.judge(c, id, old, hadOld, p, class, cmd, got)
	return !ss.dead
}

// awaitObjMarker: see the same function in checks/c05: two watchdog periods,
// then the marker move is issued once more; a re-issued marker that arrives
// makes the run inconclusive (one-off delivery loss), one that does not arrive
// either is a violation.
func (ss *sess) awaitObjMarker(c *cfg, f *fence, mid string, opts notif.WaitOpts) ([]notif.Msg, bool) {
	var got []notif.Msg
	var v notif.Verdict
	var why string
	for attempt := 0; attempt < 2; attempt++ {
		id := mid
		pred := func(m notif.Msg) bool { return m.ID() == id }
		var part []notif.Msg
		part, v, why = f.stream.Await(pred, opts)
		got = append(got, part...)
		if v == notif.Lost {
			part, v, why = f.stream.Await(pred, opts)
			got = append(got, part...)
			ss.ctx.Count("marker_second_wait", 1)
		}
		if v == notif.Arrived {
			if attempt == 1 {
				ss.infra("marker of a %s fence was lost once; the re-issued marker arrived (delivery hiccup, not judged here)", kindName[f.kind])
				return nil, false
			}
			return got, true
		}
		if v != notif.Lost || attempt == 1 {
			break
		}
		ss.mkN++
		mid = fmt.Sprintf("%s%d", c.anchorID, ss.mkN)
		ss.ctx.Count("marker_reissued", 1)
		lat, lon := notif.Destination(c.anchor.lat, c.anchor.lon, 0.2*c.r, 0)
		if _, ok := ss.do("SET", ss.key, mid, "POINT", f7(r7(lat)), f7(r7(lon))); !ok {
			return nil, false
		}
		ss.do("DEL", ss.key, mid)
	}
	ss.markerTrouble(kindName[f.kind], v, why)
	return nil, false
}

func (ss *sess) markerTrouble(what string, v notif.Verdict, why string) {
	if v == notif.Lost {
		ss.ctx.Violation("lost-marker:"+what, "marker not delivered while the server answers PING: "+why, ss.replay(nil))
		ss.dead = true
		return
	}
	ss.infra("marker wait %s: %s", what, why)
}

func bucket(n int) string {
	if n >= 3 {
		return "3+"
	}
	return strconv.Itoa(n)
}

func (ss *sess) judge(c *cfg, id string, old pos, hadOld bool, nw pos, class string, cmd []string, got map[*fence][]notif.Msg) {
	type want struct {
		exp     string // "", nearby, faraway
		tainted bool
		inNew   bool
		inOld   bool
		matches bool
		d       float64
		label   string
	}
	wants := map[string]*want{}
	geo := map[string]int{}
	var others []string
	for o := range c.objs {
		if o != id && !isMarkerID(o) {
			others = append(others, o)
		}
	}
	sort.Strings(others)
	for _, o := range others {
		y := c.objs[o]
		w := &want{matches: matchPattern(c.pattern, o)}
		w.d = dist(nw, y)
		w.inNew = w.d <= c.r
		rectNew := inSearchRect(nw, y, c.r)
		rectOld := false
		if hadOld {
			w.inOld = dist(old, y) <= c.r
			rectOld = inSearchRect(old, y, c.r)
		}
		w.tainted = (rectNew && !w.inNew) || (rectOld && !w.inOld)
		if w.matches {
			switch {
			case w.inNew && !(c.nodwell && w.inOld):
				w.exp = "nearby"
			case w.inOld && !w.inNew:
				w.exp = "faraway"
			}
		}
		if rectNew || rectOld {
			rel := w.d / c.r
			switch {
			case w.inNew && rel > 0.985:
				w.label = "edge-in"
			case w.inNew:
				w.label = "in"
			case rel < 1.015:
				w.label = "edge-out"
			case rectNew:
				w.label = "corner"
			default:
				w.label = "gone"
			}
			switch {
			case w.inOld && w.inNew:
				w.label += ":stay"
			case w.inOld:
				w.label += ":leave"
			case hadOld && rectOld && !w.inOld:
				w.label += ":was-corner"
			}
			if !w.matches {
				w.label += ":nomatch"
			}
			geo[w.label]++
		}
		wants[o] = w
	}
	var gl []string
	for k, n := range geo {
		gl = append(gl, k+"x"+bucket(n))
	}
	sort.Strings(gl)
	geoClass := strings.Join(gl, ",")

	for _, f := range c.fences {
		ss.ctx.Eval(1)
		seen := map[string]string{}
		fail := func(key, what string, extra map[string]any) {
			if extra == nil {
				extra = map[string]any{}
			}
			extra["fence"] = c.args
			extra["fence_kind"] = kindName[f.kind]
			extra["judged"] = cmd
			extra["radius"] = c.r
			if hadOld {
				extra["previous_position"] = []float64{old.lat, old.lon}
			}
			var raws []string
			for _, m := range got[f] {
				raws = append(raws, m.Raw)
			}
			extra["got"] = raws
			ss.ctx.Violation(key, fmt.Sprintf("%s roam fence %v, %s: %s", kindName[f.kind], c.args, strings.Join(cmd, " "), what), ss.replay(extra))
		}
		for _, m := range got[f] {
			if isMarkerID(m.ID()) || strings.HasPrefix(m.Raw, "MARK:") {
				continue
			}
			if m.Str("command") != "set" {
				continue // not a SET: outside the statement
			}
			ss.ctx.Count("msgs_"+kindName[f.kind], 1)
			if m.ID() != id || m.Str("detect") != "roam" || m.Str("key") != ss.key {
				fail("roam:wrong-subject", "message about id "+m.ID()+" detect "+m.Str("detect"), nil)
				continue
			}
			if why := pointMismatch(m.J["object"], nw); why != "" {
				fail("roam:payload-object", "moved object in the message: "+why, nil)
				continue
			}
			var kind string
			var sub map[string]any
			if x, ok := m.J["nearby"].(map[string]any); ok {
				kind, sub = "nearby", x
			}
			if x, ok := m.J["faraway"].(map[string]any); ok {
				if kind != "" {
					fail("roam:both-members", "message has nearby and faraway", nil)
					continue
				}
				kind, sub = "faraway", x
			}
			if kind == "" {
				fail("roam:no-member", "set/roam message without nearby/faraway: "+m.Raw, nil)
				continue
			}
			ss.ctx.Count("entries_"+kind, 1)
			nid, _ := sub["id"].(string)
			if isMarkerID(nid) {
				continue
			}
			w := wants[nid]
			if w == nil {
				fail("roam:unknown-neighbour", kind+" entry for id "+nid+" which is not another object of the collection", nil)
				continue
			}
			if prev, dup := seen[nid]; dup {
				if !w.tainted {
					fail("roam:duplicate-entry", fmt.Sprintf("id %s reported as %s and %s", nid, prev, kind), nil)
				}
				continue
			}
			seen[nid] = kind
			// meters and neighbour payload are judged for every entry (also corner ones)
			meters, _ := sub["meters"].(float64)
			if math.Abs(meters-w.d) > 1e-6*w.d+0.001+1e-7 {
				fail("roam:meters:"+kind, fmt.Sprintf("%s %s meters %v, true distance %.6f", kind, nid, meters, w.d), nil)
			}
			if sub["key"] != ss.key {
				fail("roam:payload-neighbour-key", fmt.Sprintf("%s entry key %v", kind, sub["key"]), nil)
			}
			if why := pointMismatch(sub["object"], c.objs[nid]); why != "" {
				fail("roam:payload-neighbour-object", kind+" "+nid+": "+why, nil)
			}
		}
		nontrivial := false
		radiusHit := false
		for _, o := range others {
			w := wants[o]
			g := seen[o]
			if w.exp != "" {
				nontrivial = true
			}
			if g == w.exp {
				continue
			}
			detail := fmt.Sprintf("neighbour %s (distance now %.3f m", o, w.d)
			if hadOld {
				detail += fmt.Sprintf(", before %.3f m", dist(old, c.objs[o]))
			}
			detail += fmt.Sprintf(", radius %v, pattern match %v): expected %q, got %q", c.r, w.matches, w.exp, g)
			if w.tainted && w.matches {
				radiusHit = true
				ss.ctx.Count("radius_defect_neighbours", 1)
				if ss.radiusReported < 2 {
					ss.radiusReported++
					fail("roam:radius-not-applied", "neighbour inside the search rectangle but outside the circle is treated as near: "+detail, nil)
				}
				continue
			}
			key := "roam:" + w.exp + "-expected:got-" + g
			switch {
			case !w.matches:
				key = "roam:pattern-ignored"
			case w.exp == "nearby" && g == "":
				key = "roam:nearby-missing"
			case w.exp == "" && g == "nearby" && c.nodwell && w.inOld && w.inNew:
				key = "roam:nodwell-dwelling-reported"
			case w.exp == "" && g == "nearby":
				key = "roam:nearby-extra"
			case w.exp == "faraway":
				key = "roam:faraway-missing"
			case g == "faraway":
				key = "roam:faraway-extra"
			}
			if c.nodwell && key != "roam:nodwell-dwelling-reported" {
				key += ":nodwell"
			}
			fail(key, detail, nil)
		}
		if radiusHit {
			ss.ctx.Count("radius_defect_moves", 1)
		}
		if len(geo) > 0 {
			ss.ctx.Distinct(geoClass + "|nodwell=" + strconv.FormatBool(c.nodwell) + "|" + c.pattern)
			ss.ctx.Count("moves_with_neighbours_in_rect", 1)
		}
		_ = nontrivial
	}
	ss.ctx.Count("class_"+class, 1)
}

func pointMismatch(v any, p pos) string {
	om, ok := v.(map[string]any)
	if !ok {
		return "no object member"
	}
	cs, ok := om["coordinates"].([]any)
	if om["type"] != "Point" || !ok || len(cs) != 2 {
		return fmt.Sprintf("object %v", om)
	}
	lon, _ := cs[0].(float64)
	lat, _ := cs[1].(float64)
	if lon != p.lon || lat != p.lat {
		return fmt.Sprintf("coordinates [%v,%v] != current [%v,%v]", lon, lat, p.lon, p.lat)
	}
	return ""
}

func (ss *sess) config(n int, moves int, allKinds bool) {
	if ss.dead {
		return
	}
	ss.log = nil
	rng := ss.rng
	c := &cfg{n: n, objs: map[string]pos{}}
	c.r = math.Round(30 * math.Pow(8000.0/30, rng.Float64()))
	c.centre = pos{r7(rng.Float64()*130 - 65), r7(rng.Float64()*340 - 170)}
	c.pattern = []string{"*", "*", "a*", "a[0-4]*", "b*", "a1", "a[0-4]", "[ab]?"}[rng.Intn(8)]
	c.nodwell = rng.Intn(2) == 0
	switch c.pattern {
	case "b*":
		c.anchorID = "b" + mkMark
	case "a1", "a[0-4]", "[ab]?": // no marker id matches: channel delivery only
	default:
		c.anchorID = "a" + mkMark
	}
	c.anchor = pos{r7(c.centre.lat + 3), c.centre.lon}
	if c.centre.lat > 0 {
		c.anchor.lat = r7(c.centre.lat - 3)
	}
	kinds := []int{kChan}
	if allKinds && c.anchorID != "" {
		kinds = []int{kChan, kHook, kLive}
	} else {
		c.anchorID = ""
	}
	if !ss.setup(c, kinds) {
		return
	}
	defer ss.teardown(c)
	size := 3 + rng.Intn(38)
	ids := func(i int) string {
		if i%3 == 2 {
			return fmt.Sprintf("b%d", i/3)
		}
		return fmt.Sprintf("a%d", i-i/3)
	}
	done := 0
	for i := 0; i < size+moves && !ss.dead && ss.ctx.Violations() < 25; i++ {
		var id string
		if i < size {
			id = ids(i)
		} else {
			id = ids(rng.Intn(size))
		}
		p, class, ok := ss.pick(c, id)
		if !ok {
			ss.ctx.Count("moves_skipped_no_band_free_position", 1)
			continue
		}
		if _, had := c.objs[id]; !had {
			class = "new:" + class
		}
		if !ss.move(c, id, p, class) {
			return
		}
		done++
	}
	if n%13 == 1 && len(ss.log) > 8 {
		ss.ctx.Sample(map[string]any{"fence": c.args, "kinds": len(kinds), "objects": size, "first_commands": ss.log[:8]})
	}
	ss.ctx.Count("configurations", 1)
	ss.ctx.Count("moves", int64(done))
}

// Run is the C20 check.
func Run(ctx *core.Ctx) {
	ctx.Rule = "configurations: radius 30 m..8 km (log-uniform), centre |lat| <= 65, swarm of 3-40 point objects ids a*/b*, pattern in {*, a*, a[0-4]*, b*, exact id, class-only a[0-4], [ab]?}, NODWELL on/off, delivery = channel (always) + webhook + live (sample in quick, always in thorough, when the pattern admits a marker anchor). Every object placement and every move is one judged SET; the new position is generated relative to a random other object: inside (0.05-0.95 r), just inside (0.990-0.998 r), just outside (1.002-1.010 r), in a corner of the search rectangle (|dx|,|dy| in 0.75-0.97 r => 1.06-1.37 r), far (2-6 r); one move in ten is a re-SET at the identical position; pairs within |d/r-1| < 1.5e-3 are never generated. Oracle per neighbour: nearby/faraway/none from haversine (R=6371e3) of old and new position, NODWELL, pattern; meters within 1e-6 rel + 1 mm; neighbour and moved object payloads equal the current positions. non-trivial = a move with >= 1 other object inside the old or new search rectangle; distinct key = (multiset of neighbour geometry classes with count buckets, NODWELL, pattern, delivery kind)"
	ctx.Assumptions = []string{
		"only point objects; only SET moves (FSET/DEL on a roaming fence are outside the statement; their messages are ignored)",
		"a neighbour that is inside the search rectangle but outside the circle (now or before the move) and gets a wrong outcome is reported under roam:radius-not-applied; every other neighbour is judged strictly",
		"order of the nearby/faraway messages of one SET is not judged",
	}
	bin, err := srv.Build("plain")
	if err != nil {
		ctx.Fatal("%v", err)
	}
	crossKeyProbe(ctx, bin)
	noPositionProbe(ctx, bin)
	nCfg := ctx.Pick(144, 6000)
	moves := ctx.Pick(30, 100)
	workers := ctx.Pick(8, 12)
	var wg sync.WaitGroup
	for w := 0; w < workers; w++ {
		wg.Add(1)
		go func(w int) {
			defer wg.Done()
			ss := newSess(ctx, bin, w)
			defer ss.close()
			for n := w; n < nCfg && !ss.dead && ctx.Violations() < 25; n += workers {
				ss.config(n, moves, ctx.Thorough() || n%3 == 0)
			}
			if ss.ep != nil {
				ctx.Count("webhook_redeliveries_suppressed", ss.ep.Redelivered())
			}
		}(w)
	}
	wg.Wait()
	ctx.Finish()
}

// crossKeyProbe: a ROAM fence whose neighbours live in another collection. An
// object there that happens to carry the id of the moved object is another
// object and is reported like any other; and a radius that reaches a pole to
// the last bit still finds its neighbours.
func crossKeyProbe(ctx *core.Ctx, bin string) {
	s, err := srv.Start(srv.Opts{Bin: bin})
	if err != nil {
		ctx.Inconclusive("cross-key probe: " + err.Error())
		return
	}
	defer s.Kill9()
	c, err := respc.Dial(s.Addr(), 5*time.Second)
	if err != nil {
		ctx.Inconclusive("cross-key probe: " + err.Error())
		return
	}
	defer c.Close()
	c.Timeout = 10 * time.Second
	type tcase struct {
		name     string
		others   [][3]string // id, lat, lon in the roam collection
		radius   string
		move     [3]string // id, lat, lon in the fenced collection
		expected []string
		raw      [][]string // further neighbours: object part of SET <roam collection> <id> ..., id first
		rawWant  []string   // ids among raw that are within the radius under any reading of "distance"
	}
	cases := []tcase{
		{"same-id-in-other-collection", [][3]string{{"a", "33", "-115"}, {"b", "33.001", "-115"}}, "1000", [3]string{"a", "33", "-115.001"}, []string{"a", "b"}, nil, nil},
		{"radius-reaches-pole", [][3]string{{"n1", "6", "10"}, {"n2", "-40", "60"}}, "9451568.764787493", [3]string{"m", "5", "10"}, []string{"n1", "n2"}, nil, nil},
		{"radius-reaches-pole-2", [][3]string{{"n1", "46", "10"}, {"n2", "10", "60"}}, "5003771.699005143", [3]string{"m", "45", "10"}, []string{"n1", "n2"}, nil, nil},
		// neighbours that are extended objects much larger than the radius, the moved point well inside them and 111 m from their centre
		{"extended-neighbours", [][3]string{{"p", "33.0005", "-115"}}, "1000", [3]string{"m", "33.001", "-115"}, []string{"p"},
			[][]string{{"rect", "BOUNDS", "32", "-116", "34", "-114"}, {"poly", "OBJECT", `{"type":"Polygon","coordinates":[[[-117,31],[-113,31],[-113,35],[-117,35],[-117,31]]]}`},
				{"line", "OBJECT", `{"type":"LineString","coordinates":[[-118,33],[-112,33]]}`}, {"farrect", "BOUNDS", "40", "-100", "42", "-98"}}, []string{"rect", "poly", "line"}},
		// "at most the radius": co-located objects and a radius of zero
		{"radius-zero-colocated", [][3]string{{"same", "10", "20"}, {"other", "10.01", "20"}}, "0", [3]string{"m", "10", "20"}, []string{"same"}, nil, []string{"same"}},
	}
	for i, tc := range cases {
		fkey, okey, ch := fmt.Sprintf("xf%d", i), fmt.Sprintf("xo%d", i), fmt.Sprintf("xch%d", i)
		for _, o := range tc.others {
			c.Do("SET", okey, o[0], "POINT", o[1], o[2])
		}
		for _, o := range tc.raw {
			c.Do(append([]string{"SET", okey, o[0]}, o[1:]...)...)
		}
		if r, err := c.Do("SETCHAN", ch, "NEARBY", fkey, "FENCE", "ROAM", okey, "*", tc.radius); err != nil || r.IsErr() {
			ctx.Inconclusive("cross-key probe: SETCHAN failed")
			return
		}
		sub, err := respc.Dial(s.Addr(), 5*time.Second)
		if err != nil {
			ctx.Inconclusive("cross-key probe: " + err.Error())
			return
		}
		sub.Send("SUBSCRIBE", ch)
		sub.RecvTimeout(5 * time.Second)
		c.Do("SET", fkey, tc.move[0], "POINT", tc.move[1], tc.move[2])
		got := map[string]bool{}
		for {
			rp, err := sub.RecvTimeout(1500 * time.Millisecond)
			if err != nil {
				break
			}
			if rp.Kind == '*' && len(rp.Arr) == 3 {
				txt := rp.Arr[2].Str
				if k := strings.Index(txt, `"nearby":{`); k >= 0 {
					sub2 := txt[k:]
					if j := strings.Index(sub2, `"id":"`); j >= 0 {
						id := sub2[j+6:]
						got[id[:strings.IndexByte(id, '"')]] = true
					}
				}
			}
		}
		sub.Close()
		ctx.Eval(1)
		ctx.Count("cross_key_probes", 1)
		ctx.Distinct("cross-key|" + tc.name)
		var missing []string
		mlat, _ := strconv.ParseFloat(tc.move[1], 64)
		mlon, _ := strconv.ParseFloat(tc.move[2], 64)
		rad, _ := strconv.ParseFloat(tc.radius, 64)
		for _, o := range tc.others {
			la, _ := strconv.ParseFloat(o[1], 64)
			lo, _ := strconv.ParseFloat(o[2], 64)
			// expected by haversine, with the usual don't-care band around the radius
			if d := notif.Haversine(mlat, mlon, la, lo); d < rad*(1-band) && !got[o[0]] {
				missing = append(missing, o[0])
			}
		}
		for _, id := range tc.rawWant {
			if !got[id] {
				missing = append(missing, id)
			}
		}
		if got["farrect"] || got["other"] {
			ctx.Violation("roam:nearby-extra:"+tc.name, fmt.Sprintf("fence [NEARBY %s FENCE ROAM %s * %s], `SET %s %s POINT %s %s`: a nearby entry for an object far outside the radius (received for %v)", fkey, okey, tc.radius, fkey, tc.move[0], tc.move[1], tc.move[2], keysOf(got)), map[string]any{"case": tc.name})
			return
		}
		if len(missing) > 0 {
			ctx.Violation("roam:nearby-missing:"+tc.name, fmt.Sprintf("fence [NEARBY %s FENCE ROAM %s * %s], neighbours %v, `SET %s %s POINT %s %s`: no `nearby` entry for %v (received for %v); all of them are within the radius by haversine", fkey, okey, tc.radius, tc.others, fkey, tc.move[0], tc.move[1], tc.move[2], missing, keysOf(got)),
				map[string]any{"case": tc.name, "missing": missing})
			return
		}
	}
}

func keysOf(m map[string]bool) []string {
	var out []string
	for k := range m {
		out = append(out, k)
	}
	sort.Strings(out)
	return out
}

// noPositionProbe: the fenced id held a value without a position (a STRING, an
// empty geometry collection) before the SET. Nothing was within the radius of
// "its previous position", so no faraway entry may be reported - in particular
// not for neighbours that happen to sit near latitude 0, longitude 0.
func noPositionProbe(ctx *core.Ctx, bin string) {
	s, err := srv.Start(srv.Opts{Bin: bin})
	if err != nil {
		ctx.Inconclusive("no-position probe: " + err.Error())
		return
	}
	defer s.Kill9()
	c, err := respc.Dial(s.Addr(), 5*time.Second)
	if err != nil {
		ctx.Inconclusive("no-position probe: " + err.Error())
		return
	}
	defer c.Close()
	c.Timeout = 10 * time.Second
	for i, prev := range [][]string{{"STRING", "hello"}, {"OBJECT", `{"type":"GeometryCollection","geometries":[]}`}, {"OBJECT", `{"type":"MultiPoint","coordinates":[]}`}} {
		key, ch := fmt.Sprintf("np%d", i), fmt.Sprintf("npch%d", i)
		c.Do("SET", key, "b", "POINT", "0.0001", "0.0001")
		c.Do("SET", key, "far", "POINT", "50.001", "50")
		if r, err := c.Do("SETCHAN", ch, "NEARBY", key, "FENCE", "ROAM", key, "*", "1000"); err != nil || r.IsErr() {
			ctx.Inconclusive("no-position probe: SETCHAN failed")
			return
		}
		if r, err := c.Do(append([]string{"SET", key, "a"}, prev...)...); err != nil || r.IsErr() {
			ctx.Count("no_position_predecessor_refused", 1)
			continue
		}
		sub, err := respc.Dial(s.Addr(), 5*time.Second)
		if err != nil {
			ctx.Inconclusive("no-position probe: " + err.Error())
			return
		}
		sub.Send("SUBSCRIBE", ch)
		sub.RecvTimeout(5 * time.Second)
		c.Do("SET", key, "a", "POINT", "50", "50")
		var msgs []string
		for {
			rp, err := sub.RecvTimeout(1200 * time.Millisecond)
			if err != nil {
				break
			}
			if rp.Kind == '*' && len(rp.Arr) == 3 {
				msgs = append(msgs, rp.Arr[2].Str)
			}
		}
		sub.Close()
		ctx.Eval(1)
		ctx.Distinct("no-position|" + prev[0] + strconv.Itoa(i))
		sawNear := false
		for _, m := range msgs {
			if strings.Contains(m, `"faraway":{`) {
				ctx.Violation("roam:faraway-extra:no-previous-position", fmt.Sprintf("fence [NEARBY %s FENCE ROAM %s * 1000]; `SET %s a %s` (no position), then `SET %s a POINT 50 50`: a faraway entry is reported although a was nowhere before: %s", key, key, key, strings.Join(prev, " "), key, m),
					map[string]any{"predecessor": prev, "message": m})
				return
			}
			if strings.Contains(m, `"nearby":{`) && strings.Contains(m, `"id":"far"`) {
				sawNear = true
			}
		}
		if !sawNear {
			ctx.Violation("roam:nearby-missing:no-previous-position", fmt.Sprintf("fence [NEARBY %s FENCE ROAM %s * 1000]; `SET %s a %s`, then `SET %s a POINT 50 50`: no nearby entry for far (111 m away); received %v", key, key, key, strings.Join(prev, " "), key, msgs), nil)
			return
		}
	}
}
