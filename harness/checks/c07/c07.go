// Package c07: concurrent clients see one serial order, and it is the order in
// the log. DESIGN.md section 4, C07.
package c07

import (
	"container/heap"
	"fmt"
	"os"
	"path/filepath"
	"regexp"
	"sort"
	"strconv"
	"strings"
	"sync"
	"time"

	"github.com/anishathalye/porcupine"

	"verifharness/aoflog"
	"verifharness/core"
	"verifharness/kmodel"
	"verifharness/probes"
	"verifharness/respc"
	"verifharness/srv"
)

type op struct {
	Client   int      `json:"client"`
	Seq      int      `json:"seq"`
	Args     []string `json:"args"`
	Call     int64    `json:"call"`
	Ret      int64    `json:"ret"`
	Reply    string   `json:"reply"`
	reply    respc.Reply
	hasReply bool
	token    string
	pos      int // 1-based log position, 0 = not logged
}

// casing encodes a writer client id (0..7) in the case of the first three
// letters of the command word; the log preserves the word verbatim.
func casing(word string, client int) string {
	b := []byte(strings.ToUpper(word))
	for i := 0; i < 3 && i < len(b); i++ {
		if client&(1<<i) != 0 {
			b[i] = b[i] + 32
		}
	}
	return string(b)
}

func decodeCasing(word string) int {
	c := 0
	for i := 0; i < 3 && i < len(word); i++ {
		if word[i] >= 'a' && word[i] <= 'z' {
			c |= 1 << i
		}
	}
	return c
}

func isWriteWord(w string) bool {
	switch strings.ToLower(w) {
	case "set", "fset", "del", "pdel", "drop", "rename", "renamenx", "flushdb", "expire", "persist", "jset", "jdel":
		return true
	}
	return false
}

// changedByReply: does the reply say the command changed state (and hence must be logged)?
func changedByReply(args []string, r respc.Reply) bool {
	switch strings.ToLower(args[0]) {
	case "set", "jset", "flushdb":
		return r.Kind == '+'
	case "rename":
		return r.Kind == '+'
	case "fset", "del", "pdel", "drop", "renamenx", "expire", "persist":
		return r.Kind == ':' && r.Int > 0
	case "jdel":
		return (r.Kind == ':' && r.Int > 0) || r.Kind == '+'
	}
	return false
}

type histOpts struct {
	writers, readers int
	opsPerClient     int
	spinlock         bool
	gomaxprocs       int
	lives            int
	expiry           bool
	race             bool
	storm            bool // expiry storm: every client alternates SET EX 1ms / SET without EX on private ids
	mass             bool // mass expiry: massN objects per client with one deadline, then PERSISTs around it
	caseNo           int
}

type history struct {
	logMalformed string
	ops          []*op
	entries      []aoflog.Entry
	dir          string
	stderr       string
	crashed      string
}

const massN = 1500

var tokRe = regexp.MustCompile(`^T(\d+)x(\d+)$`)

// genFor builds the per-client command generator.
func nextCmd(g *kmodel.Gen, client int, writer bool, seq int, expiry bool) ([]string, string) {
	for {
		cmd := g.Next()
		w := strings.ToLower(cmd[0])
		tok := ""
		switch w {
		case "set":
			tok = fmt.Sprintf("T%dx%d", client, seq)
			// g.Token inserted FIELD tok <x> right after the id: replace the value
			for i := 3; i+2 < len(cmd); i++ {
				if strings.ToLower(cmd[i]) == "field" && cmd[i+1] == "tok" {
					cmd[i+2] = tok
				}
			}
			if len(cmd) > 6 && g.R.Intn(2) == 0 {
				// a numeric field for the WHERE reads
				cmd = append(append(append([]string{}, cmd[:6]...), "FIELD", "n", strconv.Itoa(g.R.Intn(6))), cmd[6:]...)
			}
			if expiry && g.R.Intn(5) == 0 {
				// objects that expire soon, are re-SET without a deadline, persisted or
				// re-armed while the background sweeper runs
				id := "e" + strconv.Itoa(g.R.Intn(3))
				switch g.R.Intn(5) {
				case 0, 1:
					cmd = []string{"SET", "xp", id, "FIELD", "tok", tok, "EX", "0.0" + strconv.Itoa(1+g.R.Intn(9)), "POINT", "1", "1"}
				case 2:
					cmd = []string{"SET", "xp", id, "FIELD", "tok", tok, "POINT", "2", "2"}
				case 3:
					if !writer {
						return []string{"GET", "xp", id}, ""
					}
					return []string{casing("PERSIST", client), "xp", id}, ""
				default:
					if !writer {
						return []string{"GET", "xp", id, "WITHFIELDS"}, ""
					}
					return []string{casing("EXPIRE", client), "xp", id, "0.0" + strconv.Itoa(1+g.R.Intn(9))}, ""
				}
			}
		case "fset":
			tok = fmt.Sprintf("T%dx%d", client, seq)
			cmd = append(cmd, "tok", tok, "n", strconv.Itoa(g.R.Intn(6)))
		case "scan":
			// reads through the WHERE evaluators (field range and expression forms)
			if len(cmd) == 2 || (len(cmd) == 3 && (cmd[2] == "IDS" || cmd[2] == "COUNT")) {
				switch g.R.Intn(4) {
				case 0:
					cmd = append([]string{"SCAN", cmd[1], "WHERE", "n", strconv.Itoa(g.R.Intn(3)), strconv.Itoa(3 + g.R.Intn(3))}, cmd[2:]...)
				case 1:
					cmd = append([]string{"SCAN", cmd[1], "WHERE", "n " + []string{">", ">=", "<", "<=", "==", "!="}[g.R.Intn(6)] + " " + strconv.Itoa(g.R.Intn(6))}, cmd[2:]...)
				}
			}
		case "jset":
			if strings.HasPrefix(cmd[3], "coordinates") {
				continue
			}
			// JSON documents live on dedicated ids that SET never targets, so
			// that the model covers every JSET/JDEL/JGET of the alphabet
			tok = fmt.Sprintf("T%dx%d", client, seq)
			cmd = []string{"JSET", cmd[1], "j" + strconv.Itoa(g.R.Intn(2)), cmd[3], tok}
		case "jget":
			cmd[2] = "j" + strconv.Itoa(g.R.Intn(2))
			if len(cmd) > 3 && cmd[3] == "type" {
				cmd[3] = "p"
			}
		case "jdel":
			if !writer || cmd[3] == "coordinates.2" {
				continue
			}
			cmd[2] = "j" + strconv.Itoa(g.R.Intn(2))
			cmd[0] = casing(cmd[0], client)
			return cmd, ""
		case "del", "pdel", "drop", "rename", "renamenx", "flushdb", "expire", "persist":
			if !writer {
				continue
			}
			if w == "flushdb" && g.R.Intn(4) != 0 {
				continue
			}
			cmd[0] = casing(cmd[0], client)
			return cmd, ""
		case "keys":
			cmd = []string{"KEYS", "k*"}
		}
		return cmd, tok
	}
}

func runHistory(ctx *core.Ctx, bin string, o histOpts) (*history, error) {
	var args []string
	if o.spinlock {
		args = append(args, "--spinlock")
	}
	var env []string
	if o.gomaxprocs > 0 {
		env = append(env, "GOMAXPROCS="+strconv.Itoa(o.gomaxprocs))
	}
	dir := srv.NewDir()
	if o.race {
		env = append(env, "GORACE=halt_on_error=0 log_path="+filepath.Join(dir, "race"))
	}
	s, err := srv.Start(srv.Opts{Bin: bin, Args: args, Env: env, Dir: dir, ReadyTimeout: 120 * time.Second})
	if err != nil {
		return nil, err
	}
	defer s.Kill9()
	h := &history{dir: dir}
	start := time.Now()
	now := func() int64 { return int64(time.Since(start)) }
	var mu sync.Mutex
	var wg sync.WaitGroup
	stopLives := make(chan struct{})
	// live fences and a subscriber on the same keys (drained, not judged here)
	for l := 0; l < o.lives; l++ {
		wg.Add(1)
		go func(l int) {
			defer wg.Done()
			c, err := respc.Dial(s.Addr(), 5*time.Second)
			if err != nil {
				return
			}
			defer c.Close()
			key := []string{"k1", "k2", "kx"}[l%3]
			if l%2 == 0 {
				c.Send("NEARBY", key, "FENCE", "POINT", "0", "0", "20000000")
			} else {
				c.Send("WITHIN", key, "FENCE", "DETECT", "enter,exit,inside", "BOUNDS", "-90", "-180", "90", "180")
			}
			for {
				select {
				case <-stopLives:
					return
				default:
				}
				if _, err := c.RecvTimeout(200 * time.Millisecond); err != nil && !respc.IsTimeout(err) {
					return
				}
			}
		}(l)
	}
	if o.lives > 0 {
		time.Sleep(30 * time.Millisecond)
	}
	var cwg sync.WaitGroup
	nclients := o.writers + o.readers
	for ci := 0; ci < nclients; ci++ {
		cwg.Add(1)
		go func(ci int) {
			defer cwg.Done()
			r := ctx.SubRng(int64(o.caseNo)*1000 + int64(ci) + 31)
			g := kmodel.DefaultGen(r)
			g.Token = func() string { return "x" }
			writer := ci < o.writers
			c, err := respc.Dial(s.Addr(), 5*time.Second)
			if err != nil {
				return
			}
			defer c.Close()
			c.Timeout = 30 * time.Second
			for i := 0; i < o.opsPerClient; i++ {
				cmd, tok := nextCmd(g, ci, writer, i, o.expiry)
				if o.mass {
					if i < massN {
						tok = fmt.Sprintf("T%dx%d", ci, i)
						cmd = []string{"SET", "xp", fmt.Sprintf("m%d_%d", ci, i), "FIELD", "tok", tok, "EX", "0.7", "POINT", "1", "1"}
					} else {
						if i == massN {
							if d := 680*time.Millisecond - time.Since(start); d > 0 {
								time.Sleep(d)
							}
						}
						tok = ""
						cmd = []string{casing("PERSIST", ci), "xp", fmt.Sprintf("m%d_%d", r.Intn(o.writers), r.Intn(massN))}
					}
				}
				if o.storm {
					tok = fmt.Sprintf("T%dx%d", ci, i)
					id := fmt.Sprintf("s%d_%d", ci, (i/2)%40)
					if i%2 == 0 {
						cmd = []string{"SET", "xp", id, "FIELD", "tok", tok, "EX", "0.001", "POINT", "1", "1"}
					} else {
						cmd = []string{"SET", "xp", id, "FIELD", "tok", tok, "POINT", "2", "2"}
					}
				}
				p := &op{Client: ci, Seq: i, Args: cmd, token: tok}
				p.Call = now()
				rep, err := c.Do(cmd...)
				p.Ret = now()
				if err == nil {
					p.reply = rep
					p.hasReply = true
					p.Reply = rep.String()
				}
				mu.Lock()
				h.ops = append(h.ops, p)
				mu.Unlock()
				if err != nil {
					return
				}
			}
		}(ci)
	}
	cwg.Wait()
	close(stopLives)
	wg.Wait()
	if !s.Alive() {
		_, site := s.Crashed()
		h.crashed = site
		h.stderr = s.StderrTail(6000)
		return h, nil
	}
	if o.expiry {
		time.Sleep(250 * time.Millisecond)
	}
	// final flush: a clean stop flushes the buffer
	s.Term(20 * time.Second)
	b, err := os.ReadFile(s.AOFPath())
	if err != nil {
		return nil, err
	}
	entries, boundary, ok := aoflog.Parse(b)
	if !ok || boundary != len(b) {
		// after a clean stop the log must be a sequence of whole commands; anything
		// else means two writers interleaved their bytes
		lo := max(0, boundary-60)
		hi := min(len(b), boundary+120)
		h.logMalformed = fmt.Sprintf("appendonly.aof is not a sequence of whole commands after a clean stop (parses up to byte %d of %d): ...%q...", boundary, len(b), b[lo:hi])
		h.stderr = s.StderrTail(2000)
		return h, nil
	}
	h.entries = entries
	h.stderr = s.StderrTail(2000)
	return h, nil
}

type retHeap []*assigned
type assigned struct {
	ret int64
	pos int
}

func (h retHeap) Len() int            { return len(h) }
func (h retHeap) Less(i, j int) bool  { return h[i].ret < h[j].ret }
func (h retHeap) Swap(i, j int)       { h[i], h[j] = h[j], h[i] }
func (h *retHeap) Push(x interface{}) { *h = append(*h, x.(*assigned)) }
func (h *retHeap) Pop() interface{} {
	old := *h
	n := len(old)
	x := old[n-1]
	*h = old[:n-1]
	return x
}

func entryToken(e aoflog.Entry) string {
	a := e.Args
	switch strings.ToLower(a[0]) {
	case "set":
		for i := 3; i+2 < len(a); i++ {
			if strings.ToLower(a[i]) == "field" && a[i+1] == "tok" {
				return a[i+2]
			}
		}
	case "fset":
		for i := 3; i+1 < len(a); i++ {
			if a[i] == "tok" {
				return a[i+1]
			}
		}
	case "jset":
		if len(a) >= 5 && tokRe.MatchString(a[4]) {
			return a[4]
		}
	}
	return ""
}

func sameArgs(a, b []string) bool {
	if len(a) != len(b) {
		return false
	}
	for i := range a {
		if a[i] != b[i] {
			return false
		}
	}
	return true
}

type verdict struct {
	key, what string
	detail    map[string]any
}

// checkLogOrder is the linear-time checker of DESIGN.md C07.
func checkLogOrder(h *history, writers int, stats map[string]int64) *verdict {
	if h.logMalformed != "" {
		return &verdict{"log-malformed", h.logMalformed, nil}
	}
	ops := h.ops
	byTok := map[string]*op{}
	perClient := map[int][]*op{} // tokenless write ops per writer client, issue order
	sort.Slice(ops, func(i, j int) bool {
		if ops[i].Client != ops[j].Client {
			return ops[i].Client < ops[j].Client
		}
		return ops[i].Seq < ops[j].Seq
	})
	for _, p := range ops {
		if p.token != "" {
			byTok[p.token] = p
		} else if isWriteWord(p.Args[0]) {
			perClient[p.Client] = append(perClient[p.Client], p)
		}
	}
	mk := func(key, what string, extra map[string]any) *verdict {
		return &verdict{key, what, extra}
	}
	// 1. match entries to ops
	entryOp := make([]*op, len(h.entries)+1)
	sweeper := map[int]bool{}
	perClientEntries := map[int][]int{}
	for i, e := range h.entries {
		pos := i + 1
		if tok := entryToken(e); tok != "" && tokRe.MatchString(tok) {
			p := byTok[tok]
			if p == nil {
				return mk("log-entry-unknown-token", fmt.Sprintf("log entry %d %q carries a token no client sent", pos, e.Args), nil)
			}
			if p.pos != 0 {
				return mk("log-entry-duplicate", fmt.Sprintf("command %q is in the log twice (positions %d and %d)", e.Args, p.pos, pos), nil)
			}
			if !sameArgs(p.Args, e.Args) {
				return mk("log-entry-altered", fmt.Sprintf("log entry %d %q differs from the command sent %q", pos, e.Args, p.Args), nil)
			}
			p.pos = pos
			entryOp[pos] = p
			continue
		}
		w := strings.ToLower(e.Args[0])
		if w == "del" && e.Args[0] == "del" && len(e.Args) == 3 && e.Args[1] == "xp" {
			stats["sweeper_entries"]++
			sweeper[pos] = true
			continue // the sweeper's delete of an expired object
		}
		if !isWriteWord(w) {
			return mk("log-entry-not-a-write", fmt.Sprintf("log entry %d %q is not a data-modifying command", pos, e.Args), nil)
		}
		c := decodeCasing(e.Args[0])
		if c >= writers {
			return mk("log-entry-unattributable", fmt.Sprintf("log entry %d %q was sent by no client", pos, e.Args), nil)
		}
		perClientEntries[c] = append(perClientEntries[c], pos)
	}
	for c := 0; c < writers; c++ {
		es := perClientEntries[c]
		j := 0
		for _, p := range perClient[c] {
			if !p.hasReply {
				if j < len(es) && sameArgs(h.entries[es[j]-1].Args, p.Args) {
					p.pos = es[j]
					entryOp[es[j]] = p
					j++
				}
				continue
			}
			if changedByReply(p.Args, p.reply) {
				if j >= len(es) || !sameArgs(h.entries[es[j]-1].Args, p.Args) {
					nxt := "none"
					if j < len(es) {
						nxt = fmt.Sprint(h.entries[es[j]-1].Args)
					}
					return mk("acked-change-not-logged:"+strings.ToLower(p.Args[0]), fmt.Sprintf("client %d: %q was answered %s (state changed) but the log has no matching entry at this client's next position (next entry of this client: %s)", c, p.Args, p.Reply, nxt), map[string]any{"op": p})
				}
				p.pos = es[j]
				entryOp[es[j]] = p
				j++
			}
		}
		if j < len(es) {
			return mk("logged-but-answered-unchanged:"+strings.ToLower(h.entries[es[j]-1].Args[0]), fmt.Sprintf("log entry %d %q of client %d matches no command that was answered as having changed state", es[j], h.entries[es[j]-1].Args, c), nil)
		}
	}
	for tok, p := range byTok {
		if p.hasReply && isWriteWord(p.Args[0]) {
			ch := changedByReply(p.Args, p.reply)
			if ch && p.pos == 0 {
				return mk("acked-change-not-logged:"+strings.ToLower(p.Args[0]), fmt.Sprintf("%q (token %s) was answered %s but is not in the log", p.Args, tok, p.Reply), map[string]any{"op": p})
			}
			if !ch && p.pos != 0 {
				return mk("logged-but-answered-unchanged:"+strings.ToLower(p.Args[0]), fmt.Sprintf("%q was answered %s (no change) but is in the log at %d", p.Args, p.Reply, p.pos), map[string]any{"op": p})
			}
		}
	}
	// (windows of the reads and no-op writes: they depend on the matching only)
	type wr struct {
		t   int64
		pos int
	}
	var byRet, byCall []wr
	for pos := 1; pos <= len(h.entries); pos++ {
		if p := entryOp[pos]; p != nil {
			if p.hasReply {
				byRet = append(byRet, wr{p.Ret, pos})
			}
			byCall = append(byCall, wr{p.Call, pos})
		}
	}
	sort.Slice(byRet, func(i, j int) bool { return byRet[i].t < byRet[j].t })
	sort.Slice(byCall, func(i, j int) bool { return byCall[i].t < byCall[j].t })
	prefMax := func(a []wr) []int {
		out := make([]int, len(a))
		mx := 0
		for i, x := range a {
			if x.pos > mx {
				mx = x.pos
			}
			out[i] = mx
		}
		return out
	}
	retMax, callMax := prefMax(byRet), prefMax(byCall)
	var reads []*op
	for _, p := range ops {
		if p.pos == 0 && p.hasReply {
			reads = append(reads, p)
		}
	}
	sort.Slice(reads, func(i, j int) bool { return reads[i].Call < reads[j].Call })
	window := func(p *op) (int, int) {
		lo := 0
		if i := sort.Search(len(byRet), func(i int) bool { return byRet[i].t >= p.Call }); i > 0 {
			lo = retMax[i-1]
		}
		hi := 0
		if i := sort.Search(len(byCall), func(i int) bool { return byCall[i].t > p.Ret }); i > 0 {
			hi = callMax[i-1]
		}
		// unmatched entries (sweeper) directly after hi may also have been applied
		for hi < len(h.entries) && entryOp[hi+1] == nil {
			hi++
		}
		if hi < lo {
			hi = lo
		}
		return lo, hi
	}
	// model snapshots are only kept at the log positions some read may be placed at
	need := make([]bool, len(h.entries)+1)
	for _, p := range reads {
		lo, hi := window(p)
		for i := lo; i <= hi; i++ {
			need[i] = true
		}
	}
	// 2. replay in log order; matched op's reply must equal the model's
	m := kmodel.New()
	states := make([]*kmodel.Model, len(h.entries)+1)
	if need[0] {
		states[0] = m.Clone()
	}
	for i, e := range h.entries {
		pos := i + 1
		if sweeper[pos] {
			// the background sweeper may only delete an object that has a deadline at
			// this point of the serial order
			o := m.Cols[e.Args[1]][e.Args[2]]
			if o == nil || !o.HasEx {
				state := "absent"
				if o != nil {
					state = "present without a deadline"
				}
				return mk("sweeper-deletes-object-without-deadline", fmt.Sprintf("log position %d: the expiry sweeper logged %q but, replaying the log, the object is %s at that point (a deadline was removed or the object re-SET without EX before)", pos, e.Args, state), map[string]any{"log_tail": tailEntries(h.entries, pos, 10)})
			}
		}
		exp, known := m.Apply(e.Args)
		if !known {
			return mk("harness:model-unknown", fmt.Sprintf("model does not cover logged command %q", e.Args), nil)
		}
		if p := entryOp[pos]; p != nil && p.hasReply {
			if ok, why := m.Match(exp, p.reply); !ok {
				return mk("reply-not-explained-by-log-order:"+strings.ToLower(e.Args[0]), fmt.Sprintf("client %d %q at log position %d: %s (replaying the log in file order through the sequential model)", p.Client, p.Args, pos, why), map[string]any{"op": p, "log_tail": tailEntries(h.entries, pos, 12)})
			}
			stats["write_replies_checked"]++
		}
		if need[pos] {
			states[pos] = m.Clone()
		}
	}
	// 3. real time for writes: if a returned before b was called then pos(a) < pos(b)
	var maxCall int64 = -1
	var maxCallOp *op
	for pos := 1; pos <= len(h.entries); pos++ {
		p := entryOp[pos]
		if p == nil {
			continue
		}
		if p.hasReply && maxCallOp != nil && p.Ret < maxCall {
			return mk("log-order-contradicts-real-time", fmt.Sprintf("%q (client %d) returned at %d ns, before %q (client %d) was called at %d ns, yet it is later in the log (%d > %d)", p.Args, p.Client, p.Ret, maxCallOp.Args, maxCallOp.Client, maxCallOp.Call, p.pos, maxCallOp.pos), map[string]any{"a": p, "b": maxCallOp})
		}
		if p.Call > maxCall {
			maxCall = p.Call
			maxCallOp = p
		}
	}
	// 4. reads and no-op writes
	hp := &retHeap{}
	floor := 0
	for _, p := range reads {
		for hp.Len() > 0 && (*hp)[0].ret < p.Call {
			a := heap.Pop(hp).(*assigned)
			if a.pos > floor {
				floor = a.pos
			}
		}
		lo, hi := window(p)
		from := lo
		if floor > from {
			from = floor
		}
		found := -1
		var firstWhy string
		for i := from; i <= hi; i++ {
			mm := states[i].Clone()
			exp, known := mm.Apply(p.Args)
			if !known {
				found = i
				break
			}
			ok, why := mm.Match(exp, p.reply)
			if ok {
				found = i
				break
			}
			if firstWhy == "" {
				firstWhy = why
			}
		}
		stats["reads_checked"]++
		if hi > from {
			stats["reads_with_window_gt1"]++
		}
		if found < 0 {
			kind := "read"
			if isWriteWord(p.Args[0]) {
				kind = "noop-write"
			}
			return mk("reply-matches-no-instant:"+kind+":"+strings.ToLower(p.Args[0]), fmt.Sprintf("client %d %q answered %s: the sequential model gives this reply at no log position in its window [%d,%d] (monotonic floor %d); at %d: %s", p.Client, p.Args, p.Reply, lo, hi, floor, from, firstWhy), map[string]any{"op": p, "log_window": tailEntries(h.entries, hi, hi-lo+6)})
		}
		heap.Push(hp, &assigned{p.Ret, found})
	}
	return nil
}

func tailEntries(es []aoflog.Entry, upto, n int) [][]string {
	var out [][]string
	for i := max(0, upto-n); i < upto && i < len(es); i++ {
		out = append(out, es[i].Args)
	}
	return out
}

// overlapStats measures the concurrency actually observed.
func overlapStats(h *history) (pairs int64, kinds map[string]bool) {
	kinds = map[string]bool{}
	ops := append([]*op(nil), h.ops...)
	sort.Slice(ops, func(i, j int) bool { return ops[i].Call < ops[j].Call })
	for i, a := range ops {
		for j := i + 1; j < len(ops) && ops[j].Call <= a.Ret; j++ {
			b := ops[j]
			if a.Client == b.Client {
				continue
			}
			pairs++
			ka, kb := strings.ToLower(a.Args[0]), strings.ToLower(b.Args[0])
			if ka > kb {
				ka, kb = kb, ka
			}
			if len(a.Args) > 1 && len(b.Args) > 1 && a.Args[1] == b.Args[1] {
				kinds[ka+"+"+kb] = true
			}
		}
	}
	return
}

// porcupineCheck checks a short history with the script-free model.
func porcupineCheck(h *history) (porcupine.CheckResult, string) {
	model := porcupine.Model{
		Init: func() interface{} { return kmodel.New() },
		Step: func(state, input, output interface{}) (bool, interface{}) {
			m := state.(*kmodel.Model).Clone()
			p := input.(*op)
			exp, known := m.Apply(p.Args)
			if !known {
				return true, m
			}
			out := output.(*op)
			if !out.hasReply {
				return true, m
			}
			ok, _ := m.Match(exp, out.reply)
			return ok, m
		},
		Equal: func(a, b interface{}) bool { return a.(*kmodel.Model).Key() == b.(*kmodel.Model).Key() },
		DescribeOperation: func(in, out interface{}) string {
			return fmt.Sprintf("%q -> %s", in.(*op).Args, out.(*op).Reply)
		},
	}
	var pops []porcupine.Operation
	var maxT int64
	for _, p := range h.ops {
		if p.Ret > maxT {
			maxT = p.Ret
		}
	}
	for _, p := range h.ops {
		ret := p.Ret
		if !p.hasReply {
			ret = maxT + 1
		}
		pops = append(pops, porcupine.Operation{ClientId: p.Client, Input: p, Call: p.Call, Output: p, Return: ret})
	}
	res, info := porcupine.CheckOperationsVerbose(model, pops, 20*time.Second)
	desc := ""
	if res == porcupine.Illegal {
		// describe the partial linearization
		pl := info.PartialLinearizations()
		if len(pl) > 0 && len(pl[0]) > 0 {
			longest := pl[0][0]
			for _, l := range pl[0] {
				if len(l) > len(longest) {
					longest = l
				}
			}
			desc = fmt.Sprintf("longest linearizable prefix has %d of %d operations", len(longest), len(pops))
		}
	}
	return res, desc
}

var raceFrameRe = regexp.MustCompile(`(?m)^\s+(github\.com/tidwall/\S+)\(\)\s*$`)

type raceClass struct {
	key     string
	guarded bool
	text    string
}

// classifyRace decides whether a report touches state the server lock guards.
func classifyRace(block string) raceClass {
	frames := raceFrameRe.FindAllStringSubmatch(block, -1)
	guarded := false
	guardPats := []string{"tile38/internal/collection", "tile38/internal/object", "tile38/internal/field", "tidwall/btree", "tidwall/rtree", "tidwall/hashmap",
		"server.(*Server).group", "server.(*Server).cmd", "server.(*Server).writeAOF", "server.(*Server).flushAOF", "server.(*Server).queueHooks", "server.(*Server).getQueueCandidates",
		"server.(*Server).Publish", "server.fenceMatch", "server.FenceMatch", "server.(*Server).aofshrink", "server.(*scanWriter)", "server.(*Server).command"}
	// split into the two stacks
	parts := strings.Split(block, "\n\n")
	var outer []string
	for _, part := range parts {
		if !(strings.Contains(part, "rite at ") || strings.Contains(part, "ead at ") || strings.Contains(part, "revious ")) {
			continue
		}
		fs := raceFrameRe.FindAllStringSubmatch(part, -1)
		// outermost tile38 frame of this stack = last tile38 frame listed before goroutine creation
		last := ""
		for _, f := range fs {
			if strings.Contains(f[1], "tile38") {
				last = f[1]
			}
		}
		inner := ""
		for _, f := range fs {
			if strings.Contains(f[1], "tile38") {
				inner = f[1]
				break
			}
		}
		if i := strings.LastIndex(inner, "/"); i >= 0 {
			inner = inner[i+1:]
		}
		if i := strings.LastIndex(last, "/"); i >= 0 {
			last = last[i+1:]
		}
		outer = append(outer, last+">"+inner)
	}
	for _, f := range frames {
		for _, g := range guardPats {
			if strings.Contains(f[1], g) {
				guarded = true
			}
		}
	}
	sort.Strings(outer)
	key := strings.Join(outer, "|")
	if key == "" {
		key = "unknown"
	}
	return raceClass{key: key, guarded: guarded, text: block}
}

// Run is the C07 check.
func Run(ctx *core.Ctx) {
	ctx.Rule = "histories recorded at the client boundary (call time before the first byte is sent, return time after the reply is read, one monotonic clock) with 2-8 writer clients (all write commands; tokenless ones identified in the log by a per-client casing of the command word) and 0-24 token-writer/reader clients on 3 collections x 4 ids, optional live fences and background expiry, both lock variants, GOMAXPROCS 2/4/16. Long histories: the log-order checker matches every log entry to the operation that caused it, replays the log through the sequential model (each write's reply must equal the model's at its log position), checks that the log order never contradicts real time, and places every read / no-op write at a log position inside its real-time window with cross-client monotonicity. Short histories: porcupine linearizability check with the same model (independent of the log). Mass expiry: 12000 objects reach one deadline while eight clients PERSIST them (an acknowledged PERSIST must not be followed by the sweeper's DEL). Race build: the same workload under the Go race detector (halt_on_error=0), reports classified by whether they touch lock-guarded state; plus one run of script traffic (every script-callable write through EVAL and EVALNA, reads through EVALRO/EVALNA, against eight plain readers of the same collection: SCAN, NEARBY, WITHIN, GET, TTL, BOUNDS, STATS, KEYS) judged by the race detector only. non-trivial = history with >= 1 pair of overlapping operations of different clients on the same collection; distinct key = set of overlapping command-kind pairs (bucketed) x configuration"
	ctx.Assumptions = []string{"the sequential model kmodel is the specification of single-command behaviour (C01 decides that)", "client clocks: one monotonic clock in the harness process"}
	bin, err := srv.Build("plain")
	if err != nil {
		ctx.Fatal("%v", err)
	}
	stats := map[string]int64{}
	var smu sync.Mutex
	// ---- no refused command leaves part of its work behind (RENAME over a key with a channel, ...)
	probes.RefusedChangesNothing(ctx, bin, "c07")
	// ---- long histories, log-order checker
	nLong := ctx.Pick(8, 120)
	var wg sync.WaitGroup
	sem := make(chan struct{}, 3)
	for i := 0; i < nLong; i++ {
		wg.Add(1)
		sem <- struct{}{}
		go func(i int) {
			defer wg.Done()
			defer func() { <-sem }()
			r := ctx.SubRng(int64(i) + 70000)
			o := histOpts{writers: 2 + r.Intn(7), readers: []int{0, 2, 8, 24}[r.Intn(4)], opsPerClient: ctx.Pick(400, 1200), spinlock: i%2 == 1,
				gomaxprocs: []int{2, 4, 16}[i%3], lives: []int{0, 2, 4}[i%3], expiry: i%2 == 0, caseNo: i}
			h, err := runHistory(ctx, bin, o)
			if err != nil {
				ctx.Inconclusive("long history: " + err.Error())
				return
			}
			cfg := fmt.Sprintf("w%d r%d spin=%v procs=%d lives=%d exp=%v", o.writers, o.readers, o.spinlock, o.gomaxprocs, o.lives, o.expiry)
			if h.crashed != "" {
				ctx.Violation("runtime-fatal:"+h.crashed, "server died under concurrent load ("+cfg+"): "+h.crashed, map[string]any{"stderr": h.stderr})
				return
			}
			ctx.Eval(1)
			local := map[string]int64{}
			v := checkLogOrder(h, o.writers, local)
			pairs, kinds := overlapStats(h)
			smu.Lock()
			for k, n := range local {
				stats[k] += n
			}
			stats["ops"] += int64(len(h.ops))
			stats["log_entries"] += int64(len(h.entries))
			stats["overlapping_pairs"] += pairs
			smu.Unlock()
			if v != nil {
				if strings.HasPrefix(v.key, "harness:") {
					ctx.Inconclusive(v.what)
					return
				}
				det := v.detail
				if det == nil {
					det = map[string]any{}
				}
				det["config"] = cfg
				ctx.Violation(v.key, v.what+" ["+cfg+"]", det)
				return
			}
			if len(kinds) > 0 {
				ks := make([]string, 0, len(kinds))
				for k := range kinds {
					ks = append(ks, k)
				}
				sort.Strings(ks)
				for _, k := range ks {
					ctx.Distinct("overlap|" + k)
				}
				ctx.Distinct("config|" + cfg)
			}
			if i == 0 {
				ctx.Sample(map[string]any{"config": cfg, "ops": len(h.ops), "log_entries": len(h.entries), "overlapping_pairs": pairs, "first_ops": sampleOps(h.ops, 6)})
			}
		}(i)
	}
	wg.Wait()
	// ---- expiry storms: the sweeper against clients that re-SET expiring objects without a deadline
	for i := 0; i < ctx.Pick(3, 20); i++ {
		wg.Add(1)
		sem <- struct{}{}
		go func(i int) {
			defer wg.Done()
			defer func() { <-sem }()
			o := histOpts{writers: 8, readers: 16, opsPerClient: ctx.Pick(1600, 4000), spinlock: i%2 == 1, gomaxprocs: 16, expiry: true, storm: true, caseNo: 30000 + i}
			h, err := runHistory(ctx, bin, o)
			if err != nil {
				ctx.Inconclusive("storm history: " + err.Error())
				return
			}
			if h.crashed != "" {
				ctx.Violation("runtime-fatal:"+h.crashed, "server died during the expiry storm: "+h.crashed, map[string]any{"stderr": h.stderr})
				return
			}
			ctx.Eval(1)
			local := map[string]int64{}
			v := checkLogOrder(h, o.writers, local)
			smu.Lock()
			stats["storm_ops"] += int64(len(h.ops))
			stats["storm_sweeper_entries"] += local["sweeper_entries"]
			smu.Unlock()
			if v != nil && !strings.HasPrefix(v.key, "harness:") {
				ctx.Violation(v.key, v.what+" [expiry storm]", v.detail)
				return
			}
			if local["sweeper_entries"] > 0 {
				ctx.Distinct(fmt.Sprintf("storm|%d", i))
			}
		}(i)
	}
	wg.Wait()
	// ---- mass expiry: thousands of objects reach one deadline while clients PERSIST them
	for i := 0; i < ctx.Pick(2, 12); i++ {
		wg.Add(1)
		sem <- struct{}{}
		go func(i int) {
			defer wg.Done()
			defer func() { <-sem }()
			o := histOpts{writers: 8, readers: 0, opsPerClient: massN + ctx.Pick(1500, 2500), spinlock: i%2 == 1, gomaxprocs: 16, expiry: true, mass: true, caseNo: 31000 + i}
			h, err := runHistory(ctx, bin, o)
			if err != nil {
				ctx.Inconclusive("mass expiry history: " + err.Error())
				return
			}
			if h.crashed != "" {
				ctx.Violation("runtime-fatal:"+h.crashed, "server died during the mass expiry: "+h.crashed, map[string]any{"stderr": h.stderr})
				return
			}
			ctx.Eval(1)
			// the log alone decides here (the general checker keeps model snapshots, too costly
			// for 12000 objects): only the sweeper issues DEL in this workload, PERSIST is logged
			// only when it removed a deadline, and no client sets an object again
			persisted := map[string]int{}
			sweeps, persists := int64(0), int64(0)
			for pos, en := range h.entries {
				if len(en.Args) < 3 {
					continue
				}
				switch strings.ToLower(en.Args[0]) {
				case "set":
					delete(persisted, en.Args[2])
				case "persist":
					persisted[en.Args[2]] = pos
					persists++
				case "del":
					sweeps++
					if at, ok := persisted[en.Args[2]]; ok {
						ctx.Violation("sweeper-deletes-object-without-deadline", fmt.Sprintf("log position %d: the expiry sweeper logged %q although the PERSIST of that object is at log position %d (acknowledged, the deadline was removed) [mass expiry]", pos, en.Args, at),
							map[string]any{"persist_entry": h.entries[at].Args, "persist_log_position": at, "del_log_position": pos})
						return
					}
				}
			}
			smu.Lock()
			stats["mass_expiry_ops"] += int64(len(h.ops))
			stats["mass_expiry_sweeper_entries"] += sweeps
			stats["mass_expiry_persists_logged"] += persists
			smu.Unlock()
			if sweeps > 0 && persists > 0 {
				ctx.Distinct(fmt.Sprintf("mass-expiry|%d", i))
			}
		}(i)
	}
	wg.Wait()
	// ---- short histories, porcupine
	nShort := ctx.Pick(40, 1500)
	var okN, unkN int64
	for i := 0; i < nShort; i++ {
		wg.Add(1)
		sem <- struct{}{}
		go func(i int) {
			defer wg.Done()
			defer func() { <-sem }()
			r := ctx.SubRng(int64(i) + 90000)
			o := histOpts{writers: 2 + r.Intn(3), readers: r.Intn(2), opsPerClient: 8 + r.Intn(8), spinlock: i%2 == 0, gomaxprocs: []int{2, 4, 16}[i%3], caseNo: 10000 + i}
			h, err := runHistory(ctx, bin, o)
			if err != nil {
				ctx.Inconclusive("short history: " + err.Error())
				return
			}
			if h.crashed != "" {
				ctx.Violation("runtime-fatal:"+h.crashed, "server died under concurrent load: "+h.crashed, map[string]any{"stderr": h.stderr})
				return
			}
			ctx.Eval(1)
			res, desc := porcupineCheck(h)
			smu.Lock()
			defer smu.Unlock()
			switch res {
			case porcupine.Ok:
				okN++
			case porcupine.Unknown:
				unkN++
			case porcupine.Illegal:
				ctx.Violation("not-linearizable", "porcupine: history of "+strconv.Itoa(len(h.ops))+" operations is not linearizable w.r.t. the sequential model; "+desc, map[string]any{"ops": h.ops})
			}
			// the log-order checker runs on short histories too
			local := map[string]int64{}
			if v := checkLogOrder(h, o.writers, local); v != nil && !strings.HasPrefix(v.key, "harness:") {
				ctx.Violation(v.key, v.what+" [short history]", v.detail)
			}
		}(i)
	}
	wg.Wait()
	stats["porcupine_ok"] = okN
	stats["porcupine_unknown"] = unkN
	// ---- race build
	raceRun(ctx, stats)
	for k, n := range stats {
		ctx.Count(k, n)
	}
}

func sampleOps(ops []*op, n int) []map[string]any {
	var out []map[string]any
	for i := 0; i < n && i < len(ops); i++ {
		out = append(out, map[string]any{"client": ops[i].Client, "args": ops[i].Args, "reply": ops[i].Reply, "call_ns": ops[i].Call, "ret_ns": ops[i].Ret})
	}
	return out
}

func raceRun(ctx *core.Ctx, stats map[string]int64) {
	bin, err := srv.Build("race")
	if err != nil {
		ctx.Inconclusive("race build failed: " + err.Error())
		return
	}
	n := ctx.Pick(3, 30)
	seen := map[string]int{}
	for i := 0; i < n; i++ {
		o := histOpts{writers: 8, readers: 8, opsPerClient: ctx.Pick(250, 800), spinlock: i%2 == 1, gomaxprocs: 16, lives: 4, expiry: true, race: true, caseNo: 20000 + i}
		h, err := runHistory(ctx, bin, o)
		if err != nil {
			ctx.Inconclusive("race history: " + err.Error())
			continue
		}
		ctx.Eval(1)
		stats["race_runs"]++
		stats["race_ops"] += int64(len(h.ops))
		if h.crashed != "" {
			ctx.Violation("runtime-fatal:"+h.crashed, "race build: server died under concurrent load: "+h.crashed, map[string]any{"stderr": h.stderr})
		}
		for _, b := range srv.RaceReports(filepath.Join(h.dir, "race")) {
			rc := classifyRace(b)
			stats["race_reports"]++
			if !rc.guarded {
				stats["other_race_reports"]++
				continue
			}
			if seen[rc.key] == 0 {
				txt := b
				if len(txt) > 3500 {
					txt = txt[:3500]
				}
				ctx.Violation("race:"+rc.key, "data race on lock-guarded state: "+rc.key, map[string]any{"report": txt})
			}
			seen[rc.key]++
		}
		if h.crashed == "" {
			if v := checkLogOrder(h, o.writers, map[string]int64{}); v != nil && !strings.HasPrefix(v.key, "harness:") {
				ctx.Violation(v.key, v.what+" [race build]", v.detail)
			}
		}
	}
	raceScripts(ctx, bin, seen, stats)
	stats["race_distinct_guarded"] = int64(len(seen))
}

// raceScripts: the race detector over script traffic. Every script-callable
// write is issued through EVAL and EVALNA (and every read through EVALRO and
// EVALNA) on one collection while plain readers search and read it. Nothing is
// modelled here: the observation is the race detector's (and a server death).
func raceScripts(ctx *core.Ctx, bin string, seen map[string]int, stats map[string]int64) {
	dir := srv.NewDir()
	env := []string{"GOMAXPROCS=16", "GORACE=halt_on_error=0 log_path=" + filepath.Join(dir, "race")}
	s, err := srv.Start(srv.Opts{Bin: bin, Env: env, Dir: dir, ReadyTimeout: 120 * time.Second})
	if err != nil {
		ctx.Inconclusive("race scripts: " + err.Error())
		return
	}
	defer s.Kill9()
	ids := []string{"a", "b", "c", "d", "e", "f"}
	call := func(c *respc.Conn, kind string, args ...string) {
		var sb strings.Builder
		sb.WriteString("return tile38.pcall(")
		for i := range args {
			if i > 0 {
				sb.WriteString(",")
			}
			sb.WriteString("ARGV[" + strconv.Itoa(i+1) + "]")
		}
		sb.WriteString(")")
		if strings.HasSuffix(kind, "SHA") {
			// the same script called by hash: loaded on this connection first (idempotent)
			sha, err := c.Do("SCRIPT", "LOAD", sb.String())
			if err != nil || sha.IsErr() {
				return
			}
			c.Do(append([]string{kind, sha.Str, "0"}, args...)...)
			return
		}
		c.Do(append([]string{kind, sb.String(), "0"}, args...)...)
	}
	var wg sync.WaitGroup
	n := ctx.Pick(120, 500)
	for w := 0; w < 4; w++ {
		wg.Add(1)
		go func(w int) {
			defer wg.Done()
			r := ctx.SubRng(int64(31000 + w))
			c, err := respc.Dial(s.Addr(), 5*time.Second)
			if err != nil {
				return
			}
			defer c.Close()
			c.Timeout = 30 * time.Second
			for i := 0; i < n; i++ {
				id := ids[r.Intn(len(ids))]
				kind := []string{"EVAL", "EVALNA", "EVALSHA", "EVALNASHA"}[r.Intn(4)]
				switch r.Intn(10) {
				case 0, 1:
					call(c, kind, "set", "scr", id, "field", "n", strconv.Itoa(i), "ex", "1000", "point", strconv.Itoa(r.Intn(50)), strconv.Itoa(r.Intn(50)))
				case 2:
					call(c, kind, "fset", "scr", id, "n", strconv.Itoa(i), "m", "1")
				case 3:
					call(c, kind, "expire", "scr", id, "1000")
				case 4:
					call(c, kind, "persist", "scr", id)
				case 5:
					call(c, kind, "del", "scr", id)
				case 6:
					call(c, kind, "jset", "scr", "doc"+id, "p.q", strconv.Itoa(i))
				case 7:
					call(c, kind, "jdel", "scr", "doc"+id, "p.q")
				case 8:
					call(c, kind, "set", "scr", id, "string", "v"+strconv.Itoa(i))
				default:
					call(c, []string{"EVALRO", "EVALNA", "EVALROSHA"}[r.Intn(3)], "scan", "scr", "limit", "5")
				}
			}
		}(w)
	}
	for rd := 0; rd < 8; rd++ {
		wg.Add(1)
		go func(rd int) {
			defer wg.Done()
			r := ctx.SubRng(int64(32000 + rd))
			c, err := respc.Dial(s.Addr(), 5*time.Second)
			if err != nil {
				return
			}
			defer c.Close()
			c.Timeout = 30 * time.Second
			for i := 0; i < n; i++ {
				id := ids[r.Intn(len(ids))]
				switch r.Intn(10) {
				case 6, 7:
					c.Do("BOUNDS", "scr")
				case 8:
					c.Do("STATS", "scr")
				case 9:
					c.Do("KEYS", "*")
				case 0:
					c.Do("SCAN", "scr")
				case 1:
					c.Do("NEARBY", "scr", "POINT", "10", "10")
				case 2:
					c.Do("GET", "scr", id, "WITHFIELDS")
				case 3:
					c.Do("TTL", "scr", id)
				case 4:
					c.Do("WITHIN", "scr", "IDS", "BOUNDS", "0", "0", "50", "50")
				default:
					c.Do("SCAN", "scr", "WHERE", "n", "0", "1000", "COUNT")
				}
			}
		}(rd)
	}
	wg.Wait()
	ctx.Eval(1)
	stats["race_script_runs"]++
	stats["race_script_ops"] += int64(12 * n)
	if !s.Alive() {
		_, site := s.Crashed()
		ctx.Violation("runtime-fatal:"+site, "race build: server died under script traffic: "+site, map[string]any{"stderr": s.StderrTail(6000)})
		return
	}
	s.Term(20 * time.Second)
	for _, b := range srv.RaceReports(filepath.Join(dir, "race")) {
		rc := classifyRace(b)
		stats["race_reports"]++
		if !rc.guarded {
			stats["other_race_reports"]++
			continue
		}
		if seen[rc.key] == 0 {
			txt := b
			if len(txt) > 3500 {
				txt = txt[:3500]
			}
			ctx.Violation("race:"+rc.key, "data race on lock-guarded state (script traffic): "+rc.key, map[string]any{"report": txt})
		}
		seen[rc.key]++
	}
}
