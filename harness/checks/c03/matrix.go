package c03

import (
	"fmt"
	"strings"
	"time"

	"verifharness/core"
	"verifharness/dump"
	"verifharness/respc"
	"verifharness/srv"
)

type row struct {
	name  string
	setup [][]string
	final [][]string // the commands under test: the LAST writes to this row's key
}

func pt(k, id string) []string { return []string{"SET", k, id, "POINT", "10", "20"} }

func evalOf(variant, script string, nkeys string, rest ...string) []string {
	return append([]string{variant, script, nkeys}, rest...)
}

// matrixRows: every data-modifying command (directly and from every script
// variant) is the last write to a dedicated key.
func matrixRows(shas func(src string) string) []row {
	var rows []row
	add := func(name string, setup [][]string, final ...[]string) {
		rows = append(rows, row{name, setup, final})
	}
	k := func(n string) string { return "m:" + n }
	add("set-point", nil, []string{"SET", k("set-point"), "a", "POINT", "1.5", "2.5"})
	add("set-pointz", nil, []string{"SET", k("set-pointz"), "a", "POINT", "1.5", "2.5", "7"})
	add("set-bounds", nil, []string{"SET", k("set-bounds"), "a", "BOUNDS", "1", "2", "3", "4"})
	add("set-hash", nil, []string{"SET", k("set-hash"), "a", "HASH", "9tbnwg"})
	add("set-object", nil, []string{"SET", k("set-object"), "a", "OBJECT", `{"type":"Feature","geometry":{"type":"LineString","coordinates":[[0,0],[1,1]]},"properties":{"n":"x\"y"}}`})
	add("set-string", nil, []string{"SET", k("set-string"), "a", "STRING", "va\r\nl\x00ue"})
	add("set-fields-ex", nil, []string{"SET", k("set-fields-ex"), "a", "FIELD", "f", "1.5", "FIELD", "g", `{"a":[1,2]}`, "FIELD", "s", "str ing", "EX", "5000", "POINT", "1", "2"})
	add("set-overwrite-keeps-fields", [][]string{{"SET", k("set-overwrite-keeps-fields"), "a", "FIELD", "f", "9", "EX", "5000", "POINT", "1", "2"}},
		[]string{"SET", k("set-overwrite-keeps-fields"), "a", "FIELD", "g", "2", "STRING", "now a string"})
	// re-SETs that change exactly one attribute of an existing object
	add("reset-add-ex", [][]string{{"SET", k("reset-add-ex"), "a", "FIELD", "f", "1", "POINT", "1", "2"}}, []string{"SET", k("reset-add-ex"), "a", "EX", "5000", "POINT", "1", "2"})
	add("reset-drop-ex", [][]string{{"SET", k("reset-drop-ex"), "a", "FIELD", "f", "1", "EX", "5000", "POINT", "1", "2"}}, []string{"SET", k("reset-drop-ex"), "a", "POINT", "1", "2"})
	add("reset-field-only", [][]string{{"SET", k("reset-field-only"), "a", "FIELD", "f", "1", "POINT", "1", "2"}}, []string{"SET", k("reset-field-only"), "a", "FIELD", "f", "2", "POINT", "1", "2"})
	add("reset-geo-only", [][]string{{"SET", k("reset-geo-only"), "a", "FIELD", "f", "1", "POINT", "1", "2"}}, []string{"SET", k("reset-geo-only"), "a", "POINT", "1", "2.5"})
	add("reset-z-only", [][]string{{"SET", k("reset-z-only"), "a", "POINT", "1", "2"}}, []string{"SET", k("reset-z-only"), "a", "POINT", "1", "2", "9"})
	add("reset-string-ex", [][]string{{"SET", k("reset-string-ex"), "a", "STRING", "v"}}, []string{"SET", k("reset-string-ex"), "a", "EX", "5000", "STRING", "v"})
	add("reset-identical", [][]string{{"SET", k("reset-identical"), "a", "FIELD", "f", "1", "EX", "5000", "POINT", "1", "2"}}, []string{"SET", k("reset-identical"), "a", "FIELD", "f", "1", "EX", "5000", "POINT", "1", "2"})
	add("fset-same-then-other", [][]string{{"SET", k("fset-same-then-other"), "a", "FIELD", "f", "1", "POINT", "1", "2"}}, []string{"FSET", k("fset-same-then-other"), "a", "f", "1", "g", "2"})
	add("expire-shorter", [][]string{{"SET", k("expire-shorter"), "keep", "POINT", "1", "1"}, {"SET", k("expire-shorter"), "a", "EX", "5000", "POINT", "1", "2"}}, []string{"EXPIRE", k("expire-shorter"), "a", "0.2"})
	add("persist-then-stays", [][]string{{"SET", k("persist-then-stays"), "a", "EX", "0.6", "POINT", "1", "2"}}, []string{"PERSIST", k("persist-then-stays"), "a"})
	add("set-nx", nil, []string{"SET", k("set-nx"), "a", "NX", "POINT", "1", "2"})
	add("set-xx", [][]string{pt(k("set-xx"), "a")}, []string{"SET", k("set-xx"), "a", "XX", "POINT", "3", "4"})
	add("fset", [][]string{pt(k("fset"), "a")}, []string{"FSET", k("fset"), "a", "f", "5", "g", "abc"})
	add("fset-zero", [][]string{{"SET", k("fset-zero"), "a", "FIELD", "f", "5", "FIELD", "g", "1", "POINT", "1", "2"}}, []string{"FSET", k("fset-zero"), "a", "f", "0"})
	add("del", [][]string{pt(k("del"), "a"), pt(k("del"), "b")}, []string{"DEL", k("del"), "a"})
	add("del-last", [][]string{pt(k("del-last"), "a")}, []string{"DEL", k("del-last"), "a"})
	add("pdel", [][]string{pt(k("pdel"), "a1"), pt(k("pdel"), "a2"), pt(k("pdel"), "b1")}, []string{"PDEL", k("pdel"), "a*"})
	add("pdel-all", [][]string{pt(k("pdel-all"), "a1"), pt(k("pdel-all"), "a2")}, []string{"PDEL", k("pdel-all"), "*"})
	add("drop", [][]string{pt(k("drop"), "a"), pt(k("drop"), "b")}, []string{"DROP", k("drop")})
	add("rename", [][]string{pt(k("rename"), "a")}, []string{"RENAME", k("rename"), k("rename") + ":to"})
	add("rename-over", [][]string{pt(k("rename-over"), "a"), pt(k("rename-over")+":to", "old")}, []string{"RENAME", k("rename-over"), k("rename-over") + ":to"})
	add("renamenx", [][]string{pt(k("renamenx"), "a")}, []string{"RENAMENX", k("renamenx"), k("renamenx") + ":to"})
	add("renamenx-noop", [][]string{pt(k("renamenx-noop"), "a"), pt(k("renamenx-noop")+":to", "old")}, []string{"RENAMENX", k("renamenx-noop"), k("renamenx-noop") + ":to"})
	add("expire", [][]string{pt(k("expire"), "a")}, []string{"EXPIRE", k("expire"), "a", "5000"})
	add("persist", [][]string{{"SET", k("persist"), "a", "EX", "5000", "POINT", "1", "2"}}, []string{"PERSIST", k("persist"), "a"})
	add("jset-new", nil, []string{"JSET", k("jset-new"), "a", "p.q", "v"})
	add("jset-doc", [][]string{{"JSET", k("jset-doc"), "a", "p", "1"}}, []string{"JSET", k("jset-doc"), "a", "q", `{"x":[1,2]}`, "RAW"})
	add("jset-str", [][]string{{"JSET", k("jset-str"), "a", "p", "1"}}, []string{"JSET", k("jset-str"), "a", "p", "12", "STR"})
	add("jset-geo", [][]string{{"SET", k("jset-geo"), "a", "FIELD", "f", "1", "POINT", "10", "20"}}, []string{"JSET", k("jset-geo"), "a", "coordinates.0", "55"})
	add("jdel-doc", [][]string{{"JSET", k("jdel-doc"), "a", "p", "1"}, {"JSET", k("jdel-doc"), "a", "q", "2"}}, []string{"JDEL", k("jdel-doc"), "a", "p"})
	add("jdel-geo", [][]string{{"SET", k("jdel-geo"), "a", "POINT", "10", "20", "30"}}, []string{"JDEL", k("jdel-geo"), "a", "coordinates.2"})
	add("expired", [][]string{{"SET", k("expired"), "keep", "POINT", "1", "1"}}, []string{"SET", k("expired"), "gone", "EX", "0.2", "POINT", "1", "2"})
	add("expire-cmd", [][]string{pt(k("expire-cmd"), "keep"), pt(k("expire-cmd"), "gone")}, []string{"EXPIRE", k("expire-cmd"), "gone", "0.2"})
	// hooks and channels
	add("sethook", nil, []string{"SETHOOK", "mh:sethook", sinkURL("x"), "META", "a", "b c", "NEARBY", k("sethook"), "FENCE", "DETECT", "enter,exit", "COMMANDS", "set,del", "POINT", "33", "-112", "500"})
	add("sethook-ex", nil, []string{"SETHOOK", "mh:sethook-ex", sinkURL("x") + "," + sinkURL("y"), "EX", "5000", "WITHIN", k("sethook-ex"), "WHERE", "f", "1", "2", "FENCE", "BOUNDS", "0", "0", "1", "1"})
	add("sethook-replace", [][]string{{"SETHOOK", "mh:sethook-replace", sinkURL("x"), "NEARBY", k("sethook-replace"), "FENCE", "POINT", "33", "-112", "500"}},
		[]string{"SETHOOK", "mh:sethook-replace", sinkURL("z"), "INTERSECTS", k("sethook-replace"), "FENCE", "DETECT", "cross", "BOUNDS", "5", "5", "6", "6"})
	// two writes to one object without a reply in between, the second far larger than the first
	// (whatever the append path does with large commands, the log keeps the order of application)
	for _, kind := range []string{"EVAL", "EVALNA"} {
		row := "small-then-large-" + strings.ToLower(kind)
		add(row, nil, []string{kind, "tile38.call('set', KEYS[1], 'a', 'string', 'small'); tile38.call('set', KEYS[1], 'b', 'string', 'x'); return tile38.call('set', KEYS[1], 'a', 'string', string.rep('L', 40000))", "1", k(row)})
		row = "large-then-small-" + strings.ToLower(kind)
		add(row, nil, []string{kind, "tile38.call('set', KEYS[1], 'a', 'string', string.rep('L', 40000)); return tile38.call('set', KEYS[1], 'a', 'string', 'small')", "1", k(row)})
	}
	// a fence filtered by a script given as text (by sha: see shaFenceRow)
	add("setchan-whereeval", nil, []string{"SETCHAN", "mc:whereeval", "NEARBY", k("setchan-whereeval"), "WHEREEVAL", "return FIELDS.speed ~= nil and FIELDS.speed > tonumber(ARGV[1])", "1", "10", "FENCE", "POINT", "33", "-112", "500"})
	// the same hook / channel set again with only its lifetime added, removed or changed
	hk := func(name, key string, ex ...string) []string {
		return append(append([]string{"SETHOOK", name, sinkURL("x")}, ex...), "NEARBY", key, "FENCE", "POINT", "33", "-112", "500")
	}
	ch := func(name, key string, ex ...string) []string {
		return append(append([]string{"SETCHAN", name}, ex...), "NEARBY", key, "FENCE", "POINT", "33", "-112", "500")
	}
	add("sethook-add-ex", [][]string{hk("mh:add-ex", k("sethook-add-ex"))}, hk("mh:add-ex", k("sethook-add-ex"), "EX", "3000"))
	add("sethook-remove-ex", [][]string{hk("mh:remove-ex", k("sethook-remove-ex"), "EX", "3000")}, hk("mh:remove-ex", k("sethook-remove-ex")))
	add("sethook-change-ex", [][]string{hk("mh:change-ex", k("sethook-change-ex"), "EX", "300000")}, hk("mh:change-ex", k("sethook-change-ex"), "EX", "3000"))
	add("setchan-add-ex", [][]string{ch("mc:add-ex", k("setchan-add-ex"))}, ch("mc:add-ex", k("setchan-add-ex"), "EX", "3000"))
	add("setchan-remove-ex", [][]string{ch("mc:remove-ex", k("setchan-remove-ex"), "EX", "3000")}, ch("mc:remove-ex", k("setchan-remove-ex")))
	add("setchan-change-ex", [][]string{ch("mc:change-ex", k("setchan-change-ex"), "EX", "300000")}, ch("mc:change-ex", k("setchan-change-ex"), "EX", "3000"))
	add("setchan", nil, []string{"SETCHAN", "mc:setchan", "META", "m", "v", "EX", "5000", "NEARBY", k("setchan"), "MATCH", "t*", "FENCE", "ROAM", k("setchan"), "*", "300"})
	add("delhook", [][]string{{"SETHOOK", "mh:delhook", sinkURL("x"), "NEARBY", k("delhook"), "FENCE", "POINT", "33", "-112", "500"}}, []string{"DELHOOK", "mh:delhook"})
	add("delchan", [][]string{{"SETCHAN", "mc:delchan", "NEARBY", k("delchan"), "FENCE", "POINT", "33", "-112", "500"}}, []string{"DELCHAN", "mc:delchan"})
	add("pdelhook", [][]string{{"SETHOOK", "mhp:1", sinkURL("x"), "NEARBY", k("pdelhook"), "FENCE", "POINT", "33", "-112", "500"}, {"SETHOOK", "mhp:2", sinkURL("x"), "NEARBY", k("pdelhook"), "FENCE", "POINT", "33", "-112", "500"}}, []string{"PDELHOOK", "mhp:*"})
	add("pdelchan", [][]string{{"SETCHAN", "mcp:1", "NEARBY", k("pdelchan"), "FENCE", "POINT", "33", "-112", "500"}, {"SETCHAN", "mcp:2", "NEARBY", k("pdelchan"), "FENCE", "POINT", "33", "-112", "500"}}, []string{"PDELCHAN", "mcp:[1-2]"})
	add("chan-expired", nil, []string{"SETCHAN", "mc:chan-expired", "EX", "0.2", "NEARBY", k("chan-expired"), "FENCE", "POINT", "33", "-112", "500"})
	// scripts: each write command callable from a script × each script variant
	type sc struct {
		name, src string
		args      []string
		setup     [][]string
	}
	scripts := func(key string) []sc {
		return []sc{
			{"set", `return tile38.call('set', KEYS[1], 'a', 'field', 'f', ARGV[1], 'point', 3, 4)`, []string{"7"}, nil},
			{"del", `return tile38.call('del', KEYS[1], 'a')`, nil, [][]string{pt(key, "a"), pt(key, "b")}},
			{"drop", `return tile38.call('drop', KEYS[1])`, nil, [][]string{pt(key, "a")}},
			{"fset", `return tile38.call('fset', KEYS[1], 'a', 'f', ARGV[1])`, []string{"8"}, [][]string{pt(key, "a")}},
			{"expire", `return tile38.call('expire', KEYS[1], 'a', 5000)`, nil, [][]string{pt(key, "a")}},
			{"persist", `return tile38.call('persist', KEYS[1], 'a')`, nil, [][]string{{"SET", key, "a", "EX", "5000", "POINT", "1", "2"}}},
			{"jset", `return tile38.call('jset', KEYS[1], 'a', 'p', ARGV[1])`, []string{"9"}, nil},
			{"pdel", `return tile38.call('pdel', KEYS[1], 'a*')`, nil, [][]string{pt(key, "a1"), pt(key, "b1")}},
			{"rename", `return tile38.call('rename', KEYS[1], KEYS[1] .. ':to')`, nil, [][]string{pt(key, "a")}},
			{"renamenx", `return tile38.call('renamenx', KEYS[1], KEYS[1] .. ':to')`, nil, [][]string{pt(key, "a")}},
			{"two-writes", `tile38.call('set', KEYS[1], 'a', 'string', ARGV[1]); tile38.call('set', KEYS[1], 'b', 'string', ARGV[1]); return 1`, []string{"tok"}, nil},
			{"pcall-error-then-write", `tile38.pcall('fset', 'nosuchkey', 'x', 'f', 1); return tile38.call('set', KEYS[1], 'a', 'string', ARGV[1])`, []string{"t"}, nil},
		}
	}
	for _, variant := range []string{"EVAL", "EVALSHA", "EVALNA", "EVALNASHA"} {
		for _, s := range scripts("") {
			name := strings.ToLower(variant) + "-" + s.name
			key := k(name)
			ss := scripts(key)
			var cur sc
			for _, x := range ss {
				if x.name == s.name {
					cur = x
				}
			}
			src := cur.src
			if strings.HasSuffix(variant, "SHA") {
				src = shas(cur.src)
			}
			add(name, cur.setup, append([]string{variant, src, "1", key}, cur.args...))
		}
	}
	return rows
}

// matrix runs all rows on one server, stops it, restarts and compares.
func matrix(ctx *core.Ctx, bin, stop string, withFlush bool) {
	s, err := srv.Start(srv.Opts{Bin: bin})
	if err != nil {
		ctx.Inconclusive(err.Error())
		return
	}
	defer s.Kill9()
	c, err := respc.Dial(s.Addr(), 5*time.Second)
	if err != nil {
		ctx.Inconclusive(err.Error())
		return
	}
	defer c.Close()
	shaCache := map[string]string{}
	shas := func(src string) string {
		if v, ok := shaCache[src]; ok {
			return v
		}
		r, err := c.Do("SCRIPT", "LOAD", src)
		if err != nil || r.IsErr() {
			return "0000000000000000000000000000000000000000"
		}
		shaCache[src] = r.Str
		return r.Str
	}
	rows := matrixRows(shas)
	var hist [][]string
	do := func(cmd []string) (respc.Reply, bool) {
		hist = append(hist, cmd)
		r, err := c.Do(cmd...)
		if err != nil {
			return r, false
		}
		return r, true
	}
	if withFlush {
		// state, then FLUSHDB as (almost) the last write
		for _, rw := range rows[:20] {
			for _, cmd := range rw.setup {
				do(cmd)
			}
			for _, cmd := range rw.final {
				do(cmd)
			}
		}
		do([]string{"SETCHAN", "mc:beforeflush", "NEARBY", "m:x", "FENCE", "POINT", "33", "-112", "500"})
		do([]string{"FLUSHDB"})
		do([]string{"SET", "m:afterflush", "a", "POINT", "1", "2"})
	} else {
		for _, rw := range rows {
			for _, cmd := range rw.setup {
				if _, ok := do(cmd); !ok {
					ctx.Inconclusive("matrix: i/o error during setup of " + rw.name)
					return
				}
			}
			for _, cmd := range rw.final {
				r, ok := do(cmd)
				if !ok {
					time.Sleep(50 * time.Millisecond)
					if !s.Alive() {
						_, site := s.Crashed()
						ctx.Inconclusive("matrix: server crashed on row " + rw.name + ": " + site)
					} else {
						ctx.Inconclusive("matrix: i/o error on row " + rw.name)
					}
					return
				}
				if r.IsErr() {
					ctx.Count("matrix_rows_rejected", 1)
					ctx.Logf("matrix row %s rejected: %s", rw.name, r.String())
				}
			}
		}
	}
	time.Sleep(900 * time.Millisecond) // short TTLs pass and are swept
	d1, err := dump.Take(s.Addr(), dump.Opts{HookTTLMagnitude: true})
	if err != nil {
		ctx.Inconclusive("matrix dump: " + err.Error())
		return
	}
	if stop == "kill9" {
		s.Kill9()
	} else if !s.Term(20 * time.Second) {
		ctx.Inconclusive("matrix: server did not stop on SIGTERM")
		return
	}
	s2, err := s.Restart()
	if err != nil {
		ctx.Violation("restart-fails:matrix", "server does not start after the command matrix: "+err.Error(), map[string]any{"history": hist})
		return
	}
	defer s2.Kill9()
	d2, err := dump.Take(s2.Addr(), dump.Opts{HookTTLMagnitude: true})
	if err != nil {
		ctx.Inconclusive("matrix dump after restart: " + err.Error())
		return
	}
	ctx.Eval(len(rows))
	ctx.Count("matrix_rows", int64(len(rows)))
	ctx.Count("matrix_objects_compared", int64(d1.NObjects()))
	// per-row comparison so that every differing row is reported under its own key
	nbad := 0
	if withFlush {
		if d := dump.Diff(d1, d2); d != "" {
			ctx.Violation("restart-diff:flushdb", "state after restart differs (history ending in FLUSHDB + one SET): "+d, map[string]any{"history": hist, "stop": stop})
		} else {
			ctx.Distinct("matrix-flush|" + stop)
		}
		return
	}
	for _, rw := range rows {
		sub := func(st *dump.State) *dump.State {
			o := &dump.State{Cols: map[string][]dump.Object{}}
			for key, objs := range st.Cols {
				if key == "m:"+rw.name || key == "m:"+rw.name+":to" {
					o.Cols[key] = objs
				}
			}
			for _, h := range st.Hooks {
				if h.Key == "m:"+rw.name {
					o.Hooks = append(o.Hooks, h)
				}
			}
			for _, h := range st.Chans {
				if h.Key == "m:"+rw.name {
					o.Chans = append(o.Chans, h)
				}
			}
			return o
		}
		a, b := sub(d1), sub(d2)
		if d := dump.Diff(a, b); d != "" {
			nbad++
			ctx.Violation("restart-diff:"+rw.name, "row "+rw.name+": state after restart ("+stop+") differs from before: A=before B=after: "+d,
				map[string]any{"setup": rw.setup, "final": rw.final, "stop": stop})
		} else {
			ctx.Distinct("matrix|" + rw.name + "|" + stop)
		}
	}
	if nbad == 0 {
		if d := dump.Diff(d1, d2); d != "" {
			ctx.Violation("restart-diff:matrix-other", "matrix: state differs outside the per-row keys: "+d, map[string]any{"stop": stop})
		}
	}
	ctx.Sample(map[string]any{"matrix_row": rows[len(rows)/2].name, "final": rows[len(rows)/2].final})
}

// shaFenceRow: a channel whose fence is filtered by WHEREEVALSHA (the sha of a
// script loaded with SCRIPT LOAD) is acknowledged; the server must start again
// on its data directory and still have the channel. Kept apart from the matrix:
// it is a listed finding of the pinned tree (scripts are not persisted, the
// command is logged with the sha, and the load treats the unknown sha as fatal).
func shaFenceRow(ctx *core.Ctx, bin string) {
	s, err := srv.Start(srv.Opts{Bin: bin})
	if err != nil {
		ctx.Inconclusive("sha fence row: " + err.Error())
		return
	}
	defer func() { s.Kill9() }()
	c, err := respc.Dial(s.Addr(), 5*time.Second)
	if err != nil {
		ctx.Inconclusive("sha fence row: " + err.Error())
		return
	}
	c.Timeout = 10 * time.Second
	lr, err := c.Do("SCRIPT", "LOAD", "return true")
	if err != nil || lr.IsErr() {
		c.Close()
		ctx.Inconclusive("sha fence row: SCRIPT LOAD failed")
		return
	}
	cmd := []string{"SETCHAN", "mc:whereevalsha", "NEARBY", "m:sha", "WHEREEVALSHA", lr.Str, "0", "FENCE", "POINT", "33", "-112", "500"}
	rp, err := c.Do(cmd...)
	c.Do("SET", "m:sha", "a", "POINT", "33", "-112")
	c.Close()
	if err != nil || rp.IsErr() {
		ctx.Count("sha_fence_row_refused", 1) // refusing the form is a consistent answer too
		return
	}
	ctx.Eval(1)
	ctx.Distinct("matrix|setchan-whereevalsha")
	s.Term(20 * time.Second)
	s2, err := s.Restart()
	if err != nil {
		ctx.Violation("restart-fails:setchan-whereevalsha", fmt.Sprintf("`SCRIPT LOAD \"return true\"` and the acknowledged %q, then SIGTERM: the server does not start on its own data directory: %v", cmd, err), map[string]any{"commands": [][]string{{"SCRIPT", "LOAD", "return true"}, cmd}})
		return
	}
	defer s2.Kill9()
	d, err := dump.Take(s2.Addr(), dump.Opts{})
	if err != nil {
		ctx.Inconclusive("sha fence row: " + err.Error())
		return
	}
	found := false
	for _, h := range d.Chans {
		if h.Name == "mc:whereevalsha" {
			found = true
		}
	}
	if !found {
		ctx.Violation("restart-diff:setchan-whereevalsha", "the acknowledged channel with a WHEREEVALSHA fence is gone after a restart", map[string]any{"command": cmd})
	}
}
