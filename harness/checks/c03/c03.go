// Package c03: restart reproduces exactly the acknowledged state (AOF replay
// equivalence). DESIGN.md section 4, C03.
package c03

import (
	"fmt"
	"math/rand"
	"os"
	"sort"
	"strconv"
	"strings"
	"sync"
	"time"

	"verifharness/aoflog"
	"verifharness/core"
	"verifharness/dump"
	"verifharness/httpsink"
	"verifharness/kmodel"
	"verifharness/respc"
	"verifharness/srv"
)

const scriptSet2 = `tile38.call('set', KEYS[1], ARGV[1], 'field', 'tok', ARGV[3], 'point', 1, 2); tile38.call('set', KEYS[1], ARGV[2], 'field', 'tok', ARGV[3], 'string', ARGV[3]); return 1`
const scriptMixed = `tile38.call('fset', KEYS[1], ARGV[1], 'sf', ARGV[2]); tile38.call('expire', KEYS[1], ARGV[1], 2000); tile38.call('jset', KEYS[1], 'js', 'p', ARGV[2]); return tile38.call('get', KEYS[1], ARGV[1])`
const scriptDel = `tile38.call('del', KEYS[1], ARGV[1]); tile38.call('pdel', KEYS[1], 'zz*'); return 1`

// extras generates the data-modifying commands kmodel.Gen does not: hooks,
// channels, scripts, short TTLs.
func extras(r *rand.Rand, g *kmodel.Gen, shas map[string]string, n *int) []string {
	k := g.Keys[r.Intn(len(g.Keys))]
	id := g.IDs[r.Intn(len(g.IDs))]
	*n++
	tok := strconv.Itoa(*n)
	switch r.Intn(16) {
	case 0:
		return []string{"SETHOOK", "hook" + strconv.Itoa(r.Intn(4)), sinkURL("h" + strconv.Itoa(r.Intn(3))), "NEARBY", k, "FENCE", "POINT", "33", "-112", strconv.Itoa(100 + r.Intn(1000))}
	case 1:
		return []string{"SETCHAN", "chan" + strconv.Itoa(r.Intn(4)), "META", "m1", "v" + tok, "META", "m2", "x y", "WITHIN", k, "FENCE", "DETECT", "enter,exit", "BOUNDS", "0", "0", strconv.Itoa(1 + r.Intn(10)), "10"}
	case 2:
		return []string{"SETCHAN", "chx" + strconv.Itoa(r.Intn(3)), "EX", strconv.Itoa(1000 + r.Intn(500)), "INTERSECTS", k, "WHERE", "f", "1", "5", "MATCH", "a*", "FENCE", "OBJECT", `{"type":"Polygon","coordinates":[[[0,0],[4,0],[4,4],[0,4],[0,0]]]}`}
	case 3:
		return []string{"SETHOOK", "hx" + strconv.Itoa(r.Intn(3)), sinkURL("a") + "," + sinkURL("b"), "EX", "1500", "META", "a", "b", "NEARBY", k, "FENCE", "ROAM", k, "*", "500"}
	case 4:
		return []string{"DELHOOK", "hook" + strconv.Itoa(r.Intn(4))}
	case 5:
		return []string{"DELCHAN", "chan" + strconv.Itoa(r.Intn(4))}
	case 6:
		if r.Intn(2) == 0 {
			return []string{"PDELHOOK", "hx*"}
		}
		return []string{"PDELCHAN", "chx[0-1]"}
	case 7:
		return []string{"EVAL", scriptSet2, "1", k, id, g.IDs[r.Intn(len(g.IDs))], tok}
	case 8:
		return []string{"EVALSHA", shas["set2"], "1", k, id, "zz" + tok, tok}
	case 9:
		return []string{"EVALNA", scriptMixed, "1", k, id, tok}
	case 10:
		return []string{"EVALNASHA", shas["del"], "1", k, id}
	case 11:
		return []string{"EVAL", scriptMixed, "1", k, id, tok}
	case 12, 13:
		// short TTL: expires before the stop
		return []string{"SET", k, "ttl" + strconv.Itoa(r.Intn(6)), "EX", "0." + strconv.Itoa(1+r.Intn(4)), "POINT", "5", "5"}
	case 14:
		return []string{"SETCHAN", "chshort" + strconv.Itoa(r.Intn(2)), "EX", "0.3", "WITHIN", k, "FENCE", "BOUNDS", "0", "0", "1", "1"}
	default:
		return []string{"EXPIRE", k, id, "0.2"}
	}
}

var sink *httpsink.Sink

func sinkURL(p string) string { return sink.URL(p) }

func kindsOf(cmds [][]string) string {
	set := map[string]bool{}
	for _, c := range cmds {
		set[strings.ToLower(c[0])] = true
	}
	ks := make([]string, 0, len(set))
	for k := range set {
		ks = append(ks, k)
	}
	sort.Strings(ks)
	return strings.Join(ks, ",")
}

func loadScripts(c *respc.Conn) (map[string]string, error) {
	shas := map[string]string{}
	for name, src := range map[string]string{"set2": scriptSet2, "del": scriptDel} {
		r, err := c.Do("SCRIPT", "LOAD", src)
		if err != nil {
			return nil, err
		}
		if r.IsErr() {
			return nil, fmt.Errorf("SCRIPT LOAD: %s", r.String())
		}
		shas[name] = r.Str
	}
	return shas, nil
}

// quiescent: history, wait for TTLs, dump, stop, restart, dump, compare.
func quiescent(ctx *core.Ctx, bin string, caseNo int) {
	r := ctx.Rng
	s, err := srv.Start(srv.Opts{Bin: bin})
	if err != nil {
		ctx.Inconclusive(err.Error())
		return
	}
	defer s.Kill9()
	c, err := respc.Dial(s.Addr(), 5*time.Second)
	if err != nil {
		ctx.Inconclusive(err.Error())
		return
	}
	defer c.Close()
	shas, err := loadScripts(c)
	if err != nil {
		ctx.Inconclusive(err.Error())
		return
	}
	var g *kmodel.Gen
	if caseNo%2 == 0 {
		g = kmodel.RichGen(r)
	} else {
		g = kmodel.DefaultGen(r)
	}
	var hist [][]string
	n := 150 + r.Intn(ctx.Pick(250, 1500))
	tok := 0
	for i := 0; i < n; i++ {
		var cmd []string
		if r.Intn(4) == 0 {
			cmd = extras(r, g, shas, &tok)
		} else {
			cmd = g.Next()
			if strings.ToLower(cmd[0]) == "flushdb" && r.Intn(3) != 0 {
				continue
			}
		}
		hist = append(hist, cmd)
		t0 := time.Now()
		rep, err := c.Do(cmd...)
		if d := time.Since(t0); d > 100*time.Millisecond {
			ctx.Logf("slow command %v: %q -> %s", d, cmd, rep.String())
		}
		if err != nil {
			time.Sleep(50 * time.Millisecond)
			if !s.Alive() {
				_, site := s.Crashed()
				ctx.Count("server_crashes_during_history", 1)
				ctx.Logf("server crashed during history at %q: %s", cmd, site)
				ctx.Inconclusive("server crashed while building the history (C16/C17 decide crashes): " + site)
				return
			}
			ctx.Inconclusive("i/o: " + err.Error())
			return
		}
		_ = rep
	}
	// wait for every short TTL to have passed and been swept
	time.Sleep(900 * time.Millisecond)
	d1, err := dump.Take(s.Addr(), dump.Opts{})
	if err != nil {
		ctx.Inconclusive("dump: " + err.Error())
		return
	}
	time.Sleep(200 * time.Millisecond)
	d1b, err := dump.Take(s.Addr(), dump.Opts{})
	if err != nil || d1.Canon() != d1b.Canon() {
		// still changing (expiry in flight): take again later once
		time.Sleep(1500 * time.Millisecond)
		d1, err = dump.Take(s.Addr(), dump.Opts{})
		if err != nil {
			ctx.Inconclusive("dump: " + err.Error())
			return
		}
	}
	ctx.Logf("case %d: history+dump done (%d cmds)", caseNo, len(hist))
	stop := "sigterm"
	if caseNo%3 == 1 {
		stop = "kill9"
		// the background flusher runs every second; a reply is only sent after
		// the flush, so all acknowledged commands are in the file already
		s.Kill9()
	} else {
		if !s.Term(20 * time.Second) {
			ctx.Inconclusive("server did not stop on SIGTERM")
			return
		}
	}
	ctx.Logf("case %d: stopped (%s)", caseNo, stop)
	s2, err := s.Restart()
	if err != nil {
		ctx.Violation("restart-fails:"+stop, "server does not start on its own data directory after "+stop+": "+err.Error(), map[string]any{"history": hist})
		return
	}
	defer s2.Kill9()
	d2, err := dump.Take(s2.Addr(), dump.Opts{})
	if err != nil {
		ctx.Inconclusive("dump after restart: " + err.Error())
		return
	}
	ctx.Eval(1)
	ctx.Count("restarts_"+stop, 1)
	ctx.Count("objects_compared", int64(d1.NObjects()))
	ctx.Count("hooks_compared", int64(len(d1.Hooks)+len(d1.Chans)))
	kinds := kindsOf(hist)
	if d := dump.Diff(d1, d2); d != "" {
		// attribute to a command kind when possible: which kinds touched the differing key last
		ctx.Violation("restart-diff:"+attribute(hist, d), "state after restart ("+stop+") differs from the acknowledged state: A=before B=after: "+d,
			map[string]any{"history": hist, "stop": stop})
		return
	}
	if d1.NObjects() > 0 && strings.Count(kinds, ",") >= 3 {
		ctx.Distinct(stop + "|" + kinds)
	}
	if caseNo < 2 {
		ctx.Sample(map[string]any{"stop": stop, "commands": len(hist), "kinds": kinds, "objects": d1.NObjects(), "hooks": len(d1.Hooks), "chans": len(d1.Chans), "first": hist[:min(6, len(hist))]})
	}
	// second leg: one more write after recovery must survive another restart
	c2, err := respc.Dial(s2.Addr(), 5*time.Second)
	if err == nil {
		c2.Do("SET", "after", "recovery", "FIELD", "n", "1", "POINT", "1", "1")
		c2.Close()
		d3, _ := dump.Take(s2.Addr(), dump.Opts{})
		s2.Term(20 * time.Second)
		s3, err := s2.Restart()
		if err == nil {
			d4, err := dump.Take(s3.Addr(), dump.Opts{})
			if err == nil && d3 != nil {
				if d := dump.Diff(d3, d4); d != "" {
					ctx.Violation("second-restart-diff", "state after a second restart differs: "+d, map[string]any{"history": hist})
				}
			}
			s3.Kill9()
		}
	}
}

// attribute guesses which command kind is behind a difference: the last
// state-changing command in the history that names the differing key/id.
func attribute(hist [][]string, diff string) string {
	if strings.Contains(diff, "hooks differ") {
		return "hooks"
	}
	if strings.Contains(diff, "chans differ") {
		return "chans"
	}
	// diff text holds %q/%q of key and id
	var key, id string
	if i := strings.IndexByte(diff, '"'); i >= 0 {
		rest := diff[i:]
		if k, err := strconv.QuotedPrefix(rest); err == nil {
			key, _ = strconv.Unquote(k)
			rest = rest[len(k):]
			if strings.HasPrefix(rest, "/") {
				if q, err := strconv.QuotedPrefix(rest[1:]); err == nil {
					id, _ = strconv.Unquote(q)
				}
			}
		}
	}
	for i := len(hist) - 1; i >= 0; i-- {
		c := hist[i]
		w := strings.ToLower(c[0])
		switch w {
		case "get", "fget", "exists", "fexists", "ttl", "type", "keys", "scan", "jget":
			continue
		}
		named := false
		for _, a := range c[1:] {
			if a == key {
				named = true
			}
		}
		if !named {
			continue
		}
		if id != "" {
			hasID := false
			for _, a := range c[1:] {
				if a == id {
					hasID = true
				}
			}
			if !hasID && w != "drop" && w != "rename" && w != "renamenx" && w != "pdel" && w != "flushdb" {
				continue
			}
		}
		return w
	}
	return "unknown"
}

type ack struct {
	key, id string
	tok     int
	multi   bool
}

// underLoad: concurrent writers with unique tokens, kill -9 (external or at a
// named crash point), restart, judge.
func underLoad(ctx *core.Ctx, bin string, caseNo int, point string) {
	r := ctx.SubRng(int64(caseNo) + 1000)
	env := []string{}
	how := "kill9-external"
	if point != "" {
		env = append(env, fmt.Sprintf("T38_VERIF_POINTS=%s=crash@%d", point, 50+r.Intn(600)))
		how = "crash@" + point
	}
	s, err := srv.Start(srv.Opts{Bin: bin, Env: env})
	if err != nil {
		ctx.Inconclusive(err.Error())
		return
	}
	defer s.Kill9()
	nconn := 2 + r.Intn(6)
	var mu sync.Mutex
	acked := map[string]ack{}    // key/id -> last acknowledged
	inflight := map[string]ack{} // key/id -> sent, not acknowledged
	var wg sync.WaitGroup
	stopAt := time.Now().Add(time.Duration(300+r.Intn(900)) * time.Millisecond)
	var total int64
	for ci := 0; ci < nconn; ci++ {
		wg.Add(1)
		go func(ci int) {
			defer wg.Done()
			rr := ctx.SubRng(int64(caseNo)*100 + int64(ci))
			c, err := respc.Dial(s.Addr(), 5*time.Second)
			if err != nil {
				return
			}
			defer c.Close()
			c.Timeout = 5 * time.Second
			tok := ci * 1000000
			key := "c" + strconv.Itoa(ci)
			for time.Now().Before(stopAt) || point != "" {
				tok++
				id := "o" + strconv.Itoa(rr.Intn(4))
				ts := strconv.Itoa(tok)
				var cmd []string
				a := ack{key: key, id: id, tok: tok}
				switch rr.Intn(5) {
				case 0:
					cmd = []string{"SET", key, id, "FIELD", "t1", ts, "FIELD", "t2", ts, "STRING", ts}
					a.multi = true
				case 1:
					cmd = []string{"EVAL", `tile38.call('set', KEYS[1], ARGV[1], 'field', 't1', ARGV[2], 'field', 't2', ARGV[2], 'string', ARGV[2]); return 1`, "1", key, id, ts}
					a.multi = true
				case 2:
					cmd = []string{"SET", key, id, "FIELD", "t1", ts, "FIELD", "t2", ts, "EX", "5000", "STRING", ts}
					a.multi = true
				default:
					cmd = []string{"SET", key, id, "FIELD", "t1", ts, "FIELD", "t2", ts, "STRING", ts}
					a.multi = true
				}
				mu.Lock()
				inflight[key+"/"+id] = a
				mu.Unlock()
				rep, err := c.Do(cmd...)
				if err != nil {
					return
				}
				if rep.IsErr() || rep.Nil {
					continue
				}
				mu.Lock()
				acked[key+"/"+id] = a
				delete(inflight, key+"/"+id)
				total++
				mu.Unlock()
				if point != "" && tok-ci*1000000 > 5000 {
					return
				}
			}
		}(ci)
	}
	if point == "" {
		time.Sleep(time.Until(stopAt) - time.Duration(r.Intn(200))*time.Millisecond)
		s.Kill9()
	} else {
		if !s.WaitExit(30 * time.Second) {
			ctx.Count("crash_point_not_reached", 1)
			s.Kill9()
		} else {
			ctx.Count("crash_point_hit:"+point, 1)
		}
	}
	wg.Wait()
	s2, err := s.Restart()
	if err != nil {
		ctx.Violation("restart-fails:"+how, "server does not start after "+how+": "+err.Error(), nil)
		return
	}
	defer s2.Kill9()
	st, err := dump.Take(s2.Addr(), dump.Opts{})
	if err != nil {
		ctx.Inconclusive("dump after crash: " + err.Error())
		return
	}
	ctx.Eval(1)
	ctx.Count("kills_under_load", 1)
	ctx.Count("acked_writes", total)
	got := map[string]dump.Object{}
	for k, objs := range st.Cols {
		for _, o := range objs {
			got[k+"/"+o.ID] = o
		}
	}
	bad := 0
	for ko, a := range acked {
		o, ok := got[ko]
		if !ok {
			ctx.Violation("acked-write-lost:"+how, fmt.Sprintf("acknowledged write %s tok=%d missing after %s and restart", ko, a.tok, how), map[string]any{"how": how})
			bad++
			continue
		}
		tok, _ := strconv.Atoi(o.Text)
		allowed := tok == a.tok
		if f, ok := inflight[ko]; ok && tok == f.tok {
			allowed = true
		}
		if !allowed {
			ctx.Violation("acked-write-lost:"+how, fmt.Sprintf("object %s holds token %d after restart; last acknowledged %d (in flight: %v)", ko, tok, a.tok, inflight[ko]), map[string]any{"how": how})
			bad++
		}
		// partial application: both fields and the value carry the same token
		fm := map[string]string{}
		for i := 0; i+1 < len(o.Fields); i += 2 {
			fm[o.Fields[i]] = o.Fields[i+1]
		}
		if fm["t1"] != o.Text || fm["t2"] != o.Text {
			ctx.Violation("partial-write:"+how, fmt.Sprintf("object %s partially applied after restart: value %s fields %v", ko, o.Text, o.Fields), map[string]any{"how": how})
			bad++
		}
		if bad > 3 {
			break
		}
	}
	// replay equivalence: the recovered state equals a model replay of the recovered file
	entries, _, okp, err := aoflog.ReadFile(s2.AOFPath())
	if err == nil && okp {
		m := kmodel.New()
		unknown := false
		for _, e := range entries {
			if _, known := m.Apply(e.Args); !known {
				unknown = true
			}
		}
		if !unknown {
			// deadlines: EX 5000 objects
			if d := m.CompareDump(st); d != "" {
				ctx.Violation("replay-divergence:"+how, "recovered state differs from a model replay of the recovered log: "+d, map[string]any{"how": how, "entries": len(entries)})
			}
			ctx.Count("log_replays_compared", 1)
		}
	} else if err == nil && !okp {
		ctx.Violation("log-malformed:"+how, "appendonly.aof is malformed (not merely truncated) after "+how, nil)
	}
	if total >= 3 {
		ctx.Distinct(how + "|conns=" + strconv.Itoa(nconn))
	}
	os.Remove(s2.AOFPath() + ".tmp")
}

// ackThenKill: one acknowledged write, the process killed the moment its +OK
// arrives, restart, the write must be there. The write travels alone, behind
// another write, or in one packet with a command that turns the connection into
// a stream (SUBSCRIBE, PSUBSCRIBE, a live fence, MONITOR) - the reply paths of
// the connection loop differ between these.
func ackThenKill(ctx *core.Ctx, bin string) {
	shapes := []struct {
		name string
		tail [][]string
	}{
		{"alone", nil},
		{"then-ping", [][]string{{"PING"}}},
		{"then-subscribe", [][]string{{"SUBSCRIBE", "akch"}}},
		{"then-psubscribe", [][]string{{"PSUBSCRIBE", "ak*"}}},
		{"then-live-fence", [][]string{{"NEARBY", "akf", "FENCE", "POINT", "33", "-112", "1000"}}},
		{"then-monitor", [][]string{{"MONITOR"}}},
		{"then-quit", [][]string{{"QUIT"}}},
	}
	rounds := ctx.Pick(2, 8)
	for _, sh := range shapes {
		s, err := srv.Start(srv.Opts{Bin: bin})
		if err != nil {
			ctx.Inconclusive("ack-then-kill: " + err.Error())
			return
		}
		for round := 0; round < rounds; round++ {
			tok := fmt.Sprintf("ak-%s-%d", sh.name, round)
			c, err := respc.Dial(s.Addr(), 5*time.Second)
			if err != nil {
				ctx.Inconclusive("ack-then-kill: " + err.Error())
				s.Kill9()
				return
			}
			var buf []byte
			buf = append(buf, respc.Encode("SET", "akk", "o"+strconv.Itoa(round), "FIELD", "n", strconv.Itoa(round+1), "STRING", tok)...)
			for _, t := range sh.tail {
				buf = append(buf, respc.Encode(t...)...)
			}
			c.WriteRaw(buf)
			rp, err := c.RecvTimeout(5 * time.Second)
			s.Kill9()
			c.Close()
			if err != nil || rp.IsErr() {
				ctx.Inconclusive(fmt.Sprintf("ack-then-kill %s: no acknowledgement: %v %s", sh.name, err, rp.String()))
				return
			}
			s2, err := s.Restart()
			if err != nil {
				ctx.Violation("restart-fails:ack-then-kill", "server does not start after kill -9 behind an acknowledged write ("+sh.name+"): "+err.Error(), nil)
				return
			}
			s = s2
			c2, err := respc.Dial(s.Addr(), 5*time.Second)
			if err != nil {
				ctx.Inconclusive("ack-then-kill: " + err.Error())
				s.Kill9()
				return
			}
			got, _ := c2.Do("GET", "akk", "o"+strconv.Itoa(round))
			c2.Close()
			ctx.Eval(1)
			ctx.Count("ack_then_kill_rounds", 1)
			ctx.Distinct("ack-then-kill|" + sh.name)
			if got.Str != tok {
				ctx.Violation("acked-write-lost:ack-then-kill:"+sh.name, fmt.Sprintf("`SET akk o%d FIELD n %d STRING %s` (%s, one packet) was acknowledged with %s, the process was killed right after the reply, and after the restart GET answers %s", round, round+1, tok, sh.name, rp.String(), got.String()),
					map[string]any{"shape": sh.name, "packet": string(buf)})
				s.Kill9()
				return
			}
		}
		s.Kill9()
	}
}

// Run is the C03 check.
func Run(ctx *core.Ctx) {
	ctx.Rule = "command matrix: every data-modifying command (directly, and each script-callable one from EVAL/EVALSHA/EVALNA/EVALNASHA) is the LAST write to a dedicated key, then stop (SIGTERM and kill -9), restart, per-row dump comparison; quiescent cases: generated history over every data-modifying command (SET/FSET/DEL/PDEL/DROP/RENAME/RENAMENX/FLUSHDB/EXPIRE/PERSIST/JSET/JDEL, SETHOOK/SETCHAN/DELHOOK/PDELHOOK/DELCHAN/PDELCHAN, EVAL/EVALSHA/EVALNA/EVALNASHA scripts that write, short TTLs that expire before the stop), API dump before stop (SIGTERM or kill -9) vs after restart, plus a second restart; load cases: 2-7 connections writing unique tokens, kill -9 at a PRNG instant or self-kill at a named crash point, then: every acknowledged token present (or a later in-flight one), no partially applied object, recovered state == model replay of the recovered log. non-trivial = history with >= 4 command kinds and >= 1 object / load case with >= 3 acknowledged writes; distinct key = (stop kind, set of command kinds) / (crash kind, connections)"
	ctx.Assumptions = []string{"kill -9 does not drop the page cache (no power-loss semantics)", "short TTLs (<= 0.4 s) have been swept before the first dump (checked by a stable double dump)"}
	bin, err := srv.Build("plain")
	if err != nil {
		ctx.Fatal("%v", err)
	}
	sink, err = httpsink.Start()
	if err != nil {
		ctx.Fatal("%v", err)
	}
	defer sink.Close()
	matrix(ctx, bin, "sigterm", false)
	matrix(ctx, bin, "kill9", false)
	matrix(ctx, bin, "sigterm", true)
	shaFenceRow(ctx, bin)
	ackThenKill(ctx, bin)
	nq := ctx.Pick(10, 300)
	par := 6
	var wg sync.WaitGroup
	sem := make(chan struct{}, par)
	// quiescent cases use ctx.Rng sequentially for determinism → run serially but cheaply
	for i := 0; i < nq && ctx.Violations() < 10; i++ {
		quiescent(ctx, bin, i)
	}
	nl := ctx.Pick(16, 300)
	points := []string{"", "aof.afterAppend", "", "aof.afterFlush", "", "prewrite.afterFlush", "prewrite.beforeSend", "prewrite.afterClear"}
	for i := 0; i < nl; i++ {
		wg.Add(1)
		sem <- struct{}{}
		go func(i int) {
			defer wg.Done()
			defer func() { <-sem }()
			underLoad(ctx, bin, i, points[i%len(points)])
		}(i)
	}
	wg.Wait()
}
