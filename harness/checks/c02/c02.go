// Package c02: WITHIN / INTERSECTS return exactly the objects for which the
// index-free per-object predicate (TEST) holds (DESIGN.md section 4, C02).
package c02

import (
	"encoding/json"
	"fmt"
	"hash/fnv"
	"math"
	"math/rand"
	"os"
	"os/exec"
	"path/filepath"
	"sort"
	"strconv"
	"strings"
	"sync"
	"time"

	"verifharness/core"
	"verifharness/geo"
	"verifharness/respc"
	"verifharness/srv"
)

var objKinds = []string{"point", "point", "point", "pointz", "bounds", "bounds", "hash", "line", "polygon", "concave", "holed", "multipoint", "multiline", "multipolygon", "collection", "feature", "fcollection"}

type dataset struct {
	idx   int
	key   string
	akey  string // auxiliary collection holding GET areas
	aids  []string
	aobjs map[string]geo.Obj
	objs  map[string]geo.Obj
	log   [][]string
	reg   geo.Region
	gen   *geo.Gen
	agen  *geo.Gen // area generator (same region, shares the pools)
	hash  string
	ghost []geo.Rect
}

type worker struct {
	ctx *core.Ctx
	bin string
	s   *srv.Server
	c   *respc.Conn
	cur *dataset
}

func (w *worker) connect() error {
	if w.s == nil || !w.s.Alive() {
		s, err := srv.Start(srv.Opts{Bin: w.bin, Args: []string{"--appendonly", "no"}})
		if err != nil {
			return err
		}
		w.s = s
		w.c = nil
	}
	if w.c == nil {
		c, err := respc.Dial(w.s.Addr(), 5*time.Second)
		if err != nil {
			return err
		}
		c.Timeout = 30 * time.Second
		w.c = c
	}
	return nil
}

func trunc(a []string) []string {
	o := make([]string, len(a))
	for i, s := range a {
		if len(s) > 300 {
			s = s[:300] + "..."
		}
		o[i] = s
	}
	return o
}

// lost handles i/o trouble: C02 is not about crashes or hangs, so the run becomes
// inconclusive (with the crash site when there is one) and the server is replaced.
func (w *worker) lost(args []string, err error) {
	time.Sleep(50 * time.Millisecond)
	why := fmt.Sprintf("i/o error on %q: %v", trunc(args), err)
	if !w.s.Alive() {
		_, site := w.s.Crashed()
		why = fmt.Sprintf("server died on %q: %s", trunc(args), site)
	} else if respc.IsTimeout(err) {
		why = fmt.Sprintf("server did not answer %q within %v (wedged?)", trunc(args), w.c.Timeout)
	}
	if w.cur != nil {
		for i := 1; i+2 < len(args); i++ {
			if args[i] == "GET" && args[i+1] == w.cur.key {
				if o, ok := w.cur.objs[args[i+2]]; ok {
					why += fmt.Sprintf(" [GET object: %q]", o.Args)
				}
				break
			}
		}
	}
	w.ctx.Inconclusive(why)
	w.ctx.Count("server_lost", 1)
	w.c.Close()
	w.c = nil
	w.s.Kill9()
}

func (w *worker) do(args ...string) (respc.Reply, bool) {
	r, err := w.c.Do(args...)
	if err != nil {
		w.lost(args, err)
		return respc.Reply{}, false
	}
	return r, true
}

// pipeline sends all commands in chunks and returns the replies.
func (w *worker) pipeline(cmds [][]string) ([]respc.Reply, bool) {
	out := make([]respc.Reply, 0, len(cmds))
	const chunk = 128
	for i := 0; i < len(cmds); i += chunk {
		end := i + chunk
		if end > len(cmds) {
			end = len(cmds)
		}
		for _, c := range cmds[i:end] {
			if err := w.c.Send(c...); err != nil {
				w.lost(c, err)
				return nil, false
			}
		}
		for j := i; j < end; j++ {
			r, err := w.c.Recv()
			if err != nil {
				w.lost(cmds[j], err)
				return nil, false
			}
			out = append(out, r)
		}
	}
	return out, true
}

func (w *worker) set(d *dataset, id string, o geo.Obj) bool {
	cmd := append([]string{"SET", d.key, id}, o.Args...)
	d.log = append(d.log, cmd)
	r, ok := w.do(cmd...)
	if !ok {
		return false
	}
	if r.IsErr() {
		w.ctx.Inconclusive(fmt.Sprintf("SET rejected a generated object: %s for %q", r.Str, trunc(cmd)))
		return false
	}
	if old, had := d.objs[id]; had && old.HasRect {
		d.ghost = append(d.ghost, old.Rect)
	}
	d.objs[id] = o
	return true
}

func (w *worker) del(d *dataset, id string) bool {
	cmd := []string{"DEL", d.key, id}
	d.log = append(d.log, cmd)
	if _, ok := w.do(cmd...); !ok {
		return false
	}
	if old, had := d.objs[id]; had && old.HasRect {
		d.ghost = append(d.ghost, old.Rect)
	}
	delete(d.objs, id)
	return true
}

func sortedIDs(m map[string]geo.Obj) []string {
	ids := make([]string, 0, len(m))
	for k := range m {
		ids = append(ids, k)
	}
	sort.Strings(ids)
	return ids
}

// build drives a random history on a fresh key.
func (w *worker) build(d *dataset, rng *rand.Rand, thorough bool) bool {
	ctx := w.ctx
	target := []int{4, 12, 30, 70, 110, 160, 300}[rng.Intn(7)]
	if thorough && rng.Intn(8) == 0 {
		target = 400 + rng.Intn(600)
	}
	nids := target + target/3 + 2
	mix := rng.Intn(5) // 0: points only, 1: points+rects, else everything
	pick := func() geo.Obj {
		switch x := rng.Intn(40); {
		case x == 0:
			return d.gen.Object("string")
		case x == 1:
			return d.gen.Object("empty")
		}
		switch mix {
		case 0:
			return d.gen.Object("point")
		case 1:
			return d.gen.Object([]string{"point", "bounds", "pointz"}[rng.Intn(3)])
		}
		return d.gen.Object(objKinds[rng.Intn(len(objKinds))])
	}
	id := func() string { return "o" + strconv.Itoa(rng.Intn(nids)) }
	nops := target*2 + rng.Intn(target+1)
	dropAt := -1
	if rng.Intn(3) == 0 {
		dropAt = rng.Intn(nops/2 + 1)
	}
	for i := 0; i < nops; i++ {
		switch x := rng.Intn(100); {
		case x < 50: // insert, or overwrite with whatever kind comes
			k := id()
			o := pick()
			if old, ok := d.objs[k]; ok {
				if old.Kind != o.Kind {
					ctx.Count("op_overwrite_other_kind", 1)
				} else {
					ctx.Count("op_move", 1)
				}
			} else {
				ctx.Count("op_insert", 1)
			}
			if !w.set(d, k, o) {
				return false
			}
		case x < 70: // move: same kind, new place
			k := id()
			if old, ok := d.objs[k]; ok {
				ctx.Count("op_move", 1)
				if !w.set(d, k, d.gen.Object(old.Kind)) {
					return false
				}
			} else {
				ctx.Count("op_insert", 1)
				if !w.set(d, k, pick()) {
					return false
				}
			}
		case x < 76: // exact copy of an existing object under another id
			if ids := sortedIDs(d.objs); len(ids) > 0 {
				ctx.Count("op_copy", 1)
				if !w.set(d, id(), d.objs[ids[rng.Intn(len(ids))]]) {
					return false
				}
			}
		case x < 80: // same object again (replace by an equal one)
			if ids := sortedIDs(d.objs); len(ids) > 0 {
				k := ids[rng.Intn(len(ids))]
				ctx.Count("op_rewrite_same", 1)
				if !w.set(d, k, d.objs[k]) {
					return false
				}
			}
		default:
			ctx.Count("op_delete", 1)
			if !w.del(d, id()) {
				return false
			}
		}
		if i == dropAt && len(d.objs) > 0 {
			ctx.Count("op_drop", 1)
			cmd := []string{"DROP", d.key}
			d.log = append(d.log, cmd)
			if _, ok := w.do(cmd...); !ok {
				return false
			}
			for _, k := range sortedIDs(d.objs) {
				if o := d.objs[k]; o.HasRect {
					d.ghost = append(d.ghost, o.Rect)
				}
			}
			d.objs = map[string]geo.Obj{}
		}
	}
	if rng.Intn(4) == 0 { // mass delete: the tree collapses
		ids := sortedIDs(d.objs)
		rng.Shuffle(len(ids), func(i, j int) { ids[i], ids[j] = ids[j], ids[i] })
		keep := 1 + rng.Intn(12)
		for i := keep; i < len(ids); i++ {
			ctx.Count("op_delete", 1)
			if !w.del(d, ids[i]) {
				return false
			}
		}
	}
	if rng.Intn(5) == 0 { // the collection changes its name
		nk := d.key + "r"
		cmd := []string{"RENAME", d.key, nk}
		d.log = append(d.log, cmd)
		r, ok := w.do(cmd...)
		if !ok {
			return false
		}
		if !r.IsErr() {
			d.key = nk
			ctx.Count("op_rename", 1)
		}
	}
	h := fnv.New64a()
	for _, k := range sortedIDs(d.objs) {
		h.Write([]byte(k))
		for _, a := range d.objs[k].Args {
			h.Write([]byte(a))
		}
	}
	d.hash = fmt.Sprintf("%08x", h.Sum64()&0xffffffff)
	// auxiliary areas for GET
	for i := 0; i < 6; i++ {
		kind := []string{"polygon", "concave", "holed", "bounds", "multipolygon", "line", "feature", "point", "collection"}[rng.Intn(9)]
		o := d.agen.Object(kind)
		aid := "a" + strconv.Itoa(i)
		cmd := append([]string{"SET", d.akey, aid}, o.Args...)
		d.log = append(d.log, cmd)
		r, ok := w.do(cmd...)
		if !ok {
			return false
		}
		if !r.IsErr() {
			d.aids = append(d.aids, aid)
			d.aobjs[aid] = o
		}
	}
	return true
}

// ---- query areas

type area struct {
	kind    string
	args    []string // e.g. ["BOUNDS", ...]
	hasLine bool     // the area contains a LineString somewhere
}

func tileOf(lat, lon float64, z int) (x, y int) {
	n := math.Exp2(float64(z))
	lat = math.Max(-85.05112878, math.Min(85.05112878, lat))
	x = int(math.Floor((lon + 180) / 360 * n))
	lr := lat * math.Pi / 180
	y = int(math.Floor((1 - math.Log(math.Tan(lr)+1/math.Cos(lr))/math.Pi) / 2 * n))
	m := int(n) - 1
	if x < 0 {
		x = 0
	}
	if x > m {
		x = m
	}
	if y < 0 {
		y = 0
	}
	if y > m {
		y = m
	}
	return
}

func quadkey(x, y, z int) string {
	b := make([]byte, 0, z)
	for i := z; i > 0; i-- {
		c := byte('0')
		m := 1 << (i - 1)
		if x&m != 0 {
			c++
		}
		if y&m != 0 {
			c += 2
		}
		b = append(b, c)
	}
	return string(b)
}

const b32 = "0123456789bcdefghjkmnpqrstuvwxyz"

func geohash(lat, lon float64, n int) string {
	la0, la1, lo0, lo1 := -90.0, 90.0, -180.0, 180.0
	var sb strings.Builder
	even := true
	bit, ch := 0, 0
	for sb.Len() < n {
		if even {
			m := (lo0 + lo1) / 2
			if lon >= m {
				ch = ch<<1 | 1
				lo0 = m
			} else {
				ch <<= 1
				lo1 = m
			}
		} else {
			m := (la0 + la1) / 2
			if lat >= m {
				ch = ch<<1 | 1
				la0 = m
			} else {
				ch <<= 1
				la1 = m
			}
		}
		even = !even
		bit++
		if bit == 5 {
			sb.WriteByte(b32[ch])
			bit, ch = 0, 0
		}
	}
	return sb.String()
}

// anchor returns a position that matters for the dataset: an object coordinate,
// a former position, or a fresh draw from the region.
func (d *dataset) anchor(rng *rand.Rand) (lat, lon float64) {
	switch x := rng.Intn(10); {
	case x < 6:
		return d.gen.PoolLat(), d.gen.PoolLon()
	case x < 8 && len(d.ghost) > 0:
		g := d.ghost[rng.Intn(len(d.ghost))]
		return g.MinLat, g.MinLon
	}
	return d.gen.RawLatLon()
}

func (d *dataset) rectArea(rng *rand.Rand, kinds []string) area {
	kind := kinds[rng.Intn(len(kinds))]
	switch kind {
	case "BOUNDS":
		var a, b, c, e float64
		switch x := rng.Intn(20); {
		case x == 0:
			a, b, c, e = -90, -180, 90, 180
		case x < 4 && len(d.ghost) > 0: // where something used to be
			g := d.ghost[rng.Intn(len(d.ghost))]
			pad := []float64{0, 0, 1e-9, 1e-4, 0.1}[rng.Intn(5)]
			a, b, c, e = g.MinLat-pad, g.MinLon-pad, g.MaxLat+pad, g.MaxLon+pad
		case x < 6: // degenerate: a point or a line
			a, b = d.anchor(rng)
			c, e = a, b
			if rng.Intn(2) == 0 {
				e = d.gen.PoolLon()
			}
		default: // edges on object coordinates
			a, b = d.anchor(rng)
			c, e = d.anchor(rng)
		}
		if a > c {
			a, c = c, a
		}
		if b > e {
			b, e = e, b
		}
		a, c = math.Max(a, -90), math.Min(c, 90)
		b, e = math.Max(b, -180), math.Min(e, 180)
		return area{kind: "BOUNDS", args: []string{"BOUNDS", geo.F(a), geo.F(b), geo.F(c), geo.F(e)}}
	case "TILE":
		la, lo := d.anchor(rng)
		z := rng.Intn(24)
		if d.reg.Spread < 0 {
			z = rng.Intn(8)
		}
		x, y := tileOf(la, lo, z)
		return area{kind: "TILE", args: []string{"TILE", strconv.Itoa(x), strconv.Itoa(y), strconv.Itoa(z)}}
	case "QUADKEY":
		la, lo := d.anchor(rng)
		z := 1 + rng.Intn(23)
		if d.reg.Spread < 0 {
			z = 1 + rng.Intn(7)
		}
		x, y := tileOf(la, lo, z)
		return area{kind: "QUADKEY", args: []string{"QUADKEY", quadkey(x, y, z)}}
	default: // HASH
		la, lo := d.anchor(rng)
		n := 1 + rng.Intn(12)
		if d.reg.Spread < 0 {
			n = 1 + rng.Intn(3)
		}
		return area{kind: "HASH", args: []string{"HASH", geohash(la, lo, n)}}
	}
}

var rectKinds = []string{"BOUNDS", "BOUNDS", "TILE", "QUADKEY", "HASH"}

func (d *dataset) genArea(rng *rand.Rand) area {
	switch x := rng.Intn(100); {
	case x < 34:
		return d.rectArea(rng, rectKinds)
	case x < 46: // CIRCLE
		la, lo := d.anchor(rng)
		var m float64
		switch rng.Intn(5) {
		case 0:
			m = 0
		case 1: // reaches exactly (up to rounding) another object coordinate
			m = geo.Haversine(la, lo, d.gen.PoolLat(), d.gen.PoolLon())
		case 2:
			m = math.Pow(10, rng.Float64()*9-3)
		default:
			sp := d.reg.Spread
			if sp < 0 {
				sp = 30
			}
			m = sp * 111e3 * rng.Float64() * 2
		}
		return area{kind: "CIRCLE", args: []string{"CIRCLE", geo.F(la), geo.F(lo), geo.F(m)}}
	case x < 54: // SECTOR (finite arguments only: non-finite ones wedge the server, D14)
		la, lo := d.anchor(rng)
		sp := d.reg.Spread
		if sp < 0 {
			sp = 30
		}
		m := sp * 111e3 * (0.05 + rng.Float64()*2)
		b1 := math.Round(rng.Float64()*720 - 360)
		b2 := b1 + 1 + math.Round(rng.Float64()*358)
		if rng.Intn(3) == 0 {
			b1, b2 = rng.Float64()*360, rng.Float64()*360
			if b1 == b2 {
				b2 += 10
			}
		}
		return area{kind: "SECTOR", args: []string{"SECTOR", geo.F(la), geo.F(lo), geo.F(m), geo.F(b1), geo.F(b2)}}
	case x < 60: // POINT
		la, lo := d.anchor(rng)
		return area{kind: "POINT", args: []string{"POINT", geo.F(la), geo.F(lo)}}
	case x < 72: // GET
		if rng.Intn(2) == 0 && len(d.aids) > 0 {
			aid := d.aids[rng.Intn(len(d.aids))]
			return area{"GET", []string{"GET", d.akey, aid}, strings.Contains(d.aobjs[aid].JSON, "LineString")}
		}
		ids := sortedIDs(d.objs)
		var cand []string
		for _, k := range ids {
			if o := d.objs[k]; o.Spatial && !o.Empty {
				cand = append(cand, k)
			}
		}
		if len(cand) > 0 {
			id := cand[rng.Intn(len(cand))]
			return area{"GET", []string{"GET", d.key, id}, strings.Contains(d.objs[id].JSON, "LineString")}
		}
		return d.rectArea(rng, rectKinds)
	default: // OBJECT
		kind := []string{"polygon", "concave", "concave", "holed", "holed", "multipolygon", "line", "multiline", "multipoint", "feature", "collection", "fcollection"}[rng.Intn(12)]
		o := d.agen.Object(kind)
		return area{"OBJECT:" + kind, []string{"OBJECT", o.JSON}, strings.Contains(o.JSON, "LineString")}
	}
}

// hasZeroLengthLineSegment reports a LineString / MultiLineString anywhere in the
// GeoJSON text with two equal consecutive positions.
func hasZeroLengthLineSegment(js string) bool {
	var v any
	if err := json.Unmarshal([]byte(js), &v); err != nil {
		return false
	}
	dupLine := func(c any) bool {
		arr, _ := c.([]any)
		for i := 1; i < len(arr); i++ {
			a, _ := arr[i-1].([]any)
			b, _ := arr[i].([]any)
			if len(a) >= 2 && len(b) >= 2 && a[0] == b[0] && a[1] == b[1] {
				return true
			}
		}
		return false
	}
	var walk func(x any) bool
	walk = func(x any) bool {
		switch t := x.(type) {
		case map[string]any:
			switch t["type"] {
			case "LineString":
				if dupLine(t["coordinates"]) {
					return true
				}
			case "MultiLineString":
				if arr, ok := t["coordinates"].([]any); ok {
					for _, l := range arr {
						if dupLine(l) {
							return true
						}
					}
				}
			}
			for _, c := range t {
				if walk(c) {
					return true
				}
			}
		case []any:
			for _, c := range t {
				if walk(c) {
					return true
				}
			}
		}
		return false
	}
	return walk(v)
}

func bucket(n int) string {
	switch {
	case n == 0:
		return "0"
	case n == 1:
		return "1"
	case n <= 4:
		return "2-4"
	case n <= 16:
		return "5-16"
	case n <= 64:
		return "17-64"
	}
	return "65+"
}

func idsOf(r respc.Reply) ([]string, error) {
	if r.Kind != '*' || len(r.Arr) != 2 || r.Arr[1].Kind != '*' {
		return nil, fmt.Errorf("unexpected reply shape %s", r.String())
	}
	out := make([]string, 0, len(r.Arr[1].Arr))
	for _, e := range r.Arr[1].Arr {
		if e.Kind == '*' {
			return nil, fmt.Errorf("unexpected element %s", e.String())
		}
		out = append(out, e.Str)
	}
	return out, nil
}

func (w *worker) runDataset(idx int) {
	ctx := w.ctx
	rng := ctx.SubRng(int64(idx))
	if err := w.connect(); err != nil {
		ctx.Inconclusive("cannot start server: " + err.Error())
		return
	}
	reg := geo.RandomRegion(rng)
	gen := &geo.Gen{Rng: rng, Reg: reg}
	d := &dataset{idx: idx, key: fmt.Sprintf("c02_%d", idx), akey: fmt.Sprintf("c02a_%d", idx), objs: map[string]geo.Obj{}, aobjs: map[string]geo.Obj{}, reg: reg, gen: gen}
	d.agen = &geo.Gen{Rng: rng, Reg: reg, NoPool: true}
	w.cur = d
	if idx%3 == 0 {
		// GeoJSON whose coordinates are not numbers (null reads as NaN, 1e999 as +Inf): refusing it is
		// fine; if it is accepted it is one more stored object, and the searches over the history
		// that follows must stay exact
		bad := []string{`{"type":"Point","coordinates":[10,null]}`, `{"type":"Point","coordinates":[1e999,0]}`, `{"type":"MultiPoint","coordinates":[[null,1],[2,2]]}`,
			`{"type":"Feature","geometry":{"type":"Point","coordinates":[1,null]},"properties":{}}`, `{"type":"LineString","coordinates":[[0,0],[null,null]]}`}[rng.Intn(5)]
		cmd := []string{"SET", d.key, "zz-nonfinite", "OBJECT", bad}
		if rp, ok := w.do(cmd...); ok && !rp.IsErr() {
			d.log = append(d.log, cmd)
			ctx.Count("nonfinite_geojson_accepted", 1)
		} else {
			ctx.Count("nonfinite_geojson_refused", 1)
		}
	}
	if !w.build(d, rng, ctx.Thorough()) {
		return
	}
	d.agen.Lats, d.agen.Lons, d.agen.PoolBias = gen.Lats, gen.Lons, 50
	defer func() {
		if w.c != nil {
			w.c.Do("DROP", d.key)
			w.c.Do("DROP", d.akey)
		}
	}()
	// the population is what the server says the collection holds
	r, ok := w.do("SCAN", d.key, "LIMIT", "100000000", "IDS")
	if !ok {
		return
	}
	var pop []string
	if r.Kind == '*' && len(r.Arr) == 2 {
		var err error
		if pop, err = idsOf(r); err != nil {
			ctx.Inconclusive("SCAN: " + err.Error())
			return
		}
	}
	inPop := map[string]bool{}
	for _, id := range pop {
		inPop[id] = true
	}
	nspatial := 0
	for _, id := range pop {
		if o, ok := d.objs[id]; ok {
			ctx.Count("objkind_"+o.Kind, 1)
			if o.Spatial && !o.Empty {
				nspatial++
			}
		}
	}
	ctx.Count("datasets", 1)
	ctx.Count("region_"+reg.Name, 1)
	if nspatial > 64 {
		ctx.Count("datasets_multilevel_tree", 1)
	}
	nq := ctx.Pick(60, 200)
	reported := 0
	for qi := 0; qi < nq; qi++ {
		cmd := "WITHIN"
		if rng.Intn(2) == 0 {
			cmd = "INTERSECTS"
		}
		a := d.genArea(rng)
		if a.hasLine && cmd == "WITHIN" {
			// WITHIN a line area runs geometry.Line.ContainsLine on every stored line, which never
			// returns for common pairs (shared segment then a turn at a vertex, back-tracking or
			// zero-length segments): the server wedges (separate finding). Line areas are therefore
			// only queried with INTERSECTS.
			cmd = "INTERSECTS"
			ctx.Count("within_line_area_avoided", 1)
		}
		label := a.kind
		qargs := append([]string{}, a.args...)
		targs := a.args // area as TEST sees it
		clip := ""
		if rng.Intn(5) == 0 {
			// the clipped area, from the index-free side: TEST <area> INTERSECTS CLIP <rect>
			found := false
			for try := 0; try < 4 && !found; try++ {
				cl := d.rectArea(rng, rectKinds)
				tc := append(append(append([]string{"TEST"}, a.args...), "INTERSECTS", "CLIP"), cl.args...)
				cr, ok := w.do(tc...)
				if !ok {
					return
				}
				if cr.Kind != '*' || len(cr.Arr) != 2 || cr.Arr[0].Int != 1 {
					ctx.Count("clipby_area_disjoint_or_rejected", 1)
					continue
				}
				if strings.Contains(cr.Arr[1].Str, "LineString") || hasZeroLengthLineSegment(cr.Arr[1].Str) {
					// a clipped line shares whole segments with the stored line it came from and then
					// leaves it at a vertex (and may repeat a vertex): tile38's line-in-line test
					// (geometry.Line.ContainsLine) spins forever on such a pair, for TEST as well as for
					// the search, and the server wedges (separate finding) - not usable as an area here
					ctx.Count("clipby_skipped_line_area", 1)
					continue
				}
				found = true
				clip = cl.kind
				qargs = append(append(qargs, "CLIPBY"), cl.args...)
				targs = []string{"OBJECT", cr.Arr[1].Str}
				// a second CLIPBY clause: the area is clipped by both rectangles, one after the other
				if rng.Intn(2) == 0 {
					for try2 := 0; try2 < 4; try2++ {
						cl2 := d.rectArea(rng, rectKinds)
						tc2 := append([]string{"TEST", "OBJECT", cr.Arr[1].Str, "INTERSECTS", "CLIP"}, cl2.args...)
						cr2, ok := w.do(tc2...)
						if !ok {
							return
						}
						if cr2.Kind != '*' || len(cr2.Arr) != 2 || cr2.Arr[0].Int != 1 || strings.Contains(cr2.Arr[1].Str, "LineString") || hasZeroLengthLineSegment(cr2.Arr[1].Str) {
							continue
						}
						qargs = append(append(qargs, "CLIPBY"), cl2.args...)
						targs = []string{"OBJECT", cr2.Arr[1].Str}
						clip += "+" + cl2.kind
						ctx.Count("clipby_twice", 1)
						break
					}
				}
			}
			if !found {
				continue
			}
			label += "+CLIPBY"
			ctx.Count("clipby_"+clip, 1)
		}
		full := append([]string{cmd, d.key, "LIMIT", "100000000", "IDS"}, qargs...)
		qr, ok := w.do(full...)
		if !ok {
			return
		}
		if qr.IsErr() {
			ctx.Count("area_rejected", 1)
			continue
		}
		got, err := idsOf(qr)
		if err != nil {
			ctx.Inconclusive(fmt.Sprintf("%v for %q", err, trunc(full)))
			return
		}
		// per-object predicate
		tests := make([][]string, 0, len(pop))
		for _, id := range pop {
			tests = append(tests, append([]string{"TEST", "GET", d.key, id, cmd}, targs...))
		}
		trs, ok := w.pipeline(tests)
		if !ok {
			return
		}
		ctx.Count("test_evaluations", int64(len(tests)))
		match := map[string]bool{}
		known := map[string]bool{}
		rejected := false
		for i, tr := range trs {
			if tr.Kind == ':' {
				known[pop[i]] = true
				if tr.Int == 1 {
					match[pop[i]] = true
				}
			} else if i == 0 && tr.IsErr() {
				rejected = true
			}
		}
		if rejected && len(known) == 0 {
			ctx.Count("area_rejected_by_test", 1)
			continue
		}
		ctx.Eval(1)
		ctx.Count("queries_"+strings.ToLower(cmd), 1)
		ctx.Count("area_"+a.kind, 1)
		report := func(key, what string, extra map[string]any) {
			reported++
			if reported > 3 {
				return
			}
			exp := make([]string, 0, len(match))
			for id := range match {
				exp = append(exp, id)
			}
			sort.Strings(exp)
			rp := map[string]any{"commands": append(append([][]string{}, d.log...), full), "query": full, "test_area": targs, "got": got, "expected_by_TEST": exp}
			for k, v := range extra {
				rp[k] = v
			}
			ctx.Violation(key, fmt.Sprintf("dataset %d (%s, %d objects) %q: %s", idx, reg.Name, len(pop), trunc(full), what), rp)
		}
		class := strings.ToLower(cmd) + ":" + strings.ToLower(strings.SplitN(a.kind, ":", 2)[0])
		if clip != "" {
			class += "+clipby"
		}
		seen := map[string]bool{}
		bad := false
		for _, id := range got {
			switch {
			case seen[id]:
				report("duplicate:"+class, fmt.Sprintf("id %q returned twice", id), nil)
				bad = true
			case !inPop[id]:
				report("invented-absent:"+class, fmt.Sprintf("returned id %q is not in the collection (SCAN)", id), nil)
				bad = true
			case known[id] && !match[id]:
				report("invented:"+class, fmt.Sprintf("returned id %q (%s) but TEST GET %s %s %s <area> = 0", id, d.objs[id].Kind, d.key, id, cmd), map[string]any{"object": trunc(d.objs[id].Args)})
				bad = true
			}
			seen[id] = true
			if bad {
				break
			}
		}
		if !bad {
			for _, id := range pop {
				if match[id] && !seen[id] {
					if o, ok := d.objs[id]; ok && (o.Empty || !o.Spatial) {
						continue // empty geometries and strings are not spatial results
					}
					if id == "zz-nonfinite" {
						continue // a geometry with NaN / infinite coordinates has no place in an index: never required
					}
					key := "lost:" + class
					if strings.HasPrefix(a.kind, "CIRCLE") {
						// scenario class: the candidate rectangle of a CIRCLE area is the bounding box of a
						// planar 64-gon (no pole / antimeridian handling), the predicate is the haversine disc
						key = "lost:circle-search-rect"
					}
					report(key, fmt.Sprintf("id %q (%s) not returned but TEST GET %s %s %s <area> = 1", id, d.objs[id].Kind, d.key, id, cmd), map[string]any{"object": trunc(d.objs[id].Args)})
					bad = true
					break
				}
			}
		}
		if bad {
			if ctx.Violations() > 20 {
				return
			}
			continue
		}
		if len(got) > 0 || len(match) > 0 {
			ctx.Count("results_nonempty", 1)
			if len(got) < nspatial {
				ctx.Count("results_proper_subset", 1)
			}
			ctx.Distinct(strings.ToLower(cmd) + "|" + label + clip + "|" + d.hash + "|" + bucket(len(got)))
		}
		if idx < 6 && qi%17 == 5 && len(got) > 0 {
			g := got
			if len(g) > 6 {
				g = g[:6]
			}
			ctx.Sample(map[string]any{"query": trunc(full), "objects": len(pop), "returned": len(got), "first": g, "test_true": len(match)})
		}
		// SPARSE only thins
		if rng.Intn(4) == 0 {
			sp := 1 + rng.Intn(6)
			sfull := append([]string{cmd, d.key, "SPARSE", strconv.Itoa(sp), "IDS"}, qargs...)
			sr, ok := w.do(sfull...)
			if !ok {
				return
			}
			if sr.IsErr() {
				ctx.Count("sparse_rejected", 1)
				continue
			}
			sgot, err := idsOf(sr)
			if err != nil {
				ctx.Inconclusive(fmt.Sprintf("%v for %q", err, trunc(sfull)))
				return
			}
			ctx.Eval(1)
			ctx.Count("sparse_queries", 1)
			sseen := map[string]bool{}
			for _, id := range sgot {
				if sseen[id] {
					full = sfull
					report("sparse-duplicate:"+class, fmt.Sprintf("SPARSE %d returned id %q twice", sp, id), map[string]any{"sparse_got": sgot})
					break
				}
				sseen[id] = true
				if !inPop[id] || (known[id] && !match[id]) {
					full = sfull
					report("sparse-invented:"+class, fmt.Sprintf("SPARSE %d returned id %q which does not satisfy the predicate", sp, id), map[string]any{"sparse_got": sgot})
					break
				}
			}
			if len(sgot) > 0 {
				ctx.Distinct("sparse|" + strings.ToLower(cmd) + "|" + label + "|" + d.hash + "|" + bucket(len(sgot)))
				if len(sgot) < len(got) {
					ctx.Count("sparse_thinned", 1)
				}
			}
		}
	}
}

// Run is the C02 check.
func Run(ctx *core.Ctx) {
	ctx.Rule = "each dataset is built on a fresh key by a PRNG history (insert, overwrite with another kind, move, copy, rewrite, delete, optional DROP + recreate, optional mass delete, optional RENAME) of points/rects/geohash points/lines/polygons (concave, holed)/multi-geometries/collections/features/strings/empty geometries (one dataset in three starts with a GeoJSON object whose coordinates are null / 1e999, if the server accepts it) in one region class (world, local cluster down to 1e-7 deg, poles, antimeridian, around 0,0) with float32-hostile coordinates (exact float32 values +-1..2 ulp64, float32 midpoints, shared grid values, float64 denormals); each query is WITHIN or INTERSECTS key LIMIT 1e8 IDS <area> with area in BOUNDS/TILE/QUADKEY/HASH/CIRCLE/SECTOR/POINT/GET/OBJECT (polygon, concave, holed, multi*, line, feature, collections), 1 in 5 with one or two CLIPBY <rect kind> clauses; area edges and centres are taken from object coordinates (exact, +-1 ulp, same float32 gap) and from former positions of moved/deleted objects. Oracle: TEST GET key id WITHIN|INTERSECTS <area> for every id of SCAN (for CLIPBY the area is the object returned by TEST <area> INTERSECTS CLIP <rect>, fed back as OBJECT); the result must equal the ids with TEST = 1 (strings, empty geometries and a geometry with non-finite coordinates are never required), without duplicates; 1 in 4 queries is repeated with SPARSE n and must be a duplicate-free subset. grid layer: TILE/QUADKEY (z 0-20, always incl. the rim cells x,y in {0, 2^z-1}) and HASH (1-10 characters) cells against the rectangle of the grid's public definition: probe points 1/1000 of the cell size inside and outside every edge, WITHIN/INTERSECTS <cell> must return exactly the inside probes. non-trivial = query with a non-empty result or a non-empty TEST-true set; distinct key = (command, area kind [+clipby kind], dataset hash, result size bucket)"
	ctx.Assumptions = []string{
		"coordinates finite and inside [-90,90]x[-180,180]; polygons have fewer than 64 points",
		"SECTOR/CIRCLE arguments finite (non-finite SECTOR arguments wedge the server: separate finding D14); WITHIN key GEO not used (D13)",
		"the oracle is tile38's own index-free predicate, as the property is stated: the geometry predicates themselves are not judged",
		"a CLIPBY query whose area TEST reports as disjoint from the clip rectangle is skipped (no index-free clipped area exists)",
		"areas containing a LineString are queried with INTERSECTS only and never with CLIPBY, and generated lines never repeat a consecutive vertex: geometry.Line.ContainsLine loops forever for common line pairs (inner line follows a segment of the outer one and turns at a vertex; back-tracking or zero-length segments in the outer line), for TEST and search alike, and the server wedges (separate finding)",
		"i/o errors, timeouts and server deaths are inconclusive here, not violations of C02",
	}
	ctx.MinDistinct = 20
	bin, err := srv.Build("plain")
	if err != nil {
		ctx.Fatal("%v", err)
	}
	nds := ctx.Pick(160, 1500)
	nw := 12
	var wg sync.WaitGroup
	next := make(chan int, nds)
	only := -1
	if v := os.Getenv("VERIF_C02_ONLY"); v != "" { // debugging aid: a single dataset
		only, _ = strconv.Atoi(v)
	}
	for i := 0; i < nds; i++ {
		if only < 0 || i == only {
			next <- i
		}
	}
	close(next)
	for wi := 0; wi < nw; wi++ {
		wg.Add(1)
		go func() {
			defer wg.Done()
			w := &worker{ctx: ctx, bin: bin}
			for idx := range next {
				if ctx.Violations() > 20 {
					break
				}
				w.runDataset(idx)
			}
			if w.c != nil {
				w.c.Close()
			}
			if w.s != nil {
				w.s.Kill9()
			}
		}()
	}
	wg.Wait()
	if only < 0 {
		gridAreaProbe(ctx, bin)
		nonFiniteProbe(ctx, bin)
		clipCircleProbe(ctx, bin)
		bufferProbe(ctx, bin)
		circleFeatureProbe(ctx, bin)
	}
	if ctx.Violations() == 0 {
		inPackageLayer(ctx)
	}
}

// InpkgTest is the overlay test file of the second layer (kept outside /repo).
var InpkgTest = filepath.Join(core.VerifDir, "inpkg", "collection", "verif_c02_test.go")

// inPackageLayer runs Collection.Within/Intersects against a predicate Scan inside
// internal/collection by injecting a test file with `go test -overlay` (nothing is
// written to the tree under test). Anything that prevents the layer from running is
// counted as overlay_inconclusive and never decides the property.
func inPackageLayer(ctx *core.Ctx) {
	inconclusive := func(why string) {
		ctx.Count("overlay_inconclusive", 1)
		ctx.Set("overlay_inconclusive_reason", why)
		ctx.Logf("in-package layer inconclusive: %s", why)
	}
	if _, err := os.Stat(InpkgTest); err != nil {
		inconclusive("test file missing: " + err.Error())
		return
	}
	ov := map[string]any{"Replace": map[string]string{filepath.Join(srv.RepoDir, "internal", "collection", "verif_c02_test.go"): InpkgTest}}
	b, _ := json.Marshal(ov)
	ovPath := filepath.Join(srv.WorkDir(), "c02-overlay.json")
	if err := os.WriteFile(ovPath, b, 0o644); err != nil {
		inconclusive(err.Error())
		return
	}
	target := ctx.Pick(200000, 20000000)
	cmd := exec.Command("go", "test", "-v", "-count=1", "-tags", "verif", "-overlay="+ovPath, "-run", "^TestVerifC02IndexVsScan$", "-timeout", "30m", "./internal/collection/")
	cmd.Dir = srv.RepoDir
	cmd.Env = append(os.Environ(), "GOFLAGS=-mod=mod", "GOPROXY=off",
		"VERIF_C02_SEED="+strconv.FormatInt(ctx.Seed, 10), "VERIF_C02_COMPARISONS="+strconv.Itoa(target))
	out, err := cmd.CombinedOutput()
	text := string(out)
	var summary string
	var mism []string
	for _, l := range strings.Split(text, "\n") {
		if strings.HasPrefix(l, "VERIF-C02-SUMMARY ") {
			summary = l
		} else if strings.HasPrefix(l, "VERIF-C02-MISMATCH ") {
			mism = append(mism, l)
		}
	}
	if summary == "" {
		tail := text
		if len(tail) > 1500 {
			tail = tail[len(tail)-1500:]
		}
		inconclusive(fmt.Sprintf("no summary line (err=%v): %s", err, tail))
		return
	}
	kv := map[string]string{}
	for _, f := range strings.Fields(summary)[1:] {
		if i := strings.IndexByte(f, '='); i > 0 {
			kv[f[:i]] = f[i+1:]
		}
	}
	num := func(k string) int64 { n, _ := strconv.ParseInt(kv[k], 10, 64); return n }
	ctx.Count("inpkg_comparisons", num("comparisons"))
	ctx.Count("inpkg_queries", num("queries"))
	ctx.Count("inpkg_datasets", num("datasets"))
	ctx.Count("inpkg_datasets_multilevel_tree", num("multilevel"))
	ctx.Eval(int(num("queries")))
	ctx.Set("inpkg_area_kinds", kv["areas"])
	for _, a := range strings.Split(kv["areas"], ",") {
		if i := strings.IndexByte(a, ':'); i > 0 {
			ctx.Distinct("inpkg|" + a[:i])
		}
	}
	// every mismatch class of the summary becomes one report, with the printed examples
	for _, cl := range strings.Split(kv["classes"], ",") {
		i := strings.LastIndexByte(cl, ':')
		if cl == "" || i < 0 {
			continue
		}
		parts := strings.Split(cl[:i], "/") // kind/cmd/area
		if len(parts) != 3 {
			continue
		}
		key := "inpkg:" + parts[0] + ":" + parts[1] + ":" + parts[2]
		if parts[0] == "lost" && parts[2] == "circle" {
			key = "lost:circle-search-rect"
		}
		var ex []string
		for _, m := range mism {
			if strings.Contains(m, "kind="+parts[0]+" cmd="+parts[1]+" area="+parts[2]+" ") {
				if len(m) > 6000 {
					m = m[:6000] + "..."
				}
				ex = append(ex, m)
			}
		}
		ctx.Violation(key, fmt.Sprintf("in-package layer: Collection.%s and a Scan applying the same predicate differ (%s, area %s): %s cases of %s comparisons", parts[1], parts[0], parts[2], cl[i+1:], kv["comparisons"]),
			map[string]any{"how": "go test -tags verif -overlay=<json> -run TestVerifC02IndexVsScan ./internal/collection/ with VERIF_C02_SEED / VERIF_C02_COMPARISONS", "seed": ctx.Seed, "comparisons": target, "examples": ex, "summary": summary})
	}
}
