package c02

import (
	"fmt"
	"math"
	"sort"
	"strconv"
	"strings"
	"time"

	"verifharness/core"
	"verifharness/respc"
	"verifharness/srv"
)

// gridAreaProbe: TILE, QUADKEY and HASH areas are rectangles of a public grid.
// The TEST predicate and the search share the server's conversion from the
// grid cell to a rectangle, so the main oracle cannot see a wrong conversion.
// Here the rectangle is computed from the grids' public definitions (XYZ web
// mercator tiles; geohash bisection) and probe points a small fraction of the
// cell size inside and outside every edge are loaded; WITHIN <cell> must return
// exactly the inside probes. Cells on the rim of the grid (x or y = 2^z-1, 0)
// are always included.
func gridAreaProbe(ctx *core.Ctx, bin string) {
	s, err := srv.Start(srv.Opts{Bin: bin, Args: []string{"--appendonly", "no"}})
	if err != nil {
		ctx.Inconclusive("grid probe: " + err.Error())
		return
	}
	defer s.Kill9()
	c, err := respc.Dial(s.Addr(), 5*time.Second)
	if err != nil {
		ctx.Inconclusive("grid probe: " + err.Error())
		return
	}
	defer c.Close()
	c.Timeout = 30 * time.Second
	rng := ctx.SubRng(777)

	type cell struct {
		kind                       string
		args                       []string
		minLat, minLon, maxLat, maxLon float64
		rim                        string
	}
	var cells []cell
	tileRect := func(x, y, z int) (a, b, cc, d float64) {
		n := math.Exp2(float64(z))
		lat := func(yy float64) float64 { return math.Atan(math.Sinh(math.Pi*(1-2*yy/n))) * 180 / math.Pi }
		return lat(float64(y + 1)), float64(x)/n*360 - 180, lat(float64(y)), float64(x+1)/n*360 - 180
	}
	for z := 0; z <= 20; z++ {
		m := 1<<z - 1
		xs := map[[2]int]string{{0, 0}: "nw", {m, m}: "se", {m, 0}: "ne", {0, m}: "sw", {m, m / 2}: "e", {m / 2, m}: "s"}
		for i := 0; i < 3; i++ {
			xs[[2]int{rng.Intn(m + 1), rng.Intn(m + 1)}] = "inner"
		}
		keys := make([][2]int, 0, len(xs))
		for k := range xs {
			keys = append(keys, k)
		}
		sort.Slice(keys, func(i, j int) bool { return keys[i][0] < keys[j][0] || keys[i][0] == keys[j][0] && keys[i][1] < keys[j][1] })
		for _, k := range keys {
			a, b, cc, d := tileRect(k[0], k[1], z)
			cells = append(cells, cell{"TILE", []string{"TILE", strconv.Itoa(k[0]), strconv.Itoa(k[1]), strconv.Itoa(z)}, a, b, cc, d, xs[k]})
			if z >= 1 {
				cells = append(cells, cell{"QUADKEY", []string{"QUADKEY", quadkey(k[0], k[1], z)}, a, b, cc, d, xs[k]})
			}
		}
	}
	for n := 1; n <= 10; n++ {
		for i := 0; i < 6; i++ {
			la, lo := rng.Float64()*180-90, rng.Float64()*360-180
			switch i {
			case 0:
				la, lo = 89.9999999, 179.9999999
			case 1:
				la, lo = -89.9999999, -179.9999999
			case 2:
				la, lo = 0.0000001, 179.9999999
			}
			h := geohash(la, lo, n)
			a, b, cc, d := geohashRect(h)
			cells = append(cells, cell{"HASH", []string{"HASH", h}, a, b, cc, d, map[bool]string{true: "rim", false: "inner"}[i < 3]})
		}
	}

	for ci, cl := range cells {
		if ctx.Violations() > 20 {
			return
		}
		key := fmt.Sprintf("grid%d", ci)
		h, w := cl.maxLat-cl.minLat, cl.maxLon-cl.minLon
		const f = 1e-3 // probes sit a thousandth of the cell size from the edges
		type probe struct {
			id       string
			lat, lon float64
			inside   bool
		}
		var ps []probe
		add := func(id string, la, lo float64, in bool) {
			if la < -90 || la > 90 || lo < -180 || lo > 180 {
				return
			}
			ps = append(ps, probe{id, la, lo, in})
		}
		mla, mlo := (cl.minLat+cl.maxLat)/2, (cl.minLon+cl.maxLon)/2
		add("centre", mla, mlo, true)
		add("in-s", cl.minLat+f*h, mlo, true)
		add("in-n", cl.maxLat-f*h, mlo, true)
		add("in-w", mla, cl.minLon+f*w, true)
		add("in-e", mla, cl.maxLon-f*w, true)
		add("in-sw", cl.minLat+f*h, cl.minLon+f*w, true)
		add("in-ne", cl.maxLat-f*h, cl.maxLon-f*w, true)
		add("in-se", cl.minLat+f*h, cl.maxLon-f*w, true)
		add("in-nw", cl.maxLat-f*h, cl.minLon+f*w, true)
		add("out-s", cl.minLat-f*h, mlo, false)
		add("out-n", cl.maxLat+f*h, mlo, false)
		add("out-w", mla, cl.minLon-f*w, false)
		add("out-e", mla, cl.maxLon+f*w, false)
		for _, p := range ps {
			c.Send("SET", key, p.id, "POINT", strconv.FormatFloat(p.lat, 'f', -1, 64), strconv.FormatFloat(p.lon, 'f', -1, 64))
		}
		for range ps {
			if r, err := c.Recv(); err != nil || r.IsErr() {
				ctx.Inconclusive(fmt.Sprintf("grid probe load: %v %s", err, r.String()))
				return
			}
		}
		for _, cmd := range []string{"WITHIN", "INTERSECTS"} {
			q := append([]string{cmd, key, "LIMIT", "1000", "IDS"}, cl.args...)
			r, err := c.Do(q...)
			if err != nil || r.IsErr() || len(r.Arr) != 2 {
				ctx.Inconclusive(fmt.Sprintf("grid probe query %q: %v %s", q, err, r.String()))
				return
			}
			got := map[string]bool{}
			for _, e := range r.Arr[1].Arr {
				got[e.Str] = true
			}
			ctx.Eval(1)
			ctx.Count("grid_cells_probed:"+cl.kind, 1)
			ctx.Distinct(fmt.Sprintf("grid|%s|%s|%s", cmd, cl.kind, cl.rim))
			var wrong []string
			for _, p := range ps {
				if got[p.id] != p.inside {
					wrong = append(wrong, fmt.Sprintf("%s(%.9g,%.9g: expected inside=%v)", p.id, p.lat, p.lon, p.inside))
				}
			}
			if len(wrong) > 0 {
				ctx.Violation("grid-cell:"+strings.ToLower(cl.kind)+":"+cl.rim,
					fmt.Sprintf("%q: the cell is the rectangle lat [%.9g, %.9g] lon [%.9g, %.9g] by the grid's definition; probe points a thousandth of the cell size from its edges are classified wrongly: %s", q, cl.minLat, cl.maxLat, cl.minLon, cl.maxLon, strings.Join(wrong, ", ")),
					map[string]any{"query": q, "cell_rectangle": []float64{cl.minLat, cl.minLon, cl.maxLat, cl.maxLon}, "wrong": wrong})
				break
			}
		}
		c.Do("DROP", key)
	}
}

func geohashRect(h string) (minLat, minLon, maxLat, maxLon float64) {
	la0, la1, lo0, lo1 := -90.0, 90.0, -180.0, 180.0
	even := true
	for i := 0; i < len(h); i++ {
		v := strings.IndexByte(b32, h[i])
		for bit := 4; bit >= 0; bit-- {
			one := v>>uint(bit)&1 == 1
			if even {
				m := (lo0 + lo1) / 2
				if one {
					lo0 = m
				} else {
					lo1 = m
				}
			} else {
				m := (la0 + la1) / 2
				if one {
					la0 = m
				} else {
					la1 = m
				}
			}
			even = !even
		}
	}
	return la0, lo0, la1, lo1
}
