package c02

import (
	"fmt"
	"math"
	"strconv"
	"strings"
	"time"

	"verifharness/core"
	"verifharness/geo"
	"verifharness/respc"
	"verifharness/srv"
)

// bufferProbe: the BUFFER option grows the query area by a number of metres.
// TEST has no such option, so the expectations are stated from outside:
// growing an area never loses a result (base within buffered, smaller buffer
// within larger), a buffered CIRCLE is the disc of radius r+m (judged by
// haversine with a 3 % don't-care band around the rim) and a buffered BOUNDS
// reaches m metres beyond the rectangle (10 % band).
func bufferProbe(ctx *core.Ctx, bin string) {
	s, err := srv.Start(srv.Opts{Bin: bin, Args: []string{"--appendonly", "no"}})
	if err != nil {
		ctx.Inconclusive("buffer probe: " + err.Error())
		return
	}
	defer s.Kill9()
	c, err := respc.Dial(s.Addr(), 5*time.Second)
	if err != nil {
		ctx.Inconclusive("buffer probe: " + err.Error())
		return
	}
	defer c.Close()
	c.Timeout = 20 * time.Second
	rng := ctx.SubRng(779)
	type pt struct {
		id       string
		lat, lon float64
	}
	var pts []pt
	for i := 0; i < 300; i++ {
		p := pt{fmt.Sprintf("b%03d", i), float64(rng.Intn(1600)-800) / 100, float64(rng.Intn(1600)-800) / 100}
		pts = append(pts, p)
		c.Send("SET", "bufk", p.id, "POINT", strconv.FormatFloat(p.lat, 'f', -1, 64), strconv.FormatFloat(p.lon, 'f', -1, 64))
	}
	for range pts {
		c.Recv()
	}
	c.Do("SET", "bufref", "sq", "OBJECT", `{"type":"Polygon","coordinates":[[[-1.005,-1.005],[1.005,-1.005],[1.005,1.005],[-1.005,1.005],[-1.005,-1.005]]]}`)
	query := func(cmd string, meters float64, area []string) (map[string]bool, string, bool) {
		q := []string{cmd, "bufk", "LIMIT", "100000"}
		if meters > 0 {
			q = append(q, "BUFFER", strconv.FormatFloat(meters, 'f', -1, 64))
		}
		q = append(append(q, "IDS"), area...)
		r, err := c.Do(q...)
		if err != nil || r.IsErr() || len(r.Arr) != 2 {
			return nil, fmt.Sprintf("%q", q), false
		}
		got := map[string]bool{}
		for _, e := range r.Arr[1].Arr {
			got[e.Str] = true
		}
		return got, fmt.Sprintf("%q", q), true
	}
	clamp := func(v, lo, hi float64) float64 { return math.Max(lo, math.Min(hi, v)) }
	for q := 0; q < 36; q++ {
		var area []string
		kind := []string{"circle", "bounds", "object", "get"}[q%4]
		clat, clon := float64(rng.Intn(7)-3), float64(rng.Intn(7)-3)
		rad := float64(50000 + rng.Intn(250000))
		la, lo := float64(rng.Intn(500)-300)/100+0.005, float64(rng.Intn(500)-300)/100+0.005
		h, w := float64(20+rng.Intn(200))/100, float64(20+rng.Intn(200))/100
		switch kind {
		case "circle":
			area = []string{"CIRCLE", strconv.FormatFloat(clat, 'f', -1, 64), strconv.FormatFloat(clon, 'f', -1, 64), strconv.FormatFloat(rad, 'f', -1, 64)}
		case "bounds":
			area = []string{"BOUNDS", strconv.FormatFloat(la, 'f', -1, 64), strconv.FormatFloat(lo, 'f', -1, 64), strconv.FormatFloat(la+h, 'f', -1, 64), strconv.FormatFloat(lo+w, 'f', -1, 64)}
		case "object":
			area = []string{"OBJECT", fmt.Sprintf(`{"type":"Polygon","coordinates":[[[%g,%g],[%g,%g],[%g,%g],[%g,%g],[%g,%g]]]}`, lo, la, lo+w, la, lo+w, la+h, lo, la+h, lo, la)}
		default:
			area = []string{"GET", "bufref", "sq"}
			la, lo, h, w = -1.005, -1.005, 2.01, 2.01
		}
		meters := []float64{1000, 30000, 120000}
		for _, cmd := range []string{"INTERSECTS", "WITHIN"} {
			base, bq, ok := query(cmd, 0, area)
			if !ok {
				ctx.Inconclusive("buffer probe: " + bq)
				return
			}
			prev, prevQ := base, bq
			for _, m := range meters {
				got, gq, ok := query(cmd, m, area)
				if !ok {
					ctx.Count("buffer_refused:"+kind, 1) // refusing BUFFER for an area kind is a consistent answer
					break
				}
				ctx.Eval(1)
				ctx.Count("buffer_queries", 1)
				ctx.Distinct("buffer|" + cmd + "|" + kind + "|" + strconv.Itoa(int(m)))
				for id := range prev {
					if !got[id] {
						ctx.Violation("lost:buffer:"+kind, fmt.Sprintf("growing the area loses a result: %s returns %q, %s does not", prevQ, id, gq), map[string]any{"smaller": prevQ, "larger": gq, "id": id})
						return
					}
				}
				for _, p := range pts {
					var d float64 // distance to the unbuffered area, 0 inside
					switch kind {
					case "circle":
						d = math.Max(0, geo.Haversine(clat, clon, p.lat, p.lon)-rad)
					default:
						d = geo.Haversine(p.lat, p.lon, clamp(p.lat, la, la+h), clamp(p.lon, lo, lo+w))
					}
					band := 0.03*(rad+m) + 200
					if kind != "circle" {
						band = 0.10*m + 200
					}
					if d > m+band && got[p.id] {
						ctx.Violation("invented:buffer:"+kind, fmt.Sprintf("%s returns %s (%v, %v), which is %.0f m from the unbuffered area", gq, p.id, p.lat, p.lon, d), map[string]any{"query": gq, "point": []float64{p.lat, p.lon}, "distance_to_area_m": d})
						return
					}
					if d < m-band && !got[p.id] {
						ctx.Violation("lost:buffer:"+kind, fmt.Sprintf("%s does not return %s (%v, %v), which is %.0f m from the unbuffered area", gq, p.id, p.lat, p.lon, d), map[string]any{"query": gq, "point": []float64{p.lat, p.lon}, "distance_to_area_m": d})
						return
					}
				}
				prev, prevQ = got, gq
			}
		}
	}
	_ = strings.ToLower
}
