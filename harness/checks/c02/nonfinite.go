package c02

import (
	"fmt"
	"strconv"
	"strings"
	"time"

	"verifharness/core"
	"verifharness/respc"
	"verifharness/srv"
)

// nonFiniteProbe: GeoJSON whose coordinates are not numbers (null reads as
// NaN, 1e999 as +Inf). Refusing it is fine. If it is accepted it is an object
// like any other, and the index must go on agreeing with the collection: after
// every other object is deleted no search may return them.
func nonFiniteProbe(ctx *core.Ctx, bin string) {
	s, err := srv.Start(srv.Opts{Bin: bin, Args: []string{"--appendonly", "no"}})
	if err != nil {
		ctx.Inconclusive("non-finite probe: " + err.Error())
		return
	}
	defer s.Kill9()
	c, err := respc.Dial(s.Addr(), 5*time.Second)
	if err != nil {
		ctx.Inconclusive("non-finite probe: " + err.Error())
		return
	}
	defer c.Close()
	c.Timeout = 20 * time.Second
	for bi, bad := range []string{`{"type":"Point","coordinates":[10,null]}`, `{"type":"Point","coordinates":[1e999,0]}`, `{"type":"MultiPoint","coordinates":[[null,1],[2,2]]}`,
		`{"type":"Feature","geometry":{"type":"Point","coordinates":[1,null]},"properties":{}}`, `{"type":"GeometryCollection","geometries":[{"type":"Point","coordinates":[null,3]}]}`} {
		key := "nf" + strconv.Itoa(bi)
		for i := 0; i < 99; i++ {
			c.Do("SET", key, fmt.Sprintf("p%02d", i), "POINT", strconv.Itoa((i%10)*5), strconv.Itoa((i/10)*5))
		}
		rp, err := c.Do("SET", key, "nan", "OBJECT", bad)
		if err != nil {
			ctx.Inconclusive("non-finite probe: " + err.Error())
			return
		}
		accepted := !rp.IsErr()
		c.Do("SET", key, "p99", "POINT", "45", "45")
		for i := 0; i < 100; i++ {
			c.Do("DEL", key, fmt.Sprintf("p%02d", i))
		}
		ctx.Eval(1)
		ctx.Distinct(fmt.Sprintf("nonfinite|%d|accepted=%v", bi, accepted))
		for _, q := range [][]string{{"INTERSECTS", key, "IDS", "BOUNDS", "-90", "-180", "90", "180"}, {"WITHIN", key, "IDS", "BOUNDS", "-90", "-180", "90", "180"}, {"NEARBY", key, "IDS", "POINT", "20", "20"}} {
			r, err := c.Do(q...)
			if err != nil || r.Kind != '*' || len(r.Arr) != 2 {
				continue
			}
			var ghosts []string
			for _, e := range r.Arr[1].Arr {
				if e.Str != "nan" {
					ghosts = append(ghosts, e.Str)
				}
			}
			if len(ghosts) > 0 {
				ctx.Violation("invented-absent:after-nonfinite-geojson", fmt.Sprintf("`SET %s nan OBJECT %s` was answered %s; after 100 points around it were deleted (every DEL answered 1, SCAN lists only what is left) %q still returns %v", key, bad, rp.String(), q, ghosts),
					map[string]any{"object": bad, "query": q, "returned_deleted_ids": ghosts})
				return
			}
		}
	}
}

// clipCircleProbe: CLIPBY with area kinds for which TEST cannot produce the
// clipped area (CIRCLE; GET of a simple point). For point objects the clipped
// search is the conjunction of the two per-object predicates: inside the area
// (TEST) and inside the clip rectangle (TEST ... WITHIN BOUNDS).
func clipCircleProbe(ctx *core.Ctx, bin string) {
	s, err := srv.Start(srv.Opts{Bin: bin, Args: []string{"--appendonly", "no"}})
	if err != nil {
		ctx.Inconclusive("clip-circle probe: " + err.Error())
		return
	}
	defer s.Kill9()
	c, err := respc.Dial(s.Addr(), 5*time.Second)
	if err != nil {
		ctx.Inconclusive("clip-circle probe: " + err.Error())
		return
	}
	defer c.Close()
	c.Timeout = 20 * time.Second
	rng := ctx.SubRng(778)
	type pt struct {
		id       string
		lat, lon float64
	}
	var pts []pt
	for i := 0; i < 150; i++ {
		p := pt{fmt.Sprintf("q%03d", i), float64(rng.Intn(1200)-600) / 100, float64(rng.Intn(1200)-600) / 100}
		pts = append(pts, p)
		c.Do("SET", "clipk", p.id, "POINT", strconv.FormatFloat(p.lat, 'f', -1, 64), strconv.FormatFloat(p.lon, 'f', -1, 64))
	}
	c.Do("SET", "clipref", "pt", "POINT", "1", "1")
	c.Do("SET", "clipk", "at-ref", "POINT", "1", "1")
	test := func(p pt, area ...string) (int64, bool) {
		r, err := c.Do(append([]string{"TEST", "POINT", strconv.FormatFloat(p.lat, 'f', -1, 64), strconv.FormatFloat(p.lon, 'f', -1, 64), "INTERSECTS"}, area...)...)
		if err != nil || r.Kind != ':' {
			return 0, false
		}
		return r.Int, true
	}
	// multi-part areas: squares whose corners lie on x.xx5 (no point, which sits on hundredths, is
	// on an edge), some outside the clip rectangle, in random order, in the three container types
	multi := func(kind int) string {
		n := 3 + rng.Intn(4)
		var polys []string
		for i := 0; i < n; i++ {
			x0, y0 := float64(rng.Intn(1000)-600)/100+0.005, float64(rng.Intn(1000)-600)/100+0.005
			if i == 0 {
				x0, y0 = -5.995+float64(rng.Intn(2))*9, -5.995+float64(rng.Intn(2))*9 // a member in a far corner comes first
			}
			w, h := float64(50+rng.Intn(250))/100, float64(50+rng.Intn(250))/100
			polys = append(polys, fmt.Sprintf("[[[%g,%g],[%g,%g],[%g,%g],[%g,%g],[%g,%g]]]", x0, y0, x0+w, y0, x0+w, y0+h, x0, y0+h, x0, y0))
		}
		switch kind {
		case 0:
			return `{"type":"MultiPolygon","coordinates":[` + strings.Join(polys, ",") + `]}`
		case 1:
			var gs []string
			for _, pl := range polys {
				gs = append(gs, `{"type":"Polygon","coordinates":`+pl+`}`)
			}
			return `{"type":"GeometryCollection","geometries":[` + strings.Join(gs, ",") + `]}`
		}
		var fs []string
		for _, pl := range polys {
			fs = append(fs, `{"type":"Feature","geometry":{"type":"Polygon","coordinates":`+pl+`},"properties":{}}`)
		}
		return `{"type":"FeatureCollection","features":[` + strings.Join(fs, ",") + `]}`
	}
	for q := 0; q < 70; q++ {
		area := []string{"CIRCLE", strconv.Itoa(rng.Intn(7) - 3), strconv.Itoa(rng.Intn(7) - 3), strconv.Itoa(100000 + rng.Intn(500000))}
		band := true // the circle is a 64-gon for clipping: positions near its rim are not judged
		if q%8 == 7 {
			area, band = []string{"GET", "clipref", "pt"}, false
		}
		la, lo := float64(rng.Intn(800)-400)/100, float64(rng.Intn(800)-400)/100
		if q >= 40 {
			area, band = []string{"OBJECT", multi(q % 3)}, false
			la, lo = la+0.0025, lo+0.0025
		}
		clip := []string{"BOUNDS", strconv.FormatFloat(la, 'f', -1, 64), strconv.FormatFloat(lo, 'f', -1, 64), strconv.FormatFloat(la+float64(1+rng.Intn(400))/100, 'f', -1, 64), strconv.FormatFloat(lo+float64(1+rng.Intn(400))/100, 'f', -1, 64)}
		for _, cmd := range []string{"INTERSECTS", "WITHIN"} {
			full := append(append(append([]string{cmd, "clipk", "LIMIT", "100000", "IDS"}, area...), "CLIPBY"), clip...)
			r, err := c.Do(full...)
			if err != nil {
				ctx.Inconclusive("clip-circle probe: " + err.Error())
				return
			}
			if r.IsErr() {
				ctx.Count("clip_circle_refused", 1) // refusing CLIPBY for such an area is a consistent answer
				continue
			}
			got := map[string]bool{}
			for _, e := range r.Arr[1].Arr {
				got[e.Str] = true
			}
			ctx.Eval(1)
			ctx.Count("clip_circle_queries", 1)
			ctx.Distinct("clip-circle|" + cmd + "|" + area[0] + "|" + strconv.Itoa(q%3*btoi(q >= 40)))
			all := append(append([]pt{}, pts...), pt{"at-ref", 1, 1})
			for _, p := range all {
				inClip, ok1 := test(p, clip...)
				inArea, ok2 := test(p, area...)
				if !ok1 || !ok2 {
					continue
				}
				if band && area[0] == "CIRCLE" {
					// rim band: shrink and grow the circle by 1 %
					r0, _ := strconv.ParseFloat(area[3], 64)
					in1, _ := test(p, "CIRCLE", area[1], area[2], strconv.FormatFloat(r0*0.99, 'f', -1, 64))
					in2, _ := test(p, "CIRCLE", area[1], area[2], strconv.FormatFloat(r0*1.01, 'f', -1, 64))
					if in1 != in2 {
						continue
					}
				}
				want := inClip == 1 && inArea == 1
				if got[p.id] != want {
					kind := "invented"
					if want {
						kind = "lost"
					}
					ctx.Violation(kind+":clipby:"+strings.ToLower(area[0]), fmt.Sprintf("%q: point %s (%v, %v) is inside the area: %v, inside the clip rectangle: %v (both by TEST), returned: %v", full, p.id, p.lat, p.lon, inArea == 1, inClip == 1, got[p.id]),
						map[string]any{"query": full, "point": []float64{p.lat, p.lon}})
					return
				}
			}
		}
	}
}

// circleFeatureProbe: a stored Feature with `properties.type = "Circle"` (the
// documented circle object). Where TEST GET key id <predicate> <area> = 1 the
// searches must return it.
func circleFeatureProbe(ctx *core.Ctx, bin string) {
	s, err := srv.Start(srv.Opts{Bin: bin, Args: []string{"--appendonly", "no"}})
	if err != nil {
		ctx.Inconclusive("circle-feature probe: " + err.Error())
		return
	}
	defer s.Kill9()
	c, err := respc.Dial(s.Addr(), 5*time.Second)
	if err != nil {
		ctx.Inconclusive("circle-feature probe: " + err.Error())
		return
	}
	defer c.Close()
	c.Timeout = 20 * time.Second
	obj := `{"type":"Feature","geometry":{"type":"Point","coordinates":[-115,33]},"properties":{"type":"Circle","radius":1000,"radius_units":"m"}}`
	if r, err := c.Do("SET", "circk", "c", "OBJECT", obj); err != nil || r.IsErr() {
		ctx.Count("circle_feature_refused", 1)
		return
	}
	c.Do("SET", "circk", "p", "POINT", "33", "-115")
	for _, q := range [][]string{{"INTERSECTS", "BOUNDS", "32", "-116", "34", "-114"}, {"WITHIN", "BOUNDS", "32", "-116", "34", "-114"}, {"INTERSECTS", "CIRCLE", "33", "-115", "5000"}, {"WITHIN", "CIRCLE", "33", "-115", "5000"}, {"INTERSECTS", "POINT", "33", "-115"}} {
		tr, err := c.Do(append([]string{"TEST", "GET", "circk", "c", q[0]}, q[1:]...)...)
		if err != nil || tr.Kind != ':' || tr.Int != 1 {
			continue
		}
		r, err := c.Do(append([]string{q[0], "circk", "IDS"}, q[1:]...)...)
		if err != nil || r.Kind != '*' || len(r.Arr) != 2 {
			continue
		}
		ctx.Eval(1)
		ctx.Distinct("circle-feature|" + q[0] + "|" + q[1])
		found := false
		for _, e := range r.Arr[1].Arr {
			if e.Str == "c" {
				found = true
			}
		}
		if !found {
			ctx.Violation("lost:stored-circle-feature", fmt.Sprintf("`SET circk c OBJECT %s`: TEST GET circk c %s %v = 1, but %s circk IDS %v returns %s", obj, q[0], q[1:], q[0], q[1:], r.String()),
				map[string]any{"object": obj, "query": q})
			return
		}
	}
}

func btoi(b bool) int {
	if b {
		return 1
	}
	return 0
}
