package c02

import (
	"fmt"
	"strconv"
	"time"

	"verifharness/core"
	"verifharness/respc"
	"verifharness/srv"
)

// nonFiniteProbe: GeoJSON whose coordinates are not numbers (null reads as
// NaN, 1e999 as +Inf). Refusing it is fine. If it is accepted it is an object
// like any other, and the index must go on agreeing with the collection: after
// every other object is deleted no search may return them.
func nonFiniteProbe(ctx *core.Ctx, bin string) {
	s, err := srv.Start(srv.Opts{Bin: bin, Args: []string{"--appendonly", "no"}})
	if err != nil {
		ctx.Inconclusive("non-finite probe: " + err.Error())
		return
	}
	defer s.Kill9()
	c, err := respc.Dial(s.Addr(), 5*time.Second)
	if err != nil {
		ctx.Inconclusive("non-finite probe: " + err.Error())
		return
	}
	defer c.Close()
	c.Timeout = 20 * time.Second
	for bi, bad := range []string{`{"type":"Point","coordinates":[10,null]}`, `{"type":"Point","coordinates":[1e999,0]}`, `{"type":"MultiPoint","coordinates":[[null,1],[2,2]]}`,
		`{"type":"Feature","geometry":{"type":"Point","coordinates":[1,null]},"properties":{}}`, `{"type":"GeometryCollection","geometries":[{"type":"Point","coordinates":[null,3]}]}`} {
		key := "nf" + strconv.Itoa(bi)
		for i := 0; i < 99; i++ {
			c.Do("SET", key, fmt.Sprintf("p%02d", i), "POINT", strconv.Itoa((i%10)*5), strconv.Itoa((i/10)*5))
		}
		rp, err := c.Do("SET", key, "nan", "OBJECT", bad)
		if err != nil {
			ctx.Inconclusive("non-finite probe: " + err.Error())
			return
		}
		accepted := !rp.IsErr()
		c.Do("SET", key, "p99", "POINT", "45", "45")
		for i := 0; i < 100; i++ {
			c.Do("DEL", key, fmt.Sprintf("p%02d", i))
		}
		ctx.Eval(1)
		ctx.Distinct(fmt.Sprintf("nonfinite|%d|accepted=%v", bi, accepted))
		for _, q := range [][]string{{"INTERSECTS", key, "IDS", "BOUNDS", "-90", "-180", "90", "180"}, {"WITHIN", key, "IDS", "BOUNDS", "-90", "-180", "90", "180"}, {"NEARBY", key, "IDS", "POINT", "20", "20"}} {
			r, err := c.Do(q...)
			if err != nil || r.Kind != '*' || len(r.Arr) != 2 {
				continue
			}
			var ghosts []string
			for _, e := range r.Arr[1].Arr {
				if e.Str != "nan" {
					ghosts = append(ghosts, e.Str)
				}
			}
			if len(ghosts) > 0 {
				ctx.Violation("invented-absent:after-nonfinite-geojson", fmt.Sprintf("`SET %s nan OBJECT %s` was answered %s; after 100 points around it were deleted (every DEL answered 1, SCAN lists only what is left) %q still returns %v", key, bad, rp.String(), q, ghosts),
					map[string]any{"object": bad, "query": q, "returned_deleted_ids": ghosts})
				return
			}
		}
	}
}
