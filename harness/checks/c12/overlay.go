package c12

import (
	"bytes"
	"context"
	"encoding/json"
	"fmt"
	"os"
	"os/exec"
	"path/filepath"
	"regexp"
	"strconv"
	"strings"
	"time"

	"verifharness/core"
	"verifharness/srv"
)

// InpkgTest is the test file injected into internal/glob.
var InpkgTest = func() string {
	if v := os.Getenv("VERIF_INPKG_GLOB"); v != "" {
		return v
	}
	return filepath.Join(core.VerifDir, "inpkg", "glob", "verif_glob_test.go")
}()

var sumRe = regexp.MustCompile(`VERIFGLOB seed=(\d+) pairs=(\d+) patterns=(\d+) matched=(\d+) limited=(\d+) fails=(\d+) fails_endsff=(\d+) ambiguous=(\d+)`)
var failRe = regexp.MustCompile(`VERIFGLOB-FAIL caller=(\S+) class=(\S+) (.*)`)

// runOverlay is the in-package layer: Match(p,s) implies s within
// Parse(p,desc).Limits as every caller reads them; independent matcher == Match.
func runOverlay(ctx *core.Ctx) {
	pairs := ctx.Pick(1000000, 100000000)
	dir := filepath.Join(srv.WorkDir(), "c12-overlay")
	if err := os.MkdirAll(dir, 0o755); err != nil {
		ctx.Count("overlay_inconclusive", 1)
		ctx.Logf("overlay: %v", err)
		return
	}
	src, err := os.ReadFile(InpkgTest)
	if err != nil {
		ctx.Count("overlay_inconclusive", 1)
		ctx.Logf("overlay: cannot read %s: %v", InpkgTest, err)
		return
	}
	// a private copy, so that the overlay never points into /verif
	cp := filepath.Join(dir, "verif_glob_test.go")
	if err := os.WriteFile(cp, src, 0o644); err != nil {
		ctx.Count("overlay_inconclusive", 1)
		return
	}
	target := filepath.Join(srv.RepoDir, "internal", "glob", "verif_glob_test.go")
	ov, _ := json.Marshal(map[string]any{"Replace": map[string]string{target: cp}})
	ovPath := filepath.Join(dir, "overlay.json")
	if err := os.WriteFile(ovPath, ov, 0o644); err != nil {
		ctx.Count("overlay_inconclusive", 1)
		return
	}
	cctx, cancel := context.WithTimeout(context.Background(), 20*time.Minute)
	defer cancel()
	cmd := exec.CommandContext(cctx, "go", "test", "-count=1", "-v", "-timeout", "19m", "-overlay="+ovPath, "-run", "TestVerifGlob", "./internal/glob/")
	cmd.Dir = srv.RepoDir
	cmd.Env = append(os.Environ(), "GOFLAGS=-mod=mod", "GOPROXY=off",
		"VERIF_GLOB_SEED="+strconv.FormatInt(ctx.Seed, 10), "VERIF_GLOB_PAIRS="+strconv.Itoa(pairs))
	var buf bytes.Buffer
	cmd.Stdout = &buf
	cmd.Stderr = &buf
	t0 := time.Now()
	runErr := cmd.Run()
	out := buf.String()
	ctx.Set("inpkg_wall_s", time.Since(t0).Seconds())
	m := sumRe.FindStringSubmatch(out)
	if m == nil {
		// did not compile / did not run: not a statement about the property
		ctx.Count("overlay_inconclusive", 1)
		ctx.Set("inpkg_output_tail", clip(lastBytes(out, 1500), 1500))
		ctx.Logf("overlay: no summary line (err=%v): %s", runErr, lastBytes(out, 600))
		return
	}
	atoi := func(s string) int64 { n, _ := strconv.ParseInt(s, 10, 64); return n }
	ctx.Count("inpkg_pairs", atoi(m[2]))
	ctx.Count("inpkg_patterns", atoi(m[3]))
	ctx.Count("inpkg_pairs_matched", atoi(m[4]))
	ctx.Count("inpkg_limit_checks", atoi(m[5]))
	ctx.Count("inpkg_fails", atoi(m[6]))
	ctx.Count("inpkg_fails_prefix_ends_0xff", atoi(m[7]))
	ctx.Count("inpkg_pairs_ambiguous_not_judged", atoi(m[8]))
	if atoi(m[4]) > 0 && atoi(m[5]) > 0 {
		ctx.Distinct("inpkg|limits")
	}
	fails, failsFF := atoi(m[6]), atoi(m[7])
	passed := strings.Contains(out, "--- PASS: TestVerifGlob") || strings.Contains(out, "\nPASS")
	if fails == 0 {
		if !passed {
			ctx.Count("overlay_inconclusive", 1)
			ctx.Logf("overlay: zero fails but no PASS: %s", lastBytes(out, 400))
		}
		return
	}
	reported := map[string]int{}
	other := int64(0)
	for _, l := range strings.Split(out, "\n") {
		fm := failRe.FindStringSubmatch(l)
		if fm == nil {
			continue
		}
		caller, class, rest := fm[1], fm[2], fm[3]
		key := "inpkg:" + caller
		if class == "ends-ff" && caller != "match" && caller != "match-error" && caller != "generator" {
			key = KeyFF
		} else {
			other++
		}
		if caller == "generator" {
			ctx.Count("overlay_inconclusive", 1)
			continue
		}
		reported[key]++
		if reported[key] > 2 {
			continue
		}
		what := fmt.Sprintf("in-package: Match(p,s) is true but s lies outside Parse(p).Limits as %s reads them: %s", caller, rest)
		if caller == "match" || caller == "match-error" {
			what = fmt.Sprintf("in-package: glob.Match disagrees with the independent matcher (%s): %s", caller, rest)
		}
		ctx.Violation(key, what, map[string]any{"line": l, "seed": ctx.Seed, "pairs": pairs,
			"run": "cd " + srv.RepoDir + " && VERIF_GLOB_SEED=" + strconv.FormatInt(ctx.Seed, 10) + " VERIF_GLOB_PAIRS=" + strconv.Itoa(pairs) + " go test -count=1 -v -overlay=<json replacing internal/glob/verif_glob_test.go by " + InpkgTest + "> -run TestVerifGlob ./internal/glob/"})
	}
	if fails > failsFF && other == 0 {
		// failures outside the known class were counted but no line was captured
		ctx.Violation("inpkg:unclassified", fmt.Sprintf("in-package layer counted %d failures, %d of the 0xFF class, but printed no line for the rest", fails, failsFF), map[string]any{"tail": lastBytes(out, 3000)})
	}
}

func lastBytes(s string, n int) string {
	if len(s) > n {
		return s[len(s)-n:]
	}
	return s
}
