package c12

import (
	"fmt"
	"math"
	"math/rand"
	"strconv"
	"strings"

	"verifharness/globref"
)

// ---------------------------------------------------------------- value order
//
// Documented order: Null < False < Number < String < True < JSON; numbers
// compare numerically, strings case-insensitively, a missing field reads as
// the number 0.

type fkind int

const (
	kNull fkind = iota
	kFalse
	kNumber
	kString
	kTrue
	kJSON
)

type fval struct {
	kind fkind
	num  float64
	str  string
}

var zeroVal = fval{kind: kNumber}

// parseVal classifies the texts this check generates (see Assumptions).
func parseVal(s string) fval {
	switch s {
	case "null":
		return fval{kind: kNull}
	case "false":
		return fval{kind: kFalse}
	case "true":
		return fval{kind: kTrue}
	case "-inf":
		return fval{kind: kNumber, num: math.Inf(-1)}
	case "+inf", "inf":
		return fval{kind: kNumber, num: math.Inf(1)}
	}
	if f, err := strconv.ParseFloat(s, 64); err == nil {
		return fval{kind: kNumber, num: f}
	}
	if strings.HasPrefix(s, "{") || strings.HasPrefix(s, "[") {
		return fval{kind: kJSON, str: s}
	}
	return fval{kind: kString, str: s}
}

func lower(s string) string {
	b := []byte(s)
	for i, c := range b {
		if c >= 'A' && c <= 'Z' {
			b[i] = c + 32
		}
	}
	return string(b)
}

func vless(a, b fval) bool {
	if a.kind != b.kind {
		return a.kind < b.kind
	}
	switch a.kind {
	case kNumber:
		if a.num != a.num || b.num != b.num {
			// a number that is not a number satisfies no range and no equality with a real
			// number: it sorts before all of them and equals only itself
			return a.num != a.num && b.num == b.num
		}
		return a.num < b.num
	case kString:
		return lower(a.str) < lower(b.str)
	case kJSON:
		return a.str < b.str
	}
	return false
}

func veq(a, b fval) bool { return !vless(a, b) && !vless(b, a) }

func kindName(v fval) string {
	return [...]string{"null", "false", "num", "str", "true", "json"}[v.kind]
}

// ---------------------------------------------------------------- dataset

type mobj struct {
	id     string
	isStr  bool
	val    string
	fields map[string]string
	set    []string
}

func (o *mobj) get(name string) fval {
	if s, ok := o.fields[name]; ok {
		return parseVal(s)
	}
	return zeroVal
}

var numTexts = []string{"1", "1.0", "-3", "2.5", "6", "100", "-0.5", "1e2", "3", "2"}
var strTexts = []string{"abc", "ABC", "abd", "ABD", "b", "Zed", "zED", "zeb", "_x", "zzz", "tom", "Tzz", "TIM", "ta"}
var jsonTexts = []string{`{"a":1}`, `[1,2]`, `{"b":"x"}`, `{"A":1}`, `["X"]`}

func pick(r *rand.Rand, a []string) string { return a[r.Intn(len(a))] }

func mixedText(r *rand.Rand) string {
	switch r.Intn(12) {
	case 0, 1, 2, 3:
		return pick(r, numTexts)
	case 4, 5, 6:
		return pick(r, strTexts)
	case 7:
		return "true"
	case 8:
		return "false"
	case 9:
		return "null"
	case 10:
		return pick(r, jsonTexts)
	}
	return "0"
}

// cmpText draws a comparison value (also the infinities).
func cmpText(r *rand.Rand) string {
	switch r.Intn(14) {
	case 0:
		return "-inf"
	case 1:
		return "+inf"
	case 2:
		return "0"
	}
	return mixedText(r)
}

type fdataset struct {
	objs []*mobj
	byID map[string]*mobj
}

func genFieldDataset(r *rand.Rand, n int) *fdataset {
	d := &fdataset{byID: map[string]*mobj{}}
	for i := 0; i < n; i++ {
		o := &mobj{id: fmt.Sprintf("%s%02d", pick(r, []string{"a", "ab", "b", "c"}), i), fields: map[string]string{}}
		cmd := []string{"SET", "kf", o.id}
		if r.Intn(10) < 7 {
			v := mixedText(r)
			if r.Intn(14) == 0 {
				v = pick(r, []string{"nan", "NaN"})
			}
			if v != "0" {
				o.fields["f"] = v
			}
			cmd = append(cmd, "FIELD", "f", v)
		}
		if r.Intn(2) == 0 {
			v := pick(r, numTexts)
			if r.Intn(14) == 0 {
				v = "nan"
			}
			o.fields["n"] = v
			cmd = append(cmd, "FIELD", "n", v)
		}
		if r.Intn(3) == 0 {
			v := pick(r, strTexts)
			o.fields["g"] = v
			cmd = append(cmd, "FIELD", "g", v)
		}
		// a field whose name contains a dot (a plain name, no JSON field called "d" exists), next to
		// fields that sort between "d" and "d.x" and are sometimes JSON documents
		if r.Intn(3) == 0 {
			v := pick(r, numTexts)
			if r.Intn(4) == 0 {
				v = pick(r, jsonTexts) // the dotted name itself holds a JSON document
			}
			o.fields["d.x"] = v
			cmd = append(cmd, "FIELD", "d.x", v)
		}
		if r.Intn(3) == 0 {
			v := pick(r, append([]string{"7"}, jsonTexts...))
			o.fields["d-"] = v
			cmd = append(cmd, "FIELD", "d-", v)
		}
		switch k := r.Intn(10); {
		case k < 3:
			o.isStr = true
			o.val = pick(r, []string{"app", "apple", "b", "ban", "c"}) + strconv.Itoa(r.Intn(4))
			cmd = append(cmd, "STRING", o.val)
		case k < 8:
			cmd = append(cmd, "POINT", strconv.FormatFloat(float64(r.Intn(20001)-10000)/1000, 'f', -1, 64), strconv.FormatFloat(float64(r.Intn(20001)-10000)/1000, 'f', -1, 64))
		default:
			la, lo := float64(r.Intn(16)-8), float64(r.Intn(16)-8)
			cmd = append(cmd, "BOUNDS", ff(la), ff(lo), ff(la+1+float64(r.Intn(3))), ff(lo+1+float64(r.Intn(3))))
		}
		o.set = cmd
		d.objs = append(d.objs, o)
		d.byID[o.id] = o
	}
	return d
}

func ff(v float64) string { return strconv.FormatFloat(v, 'f', -1, 64) }

// ---------------------------------------------------------------- filters

type filter struct {
	kind  string // where | wherein | whereeval
	shape string
	toks  []string
	pred  func(o *mobj) bool
}

func genWhereOp(r *rand.Rand) filter {
	name := pick(r, []string{"f", "f", "f", "n", "g", "d.x"})
	op := pick(r, []string{"<", "<=", ">", ">=", "==", "!="})
	txt := cmpText(r)
	if name == "n" && r.Intn(3) > 0 {
		txt = pick(r, numTexts)
	}
	if name == "g" && r.Intn(3) > 0 {
		txt = pick(r, strTexts)
	}
	v := parseVal(txt)
	return filter{kind: "where", shape: "op" + op + kindName(v), toks: []string{"WHERE", name, op, txt},
		pred: func(o *mobj) bool {
			x := o.get(name)
			switch op {
			case "<":
				return vless(x, v)
			case "<=":
				return !vless(v, x)
			case ">":
				return vless(v, x)
			case ">=":
				return !vless(x, v)
			case "==":
				return veq(x, v)
			}
			return !veq(x, v)
		}}
}

// genWhereRange: WHERE field min max, inclusive unless written "(min" / "(max".
// min never starts with a letter (the server would read an expression).
func genWhereRange(r *rand.Rand) filter {
	name := pick(r, []string{"f", "f", "n", "g", "d.x"})
	lo := pick(r, []string{"-inf", "-inf", "0", "1", "1.0", "-3", "2", "2.5", "3", "_x", `{"a":1}`, `[1,2]`})
	hi := cmpText(r)
	if r.Intn(2) == 0 {
		hi = pick(r, []string{"+inf", "+inf", "6", "3", "2.5", "1", "0", "100"})
	}
	lov, hiv := parseVal(lo), parseVal(hi)
	lox, hix := r.Intn(4) == 0, r.Intn(4) == 0
	lot, hit := lo, hi
	if lox {
		lot = "(" + lo
	}
	if hix {
		hit = "(" + hi
	}
	shape := "range" + kindName(lov) + "-" + kindName(hiv)
	if lox {
		shape += "(lo"
	}
	if hix {
		shape += "(hi"
	}
	if math.IsInf(lov.num, -1) {
		shape += "-inf"
	}
	if math.IsInf(hiv.num, 1) {
		shape += "+inf"
	}
	return filter{kind: "where", shape: shape, toks: []string{"WHERE", name, lot, hit},
		pred: func(o *mobj) bool {
			x := o.get(name)
			if lox {
				if !vless(lov, x) {
					return false
				}
			} else if vless(x, lov) {
				return false
			}
			if hix {
				if !vless(x, hiv) {
					return false
				}
			} else if vless(hiv, x) {
				return false
			}
			return true
		}}
}

func genWherein(r *rand.Rand) filter {
	name := pick(r, []string{"f", "f", "n", "g", "d.x"})
	k := 1 + r.Intn(4)
	if r.Intn(5) == 0 {
		k = 16 + r.Intn(25) // long lists (an implementation may switch to a lookup table)
	}
	toks := []string{"WHEREIN", name, strconv.Itoa(k)}
	var vals []fval
	kinds := map[string]bool{}
	for i := 0; i < k; i++ {
		t := mixedText(r)
		switch {
		case name == "n" && r.Intn(4) > 0:
			t = pick(r, append([]string{"0"}, numTexts...))
		case name == "g" && r.Intn(4) > 0:
			t = pick(r, append([]string{"0"}, strTexts...))
		}
		toks = append(toks, t)
		v := parseVal(t)
		vals = append(vals, v)
		kinds[kindName(v)] = true
	}
	ks := []string{}
	for _, kn := range []string{"null", "false", "num", "str", "true", "json"} {
		if kinds[kn] {
			ks = append(ks, kn)
		}
	}
	if k >= 16 {
		ks = append(ks, "long")
	}
	return filter{kind: "wherein", shape: "in:" + strings.Join(ks, ","), toks: toks,
		pred: func(o *mobj) bool {
			x := o.get(name)
			for _, v := range vals {
				if veq(x, v) {
					return true
				}
			}
			return false
		}}
}

func genWhereeval(r *rand.Rand) filter {
	op := pick(r, []string{"<", "<=", ">", ">=", "==", "~="})
	arg := pick(r, []string{"0", "1", "2", "2.5", "3", "6", "-1", "100"})
	a, _ := strconv.ParseFloat(arg, 64)
	return filter{kind: "whereeval", shape: "eval" + op, toks: []string{"WHEREEVAL", "return (FIELDS.n or 0) " + op + " tonumber(ARGV[1])", "1", arg},
		pred: func(o *mobj) bool {
			x := o.get("n").num
			switch op {
			case "<":
				return x < a
			case "<=":
				return x <= a
			case ">":
				return x > a
			case ">=":
				return x >= a
			case "==":
				return x == a
			}
			return x != a
		}}
}

func genFilter(r *rand.Rand) filter {
	switch r.Intn(10) {
	case 0, 1, 2, 3:
		return genWhereOp(r)
	case 4, 5, 6:
		return genWhereRange(r)
	case 7, 8:
		return genWherein(r)
	}
	return genWhereeval(r)
}

// ---------------------------------------------------------------- the layer

type fcmd struct {
	name  string
	order string
	area  []string
}

func (c fcmd) build(limit string, filt []string, output string) []string {
	a := []string{c.name, "kf", "LIMIT", limit}
	a = append(a, filt...)
	if c.order != "" {
		a = append(a, c.order)
	}
	a = append(a, output)
	return append(a, c.area...)
}

func (c fcmd) label() string {
	l := strings.ToLower(c.name)
	if c.order == "DESC" {
		l += "-desc"
	}
	return l
}

func (w *worker) fieldDataset(idx int) {
	ctx := w.ctx
	r := ctx.SubRng(int64(2000000 + idx))
	n := 12 + r.Intn(28)
	d := genFieldDataset(r, n)
	w.log = w.log[:0]
	load := [][]string{{"FLUSHDB"}}
	for _, o := range d.objs {
		load = append(load, o.set)
	}
	w.log = append(w.log, load...)
	reps, ok := w.batch(load)
	if !ok {
		return
	}
	for i, rp := range reps {
		if rp.Kind == '-' {
			ctx.Count("field_datasets_load_rejected", 1)
			ctx.Logf("field dataset %d: %q rejected: %s", idx, load[i], rp.Str)
			return
		}
	}
	la, lo := ff(float64(r.Intn(8000)-4000)/1000), ff(float64(r.Intn(8000)-4000)/1000)
	cmds := []fcmd{
		{name: "SCAN"}, {name: "SCAN", order: "DESC"}, {name: "SEARCH", order: "ASC"}, {name: "SEARCH", order: "DESC"},
		{name: "WITHIN", area: []string{"BOUNDS", "-9", "-9", "12", "12"}},
		{name: "INTERSECTS", area: []string{"BOUNDS", ff(float64(r.Intn(6) - 9)), "-9", "9", ff(float64(3 + r.Intn(7)))}},
		{name: "NEARBY", area: []string{"POINT", la, lo}},
	}
	var bq [][]string
	for _, c := range cmds {
		bq = append(bq, c.build(big, nil, "IDS"))
	}
	br, ok := w.batch(bq)
	if !ok {
		return
	}
	base := make([][]string, len(cmds))
	for i := range cmds {
		ids, pok := idList(br[i])
		if !pok {
			ctx.Count("field_baseline_unparsed", 1)
			ctx.Logf("field dataset %d: baseline %q: %s", idx, bq[i], clip(br[i].String(), 200))
			return
		}
		for _, id := range ids {
			if d.byID[id] == nil {
				ctx.Count("field_baseline_unknown_id", 1)
				return
			}
		}
		base[i] = ids
	}
	ctx.Count("field_datasets", 1)

	nf := 14
	type fcase struct {
		ci      int
		filt    []filter
		toks    []string
		match   string
		exp     []string
		limit   string
		limited bool
		iIDS    int
		iCount  int
	}
	var cases []fcase
	var pipeline [][]string
	for k := 0; k < nf; k++ {
		fs := []filter{genFilter(r)}
		if k%4 == 3 {
			fs = append(fs, genFilter(r))
		}
		if k%8 == 7 {
			fs = append(fs, genFilter(r))
		}
		if k == 0 {
			fs = nil // no filter at all: the COUNT shortcuts
		}
		var toks []string
		match := ""
		if k%3 == 1 || k == nf-1 {
			match = pick(r, []string{"*", "a*", "ab*", "[ab]*", "*1", "b*", "?pp*", "c??", "*"})
			toks = append(toks, "MATCH", match)
		}
		for _, f := range fs {
			toks = append(toks, f.toks...)
		}
		for ci, c := range cmds {
			exp := []string{}
			for _, id := range base[ci] {
				keep := true
				if match != "" {
					subject := id
					if c.name == "SEARCH" {
						subject = d.byID[id].val // SEARCH matches the values
					}
					if ok, err := globref.Match(match, subject); err != nil || !ok {
						keep = false
					}
				}
				for _, f := range fs {
					if !f.pred(d.byID[id]) {
						keep = false
						break
					}
				}
				if keep {
					exp = append(exp, id)
				}
			}
			fc := fcase{ci: ci, filt: fs, toks: toks, match: match, exp: exp, limit: big}
			fc.iIDS = len(pipeline)
			pipeline = append(pipeline, c.build(big, toks, "IDS"))
			fc.iCount = len(pipeline)
			pipeline = append(pipeline, c.build(big, toks, "COUNT"))
			cases = append(cases, fc)
			// the same under a LIMIT smaller than the result
			if len(exp) >= 2 && r.Intn(2) == 0 {
				l := 1 + r.Intn(len(exp)-1)
				lc := fcase{ci: ci, filt: fs, toks: toks, match: match, exp: exp[:l], limit: strconv.Itoa(l), limited: true}
				lc.iIDS = len(pipeline)
				pipeline = append(pipeline, c.build(lc.limit, toks, "IDS"))
				lc.iCount = len(pipeline)
				pipeline = append(pipeline, c.build(lc.limit, toks, "COUNT"))
				cases = append(cases, lc)
			}
		}
	}
	w.log = append(w.log, pipeline...)
	reps, ok = w.batch(pipeline)
	if !ok {
		return
	}
	replay := func(extra map[string]any) map[string]any {
		m := map[string]any{"load": load}
		for k, v := range extra {
			m[k] = v
		}
		return m
	}
	ascGot := map[string][]string{} // (cmd name, filter tokens, limit) -> ASC reply, for DESC == reverse(ASC)
	for _, fc := range cases {
		if ctx.Violations() >= 25 {
			return
		}
		c := cmds[fc.ci]
		kinds := []string{}
		shapes := []string{}
		if fc.match != "" {
			kinds = append(kinds, "match")
			shapes = append(shapes, "match:"+globref.Shape(fc.match))
		}
		for _, f := range fc.filt {
			kinds = append(kinds, f.kind)
			shapes = append(shapes, f.shape)
		}
		fk := strings.Join(kinds, "+")
		if fk == "" {
			fk = "none"
		}
		idsCmd, cntCmd := pipeline[fc.iIDS], pipeline[fc.iCount]
		ir, cr := reps[fc.iIDS], reps[fc.iCount]
		ctx.Eval(1)
		ctx.Count("field_cmd:"+c.label(), 1)
		ctx.Count("field_filter:"+fk, 1)
		got, pok := idList(ir)
		if !pok {
			if ir.Kind == '-' {
				w.violation("filter-error:"+c.label()+":"+fk, fmt.Sprintf("%s is rejected: %s", q(idsCmd), ir.Str), replay(map[string]any{"query": idsCmd}))
			} else {
				ctx.Count("field_replies_unparsed", 1)
			}
			continue
		}
		if !fc.limited && (len(fc.filt) > 0 || fc.match != "") && len(fc.exp) > 0 && len(fc.exp) < len(base[fc.ci]) {
			ctx.Distinct(strings.Join(shapes, "&") + "|" + c.label())
			ctx.Count("field_nontrivial", 1)
			if idx == 1 && fc.ci == 0 && fc.iIDS < 120 {
				ctx.Sample(map[string]any{"query": idsCmd, "selected": fc.exp, "of": len(base[fc.ci])})
			}
		}
		// 1. the filter keeps exactly the objects the client-side evaluation keeps
		if !eqStrings(got, fc.exp) {
			vals := map[string]map[string]string{}
			for _, id := range base[fc.ci] {
				vals[id] = d.byID[id].fields
			}
			key := fk + ":" + c.label()
			if fc.limited {
				key = "limit:" + key
			}
			w.violation(key, fmt.Sprintf("%s: expected %q (client-side evaluation under the documented value order, missing = 0) got %q; filter shapes %v", q(idsCmd), fc.exp, got, shapes),
				replay(map[string]any{"query": idsCmd, "expected": fc.exp, "got": got, "fields": vals, "unfiltered": base[fc.ci]}))
		}
		// 2. COUNT == number of ids the same query lists
		if cr.Kind != ':' || int(cr.Int) != len(got) {
			key := "count:" + strings.ToLower(c.name) + "-" + fk
			if fc.limited {
				key = "count-limit:" + strings.ToLower(c.name) + "-" + fk
			}
			hasWhere := false
			for _, f := range fc.filt {
				if f.kind == "where" {
					hasWhere = true
				}
			}
			everything := fc.match == "" || fc.match == "*"
			switch {
			case (c.name == "SCAN" || c.name == "SEARCH") && len(fc.filt) == 0 && everything && fc.limited:
				// the COUNT shortcut answers from the collection counters and never looks at LIMIT
				key = "count:shortcut-ignores-limit"
			case c.name == "SEARCH" && !hasWhere && everything:
				// the SEARCH COUNT shortcut counted geometries and skipped WHEREIN/WHEREEVAL
				key = "count:search-shortcut"
			}
			w.violation(key, fmt.Sprintf("%s replies %s but %s lists %d ids", q(cntCmd), cr.String(), q(idsCmd), len(got)),
				replay(map[string]any{"count_query": cntCmd, "count_reply": cr.String(), "ids_query": idsCmd, "ids_reply": got}))
		}
		// 3. DESC == reverse(ASC)
		if !fc.limited && (c.name == "SCAN" || c.name == "SEARCH") {
			k := c.name + "\x00" + strings.Join(fc.toks, "\x00")
			if c.order != "DESC" {
				ascGot[k] = got
			} else if asc, ok := ascGot[k]; ok {
				ctx.Count("field_desc_pairs", 1)
				if !eqStrings(got, reversed(asc)) {
					w.violation("desc:"+strings.ToLower(c.name)+":"+fk, fmt.Sprintf("%s is not the reverse of the ascending reply %q: %q", q(idsCmd), asc, got),
						replay(map[string]any{"desc_query": idsCmd, "desc": got, "asc": asc}))
				}
			}
		}
	}
}
