package c12

import (
	"fmt"
	"sort"
	"strconv"
	"strings"
	"sync/atomic"

	"verifharness/globref"
	"verifharness/respc"
)

// dontCare counts names whose verdict the documented syntax leaves open.
var dontCare int64

const worldArea = "BOUNDS -90 -180 90 180"

// matchAny is the oracle: globref over one or two patterns. must/may differ
// only where the documented syntax leaves the verdict open ('*' ending inside a
// multi-byte character); such names are don't-care.
func matchAny(pats []string, s string) (must, may bool) {
	for _, p := range pats {
		mu, ma, err := globref.Match3(p, s)
		if err != nil {
			continue
		}
		must = must || mu
		may = may || ma
	}
	return
}

// filterNames keeps the names that must be selected, and those that may be
// selected if the server did select them (got; nil = none).
func filterNames(all []string, pats []string, got []string) []string {
	return filterBy(all, pats, got, func(s string) string { return s })
}

func filterBy(all []string, pats []string, got []string, nameOf func(string) string) []string {
	var inGot map[string]bool
	out := []string{}
	for _, s := range all {
		must, may := matchAny(pats, nameOf(s))
		if !must && may {
			atomic.AddInt64(&dontCare, 1)
			if inGot == nil {
				inGot = map[string]bool{}
				for _, g := range got {
					inGot[g] = true
				}
			}
			must = inGot[s]
		}
		if must {
			out = append(out, s)
		}
	}
	return out
}

// classify decides the scenario key of a selection mismatch. The known 0xFF
// defect only ever LOSES names matched by a pattern whose literal prefix ends
// in 0xFF; everything else keeps its own key.
func classify(own string, pats []string, exp, got []string, nameOf func(string) string) string {
	if nameOf == nil {
		nameOf = func(s string) string { return s }
	}
	inExp := map[string]bool{}
	for _, s := range exp {
		inExp[s] = true
	}
	inGot := map[string]bool{}
	for _, s := range got {
		if !inExp[s] || inGot[s] {
			return own // an extra or repeated name is never the 0xFF defect
		}
		inGot[s] = true
	}
	// got must keep the expected order
	j := 0
	for _, s := range exp {
		if j < len(got) && got[j] == s {
			j++
		}
	}
	if j != len(got) {
		return own
	}
	var ff []string
	for _, p := range pats {
		if ffPrefix(p) {
			ff = append(ff, p)
		}
	}
	if len(ff) == 0 {
		return own
	}
	missing := 0
	for _, s := range exp {
		if !inGot[s] {
			missing++
			if must, _ := matchAny(ff, nameOf(s)); !must {
				return own
			}
		}
	}
	if missing == 0 {
		return own
	}
	return KeyFF
}

type globGroup struct {
	pats   []string
	names  []string
	ids    map[string][]string // id -> SET command
	valIDs []string            // ids of kv in load order
	valOf  map[string]string
	hooks  map[string]bool
	chans  map[string]bool
}

func hookCmd(name string) []string {
	return []string{"SETHOOK", name, "http://127.0.0.1:9/h", "NEARBY", "hk-unused", "FENCE", "POINT", "0", "0", "10"}
}
func chanCmd(name string) []string {
	return []string{"SETCHAN", name, "NEARBY", "hk-unused", "FENCE", "POINT", "0", "0", "10"}
}

func (w *worker) globGroup(idx int) {
	ctx := w.ctx
	r := ctx.SubRng(int64(1000000 + idx))
	g := &globref.Gen{R: r, Hostile: idx%5 != 4}
	gg := &globGroup{ids: map[string][]string{}, valOf: map[string]string{}, hooks: map[string]bool{}, chans: map[string]bool{}}
	seenP := map[string]bool{}
	for len(gg.pats) < 6 {
		p := g.Pattern()
		if seenP[p] {
			if r.Intn(8) == 0 {
				break
			}
			continue
		}
		seenP[p] = true
		gg.pats = append(gg.pats, p)
	}
	names := g.Names(gg.pats, 3, 6)
	// bound the universe; keep a deterministic random subset
	for len(names) > 64 {
		k := r.Intn(len(names))
		names = append(names[:k], names[k+1:]...)
	}
	gg.names = names
	w.log = w.log[:0]
	var load [][]string
	load = append(load, []string{"FLUSHDB"})
	for _, nm := range names {
		c := []string{"SET", "ki", nm}
		if r.Intn(3) == 0 {
			c = append(c, "FIELD", "n", strconv.Itoa(1+r.Intn(5)))
		}
		if r.Intn(5) < 2 {
			c = append(c, "STRING", "v"+strconv.Itoa(r.Intn(4)))
		} else {
			c = append(c, "POINT", strconv.Itoa(r.Intn(60)-30), strconv.Itoa(r.Intn(60)-30))
		}
		gg.ids[nm] = c
		load = append(load, c)
	}
	perm := r.Perm(len(names))
	for i, k := range perm {
		id := fmt.Sprintf("v%03d", i)
		gg.valIDs = append(gg.valIDs, id)
		gg.valOf[id] = names[k]
		load = append(load, []string{"SET", "kv", id, "STRING", names[k]})
	}
	for i := 0; i < 3 && len(names) > 0; i++ { // equal values under different ids
		id := fmt.Sprintf("w%03d", i)
		gg.valIDs = append(gg.valIDs, id)
		gg.valOf[id] = names[r.Intn(len(names))]
		load = append(load, []string{"SET", "kv", id, "STRING", gg.valOf[id]})
	}
	load = append(load, []string{"SET", "kv", "geo1", "POINT", "1", "1"}, []string{"SET", "kv", "geo2", "BOUNDS", "1", "1", "2", "2"})
	keyUniverse := map[string]bool{"ki": true, "kv": true}
	for _, nm := range names {
		if nm == "ki" || nm == "kv" {
			continue
		}
		keyUniverse[nm] = true
		load = append(load, []string{"SET", nm, "x", "STRING", "v"})
	}
	for _, nm := range names {
		switch r.Intn(5) {
		case 0, 1:
			gg.hooks[nm] = true
			load = append(load, hookCmd(nm))
		case 2, 3:
			gg.chans[nm] = true
			load = append(load, chanCmd(nm))
		}
	}
	w.log = append(w.log, load...)
	reps, ok := w.batch(load)
	if !ok {
		return
	}
	for i, rp := range reps {
		if rp.Kind == '-' {
			ctx.Count("glob_groups_load_rejected", 1)
			ctx.Logf("glob group %d: load command %q rejected: %s", idx, load[i], rp.Str)
			return
		}
	}
	// ---- unfiltered listings (the oracle filters THESE)
	base := [][]string{
		{"SCAN", "ki", "LIMIT", big, "IDS"},
		{"SEARCH", "kv", "LIMIT", big, "ASC", "OBJECTS"},
		{"KEYS", "*"},
		{"HOOKS", "*"},
		{"CHANS", "*"},
		append([]string{"WITHIN", "ki", "LIMIT", big, "IDS"}, strings.Fields(worldArea)...),
		append([]string{"INTERSECTS", "ki", "LIMIT", big, "IDS"}, strings.Fields(worldArea)...),
		{"NEARBY", "ki", "LIMIT", big, "IDS", "POINT", "0.5", "0.5"},
	}
	br, ok := w.batch(base)
	if !ok {
		return
	}
	allIDs, ok1 := idList(br[0])
	var valPairs [][2]string
	ok2 := br[1].Kind == '*' && len(br[1].Arr) == 2
	if ok2 {
		for _, e := range br[1].Arr[1].Arr {
			if len(e.Arr) < 2 {
				ok2 = false
				break
			}
			valPairs = append(valPairs, [2]string{e.Arr[0].Str, e.Arr[1].Str})
		}
	}
	allKeys, ok3 := nameList(br[2])
	allHooks, ok4 := nameList(br[3])
	allChans, ok5 := nameList(br[4])
	geoW, ok6 := idList(br[5])
	geoI, ok7 := idList(br[6])
	geoN, ok8 := idList(br[7])
	if !(ok1 && ok2 && ok3 && ok4 && ok5 && ok6 && ok7 && ok8) {
		ctx.Count("glob_groups_baseline_unparsed", 1)
		ctx.Logf("glob group %d: baseline replies not understood: %s", idx, clip(br[0].String()+br[1].String(), 300))
		return
	}
	// the universe the server lists must be the one that was loaded, otherwise the
	// group does not test what it is meant to test (not a statement of C12)
	sortedNames := append([]string{}, names...)
	sort.Strings(sortedNames)
	wantKeys := make([]string, 0, len(keyUniverse))
	for k := range keyUniverse {
		wantKeys = append(wantKeys, k)
	}
	sort.Strings(wantKeys)
	wantHooks, wantChans := []string{}, []string{}
	for _, nm := range sortedNames {
		if gg.hooks[nm] {
			wantHooks = append(wantHooks, nm)
		}
		if gg.chans[nm] {
			wantChans = append(wantChans, nm)
		}
	}
	okVals := len(valPairs) == len(gg.valIDs)
	for _, pr := range valPairs {
		if gg.valOf[pr[0]] != pr[1] {
			okVals = false
		}
	}
	// KEYS * / HOOKS * / CHANS * are pattern commands themselves: `*` matches every name
	for _, u := range []struct {
		kind      string
		cmd       []string
		got, want []string
	}{{"keys", base[2], allKeys, wantKeys}, {"hooks", base[3], allHooks, wantHooks}, {"chans", base[4], allChans, wantChans}} {
		ctx.Eval(1)
		if !eqStrings(u.got, u.want) {
			w.violation("match:"+u.kind, fmt.Sprintf("%s lists %q but the names created (all match *) are %q", q(u.cmd), u.got, u.want),
				map[string]any{"load": load, "query": u.cmd, "expected": u.want, "got": u.got})
			return
		}
	}
	if !eqStrings(allIDs, sortedNames) || !okVals {
		// the unfiltered SCAN / SEARCH is the oracle's input; if it is not the loaded
		// universe the group does not test what it is meant to (C01's business)
		ctx.Count("glob_groups_universe_differs", 1)
		ctx.Logf("glob group %d: listed universe differs from the loaded one (ids %d/%d vals %v)", idx, len(allIDs), len(sortedNames), okVals)
		return
	}
	ctx.Count("glob_groups", 1)
	ctx.Count("glob_universe_names", int64(len(names)))

	valIDsAsc := make([]string, len(valPairs))
	valByID := map[string]string{}
	for i, pr := range valPairs {
		valIDsAsc[i] = pr[0]
		valByID[pr[0]] = pr[1]
	}
	valName := func(id string) string { return valByID[id] }
	ident := func(s string) string { return s }

	// ---- non-destructive queries, all patterns, one pipeline
	type check struct {
		cmd    []string
		kind   string // command class for keys / counters
		pats   []string
		uni    []string            // the unfiltered listing this command filters
		nameOf func(string) string // what the pattern is applied to (id itself, or its value)
		exp    []string            // filled at judgement time (don't-care names follow the reply)
		parse  func(respc.Reply) ([]string, bool)
		count  bool // reply is an integer to compare with the IDS twin
		twin   int  // index of the IDS twin for COUNT / of the ASC twin for DESC
		desc   bool
		vals   bool
	}
	var checks []check
	add := func(c check) int {
		if c.nameOf == nil {
			c.nameOf = ident
		}
		checks = append(checks, c)
		return len(checks) - 1
	}
	world := strings.Fields(worldArea)
	for i, p := range gg.pats {
		one := []string{p}
		two := []string{p, gg.pats[(i+1)%len(gg.pats)]}
		// SCAN
		a := add(check{cmd: []string{"SCAN", "ki", "LIMIT", big, "MATCH", p, "IDS"}, kind: "scan", pats: one, uni: allIDs, parse: idList, twin: -1})
		add(check{cmd: []string{"SCAN", "ki", "LIMIT", big, "MATCH", p, "DESC", "IDS"}, kind: "scan-desc", pats: one, uni: allIDs, parse: idList, twin: a, desc: true})
		add(check{cmd: []string{"SCAN", "ki", "LIMIT", big, "MATCH", p, "COUNT"}, kind: "scan-count", pats: one, count: true, twin: a})
		// SEARCH (values)
		b := add(check{cmd: []string{"SEARCH", "kv", "LIMIT", big, "MATCH", p, "ASC", "IDS"}, kind: "search", pats: one, uni: valIDsAsc, nameOf: valName, parse: idList, twin: -1, vals: true})
		add(check{cmd: []string{"SEARCH", "kv", "LIMIT", big, "MATCH", p, "DESC", "IDS"}, kind: "search-desc", pats: one, uni: valIDsAsc, nameOf: valName, parse: idList, twin: b, desc: true, vals: true})
		add(check{cmd: []string{"SEARCH", "kv", "LIMIT", big, "MATCH", p, "COUNT"}, kind: "search-count", pats: one, count: true, twin: b, vals: true})
		// names
		add(check{cmd: []string{"KEYS", p}, kind: "keys", pats: one, uni: allKeys, parse: nameList, twin: -1})
		add(check{cmd: []string{"HOOKS", p}, kind: "hooks", pats: one, uni: allHooks, parse: nameList, twin: -1})
		add(check{cmd: []string{"CHANS", p}, kind: "chans", pats: one, uni: allChans, parse: nameList, twin: -1})
		// spatial commands: MATCH on ids without a range shortcut
		add(check{cmd: append([]string{"WITHIN", "ki", "LIMIT", big, "MATCH", p, "IDS"}, world...), kind: "within", pats: one, uni: geoW, parse: idList, twin: -1})
		add(check{cmd: append([]string{"INTERSECTS", "ki", "LIMIT", big, "MATCH", p, "IDS"}, world...), kind: "intersects", pats: one, uni: geoI, parse: idList, twin: -1})
		add(check{cmd: []string{"NEARBY", "ki", "LIMIT", big, "MATCH", p, "IDS", "POINT", "0.5", "0.5"}, kind: "nearby", pats: one, uni: geoN, parse: idList, twin: -1})
		// two MATCH clauses: union
		if len(gg.pats) > 1 {
			c := add(check{cmd: []string{"SCAN", "ki", "LIMIT", big, "MATCH", two[0], "MATCH", two[1], "IDS"}, kind: "scan-multi", pats: two, uni: allIDs, parse: idList, twin: -1})
			add(check{cmd: []string{"SCAN", "ki", "LIMIT", big, "MATCH", two[0], "MATCH", two[1], "DESC", "IDS"}, kind: "scan-multi-desc", pats: two, uni: allIDs, parse: idList, twin: c, desc: true})
			d := add(check{cmd: []string{"SEARCH", "kv", "LIMIT", big, "MATCH", two[0], "MATCH", two[1], "ASC", "IDS"}, kind: "search-multi", pats: two, uni: valIDsAsc, nameOf: valName, parse: idList, twin: -1, vals: true})
			add(check{cmd: []string{"SEARCH", "kv", "LIMIT", big, "MATCH", two[0], "MATCH", two[1], "DESC", "IDS"}, kind: "search-multi-desc", pats: two, uni: valIDsAsc, nameOf: valName, parse: idList, twin: d, desc: true, vals: true})
			add(check{cmd: []string{"SEARCH", "kv", "LIMIT", big, "MATCH", two[0], "MATCH", two[1], "COUNT"}, kind: "search-multi-count", pats: two, count: true, twin: d, vals: true})
		}
	}
	cmds := make([][]string, len(checks))
	for i := range checks {
		cmds[i] = checks[i].cmd
	}
	w.log = append(w.log, cmds...)
	reps, ok = w.batch(cmds)
	if !ok {
		return
	}
	replay := func(extra map[string]any) map[string]any {
		m := map[string]any{"load": load, "patterns": gg.pats}
		for k, v := range extra {
			m[k] = v
		}
		return m
	}
	gots := make([][]string, len(checks))
	passed := make([]bool, len(checks))
	for i, ck := range checks {
		rp := reps[i]
		ctx.Eval(1)
		ctx.Count("glob_cmd:"+ck.kind, 1)
		shape := globref.Shape(ck.pats[0])
		if len(ck.pats) > 1 {
			shape += "|" + globref.Shape(ck.pats[1])
		}
		if ck.count {
			twinGot := gots[ck.twin]
			if twinGot == nil {
				continue
			}
			if rp.Kind != ':' || int(rp.Int) != len(twinGot) {
				key := "count:" + strings.TrimSuffix(ck.kind, "-count") + "-match"
				if ck.vals && len(ck.pats) == 1 && ck.pats[0] == "*" {
					key = "count:search-shortcut" // MATCH * takes the SEARCH COUNT shortcut
				}
				w.violation(key,
					fmt.Sprintf("%s replies %s but the same query with IDS lists %d", q(ck.cmd), rp.String(), len(twinGot)),
					replay(map[string]any{"count_query": ck.cmd, "count_reply": rp.String(), "ids_query": checks[ck.twin].cmd, "ids_reply": twinGot}))
			}
			continue
		}
		got, pok := ck.parse(rp)
		if !pok {
			if rp.Kind == '-' {
				w.violation("match-error:"+ck.kind, fmt.Sprintf("%s with a well-formed pattern is rejected: %s", q(ck.cmd), rp.Str), replay(map[string]any{"query": ck.cmd}))
			} else {
				ctx.Count("glob_replies_unparsed", 1)
			}
			continue
		}
		gots[i] = got
		ck.exp = filterBy(ck.uni, ck.pats, got, ck.nameOf)
		if ck.desc {
			ck.exp = reversed(ck.exp)
		}
		if len(ck.exp) > 0 && len(ck.exp) < len(ck.uni) {
			ctx.Distinct(shape + "|" + ck.kind)
			ctx.Count("glob_nontrivial", 1)
			if idx == 3 && i%17 == 0 && i < 17*4 {
				ctx.Sample(map[string]any{"query": ck.cmd, "selected": len(ck.exp), "of": len(ck.uni), "expected": ck.exp})
			}
		}
		if !eqStrings(got, ck.exp) {
			exp, g2 := ck.exp, got
			if ck.desc { // classify in ascending order
				exp, g2 = reversed(ck.exp), reversed(got)
			}
			key := classify("match:"+ck.kind, ck.pats, exp, g2, ck.nameOf)
			what := "ids"
			if ck.vals {
				what = "ids (selected by VALUE)"
			}
			w.violation(key, fmt.Sprintf("%s: %s differ from {x : globref(p,x)} of the unfiltered listing; shape %s; expected %q got %q", q(ck.cmd), what, shape, ck.exp, got),
				replay(map[string]any{"query": ck.cmd, "expected": ck.exp, "got": got, "values": valByID}))
			continue
		}
		passed[i] = true
		// DESC == reverse(ASC), judged only when both replies passed their own
		// comparison (otherwise the difference is the one already reported)
		if ck.desc && gots[ck.twin] != nil && passed[ck.twin] && !eqStrings(got, reversed(gots[ck.twin])) {
			w.violation("desc:"+ck.kind, fmt.Sprintf("%s is not the reverse of %s", q(ck.cmd), q(checks[ck.twin].cmd)),
				replay(map[string]any{"desc_query": ck.cmd, "desc": got, "asc_query": checks[ck.twin].cmd, "asc": gots[ck.twin]}))
		}
	}
	if ctx.Violations() >= 25 {
		return
	}

	// ---- destructive commands, one pattern after the other, state restored
	curIDs := allIDs
	curHooks, curChans := allHooks, allChans
	for _, p := range gg.pats {
		one := []string{p}
		shape := globref.Shape(p)
		// PDEL
		rs, ok := w.batch([][]string{{"PDEL", "ki", p}, {"SCAN", "ki", "LIMIT", big, "IDS"}})
		w.log = append(w.log, []string{"PDEL", "ki", p})
		if !ok {
			return
		}
		ctx.Eval(1)
		ctx.Count("glob_cmd:pdel", 1)
		remain, pok := idList(rs[1])
		if !pok && rs[1].Kind == '*' && len(rs[1].Arr) == 2 {
			remain, pok = []string{}, true
		}
		if pok {
			rem := map[string]bool{}
			for _, s := range remain {
				rem[s] = true
			}
			deleted := []string{}
			for _, s := range curIDs {
				if !rem[s] {
					deleted = append(deleted, s)
				}
			}
			exp := filterNames(curIDs, one, deleted)
			if len(exp) > 0 && len(exp) < len(curIDs) {
				ctx.Distinct(shape + "|pdel")
				ctx.Count("glob_nontrivial", 1)
			}
			if !eqStrings(deleted, exp) || rs[0].Kind != ':' || int(rs[0].Int) != len(deleted) || len(remain) != len(curIDs)-len(deleted) {
				key := classify("match:pdel", one, exp, deleted, nil)
				w.violation(key, fmt.Sprintf("PDEL ki %q replied %s and removed %q; {x : globref(p,x)} is %q; shape %s", p, rs[0].String(), deleted, exp, shape),
					replay(map[string]any{"query": []string{"PDEL", "ki", p}, "expected_removed": exp, "removed": deleted, "reply": rs[0].String()}))
			}
			var restore [][]string
			for _, s := range deleted {
				restore = append(restore, gg.ids[s])
			}
			if len(restore) > 0 {
				if _, ok := w.batch(restore); !ok {
					return
				}
			}
		}
		// PDELHOOK / PDELCHAN
		for _, ch := range []bool{false, true} {
			cmdName, list, other := "PDELHOOK", "HOOKS", "CHANS"
			cur, oth := curHooks, curChans
			if ch {
				cmdName, list, other = "PDELCHAN", "CHANS", "HOOKS"
				cur, oth = curChans, curHooks
			}
			rs, ok := w.batch([][]string{{cmdName, p}, {list, "*"}, {other, "*"}})
			w.log = append(w.log, []string{cmdName, p})
			if !ok {
				return
			}
			ctx.Eval(1)
			ctx.Count("glob_cmd:"+strings.ToLower(cmdName), 1)
			remain, p1 := nameList(rs[1])
			others, p2 := nameList(rs[2])
			if !p1 || !p2 {
				ctx.Count("glob_replies_unparsed", 1)
				continue
			}
			rem := map[string]bool{}
			for _, s := range remain {
				rem[s] = true
			}
			deleted := []string{}
			for _, s := range cur {
				if !rem[s] {
					deleted = append(deleted, s)
				}
			}
			exp := filterNames(cur, one, deleted)
			if len(exp) > 0 && len(exp) < len(cur) {
				ctx.Distinct(shape + "|" + strings.ToLower(cmdName))
				ctx.Count("glob_nontrivial", 1)
			}
			if !eqStrings(deleted, exp) || rs[0].Kind != ':' || int(rs[0].Int) != len(deleted) || len(remain) != len(cur)-len(deleted) || !eqStrings(others, oth) {
				key := classify("match:"+strings.ToLower(cmdName), one, exp, deleted, nil)
				if !eqStrings(others, oth) {
					key = "match:" + strings.ToLower(cmdName) + "-other-kind"
				}
				w.violation(key, fmt.Sprintf("%s %q replied %s and removed %q; {x : globref(p,x)} is %q; %s before %q after %q; shape %s", cmdName, p, rs[0].String(), deleted, exp, other, oth, others, shape),
					replay(map[string]any{"query": []string{cmdName, p}, "expected_removed": exp, "removed": deleted, "reply": rs[0].String()}))
			}
			var restore [][]string
			for _, s := range deleted {
				if ch {
					restore = append(restore, chanCmd(s))
				} else {
					restore = append(restore, hookCmd(s))
				}
			}
			// anything of the other kind that disappeared is put back as well
			orem := map[string]bool{}
			for _, s := range others {
				orem[s] = true
			}
			for _, s := range oth {
				if !orem[s] {
					if ch {
						restore = append(restore, hookCmd(s))
					} else {
						restore = append(restore, chanCmd(s))
					}
				}
			}
			if len(restore) > 0 {
				if _, ok := w.batch(restore); !ok {
					return
				}
			}
		}
		if ctx.Violations() >= 25 {
			return
		}
	}
}
