// Package c12: filters mean what they say; range and count shortcuts never
// change results (DESIGN.md section 4, C12).
//
// Three layers:
//
//	glob layer   (glob.go)    MATCH / KEYS / PDEL / HOOKS / CHANS / PDELHOOK /
//	                          PDELCHAN against the independent matcher globref,
//	                          on name universes built around the range boundaries
//	                          of each pattern;
//	field layer  (fields.go)  WHERE / WHEREIN / WHEREEVAL against a client-side
//	                          evaluation under the documented value order,
//	                          COUNT == len(IDS) of the same query, DESC ==
//	                          reverse(ASC), for SCAN / SEARCH / WITHIN /
//	                          INTERSECTS / NEARBY;
//	in-package   (overlay.go) `go test -overlay` injects
//	                          /verif/inpkg/glob/verif_glob_test.go into
//	                          internal/glob: Match(p,s) implies s inside the
//	                          range each caller derives from Parse(p).Limits.
package c12

import (
	"fmt"
	"strings"
	"sync"
	"sync/atomic"
	"time"

	"verifharness/core"
	"verifharness/globref"
	"verifharness/respc"
	"verifharness/srv"
)

// KeyFF is the scenario key of the known defect "literal prefix ending in
// byte 0xFF gets the upper range bound prefix+0x00".
const KeyFF = "limits:prefix-ends-0xff"

const big = "1000000"

type worker struct {
	ctx  *core.Ctx
	bin  string
	s    *srv.Server
	c    *respc.Conn
	dead bool
	log  [][]string // commands of the current group/dataset (for replays)
}

// perKey bounds the number of reports per scenario key.
var perKey = struct {
	sync.Mutex
	n map[string]int
}{n: map[string]int{}}

func (w *worker) violation(key, what string, replay any) {
	perKey.Lock()
	perKey.n[key]++
	k := perKey.n[key]
	perKey.Unlock()
	if k > 2 {
		w.ctx.Count("repeats_not_reported:"+key, 1)
		return
	}
	w.ctx.Violation(key, what, replay)
}

func (w *worker) start() bool {
	s, err := srv.Start(srv.Opts{Bin: w.bin, Args: []string{"--appendonly", "no"}})
	if err != nil {
		w.ctx.Inconclusive("server start: " + err.Error())
		w.dead = true
		return false
	}
	c, err := respc.Dial(s.Addr(), 5*time.Second)
	if err != nil {
		w.ctx.Inconclusive("dial: " + err.Error())
		w.dead = true
		return false
	}
	c.Timeout = 60 * time.Second
	w.s, w.c = s, c
	return true
}

func (w *worker) stop() {
	if w.c != nil {
		w.c.Close()
	}
	if w.s != nil {
		w.s.Kill9()
	}
}

// infra handles an i/o error: C12 is not about crashes, so a dead server is
// inconclusive; the worker restarts on a fresh server.
func (w *worker) infra(what string, err error) {
	time.Sleep(50 * time.Millisecond)
	if w.s != nil && !w.s.Alive() {
		_, site := w.s.Crashed()
		w.ctx.Inconclusive("server died during " + what + ": " + site + " last commands: " + fmt.Sprint(tail(w.log, 3)))
	} else {
		w.ctx.Inconclusive(fmt.Sprintf("i/o error during %s: %v", what, err))
	}
	w.stop()
	w.dead = true
}

func tail(l [][]string, n int) [][]string {
	if len(l) > n {
		return l[len(l)-n:]
	}
	return l
}

// batch sends all commands and reads all replies (bounded pipeline depth).
func (w *worker) batch(cmds [][]string) ([]respc.Reply, bool) {
	out := make([]respc.Reply, 0, len(cmds))
	for i := 0; i < len(cmds); i += 48 {
		j := i + 48
		if j > len(cmds) {
			j = len(cmds)
		}
		for _, c := range cmds[i:j] {
			if err := w.c.Send(c...); err != nil {
				w.infra("send", err)
				return nil, false
			}
		}
		for range cmds[i:j] {
			r, err := w.c.Recv()
			if err != nil {
				w.infra("receive", err)
				return nil, false
			}
			out = append(out, r)
		}
	}
	return out, true
}

func (w *worker) do(args ...string) (respc.Reply, bool) {
	r, err := w.c.Do(args...)
	if err != nil {
		w.infra(strings.Join(args, " "), err)
		return r, false
	}
	return r, true
}

// idList extracts the ids of a `[cursor [items]]` reply.
func idList(r respc.Reply) ([]string, bool) {
	if r.Kind != '*' || len(r.Arr) != 2 || r.Arr[1].Kind != '*' {
		return nil, false
	}
	out := make([]string, 0, len(r.Arr[1].Arr))
	for _, e := range r.Arr[1].Arr {
		if e.Kind == '*' && len(e.Arr) > 0 {
			out = append(out, e.Arr[0].Str)
		} else {
			out = append(out, e.Str)
		}
	}
	return out, true
}

// nameList extracts element 0 of each entry (HOOKS / CHANS) or the strings (KEYS).
func nameList(r respc.Reply) ([]string, bool) {
	if r.Kind != '*' {
		return nil, false
	}
	out := make([]string, 0, len(r.Arr))
	for _, e := range r.Arr {
		if e.Kind == '*' && len(e.Arr) > 0 {
			out = append(out, e.Arr[0].Str)
		} else {
			out = append(out, e.Str)
		}
	}
	return out, true
}

func eqStrings(a, b []string) bool {
	if len(a) != len(b) {
		return false
	}
	for i := range a {
		if a[i] != b[i] {
			return false
		}
	}
	return true
}

func reversed(a []string) []string {
	o := make([]string, len(a))
	for i := range a {
		o[len(a)-1-i] = a[i]
	}
	return o
}

func clip(s string, n int) string {
	if len(s) > n {
		return s[:n] + "..."
	}
	return s
}

func q(a []string) string { return fmt.Sprintf("%q", a) }

// Run is the C12 check.
func Run(ctx *core.Ctx) {
	ctx.Rule = "glob layer: groups of 6 well-formed patterns from the globref grammar (literal, *, ?, classes, ranges, negation, escapes, metacharacter first, escape before the first wildcard, prefixes ending in 0x00/0xff, multi-byte) with a shared universe of 30-64 names placed on each pattern's range boundaries (prefix, prefix+0x00, prefix+0xff, last byte +-1, shortened prefix) plus generated matches, near misses and noise; the universe is loaded as ids (strings and points mixed), as string values, as collection keys, as hook names and as channel names; per pattern SCAN/SEARCH MATCH (ASC, DESC, COUNT, two MATCH clauses), WITHIN/INTERSECTS/NEARBY MATCH, KEYS, HOOKS, CHANS, PDEL, PDELHOOK, PDELCHAN are compared with {x : globref(p,x)} of the unfiltered listing. field layer: datasets with fields of every value kind (missing, numbers, strings, true, false, null, JSON); SCAN/SEARCH/WITHIN/INTERSECTS/NEARBY with WHERE (6 operators, inclusive/exclusive ranges, +-inf) over comparison values of every kind, WHEREIN (1-4 and 16-40 listed values, numbers in several spellings), WHEREEVAL and pairs of them are compared with a client-side evaluation (Null < False < Number < String(case-insensitive) < True < JSON, missing = 0), COUNT with len(IDS) of the same query (also under LIMIT), DESC with reverse(ASC). in-package layer: (pattern, name) pairs against Parse(p).Limits as each caller reads them. non-trivial = the pattern/filter selects a proper non-empty subset; distinct key = (pattern shape class or filter shape class, command)"
	ctx.Assumptions = []string{
		"two MATCH clauses select the union of both patterns (the documented syntax has a single MATCH; the server ORs them)",
		"field values are restricted to texts whose kind is unambiguous (plain decimals, words, true/false/null, minified lower-case JSON); no NaN, no dotted field names, no field named z",
		"WHEREEVAL scripts only read a numeric-or-missing field: (FIELDS.n or 0) <op> tonumber(ARGV[1])",
		"names contain no white space and are at most 24 bytes",
		"WHERE in expression form (a single quoted expression) is not exercised",
	}
	ctx.MinDistinct = 30
	bin, err := srv.Build("plain")
	if err != nil {
		ctx.Fatal("%v", err)
	}

	// in-package layer runs beside the black-box layers
	var owg sync.WaitGroup
	owg.Add(1)
	go func() {
		defer owg.Done()
		runOverlay(ctx)
	}()

	const nworkers = 6
	ngroups := ctx.Pick(500, 17000)
	nfields := ctx.Pick(150, 4000)
	type job struct {
		kind string
		idx  int
	}
	jobs := make(chan job, ngroups+nfields)
	// interleave so that both layers progress even if the run is cut short by violations
	for i := 0; i < ngroups || i < nfields; i++ {
		if i < ngroups {
			jobs <- job{"glob", i}
		}
		if i < nfields {
			jobs <- job{"field", i}
		}
	}
	close(jobs)
	var wg sync.WaitGroup
	for wi := 0; wi < nworkers; wi++ {
		wg.Add(1)
		go func() {
			defer wg.Done()
			w := &worker{ctx: ctx, bin: bin}
			defer func() { w.stop() }()
			restarts := 0
			for j := range jobs {
				if ctx.Violations() >= 25 {
					return
				}
				if w.s == nil || w.dead {
					if restarts > 3 {
						return
					}
					restarts++
					w.dead = false
					if !w.start() {
						return
					}
				}
				switch j.kind {
				case "glob":
					w.globGroup(j.idx)
				case "field":
					w.fieldDataset(j.idx)
				}
			}
		}()
	}
	wg.Wait()
	owg.Wait()
	ctx.Count("glob_dontcare_names_not_judged", atomic.LoadInt64(&dontCare))
	if skipped := ctx.Counter("glob_groups_universe_differs") + ctx.Counter("glob_groups_load_rejected") + ctx.Counter("glob_groups_baseline_unparsed"); skipped*10 > int64(ngroups) {
		ctx.Inconclusive(fmt.Sprintf("%d of %d glob groups could not be judged (unfiltered listing differs from the loaded universe / load rejected)", skipped, ngroups))
	}
	if skipped := ctx.Counter("field_datasets_load_rejected") + ctx.Counter("field_baseline_unparsed") + ctx.Counter("field_baseline_unknown_id"); skipped*10 > int64(nfields) {
		ctx.Inconclusive(fmt.Sprintf("%d of %d field datasets could not be judged", skipped, nfields))
	}
	ctx.Finish()
}

// ffPrefix reports whether the pattern's literal prefix (the bytes before the
// first wildcard, class or escape) ends in byte 0xFF.
func ffPrefix(p string) bool {
	toks, err := globref.Parse(p)
	if err != nil {
		return false
	}
	pre := globref.RawPrefix(toks)
	return len(pre) > 0 && pre[len(pre)-1] == 0xff
}
