package c17

import (
	"encoding/base64"
	"encoding/json"
	"fmt"
	"math"
	"regexp"
	"sort"
	"strconv"
	"strings"

	"verifharness/respc"
	"verifharness/wire"
)

// ---- helpers

func num(v any) (float64, bool) {
	switch x := v.(type) {
	case json.Number:
		f, err := x.Float64()
		if err != nil {
			return 0, false
		}
		return f, true
	case float64:
		return x, true
	}
	return 0, false
}

func parseF(s string) (float64, bool) {
	f, err := strconv.ParseFloat(strings.TrimSpace(s), 64)
	if err != nil {
		return 0, false
	}
	return f, true
}

func feq(a, b float64) bool {
	if math.IsNaN(a) && math.IsNaN(b) {
		return true
	}
	return a == b
}

// deepEq compares decoded JSON values, numbers as float64.
func deepEq(a, b any) bool {
	if fa, ok := num(a); ok {
		fb, ok2 := num(b)
		return ok2 && feq(fa, fb)
	}
	switch x := a.(type) {
	case nil:
		return b == nil
	case bool:
		y, ok := b.(bool)
		return ok && x == y
	case string:
		y, ok := b.(string)
		return ok && x == y
	case []any:
		y, ok := b.([]any)
		if !ok || len(x) != len(y) {
			return false
		}
		for i := range x {
			if !deepEq(x[i], y[i]) {
				return false
			}
		}
		return true
	case map[string]any:
		y, ok := b.(map[string]any)
		if !ok || len(x) != len(y) {
			return false
		}
		for k, v := range x {
			w, ok := y[k]
			if !ok || !deepEq(v, w) {
				return false
			}
		}
		return true
	}
	return false
}

func parseJSONText(s string) (any, bool) {
	v, err := wire.StrictJSON([]byte(s))
	return v, err == nil
}

var wrongArgsRe = regexp.MustCompile(`^wrong number of arguments for '.*' command$`)

// normErr maps the error texts of both modes to a common form: RESP prefixes
// "ERR " unless the message starts with an upper-case word, spells "invalid
// number of arguments" in the Redis way and blanks control characters; JSON
// carries the message as is.
func normErr(s string) string {
	s = wire.NormString(s)
	s = strings.TrimPrefix(s, "ERR ")
	b := []byte(s)
	for i, c := range b {
		if c < ' ' {
			b[i] = ' '
		}
	}
	s = string(b)
	if wrongArgsRe.MatchString(s) {
		return "invalid number of arguments"
	}
	if strings.HasPrefix(s, "cannot follow: ") {
		// the resolver/dialer text carries ephemeral ports
		return "cannot follow"
	}
	return s
}

func isBulk(r respc.Reply) bool  { return r.Kind == '$' && !r.Nil }
func isArr(r respc.Reply) bool   { return r.Kind == '*' && !r.Nil }
func isNilRe(r respc.Reply) bool { return (r.Kind == '$' || r.Kind == '*') && r.Nil }

// fieldValueEq relates a JSON field value to the RESP text of the same field.
func fieldValueEq(jv any, data string) bool {
	if f, ok := num(jv); ok {
		g, ok := parseF(data)
		return ok && feq(f, g)
	}
	switch x := jv.(type) {
	case nil:
		return data == "null"
	case bool:
		return data == strconv.FormatBool(x)
	case string:
		if x == wire.NormString(data) {
			return true
		}
		// non-finite numbers are JSON strings
		g, ok := parseF(data)
		f, ok2 := parseF(x)
		return ok && ok2 && (feq(f, g))
	case map[string]any, []any:
		v, ok := parseJSONText(data)
		return ok && deepEq(jv, v)
	}
	return false
}

// pairsToMap turns a RESP [k v k v] array into a map.
func pairsToMap(r respc.Reply) (map[string]string, bool) {
	if !isArr(r) || len(r.Arr)%2 != 0 {
		return nil, false
	}
	m := map[string]string{}
	for i := 0; i+1 < len(r.Arr); i += 2 {
		m[wire.NormString(r.Arr[i].Text())] = r.Arr[i+1].Text()
	}
	return m, true
}

// objectEq relates the JSON "object" member to the RESP object text.
func objectEq(jv any, text string) bool {
	if s, ok := jv.(string); ok {
		return s == wire.NormString(text)
	}
	v, ok := parseJSONText(text)
	return ok && deepEq(jv, v)
}

func pointEq(jv any, r respc.Reply) bool {
	m, ok := jv.(map[string]any)
	if !ok || !isArr(r) || len(r.Arr) < 2 {
		return false
	}
	lat, ok1 := num(m["lat"])
	lon, ok2 := num(m["lon"])
	a, ok3 := parseF(r.Arr[0].Text())
	b, ok4 := parseF(r.Arr[1].Text())
	if !(ok1 && ok2 && ok3 && ok4 && feq(lat, a) && feq(lon, b)) {
		return false
	}
	z, hasZ := num(m["z"])
	if len(r.Arr) == 3 {
		c, ok := parseF(r.Arr[2].Text())
		return hasZ && ok && feq(z, c)
	}
	return !hasZ && len(r.Arr) == 2
}

func boundsEq(jv any, r respc.Reply) bool {
	m, ok := jv.(map[string]any)
	if !ok || !isArr(r) || len(r.Arr) != 2 {
		return false
	}
	for i, corner := range []string{"sw", "ne"} {
		c, ok := m[corner].(map[string]any)
		if !ok || !isArr(r.Arr[i]) || len(r.Arr[i].Arr) != 2 {
			return false
		}
		lat, ok1 := num(c["lat"])
		lon, ok2 := num(c["lon"])
		a, ok3 := parseF(r.Arr[i].Arr[0].Text())
		b, ok4 := parseF(r.Arr[i].Arr[1].Text())
		if !(ok1 && ok2 && ok3 && ok4 && feq(lat, a) && feq(lon, b)) {
			return false
		}
	}
	return true
}

// fieldsObjEq: JSON {"name":value} vs RESP [name data ...].
func fieldsObjEq(jv any, r respc.Reply) bool {
	m, ok := jv.(map[string]any)
	if !ok {
		return false
	}
	rm, ok := pairsToMap(r)
	if !ok || len(rm) != len(m) {
		return false
	}
	for k, v := range m {
		d, ok := rm[k]
		if !ok || !fieldValueEq(v, d) {
			return false
		}
	}
	return true
}

// depth of nesting of the first element chain
func arrDepth(r respc.Reply) int {
	d := 0
	for isArr(r) && len(r.Arr) > 0 {
		d++
		r = r.Arr[0]
	}
	if isArr(r) {
		d++
	}
	return d
}

// objectReplyEq relates the GET / SET..RETURN / FSET..RETURN reply forms.
func objectReplyEq(j map[string]any, r respc.Reply) (bool, string) {
	kind := ""
	for _, k := range []string{"object", "point", "hash", "bounds"} {
		if _, ok := j[k]; ok {
			kind = k
		}
	}
	if kind == "" {
		return false, "JSON reply has none of object/point/hash/bounds"
	}
	jf, hasFields := j["fields"]
	val := r
	var fields *respc.Reply
	wrapped := false
	switch kind {
	case "object", "hash":
		wrapped = isArr(r)
	case "point":
		wrapped = isArr(r) && len(r.Arr) > 0 && isArr(r.Arr[0])
	case "bounds":
		wrapped = arrDepth(r) >= 3
	}
	if wrapped {
		if len(r.Arr) < 1 || len(r.Arr) > 2 {
			return false, "RESP WITHFIELDS form has " + strconv.Itoa(len(r.Arr)) + " elements"
		}
		val = r.Arr[0]
		if len(r.Arr) == 2 {
			fields = &r.Arr[1]
		}
	}
	if hasFields != (fields != nil) {
		return false, "fields present in one mode only"
	}
	if fields != nil && !fieldsObjEq(jf, *fields) {
		return false, "fields differ"
	}
	switch kind {
	case "object":
		if !isBulk(val) || !objectEq(j["object"], val.Str) {
			return false, "object differs"
		}
	case "hash":
		s, _ := j["hash"].(string)
		if !isBulk(val) || s != val.Str {
			return false, "hash differs"
		}
	case "point":
		if !pointEq(j["point"], val) {
			return false, "point differs"
		}
	case "bounds":
		if !boundsEq(j["bounds"], val) {
			return false, "bounds differ"
		}
	}
	return true, ""
}

// bbox of a decoded GeoJSON geometry's coordinates.
func bbox(v any, mn, mx *[2]float64, seen *bool) {
	arr, ok := v.([]any)
	if !ok {
		return
	}
	if len(arr) >= 2 {
		x, ok1 := num(arr[0])
		y, ok2 := num(arr[1])
		if ok1 && ok2 {
			if !*seen {
				*mn, *mx, *seen = [2]float64{x, y}, [2]float64{x, y}, true
			} else {
				mn[0], mn[1] = math.Min(mn[0], x), math.Min(mn[1], y)
				mx[0], mx[1] = math.Max(mx[0], x), math.Max(mx[1], y)
			}
			return
		}
	}
	for _, e := range arr {
		bbox(e, mn, mx, seen)
	}
}

// scanEq relates the SCAN / SEARCH / NEARBY / WITHIN / INTERSECTS replies.
func scanEq(j map[string]any, r respc.Reply) (bool, string) {
	if live, ok := j["live"].(bool); ok && live {
		if r.Kind == '+' && r.Str == "OK" {
			return true, ""
		}
		return false, "live: RESP reply is not +OK"
	}
	count, okc := num(j["count"])
	cursor, oku := num(j["cursor"])
	if !okc || !oku {
		return false, "JSON reply lacks count/cursor"
	}
	kind := ""
	for _, k := range []string{"ids", "objects", "points", "hashes", "bounds", "mvt"} {
		if _, ok := j[k]; ok {
			kind = k
		}
	}
	if kind == "" { // COUNT
		if r.Kind != ':' {
			return false, "count: RESP reply is not an integer"
		}
		if float64(r.Int) != count {
			return false, fmt.Sprintf("count %v vs %d", count, r.Int)
		}
		return true, ""
	}
	if !isArr(r) || len(r.Arr) != 2 || r.Arr[0].Kind != ':' {
		return false, "RESP reply is not [cursor, items]"
	}
	if float64(r.Arr[0].Int) != cursor {
		return false, fmt.Sprintf("cursor %v vs %d", cursor, r.Arr[0].Int)
	}
	if kind == "mvt" {
		s, _ := j["mvt"].(string)
		b, err := base64.RawStdEncoding.DecodeString(s)
		if err != nil || !isBulk(r.Arr[1]) || string(b) != r.Arr[1].Str {
			return false, "mvt tile differs"
		}
		return true, ""
	}
	items, ok := j[kind].([]any)
	if !ok || !isArr(r.Arr[1]) {
		return false, "items are not lists"
	}
	ritems := r.Arr[1].Arr
	if len(items) != len(ritems) {
		return false, fmt.Sprintf("%d items vs %d", len(items), len(ritems))
	}
	if count != float64(len(items)) {
		return false, fmt.Sprintf("JSON count %v but %d items", count, len(items))
	}
	var names []string
	if fl, ok := j["fields"].([]any); ok {
		for _, n := range fl {
			s, _ := n.(string)
			names = append(names, s)
		}
	}
	single := map[string]string{"objects": "object", "points": "point", "hashes": "hash", "bounds": "bounds"}[kind]
	for i := range items {
		ji, ri := items[i], ritems[i]
		if kind == "ids" {
			if s, ok := ji.(string); ok {
				if !isBulk(ri) || s != wire.NormString(ri.Str) {
					return false, fmt.Sprintf("id %d differs", i)
				}
				continue
			}
			m, ok := ji.(map[string]any)
			if !ok || !isArr(ri) || len(ri.Arr) != 2 {
				return false, fmt.Sprintf("id item %d: forms differ", i)
			}
			s, _ := m["id"].(string)
			d, okd := num(m["distance"])
			g, okg := parseF(ri.Arr[1].Text())
			if s != wire.NormString(ri.Arr[0].Text()) || !okd || !okg || !feq(d, g) {
				return false, fmt.Sprintf("id/distance %d differs", i)
			}
			continue
		}
		m, ok := ji.(map[string]any)
		if !ok || !isArr(ri) || len(ri.Arr) < 2 {
			return false, fmt.Sprintf("item %d: forms differ", i)
		}
		if s, _ := m["id"].(string); s != wire.NormString(ri.Arr[0].Text()) {
			return false, fmt.Sprintf("item %d: id differs", i)
		}
		switch single {
		case "object":
			if !isBulk(ri.Arr[1]) || !objectEq(m["object"], ri.Arr[1].Str) {
				return false, fmt.Sprintf("item %d: object differs", i)
			}
		case "point":
			if !pointEq(m["point"], ri.Arr[1]) {
				return false, fmt.Sprintf("item %d: point differs", i)
			}
		case "hash":
			if s, _ := m["hash"].(string); s != ri.Arr[1].Text() {
				return false, fmt.Sprintf("item %d: hash differs", i)
			}
		case "bounds":
			if !boundsEq(m["bounds"], ri.Arr[1]) {
				return false, fmt.Sprintf("item %d: bounds differ", i)
			}
		}
		// optional tail: fields array, distance
		var rf map[string]string
		var rdist *float64
		for _, e := range ri.Arr[2:] {
			if isArr(e) {
				mm, ok := pairsToMap(e)
				if !ok {
					return false, fmt.Sprintf("item %d: odd RESP field list", i)
				}
				rf = mm
			} else if g, ok := parseF(e.Text()); ok {
				rdist = &g
			}
		}
		// JSON fields: positional list against the top-level names (zero = unset, not listed in RESP), or an object
		jf := map[string]any{}
		switch fv := m["fields"].(type) {
		case []any:
			for k, v := range fv {
				if k < len(names) {
					if f, ok := num(v); ok && f == 0 {
						continue
					}
					jf[names[k]] = v
				}
			}
		case map[string]any:
			jf = fv
		}
		if len(jf) != len(rf) {
			return false, fmt.Sprintf("item %d: %d non-zero fields in JSON, %d in RESP", i, len(jf), len(rf))
		}
		for k, v := range jf {
			d, ok := rf[k]
			if !ok || !fieldValueEq(v, d) {
				return false, fmt.Sprintf("item %d: field %q differs", i, k)
			}
		}
		jd, hasD := num(m["distance"])
		if hasD != (rdist != nil) || (hasD && !feq(jd, *rdist)) {
			return false, fmt.Sprintf("item %d: distance differs", i)
		}
	}
	return true, ""
}

// luaEq relates the two conversions of a script result (Redis conventions on
// the RESP side: numbers are truncated to integers, true is 1, false/nil is
// null). ok=false,"skip" means not comparable (tables with string keys).
func luaEq(jv any, r respc.Reply) (bool, string) {
	if f, ok := num(jv); ok {
		if math.Abs(f) >= 9.2e18 || math.IsNaN(f) || math.IsInf(f, 0) {
			return true, "skip" // outside the range of a RESP integer
		}
		if r.Kind == ':' && float64(r.Int) == math.Floor(f) {
			return true, ""
		}
		return false, "number differs"
	}
	switch x := jv.(type) {
	case nil:
		if isNilRe(r) {
			return true, ""
		}
		// a table of nothing is also null-ish: {} -> empty array
		return false, "null vs non-null"
	case bool:
		if x && r.Kind == ':' && r.Int == 1 {
			return true, ""
		}
		if !x && isNilRe(r) {
			return true, ""
		}
		return false, "boolean differs"
	case string:
		if isBulk(r) && x == wire.NormString(r.Str) {
			return true, ""
		}
		// an element that cannot be converted: RESP carries an error element inside the array, a
		// JSON array can only carry its text
		if r.Kind == '-' && strings.HasPrefix(x, "Unsupported lua type") && normErr(x) == normErr(r.Str) {
			return true, ""
		}
		return false, "string differs"
	case []any:
		if !isArr(r) || len(r.Arr) != len(x) {
			return false, "list length differs"
		}
		for i := range x {
			if ok, why := luaEq(x[i], r.Arr[i]); !ok {
				return false, why
			}
		}
		return true, ""
	case map[string]any:
		if len(x) == 0 && isArr(r) && len(r.Arr) == 0 {
			return true, ""
		}
		if len(x) == 1 {
			// a status: RESP sends +text, JSON keeps the table {"ok": text}
			if s, ok := x["ok"].(string); ok && r.Kind == '+' && normErr(s) == normErr(r.Str) {
				return true, ""
			}
		}
		return true, "skip"
	}
	return false, "unknown JSON value"
}

func hasWord(args []string, w string) bool {
	for _, a := range args {
		if strings.EqualFold(a, w) {
			return true
		}
	}
	return false
}

// cmdName returns the dispatcher name of a command ("CONFIG GET" style for the
// two-word commands, the inner command for TIMEOUT).
func cmdName(args []string) string {
	if len(args) == 0 {
		return ""
	}
	c := strings.ToUpper(args[0])
	if c == "TIMEOUT" && len(args) > 2 {
		return cmdName(args[2:])
	}
	if (c == "CONFIG" || c == "SCRIPT" || c == "CLIENT") && len(args) > 1 {
		return c + " " + strings.ToUpper(args[1])
	}
	return c
}

// absence table: how each mode says "nothing there" (DESIGN.md C17).
var absentJSON = map[string][]string{
	"GET":     {"key not found", "id not found"},
	"JGET":    {"key not found", "id not found"},
	"BOUNDS":  {"key not found"},
	"TYPE":    {"key not found"},
	"TTL":     {"key not found", "id not found"},
	"EXPIRE":  {"key not found", "id not found"},
	"PERSIST": {"key not found", "id not found"},
	"SET":     {"id already exists", "id not found"},
	"JDEL":    {"key not found", "path not found"},
}

func absentRESP(cmd string, r respc.Reply) bool {
	switch cmd {
	case "GET", "JGET", "BOUNDS", "SET":
		return isNilRe(r)
	case "TYPE":
		return r.Kind == '+' && r.Str == "none"
	case "TTL":
		return r.Kind == ':' && r.Int == -2
	case "EXPIRE", "PERSIST", "JDEL":
		return r.Kind == ':' && r.Int == 0
	}
	return false
}

// crossCompare relates the RESP-mode and JSON-mode replies to the same command
// in the same state. component names the part that disagrees.
func crossCompare(args []string, r respc.Reply, j map[string]any) (ok bool, component, why string) {
	cmd := cmdName(args)
	jok, _ := j["ok"].(bool)
	jerr, _ := j["err"].(string)
	rerr := r.Kind == '-'
	switch {
	case rerr && !jok:
		if normErr(r.Str) != normErr(jerr) {
			return false, "error", fmt.Sprintf("error texts differ: RESP %q, JSON %q", r.Str, jerr)
		}
		return true, "", ""
	case !jok && !rerr:
		for _, m := range absentJSON[cmd] {
			if jerr == m && absentRESP(cmd, r) {
				return true, "", ""
			}
		}
		return false, "error", fmt.Sprintf("JSON says error %q, RESP says %s", jerr, clip(r.String()))
	case rerr && jok:
		// (a script result {err = ...} is an error reply in both modes, {ok = ...} a status in both)
		return false, "error", fmt.Sprintf("RESP says error %q, JSON says ok", r.Str)
	}
	// both succeeded
	fail := func(comp, why string) (bool, string, string) { return false, comp, why }
	switch cmd {
	case "GET":
		if ok, why := objectReplyEq(j, r); !ok {
			return fail("object", why)
		}
	case "SET", "FSET":
		if hasAny(j, "object", "point", "hash", "bounds") {
			if ok, why := objectReplyEq(j, r); !ok {
				return fail("object", why)
			}
		}
	case "FGET":
		if !isBulk(r) || !fieldValueEq(j["value"], r.Str) {
			return fail("value", fmt.Sprintf("JSON value %v vs RESP %s", j["value"], clip(r.String())))
		}
	case "JGET":
		v, has := j["value"]
		if !has {
			if !isNilRe(r) {
				return fail("value", "JSON has no value, RESP is not nil")
			}
		} else if s, _ := v.(string); !isBulk(r) || s != wire.NormString(r.Str) {
			return fail("value", "values differ")
		}
	case "TTL":
		t, ok := num(j["ttl"])
		if !ok || r.Kind != ':' || math.Abs(t-float64(r.Int)) > 2 {
			return fail("ttl", fmt.Sprintf("ttl %v vs %s", j["ttl"], r.String()))
		}
		if (t < 0) != (r.Int < 0) {
			return fail("ttl", "ttl sign differs")
		}
	case "EXISTS", "FEXISTS":
		b, ok := j["exists"].(bool)
		if !ok || r.Kind != ':' || (r.Int == 1) != b || (r.Int != 0 && r.Int != 1) {
			return fail("exists", fmt.Sprintf("exists %v vs %s", j["exists"], r.String()))
		}
	case "TYPE":
		if s, _ := j["type"].(string); r.Kind != '+' || s != r.Str {
			return fail("type", "type differs")
		}
	case "BOUNDS":
		g, ok := j["bounds"].(map[string]any)
		if !ok || !isArr(r) || len(r.Arr) != 2 || !isArr(r.Arr[0]) || !isArr(r.Arr[1]) || len(r.Arr[0].Arr) != 2 || len(r.Arr[1].Arr) != 2 {
			return fail("bounds", "bounds forms differ")
		}
		var mn, mx [2]float64
		seen := false
		bbox(g["coordinates"], &mn, &mx, &seen)
		a0, _ := parseF(r.Arr[0].Arr[0].Text())
		a1, _ := parseF(r.Arr[0].Arr[1].Text())
		b0, _ := parseF(r.Arr[1].Arr[0].Text())
		b1, _ := parseF(r.Arr[1].Arr[1].Text())
		if !seen || !feq(mn[0], a0) || !feq(mn[1], a1) || !feq(mx[0], b0) || !feq(mx[1], b1) {
			return fail("bounds", fmt.Sprintf("bounding box differs: JSON %v..%v RESP %s", mn, mx, r.String()))
		}
	case "KEYS":
		l, ok := j["keys"].([]any)
		if !ok || !isArr(r) || len(l) != len(r.Arr) {
			return fail("keys", "key lists differ in length")
		}
		for i := range l {
			if s, _ := l[i].(string); s != wire.NormString(r.Arr[i].Text()) {
				return fail("keys", fmt.Sprintf("key %d differs", i))
			}
		}
	case "STATS":
		l, ok := j["stats"].([]any)
		if !ok || !isArr(r) || len(l) != len(r.Arr) {
			return fail("stats", "stats lists differ in length")
		}
		for i := range l {
			if l[i] == nil {
				if !isNilRe(r.Arr[i]) {
					return fail("stats", "null vs non-null")
				}
				continue
			}
			m, _ := l[i].(map[string]any)
			rm, ok := pairsToMap(r.Arr[i])
			if !ok || len(rm) != len(m) {
				return fail("stats", "stat maps differ")
			}
			for k, v := range m {
				if !fieldValueEq(v, rm[k]) {
					return fail("stats", "stat "+k+" differs")
				}
			}
		}
	case "SCAN", "SEARCH", "NEARBY", "WITHIN", "INTERSECTS":
		if ok, why := scanEq(j, r); !ok {
			return fail(scanComponent(why), why)
		}
	case "SUBSCRIBE", "PSUBSCRIBE":
		c, _ := j["command"].(string)
		ch, _ := j["channel"].(string)
		n, _ := num(j["num"])
		if !isArr(r) || len(r.Arr) != 3 || r.Arr[0].Text() != c || wire.NormString(r.Arr[1].Text()) != ch || float64(r.Arr[2].Int) != n {
			return fail("subscribe", "subscribe acknowledgements differ")
		}
	case "TEST":
		b, ok := j["result"].(bool)
		res := r
		if isArr(r) && len(r.Arr) == 2 {
			res = r.Arr[0]
			o, has := j["object"]
			if !has || !objectEq(o, r.Arr[1].Str) {
				return fail("object", "clipped object differs")
			}
		} else if _, has := j["object"]; has {
			return fail("object", "clipped object only in JSON")
		}
		if !ok || res.Kind != ':' || (res.Int == 1) != b {
			return fail("result", "test result differs")
		}
	case "EVAL", "EVALRO", "EVALNA", "EVALSHA", "EVALROSHA", "EVALNASHA":
		if ok, why := luaEq(j["result"], r); !ok {
			return fail("result", why)
		}
	case "SCRIPT LOAD":
		if s, _ := j["result"].(string); !isBulk(r) || s != r.Str {
			return fail("result", "digest differs")
		}
	case "SCRIPT EXISTS":
		l, ok := j["result"].([]any)
		if !ok || !isArr(r) || len(l) != len(r.Arr) {
			return fail("result", "lists differ")
		}
		for i := range l {
			if f, _ := num(l[i]); f != float64(r.Arr[i].Int) {
				return fail("result", "flags differ")
			}
		}
	case "PING":
		s, _ := j["ping"].(string)
		if !(strings.EqualFold(s, r.Text()) && (r.Kind == '+' || s == wire.NormString(r.Text()))) {
			return fail("ping", "ping payload differs")
		}
	case "ECHO":
		s, _ := j["echo"].(string)
		if !(strings.EqualFold(s, r.Text()) && (r.Kind == '+' || s == wire.NormString(r.Text()))) {
			return fail("echo", "echo payload differs")
		}
	case "PUBLISH":
		if f, ok := num(j["published"]); !ok || r.Kind != ':' || f != float64(r.Int) {
			return fail("published", "published count differs")
		}
	case "AOFMD5":
		if s, _ := j["md5"].(string); s != r.Text() {
			return fail("md5", "md5 differs")
		}
	case "HOOKS", "CHANS":
		key := strings.ToLower(cmd)
		l, ok := j[key].([]any)
		if !ok || !isArr(r) || len(l) != len(r.Arr) {
			return fail(key, "lists differ in length")
		}
		for i := range l {
			m, _ := l[i].(map[string]any)
			e := r.Arr[i]
			if !isArr(e) || len(e.Arr) != 5 {
				return fail(key, "RESP entry is not 5 elements")
			}
			if s, _ := m["name"].(string); s != wire.NormString(e.Arr[0].Text()) {
				return fail(key, "name differs")
			}
			if s, _ := m["key"].(string); s != wire.NormString(e.Arr[1].Text()) {
				return fail(key, "key differs")
			}
			if eps, has := m["endpoints"].([]any); has {
				if len(eps) != len(e.Arr[2].Arr) {
					return fail(key, "endpoints differ")
				}
				for k := range eps {
					if s, _ := eps[k].(string); s != wire.NormString(e.Arr[2].Arr[k].Text()) {
						return fail(key, "endpoint differs")
					}
				}
			}
			cl, _ := m["command"].([]any)
			if len(cl) != len(e.Arr[3].Arr) {
				return fail(key, "command differs")
			}
			for k := range cl {
				if s, _ := cl[k].(string); s != wire.NormString(e.Arr[3].Arr[k].Text()) {
					return fail(key, "command token differs")
				}
			}
			mm, _ := m["meta"].(map[string]any)
			rm, ok := pairsToMap(e.Arr[4])
			if !ok || len(rm) != len(mm) {
				return fail(key, "meta differs")
			}
			for k, v := range mm {
				if s, _ := v.(string); s != wire.NormString(rm[k]) {
					return fail(key, "meta value differs")
				}
			}
		}
	case "CONFIG GET":
		m, ok := j["properties"].(map[string]any)
		rm, ok2 := pairsToMap(r)
		if !ok || !ok2 || len(m) != len(rm) {
			return fail("properties", "property maps differ")
		}
		for k, v := range m {
			if s, _ := v.(string); s != wire.NormString(rm[k]) {
				return fail("properties", "property "+k+" differs")
			}
		}
	case "CLIENT GETNAME":
		if s, _ := j["name"].(string); s != wire.NormString(r.Text()) {
			return fail("name", "client name differs")
		}
	case "SERVER":
		m, ok := j["stats"].(map[string]any)
		rm, ok2 := pairsToMap(r)
		if !ok || !ok2 {
			return fail("stats", "forms differ")
		}
		if d := keyDiff(m, rm); d != "" {
			return fail("stats", "key sets differ: "+d)
		}
	case "INFO":
		m, ok := j["info"].(map[string]any)
		if !ok || !isBulk(r) {
			return fail("info", "forms differ")
		}
		rm := map[string]string{}
		for _, l := range strings.Split(r.Str, "\r\n") {
			l = strings.TrimSpace(l)
			if l == "" || strings.HasPrefix(l, "#") {
				continue
			}
			if kv := strings.SplitN(l, ":", 2); len(kv) == 2 {
				rm[kv[0]] = kv[1]
			}
		}
		if d := keyDiff(m, rm); d != "" {
			return fail("info", "key sets differ: "+d)
		}
	case "ROLE":
		m, ok := j["role"].(map[string]any)
		if !ok || !isArr(r) || len(r.Arr) < 1 {
			return fail("role", "forms differ")
		}
		if s, _ := m["role"].(string); s != r.Arr[0].Text() {
			return fail("role", "role differs")
		}
	}
	return true, "", ""
}

func scanComponent(why string) string {
	for _, c := range []string{"count", "cursor", "distance", "field", "object", "point", "hash", "bounds", "id", "items", "mvt", "live"} {
		if strings.Contains(why, c) {
			return c
		}
	}
	return "items"
}

func hasAny(m map[string]any, keys ...string) bool {
	for _, k := range keys {
		if _, ok := m[k]; ok {
			return true
		}
	}
	return false
}

func keyDiff(m map[string]any, rm map[string]string) string {
	var d []string
	for k := range m {
		if _, ok := rm[k]; !ok {
			d = append(d, "+json:"+k)
		}
	}
	for k := range rm {
		if _, ok := m[k]; !ok {
			d = append(d, "+resp:"+k)
		}
	}
	sort.Strings(d)
	return strings.Join(d, ",")
}

func clip(s string) string {
	if len(s) > 400 {
		return s[:400] + fmt.Sprintf("...(%d bytes)", len(s))
	}
	return s
}
