package c17

import (
	"encoding/json"
	"fmt"
	"strings"
	"time"

	"verifharness/respc"
	"verifharness/srv"
)

// clientNameProbe: connection state is the one thing the per-command cells
// cannot carry (every cell is a fresh connection). A client name that reads as
// a number, a boolean or null is still a name: CLIENT GETNAME and CLIENT LIST
// must convey it as the same string in both output modes.
func clientNameProbe(ck *checker) {
	ctx := ck.ctx
	s, err := srv.Start(srv.Opts{Bin: ck.bin})
	if err != nil {
		ctx.Inconclusive("client-name probe: " + err.Error())
		return
	}
	defer s.Kill9()
	for _, name := range []string{"abc", "123", "-1.5e3", "true", "false", "null", "0x10", "a=b"} {
		c, err := respc.Dial(s.Addr(), 2*time.Second)
		if err != nil {
			ctx.Inconclusive("client-name probe: " + err.Error())
			return
		}
		c.Timeout = 5 * time.Second
		local := c.C.LocalAddr().String()
		if r, err := c.Do("CLIENT", "SETNAME", name); err != nil || r.IsErr() {
			c.Close()
			continue
		}
		rl, err1 := c.Do("CLIENT", "LIST")
		rg, err2 := c.Do("CLIENT", "GETNAME")
		c.Do("OUTPUT", "json")
		jl, err3 := c.Do("CLIENT", "LIST")
		jg, err4 := c.Do("CLIENT", "GETNAME")
		c.Close()
		if err1 != nil || err2 != nil || err3 != nil || err4 != nil {
			ctx.Inconclusive("client-name probe: i/o error")
			return
		}
		ctx.Eval(1)
		ctx.Distinct("client-name:" + name)
		// RESP view
		respName := "<absent>"
		for _, line := range strings.Split(rl.Text(), "\n") {
			if strings.Contains(line, "addr="+local+" ") {
				for _, kv := range strings.Fields(line) {
					if strings.HasPrefix(kv, "name=") {
						respName = strings.TrimPrefix(kv, "name=")
					}
				}
			}
		}
		// JSON view
		var doc struct {
			OK   bool             `json:"ok"`
			List []map[string]any `json:"list"`
		}
		var jsonName any = "<absent>"
		if err := json.Unmarshal([]byte(jl.Text()), &doc); err != nil || !doc.OK {
			ck.report("json-invalid:CLIENT+LIST", fmt.Sprintf("CLIENT LIST in JSON mode after CLIENT SETNAME %q: %v; reply %s", name, err, jl.Text()), map[string]any{"name": name})
			continue
		}
		for _, m := range doc.List {
			if m["addr"] == local {
				jsonName = m["name"]
			}
		}
		var gdoc struct {
			OK   bool `json:"ok"`
			Name any  `json:"name"`
		}
		json.Unmarshal([]byte(jg.Text()), &gdoc)
		replay := map[string]any{"commands": [][]string{{"CLIENT", "SETNAME", name}, {"CLIENT", "LIST"}, {"CLIENT", "GETNAME"}, {"OUTPUT", "json"}, {"CLIENT", "LIST"}, {"CLIENT", "GETNAME"}},
			"resp_list": rl.Text(), "json_list": jl.Text(), "resp_getname": rg.Text(), "json_getname": jg.Text()}
		if respName != name || rg.Text() != name {
			ck.report("disagree:CLIENT:name", fmt.Sprintf("after CLIENT SETNAME %q the RESP replies carry name %q (LIST) / %q (GETNAME)", name, respName, rg.Text()), replay)
			continue
		}
		if js, ok := jsonName.(string); !ok || js != name {
			ck.report("disagree:CLIENT+LIST:name", fmt.Sprintf("after CLIENT SETNAME %q, CLIENT LIST conveys the name as the text %q in RESP mode and as the JSON value %v (%T) in JSON mode, while CLIENT GETNAME conveys %v (%T)", name, respName, jsonName, jsonName, gdoc.Name, gdoc.Name), replay)
			continue
		}
		if gs, ok := gdoc.Name.(string); !ok || gs != name {
			ck.report("disagree:CLIENT+GETNAME:name", fmt.Sprintf("after CLIENT SETNAME %q, CLIENT GETNAME conveys %q in RESP mode and %v (%T) in JSON mode", name, rg.Text(), gdoc.Name, gdoc.Name), replay)
		}
	}
}
