// Package c17: every reply is well formed, and the RESP and JSON output modes
// agree, over the RESP, telnet, native and HTTP transports (DESIGN.md section 4,
// C17).
package c17

import (
	"encoding/json"
	"errors"
	"fmt"
	"math/rand"
	"os"
	"path/filepath"
	"regexp"
	"sort"
	"strings"
	"sync"
	"time"

	"verifharness/core"
	"verifharness/respc"
	"verifharness/srv"
	"verifharness/wire"
)

const replyWait = 5 * time.Second

type cell struct {
	mode string // "resp" or "json"
	tr   wire.Proto
}

func (c cell) String() string { return c.mode + "/" + c.tr.String() }

var allCells = []cell{
	{"resp", wire.RESP}, {"json", wire.RESP},
	{"resp", wire.Telnet}, {"json", wire.Telnet},
	{"json", wire.Native}, {"resp", wire.Native},
	{"json", wire.HTTPGet}, {"json", wire.HTTPPost}, {"json", wire.WS},
}

// instance is one command in one argument shape in one dataset state.
type instance struct {
	tm    *wire.Tmpl
	shape string
	args  []string
	state string
}

// obs is what one cell observed.
type obs struct {
	cell    cell
	status  string // "reply", "noreply" (connection closed without a reply), "timeout", "skip" (not expressible), "ioerr"
	raw     []byte // payload (RESP bytes or JSON text)
	resp    respc.Reply
	json    map[string]any
	malform string // why the reply is not well formed ("" = well formed)
}

type checker struct {
	ctx      *core.Ctx
	bin      string
	mu       sync.Mutex
	reported map[string]int
	quar     map[string]bool
}

func (ck *checker) report(key, what string, replay any) {
	ck.mu.Lock()
	n := ck.reported[key]
	ck.reported[key] = n + 1
	ck.mu.Unlock()
	ck.ctx.Count("violations_by_key:"+key, 1)
	if n == 0 {
		ck.ctx.Violation(key, what, replay)
	}
}

func abbreviate(a []string) []string {
	o := make([]string, len(a))
	for i, s := range a {
		if len(s) > 200 {
			o[i] = fmt.Sprintf("<%d bytes starting %q>", len(s), s[:24])
		} else {
			o[i] = s
		}
	}
	return o
}

// crashKey turns srv.Crashed()'s site into a whitespace-free key.
func crashKey(site string) string {
	frame := site
	if i := strings.LastIndex(site, " @ "); i >= 0 {
		frame = site[i+3:]
	}
	if frame == "" {
		frame = site
		if i := strings.Index(frame, " @ "); i >= 0 {
			frame = frame[:i]
		}
	}
	frame = strings.TrimPrefix(frame, "github.com/tidwall/tile38/")
	frame = strings.Map(func(r rune) rune {
		if r == ' ' || r == '\t' {
			return '_'
		}
		return r
	}, frame)
	if len(frame) > 120 {
		frame = frame[:120]
	}
	return "crash:" + frame
}

// worker owns one server.
type worker struct {
	ck    *checker
	id    int
	dev   bool
	s     *srv.Server
	ctl   *respc.Conn
	state string // state currently loaded ("" = unknown/dirty)
	dirty bool
	last  *instance
}

func (w *worker) start() {
	o := srv.Opts{Bin: w.ck.bin}
	if w.dev {
		o.Args = []string{"--dev"}
	}
	s, err := srv.Start(o)
	if err != nil {
		w.ck.ctx.Fatal("start server: %v", err)
	}
	if err := wire.LimitAddressSpace(s.Pid(), 6<<30); err != nil {
		w.ck.ctx.Count("address_space_limit_failed", 1)
	}
	w.s = s
	w.ctl = nil
	w.state = ""
	w.dirty = true
}

func (w *worker) stop() {
	if w.ctl != nil {
		w.ctl.Close()
		w.ctl = nil
	}
	if w.s != nil {
		w.s.Kill9()
		os.RemoveAll(w.s.Dir)
		w.s = nil
	}
}

func (w *worker) restart() {
	w.stop()
	w.start()
}

// load brings the server into the wanted dataset state.
func (w *worker) load(state string) bool {
	if !w.dirty && w.state == state {
		return true
	}
	t0 := time.Now()
	defer func() {
		w.ck.ctx.Count("ms_in_state_load", time.Since(t0).Milliseconds())
		w.ck.ctx.Count("state_loads", 1)
	}()
	for attempt := 0; attempt < 3; attempt++ {
		if w.s != nil && !w.s.Alive() && w.last != nil {
			// died after its last reply (or while idle): attribute to the last instance sent
			if crashed, site := w.s.Crashed(); crashed {
				w.ck.report(crashKey(site), fmt.Sprintf("the server process died after %q (state %s): %s", abbreviate(w.last.args), w.last.state, site),
					map[string]any{"command": abbreviate(w.last.args), "template": w.last.tm.ID, "shape": w.last.shape, "state": w.last.state, "stderr": tail(w.s.StderrTail(5000), 5000)})
				w.ck.ctx.Count("crashes", 1)
			}
		}
		if w.s == nil || !w.s.Alive() {
			w.restart()
		}
		if w.ctl == nil {
			c, err := respc.Dial(w.s.Addr(), 5*time.Second)
			if err != nil {
				w.restart()
				continue
			}
			c.Timeout = 20 * time.Second
			w.ctl = c
		}
		cmds := [][]string{{"FLUSHDB"}, {"SCRIPT", "FLUSH"}}
		cmds = append(cmds, wire.StateCommands(state)...)
		cmds = append(cmds, []string{"SCRIPT", "LOAD", wire.ScriptBody})
		ok := true
		for _, c := range cmds {
			if err := w.ctl.Send(c...); err != nil {
				ok = false
				break
			}
		}
		for i := 0; ok && i < len(cmds); i++ {
			r, err := w.ctl.Recv()
			if err != nil || r.IsErr() {
				ok = false
			}
		}
		if ok {
			w.state = state
			w.dirty = false
			return true
		}
		w.restart()
	}
	w.ck.ctx.Inconclusive("cannot load dataset state " + state)
	return false
}

// ask sends one command in one cell on a fresh connection and reads its reply.
func (w *worker) ask(cl cell, args []string, wait time.Duration) obs {
	o := obs{cell: cl}
	raw, ok := wire.Encode(cl.tr, args...)
	if !ok {
		o.status = "skip"
		return o
	}
	def := "resp"
	if cl.tr == wire.Native || cl.tr == wire.HTTPGet || cl.tr == wire.HTTPPost || cl.tr == wire.WS {
		def = "json"
	}
	var pre []byte
	if cl.mode != def {
		if cl.tr == wire.HTTPGet || cl.tr == wire.HTTPPost || cl.tr == wire.WS {
			o.status = "skip"
			return o
		}
		pre, _ = wire.Encode(cl.tr, "OUTPUT", cl.mode)
	}
	c, err := wire.Dial(w.s.Addr(), replyWait)
	if err != nil {
		o.status = "ioerr"
		return o
	}
	defer c.Close()
	framing := cl.tr.ReplyFraming()
	if pre != nil {
		if err := c.Write(pre); err != nil {
			o.status = "ioerr"
			return o
		}
		if _, err := c.Next(framing, replyWait); err != nil {
			o.status = "ioerr"
			return o
		}
	}
	if err := c.Write(raw); err != nil {
		o.status = "ioerr"
		return o
	}
	var frame []byte
	if cl.tr == wire.WS {
		// the 101 response first, then one text frame
		h, err := c.Next(wire.HTTPGet, wait)
		if err == nil {
			if hr, e := wire.ParseHTTP(h); e != nil || hr.Code != 101 {
				// not upgraded: an ordinary HTTP response (or an error page)
				frame, framing = h, wire.HTTPGet
			} else {
				frame, err = c.Next(wire.WS, wait)
			}
		}
		if err != nil {
			return w.classifyErr(o, c, err)
		}
	} else {
		if cl.tr == wire.HTTPGet || cl.tr == wire.HTTPPost {
			// the request is complete: half-close, so that commands that go live without
			// an acknowledgement on plain HTTP end instead of idling
			c.CloseWrite()
		}
		frame, err = c.Next(framing, wait)
		if err != nil && framing == wire.Native && errors.Is(err, wire.ErrMalformed) && len(c.Buf) > 0 && c.Buf[0] != '$' {
			// bare RESP on a native connection (QUIT, AOF, MONITOR)
			if n, e := wire.FrameRESP(c.Buf); e == nil {
				frame, err = append([]byte(nil), c.Buf[:n]...), nil
			}
		}
		if err != nil {
			return w.classifyErr(o, c, err)
		}
	}
	o.status = "reply"
	mode := cl.mode
	if strings.EqualFold(args[0], "OUTPUT") && len(args) == 2 && (strings.EqualFold(args[1], "json") || strings.EqualFold(args[1], "resp")) {
		// the acknowledgement of a mode switch is written in the new mode
		mode = strings.ToLower(args[1])
		o.cell.mode = mode
	}
	if framing == wire.Native && mode == "resp" {
		// RESP mode on a native connection: QUIT and the live commands answer with
		// bare RESP, everything else wraps the RESP value in the native frame
		if n, err := wire.FrameRESP(frame); err == nil && n == len(frame) && frame[0] != '$' {
			framing = wire.RESP
		}
	}
	switch framing {
	case wire.RESP:
		r, perr := wire.ParseRESP(frame)
		if perr != nil {
			o.malform = "not valid RESP: " + perr.Error()
			o.raw = frame
			return o
		}
		o.resp = r
		if mode == "json" {
			if r.Kind != '$' || r.Nil {
				o.malform = "JSON-mode reply on a RESP connection is not a bulk string: " + clip(r.String())
				o.raw = frame
				return o
			}
			o.raw = []byte(r.Str)
		} else {
			o.raw = frame
		}
	case wire.Native:
		o.raw = wire.NativePayload(frame)
	case wire.WS:
		_, o.raw = wire.WSPayload(frame)
	default:
		h, perr := wire.ParseHTTP(frame)
		if perr != nil {
			o.malform = "not a valid HTTP response: " + perr.Error()
			o.raw = frame
			return o
		}
		o.raw = h.Body
	}
	if mode == "json" {
		m, jerr := wire.JSONReply(o.raw)
		if jerr != nil {
			o.malform = "not a valid JSON reply: " + jerr.Error()
		}
		o.json = m
	} else if framing != wire.RESP {
		// RESP mode on a native connection: the payload is the RESP value
		n, ferr := wire.FrameRESP(o.raw)
		if ferr == nil && framing == wire.HTTPGet && string(o.raw[n:]) == "\r\n" {
			o.raw = o.raw[:n] // HTTP bodies end with an extra CRLF
		}
		if ferr != nil || n != len(o.raw) {
			o.malform = fmt.Sprintf("native payload in RESP mode is not one RESP value (%v)", ferr)
			return o
		}
		r, perr := wire.ParseRESP(o.raw)
		if perr != nil {
			o.malform = "not valid RESP: " + perr.Error()
			return o
		}
		o.resp = r
	}
	return o
}

func (w *worker) classifyErr(o obs, c *wire.Conn, err error) obs {
	switch {
	case wire.IsTimeout(err):
		o.status = "timeout"
	case errors.Is(err, wire.ErrMalformed):
		o.status = "reply"
		o.malform = err.Error()
		o.raw = append([]byte(nil), c.Buf...)
	default:
		if len(c.Buf) > 0 {
			o.status = "reply"
			o.malform = "connection closed inside a reply"
			o.raw = append([]byte(nil), c.Buf...)
		} else {
			o.status = "noreply"
		}
	}
	return o
}

// goesLive: commands after which the connection streams.
func goesLive(args []string) bool {
	if len(args) == 0 {
		return false
	}
	switch strings.ToUpper(args[0]) {
	case "SUBSCRIBE", "PSUBSCRIBE", "MONITOR", "AOF":
		return true
	}
	return hasWord(args, "FENCE")
}

// responsive: does the server answer a write on a fresh connection within 3 s?
func (w *worker) responsive() bool {
	c, err := respc.Dial(w.s.Addr(), 2*time.Second)
	if err != nil {
		return false
	}
	defer c.Close()
	c.Timeout = 3 * time.Second
	_, err = c.Do("SET", "c17~probe", "p", "POINT", "1", "2")
	if err == nil {
		w.dirty = true
	}
	return err == nil
}

func nonFinite(args []string) bool {
	for _, a := range args {
		switch strings.ToLower(strings.TrimSpace(a)) {
		case "inf", "+inf", "-inf", "nan", "infinity", "+infinity", "-infinity":
			return true
		}
	}
	return false
}

// stripJSON removes the members that legitimately differ between two replies to
// the same command (timing, ttl countdowns).
func stripJSON(cmd string, m map[string]any) map[string]any {
	o := map[string]any{}
	for k, v := range m {
		if k == "elapsed" {
			continue
		}
		if cmd == "TTL" && k == "ttl" {
			continue
		}
		if (cmd == "HOOKS" || cmd == "CHANS") && (k == "hooks" || k == "chans") {
			if l, ok := v.([]any); ok {
				var nl []any
				for _, e := range l {
					if em, ok := e.(map[string]any); ok {
						c := map[string]any{}
						for kk, vv := range em {
							if kk != "ttl" {
								c[kk] = vv
							}
						}
						nl = append(nl, c)
					} else {
						nl = append(nl, e)
					}
				}
				v = nl
			}
		}
		o[k] = v
	}
	return o
}

// runInstance drives one instance through all cells and judges it.
func (w *worker) runInstance(in *instance, cells []cell) {
	ck := w.ck
	ctx := ck.ctx
	cword := wire.CommandWord(in.args)
	cmd := cmdName(in.args)
	// key component for reply-format findings: the command name only
	kcmd := wire.CommandWord(in.args[:1])
	if strings.Contains(cmd, " ") && len(in.args) > 1 {
		kcmd += "_" + wire.CommandWord(in.args[1:2])
	}
	if strings.EqualFold(in.args[0], "TIMEOUT") && len(in.args) > 2 {
		kcmd = "TIMEOUT_" + wire.CommandWord(in.args[2:3])
	}
	ck.mu.Lock()
	skip := ck.quar[cword] && nonFinite(in.args)
	ck.mu.Unlock()
	if skip {
		ctx.Count("instances_skipped_quarantined", 1)
		return
	}
	inner := in.args
	if strings.EqualFold(inner[0], "TIMEOUT") && len(inner) > 2 {
		inner = inner[2:]
	}
	if wire.LineWithinLine(inner) {
		// the known geometry-library hang (KNOWN_FINDINGS C16 wedge:line-within-line)
		ctx.Count("instances_skipped_line_within_line", 1)
		return
	}
	if wire.JSETBalloon(inner) {
		// the known containment finding of C16 (KNOWN_FINDINGS wedge:JSET): not a reply-format question
		ctx.Count("instances_skipped_jset_balloon", 1)
		return
	}
	global := in.tm.Flags&wire.FGlobal != 0
	readonly := in.tm.Flags&wire.FRead != 0 && !global && !strings.HasPrefix(in.shape, "mut:")
	var got []obs
	replayBase := func() map[string]any {
		return map[string]any{"command": abbreviate(in.args), "template": in.tm.ID, "shape": in.shape, "state": in.state, "state_commands": "wire.StateCommands(" + in.state + ") after FLUSHDB"}
	}
	for _, cl := range cells {
		if !w.load(in.state) {
			return
		}
		w.last = in
		wait := replyWait
		if in.tm.Flags&wire.FLive != 0 || goesLive(in.args) {
			wait = 1500 * time.Millisecond
		}
		t0 := time.Now()
		o := w.ask(cl, in.args, wait)
		ctx.Count("ms_in_ask", time.Since(t0).Milliseconds())
		if o.status == "skip" {
			ctx.Count("cells_not_expressible", 1)
			continue
		}
		if !readonly {
			w.dirty = true
		}
		ctx.Eval(1)
		ctx.Count("cells:"+cl.String(), 1)
		// the server must still be there
		if o.status != "reply" || o.malform != "" {
			time.Sleep(2 * time.Millisecond)
			if !w.s.Alive() || (o.status != "reply" && w.s.WaitExit(50*time.Millisecond)) {
				_, site := w.s.Crashed()
				rp := replayBase()
				rp["cell"] = cl.String()
				rp["stderr"] = tail(w.s.StderrTail(5000), 5000)
				ck.report(crashKey(site), fmt.Sprintf("no reply: the server process died on %q (state %s, %s): %s", abbreviate(in.args), in.state, cl, site), rp)
				ctx.Count("crashes", 1)
				ctx.Count("crashes_by_site:"+crashKey(site), 1)
				w.restart()
				return // the other cells would crash it again
			}
		}
		switch o.status {
		case "timeout":
			if w.responsive() {
				// the command did not answer on its own connection (a live mode without an
				// acknowledgement on this transport) but the server is fine
				ctx.Count("unanswered_server_responsive:"+cl.String(), 1)
				continue
			}
			// confirm on a fresh process: a request that never returns does so again
			w.restart()
			if !w.load(in.state) {
				return
			}
			if o2 := w.ask(cl, in.args, 2*replyWait); o2.status != "timeout" || w.responsive() {
				ctx.Count("noreply_not_reproduced", 1)
				w.dirty = true
				continue
			}
			rp := replayBase()
			rp["cell"] = cl.String()
			w.s.Abort()
			ck.report("noreply:"+cword, fmt.Sprintf("no reply within %v to %q (state %s, %s) and the connection stays open: the request never returns", replyWait, abbreviate(in.args), in.state, cl), rp)
			ck.mu.Lock()
			ck.quar[cword] = true
			ck.mu.Unlock()
			ctx.Count("timeouts", 1)
			w.restart()
			return
		case "noreply":
			ctx.Count("closed_without_reply:"+cl.String(), 1)
			if cword == "QUIT" {
				// QUIT is a command like any other: it is answered (in the form of the connection)
				// before the connection is closed
				rp := replayBase()
				rp["cell"] = cl.String()
				ck.report("noreply:QUIT", fmt.Sprintf("%q (state %s, %s): the connection is closed without any reply; every command is due one well-formed reply", abbreviate(in.args), in.state, cl), rp)
			}
			continue
		case "ioerr":
			ctx.Count("io_errors", 1)
			continue
		}
		ctx.Count("replies_parsed", 1)
		if global {
			// the instance may have switched a global gate: start from a fresh process
			got = append(got, o)
			w.restart()
			continue
		}
		got = append(got, o)
	}
	if len(got) == 0 {
		return
	}
	// 1. well-formedness
	var bad []obs
	njson := 0
	for _, o := range got {
		if o.cell.mode == "json" {
			njson++
		}
		if o.malform != "" {
			bad = append(bad, o)
		}
	}
	if len(bad) > 0 {
		badJSON := 0
		for _, o := range bad {
			if o.cell.mode == "json" {
				badJSON++
			}
		}
		for _, o := range bad {
			kind := "resp-invalid"
			suffix := ""
			if o.cell.mode == "json" {
				kind = "json-invalid"
				if badJSON != njson {
					suffix = ":" + o.cell.tr.String()
				}
			} else if o.cell.tr == wire.Native {
				suffix = ":native"
			}
			rp := replayBase()
			rp["cell"] = o.cell.String()
			rp["reply"] = clip(string(o.raw))
			if m := nonFiniteMember(o.raw); kind == "json-invalid" && m != "" {
				cword, suffix = "nonfinite", ":"+m
			} else if kind == "json-invalid" && strings.Contains(string(o.raw), `"live":true`) {
				// the acknowledgement of a live (FENCE) command
				cword, suffix = "live-ack", ":"+o.cell.tr.String()
			} else {
				cword = kcmd
			}
			ck.report(kind+":"+cword+suffix, fmt.Sprintf("reply to %q (state %s, %s) is malformed: %s; reply: %s", abbreviate(in.args), in.state, o.cell, o.malform, clip(string(o.raw))), rp)
		}
	}
	for _, o := range got {
		if o.malform == "" {
			ctx.Distinct(in.tm.ID + "|" + in.shape + "|" + in.state + "|" + o.cell.String())
		}
	}
	if in.tm.Flags&wire.FNoCmp != 0 && cmd != "SERVER" && cmd != "INFO" && cmd != "ROLE" && cmd != "FOLLOW" && cmd != "SLAVEOF" {
		return
	}
	// 2. same mode, different transports: the same result
	var refR, refJ *obs
	for i := range got {
		o := &got[i]
		if o.malform != "" {
			continue
		}
		if o.cell.mode == "resp" {
			if refR == nil {
				refR = o
			} else if in.tm.Flags&wire.FNoCmp == 0 && cmd != "TTL" && refR.resp.String() != o.resp.String() {
				rp := replayBase()
				rp["a"] = map[string]string{"cell": refR.cell.String(), "reply": clip(refR.resp.String())}
				rp["b"] = map[string]string{"cell": o.cell.String(), "reply": clip(o.resp.String())}
				ck.report("transport-disagree:"+kcmd+":resp:"+o.cell.tr.String(), fmt.Sprintf("RESP-mode replies to %q (state %s) differ between transports %s and %s: %s vs %s", abbreviate(in.args), in.state, refR.cell.tr, o.cell.tr, clip(refR.resp.String()), clip(o.resp.String())), rp)
			}
		} else {
			if refJ == nil {
				refJ = o
			} else if in.tm.Flags&wire.FNoCmp == 0 && !deepEq(stripJSON(cmd, refJ.json), stripJSON(cmd, o.json)) {
				rp := replayBase()
				rp["a"] = map[string]string{"cell": refJ.cell.String(), "reply": clip(wire.MaskString(string(refJ.raw)))}
				rp["b"] = map[string]string{"cell": o.cell.String(), "reply": clip(wire.MaskString(string(o.raw)))}
				ck.report("transport-disagree:"+kcmd+":json:"+o.cell.tr.String(), fmt.Sprintf("JSON-mode replies to %q (state %s) differ between transports %s and %s: %s vs %s", abbreviate(in.args), in.state, refJ.cell.tr, o.cell.tr, clip(wire.MaskString(string(refJ.raw))), clip(wire.MaskString(string(o.raw)))), rp)
			}
		}
	}
	// 3. RESP mode vs JSON mode
	if refR != nil && refJ != nil {
		if ctx.Count("mode_pairs_compared", 1); in.shape == "valid" && in.state == "hooks" && (in.tm.ID == "SCAN.wherein" || in.tm.ID == "GET.withfields" || in.tm.ID == "HOOKS") {
			ctx.Sample(map[string]any{"command": in.args, "state": in.state, "resp_mode": clip(refR.resp.String()), "json_mode": clip(wire.MaskString(string(refJ.raw)))})
		}
		ok, comp, why := crossCompare(in.args, refR.resp, refJ.json)
		if !ok {
			rp := replayBase()
			rp["resp_mode"] = map[string]string{"cell": refR.cell.String(), "reply": clip(refR.resp.String())}
			rp["json_mode"] = map[string]string{"cell": refJ.cell.String(), "reply": clip(wire.MaskString(string(refJ.raw)))}
			ck.report("disagree:"+kcmd+":"+comp, fmt.Sprintf("RESP and JSON modes disagree on %q (state %s): %s; RESP %s; JSON %s", abbreviate(in.args), in.state, why, clip(refR.resp.String()), clip(wire.MaskString(string(refJ.raw)))), rp)
		}
	}
}

var nonFiniteRe = regexp.MustCompile(`"([A-Za-z_]+)":\[?\[?\[?[-0-9.,e]*(NaN|[+-]?Inf)`)

// nonFiniteMember finds a bare NaN/Inf number in a JSON text and names the
// member it belongs to (the class of the "non-finite number printed as is"
// findings).
func nonFiniteMember(b []byte) string {
	if m := nonFiniteRe.FindSubmatch(b); m != nil {
		return string(m[1])
	}
	return ""
}

func tail(s string, n int) string {
	if len(s) > n {
		return s[len(s)-n:]
	}
	return s
}

// tableCheck compares the harness' command table with core/commands.json.
func tableCheck(ctx *core.Ctx) {
	b, err := os.ReadFile(filepath.Join(srv.RepoDir, "core", "commands.json"))
	if err != nil {
		ctx.Inconclusive("cannot read core/commands.json: " + err.Error())
		return
	}
	var m map[string]json.RawMessage
	if err := json.Unmarshal(b, &m); err != nil {
		ctx.Inconclusive("cannot parse core/commands.json: " + err.Error())
		return
	}
	have := map[string]bool{}
	for _, c := range wire.DocumentedCommands {
		have[c] = true
	}
	var diff []string
	for k := range m {
		if !have[k] {
			diff = append(diff, "+"+k)
		}
	}
	for k := range have {
		if _, ok := m[k]; !ok {
			diff = append(diff, "-"+k)
		}
	}
	covered := map[string]bool{}
	for _, tm := range wire.Templates() {
		covered[tm.Cmd] = true
	}
	var missing []string
	for _, c := range append(append([]string{}, wire.DocumentedCommands...), wire.UndocumentedCommands...) {
		if !covered[c] {
			missing = append(missing, c)
		}
	}
	sort.Strings(diff)
	ctx.Set("command_table", map[string]any{"documented": len(wire.DocumentedCommands), "undocumented": len(wire.UndocumentedCommands), "templates": len(wire.Templates())})
	if len(diff) > 0 {
		ctx.Count("table_out_of_date", int64(len(diff)))
		ctx.Set("table_diff", diff)
	}
	if len(missing) > 0 {
		ctx.Count("commands_without_template", int64(len(missing)))
		ctx.Set("commands_without_template_list", missing)
	}
}

// Run is the C17 check.
func Run(ctx *core.Ctx) {
	ctx.Rule = "command table (keys of core/commands.json + undocumented dispatcher names, one valid template per command form and option word) x systematic argument shapes (valid; every single-token deletion, truncation, duplication; extra arguments; per token the hostile values of its kind: wrong types, non-finite and out-of-range numbers, names needing escaping (quotes, backslash, control bytes, invalid UTF-8), broken GeoJSON; RETURN clauses) x 3 dataset states (empty; small mixed incl. ids/fields/strings needing escaping; with hooks and channels) x cells (output mode, transport): resp/resp json/resp resp/telnet json/telnet json/native resp/native json/http-get json/http-post json/websocket. Every cell: state rebuilt if the previous command could have changed it, command sent on a fresh connection, reply parsed by an independent codec. One connection-state probe: client names that read as numbers/booleans/null through CLIENT SETNAME / LIST / GETNAME in both modes. Judged: well-formedness per reply; equality of the result between transports in the same mode; the per-command agreement relation between modes (rel.go). non-trivial = cell with a parsed reply; distinct key = (template, shape, state, mode, transport)"
	ctx.Assumptions = []string{
		"agreement relation: numbers as float64; strings after mapping invalid UTF-8 bytes to U+FFFD (JSON cannot carry them); RESP error text = JSON err after dropping the 'ERR ' prefix and the Redis spelling of 'invalid number of arguments'; where JSON carries less than RESP (DEL/PDEL/DROP/RENAMENX/SETHOOK counts, FSET change count, PERSIST 0/1) only success is compared; absence: GET/JGET/BOUNDS nil, TYPE none, TTL -2, EXPIRE/PERSIST/JDEL 0, SET nil (NX/XX) <=> JSON ok:false with key/id/path not found or id already exists",
		"script results follow the Redis conversion on the RESP side (numbers truncated, true=1, false=nil); tables with string keys are not compared",
		"TTL values may differ by the time between two requests (tolerance 2 s); hook ttl members are ignored; SERVER/INFO compared on key sets, ROLE on the role, CLIENT LIST and AOFMD5 on well-formedness only",
		"live commands over plain HTTP close the connection without a reply: counted, not judged",
		"commands that switch global gates (CONFIG SET, READONLY, FOLLOW, AUTH, FLUSHDB, CLIENT) run on a process that is restarted after each cell",
		"MASSINSERT and SLEEP only in their valid, shortened and lengthened shapes on a --dev server; SHUTDOWN only on a non-dev server",
	}
	bin, err := srv.Build("plain")
	if err != nil {
		ctx.Fatal("%v", err)
	}
	_, stopSink, err := wire.StartSink()
	if err != nil {
		ctx.Fatal("sink: %v", err)
	}
	defer stopSink()
	tableCheck(ctx)
	ck := &checker{ctx: ctx, bin: bin, reported: map[string]int{}, quar: map[string]bool{}}

	// the instance list
	rng := ctx.SubRng(1)
	var insts, devInsts []*instance
	perTok := ctx.Pick(2, 0)
	for _, tm := range wire.Templates() {
		shapes := wire.Shapes(tm, rng, perTok, ctx.Thorough())
		states := wire.StateNames
		if tm.Flags&wire.FGlobal != 0 && !ctx.Thorough() {
			states = []string{"small"}
		}
		for _, sh := range shapes {
			if tm.Flags&wire.FDev != 0 {
				if strings.HasPrefix(sh.Name, "garble") || strings.HasPrefix(sh.Name, "word") {
					continue
				}
				devInsts = append(devInsts, &instance{tm, sh.Name, sh.Args, "small"})
				continue
			}
			for _, st := range states {
				insts = append(insts, &instance{tm, sh.Name, sh.Args, st})
			}
		}
	}
	// command names needing escaping (the "unknown command" path echoes them)
	unk := &wire.Tmpl{ID: "UNKNOWN", Cmd: "-", Flags: wire.FRead}
	for _, h := range wire.HostileName {
		if h != "" {
			insts = append(insts, &instance{unk, "name:" + fmt.Sprintf("%q", h), []string{h, "x"}, "small"})
		}
	}
	// random multi-token mutations (thorough)
	nMut := ctx.Pick(1500, 60000)
	tms := wire.Templates()
	for i := 0; i < nMut; i++ {
		tm := tms[rng.Intn(len(tms))]
		if tm.Flags&(wire.FDev|wire.FGlobal) != 0 {
			continue
		}
		args, muts := wire.Mutate(rng, tm)
		if len(args) == 0 || len(muts) == 0 {
			continue
		}
		if strings.EqualFold(args[0], "shutdown") || isGlobalWord(args) {
			continue
		}
		var ms []string
		for _, m := range muts {
			ms = append(ms, m.String())
		}
		insts = append(insts, &instance{tm, "mut:" + strings.Join(ms, ","), args, wire.StateNames[rng.Intn(3)]})
	}
	ctx.Logf("%d instances (+%d on the --dev server), %d templates", len(insts), len(devInsts), len(tms))
	ctx.Set("instances", len(insts)+len(devInsts))
	ctx.Sample(map[string]any{"instance": insts[0].args, "shape": insts[0].shape, "state": insts[0].state})

	// group by state so that reloads are rare, then deal to workers
	cells := allCells
	nw := 16
	jobs := make(chan []*instance, 4096)
	sort.SliceStable(insts, func(i, j int) bool { return insts[i].state < insts[j].state })
	const chunk = 40
	for i := 0; i < len(insts); i += chunk {
		jobs <- insts[i:min(len(insts), i+chunk)]
	}
	close(jobs)
	var wg sync.WaitGroup
	for i := 0; i < nw; i++ {
		wg.Add(1)
		go func(i int) {
			defer wg.Done()
			w := &worker{ck: ck, id: i}
			w.start()
			defer w.stop()
			n := 0
			for js := range jobs {
				for _, in := range js {
					if ctx.Violations() >= 25 {
						break
					}
					w.runInstance(in, cells)
					n++
					if n%4000 == 0 {
						w.restart() // keep the append-only file small
					}
				}
			}
		}(i)
	}
	wg.Wait()
	// dev commands
	if ctx.Violations() < 25 {
		w := &worker{ck: ck, id: 99, dev: true}
		w.start()
		for _, in := range devInsts {
			w.runInstance(in, cells)
		}
		w.stop()
	}
	ctx.Count("webhook_deliveries_to_sink", wire.SinkHits.Load())
	clientNameProbe(ck)
}

func isGlobalWord(args []string) bool {
	for _, a := range args {
		switch strings.ToLower(a) {
		case "flushdb", "follow", "slaveof", "readonly", "config", "shutdown", "auth", "client", "massinsert", "sleep":
			return true
		}
	}
	return false
}

var _ = rand.Int
