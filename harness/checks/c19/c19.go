// Package c19: counters, bounds and every access path agree with the
// retrievable dataset. DESIGN.md section 4, C19.
package c19

import (
	"encoding/json"
	"fmt"
	"math"
	"sort"
	"strconv"
	"strings"
	"sync"
	"time"

	"verifharness/core"
	"verifharness/dump"
	"verifharness/kmodel"
	"verifharness/respc"
	"verifharness/srv"
)

// countPoints counts coordinate positions of a GeoJSON value.
func countPoints(v any) int {
	m, ok := v.(map[string]any)
	if !ok {
		return 0
	}
	switch m["type"] {
	case "Feature":
		return countPoints(m["geometry"])
	case "FeatureCollection":
		n := 0
		if fs, ok := m["features"].([]any); ok {
			for _, f := range fs {
				n += countPoints(f)
			}
		}
		return n
	case "GeometryCollection":
		n := 0
		if gs, ok := m["geometries"].([]any); ok {
			for _, g := range gs {
				n += countPoints(g)
			}
		}
		return n
	}
	return countPositions(m["coordinates"])
}

func countPositions(c any) int {
	arr, ok := c.([]any)
	if !ok || len(arr) == 0 {
		return 0
	}
	if _, isNum := arr[0].(float64); isNum {
		return 1
	}
	n := 0
	for _, e := range arr {
		n += countPositions(e)
	}
	return n
}

// bboxOf computes the bounding box of a GeoJSON value; ok=false when empty.
func bboxOf(v any) (minx, miny, maxx, maxy float64, ok bool) {
	minx, miny, maxx, maxy = math.Inf(1), math.Inf(1), math.Inf(-1), math.Inf(-1)
	var walkPos func(c any)
	walkPos = func(c any) {
		arr, isArr := c.([]any)
		if !isArr || len(arr) == 0 {
			return
		}
		if x, isNum := arr[0].(float64); isNum && len(arr) >= 2 {
			y, _ := arr[1].(float64)
			minx, maxx = math.Min(minx, x), math.Max(maxx, x)
			miny, maxy = math.Min(miny, y), math.Max(maxy, y)
			ok = true
			return
		}
		for _, e := range arr {
			walkPos(e)
		}
	}
	var walk func(v any)
	walk = func(v any) {
		m, isMap := v.(map[string]any)
		if !isMap {
			return
		}
		switch m["type"] {
		case "Feature":
			walk(m["geometry"])
		case "FeatureCollection":
			if fs, ok := m["features"].([]any); ok {
				for _, f := range fs {
					walk(f)
				}
			}
		case "GeometryCollection":
			if gs, ok := m["geometries"].([]any); ok {
				for _, g := range gs {
					walk(g)
				}
			}
		default:
			walkPos(m["coordinates"])
		}
	}
	walk(v)
	return
}

func statsMap(r respc.Reply) map[string]int64 {
	out := map[string]int64{}
	for i := 0; i+1 < len(r.Arr); i += 2 {
		n, err := strconv.ParseInt(r.Arr[i+1].Text(), 10, 64)
		if err == nil {
			out[r.Arr[i].Str] = n
		}
	}
	return out
}

func floatOf(r respc.Reply) float64 {
	f, _ := strconv.ParseFloat(r.Text(), 64)
	return f
}

type sess struct {
	ctx  *core.Ctx
	s    *srv.Server
	c    *respc.Conn
	m    *kmodel.Model
	hist [][]string
}

func (ss *sess) fail(key, what string) {
	h := ss.hist
	if len(h) > 120 {
		h = h[len(h)-120:]
	}
	ss.ctx.Violation(key, what, map[string]any{"history_tail": h})
}

// outward32 rounds x to float32 towards +inf (up) or -inf.
func outward32(x float64, up bool) float32 {
	f := float32(x)
	if up && float64(f) < x {
		return math.Nextafter32(f, float32(math.Inf(1)))
	}
	if !up && float64(f) > x {
		return math.Nextafter32(f, float32(math.Inf(-1)))
	}
	return f
}

func ulp32(x float64) float64 {
	f := float32(x)
	n := math.Nextafter32(f, float32(math.Inf(1)))
	d := float64(n) - float64(f)
	if d <= 0 || math.IsInf(d, 0) {
		return math.Abs(x) * 1.2e-7
	}
	return d
}

// recompute compares every counter / bound / access path with the dump.
func (ss *sess) recompute(when string) bool {
	c := ss.c
	ctx := ss.ctx
	st, err := dump.TakeConn(c, dump.Opts{NoHooks: true})
	if err != nil {
		ctx.Inconclusive("dump: " + err.Error())
		return false
	}
	ctx.Count("recomputations", 1)
	var totObjects, totPoints, totStrings, totMem int64
	keys := make([]string, 0, len(st.Cols))
	for k := range st.Cols {
		keys = append(keys, k)
	}
	sort.Strings(keys)
	// KEYS * must list exactly the non-empty collections: TakeConn used KEYS itself, so check for empties
	for _, k := range keys {
		if len(st.Cols[k]) == 0 {
			ss.fail("keys-lists-empty-collection", fmt.Sprintf("%s: KEYS lists %q but SCAN returns no object", when, k))
			return false
		}
	}
	for _, k := range keys {
		objs := st.Cols[k]
		var nObj, nStr, nPts int64
		minx, miny, maxx, maxy := math.Inf(1), math.Inf(1), math.Inf(-1), math.Inf(-1)
		anyGeo := false
		type geoInfo struct {
			id                     string
			minx, miny, maxx, maxy float64
		}
		var geos []geoInfo
		strVals := map[string]string{}
		for _, o := range objs {
			nObj++
			mo := ss.m.Cols[k][o.ID]
			isStr := mo != nil && mo.Str
			if mo == nil {
				ss.fail("scan-returns-unknown-object", fmt.Sprintf("%s: SCAN %q returns %q which the model does not hold", when, k, o.ID))
				return false
			}
			if isStr {
				nStr++
				strVals[o.ID] = o.Text
				continue
			}
			var v any
			if err := json.Unmarshal([]byte(o.Text), &v); err != nil {
				ss.fail("object-not-json", fmt.Sprintf("%s: geometry %q/%q is not JSON: %s", when, k, o.ID, o.Text))
				return false
			}
			if mo.BoundsArgs != nil {
				nPts += 2 // a BOUNDS rectangle is two corner points by tile38's convention
			} else {
				nPts += int64(countPoints(v))
			}
			if x0, y0, x1, y1, ok := bboxOf(v); ok {
				anyGeo = true
				minx, miny, maxx, maxy = math.Min(minx, x0), math.Min(miny, y0), math.Max(maxx, x1), math.Max(maxy, y1)
				geos = append(geos, geoInfo{o.ID, x0, y0, x1, y1})
			}
		}
		r, err := c.Do("STATS", k)
		if err != nil {
			ctx.Inconclusive("STATS: " + err.Error())
			return false
		}
		if len(r.Arr) != 1 || r.Arr[0].Kind != '*' {
			ss.fail("stats-missing", fmt.Sprintf("%s: STATS %q = %s for a collection with %d objects", when, k, r.String(), nObj))
			return false
		}
		sm := statsMap(r.Arr[0])
		if sm["num_objects"] != nObj || sm["num_strings"] != nStr || sm["num_points"] != nPts {
			ss.fail("stats-counter", fmt.Sprintf("%s: STATS %q says objects=%d strings=%d points=%d, recomputed from SCAN: objects=%d strings=%d points=%d", when, k, sm["num_objects"], sm["num_strings"], sm["num_points"], nObj, nStr, nPts))
			return false
		}
		totObjects += nObj
		totStrings += nStr
		totPoints += nPts
		totMem += sm["in_memory_size"]
		// SCAN COUNT / SEARCH COUNT
		if r, err := c.Do("SCAN", k, "COUNT"); err == nil && (r.Kind != ':' || r.Int != nObj) {
			ss.fail("scan-count", fmt.Sprintf("%s: SCAN %q COUNT = %s, %d objects retrievable", when, k, r.String(), nObj))
			return false
		}
		// the id scan restricted to two id prefixes, in both directions (the range shortcut for several
		// patterns is computed per direction): the count of retrievable ids with either prefix
		if len(objs) >= 2 {
			firsts := map[byte]int64{}
			for _, o := range objs {
				if len(o.ID) > 0 && !strings.ContainsAny(o.ID[:1], "*?[\\") {
					firsts[o.ID[0]]++
				}
			}
			var fs []byte
			for b := range firsts {
				fs = append(fs, b)
			}
			sort.Slice(fs, func(i, j int) bool { return fs[i] < fs[j] })
			if len(fs) >= 2 {
				lo, hi := fs[0], fs[len(fs)-1]
				want := firsts[lo] + firsts[hi]
				for _, dir := range []string{"ASC", "DESC"} {
					for _, pats := range [][2]byte{{lo, hi}, {hi, lo}} {
						q := []string{"SCAN", k, dir, "MATCH", string(pats[0]) + "*", "MATCH", string(pats[1]) + "*", "COUNT"}
						if r, err := c.Do(q...); err == nil && r.Kind == ':' && r.Int != want {
							ss.fail("scan-count-two-prefixes", fmt.Sprintf("%s: %q = %s, %d retrievable ids start with %q or %q", when, q, r.String(), want, string(lo), string(hi)))
							return false
						}
					}
				}
			}
		}
		if r, err := c.Do("SEARCH", k, "COUNT"); err == nil && (r.Kind != ':' || r.Int != nStr) {
			ss.fail("search-count", fmt.Sprintf("%s: SEARCH %q COUNT = %s, %d strings retrievable", when, k, r.String(), nStr))
			return false
		}
		// BOUNDS
		br, err := c.Do("BOUNDS", k)
		if err == nil && br.Kind == '*' && len(br.Arr) == 2 {
			gminx, gminy := floatOf(br.Arr[0].Arr[0]), floatOf(br.Arr[0].Arr[1])
			gmaxx, gmaxy := floatOf(br.Arr[1].Arr[0]), floatOf(br.Arr[1].Arr[1])
			if !anyGeo {
				if gminx != 0 || gminy != 0 || gmaxx != 0 || gmaxy != 0 {
					ss.fail("bounds-of-nonspatial", fmt.Sprintf("%s: BOUNDS %q = %s for a collection without geometry", when, k, br.String()))
					return false
				}
			} else {
				type pair struct {
					name      string
					got, want float64
				}
				for _, p := range []pair{{"minx", gminx, minx}, {"miny", gminy, miny}, {"maxx", gmaxx, maxx}, {"maxy", gmaxy, maxy}} {
					if p.got != p.want {
						dev := math.Abs(p.got - p.want)
						// the index keeps rectangles as float32 rounded outwards (minima down, maxima
						// up): two coordinates tie there when that rounding gives the same float32
						if dev <= ulp32(p.want) || outward32(p.got, p.name[:3] == "max") == outward32(p.want, p.name[:3] == "max") {
							ss.ctx.Violation("bounds-float32-tie", fmt.Sprintf("%s: BOUNDS %q %s = %v, true extreme %v (deviation %g below one float32 step)", when, k, p.name, p.got, p.want, dev), nil)
						} else {
							ss.fail("bounds-wrong", fmt.Sprintf("%s: BOUNDS %q %s = %v, recomputed from the objects %v", when, k, p.name, p.got, p.want))
							return false
						}
					}
				}
			}
			ctx.Count("bounds_compared", 1)
		} else if err == nil {
			ss.fail("bounds-reply", fmt.Sprintf("%s: BOUNDS %q = %s", when, k, br.String()))
			return false
		}
		// access paths: strings through SEARCH
		if nStr > 0 {
			sr, err := c.Do("SEARCH", k, "LIMIT", "100000")
			if err == nil && sr.Kind == '*' && len(sr.Arr) == 2 {
				found := map[string]string{}
				for _, it := range sr.Arr[1].Arr {
					if len(it.Arr) >= 2 {
						found[it.Arr[0].Str] = it.Arr[1].Str
					}
				}
				for id, v := range strVals {
					if fv, ok := found[id]; !ok || fv != v {
						ss.fail("search-misses-string", fmt.Sprintf("%s: string %q/%q (%q) retrievable by GET/SCAN but SEARCH returns %q (found=%v)", when, k, id, v, fv, ok))
						return false
					}
				}
				for id := range found {
					if _, ok := strVals[id]; !ok {
						ss.fail("search-returns-nonstring", fmt.Sprintf("%s: SEARCH %q returns %q which is not a retrievable string", when, k, id))
						return false
					}
				}
				ctx.Count("search_paths_checked", int64(len(strVals)))
			}
		}
		// spatial paths
		if len(geos) > 0 {
			all := map[string]bool{}
			for _, cmdw := range []string{"INTERSECTS", "WITHIN"} {
				wr, err := c.Do(cmdw, k, "LIMIT", "100000", "IDS", "BOUNDS", "-90", "-180", "90", "180")
				if err != nil || wr.Kind != '*' || len(wr.Arr) != 2 {
					continue
				}
				got := map[string]bool{}
				for _, it := range wr.Arr[1].Arr {
					got[it.Str] = true
				}
				for _, g := range geos {
					inWorld := g.minx >= -180 && g.maxx <= 180 && g.miny >= -90 && g.maxy <= 90
					if inWorld && !got[g.id] {
						ss.fail("spatial-misses-object", fmt.Sprintf("%s: %q/%q is retrievable by GET/SCAN but %s over the whole world does not return it", when, k, g.id, cmdw))
						return false
					}
				}
				for id := range got {
					all[id] = true
				}
			}
			nr, err := c.Do("NEARBY", k, "LIMIT", "100000", "IDS", "POINT", "0", "0")
			if err == nil && nr.Kind == '*' && len(nr.Arr) == 2 {
				got := map[string]bool{}
				for _, it := range nr.Arr[1].Arr {
					id := it.Str
					if it.Kind == '*' && len(it.Arr) > 0 {
						id = it.Arr[0].Str
					}
					got[id] = true
					all[id] = true
				}
				for _, g := range geos {
					if !got[g.id] {
						ss.fail("nearby-misses-object", fmt.Sprintf("%s: %q/%q is retrievable by GET/SCAN but NEARBY (no radius) does not return it", when, k, g.id))
						return false
					}
				}
			}
			known := map[string]bool{}
			for _, o := range objs {
				known[o.ID] = true
			}
			for id := range all {
				if !known[id] {
					ss.fail("spatial-returns-unretrievable", fmt.Sprintf("%s: a spatial search on %q returns %q which SCAN/GET do not", when, k, id))
					return false
				}
			}
			ctx.Count("spatial_paths_checked", int64(len(geos)))
		}
	}
	// SERVER / INFO totals
	sr, err := c.Do("SERVER")
	if err == nil {
		sm := statsMap(sr)
		if sm["num_collections"] != int64(len(keys)) || sm["num_objects"] != totObjects || sm["num_points"] != totPoints || sm["num_strings"] != totStrings || sm["in_memory_size"] != totMem {
			ss.fail("server-totals", fmt.Sprintf("%s: SERVER says collections=%d objects=%d points=%d strings=%d mem=%d; recomputed: %d %d %d %d %d", when,
				sm["num_collections"], sm["num_objects"], sm["num_points"], sm["num_strings"], sm["in_memory_size"], len(keys), totObjects, totPoints, totStrings, totMem))
			return false
		}
	}
	// the extended form carries its own copies of the totals
	if er, err := c.Do("SERVER", "EXT"); err == nil && er.Kind == '*' {
		em := statsMap(er)
		if _, has := em["tile38_num_objects"]; has {
			if em["tile38_num_collections"] != int64(len(keys)) || em["tile38_num_objects"] != totObjects || em["tile38_num_points"] != totPoints || em["tile38_num_strings"] != totStrings {
				ss.fail("server-ext-totals", fmt.Sprintf("%s: SERVER EXT says collections=%d objects=%d points=%d strings=%d; recomputed: %d %d %d %d", when,
					em["tile38_num_collections"], em["tile38_num_objects"], em["tile38_num_points"], em["tile38_num_strings"], len(keys), totObjects, totPoints, totStrings))
				return false
			}
			ss.ctx.Count("server_ext_totals_checked", 1)
		}
	}
	return true
}

func (ss *sess) audit(when string) bool {
	r, err := ss.c.Do("VERIF", "AUDIT")
	if err != nil {
		ss.ctx.Inconclusive("AUDIT: " + err.Error())
		return false
	}
	if r.IsErr() {
		ss.ctx.Inconclusive("AUDIT unavailable: " + r.Str)
		return false
	}
	ss.ctx.Count("audits", 1)
	if strings.TrimSpace(r.Str) != "" {
		first := strings.SplitN(r.Str, "\n", 2)[0]
		cls := first
		if i := strings.Index(cls, ": "); i >= 0 {
			cls = cls[i+2:]
		}
		cls = strings.Map(func(r rune) rune {
			if r >= '0' && r <= '9' || r == '"' {
				return -1
			}
			return r
		}, cls)
		if len(cls) > 50 {
			cls = cls[:50]
		}
		ss.fail("audit:"+strings.ReplaceAll(strings.TrimSpace(cls), " ", "-"), when+": in-process audit reports: "+r.Str)
		return false
	}
	return true
}

// reload builds a fresh server holding one canonical SET per object of the
// model and compares in_memory_size / points per collection (path independence).
func (ss *sess) pathIndependence(bin string) {
	ctx := ss.ctx
	names := map[string]bool{}
	for _, col := range ss.m.Cols {
		for _, o := range col {
			for f := range o.Fields {
				names[f] = true
			}
		}
	}
	s2, err := srv.Start(srv.Opts{Bin: bin})
	if err != nil {
		ctx.Inconclusive(err.Error())
		return
	}
	defer s2.Kill9()
	c2, err := respc.Dial(s2.Addr(), 5*time.Second)
	if err != nil {
		return
	}
	defer c2.Close()
	st, err := dump.TakeConn(ss.c, dump.Opts{NoHooks: true})
	if err != nil {
		return
	}
	for k, objs := range st.Cols {
		for _, o := range objs {
			mo := ss.m.Cols[k][o.ID]
			if mo == nil {
				return
			}
			cmd := []string{"SET", k, o.ID}
			for i := 0; i+1 < len(o.Fields); i += 2 {
				v := o.Fields[i+1]
				if fv, ok := mo.Fields[o.Fields[i]]; ok && fv.Kind == kmodel.KString {
					b, _ := json.Marshal(v)
					v = string(b) // keep it a string (e.g. "123", "true")
				}
				cmd = append(cmd, "FIELD", o.Fields[i], v)
			}
			if o.HasEx {
				cmd = append(cmd, "EX", "5000")
			}
			switch {
			case mo.Str:
				cmd = append(cmd, "STRING", o.Text)
			case mo.BoundsArgs != nil:
				cmd = append(append(cmd, "BOUNDS"), mo.BoundsArgs...)
			default:
				cmd = append(cmd, "OBJECT", o.Text)
			}
			if r, err := c2.Do(cmd...); err != nil || r.IsErr() {
				ctx.Count("reload_rejected", 1)
				return
			}
		}
	}
	for k := range st.Cols {
		a, err1 := ss.c.Do("STATS", k)
		b, err2 := c2.Do("STATS", k)
		if err1 != nil || err2 != nil || len(a.Arr) != 1 || len(b.Arr) != 1 {
			continue
		}
		ma, mb := statsMap(a.Arr[0]), statsMap(b.Arr[0])
		ctx.Count("path_independence_compared", 1)
		if ma["in_memory_size"] != mb["in_memory_size"] || ma["num_points"] != mb["num_points"] {
			ss.fail("path-dependent-size", fmt.Sprintf("STATS %q after the history: in_memory_size=%d num_points=%d; a fresh server holding the same objects (one SET each): in_memory_size=%d num_points=%d", k, ma["in_memory_size"], ma["num_points"], mb["in_memory_size"], mb["num_points"]))
			return
		}
	}
}

func transitionKinds(hist [][]string) string {
	set := map[string]bool{}
	for _, h := range hist {
		w := strings.ToLower(h[0])
		switch w {
		case "set":
			for _, a := range h[3:] {
				switch strings.ToLower(a) {
				case "string", "point", "bounds", "hash", "object", "ex":
					set["set-"+strings.ToLower(a)] = true
				}
			}
		case "rename", "renamenx", "drop", "pdel", "expire", "persist", "jset", "jdel", "del", "flushdb", "fset":
			set[w] = true
		}
	}
	ks := make([]string, 0, len(set))
	for k := range set {
		ks = append(ks, k)
	}
	sort.Strings(ks)
	return strings.Join(ks, ",")
}

func runHistory(ctx *core.Ctx, bin string, hi int) {
	r := ctx.SubRng(int64(hi) + 190000)
	s, err := srv.Start(srv.Opts{Bin: bin})
	if err != nil {
		ctx.Inconclusive(err.Error())
		return
	}
	defer s.Kill9()
	c, err := respc.Dial(s.Addr(), 5*time.Second)
	if err != nil {
		ctx.Inconclusive(err.Error())
		return
	}
	defer c.Close()
	c.Timeout = 30 * time.Second
	ss := &sess{ctx: ctx, s: s, c: c, m: kmodel.New()}
	g := kmodel.RichGen(r)
	g.Keys = []string{"k1", "k:2", "key with space", "k*"}
	g.IDs = []string{"a", "b", "a*", "id with space", "0", "truck:1"}
	n := 150 + r.Intn(ctx.Pick(250, 700))
	shortTTL := hi%3 == 0
	for i := 0; i < n; i++ {
		cmd := g.Next()
		w := strings.ToLower(cmd[0])
		if w == "flushdb" && r.Intn(4) != 0 {
			continue
		}
		isRead := false
		switch w {
		case "get", "fget", "exists", "fexists", "ttl", "type", "keys", "scan", "jget":
			isRead = true
		}
		if isRead && r.Intn(3) != 0 {
			continue // bias to writes
		}
		if hi%5 == 0 && w == "set" && r.Intn(4) == 0 {
			// float32-hostile coordinates: distinct float64 values that collapse in the float32 index
			base := []string{"1.0000000", "33.1234567", "-112.0000001", "89.9999999"}[r.Intn(4)]
			cmd = []string{"SET", cmd[1], cmd[2], "POINT", base + strconv.Itoa(1+r.Intn(8)), "-" + base[len(base)-9:] + strconv.Itoa(1+r.Intn(8))}
			if strings.HasPrefix(cmd[5], "--") {
				cmd[5] = cmd[5][2:]
			}
		}
		before := ss.m.Clone()
		prevKind := objKind(before, cmd)
		_, known := ss.m.Apply(cmd)
		if !known {
			ss.m = before
			continue
		}
		if w == "set" || w == "jset" || w == "jdel" {
			if nk := objKind(ss.m, cmd); nk != "none" {
				ctx.Distinct("overwrite|" + prevKind + "->" + nk)
			}
		} else if !isRead {
			ctx.Distinct("op|" + w + "|" + prevKind)
		}
		ss.hist = append(ss.hist, cmd)
		rep, err := c.Do(cmd...)
		if err != nil {
			time.Sleep(50 * time.Millisecond)
			if !s.Alive() {
				_, site := s.Crashed()
				ctx.Inconclusive("server died during C19 history (C16/C17 decide crashes): " + site)
			} else {
				ctx.Inconclusive("i/o: " + err.Error())
			}
			return
		}
		_ = rep
		ctx.Eval(1)
		if shortTTL && i%9 == 0 {
			// an object that expires soon, on a key of its own kind mix; removed from the model when it is gone
			k := g.Keys[r.Intn(len(g.Keys))]
			c.Do("SET", k, "soon", "EX", "0.15", "POINT", "1", "2")
			ss.hist = append(ss.hist, []string{"SET", k, "soon", "EX", "0.15", "POINT", "1", "2"})
			time.Sleep(400 * time.Millisecond)
			// the model never held it; but a RENAME/FSET may have interacted: resync by DEL
			c.Do("DEL", k, "soon")
			ctx.Count("short_ttl_objects", 1)
		}
		if i%40 == 39 {
			if !ss.audit(fmt.Sprintf("after %d commands", i+1)) {
				return
			}
		}
		if i%100 == 99 {
			if !ss.recompute(fmt.Sprintf("after %d commands", i+1)) {
				return
			}
		}
	}
	if !ss.audit("at end") || !ss.recompute("at end") {
		return
	}
	if len(nameSet(ss.hist)) < 100 {
		ss.pathIndependence(bin)
	}
	kinds := transitionKinds(ss.hist)
	if hi == 0 {
		ctx.Sample(map[string]any{"commands": len(ss.hist), "transition_kinds": kinds, "history_prefix": ss.hist[:min(8, len(ss.hist))]})
	}
	ctx.Count("histories", 1)
}

func objKind(m *kmodel.Model, cmd []string) string {
	if len(cmd) < 3 {
		return "-"
	}
	col := m.Cols[cmd[1]]
	if col == nil {
		return "none"
	}
	o := col[cmd[2]]
	if o == nil {
		return "none"
	}
	k := "geo:" + o.GType
	switch {
	case o.Str && o.IsJDoc:
		k = "jsondoc"
	case o.Str:
		k = "string"
	case o.BoundsArgs != nil:
		k = "bounds"
	case o.Pt != nil:
		k = "point" + strconv.Itoa(len(o.Pt))
	case strings.HasPrefix(o.Lit, "hash:"):
		k = "hash"
	case strings.Contains(o.Lit, `"coordinates":[]`) || strings.Contains(o.Lit, `"geometries":[]`):
		k = "empty-geo"
	}
	if o.HasEx {
		k += "+ex"
	}
	if len(o.Fields) > 0 {
		k += "+f"
	}
	return k
}

func nameSet(hist [][]string) map[string]bool {
	out := map[string]bool{}
	for _, h := range hist {
		for i, a := range h {
			if strings.ToLower(a) == "field" && i+1 < len(h) {
				out[h[i+1]] = true
			}
		}
	}
	return out
}

// Run is the C19 check.
func Run(ctx *core.Ctx) {
	ctx.Rule = "model-tracked histories over 4 collections x 6 ids with hostile names, biased to writes: kind-changing overwrites (string <-> point/bounds/hash/GeoJSON incl. empty geometries), field churn, TTL set/clear, short TTLs that expire, RENAME/RENAMENX/DROP/PDEL/FLUSHDB, JSET/JDEL; every 40 commands the in-process AUDIT (id tree vs spatial/value/expiry indexes, the four counters, hook registries, group maps); every 100 commands and at the end: STATS per key, SERVER totals, SCAN COUNT, SEARCH COUNT, KEYS, BOUNDS recomputed from the SCAN dump; every string found by SEARCH, every non-empty geometry by whole-world WITHIN/INTERSECTS and unbounded NEARBY, and nothing else returned; at the end in_memory_size / num_points compared with a fresh server holding one SET per object. non-trivial = a state-changing command applied to an existing or new object; distinct key = (object kind before -> after) for overwrites, (command, object kind) otherwise"
	ctx.Assumptions = []string{"a BOUNDS-born rectangle counts 2 points (tile38's convention), every other geometry its GeoJSON positions", "deviations of BOUNDS between coordinates that the index's outward float32 rounding maps to the same value (or below one float32 step) are the listed finding bounds-float32-tie"}
	bin, err := srv.Build("plain")
	if err != nil {
		ctx.Fatal("%v", err)
	}
	n := ctx.Pick(60, 1500)
	var wg sync.WaitGroup
	sem := make(chan struct{}, 8)
	for i := 0; i < n; i++ {
		wg.Add(1)
		sem <- struct{}{}
		go func(i int) {
			defer wg.Done()
			defer func() { <-sem }()
			runHistory(ctx, bin, i)
		}(i)
	}
	wg.Wait()
}
