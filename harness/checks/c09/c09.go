// Package c09: AOFSHRINK preserves the dataset, concurrently with writes and
// across crashes. DESIGN.md section 4, C09.
package c09

import (
	"fmt"
	"math/rand"
	"os"
	"regexp"
	"sort"
	"strconv"
	"strings"
	"sync"
	"time"

	"verifharness/core"
	"verifharness/dump"
	"verifharness/httpsink"
	"verifharness/respc"
	"verifharness/srv"
)

var sink *httpsink.Sink

var fieldValues = []string{"1", "-2.5", "1e3", "-0", "0.0", "NaN", "+Inf", "-Inf", "inf", "abc", "with space", `q"uote`, `back\slash`, "new\nline", "tab\there", "true", "false", "null",
	`{"a":1,"b":[1,2,{"c":null}]}`, `[1,"x",true]`, `"123"`, `"true"`, "é✓", "", " padded ", "0x10", "+5", "TRUE",
	`"90210"`, `"null"`, `"false"`, `"{\"a\":1}"`, `" padded in quotes "`, `"1e3"`, `"NaN"`, `"-0"`}

var objects = [][]string{
	{"POINT", "33.5", "-112.25"}, {"POINT", "10", "20", "30"}, {"BOUNDS", "1", "2", "3", "4"}, {"HASH", "9tbnwg"},
	{"OBJECT", `{"type":"LineString","coordinates":[[0,0],[1,1],[2,0.5]]}`},
	{"OBJECT", `{"type":"Polygon","coordinates":[[[0,0],[10,0],[10,10],[0,10],[0,0]],[[2,2],[4,2],[4,4],[2,4],[2,2]]]}`},
	{"OBJECT", `{"type":"MultiPoint","coordinates":[[1,2],[3,4]]}`},
	{"OBJECT", `{"type":"GeometryCollection","geometries":[{"type":"Point","coordinates":[1,1]},{"type":"LineString","coordinates":[[0,0],[2,2]]}]}`},
	{"OBJECT", `{"type":"Feature","id":"f1","geometry":{"type":"Point","coordinates":[7,8]},"properties":{"name":"x\"y","n":1}}`},
	{"OBJECT", `{"type":"FeatureCollection","features":[{"type":"Feature","geometry":{"type":"Point","coordinates":[1,2]},"properties":{}}]}`},
	{"OBJECT", `{"type":"MultiPoint","coordinates":[]}`},
	{"STRING", "plain"}, {"STRING", ""}, {"STRING", "va\r\nl\x00ue \"q\""}, {"STRING", `{"json":"doc"}`}, {"STRING", "1234"},
}

type ds struct {
	keys []string
	ids  map[string][]string
}

// buildDataset fills the server. sizes hit the scan batch boundaries (8 keys, 32 ids).
func buildDataset(c *respc.Conn, r *rand.Rand, nkeys int, ttls bool) (*ds, error) {
	d := &ds{ids: map[string][]string{}}
	sizes := []int{1, 31, 32, 33, 64, 65, 5, 40, 100, 2}
	pipeline := 0
	flush := func() error {
		for ; pipeline > 0; pipeline-- {
			rep, err := c.Recv()
			if err != nil {
				return err
			}
			if rep.IsErr() {
				return fmt.Errorf("dataset command rejected: %s", rep.Str)
			}
		}
		return nil
	}
	for ki := 0; ki < nkeys; ki++ {
		key := fmt.Sprintf("key_%c%d", 'a'+ki%26, ki)
		if ki%5 == 4 {
			key = fmt.Sprintf("k e\"y_%d", ki)
		}
		d.keys = append(d.keys, key)
		n := sizes[(ki+r.Intn(3))%len(sizes)]
		for i := 0; i < n; i++ {
			id := fmt.Sprintf("id%03d", i)
			if i%11 == 10 {
				id = fmt.Sprintf("i d\n%03d", i)
			}
			d.ids[key] = append(d.ids[key], id)
			cmd := []string{"SET", key, id}
			nf := r.Intn(4)
			for f := 0; f < nf; f++ {
				cmd = append(cmd, "FIELD", []string{"f", "g", "Speed", "a b", "ŧ", "x9"}[r.Intn(6)], fieldValues[r.Intn(len(fieldValues))])
			}
			if ttls && r.Intn(5) == 0 {
				cmd = append(cmd, "EX", strconv.Itoa(2000+r.Intn(3000)))
			}
			cmd = append(cmd, objects[r.Intn(len(objects))]...)
			if err := c.Send(cmd...); err != nil {
				return nil, err
			}
			pipeline++
			if pipeline >= 200 {
				if err := flush(); err != nil {
					return nil, err
				}
			}
		}
	}
	if err := flush(); err != nil {
		return nil, err
	}
	sort.Strings(d.keys)
	// hooks and channels with metas and EX
	hooks := [][]string{
		{"SETHOOK", "h1", sink.URL("a"), "META", "m1", "v 1", "META", "m2", `q"`, "NEARBY", d.keys[0], "FENCE", "DETECT", "enter,exit", "COMMANDS", "set,del", "POINT", "33", "-112", "500"},
		{"SETHOOK", "h2", sink.URL("a") + "," + sink.URL("b"), "WITHIN", d.keys[len(d.keys)-1], "WHERE", "f", "1", "5", "MATCH", "id0*", "FENCE", "BOUNDS", "0", "0", "5", "5"},
		{"SETCHAN", "c1", "META", "x", "y", "INTERSECTS", d.keys[0], "FENCE", "OBJECT", `{"type":"Polygon","coordinates":[[[0,0],[4,0],[4,4],[0,4],[0,0]]]}`},
		{"SETCHAN", "c2", "NEARBY", d.keys[1%len(d.keys)], "FENCE", "ROAM", d.keys[1%len(d.keys)], "*", "300"},
	}
	if ttls {
		hooks = append(hooks, []string{"SETHOOK", "hex", sink.URL("c"), "EX", "4000", "NEARBY", d.keys[0], "FENCE", "POINT", "1", "2", "100"},
			[]string{"SETCHAN", "cex", "EX", "3500", "META", "k", "v", "WITHIN", d.keys[0], "FENCE", "BOUNDS", "1", "1", "2", "2"})
	}
	for _, h := range hooks {
		rep, err := c.Do(h...)
		if err != nil {
			return nil, err
		}
		if rep.IsErr() {
			return nil, fmt.Errorf("hook rejected: %v: %s", h, rep.Str)
		}
	}
	return d, nil
}

var pointRe = regexp.MustCompile(`point (\S+) arrivals=(\d+) parked=(\d+)`)

type pstat struct{ arrivals, parked int }

func pointStatus(c *respc.Conn) (map[string]pstat, error) {
	r, err := c.Do("VERIF", "STATUS")
	if err != nil {
		return nil, err
	}
	if r.IsErr() {
		return nil, fmt.Errorf("VERIF STATUS: %s", r.Str)
	}
	out := map[string]pstat{}
	for _, m := range pointRe.FindAllStringSubmatch(r.Str, -1) {
		a, _ := strconv.Atoi(m[2])
		p, _ := strconv.Atoi(m[3])
		out[m[1]] = pstat{a, p}
	}
	return out, nil
}

// waitShrinkDone waits until the shrink's last point was passed.
func waitShrinkDone(c *respc.Conn, prev int, timeout time.Duration) error {
	deadline := time.Now().Add(timeout)
	for time.Now().Before(deadline) {
		st, err := pointStatus(c)
		if err != nil {
			return err
		}
		if st["shrink.afterRemoveBak"].arrivals > prev {
			// the last point is passed before the rewrite clears its in-progress flag, and a request
			// made in between is silently dropped: wait for the flag too
			if rep, err := c.Do("INFO", "persistence"); err != nil || !strings.Contains(rep.String(), "aof_rewrite_in_progress:1") {
				return nil
			}
		}
		time.Sleep(5 * time.Millisecond)
	}
	return fmt.Errorf("shrink did not complete within %v", timeout)
}

type ttlSample struct {
	key, id string
	ttl     int64
	at      time.Time
}

func sampleTTLs(c *respc.Conn, st *dump.State, max int) []ttlSample {
	var out []ttlSample
	for k, objs := range st.Cols {
		for _, o := range objs {
			if o.HasEx && len(out) < max {
				r, err := c.Do("TTL", k, o.ID)
				if err == nil && r.Kind == ':' && r.Int >= 0 {
					out = append(out, ttlSample{k, o.ID, r.Int, time.Now()})
				}
			}
		}
	}
	return out
}

func checkTTLs(ctx *core.Ctx, c *respc.Conn, before []ttlSample, what string, replay any) {
	for _, b := range before {
		r, err := c.Do("TTL", b.key, b.id)
		if err != nil || r.Kind != ':' {
			continue
		}
		el := time.Since(b.at).Seconds()
		ctx.Count("ttls_compared", 1)
		if float64(r.Int) < float64(b.ttl)-el-1.2 {
			ctx.Violation("ttl-shortened", fmt.Sprintf("%s: TTL of %q/%q was %d s, %0.1f s later it is %d s (shortened beyond rounding)", what, b.key, b.id, b.ttl, el, r.Int), replay)
			return
		}
		if r.Int > b.ttl+1 {
			ctx.Violation("ttl-extended", fmt.Sprintf("%s: TTL of %q/%q was %d s and is now %d s", what, b.key, b.id, b.ttl, r.Int), replay)
			return
		}
	}
}

func startWith(bin string, env []string) (*srv.Server, *respc.Conn, error) {
	s, err := srv.Start(srv.Opts{Bin: bin, Env: env})
	if err != nil {
		return nil, nil, err
	}
	c, err := respc.Dial(s.Addr(), 5*time.Second)
	if err != nil {
		s.Kill9()
		return nil, nil, err
	}
	c.Timeout = 30 * time.Second
	return s, c, nil
}

// sequential: shrink a quiescent server, compare live before/after and restart.
func sequential(ctx *core.Ctx, bin string, caseNo int) {
	r := ctx.SubRng(int64(caseNo))
	s, c, err := startWith(bin, []string{"T38_VERIF_POINTS=shrink.afterRemoveBak=yield:1"})
	if err != nil {
		ctx.Inconclusive(err.Error())
		return
	}
	defer s.Kill9()
	defer c.Close()
	nkeys := []int{7, 8, 9, 16, 17, 25}[caseNo%6]
	if _, err := buildDataset(c, r, nkeys, true); err != nil {
		ctx.Inconclusive("dataset: " + err.Error())
		return
	}
	before, err := dump.Take(s.Addr(), dump.Opts{})
	if err != nil {
		ctx.Inconclusive(err.Error())
		return
	}
	ttls := sampleTTLs(c, before, 12)
	fi0, _ := os.Stat(s.AOFPath())
	stale := ""
	if caseNo%3 == 1 {
		// what a rewrite that crashed earlier leaves behind: files with the rewrite's names, longer
		// than anything the next rewrite will write
		if cur, err := os.ReadFile(s.AOFPath()); err == nil {
			junk := append(append(append([]byte{}, cur...), cur...), []byte("*3\r\n$3\r\nSET\r\n$5\r\nstale\r\n$2\r\nid")...)
			os.WriteFile(s.AOFPath()+"-shrink", junk, 0o600)
			os.WriteFile(s.AOFPath()+"-bak", junk, 0o600)
			stale = "+stale-files"
			ctx.Count("sequential_with_stale_rewrite_files", 1)
		}
	}
	nshrinks := 1 + caseNo%2
	for i := 0; i < nshrinks; i++ {
		if rep, err := c.Do("AOFSHRINK"); err != nil || rep.IsErr() {
			ctx.Inconclusive(fmt.Sprintf("AOFSHRINK: %v %s", err, rep.String()))
			return
		}
		if err := waitShrinkDone(c, i, 60*time.Second); err != nil {
			ctx.Inconclusive(err.Error())
			return
		}
	}
	fi1, _ := os.Stat(s.AOFPath())
	replay := map[string]any{"case": "sequential" + stale, "nkeys": nkeys, "seed": ctx.Seed, "caseNo": caseNo}
	live, err := dump.Take(s.Addr(), dump.Opts{})
	if err != nil {
		ctx.Inconclusive(err.Error())
		return
	}
	ctx.Eval(1)
	if d := dump.Diff(before, live); d != "" {
		ctx.Violation("shrink-changes-live", "what the server serves changed across AOFSHRINK (A=before B=after): "+d, replay)
		return
	}
	// one acknowledged write after the shrink must be kept too
	c.Do("SET", d0(before), "after-shrink", "FIELD", "f", "7", "POINT", "1", "1")
	live, _ = dump.Take(s.Addr(), dump.Opts{})
	c.Close()
	if caseNo%2 == 0 {
		s.Term(20 * time.Second)
	} else {
		s.Kill9()
	}
	s2, err := s.Restart()
	if err != nil {
		ctx.Violation("restart-fails-after-shrink", "server does not start on the shrunk log: "+err.Error(), replay)
		return
	}
	defer s2.Kill9()
	after, err := dump.Take(s2.Addr(), dump.Opts{})
	if err != nil {
		ctx.Inconclusive(err.Error())
		return
	}
	if d := dump.Diff(live, after); d != "" {
		ctx.Violation("shrink-restart-diff:"+diffClass(d), "restart on the shrunk log differs from the live server (A=live B=restarted): "+d, replay)
		return
	}
	c2, err := respc.Dial(s2.Addr(), 5*time.Second)
	if err == nil {
		checkTTLs(ctx, c2, ttls, "sequential shrink + restart", replay)
		c2.Close()
	}
	ctx.Count("sequential_shrinks", int64(nshrinks))
	ctx.Count("objects_compared", int64(before.NObjects()))
	if fi0 != nil && fi1 != nil {
		ctx.Count("log_bytes_before", fi0.Size())
		ctx.Count("log_bytes_after", fi1.Size())
	}
	ctx.Distinct(fmt.Sprintf("sequential%s|keys=%d|shrinks=%d", stale, nkeys, nshrinks))
	if caseNo == 0 {
		ctx.Sample(map[string]any{"case": "sequential", "collections": len(before.Cols), "objects": before.NObjects(), "hooks": len(before.Hooks), "chans": len(before.Chans), "log_before": fi0.Size(), "log_after": fi1.Size()})
	}
}

func d0(st *dump.State) string {
	ks := make([]string, 0, len(st.Cols))
	for k := range st.Cols {
		ks = append(ks, k)
	}
	sort.Strings(ks)
	if len(ks) == 0 {
		return "k"
	}
	return ks[0]
}

func diffClass(d string) string {
	switch {
	case strings.Contains(d, "hooks differ"):
		return "hooks"
	case strings.Contains(d, "chans differ"):
		return "chans"
	case strings.Contains(d, "only in"):
		return "object-set"
	case strings.Contains(d, "differs"):
		return "object-content"
	}
	return "other"
}

// gated: park the rewrite between batches and interleave scripted writers.
func gated(ctx *core.Ctx, bin string, caseNo int, withRename bool) {
	r := ctx.SubRng(int64(caseNo) + 7000)
	env := "T38_VERIF_POINTS=shrink.betweenKeyBatches=gate;shrink.betweenIdBatches=gate;shrink.beforeFinal=gate;shrink.afterRemoveBak=yield:1"
	s, c, err := startWith(bin, []string{env})
	if err != nil {
		ctx.Inconclusive(err.Error())
		return
	}
	defer s.Kill9()
	defer c.Close()
	nkeys := []int{9, 12, 17}[caseNo%3]
	data, err := buildDataset(c, r, nkeys, false)
	if err != nil {
		ctx.Inconclusive("dataset: " + err.Error())
		return
	}
	ctl, err := respc.Dial(s.Addr(), 5*time.Second)
	if err != nil {
		ctx.Inconclusive(err.Error())
		return
	}
	defer ctl.Close()
	ctl.Timeout = 30 * time.Second
	// every collection holds an array document, so that the position-addressed edits below
	// (append, delete the first element) are never no-ops
	for _, k := range data.keys {
		c.Do("SET", k, "jarr", "STRING", `{"list":[1,2,3,4,5,6,7,8,9,10,11,12]}`)
	}
	if rep, err := c.Do("AOFSHRINK"); err != nil || rep.IsErr() {
		ctx.Inconclusive("AOFSHRINK failed")
		return
	}
	var script [][]string
	renamed := map[string]bool{}
	kinds := map[string]bool{}
	steps := 0
	newIDs := 0
	renames := 0
	pick := func() (string, string) {
		k := data.keys[r.Intn(len(data.keys))]
		ids := data.ids[k]
		if len(ids) == 0 {
			return k, "idX"
		}
		return k, ids[r.Intn(len(ids))]
	}
	doWrite := func() {
		k, id := pick()
		var cmd []string
		n := 16
		if withRename {
			n = 19
		}
		switch r.Intn(n) {
		case 0, 1, 2:
			cmd = append([]string{"SET", k, id, "FIELD", "f", strconv.Itoa(steps + 1)}, objects[r.Intn(len(objects))]...)
		case 3:
			newIDs++
			cmd = append([]string{"SET", k, fmt.Sprintf("new%03d", newIDs), "FIELD", "g", fieldValues[r.Intn(len(fieldValues))]}, objects[r.Intn(len(objects))]...)
		case 4:
			cmd = []string{"SET", fmt.Sprintf("key_n%d", newIDs), "x", "POINT", "1", "2"}
			newIDs++
		case 5:
			cmd = []string{"FSET", k, id, "f", fieldValues[r.Intn(8)], "zz", "1"}
		case 6:
			cmd = []string{"DEL", k, id}
		case 7:
			cmd = []string{"PDEL", k, fmt.Sprintf("id0%d*", r.Intn(10))}
		case 8:
			if r.Intn(3) == 0 {
				cmd = []string{"DROP", k}
			} else {
				cmd = []string{"DEL", k, id}
			}
		case 9:
			cmd = []string{"EXPIRE", k, id, "3000"}
		case 10:
			cmd = []string{"PERSIST", k, id}
		case 11:
			cmd = []string{"JSET", k, "jdoc", "p" + strconv.Itoa(r.Intn(3)), strconv.Itoa(steps)}
			if r.Intn(2) == 0 {
				// not idempotent: appends to an array
				cmd = []string{"JSET", k, "jarr", "list.-1", strconv.Itoa(steps)}
			}
		case 12:
			cmd = []string{"JDEL", k, "jdoc", "p" + strconv.Itoa(r.Intn(3))}
			if r.Intn(2) == 0 {
				// not idempotent: removes the first array element, whatever it is
				cmd = []string{"JDEL", k, "jarr", "list.0"}
			}
		case 13:
			cmd = []string{"SETCHAN", "cg" + strconv.Itoa(r.Intn(3)), "META", "s", strconv.Itoa(steps), "WITHIN", k, "FENCE", "BOUNDS", "0", "0", "1", strconv.Itoa(1 + r.Intn(5))}
		case 14:
			cmd = []string{"DELCHAN", "cg" + strconv.Itoa(r.Intn(3))}
		case 15:
			if r.Intn(3) == 0 {
				// a second AOFSHRINK while the first is parked: it is refused, and must change nothing
				cmd = []string{"AOFSHRINK"}
			} else {
				cmd = []string{"EVAL", `tile38.call('set', KEYS[1], ARGV[1], 'string', ARGV[2]); tile38.call('fset', KEYS[1], ARGV[1], 'sf', ARGV[2]); return 1`, "1", k, id, strconv.Itoa(steps)}
			}
		case 16, 17:
			k2 := data.keys[r.Intn(len(data.keys))]
			if r.Intn(2) == 0 {
				k2 = fmt.Sprintf("key_r%d", renames)
			}
			renames++
			cmd = []string{"RENAME", k, k2}
		default:
			k2 := data.keys[r.Intn(len(data.keys))]
			cmd = []string{"RENAMENX", k, fmt.Sprintf("%s_nx%d", k2, renames)}
			renames++
		}
		rep, err := ctl.Do(cmd...)
		if err == nil {
			script = append(script, append(cmd, "=>", rep.String()))
			kinds[strings.ToLower(cmd[0])] = true
			if (strings.HasPrefix(strings.ToLower(cmd[0]), "rename")) && !rep.IsErr() && rep.String() != ":0" {
				kinds["rename-applied"] = true
				renamed[cmd[1]] = true
				renamed[cmd[2]] = true
				// keep the key list current
				for i, kk := range data.keys {
					if kk == cmd[1] {
						data.ids[cmd[2]] = data.ids[kk]
						delete(data.ids, kk)
						data.keys[i] = cmd[2]
					}
				}
			}
		}
	}
	// drive: whenever the rewrite is parked, do some writes, then release one step
	deadline := time.Now().Add(120 * time.Second)
	done := false
	for !done && time.Now().Before(deadline) {
		st, err := pointStatus(ctl)
		if err != nil {
			if !s.Alive() {
				_, site := s.Crashed()
				ctx.Inconclusive("server died during gated shrink: " + site)
			} else {
				ctx.Inconclusive(err.Error())
			}
			return
		}
		if st["shrink.afterRemoveBak"].arrivals > 0 {
			done = true
			break
		}
		parkedAt := ""
		for _, p := range []string{"shrink.betweenKeyBatches", "shrink.betweenIdBatches", "shrink.beforeFinal"} {
			if st[p].parked > 0 {
				parkedAt = p
			}
		}
		if parkedAt == "" {
			time.Sleep(time.Millisecond)
			continue
		}
		steps++
		nw := r.Intn(4)
		if steps%3 == 0 {
			nw = 0
		}
		for i := 0; i < nw; i++ {
			doWrite()
		}
		ctl.Do("VERIF", "RELEASE", parkedAt, "1")
	}
	if !done {
		ctx.Inconclusive("gated shrink did not finish")
		return
	}
	replay := map[string]any{"case": "gated", "writes": script, "withRename": withRename, "caseNo": caseNo}
	live, err := dump.Take(s.Addr(), dump.Opts{})
	if err != nil {
		ctx.Inconclusive(err.Error())
		return
	}
	if caseNo%2 == 0 {
		s.Term(20 * time.Second)
	} else {
		s.Kill9()
	}
	s2, err := s.Restart()
	if err != nil {
		ctx.Violation("restart-fails-after-shrink", "server does not start on the log shrunk concurrently with writes: "+err.Error(), replay)
		return
	}
	defer s2.Kill9()
	after, err := dump.Take(s2.Addr(), dump.Opts{})
	if err != nil {
		ctx.Inconclusive(err.Error())
		return
	}
	ctx.Eval(1)
	ctx.Count("gated_interleavings", 1)
	ctx.Count("gate_steps", int64(steps))
	ctx.Count("writes_during_shrink", int64(len(script)))
	if d := dump.Diff(live, after); d != "" {
		key := "shrink-concurrent-diff:" + diffClass(d)
		if kinds["rename-applied"] {
			// the listed finding covers only differences confined to collections
			// that were the source or destination of a RENAME/RENAMENX applied
			// while the shrink was running
			only := true
			for _, k := range dump.DiffKeys(live, after) {
				if !renamed[k] {
					only = false
				}
			}
			if only {
				key = "rename-during-shrink"
			}
		}
		ctx.Violation(key, fmt.Sprintf("restart after a shrink that ran concurrently with writes differs from the live server (A=live B=restarted): %s", d), replay)
		return
	}
	if len(script) > 0 {
		ks := make([]string, 0, len(kinds))
		for k := range kinds {
			ks = append(ks, k)
		}
		sort.Strings(ks)
		ctx.Distinct("gated|" + strings.Join(ks, ","))
	}
	if caseNo == 0 && len(script) > 0 {
		ctx.Sample(map[string]any{"case": "gated", "gate_steps": steps, "writes_during_shrink": script[:min(8, len(script))]})
	}
}

// freeRunning: unparked shrink with concurrent token writers; restart must hold
// every acknowledged token and equal the live dump.
func freeRunning(ctx *core.Ctx, bin string, caseNo int) {
	r := ctx.SubRng(int64(caseNo) + 9000)
	env := "T38_VERIF_POINTS=shrink.afterRemoveBak=yield:1;shrink.betweenIdBatches=sleep:1"
	s, c, err := startWith(bin, []string{env})
	if err != nil {
		ctx.Inconclusive(err.Error())
		return
	}
	defer s.Kill9()
	defer c.Close()
	if _, err := buildDataset(c, r, 12, false); err != nil {
		ctx.Inconclusive("dataset: " + err.Error())
		return
	}
	var wg sync.WaitGroup
	stop := make(chan struct{})
	for w := 0; w < 4; w++ {
		wg.Add(1)
		go func(w int) {
			defer wg.Done()
			rr := ctx.SubRng(int64(caseNo)*10 + int64(w) + 9500)
			wc, err := respc.Dial(s.Addr(), 5*time.Second)
			if err != nil {
				return
			}
			defer wc.Close()
			wc.Timeout = 20 * time.Second
			for i := 0; ; i++ {
				select {
				case <-stop:
					return
				default:
				}
				key := fmt.Sprintf("key_%c%d", 'a'+rr.Intn(12), rr.Intn(12))
				if rr.Intn(3) == 0 {
					key = fmt.Sprintf("w%d", w)
				}
				wc.Do("SET", key, fmt.Sprintf("id%03d", rr.Intn(70)), "FIELD", "tok", fmt.Sprintf("%d", w*1000000+i), "POINT", "1", "2")
				if rr.Intn(10) == 0 {
					wc.Do("DEL", key, fmt.Sprintf("id%03d", rr.Intn(70)))
				}
			}
		}(w)
	}
	nsh := 2 + r.Intn(2)
	for i := 0; i < nsh; i++ {
		c.Do("AOFSHRINK")
		if i%2 == 0 {
			// a second request while the first rewrite is running
			time.Sleep(time.Duration(1+r.Intn(8)) * time.Millisecond)
			c.Do("AOFSHRINK")
		}
		if err := waitShrinkDone(c, i, 60*time.Second); err != nil {
			close(stop)
			wg.Wait()
			ctx.Inconclusive(err.Error())
			return
		}
	}
	close(stop)
	wg.Wait()
	live, err := dump.Take(s.Addr(), dump.Opts{})
	if err != nil {
		ctx.Inconclusive(err.Error())
		return
	}
	s.Kill9()
	s2, err := s.Restart()
	if err != nil {
		ctx.Violation("restart-fails-after-shrink", "server does not start after shrinks under load: "+err.Error(), nil)
		return
	}
	defer s2.Kill9()
	after, err := dump.Take(s2.Addr(), dump.Opts{})
	if err != nil {
		ctx.Inconclusive(err.Error())
		return
	}
	ctx.Eval(1)
	ctx.Count("free_running_cases", 1)
	if d := dump.Diff(live, after); d != "" {
		ctx.Violation("shrink-concurrent-diff:"+diffClass(d), "restart after shrinks under free-running writers differs from the live server (A=live B=restarted): "+d, map[string]any{"case": "free-running", "caseNo": caseNo})
		return
	}
	ctx.Distinct(fmt.Sprintf("free|%d", caseNo))
}

var crashPoints = []string{"shrink.betweenKeyBatches", "shrink.betweenIdBatches", "shrink.beforeFinal", "shrink.afterAppendLog", "shrink.afterCloseOld", "shrink.afterRenameBak", "shrink.afterRenameNew", "shrink.afterReopen", "shrink.afterRemoveBak"}

// crash: the process kills itself at a named step of the shrink.
func crash(ctx *core.Ctx, bin string, caseNo int, point string, withWriters bool) {
	r := ctx.SubRng(int64(caseNo) + 11000)
	s, c, err := startWith(bin, nil)
	if err != nil {
		ctx.Inconclusive(err.Error())
		return
	}
	defer s.Kill9()
	defer c.Close()
	if _, err := buildDataset(c, r, 10, false); err != nil {
		ctx.Inconclusive("dataset: " + err.Error())
		return
	}
	before, err := dump.Take(s.Addr(), dump.Opts{})
	if err != nil {
		ctx.Inconclusive(err.Error())
		return
	}
	skip := 0
	if strings.Contains(point, "betweenId") {
		skip = r.Intn(6)
	} else if strings.Contains(point, "betweenKey") {
		skip = r.Intn(2)
	}
	if rep, err := c.Do("VERIF", "POINT", point, fmt.Sprintf("crash@%d", skip)); err != nil || rep.IsErr() {
		ctx.Inconclusive("arming crash point failed")
		return
	}
	var wg sync.WaitGroup
	var mu sync.Mutex
	acked := map[string]string{}
	if withWriters {
		for w := 0; w < 3; w++ {
			wg.Add(1)
			go func(w int) {
				defer wg.Done()
				wc, err := respc.Dial(s.Addr(), 5*time.Second)
				if err != nil {
					return
				}
				defer wc.Close()
				wc.Timeout = 10 * time.Second
				for i := 0; i < 100000; i++ {
					id := fmt.Sprintf("o%d", i%5)
					tok := fmt.Sprintf("%d", w*1000000+i)
					rep, err := wc.Do("SET", fmt.Sprintf("crashw%d", w), id, "STRING", tok)
					if err != nil {
						return
					}
					if rep.String() == "+OK" {
						mu.Lock()
						acked[fmt.Sprintf("crashw%d/%s", w, id)] = tok
						mu.Unlock()
					}
				}
			}(w)
		}
		time.Sleep(time.Duration(r.Intn(20)) * time.Millisecond)
	}
	c.Do("AOFSHRINK")
	if !s.WaitExit(60 * time.Second) {
		ctx.Count("crash_point_not_reached:"+point, 1)
		s.Kill9()
	} else {
		ctx.Count("crash_point_hit:"+point, 1)
	}
	wg.Wait()
	files := dirList(s.Dir)
	replay := map[string]any{"case": "crash", "point": point, "skip": skip, "writers": withWriters, "data_dir_after_crash": files}
	s2, err := s.Restart()
	if err != nil {
		ctx.Violation("crash:"+point+":restart-fails", fmt.Sprintf("crash at %s: server does not start on the data directory %v: %v", point, files, err), replay)
		return
	}
	defer s2.Kill9()
	after, err := dump.Take(s2.Addr(), dump.Opts{})
	if err != nil {
		ctx.Inconclusive(err.Error())
		return
	}
	ctx.Eval(1)
	if withWriters {
		got := map[string]string{}
		for k, objs := range after.Cols {
			for _, o := range objs {
				got[k+"/"+o.ID] = o.Text
			}
		}
		lost := 0
		first := ""
		for ko, tok := range acked {
			g, ok := got[ko]
			gi, _ := strconv.Atoi(g)
			ti, _ := strconv.Atoi(tok)
			if !ok || gi < ti {
				lost++
				if first == "" {
					first = fmt.Sprintf("%s acked %s recovered %q", ko, tok, g)
				}
			}
		}
		ctx.Count("acked_tokens_checked", int64(len(acked)))
		if lost > 0 {
			ctx.Violation("crash:"+point+":acked-lost", fmt.Sprintf("crash at %s with concurrent writers: %d acknowledged writes lost (%s); data dir after crash: %v", point, lost, first, files), replay)
			return
		}
		// the pre-existing dataset must be intact as well
		for k := range after.Cols {
			if strings.HasPrefix(k, "crashw") {
				delete(after.Cols, k)
			}
		}
	}
	if d := dump.Diff(before, after); d != "" {
		ctx.Violation("crash:"+point+":state-lost", fmt.Sprintf("crash at %s: recovered state differs from the acknowledged state (A=before B=recovered; data dir after crash: %v): %s", point, files, d), replay)
		return
	}
	ctx.Distinct(fmt.Sprintf("crash|%s|writers=%v", point, withWriters))
}

func dirList(dir string) []string {
	es, _ := os.ReadDir(dir)
	var out []string
	for _, e := range es {
		if strings.HasPrefix(e.Name(), "stderr-") {
			continue
		}
		fi, _ := e.Info()
		sz := int64(-1)
		if fi != nil {
			sz = fi.Size()
		}
		out = append(out, fmt.Sprintf("%s(%d)", e.Name(), sz))
	}
	return out
}

// Run is the C09 check.
func Run(ctx *core.Ctx) {
	ctx.Rule = "datasets with 7-25 collections of 1..100 objects (sizes on the 8-key / 32-id scan batch boundaries), every object kind, every field value kind (numbers incl. NaN/Inf spellings, strings needing escaping, true/false/null, JSON), strings, TTLs, hooks and channels with metas and EX. sequential: shrink (once or twice; one case in three with stale appendonly.aof-shrink / -bak files of an earlier crashed rewrite in the directory), live dump before == after, restart dump == live, TTLs not shortened; gated: the rewrite is parked at every key batch / id batch / before the final swap and a scripted writer (SET/FSET/DEL/PDEL/DROP/EXPIRE/PERSIST/JSET/JDEL (also the non-idempotent array append `list.-1` and index delete `list.0`)/SETCHAN/DELCHAN/EVAL[/RENAME/RENAMENX]) touches scanned, in-scan and unscanned keys between releases, then restart dump == live dump; free-running: token writers during 2-3 shrinks; crash: the process kills itself at each named step of the rewrite / swap (with and without concurrent writers), restart must yield the full acknowledged state. non-trivial = shrink during which >= 1 write was accepted, or a crash point hit, or a sequential case; distinct key = (case kind, command kinds interleaved / crash point)"
	ctx.Assumptions = []string{"shrink completion is read from the arrival counter of the hook after the last step", "kill at a crash point is SIGKILL of the process itself (page cache kept)"}
	bin, err := srv.Build("plain")
	if err != nil {
		ctx.Fatal("%v", err)
	}
	sink, err = httpsink.Start()
	if err != nil {
		ctx.Fatal("%v", err)
	}
	defer sink.Close()
	type job func()
	var jobs []job
	jobs = append(jobs, func() { getAreaHook(ctx, bin) })
	jobs = append(jobs, func() { getAreaDuringShrink(ctx, bin) })
	for i := 0; i < ctx.Pick(8, 60); i++ {
		i := i
		jobs = append(jobs, func() { sequential(ctx, bin, i) })
	}
	for i := 0; i < ctx.Pick(40, 600); i++ {
		i := i
		jobs = append(jobs, func() { gated(ctx, bin, i, i%4 == 3) })
	}
	for i := 0; i < ctx.Pick(4, 40); i++ {
		i := i
		jobs = append(jobs, func() { freeRunning(ctx, bin, i) })
	}
	reps := ctx.Pick(2, 25)
	for rep := 0; rep < reps; rep++ {
		for pi, p := range crashPoints {
			p := p
			n := rep*len(crashPoints) + pi
			jobs = append(jobs, func() { crash(ctx, bin, n, p, false) })
			jobs = append(jobs, func() { crash(ctx, bin, n+5000, p, true) })
		}
	}
	var wg sync.WaitGroup
	sem := make(chan struct{}, 8)
	for _, j := range jobs {
		wg.Add(1)
		sem <- struct{}{}
		go func(j job) {
			defer wg.Done()
			defer func() { <-sem }()
			j()
		}(j)
	}
	wg.Wait()
}

// getAreaHook: a channel whose fence area was given as `GET key id`. The area
// is resolved when the channel is set; the referenced object may change or go
// away afterwards without touching the fence. After AOFSHRINK and a restart
// the channel must still be there with the same area.
func getAreaHook(ctx *core.Ctx, bin string) {
	s, c, err := startWith(bin, []string{"T38_VERIF_POINTS=shrink.afterRemoveBak=yield:1"})
	if err != nil {
		ctx.Inconclusive(err.Error())
		return
	}
	defer func() { s.Kill9() }()
	defer c.Close()
	poly := `{"type":"Polygon","coordinates":[[[0,0],[10,0],[10,10],[0,10],[0,0]]]}`
	for _, cmd := range [][]string{
		{"SET", "areas", "zone", "OBJECT", poly},
		{"SET", "areas", "zone2", "OBJECT", poly},
		{"SET", "gfleet", "t", "POINT", "5", "5"},
		{"SET", "areas", "zone3", "OBJECT", poly},
		{"SET", "areas", "pt", "POINT", "0", "0"},
		{"SETCHAN", "cget-deleted", "WITHIN", "gfleet", "FENCE", "GET", "areas", "zone"},
		{"SETCHAN", "cget-kept", "WITHIN", "gfleet", "FENCE", "GET", "areas", "zone2"},
		{"SETCHAN", "cget-clipby", "WITHIN", "gfleet", "FENCE", "GET", "areas", "zone3", "CLIPBY", "BOUNDS", "0", "0", "5", "5"},
		{"SETCHAN", "cget-buffer", "INTERSECTS", "gfleet", "FENCE", "DETECT", "enter,exit", "BUFFER", "10000", "GET", "areas", "pt"},
		{"SETCHAN", "cget-buffer-poly", "INTERSECTS", "gfleet", "FENCE", "BUFFER", "10000", "GET", "areas", "zone2"},
		{"SETCHAN", "cmatch-get", "WITHIN", "gfleet", "MATCH", "get", "FENCE", "OBJECT", poly},
		{"SETCHAN", "cwherein-get", "WITHIN", "gfleet", "WHEREIN", "f", "1", "get", "FENCE", "OBJECT", poly},
		{"DEL", "areas", "zone"},
		{"DEL", "areas", "zone3"},
	} {
		if r, err := c.Do(cmd...); err != nil || r.IsErr() {
			ctx.Inconclusive(fmt.Sprintf("get-area hook: %q: %v %s", cmd, err, r.String()))
			return
		}
	}
	// field names that become reserved words once trimmed (refusing them is fine), and a field
	// value that is not valid UTF-8
	for _, cmd := range [][]string{{"SET", "gfleet", "rz", "FIELD", " z", "5", "POINT", "1", "2"}, {"FSET", "gfleet", "rz", " lat", "7"}, {"SET", "gfleet", "rz2", "FIELD", "lon ", "3", "POINT", "1", "2"}} {
		c.Do(cmd...)
	}
	c.Do("SET", "gfleet", "u8", "FIELD", "f", "ab\xffcd", "FIELD", "g", "\xfe\xfd", "POINT", "1", "2")
	u8before, _ := c.Do("GET", "gfleet", "u8", "WITHFIELDS")
	names := func(addr string) (map[string]bool, error) {
		d, err := dump.Take(addr, dump.Opts{})
		if err != nil {
			return nil, err
		}
		m := map[string]bool{}
		for _, h := range d.Chans {
			m[h.Name] = true
		}
		return m, nil
	}
	if r, err := c.Do("AOFSHRINK"); err != nil || r.IsErr() {
		ctx.Inconclusive("get-area hook: AOFSHRINK failed")
		return
	}
	if err := waitShrinkDone(c, 0, 60*time.Second); err != nil {
		ctx.Inconclusive(err.Error())
		return
	}
	live, err := names(s.Addr())
	if err != nil {
		ctx.Inconclusive(err.Error())
		return
	}
	c.Close()
	s.Term(20 * time.Second)
	s2, err := s.Restart()
	if err != nil {
		ctx.Violation("restart-fails-after-shrink", "server does not start on the shrunk log (channel with a GET area): "+err.Error(), nil)
		return
	}
	defer s2.Kill9()
	after, err := names(s2.Addr())
	if err != nil {
		ctx.Inconclusive(err.Error())
		return
	}
	if c3, err := respc.Dial(s2.Addr(), 5*time.Second); err == nil {
		u8after, err := c3.Do("GET", "gfleet", "u8", "WITHFIELDS")
		c3.Close()
		if err == nil && u8after.String() != u8before.String() {
			ctx.Violation("shrink-restart-diff:invalid-utf8-field", fmt.Sprintf("`SET gfleet u8 FIELD f \"ab\\xffcd\" FIELD g \"\\xfe\\xfd\" POINT 1 2`: GET ... WITHFIELDS answers %s before AOFSHRINK and %s after the restart on the shrunk log", u8before.String(), u8after.String()), nil)
		}
	}
	ctx.Eval(1)
	ctx.Distinct("sequential|get-area-hook")
	// BUFFER is applied once: a point 15 km from the buffered (10 km) point area stays outside
	if sub, err := respc.Dial(s2.Addr(), 5*time.Second); err == nil {
		defer sub.Close()
		sub.Send("SUBSCRIBE", "cget-buffer")
		sub.RecvTimeout(5 * time.Second)
		if c2, err := respc.Dial(s2.Addr(), 5*time.Second); err == nil {
			c2.Do("SET", "gfleet", "far", "POINT", "0", "0.135")
			c2.Do("SET", "gfleet", "near", "POINT", "0", "0.05")
			c2.Close()
			var ids []string
			for {
				rp, err := sub.RecvTimeout(1500 * time.Millisecond)
				if err != nil {
					break
				}
				if rp.Kind == '*' && len(rp.Arr) == 3 {
					txt := rp.Arr[2].Str
					if i := strings.Index(txt, `"id":"`); i >= 0 {
						id := txt[i+6:]
						ids = append(ids, id[:strings.IndexByte(id, '"')])
					}
				}
			}
			if strings.Join(ids, ",") != "near" {
				ctx.Violation("shrink-changes-get-area-fence", fmt.Sprintf("channel cget-buffer (`INTERSECTS gfleet FENCE DETECT enter,exit BUFFER 10000 GET areas pt`, a point) after AOFSHRINK and a restart: SET far (15 km away) and SET near (5.5 km away) produced events for %v, expected [near]", ids), nil)
			}
		}
	}
	for _, n := range []string{"cget-deleted", "cget-kept", "cget-clipby", "cget-buffer", "cget-buffer-poly", "cmatch-get", "cwherein-get"} {
		if live[n] && !after[n] {
			what := "still exists"
			if n == "cget-deleted" || n == "cget-clipby" {
				what = "was deleted afterwards"
			}
			ctx.Violation("shrink-loses-get-area-channel:"+n, fmt.Sprintf("channel %s (`WITHIN gfleet FENCE GET areas ...`, the referenced object %s) is served before and after AOFSHRINK and is gone after a restart on the shrunk log", n, what), map[string]any{"channel": n})
		}
	}
}

// getAreaDuringShrink: a channel over `GET key id` is created while the rewrite
// is parked before it has scanned the collection that holds the area object,
// and the area object is replaced right afterwards (all acknowledged during the
// rewrite). Live, the channel fences the object as it was when SETCHAN ran;
// after a restart on the rewritten log it must fence the same area.
func getAreaDuringShrink(ctx *core.Ctx, bin string) {
	env := "T38_VERIF_POINTS=shrink.betweenKeyBatches=gate;shrink.betweenIdBatches=gate;shrink.beforeFinal=gate;shrink.afterRemoveBak=yield:1"
	s, c, err := startWith(bin, []string{env})
	if err != nil {
		ctx.Inconclusive(err.Error())
		return
	}
	defer func() { s.Kill9() }()
	defer c.Close()
	for k := 0; k < 12; k++ {
		c.Do("SET", fmt.Sprintf("a%02d", k), "o", "POINT", "1", strconv.Itoa(k))
	}
	c.Do("SET", "zzz", "area", "OBJECT", `{"type":"Polygon","coordinates":[[[0,0],[10,0],[10,10],[0,10],[0,0]]]}`)
	c.Do("SET", "gfl", "seed", "POINT", "80", "80")
	if r, err := c.Do("AOFSHRINK"); err != nil || r.IsErr() {
		ctx.Inconclusive("get-area during shrink: AOFSHRINK failed")
		return
	}
	created := false
	deadline := time.Now().Add(60 * time.Second)
	for time.Now().Before(deadline) {
		st, err := pointStatus(c)
		if err != nil {
			ctx.Inconclusive("get-area during shrink: " + err.Error())
			return
		}
		if st["shrink.afterRemoveBak"].arrivals > 0 {
			break
		}
		at := ""
		for _, p := range []string{"shrink.betweenKeyBatches", "shrink.betweenIdBatches", "shrink.beforeFinal"} {
			if st[p].parked > 0 {
				at = p
			}
		}
		if at == "" {
			time.Sleep(time.Millisecond)
			continue
		}
		if !created {
			// first stop: eight keys are scanned, zzz is not
			r1, e1 := c.Do("SETCHAN", "cduring", "WITHIN", "gfl", "FENCE", "DETECT", "enter", "GET", "zzz", "area")
			r2, e2 := c.Do("SET", "zzz", "area", "OBJECT", `{"type":"Polygon","coordinates":[[[50,50],[60,50],[60,60],[50,60],[50,50]]]}`)
			if e1 != nil || e2 != nil || r1.IsErr() || r2.IsErr() {
				ctx.Inconclusive("get-area during shrink: writes during the rewrite were refused")
				return
			}
			created = true
		}
		c.Do("VERIF", "RELEASE", at, "1")
	}
	if !created {
		ctx.Inconclusive("get-area during shrink: the rewrite never parked")
		return
	}
	if err := waitShrinkDone(c, 0, 60*time.Second); err != nil {
		ctx.Inconclusive(err.Error())
		return
	}
	events := func(addr string, tag string) (string, bool) {
		sub, err := respc.Dial(addr, 5*time.Second)
		if err != nil {
			return "", false
		}
		defer sub.Close()
		sub.Send("SUBSCRIBE", "cduring")
		sub.RecvTimeout(5 * time.Second)
		w, err := respc.Dial(addr, 5*time.Second)
		if err != nil {
			return "", false
		}
		defer w.Close()
		w.Do("SET", "gfl", "in-old-"+tag, "POINT", "5", "5")
		w.Do("SET", "gfl", "in-new-"+tag, "POINT", "55", "55")
		var ids []string
		for {
			rp, err := sub.RecvTimeout(1200 * time.Millisecond)
			if err != nil {
				break
			}
			if rp.Kind == '*' && len(rp.Arr) == 3 {
				if i := strings.Index(rp.Arr[2].Str, `"id":"`); i >= 0 {
					id := rp.Arr[2].Str[i+6:]
					ids = append(ids, id[:strings.IndexByte(id, '"')])
				}
			}
		}
		return strings.Join(ids, ","), true
	}
	live, ok1 := events(s.Addr(), "live")
	c.Close()
	s.Term(20 * time.Second)
	s2, err := s.Restart()
	if err != nil {
		ctx.Violation("restart-fails-after-shrink", "server does not start on the log rewritten while a GET-area channel was created: "+err.Error(), nil)
		return
	}
	defer s2.Kill9()
	after, ok2 := events(s2.Addr(), "restarted")
	if !ok1 || !ok2 {
		ctx.Inconclusive("get-area during shrink: subscriber connection")
		return
	}
	ctx.Eval(1)
	ctx.Distinct("gated|get-area-channel-during-shrink")
	if live != "in-old-live" || after != "in-old-restarted" {
		ctx.Violation("shrink-changes-get-area-fence:created-during-shrink", fmt.Sprintf("`SETCHAN cduring WITHIN gfl FENCE DETECT enter GET zzz area` (area = square 0..10) and then `SET zzz area <square 50..60>`, both acknowledged while AOFSHRINK was parked before scanning zzz: a SET at 5,5 and one at 55,55 notify for [%s] on the running server and for [%s] after a restart on the rewritten log; expected the point at 5,5 both times", live, after), map[string]any{"live": live, "after_restart": after})
	}
}
