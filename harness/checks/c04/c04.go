// Package c04: a torn or padded log tail is repaired and loses nothing but the
// torn command. DESIGN.md section 4, C04.
package c04

import (
	"bytes"
	"fmt"
	"os"
	"path/filepath"
	"sort"
	"strings"
	"sync"
	"time"

	"verifharness/aoflog"
	"verifharness/core"
	"verifharness/dump"
	"verifharness/httpsink"
	"verifharness/kmodel"
	"verifharness/respc"
	"verifharness/srv"
)

func bigValue(n int, seed byte) string {
	b := make([]byte, n)
	for i := range b {
		b[i] = 'a' + (seed+byte(i*7))%26
	}
	return string(b)
}

// makeLog drives a real server with a generated history and returns the log bytes.
func makeLog(ctx *core.Ctx, bin string, sink *httpsink.Sink, logNo int) ([]byte, [][]string, error) {
	s, err := srv.Start(srv.Opts{Bin: bin})
	if err != nil {
		return nil, nil, err
	}
	defer s.Kill9()
	c, err := respc.Dial(s.Addr(), 5*time.Second)
	if err != nil {
		return nil, nil, err
	}
	defer c.Close()
	r := ctx.Rng
	g := kmodel.RichGen(r)
	g.NoTTL = true
	var hist [][]string
	n := 25 + r.Intn(ctx.Pick(40, 120))
	hostile := []string{"a\r\nb", "\x00\x00", "*3\r\n$3\r\nSET\r\n", "$5\r\n", "x\x00y", "\r", "\n", "*", "$", "-1", ""}
	for i := 0; i < n; i++ {
		var cmd []string
		switch r.Intn(12) {
		case 0:
			cmd = []string{"SET", "bin", "id" + fmt.Sprint(r.Intn(5)), "FIELD", "f", "1", "STRING", hostile[r.Intn(len(hostile))]}
		case 1:
			cmd = []string{"SET", "bin", hostile[r.Intn(len(hostile)-1)] + "x", "POINT", "1", "2"}
		case 2:
			if logNo%2 == 0 {
				// value crossing the 0xFFFF read buffer of the loader
				cmd = []string{"SET", "big", "v" + fmt.Sprint(r.Intn(3)), "STRING", bigValue(60000+r.Intn(80000), byte(i))}
			} else {
				cmd = []string{"SET", "big", "v", "STRING", bigValue(100+r.Intn(3000), byte(i))}
			}
		case 3:
			cmd = []string{"SETCHAN", "ch" + fmt.Sprint(r.Intn(3)), "META", "m", hostile[r.Intn(3)], "WITHIN", "bin", "FENCE", "BOUNDS", "0", "0", "1", fmt.Sprint(1 + r.Intn(9))}
		case 4:
			cmd = []string{"SETHOOK", "hk" + fmt.Sprint(r.Intn(3)), sink.URL("x"), "NEARBY", "bin", "FENCE", "POINT", "1", "2", fmt.Sprint(100 + r.Intn(900))}
		case 5:
			cmd = []string{"EVAL", `tile38.call('set', KEYS[1], ARGV[1], 'string', ARGV[2]); tile38.call('set', KEYS[1], ARGV[1] .. 'b', 'string', ARGV[2]); return 1`, "1", "scr", "s" + fmt.Sprint(r.Intn(3)), fmt.Sprint(i)}
		default:
			cmd = g.Next()
			if strings.ToLower(cmd[0]) == "flushdb" {
				continue
			}
		}
		hist = append(hist, cmd)
		if _, err := c.Do(cmd...); err != nil {
			return nil, hist, fmt.Errorf("history i/o: %v (crashed=%v)", err, !s.Alive())
		}
	}
	if !s.Term(20 * time.Second) {
		return nil, hist, fmt.Errorf("server did not stop")
	}
	b, err := os.ReadFile(s.AOFPath())
	return b, hist, err
}

type startResult struct {
	size  int64
	state *dump.State
	err   error
	diag  string
}

// startOn starts a server on a data dir holding exactly `content` as its log,
// returns the repaired size and the dump; optionally writes once more and
// restarts to see the write survive.
func startOn(bin string, content []byte, secondLeg bool) (res startResult, second string) {
	dir := srv.NewDir()
	defer os.RemoveAll(dir)
	if err := os.WriteFile(filepath.Join(dir, "appendonly.aof"), content, 0o600); err != nil {
		res.err = err
		return
	}
	s, err := srv.Start(srv.Opts{Bin: bin, Dir: dir, ReadyTimeout: 30 * time.Second})
	if err != nil {
		res.err = err
		res.diag = "start"
		return
	}
	defer s.Kill9()
	fi, err := os.Stat(s.AOFPath())
	if err != nil {
		res.err = err
		return
	}
	res.size = fi.Size()
	st, err := dump.Take(s.Addr(), dump.Opts{})
	if err != nil {
		res.err = err
		res.diag = "dump"
		return
	}
	res.state = st
	if secondLeg {
		c, err := respc.Dial(s.Addr(), 5*time.Second)
		if err != nil {
			second = "dial: " + err.Error()
			return
		}
		r, err := c.Do("SET", "c04:after", "w", "FIELD", "n", "42", "STRING", "written after recovery")
		c.Close()
		if err != nil || r.String() != "+OK" {
			second = fmt.Sprintf("write after recovery failed: %v %s", err, r.String())
			return
		}
		want, err := dump.Take(s.Addr(), dump.Opts{})
		if err != nil {
			second = "dump: " + err.Error()
			return
		}
		s.Kill9()
		s2, err := s.Restart()
		if err != nil {
			second = "VIOLATION second start fails: " + err.Error()
			return
		}
		defer s2.Kill9()
		got, err := dump.Take(s2.Addr(), dump.Opts{})
		if err != nil {
			second = "dump2: " + err.Error()
			return
		}
		if d := dump.Diff(want, got); d != "" {
			second = "VIOLATION state after write+second restart differs: " + d
		}
	}
	return
}

// Run is the C04 check.
func Run(ctx *core.Ctx) {
	ctx.Rule = "logs produced by real servers from generated histories (binary-safe arguments incl. CR/LF/NUL/RESP look-alikes, values > 64 KiB crossing the loader's 0xFFFF buffer, hooks, channels, script writes); for each truncation offset t: start on log[:t]; the server must start, the repaired file size must equal the last command boundary <= t, the dump must equal that of a server started on log[:boundary] (differential, cached per boundary), and for sampled offsets a write after recovery must survive a second restart; zero runs of 1..70000 bytes injected at command boundaries and at the tail must not change the state; zero runs before a torn tail and AFTER a torn tail (preallocated blocks) lose only the torn command. quick: every offset of the last 3 commands + 160 PRNG offsets per log; thorough: every byte offset (logs <= 6000 bytes) or 6000 PRNG offsets. non-trivial = offset strictly inside a command (or a zero-run case); distinct key = (log id, offset)"
	ctx.Assumptions = []string{"the state produced by a clean-cut log is correct (C03 decides that)", "no TTLs in the generated logs"}
	bin, err := srv.Build("plain")
	if err != nil {
		ctx.Fatal("%v", err)
	}
	sink, err := httpsink.Start()
	if err != nil {
		ctx.Fatal("%v", err)
	}
	defer sink.Close()
	nlogs := ctx.Pick(4, 24)
	par := 16
	for li := 0; li < nlogs && ctx.Violations() < 10; li++ {
		logb, hist, err := makeLog(ctx, bin, sink, li)
		if err != nil {
			ctx.Inconclusive("makeLog: " + err.Error())
			continue
		}
		entries, boundary, ok := aoflog.Parse(logb)
		if !ok || boundary != len(logb) || len(entries) < 5 {
			ctx.Inconclusive(fmt.Sprintf("generated log %d does not parse cleanly (ok=%v boundary=%d len=%d)", li, ok, boundary, len(logb)))
			continue
		}
		ctx.Count("logs", 1)
		ctx.Count("log_bytes", int64(len(logb)))
		ctx.Count("log_commands", int64(len(entries)))
		ends := make([]int, 0, len(entries)+1)
		ends = append(ends, 0)
		for _, e := range entries {
			ends = append(ends, e.End)
		}
		boundaryOf := func(t int) int {
			i := sort.SearchInts(ends, t+1) - 1
			return ends[i]
		}
		// offsets
		offs := map[int]bool{}
		exhaustive := false
		if ctx.Thorough() && len(logb) <= 6000 {
			for t := 0; t <= len(logb); t++ {
				offs[t] = true
			}
			exhaustive = true
		} else {
			last3 := ends[max(0, len(ends)-4)]
			if len(logb)-last3 > 3000 {
				last3 = len(logb) - 3000
			}
			for t := last3; t <= len(logb); t++ {
				offs[t] = true
			}
			nrand := ctx.Pick(160, 6000)
			for i := 0; i < nrand; i++ {
				// bias: half near command boundaries (±6 bytes), half uniform
				if i%2 == 0 {
					e := ends[ctx.Rng.Intn(len(ends))]
					t := e + ctx.Rng.Intn(13) - 6
					if t >= 0 && t <= len(logb) {
						offs[t] = true
					}
				} else {
					offs[ctx.Rng.Intn(len(logb)+1)] = true
				}
			}
			// the loader's buffer boundaries
			for t := 0xFFFF - 3; t <= len(logb); t += 0xFFFF {
				for d := 0; d < 7 && t+d <= len(logb); d++ {
					offs[t+d] = true
				}
			}
		}
		if v := os.Getenv("VERIF_C04_ONLYLOG"); v != "" && v != fmt.Sprint(li) {
			continue // debugging aid: the PRNG stream above is consumed identically
		}
		list := make([]int, 0, len(offs))
		for t := range offs {
			list = append(list, t)
		}
		sort.Ints(list)
		if exhaustive {
			ctx.Count("logs_with_every_offset", 1)
		}
		// reference dumps per boundary
		var refMu sync.Mutex
		refs := map[int]*dump.State{}
		getRef := func(b int) (*dump.State, error) {
			refMu.Lock()
			if st, ok := refs[b]; ok {
				refMu.Unlock()
				return st, nil
			}
			refMu.Unlock()
			res, _ := startOn(bin, logb[:b], false)
			if res.err != nil {
				return nil, res.err
			}
			if int(res.size) != b {
				return nil, fmt.Errorf("clean-cut log of %d bytes has size %d after start", b, res.size)
			}
			refMu.Lock()
			refs[b] = res.state
			refMu.Unlock()
			return res.state, nil
		}
		var wg sync.WaitGroup
		sem := make(chan struct{}, par)
		for idx, t := range list {
			wg.Add(1)
			sem <- struct{}{}
			go func(idx, t int) {
				defer wg.Done()
				defer func() { <-sem }()
				b := boundaryOf(t)
				second := idx%17 == 0
				res, sec := startOn(bin, logb[:t], second)
				ctx.Eval(1)
				replay := map[string]any{"log": li, "offset": t, "boundary": b, "log_len": len(logb), "history": hist}
				if res.err != nil {
					if res.diag == "start" {
						ctx.Violation("start-fails", fmt.Sprintf("log %d cut at offset %d (boundary %d): server does not start: %v", li, t, b, res.err), replay)
					} else {
						ctx.Inconclusive("harness: " + res.err.Error())
					}
					return
				}
				if int(res.size) != b {
					ctx.Violation("size-after-repair", fmt.Sprintf("log %d cut at offset %d: file size after start %d, last command boundary %d", li, t, res.size, b), replay)
					return
				}
				ref, err := getRef(b)
				if err != nil {
					ctx.Inconclusive("reference start: " + err.Error())
					return
				}
				if d := dump.Diff(ref, res.state); d != "" {
					ctx.Violation("state-after-repair", fmt.Sprintf("log %d cut at offset %d (boundary %d): recovered state differs from the clean-cut load (A=clean B=torn): %s", li, t, b, d), replay)
					return
				}
				if second {
					ctx.Count("second_leg", 1)
					if strings.HasPrefix(sec, "VIOLATION") {
						ctx.Violation("write-after-repair-lost", fmt.Sprintf("log %d cut at offset %d: %s", li, t, sec), replay)
						return
					} else if sec != "" {
						ctx.Inconclusive("second leg: " + sec)
					}
				}
				if t != b {
					ctx.Distinct(fmt.Sprintf("%d@%d", li, t))
				}
			}(idx, t)
		}
		wg.Wait()
		// zero padding
		full, err := getRef(len(logb))
		if err != nil {
			ctx.Inconclusive("reference start (full): " + err.Error())
			continue
		}
		runs := []int{1, 2, 7, 100, 4096, 65535, 65536, 70000}
		if !ctx.Thorough() {
			runs = []int{1, 7, 65536, 70000}
		}
		for ri, run := range runs {
			wg.Add(1)
			sem <- struct{}{}
			go func(ri, run int) {
				defer wg.Done()
				defer func() { <-sem }()
				zeros := make([]byte, run)
				var content []byte
				var where string
				if ri%2 == 0 {
					where = "tail"
					content = append(append([]byte{}, logb...), zeros...)
				} else {
					at := ends[1+ctx.SubRng(int64(li*100+ri)).Intn(len(ends)-1)]
					where = fmt.Sprintf("boundary@%d", at)
					content = append(append(append([]byte{}, logb[:at]...), zeros...), logb[at:]...)
				}
				res, sec := startOn(bin, content, true)
				ctx.Eval(1)
				replay := map[string]any{"log": li, "zeros": run, "where": where}
				if res.err != nil {
					if res.diag == "start" {
						ctx.Violation("start-fails-padded", fmt.Sprintf("log %d with %d zero bytes at %s: server does not start: %v", li, run, where, res.err), replay)
					} else {
						ctx.Inconclusive("harness: " + res.err.Error())
					}
					return
				}
				if d := dump.Diff(full, res.state); d != "" {
					ctx.Violation("state-padded", fmt.Sprintf("log %d with %d zero bytes at %s: recovered state differs: %s", li, run, where, d), replay)
					return
				}
				if strings.HasPrefix(sec, "VIOLATION") {
					ctx.Violation("write-after-padded-lost", fmt.Sprintf("log %d with %d zero bytes at %s: %s", li, run, where, sec), replay)
					return
				}
				ctx.Count("zero_run_cases", 1)
				ctx.Distinct(fmt.Sprintf("%d@zeros%d-%s", li, run, where[:4]))
			}(ri, run)
		}
		wg.Wait()
		// zero padding AND a torn tail in the same file: NULs at the head, between
		// commands or in an earlier packet, then a cut inside a later command
		ncombo := ctx.Pick(24, 160)
		for ci := 0; ci < ncombo; ci++ {
			wg.Add(1)
			sem <- struct{}{}
			go func(ci int) {
				defer wg.Done()
				defer func() { <-sem }()
				rr := ctx.SubRng(int64(li*1000 + ci + 40000))
				run := []int{1, 2, 7, 100, 4096, 65535, 70000}[rr.Intn(7)]
				ai := rr.Intn(len(ends) - 1) // boundary index where the zeros go (0 = head of file)
				at := ends[ai]
				content := append(append(append([]byte{}, logb[:at]...), make([]byte, run)...), logb[at:]...)
				// cut strictly inside a command that starts after the zero run
				ei := ai + rr.Intn(len(ends)-1-ai)
				cmdStart, cmdEnd := ends[ei]+run, ends[ei+1]+run
				if cmdEnd-cmdStart < 2 {
					return
				}
				t := cmdStart + 1 + rr.Intn(cmdEnd-cmdStart-1)
				content = content[:t]
				_, b, okp := aoflog.Parse(content)
				if !okp {
					ctx.Inconclusive("combo content does not parse")
					return
				}
				// the torn command starts after any NULs that follow the last complete command
				tornStart := b
				for tornStart < len(content) && content[tornStart] == 0 {
					tornStart++
				}
				origB := b
				if b > at {
					origB = b - run
				}
				res, sec := startOn(bin, content, true)
				ctx.Eval(1)
				replay := map[string]any{"log": li, "zeros": run, "zeros_at": at, "cut": t, "boundary": b, "torn_command_starts": tornStart}
				if res.err != nil {
					if res.diag == "start" {
						ctx.Violation("start-fails-padded-torn", fmt.Sprintf("log %d with %d zero bytes at %d and cut at %d: server does not start: %v", li, run, at, t, res.err), replay)
					} else {
						ctx.Inconclusive("harness: " + res.err.Error())
					}
					return
				}
				if int(res.size) != b && int(res.size) != tornStart {
					ctx.Violation("size-after-repair-padded", fmt.Sprintf("log %d with %d zero bytes at %d and cut at %d: file size after start %d; the torn command starts at %d (last complete command ends at %d)", li, run, at, t, res.size, tornStart, b), replay)
					return
				}
				ref, err := getRef(origB)
				if err != nil {
					ctx.Inconclusive("reference start: " + err.Error())
					return
				}
				if d := dump.Diff(ref, res.state); d != "" {
					ctx.Violation("state-after-repair-padded", fmt.Sprintf("log %d with %d zero bytes at %d and cut at %d: recovered state differs from the clean-cut load: %s", li, run, at, t, d), replay)
					return
				}
				if strings.HasPrefix(sec, "VIOLATION") {
					ctx.Violation("write-after-repair-lost-padded", fmt.Sprintf("log %d with %d zero bytes at %d and cut at %d: %s", li, run, at, t, sec), replay)
					return
				}
				ctx.Count("zero_run_plus_tear_cases", 1)
				ctx.Distinct(fmt.Sprintf("%d@z%d+cut%d", li, run, t))
			}(ci)
		}
		wg.Wait()
		// a torn tail FOLLOWED by zero padding (a crash during an append on a file system that
		// had preallocated the blocks): still only the torn command is lost
		ntz := ctx.Pick(16, 120)
		for ci := 0; ci < ntz; ci++ {
			wg.Add(1)
			sem <- struct{}{}
			go func(ci int) {
				defer wg.Done()
				defer func() { <-sem }()
				rr := ctx.SubRng(int64(li*1000 + ci + 80000))
				run := []int{1, 2, 7, 100, 4096, 65535, 70000}[rr.Intn(7)]
				ei := rr.Intn(len(ends) - 1)
				if ci%3 == 0 {
					ei = len(ends) - 2 // the last command is the most likely victim of a crash
				}
				cmdStart, cmdEnd := ends[ei], ends[ei+1]
				if cmdEnd-cmdStart < 2 {
					return
				}
				t := cmdStart + 1 + rr.Intn(cmdEnd-cmdStart-1)
				content := append(append([]byte{}, logb[:t]...), make([]byte, run)...)
				b := cmdStart
				res, sec := startOn(bin, content, true)
				ctx.Eval(1)
				replay := map[string]any{"log": li, "cut": t, "zeros_after_cut": run, "boundary": b}
				if res.err != nil {
					if res.diag == "start" {
						ctx.Violation("start-fails-torn-then-padded", fmt.Sprintf("log %d cut at %d (inside the command starting at %d) and followed by %d zero bytes: server does not start: %v", li, t, b, run, res.err), replay)
					} else {
						ctx.Inconclusive("harness: " + res.err.Error())
					}
					return
				}
				if int(res.size) != b {
					ctx.Violation("size-after-repair-torn-then-padded", fmt.Sprintf("log %d cut at %d and followed by %d zero bytes: file size after start %d, last complete command ends at %d", li, t, run, res.size, b), replay)
					return
				}
				ref, err := getRef(b)
				if err != nil {
					ctx.Inconclusive("reference start: " + err.Error())
					return
				}
				if d := dump.Diff(ref, res.state); d != "" {
					ctx.Violation("state-after-repair-torn-then-padded", fmt.Sprintf("log %d cut at %d and followed by %d zero bytes: recovered state differs from the clean-cut load: %s", li, t, run, d), replay)
					return
				}
				if strings.HasPrefix(sec, "VIOLATION") {
					ctx.Violation("write-after-repair-lost-torn-then-padded", fmt.Sprintf("log %d cut at %d and followed by %d zero bytes: %s", li, t, run, sec), replay)
					return
				}
				ctx.Count("tear_then_zero_run_cases", 1)
				ctx.Distinct(fmt.Sprintf("%d@cut%d+z%d", li, t, run))
			}(ci)
		}
		wg.Wait()
		if li == 0 {
			ctx.Sample(map[string]any{"log_bytes": len(logb), "commands": len(entries), "offsets_tried": len(list), "first_command": entries[0].Args, "has_big_value": bytes.Contains(logb, []byte("$6")), "boundaries": len(refs)})
		}
	}
}
