package c05

import (
	"encoding/json"
	"fmt"
	"math/rand"
	"sort"
	"strconv"
	"strings"
	"sync/atomic"
	"time"

	"verifharness/core"
	"verifharness/kmodel"
	"verifharness/notif"
	"verifharness/respc"
	"verifharness/srv"
)

const (
	kChan = iota
	kHook
	kLive
)

var kindName = []string{"chan", "hook", "live"}

var allDetects = []string{"inside", "outside", "enter", "exit", "cross"}

// markerPrefix is the reserved id prefix of marker objects; it matches every
// MATCH pattern the check uses ("*", "a*").
const markerPrefix = "amk"

// fence is one fence under test.
type fence struct {
	name    string // hook / channel name ("" for live)
	kind    int
	sh      *shape
	detect  map[string]bool // nil = default
	dname   string          // "default" or "enter+exit"
	accept  map[string]bool // nil = all
	aname   string
	match   string // "" = none
	where   bool   // WHERE speed 10 20
	args    []string
	path    string // webhook path
	stream  *notif.Stream
	live    *notif.Live
	sig     string // marker group signature
	plan    []notif.StepKind
	markOK  bool
	pending string // marker id awaited
}

type obj struct {
	lat, lon float64
	fields   map[string]float64
}

func (o *obj) clone() *obj {
	n := &obj{lat: o.lat, lon: o.lon, fields: map[string]float64{}}
	for k, v := range o.fields {
		n.fields[k] = v
	}
	return n
}

// sess is one worker: one server, one control connection, one subscriber, one endpoint.
type sess struct {
	ctx   *core.Ctx
	rng   *rand.Rand
	bin   string
	s     *srv.Server
	ctl   *respc.Conn
	sub   *notif.Sub
	ep    *notif.Endpoint
	key   string
	pop   string
	objs  map[string]*obj
	log   [][]string
	mkN   int
	dead  bool
	names []string // channel name pool the subscriber listens to
	wid   int

	whereFalseSeen int
	hookSeq        int
}

// hookName: webhook names are never reused. tile38 runs one sender goroutine
// per webhook which selects queued messages by hook NAME; the goroutine of a
// deleted hook can still perform one last queue read after DELHOOK, and if a
// hook of the same name was created meanwhile it takes (and sends, concurrently
// with the new hook's own sender) the new hook's messages: the two senders are
// not ordered, so a marker could overtake the message it is meant to close.
// That is a delivery-order matter of hook re-creation (C10's property), not of
// the fence rules, so this check keeps out of it. Channel names ARE reused and
// replaced (Publish is synchronous).
func (ss *sess) hookName() string {
	ss.hookSeq++
	return fmt.Sprintf("hk%d_%d", ss.wid, ss.hookSeq)
}

func (ss *sess) infra(format string, a ...any) {
	if ss.dead {
		return
	}
	ss.dead = true
	msg := fmt.Sprintf(format, a...)
	if ss.s != nil && !ss.s.Alive() {
		_, site := ss.s.Crashed()
		msg += " (server process died: " + site + ")"
	}
	ss.ctx.Inconclusive(fmt.Sprintf("worker %d (%s): %s", ss.wid, ss.pop, msg))
}

func (ss *sess) do(args ...string) (respc.Reply, bool) {
	if ss.dead {
		return respc.Reply{}, false
	}
	ss.log = append(ss.log, args)
	r, err := ss.ctl.Do(args...)
	if err != nil {
		ss.infra("i/o error on %q: %v", args, err)
		return r, false
	}
	if r.IsErr() {
		ss.infra("harness command rejected: %q -> %s", args, r.Str)
		return r, false
	}
	return r, true
}

func newSess(ctx *core.Ctx, bin string, wid int, pop string) *sess {
	ss := &sess{ctx: ctx, rng: ctx.SubRng(int64(1000 + wid)), bin: bin, key: "fleet", pop: pop, objs: map[string]*obj{}, wid: wid}
	s, err := srv.Start(srv.Opts{Bin: bin, Args: []string{"--appendonly", "no"}})
	if err != nil {
		ctx.Inconclusive("server start: " + err.Error())
		ss.dead = true
		return ss
	}
	ss.s = s
	c, err := respc.Dial(s.Addr(), 5*time.Second)
	if err != nil {
		ctx.Inconclusive("dial: " + err.Error())
		ss.dead = true
		return ss
	}
	c.Timeout = 60 * time.Second
	ss.ctl = c
	for i := 0; i < 6; i++ {
		ss.names = append(ss.names, fmt.Sprintf("t%d", i))
	}
	for i := 0; i < 8; i++ {
		ss.names = append(ss.names, fmt.Sprintf("w%d", i))
	}
	sub, err := notif.Subscribe(s.Addr(), ss.names, nil)
	if err != nil {
		ctx.Inconclusive("subscribe: " + err.Error())
		ss.dead = true
		return ss
	}
	ss.sub = sub
	ep, err := notif.NewEndpoint()
	if err != nil {
		ctx.Inconclusive("endpoint: " + err.Error())
		ss.dead = true
		return ss
	}
	ss.ep = ep
	ep.DropRedeliveries(true)
	return ss
}

func (ss *sess) close() {
	if ss.sub != nil {
		ss.sub.Close()
	}
	if ss.ctl != nil {
		ss.ctl.Close()
	}
	if ss.s != nil {
		ss.s.Kill9()
	}
	if ss.ep != nil {
		ss.ep.Close()
	}
}

// ------------------------------------------------------------ fence definition

func detectName(d []string) string {
	if d == nil {
		return "default"
	}
	return strings.Join(d, "+")
}

func setOf(l []string) map[string]bool {
	if l == nil {
		return nil
	}
	m := map[string]bool{}
	for _, x := range l {
		m[x] = true
	}
	return m
}

var whereSpelling atomic.Int64

// buildFence fills args/sig/plan.
func buildFence(name string, kind int, key string, sh *shape, detect []string, accept []string, match string, where bool) *fence {
	f := &fence{name: name, kind: kind, sh: sh, detect: setOf(detect), dname: detectName(detect), accept: setOf(accept), match: match, where: where}
	f.aname = "all"
	if accept != nil {
		f.aname = strings.Join(accept, ",")
	}
	a := []string{sh.cmd, key}
	if match != "" {
		a = append(a, "MATCH", match)
	}
	if where {
		// the same filter in its two spellings, alternating: as a WHERE range and as a
		// script over the call's ARGV
		if whereSpelling.Add(1)%2 == 0 {
			a = append(a, "WHEREEVAL", "return FIELDS.speed ~= nil and FIELDS.speed >= tonumber(ARGV[1]) and FIELDS.speed <= tonumber(ARGV[2])", "2", "10", "20")
		} else {
			a = append(a, "WHERE", "speed", "10", "20")
		}
	}
	a = append(a, "FENCE")
	if detect != nil {
		a = append(a, "DETECT", strings.Join(detect, ","))
	}
	if accept != nil {
		a = append(a, "COMMANDS", strings.Join(accept, ","))
	}
	a = append(a, sh.area()...)
	f.args = a
	f.plan, f.markOK = notif.PlanMarker(f.detect, f.accept)
	f.sig = fmt.Sprintf("%p|%s|%s|%v", sh, f.dname, f.aname, where)
	return f
}

// install creates the hook / channel / live connection.
func (ss *sess) install(f *fence) bool {
	switch f.kind {
	case kChan:
		_, ok := ss.do(append([]string{"SETCHAN", f.name}, f.args...)...)
		return ok
	case kHook:
		f.path = "/" + f.name
		ss.ep.Forget(f.path)
		f.stream = ss.ep.Stream(f.path)
		_, ok := ss.do(append([]string{"SETHOOK", f.name, ss.ep.URL(f.path)}, f.args...)...)
		return ok
	case kLive:
		l, err := notif.OpenLive(ss.s.Addr(), ss.rng.Intn(2) == 0, f.args...)
		ss.log = append(ss.log, append([]string{"#live"}, f.args...))
		if err != nil {
			ss.infra("live fence %q: %v", f.args, err)
			return false
		}
		f.live = l
		f.stream = l.S
		return true
	}
	return false
}

func (ss *sess) uninstall(f *fence, del bool) {
	switch f.kind {
	case kChan:
		if del {
			ss.do("DELCHAN", f.name)
		}
	case kHook:
		ss.do("DELHOOK", f.name)
		ss.ep.Forget(f.path)
	case kLive:
		if f.live != nil {
			f.live.Close()
			ss.log = append(ss.log, []string{"#live-closed"})
		}
	}
}

// ------------------------------------------------------------ expectation table

// detectsFor is Appendix C of DESIGN.md, written from the README's detect
// definitions and the statement. prev: 0 none, 1 inside, 2 outside.
func detectsFor(cmd string, prev int, newIn bool, crossed bool, D map[string]bool) []string {
	var out []string
	add := func(d string) {
		if D == nil || D[d] {
			out = append(out, d)
		}
	}
	if cmd == "fset" {
		if newIn {
			add("inside")
		} else {
			add("outside")
		}
		return out
	}
	switch {
	case newIn && prev != 1:
		add("enter")
		add("inside")
	case newIn:
		add("inside")
	case prev == 1:
		add("exit")
		add("outside")
	case prev == 2 && crossed:
		add("cross")
		add("outside")
	default:
		add("outside")
	}
	return out
}

func transName(prev int, newIn bool, cross int) string {
	p := []string{"none", "in", "out"}[prev]
	n := "out"
	if newIn {
		n = "in"
	}
	t := p + "->" + n
	if prev == 2 && !newIn {
		switch cross {
		case crossYes:
			t += ":cross"
		case crossUnknown:
			t += ":cross?"
		}
	}
	return t
}

func (f *fence) matches(id string) bool {
	return f.match == "" || kmodel.GlobMatch(f.match, id)
}

func (f *fence) whereOK(o *obj) bool {
	if !f.where {
		return true
	}
	v := o.fields["speed"]
	return v >= 10 && v <= 20
}

func (f *fence) accepts(cmd string) bool { return f.accept == nil || f.accept[cmd] }

// ------------------------------------------------------------ markers and collection

func fieldsOfMsg(m notif.Msg) map[string]float64 {
	out := map[string]float64{}
	if fm, ok := m.J["fields"].(map[string]any); ok {
		for k, v := range fm {
			if x, ok := v.(float64); ok {
				out[k] = x
			} else {
				out[k] = -999999.25 // non-numeric: never equal to an expected value
			}
		}
	}
	return out
}

func isMarkerTraffic(m notif.Msg) bool {
	return strings.HasPrefix(m.ID(), markerPrefix) || strings.HasPrefix(m.Raw, "MARK:")
}

// run executes one command and returns, per fence, the non-marker messages it caused.
func (ss *sess) run(fs []*fence, cmd []string, before func()) (map[*fence][]notif.Msg, bool) {
	if _, ok := ss.do(cmd...); !ok {
		return nil, false
	}
	if before != nil {
		before() // e.g. wait until an expiring object is gone
		if ss.dead {
			return nil, false
		}
	}
	return ss.collect(fs)
}

func (ss *sess) collect(fs []*fence) (map[*fence][]notif.Msg, bool) {
	opts := notif.WaitOpts{Addr: ss.s.Addr()}
	// 1. channel markers
	var chans []string
	for _, f := range fs {
		if f.kind == kChan {
			chans = append(chans, f.name)
		}
	}
	markN := 0
	if len(chans) > 0 {
		n, err := ss.sub.Mark(ss.ctl, chans...)
		if err != nil {
			ss.infra("marker publish: %v", err)
			return nil, false
		}
		markN = n
		ss.log = append(ss.log, []string{"PUBLISH", strings.Join(chans, "|"), notif.MarkText(n)})
		ss.ctx.Count("markers_chan", int64(len(chans)))
	}
	// 2. marker object moves, one per signature group
	groups := map[string]string{}
	var mids []string
	for _, f := range fs {
		if f.kind == kChan {
			continue
		}
		if id, ok := groups[f.sig]; ok {
			f.pending = id
			continue
		}
		ss.mkN++
		id := fmt.Sprintf("%s%d", markerPrefix, ss.mkN)
		groups[f.sig] = id
		f.pending = id
		mids = append(mids, id)
		if !ss.moveMarker(f, id) {
			return nil, false
		}
	}
	out := map[*fence][]notif.Msg{}
	// 3. collect
	if len(chans) > 0 {
		copts := opts
		copts.Watchdog = 2 * notif.DefaultWatchdog
		res, v, why := ss.sub.Collect(markN, chans, copts)
		if v != notif.Arrived {
			ss.markerTrouble("chan", v, why)
			return nil, false
		}
		for _, f := range fs {
			if f.kind == kChan {
				out[f] = res[f.name]
			}
		}
	}
	for _, f := range fs {
		if f.kind == kChan {
			continue
		}
		got, ok := ss.awaitObjMarker(f, opts)
		if !ok {
			return nil, false
		}
		ss.ctx.Count("markers_"+kindName[f.kind], 1)
		out[f] = got
	}
	for _, id := range mids {
		ss.do("DEL", ss.key, id)
	}
	// strip marker traffic
	for f, l := range out {
		var keep []notif.Msg
		for _, m := range l {
			if !isMarkerTraffic(m) {
				keep = append(keep, m)
			}
		}
		out[f] = keep
	}
	return out, !ss.dead
}

// awaitObjMarker waits for the marker object's message on a webhook / live
// stream. Not arriving within two watchdog periods while the server answers
// PING: the marker move is issued once more with a fresh id. If that one
// arrives, the first was a one-off delivery loss (C10's property; webhook
// messages are legitimately dropped after 30 s of failed sends) and the run is
// inconclusive; if it does not arrive either, the hook does not produce the
// message the statement requires: violation.
func (ss *sess) awaitObjMarker(f *fence, opts notif.WaitOpts) ([]notif.Msg, bool) {
	var got []notif.Msg
	var v notif.Verdict
	var why string
	for attempt := 0; attempt < 2; attempt++ {
		id := f.pending
		pred := func(m notif.Msg) bool { return m.ID() == id }
		var part []notif.Msg
		part, v, why = f.stream.Await(pred, opts)
		got = append(got, part...)
		if v == notif.Lost {
			part, v, why = f.stream.Await(pred, opts)
			got = append(got, part...)
			ss.ctx.Count("marker_second_wait", 1)
		}
		if v == notif.Arrived {
			if attempt == 1 {
				ss.infra("marker of a %s fence was lost once; the re-issued marker arrived (delivery hiccup, not judged here)", kindName[f.kind])
				return nil, false
			}
			return got, true
		}
		if v != notif.Lost || attempt == 1 {
			break
		}
		ss.mkN++
		f.pending = fmt.Sprintf("%s%d", markerPrefix, ss.mkN)
		ss.ctx.Count("marker_reissued", 1)
		if !ss.moveMarker(f, f.pending) {
			return nil, false
		}
		ss.do("DEL", ss.key, f.pending)
	}
	ss.markerTrouble(kindName[f.kind]+":D="+f.dname+":C="+f.aname, v, why)
	return nil, false
}

func (ss *sess) markerTrouble(what string, v notif.Verdict, why string) {
	if v == notif.Lost {
		// The marker is itself a notification the statement requires (a PUBLISH, or
		// a SET/FSET/DEL of the marker object with a known transition).
		ss.ctx.Violation("lost-marker:"+what, "marker not delivered while the server answers PING: "+why, ss.replay(nil))
		ss.dead = true
		return
	}
	ss.infra("marker wait %s: %s", what, why)
}

func (ss *sess) moveMarker(f *fence, id string) bool {
	sh := f.sh
	setAt := func(p [2]float64) bool {
		a := []string{"SET", ss.key, id}
		if f.where {
			a = append(a, "FIELD", "speed", "15")
		}
		a = append(a, "POINT", f7(p[0]), f7(p[1]))
		_, ok := ss.do(a...)
		return ok
	}
	for _, st := range f.plan {
		ok := true
		switch st {
		case notif.StepSetIn:
			ok = setAt(sh.mIn)
		case notif.StepSetOutA:
			ok = setAt(sh.mA)
		case notif.StepSetOutB:
			ok = setAt(sh.mB)
		case notif.StepFset:
			_, ok = ss.do("FSET", ss.key, id, "n", "7")
		case notif.StepDel:
			_, ok = ss.do("DEL", ss.key, id)
		}
		if !ok {
			return false
		}
	}
	return true
}

func (ss *sess) replay(extra map[string]any) map[string]any {
	l := ss.log
	if len(l) > 400 {
		l = l[len(l)-400:]
	}
	cp := make([][]string, len(l))
	copy(cp, l)
	m := map[string]any{"population": ss.pop, "worker": ss.wid, "commands": cp}
	for k, v := range extra {
		m[k] = v
	}
	return m
}

// ------------------------------------------------------------ judging

type expMsg struct {
	Command string             `json:"command"`
	Detect  string             `json:"detect,omitempty"`
	ID      string             `json:"id,omitempty"`
	Lat     float64            `json:"lat"`
	Lon     float64            `json:"lon"`
	Fields  map[string]float64 `json:"fields,omitempty"`
}

type gotMsg struct {
	Command string `json:"command"`
	Detect  string `json:"detect,omitempty"`
	ID      string `json:"id,omitempty"`
	Raw     string `json:"raw"`
}

func summarize(l []notif.Msg) []gotMsg {
	out := []gotMsg{}
	for _, m := range l {
		out = append(out, gotMsg{m.Str("command"), m.Str("detect"), m.ID(), m.Raw})
	}
	return out
}

func seqOf(l []notif.Msg) string {
	var p []string
	for _, m := range l {
		p = append(p, m.Str("command")+"/"+m.Str("detect")+"/"+m.ID())
	}
	return strings.Join(p, ",")
}

type judgeCtx struct {
	cmd   string // set fset del pdel drop expiry
	trans string
	what  string
}

func (ss *sess) violation(f *fence, key, what string, jc judgeCtx, exp any, got []notif.Msg) {
	ss.ctx.Violation(key, fmt.Sprintf("%s fence %q (%s, DETECT %s, COMMANDS %s, MATCH %q, WHERE %v, population %s), %s: %s",
		kindName[f.kind], f.name, f.sh.name(), f.dname, f.aname, f.match, f.where, ss.pop, jc.what, what),
		ss.replay(map[string]any{"fence": f.args, "fence_kind": kindName[f.kind], "expected": exp, "got": summarize(got), "judged": jc.what}))
}

// judgeMove judges one SET/FSET against the acceptable detect lists.
func (ss *sess) judgeMove(f *fence, jc judgeCtx, id string, o *obj, alts [][]string, got []notif.Msg) (chosen int) {
	ss.ctx.Eval(1)
	for _, m := range got {
		ss.ctx.Count("msgs_"+kindName[f.kind]+"_"+m.Str("command")+"_"+m.Str("detect"), 1)
	}
	gs := seqOf(got)
	chosen = -1
	var exps [][]expMsg
	for ai, alt := range alts {
		var e []expMsg
		var p []string
		for _, d := range alt {
			e = append(e, expMsg{jc.cmd, d, id, o.lat, o.lon, o.fields})
			p = append(p, jc.cmd+"/"+d+"/"+id)
		}
		exps = append(exps, e)
		if strings.Join(p, ",") == gs && chosen < 0 {
			chosen = ai
		}
	}
	if chosen < 0 {
		kind := "wrong"
		if len(alts) == 1 {
			switch {
			case len(got) < len(alts[0]):
				kind = "missing"
			case len(got) > len(alts[0]):
				kind = "extra"
			}
		}
		key := "seq:" + jc.cmd + ":" + jc.trans + ":" + kind
		if f.kind != kChan {
			key += ":" + kindName[f.kind]
		}
		if jc.cmd == "fset" && !f.whereOK(o) && f.matches(id) && f.accepts("fset") && gs == "fset/outside/"+id {
			// scenario class of its own: FSET on an object that fails the fence's WHERE
			// filter is reported as `outside` (a SET of the same object is silent)
			key = "fset:where-false-object:outside"
			ss.ctx.Count("fset_where_false_outside_seen", 1)
			ss.whereFalseSeen++
			if ss.whereFalseSeen > 2 {
				return // reported twice per worker with replay; counted afterwards
			}
		}
		ss.violation(f, key, fmt.Sprintf("expected messages %v, got [%s]", alts, gs), jc, exps, got)
		return
	}
	// payload: key, id, object, fields equal to the object's current ones
	for _, m := range got {
		if k := m.Str("key"); k != ss.key {
			ss.violation(f, "payload:key:"+jc.cmd, fmt.Sprintf("message key %q != %q", k, ss.key), jc, exps[chosen], got)
			return
		}
		if f.kind != kLive && m.Str("hook") != f.name {
			ss.violation(f, "payload:hook:"+jc.cmd, fmt.Sprintf("message hook %q != %q", m.Str("hook"), f.name), jc, exps[chosen], got)
			return
		}
		if why := objMismatch(m, o); why != "" {
			ss.violation(f, "payload:object:"+jc.cmd+":"+m.Str("detect"), why, jc, exps[chosen], got)
			return
		}
		gf := fieldsOfMsg(m)
		if !sameFields(gf, o.fields) {
			ss.violation(f, "payload:fields:"+jc.cmd+":"+m.Str("detect"), fmt.Sprintf("message fields %v != current fields %v", gf, o.fields), jc, exps[chosen], got)
			return
		}
	}
	if len(alts[chosen]) > 0 {
		ss.ctx.Distinct(strings.Join([]string{jc.trans, f.dname, jc.cmd, kindName[f.kind], f.sh.name(), ss.pop}, "|"))
	}
	return chosen
}

func sameFields(a, b map[string]float64) bool {
	if len(a) != len(b) {
		return false
	}
	for k, v := range a {
		if w, ok := b[k]; !ok || w != v {
			return false
		}
	}
	return true
}

func objMismatch(m notif.Msg, o *obj) string {
	om, ok := m.J["object"].(map[string]any)
	if !ok {
		return "message has no object member: " + m.Raw
	}
	if om["type"] != "Point" {
		return fmt.Sprintf("object type %v, want Point", om["type"])
	}
	cs, ok := om["coordinates"].([]any)
	if !ok || len(cs) != 2 {
		return fmt.Sprintf("object coordinates %v", om["coordinates"])
	}
	lon, _ := cs[0].(float64)
	lat, _ := cs[1].(float64)
	if lon != o.lon || lat != o.lat {
		return fmt.Sprintf("object coordinates [%v,%v] != current [%v,%v]", lon, lat, o.lon, o.lat)
	}
	return ""
}

// judgeCount judges del / drop style expectations: per (command,id) a required
// range of message counts; any other message is an "other".
type countExp struct {
	Command  string `json:"command"`
	ID       string `json:"id,omitempty"`
	Min, Max int
}

func (ss *sess) judgeCounts(f *fence, jc judgeCtx, exps []countExp, got []notif.Msg) {
	ss.ctx.Eval(1)
	cnt := map[string]int{}
	for _, m := range got {
		cnt[m.Str("command")+"/"+m.ID()]++
		ss.ctx.Count("msgs_"+kindName[f.kind]+"_"+m.Str("command")+"_"+m.Str("detect"), 1)
	}
	nontrivial := false
	for _, e := range exps {
		k := e.Command + "/" + e.ID
		n := cnt[k]
		delete(cnt, k)
		if e.Min > 0 {
			nontrivial = true
		}
		if n < e.Min || n > e.Max {
			kind := "missing"
			if n > e.Max {
				kind = "extra"
			}
			key := jc.cmd + ":" + e.Command + ":" + kind
			if f.kind != kChan {
				key += ":" + kindName[f.kind]
			}
			ss.violation(f, key, fmt.Sprintf("%d %q messages for id %q, expected %d..%d (%s)", n, e.Command, e.ID, e.Min, e.Max, jc.trans), jc, exps, got)
			return
		}
	}
	if len(cnt) > 0 {
		var ks []string
		for k := range cnt {
			ks = append(ks, k)
		}
		sort.Strings(ks)
		key := jc.cmd + ":others"
		if f.kind != kChan {
			key += ":" + kindName[f.kind]
		}
		ss.violation(f, key, fmt.Sprintf("unexpected messages %v", ks), jc, exps, got)
		return
	}
	for _, m := range got {
		if k := m.Str("key"); k != ss.key {
			ss.violation(f, "payload:key:"+jc.cmd, fmt.Sprintf("message key %q != %q", k, ss.key), jc, exps, got)
			return
		}
	}
	if nontrivial {
		ss.ctx.Distinct(strings.Join([]string{jc.trans, f.dname, jc.cmd, kindName[f.kind], f.sh.name(), ss.pop}, "|"))
	}
}

// ------------------------------------------------------------ judged commands

func fmtNum(v float64) string { return strconv.FormatFloat(v, 'f', -1, 64) }

// doSet executes and judges `SET key id [FIELD ..] [EX s] POINT lat lon` against every fence.
func (ss *sess) doSet(fs []*fence, id string, p [2]float64, fields map[string]float64, ex int, label string) bool {
	old := ss.objs[id]
	nw := &obj{lat: p[0], lon: p[1], fields: map[string]float64{}}
	if old != nil {
		nw = old.clone()
		nw.lat, nw.lon = p[0], p[1]
	}
	cmd := []string{"SET", ss.key, id}
	var fn []string
	for k := range fields {
		fn = append(fn, k)
	}
	sort.Strings(fn)
	for _, k := range fn {
		cmd = append(cmd, "FIELD", k, fmtNum(fields[k]))
		if fields[k] == 0 {
			delete(nw.fields, k)
		} else {
			nw.fields[k] = fields[k]
		}
	}
	if ex > 0 {
		cmd = append(cmd, "EX", strconv.Itoa(ex))
	}
	cmd = append(cmd, "POINT", f7(p[0]), f7(p[1]))
	res, ok := ss.run(fs, cmd, nil)
	if !ok {
		return false
	}
	ss.objs[id] = nw
	seqs := map[*fence]string{}
	var lastJC judgeCtx
	for _, f := range fs {
		prev := 0
		skip := false
		if old != nil {
			switch f.sh.class(old.lat, old.lon) {
			case 1:
				prev = 1
			case -1:
				prev = 2
			default:
				skip = true
			}
			// a SET that flips the WHERE result is not a position change: not judged
			if f.whereOK(old) != f.whereOK(nw) {
				skip = true
			}
		}
		nc := f.sh.class(nw.lat, nw.lon)
		if nc == 0 || skip {
			ss.ctx.Count("skipped_in_band", 1)
			continue
		}
		newIn := nc == 1
		cross := crossNo
		if prev == 2 && !newIn {
			cross = f.sh.crosses(old.lat, old.lon, nw.lat, nw.lon)
		}
		var alts [][]string
		if !f.matches(id) || !f.whereOK(nw) || !f.accepts("set") {
			alts = [][]string{nil}
		} else if cross == crossUnknown {
			alts = [][]string{detectsFor("set", prev, newIn, true, f.detect), detectsFor("set", prev, newIn, false, f.detect)}
			ss.ctx.Count("cross_unknown", 1)
		} else {
			alts = [][]string{detectsFor("set", prev, newIn, cross == crossYes, f.detect)}
		}
		tr := transName(prev, newIn, cross)
		jc := judgeCtx{cmd: "set", trans: tr, what: fmt.Sprintf("%s (%s %s)", strings.Join(cmd, " "), tr, label)}
		lastJC = jc
		ss.judgeMove(f, jc, id, nw, alts, res[f])
		if label != "" {
			ss.ctx.Count("trans_"+tr+"_"+label, 1)
		}
		seqs[f] = seqOf(res[f])
	}
	ss.kindsAgree(fs, "set", lastJC, seqs, res)
	return true
}

// kindsAgree: a channel, a webhook and a live connection with the same fence
// definition must report the same SET/FSET results (modulo hook/group/time).
func (ss *sess) kindsAgree(fs []*fence, cmd string, jc judgeCtx, seqs map[*fence]string, res map[*fence][]notif.Msg) {
	if !sameDef(fs) || len(seqs) != len(fs) {
		return
	}
	for _, f := range fs[1:] {
		if seqs[f] != seqs[fs[0]] {
			ss.violation(f, "kinds-differ:"+cmd, fmt.Sprintf("%s got [%s] but %s got [%s] for the same fence definition", kindName[fs[0].kind], seqs[fs[0]], kindName[f.kind], seqs[f]), jc, nil, res[f])
			return
		}
	}
	ss.ctx.Count("kind_agreement_checks", 1)
}

// sameDef: in a tri scenario all fences share one definition.
func sameDef(fs []*fence) bool {
	for _, f := range fs[1:] {
		if f.sig != fs[0].sig {
			return false
		}
	}
	return len(fs) > 1
}

// doFset executes and judges FSET key id field value (the value always changes).
func (ss *sess) doFset(fs []*fence, id, field string, value float64) bool {
	old := ss.objs[id]
	if old == nil {
		return true
	}
	if old.fields[field] == value {
		// an FSET that changes nothing is not a write (no notification promised)
		value++
		if field == "speed" && value > 19 {
			value = 11
		}
	}
	nw := old.clone()
	if value == 0 {
		delete(nw.fields, field)
	} else {
		nw.fields[field] = value
	}
	cmd := []string{"FSET", ss.key, id, field, fmtNum(value)}
	res, ok := ss.run(fs, cmd, nil)
	if !ok {
		return false
	}
	ss.objs[id] = nw
	seqs := map[*fence]string{}
	var lastJC judgeCtx
	for _, f := range fs {
		c := f.sh.class(nw.lat, nw.lon)
		if c == 0 || f.whereOK(old) != f.whereOK(nw) {
			ss.ctx.Count("skipped_in_band", 1)
			continue
		}
		in := c == 1
		prev := 2
		if in {
			prev = 1
		}
		alts := [][]string{detectsFor("fset", prev, in, false, f.detect)}
		if !f.matches(id) || !f.whereOK(nw) || !f.accepts("fset") {
			alts = [][]string{nil}
		}
		tr := transName(prev, in, crossNo)
		jc := judgeCtx{cmd: "fset", trans: tr, what: strings.Join(cmd, " ") + " (" + tr + ")"}
		lastJC = jc
		ss.judgeMove(f, jc, id, nw, alts, res[f])
		seqs[f] = seqOf(res[f])
	}
	ss.kindsAgree(fs, "fset", lastJC, seqs, res)
	return true
}

// delExp: `del` is REQUIRED only for an object that was inside the area (and
// matched MATCH/WHERE, and del passes COMMANDS); forbidden when COMMANDS
// excludes del or the id does not match MATCH; tolerated (0..1) otherwise.
func (f *fence) delExp(id string, o *obj) countExp {
	e := countExp{Command: "del", ID: id, Min: 0, Max: 1}
	if !f.accepts("del") || !f.matches(id) {
		e.Max = 0
		return e
	}
	if f.sh.class(o.lat, o.lon) == 1 && f.whereOK(o) {
		e.Min = 1
	}
	return e
}

func (ss *sess) doDel(fs []*fence, id string) bool {
	o := ss.objs[id]
	if o == nil {
		return true
	}
	cmd := []string{"DEL", ss.key, id}
	res, ok := ss.run(fs, cmd, nil)
	if !ok {
		return false
	}
	delete(ss.objs, id)
	for _, f := range fs {
		e := f.delExp(id, o)
		tr := "del:" + []string{"out", "band", "in"}[f.sh.class(o.lat, o.lon)+1]
		ss.judgeCounts(f, judgeCtx{cmd: "del", trans: tr, what: strings.Join(cmd, " ") + " (" + tr + ")"}, []countExp{e}, res[f])
	}
	return true
}

func (ss *sess) doPdel(fs []*fence, pattern string) bool {
	var ids []string
	for id := range ss.objs {
		if kmodel.GlobMatch(pattern, id) {
			ids = append(ids, id)
		}
	}
	if len(ids) == 0 {
		return true
	}
	sort.Strings(ids)
	cmd := []string{"PDEL", ss.key, pattern}
	res, ok := ss.run(fs, cmd, nil)
	if !ok {
		return false
	}
	for _, f := range fs {
		var exps []countExp
		tr := "pdel:out"
		for _, id := range ids {
			e := f.delExp(id, ss.objs[id])
			if e.Min > 0 {
				tr = "pdel:in"
			}
			exps = append(exps, e)
		}
		ss.judgeCounts(f, judgeCtx{cmd: "pdel", trans: tr, what: strings.Join(cmd, " ") + " deleting " + strings.Join(ids, ",")}, exps, res[f])
	}
	for _, id := range ids {
		delete(ss.objs, id)
	}
	return true
}

// doDrop: `drop` is REQUIRED for default-detection fences (COMMANDS permitting),
// forbidden when COMMANDS excludes drop, tolerated otherwise.
func (ss *sess) doDrop(fs []*fence) bool {
	if len(ss.objs) == 0 {
		return true
	}
	cmd := []string{"DROP", ss.key}
	res, ok := ss.run(fs, cmd, nil)
	if !ok {
		return false
	}
	ss.objs = map[string]*obj{}
	for _, f := range fs {
		e := countExp{Command: "drop", Min: 0, Max: 1}
		tr := "drop:nondefault"
		if !f.accepts("drop") {
			e.Max = 0
		} else if f.detect == nil {
			e.Min = 1
			tr = "drop:default"
		}
		ss.judgeCounts(f, judgeCtx{cmd: "drop", trans: tr, what: "DROP " + ss.key}, []countExp{e}, res[f])
	}
	return true
}

// doExpiry: SET ... EX 1, then wait until the object is gone (polling EXISTS;
// not gone within 15 s = inconclusive, that is C14's property) and only then
// push the markers: the window then holds the SET's messages followed by the
// expiry's `del` (pushing markers in between would race with the 1 s deadline
// on a stalled machine). The SET part is judged like any SET, the `del` like a DEL.
func (ss *sess) doExpiry(fs []*fence, id string, p [2]float64, fields map[string]float64) bool {
	if ss.objs[id] != nil {
		return true
	}
	nw := &obj{lat: p[0], lon: p[1], fields: map[string]float64{}}
	cmd := []string{"SET", ss.key, id}
	var fn []string
	for k := range fields {
		fn = append(fn, k)
	}
	sort.Strings(fn)
	for _, k := range fn {
		cmd = append(cmd, "FIELD", k, fmtNum(fields[k]))
		nw.fields[k] = fields[k]
	}
	cmd = append(cmd, "EX", "1", "POINT", f7(p[0]), f7(p[1]))
	res, ok := ss.run(fs, cmd, func() {
		deadline := time.Now().Add(15 * time.Second)
		for {
			r, err := ss.ctl.Do("EXISTS", ss.key, id)
			if err != nil {
				ss.infra("i/o error on EXISTS: %v", err)
				return
			}
			if r.IsErr() || r.Int == 0 { // "key not found": the collection went away with its last object
				break
			}
			if time.Now().After(deadline) {
				ss.infra("object with EX 1 still exists after 15 s")
				return
			}
			time.Sleep(40 * time.Millisecond)
		}
		ss.log = append(ss.log, []string{"#waited-until-expired", id})
	})
	if !ok {
		return false
	}
	for _, f := range fs {
		var setPart, delPart []notif.Msg
		for _, m := range res[f] {
			if m.Str("command") == "del" || len(delPart) > 0 {
				delPart = append(delPart, m) // anything after the del is judged as an "other" there
			} else {
				setPart = append(setPart, m)
			}
		}
		nc := f.sh.class(nw.lat, nw.lon)
		if nc == 0 {
			continue
		}
		alts := [][]string{detectsFor("set", 0, nc == 1, false, f.detect)}
		if !f.matches(id) || !f.whereOK(nw) || !f.accepts("set") {
			alts = [][]string{nil}
		}
		tr := transName(0, nc == 1, crossNo)
		ss.judgeMove(f, judgeCtx{cmd: "set", trans: tr, what: strings.Join(cmd, " ") + " (" + tr + " ex)"}, id, nw, alts, setPart)
		e := f.delExp(id, nw)
		tr = "expiry:" + []string{"out", "band", "in"}[nc+1]
		ss.judgeCounts(f, judgeCtx{cmd: "expiry", trans: tr, what: "expiry of " + id + " (" + tr + ")"}, []countExp{e}, delPart)
	}
	ss.ctx.Count("expiries", 1)
	return true
}

// noise: a command the statement does not list; whatever it causes is
// attributed to it by the marker protocol and ignored.
func (ss *sess) noise(fs []*fence, cmd ...string) bool {
	_, ok := ss.run(fs, cmd, nil)
	ss.ctx.Count("unjudged_noise_commands", 1)
	return ok
}

func jsonStr(v any) string {
	b, _ := json.Marshal(v)
	return string(b)
}
