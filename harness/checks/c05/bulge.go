package c05

import (
	"fmt"
	"math"
	"strconv"
	"strings"
	"time"

	"verifharness/core"
	"verifharness/notif"
	"verifharness/respc"
	"verifharness/srv"
)

// rimProbe: positions just inside the east / west extreme of a NEARBY fence at
// high latitude (where the disc is widest north of its centre). The per-object
// test accepts them (TEST ... WITHIN CIRCLE = 1); a channel fence and a live
// fence with the same arguments must both report them. A second object at the
// centre closes each step (it is reported by every delivery kind).
func rimProbe(ctx *core.Ctx, bin string) {
	s, err := srv.Start(srv.Opts{Bin: bin})
	if err != nil {
		ctx.Inconclusive("rim probe: " + err.Error())
		return
	}
	defer s.Kill9()
	c, err := respc.Dial(s.Addr(), 5*time.Second)
	if err != nil {
		ctx.Inconclusive("rim probe: " + err.Error())
		return
	}
	defer c.Close()
	c.Timeout = 10 * time.Second
	const R = 6371e3
	for ci, clat := range []float64{60, 75, 80, 85, -80} {
		r := 100000.0
		d := r / R
		phi := clat * math.Pi / 180
		// the circle's easternmost point: latitude asin(sin(phi)/cos(d)), offset asin(sin(d)/cos(phi))
		latT := math.Asin(math.Sin(phi)/math.Cos(d)) * 180 / math.Pi
		dlon := math.Asin(math.Sin(d)/math.Cos(phi)) * 180 / math.Pi
		key := fmt.Sprintf("rim%d", ci)
		chn := fmt.Sprintf("rimchan%d", ci)
		fence := []string{"NEARBY", key, "FENCE", "DETECT", "inside", "POINT", strconv.FormatFloat(clat, 'f', -1, 64), "0", strconv.FormatFloat(r, 'f', -1, 64)}
		if rp, err := c.Do(append([]string{"SETCHAN", chn}, fence...)...); err != nil || rp.IsErr() {
			ctx.Inconclusive("rim probe: SETCHAN failed")
			return
		}
		sub, err := respc.Dial(s.Addr(), 5*time.Second)
		if err != nil {
			ctx.Inconclusive("rim probe: " + err.Error())
			return
		}
		sub.Send("SUBSCRIBE", chn)
		sub.RecvTimeout(5 * time.Second)
		live, err := respc.Dial(s.Addr(), 5*time.Second)
		if err != nil {
			sub.Close()
			ctx.Inconclusive("rim probe: " + err.Error())
			return
		}
		live.Send(fence...)
		live.RecvTimeout(5 * time.Second) // +OK
		idsOf := func(cn *respc.Conn, until string) []string {
			var out []string
			dl := time.Now().Add(8 * time.Second)
			for time.Now().Before(dl) {
				rp, err := cn.RecvTimeout(2 * time.Second)
				if err != nil {
					if respc.IsTimeout(err) {
						continue
					}
					break
				}
				txt := rp.Str
				if rp.Kind == '*' && len(rp.Arr) > 0 {
					txt = rp.Arr[len(rp.Arr)-1].Str
				}
				i := strings.Index(txt, `"id":"`)
				if i < 0 {
					continue
				}
				id := txt[i+6:]
				if j := strings.IndexByte(id, '"'); j >= 0 {
					id = id[:j]
				}
				out = append(out, id)
				if id == until {
					break
				}
			}
			return out
		}
		for _, side := range []float64{1, -1} {
			for _, frac := range []float64{0.9992, 0.9975} {
				lat, lon := latT, side*dlon*frac
				if notif.Haversine(lat, lon, clat, 0) > r*0.9999 {
					continue
				}
				id := fmt.Sprintf("rim-%c-%d", map[float64]byte{1: 'e', -1: 'w'}[side], int(frac*10000))
				tr, err := c.Do("TEST", "POINT", strconv.FormatFloat(lat, 'f', -1, 64), strconv.FormatFloat(lon, 'f', -1, 64), "WITHIN", "CIRCLE", strconv.FormatFloat(clat, 'f', -1, 64), "0", strconv.FormatFloat(r, 'f', -1, 64))
				if err != nil || tr.Int != 1 {
					continue // the server's own predicate does not accept the position: not judged
				}
				c.Do("SET", key, id, "POINT", strconv.FormatFloat(lat, 'f', -1, 64), strconv.FormatFloat(lon, 'f', -1, 64))
				end := "end-" + id
				c.Do("SET", key, end, "POINT", strconv.FormatFloat(clat, 'f', -1, 64), "0")
				gotC := idsOf(sub, end)
				gotL := idsOf(live, end)
				ctx.Eval(1)
				ctx.Count("rim_positions_probed", 1)
				ctx.Distinct(fmt.Sprintf("rim|%v|%v|%v", clat, side, frac))
				want := id + "," + end
				if strings.Join(gotC, ",") != want || strings.Join(gotL, ",") != want {
					kind := "chan"
					if strings.Join(gotC, ",") == want {
						kind = "live"
					}
					ctx.Violation("seq:set:none->in:missing:"+kind+":rim", fmt.Sprintf("fence %v: SET %s %s POINT %.7f %.7f is %.1f m from the centre (radius %.0f m; TEST ... WITHIN CIRCLE = 1): the channel received messages for %v, the live connection for %v; expected %s on both", fence, key, id, lat, lon, notif.Haversine(lat, lon, clat, 0), r, gotC, gotL, want),
						map[string]any{"fence": fence, "position": []float64{lat, lon}, "channel_ids": gotC, "live_ids": gotL})
					sub.Close()
					live.Close()
					return
				}
			}
		}
		sub.Close()
		live.Close()
	}
}
