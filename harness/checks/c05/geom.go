package c05

import (
	"fmt"
	"math"
	"math/rand"
	"strconv"
	"strings"

	"verifharness/notif"
)

// Geometry oracle for C05. Every fence area lives in "unit coordinates" (u,v)
// around a site centre: lat = clat + v*ulat, lon = clon + u*ulon. sd() is a
// signed distance to the area boundary RELATIVE to the area size (about 1 unit =
// half the area's extent; negative inside). Positions are only generated with
// |sd| >= posBand, segments are only classified as crossing when some sample is
// deeper than segBand inside, as not crossing when every sample is farther than
// segBand outside, and as unknown otherwise (then both outcomes are accepted).
// These bands are the don't-care band: float noise, the planar-vs-geodesic
// question and tile38's 64-gon circle approximation (radial error 0.12 %) are
// far below 10 % of the area size.
const (
	posBand = 0.15
	segBand = 0.10
)

type pt struct{ u, v float64 }

type shape struct {
	kind       string // "rect", "circle", "poly"
	sub        string // "tri", "L" for poly
	cmd        string // WITHIN / INTERSECTS / NEARBY
	clat, clon float64
	ulat, ulon float64
	poly       []pt    // unit vertices (rect, poly)
	r          float64 // circle radius in metres
	// marker positions (lat,lon): inside, outside A, outside B (A->B crosses)
	mIn, mA, mB [2]float64
}

func f7(x float64) string { return strconv.FormatFloat(round7(x), 'f', -1, 64) }

func round7(x float64) float64 {
	s := strconv.FormatFloat(x, 'f', 7, 64)
	v, _ := strconv.ParseFloat(s, 64)
	return v
}

func (s *shape) pos(u, v float64) (lat, lon float64) {
	return round7(s.clat + v*s.ulat), round7(s.clon + u*s.ulon)
}

func (s *shape) unit(lat, lon float64) (u, v float64) {
	return (lon - s.clon) / s.ulon, (lat - s.clat) / s.ulat
}

var (
	polyRect = []pt{{-1, -1}, {1, -1}, {1, 1}, {-1, 1}}
	polyTri  = []pt{{-1, -1}, {1, -1}, {0, 1}}
	polyL    = []pt{{-1, -1}, {1, -1}, {1, 0}, {0, 0}, {0, 1}, {-1, 1}}
)

func pointSegDist(p, a, b pt) float64 {
	dx, dy := b.u-a.u, b.v-a.v
	l2 := dx*dx + dy*dy
	t := 0.0
	if l2 > 0 {
		t = ((p.u-a.u)*dx + (p.v-a.v)*dy) / l2
	}
	t = math.Max(0, math.Min(1, t))
	return math.Hypot(p.u-(a.u+t*dx), p.v-(a.v+t*dy))
}

func polySD(poly []pt, p pt) float64 {
	inside := false
	d := math.Inf(1)
	n := len(poly)
	for i := 0; i < n; i++ {
		a, b := poly[i], poly[(i+1)%n]
		if (a.v > p.v) != (b.v > p.v) {
			x := a.u + (p.v-a.v)/(b.v-a.v)*(b.u-a.u)
			if p.u < x {
				inside = !inside
			}
		}
		if e := pointSegDist(p, a, b); e < d {
			d = e
		}
	}
	if inside {
		return -d
	}
	return d
}

// sd: signed relative distance of a lat/lon position to the area boundary.
func (s *shape) sd(lat, lon float64) float64 {
	if s.kind == "circle" {
		return notif.Haversine(lat, lon, s.clat, s.clon)/s.r - 1
	}
	u, v := s.unit(lat, lon)
	return polySD(s.poly, pt{u, v})
}

// class: +1 inside, -1 outside, 0 in the don't-care band.
func (s *shape) class(lat, lon float64) int {
	d := s.sd(lat, lon)
	if d <= -posBand {
		return 1
	}
	if d >= posBand {
		return -1
	}
	return 0
}

const (
	crossNo      = 0
	crossYes     = 1
	crossUnknown = 2
)

// crosses classifies the straight (lon/lat-linear) path between two OUTSIDE positions.
func (s *shape) crosses(lat1, lon1, lat2, lon2 float64) int {
	u1, v1 := s.unit(lat1, lon1)
	u2, v2 := s.unit(lat2, lon2)
	l := math.Hypot(u2-u1, v2-v1)
	n := int(l/0.01) + 2
	if n > 4000 {
		n = 4000
	}
	min := math.Inf(1)
	for i := 0; i <= n; i++ {
		t := float64(i) / float64(n)
		lat := lat1 + t*(lat2-lat1)
		lon := lon1 + t*(lon2-lon1)
		if d := s.sd(lat, lon); d < min {
			min = d
		}
	}
	switch {
	case min <= -segBand:
		return crossYes
	case min >= segBand:
		return crossNo
	}
	return crossUnknown
}

// area returns the area tokens of the fence command.
func (s *shape) area() []string {
	switch s.kind {
	case "rect":
		return []string{"BOUNDS", f7(s.clat - s.ulat), f7(s.clon - s.ulon), f7(s.clat + s.ulat), f7(s.clon + s.ulon)}
	case "circle":
		return []string{"POINT", f7(s.clat), f7(s.clon), strconv.FormatFloat(s.r, 'f', -1, 64)}
	}
	var sb strings.Builder
	sb.WriteString(`{"type":"Polygon","coordinates":[[`)
	for i := 0; i <= len(s.poly); i++ {
		p := s.poly[i%len(s.poly)]
		if i > 0 {
			sb.WriteByte(',')
		}
		lat, lon := s.clat+p.v*s.ulat, s.clon+p.u*s.ulon
		fmt.Fprintf(&sb, "[%s,%s]", f7(lon), f7(lat))
	}
	sb.WriteString(`]]}`)
	return []string{"OBJECT", sb.String()}
}

// newShape builds an area of the given kind at a site. scale is the half-extent in degrees of latitude.
func newShape(rng *rand.Rand, kind string, clat, clon, scale, aspect float64) *shape {
	s := &shape{kind: kind, clat: round7(clat), clon: round7(clon), ulat: scale, ulon: scale}
	switch kind {
	case "rect":
		s.ulon = round7(scale * aspect)
		s.poly = polyRect
		s.cmd = []string{"WITHIN", "INTERSECTS"}[rng.Intn(2)]
		// the area is built from rounded bounds; keep the oracle on the same numbers
	case "circle":
		s.cmd = "NEARBY"
		s.r = math.Round(scale * math.Pi / 180 * notif.EarthRadius)
		s.ulat = s.r / notif.EarthRadius * 180 / math.Pi
		s.ulon = s.ulat / math.Cos(s.clat*math.Pi/180)
	case "poly":
		s.ulon = round7(scale * aspect)
		if rng.Intn(2) == 0 {
			s.poly, s.sub = polyTri, "tri"
		} else {
			s.poly, s.sub = polyL, "L"
		}
		s.cmd = []string{"WITHIN", "INTERSECTS"}[rng.Intn(2)]
	}
	// marker positions
	for {
		in := s.genIn(rng)
		a := s.genSide(rng, -1)
		b := s.genSide(rng, +1)
		if s.crosses(a[0], a[1], b[0], b[1]) == crossYes {
			s.mIn, s.mA, s.mB = in, a, b
			break
		}
	}
	return s
}

func (s *shape) name() string {
	if s.sub != "" {
		return s.kind + "-" + s.sub
	}
	return s.kind
}

// genIn: a position clearly inside.
func (s *shape) genIn(rng *rand.Rand) [2]float64 {
	for {
		lat, lon := s.pos(rng.Float64()*2-1, rng.Float64()*2-1)
		if s.sd(lat, lon) <= -0.2 {
			return [2]float64{lat, lon}
		}
	}
}

// genSide: clearly outside, west (side<0) or east (side>0) of the area, near its horizontal axis.
func (s *shape) genSide(rng *rand.Rand, side int) [2]float64 {
	for {
		u := float64(side) * (2 + rng.Float64())
		v := rng.Float64()*0.6 - 0.3
		if s.sub == "L" || s.sub == "tri" {
			v -= 0.45 // the lower part of these polygons is the wide one
		}
		lat, lon := s.pos(u, v)
		if s.sd(lat, lon) >= 0.3 {
			return [2]float64{lat, lon}
		}
	}
}

// genOutAny: clearly outside somewhere in [-3.5,3.5]^2.
func (s *shape) genOutAny(rng *rand.Rand) [2]float64 {
	for {
		lat, lon := s.pos(rng.Float64()*7-3.5, rng.Float64()*7-3.5)
		if s.sd(lat, lon) >= 0.3 {
			return [2]float64{lat, lon}
		}
	}
}

// genCorner: outside the area but inside its bounding rectangle (circle, polygons); ok=false for rectangles.
func (s *shape) genCorner(rng *rand.Rand) ([2]float64, bool) {
	if s.kind == "rect" {
		return [2]float64{}, false
	}
	for i := 0; i < 10000; i++ {
		lat, lon := s.pos(rng.Float64()*1.9-0.95, rng.Float64()*1.9-0.95)
		if s.sd(lat, lon) >= posBand+0.02 {
			return [2]float64{lat, lon}, true
		}
	}
	return [2]float64{}, false
}
