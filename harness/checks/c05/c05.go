// Package c05: static geofence rules (DESIGN.md section 4 "C05", Appendix C).
//
// Every judged command is followed by markers (package notif); everything a
// fence delivered before its marker is compared with the expectation table
// (detectsFor / delExp / doDrop), "no others" included, and every message's
// id / object / fields are compared with the object's current ones.
package c05

import (
	"fmt"
	"math"
	"math/rand"
	"sync"

	"verifharness/core"
	"verifharness/notif"
	"verifharness/srv"
)

type site struct {
	lat, lon float64
	scales   [2]float64
	aspect   float64
}

type variant struct {
	match  string
	where  bool
	accept []string
}

func variants() []variant {
	var out []variant
	for _, m := range []string{"", "a*"} {
		for _, w := range []bool{false, true} {
			for _, a := range [][]string{nil, {"set"}, {"fset"}, {"set", "fset", "del"}, {"del", "drop"}} {
				out = append(out, variant{m, w, a})
			}
		}
	}
	return out
}

// detectSets: the 31 non-empty subsets plus the default (no DETECT clause).
// The empty subset cannot be written (`DETECT ""` is a syntax error).
func detectSets() [][]string {
	out := [][]string{nil}
	for mask := 1; mask < 32; mask++ {
		var d []string
		for i, n := range allDetects {
			if mask&(1<<i) != 0 {
				d = append(d, n)
			}
		}
		out = append(out, d)
	}
	return out
}

type scenario struct {
	shape  string
	detect []string
	v      variant
	tri    bool
	n      int
}

func genSites(rng *rand.Rand) []site {
	var out []site
	for len(out) < 4 {
		s := site{lat: math.Round((rng.Float64()*110-55)*1000) / 1000, lon: math.Round((rng.Float64()*320-160)*1000) / 1000, aspect: 0.6 + rng.Float64()*1.2}
		ok := true
		for _, o := range out {
			if math.Abs(o.lat-s.lat) < 8 && math.Abs(o.lon-s.lon) < 8 {
				ok = false
			}
		}
		if !ok {
			continue
		}
		for i := range s.scales {
			s.scales[i] = math.Round((0.02+rng.Float64()*0.28)*10000) / 10000
		}
		out = append(out, s)
	}
	return out
}

func (ss *sess) shapeAt(kind string, st site, scale float64) *shape {
	return newShape(ss.rng, kind, st.lat, st.lon, scale, st.aspect)
}

func randDetect(rng *rand.Rand) []string {
	if rng.Intn(10) < 3 {
		return nil
	}
	return detectSets()[1+rng.Intn(31)]
}

// installPop creates the population of OTHER hooks.
func (ss *sess) installPop(sites []site) {
	n := 0
	switch ss.pop {
	case "p30":
		n = 30
	case "p300":
		n = 300
	}
	kinds := []string{"rect", "circle", "poly"}
	ss.ep.Discard("/pop")
	for i := 0; i < n && !ss.dead; i++ {
		var sh *shape
		key := ss.key
		if ss.rng.Intn(10) < 4 {
			key = fmt.Sprintf("other%d", ss.rng.Intn(3))
		}
		elsewhere := ss.pop == "p30" || i%3 == 0
		if elsewhere {
			for {
				lat, lon := ss.rng.Float64()*120-60, ss.rng.Float64()*340-170
				far := true
				for _, st := range sites {
					if math.Abs(st.lat-lat) < 6 && math.Abs(st.lon-lon) < 6 {
						far = false
					}
				}
				if far {
					sh = newShape(ss.rng, kinds[ss.rng.Intn(3)], lat, lon, 0.02+ss.rng.Float64()*0.5, 1)
					break
				}
			}
		} else {
			st := sites[ss.rng.Intn(len(sites))]
			sc := st.scales[ss.rng.Intn(2)]
			switch ss.rng.Intn(5) {
			case 0, 1: // the very same rectangle / circle as a fence under test
				sh = newShape(ss.rng, kinds[ss.rng.Intn(2)], st.lat, st.lon, sc, st.aspect)
			case 2: // overlapping
				sh = newShape(ss.rng, kinds[ss.rng.Intn(3)], st.lat+sc*(ss.rng.Float64()-0.5)*2, st.lon+sc*(ss.rng.Float64()-0.5)*2, sc, st.aspect)
			case 3: // containing
				sh = newShape(ss.rng, kinds[ss.rng.Intn(3)], st.lat, st.lon, sc*4, st.aspect)
			default: // contained
				sh = newShape(ss.rng, kinds[ss.rng.Intn(3)], st.lat, st.lon, sc*0.3, st.aspect)
			}
		}
		f := buildFence(fmt.Sprintf("p%d", i), kChan, key, sh, randDetect(ss.rng), nil, "", false)
		if i%25 == 7 {
			ss.do(append([]string{"SETHOOK", fmt.Sprintf("ph%d", i), ss.ep.URL("/pop")}, f.args...)...)
		} else {
			ss.do(append([]string{"SETCHAN", f.name}, f.args...)...)
		}
	}
	ss.log = nil
}

// matrixScenario drives all seven transitions (plus FSET, DEL, PDEL, DROP rows)
// through one fence definition.
func (ss *sess) matrixScenario(sc scenario, sites []site) bool {
	if ss.dead {
		return false
	}
	ss.log = nil
	st := sites[sc.n%len(sites)]
	sh := ss.shapeAt(sc.shape, st, st.scales[(sc.n/len(sites))%2])
	name := ss.names[sc.n%6]
	fs := []*fence{buildFence(name, kChan, ss.key, sh, sc.detect, sc.v.accept, sc.v.match, sc.v.where)}
	if sc.tri {
		if fs[0].markOK {
			fs = append(fs,
				buildFence(ss.hookName(), kHook, ss.key, sh, sc.detect, sc.v.accept, sc.v.match, sc.v.where),
				buildFence("", kLive, ss.key, sh, sc.detect, sc.v.accept, sc.v.match, sc.v.where))
		} else {
			ss.ctx.Count("tri_unmarkable_channel_only", 1)
		}
	}
	for _, f := range fs {
		if !ss.install(f) {
			return false
		}
	}
	defer func() {
		for _, f := range fs {
			ss.uninstall(f, ss.rng.Intn(2) == 0)
		}
	}()
	rng := ss.rng
	in1, in2 := sh.genIn(rng), sh.genIn(rng)
	var w, w2, e [2]float64
	for {
		w, w2, e = sh.genSide(rng, -1), sh.genSide(rng, -1), sh.genSide(rng, +1)
		if sh.crosses(w[0], w[1], w2[0], w2[1]) == crossNo && sh.crosses(w2[0], w2[1], e[0], e[1]) == crossYes {
			break
		}
	}
	// diagonal: both outside, bounding boxes of the path and the area overlap, path clearly misses
	var da, db [2]float64
	haveDiag := false
	for i := 0; i < 200; i++ {
		j := func() float64 { return rng.Float64()*0.4 - 0.2 }
		la, lo := sh.pos(-3+j(), 0+j())
		lb, lob := sh.pos(0+j(), 3+j())
		if sh.sd(la, lo) >= 0.3 && sh.sd(lb, lob) >= 0.3 && sh.crosses(la, lo, lb, lob) == crossNo {
			da, db, haveDiag = [2]float64{la, lo}, [2]float64{lb, lob}, true
			break
		}
	}
	corner, haveCorner := sh.genCorner(rng)

	ok := ss.doSet(fs, "a1", in1, map[string]float64{"speed": 15, "n": 1}, 0, "none->in") &&
		ss.doSet(fs, "a1", in2, pickFields(rng, 2), 0, "in->in") &&
		ss.doFset(fs, "a1", []string{"n", "speed"}[rng.Intn(2)], float64(11+rng.Intn(9))) &&
		ss.doSet(fs, "a1", w, nil, 0, "in->out") &&
		ss.doSet(fs, "a1", w2, pickFields(rng, 5), 0, "out->out") &&
		ss.doFset(fs, "a1", "n", 6) &&
		ss.doSet(fs, "a1", e, nil, 0, "out->out:cross") &&
		ss.doSet(fs, "a1", in1, nil, 0, "out->in")
	if ok && haveDiag {
		ok = ss.doSet(fs, "a2", da, map[string]float64{"speed": 12}, 0, "none->out") &&
			ss.doSet(fs, "a2", db, nil, 0, "out->out:diag")
	} else if ok {
		ok = ss.doSet(fs, "a2", w, map[string]float64{"speed": 12}, 0, "none->out")
	}
	if ok && haveCorner {
		ok = ss.doSet(fs, "a2", corner, nil, 0, "out->out:corner")
	}
	a3speed := 15.0
	if sc.v.where {
		a3speed = 99
	}
	ok = ok && ss.doSet(fs, "b1", in2, map[string]float64{"speed": 15}, 0, "other-id") &&
		ss.doSet(fs, "a3", in1, map[string]float64{"speed": a3speed}, 0, "where-false") &&
		ss.doFset(fs, "a3", "n", 3) &&
		ss.doSet(fs, "a4", in2, map[string]float64{"speed": 12}, 0, "none->in") &&
		ss.doDel(fs, "a4") &&
		ss.doPdel(fs, "a*") &&
		ss.doDrop(fs)
	if ok && ss.ctx.Counter("samples_taken") < 6 && len(ss.log) > 0 && sc.n%97 == 3 {
		ss.ctx.Count("samples_taken", 1)
		l := ss.log
		if len(l) > 14 {
			l = l[:14]
		}
		ss.ctx.Sample(map[string]any{"population": ss.pop, "fence": fs[0].args, "first_commands": l})
	}
	return ok
}

func pickFields(rng *rand.Rand, n int) map[string]float64 {
	if rng.Intn(2) == 0 {
		return nil
	}
	return map[string]float64{"n": float64(n*10 + rng.Intn(9))}
}

// walk: several objects through several overlapping fences of mixed kinds.
func (ss *sess) walk(wn int, sites []site, withHooks bool, withExpiry bool) bool {
	if ss.dead {
		return false
	}
	ss.log = nil
	rng := ss.rng
	st := sites[wn%len(sites)]
	base := st.scales[wn%2]
	kinds := []string{"rect", "circle", "poly"}
	vs := variants()
	var fs []*fence
	nf := 4 + rng.Intn(3)
	for i := 0; i < nf; i++ {
		sh := newShape(rng, kinds[rng.Intn(3)], st.lat+base*(rng.Float64()*1.6-0.8), st.lon+base*(rng.Float64()*1.6-0.8), base*(0.6+rng.Float64()*0.8), st.aspect)
		v := variant{}
		if rng.Intn(10) < 3 {
			v = vs[rng.Intn(len(vs))]
		}
		kind := kChan
		name := fmt.Sprintf("w%d", i)
		if withHooks && i == 0 {
			kind, name = kHook, ss.hookName()
		} else if withHooks && i == 1 {
			kind, name = kLive, ""
		}
		f := buildFence(name, kind, ss.key, sh, randDetect(rng), v.accept, v.match, v.where)
		if kind != kChan && !f.markOK {
			f = buildFence(name, kind, ss.key, sh, randDetect(rng), nil, v.match, v.where)
		}
		fs = append(fs, f)
	}
	for _, f := range fs {
		if !ss.install(f) {
			return false
		}
	}
	defer func() {
		for _, f := range fs {
			ss.uninstall(f, true)
		}
	}()
	// candidate positions, valid (outside every don't-care band) for all fences
	valid := func(p [2]float64) bool {
		for _, f := range fs {
			if f.sh.class(p[0], p[1]) == 0 {
				return false
			}
		}
		return true
	}
	var cand [][2]float64
	for tries := 0; len(cand) < 14 && tries < 20000; tries++ {
		var p [2]float64
		f := fs[rng.Intn(len(fs))]
		switch rng.Intn(3) {
		case 0:
			p = f.sh.genIn(rng)
		case 1:
			p = f.sh.genOutAny(rng)
		default:
			p = f.sh.genSide(rng, []int{-1, 1}[rng.Intn(2)])
		}
		if valid(p) {
			cand = append(cand, p)
		}
	}
	if len(cand) < 4 {
		return true
	}
	ids := []string{"a1", "a2", "b1"}
	ncount := 1.0
	steps := 40
	for i := 0; i < steps && !ss.dead && ss.ctx.Violations() < 25; i++ {
		id := ids[rng.Intn(len(ids))]
		o := ss.objs[id]
		r := rng.Float64()
		ok := true
		switch {
		case withHooks && i == steps/4:
			// the endpoint answers 503 once: only the 2xx-answered retry counts as the delivery
			ss.ep.Script(fs[0].path, notif.Fail5xx)
			ss.ctx.Count("webhook_5xx_injected", 1)
			ok = ss.doSet(fs, id, cand[rng.Intn(len(cand))], map[string]float64{"speed": 15}, 0, "")
		case withExpiry && i == steps/2:
			ok = ss.doExpiry(fs, "a9", cand[rng.Intn(len(cand))], map[string]float64{"speed": 15})
		case o == nil || r < 0.66:
			var fl map[string]float64
			if o == nil {
				sp := 15.0
				if rng.Intn(7) == 0 {
					sp = 99
				}
				fl = map[string]float64{"speed": sp, "n": 1}
			} else if rng.Intn(5) == 0 {
				ncount++
				fl = map[string]float64{"n": ncount}
			}
			ok = ss.doSet(fs, id, cand[rng.Intn(len(cand))], fl, 0, "")
		case r < 0.70:
			ok = ss.doSet(fs, id, [2]float64{o.lat, o.lon}, nil, 0, "")
		case r < 0.83:
			ncount++
			ok = ss.doFset(fs, id, "n", ncount)
		case r < 0.89:
			ok = ss.doDel(fs, id)
		case r < 0.92:
			ok = ss.doPdel(fs, "a*")
		case r < 0.94:
			ok = ss.doDrop(fs)
		case r < 0.97:
			ok = ss.noise(fs, "EXPIRE", ss.key, id, "1000")
		default:
			ok = ss.noise(fs, "PERSIST", ss.key, id)
		}
		if !ok {
			return false
		}
	}
	if len(ss.objs) > 0 {
		ss.doDrop(fs)
	}
	ss.ctx.Count("walks", 1)
	return !ss.dead
}

// Run is the C05 check.
func Run(ctx *core.Ctx) {
	ctx.Rule = "matrix: for every (population of other hooks in {none, 30 elsewhere, 300 incl. same-rectangle/overlapping/other keys}) x (fence shape in {BOUNDS rectangle, NEARBY POINT circle, polygon OBJECT}) x (DETECT in 31 non-empty subsets + default) x (MATCH, WHERE, COMMANDS variant: all 20 [quick: all 20 without population, a rotating 5 of 20 with populations]) one fence is created (channel always; webhook + live with the same definition in a sample [quick] / always [thorough]) and a fixed script drives all 7 transitions by SET (none->in, in->in, in->out, out->out, out->out crossing, out->in, none->out; plus diagonal near-miss and inside-bounding-box-but-outside positions), FSET inside and outside, a non-matching id, a WHERE-false object, DEL of an inside object, PDEL, DROP; positions 0.1-0.3 % inside the east / west extreme of NEARBY fences at latitudes 60-85 (channel and live connection with the same arguments must both report them); then random walks of 3 objects through 4-6 overlapping fences of mixed shape/DETECT/kind incl. expiry (EX 1). Every command is closed by markers; messages before the marker are compared with the Appendix C table (order, no others, id/object/fields). non-trivial = judged (command, fence) pair with >= 1 expected message; distinct key = (transition, DETECT set, command, delivery kind, fence shape, population)"
	ctx.Assumptions = []string{
		"positions keep a relative distance >= 0.15 (of the area half-size) from every area boundary; a path counts as crossing only if it gets >= 0.10 deep, as missing only if it stays >= 0.10 away, otherwise both outcomes are accepted",
		"del is required only for objects that were inside (and matched MATCH/WHERE); drop only for default-DETECT fences; both are forbidden only when COMMANDS excludes them (del also when MATCH excludes the id)",
		"a SET/FSET that flips the WHERE result of an object is not generated (the statement speaks about positions)",
		"FSET always changes the value; the empty DETECT subset cannot be expressed in the command syntax",
		"webhook/live fences whose DETECT x COMMANDS filters admit no producible marker message (e.g. COMMANDS del,drop is markable, COMMANDS fset with DETECT enter is not) are observed on the channel only",
	}
	bin, err := srv.Build("plain")
	if err != nil {
		ctx.Fatal("%v", err)
	}
	pops := []string{"none", "p30", "p300"}
	// workers (servers) per population: the 300-hook population is the slow one
	workersOf := map[string]int{"none": ctx.Pick(5, 4), "p30": ctx.Pick(2, 4), "p300": ctx.Pick(5, 8)}
	shapes := []string{"rect", "circle", "poly"}
	dsets := detectSets()
	vs := variants()
	triEvery := ctx.Pick(10, 1)
	nWalks := ctx.Pick(36, 1200)

	var wg sync.WaitGroup
	wg.Add(1)
	go func() { defer wg.Done(); rimProbe(ctx, bin) }()
	var mu sync.Mutex
	planned, done := 0, 0
	widBase := 0
	for pi, pop := range pops {
		perPop := workersOf[pop]
		// the scenario list of this population: the complete cross product, in a PRNG-determined order
		var list []scenario
		for si, sh := range shapes {
			for di, d := range dsets {
				for vi, v := range vs {
					// quick: the populated servers get every (shape, DETECT set) with a rotating
					// quarter of the MATCH/WHERE/COMMANDS variants; the empty one gets all of them
					if !ctx.Thorough() && pop != "none" && (vi+di+si*7+pi)%4 != 0 {
						continue
					}
					list = append(list, scenario{shape: sh, detect: d, v: v})
				}
			}
		}
		// thorough: the complete cross product twice (other sites, positions, name reuse order)
		if ctx.Thorough() {
			list = append(list, list...)
		}
		prng := ctx.SubRng(int64(50 + pi))
		prng.Shuffle(len(list), func(i, j int) { list[i], list[j] = list[j], list[i] })
		for i := range list {
			list[i].n = i
			list[i].tri = i%triEvery == 0
		}
		planned += len(list)
		for w := 0; w < perPop; w++ {
			wid := widBase + w
			var mine []scenario
			for i := w; i < len(list); i += perPop {
				mine = append(mine, list[i])
			}
			wg.Add(1)
			go func(pop string, wid, w, perPop int, mine []scenario) {
				defer wg.Done()
				ss := newSess(ctx, bin, wid, pop)
				defer ss.close()
				if ss.dead {
					return
				}
				sites := genSites(ss.rng)
				ss.installPop(sites)
				n := 0
				for _, sc := range mine {
					if ctx.Violations() >= 25 || ss.dead {
						break
					}
					if ss.matrixScenario(sc, sites) {
						n++
					}
				}
				mu.Lock()
				done += n
				mu.Unlock()
				ctx.Logf("worker %d (%s): matrix %d/%d scenarios", wid, pop, n, len(mine))
				for k := w; k < nWalks/len(pops); k += perPop {
					if ctx.Violations() >= 25 || ss.dead {
						break
					}
					hooks := ctx.Thorough() || k%3 == 0
					ss.walk(k, sites, hooks, ctx.Thorough() || k%2 == 0)
				}
				ctx.Count("chan_msgs_discarded_other_channels", ss.sub.Discarded)
				ctx.Count("webhook_redeliveries_suppressed", ss.ep.Redelivered())
			}(pop, wid, w, perPop, mine)
		}
		widBase += perPop
	}
	wg.Wait()
	ctx.Set("matrix_scenarios_planned", planned)
	ctx.Set("matrix_scenarios_completed", done)
	ctx.Set("matrix_exhaustive", done == planned)
	ctx.Set("detect_sets", len(dsets))
	ctx.Set("variants_match_where_commands", len(vs))
	ctx.Finish()
}
