// Package c11: cursor pagination is complete and duplicate-free (DESIGN.md
// section 4, C11).
//
// For PRNG-generated collections (strings and geometries mixed, fields of all
// kinds) and for SCAN / SEARCH / WITHIN / INTERSECTS / NEARBY with
// MATCH / WHERE / WHEREIN / WHEREEVAL combinations, both orders and the
// outputs IDS / OBJECTS / POINTS, every LIMIT 1..n+1 is paged by following the
// returned cursor until it is 0; the concatenated pages must be exactly the
// reply of the same query with LIMIT n+1. COUNT is compared at every page
// boundary: `... CURSOR c LIMIT n+1 COUNT` must be the number of items still to
// come from cursor c.
package c11

import (
	"encoding/json"
	"fmt"
	"math/rand"
	"sort"
	"strconv"
	"strings"
	"sync"
	"time"

	"verifharness/core"
	"verifharness/globref"
	"verifharness/respc"
	"verifharness/srv"
)

// ---------------------------------------------------------------- datasets

type dataset struct {
	key    string
	n      int
	sets   [][]string
	ids    []string
	values []string // values of the string objects
	nGeo   int
}

var idHeads = []string{"a", "ab", "abc", "abd", "b", "ba", "c", "A", "z", "ab_", "b-"}
var valHeads = []string{"app", "apple", "apr", "b", "ban", "c", "Ab", "z", "ap"}

func fnum(r *rand.Rand) string {
	switch r.Intn(5) {
	case 0:
		return strconv.Itoa(r.Intn(9) - 3)
	case 1:
		return strconv.FormatFloat(float64(r.Intn(90)-30)/10, 'f', -1, 64)
	default:
		return strconv.Itoa(r.Intn(7))
	}
}

func fmixed(r *rand.Rand) string {
	switch r.Intn(10) {
	case 0, 1, 2:
		return fnum(r)
	case 3, 4:
		return []string{"abc", "ABD", "b", "Zed", "_x", "abd"}[r.Intn(6)]
	case 5:
		return "true"
	case 6:
		return "false"
	case 7:
		return "null"
	case 8:
		return []string{`{"a":1}`, `[1,2]`, `{"b":"x"}`}[r.Intn(3)]
	}
	return fnum(r)
}

func coord(r *rand.Rand) float64 { return float64(r.Intn(200001)-100000) / 10000 }

func ff(v float64) string { return strconv.FormatFloat(v, 'f', -1, 64) }

func genDataset(r *rand.Rand, key string, n int, forceStr bool) *dataset {
	d := &dataset{key: key, n: n}
	seen := map[string]bool{}
	allStr := r.Intn(12) == 0 || forceStr // forced for one large collection: value searches page through more than 256 strings too
	allGeo := r.Intn(12) == 0
	for len(d.ids) < n {
		id := idHeads[r.Intn(len(idHeads))]
		if r.Intn(4) > 0 {
			id += strconv.Itoa(r.Intn(3 * n))
		}
		if seen[id] {
			id += "x" + strconv.Itoa(len(d.ids))
		}
		if seen[id] {
			continue
		}
		seen[id] = true
		d.ids = append(d.ids, id)
		cmd := []string{"SET", key, id}
		if r.Intn(2) == 0 {
			cmd = append(cmd, "FIELD", "n", fnum(r))
		}
		if r.Intn(10) < 7 {
			cmd = append(cmd, "FIELD", "f", fmixed(r))
		}
		if r.Intn(3) == 0 {
			cmd = append(cmd, "FIELD", "g", []string{"red", "Green", "blue"}[r.Intn(3)])
		}
		k := r.Intn(20)
		if allStr {
			k = 0
		} else if allGeo && k < 6 {
			k = 8
		}
		switch {
		case k < 6:
			v := valHeads[r.Intn(len(valHeads))]
			if r.Intn(3) > 0 {
				v += strconv.Itoa(r.Intn(6))
			}
			d.values = append(d.values, v)
			cmd = append(cmd, "STRING", v)
		case k < 14:
			cmd = append(cmd, "POINT", ff(coord(r)), ff(coord(r)))
			d.nGeo++
		case k < 17:
			la, lo := coord(r), coord(r)
			cmd = append(cmd, "BOUNDS", ff(la), ff(lo), ff(la+float64(r.Intn(300))/100), ff(lo+float64(r.Intn(300))/100))
			d.nGeo++
		case k < 19:
			x, y := coord(r), coord(r)
			cmd = append(cmd, "OBJECT", fmt.Sprintf(`{"type":"LineString","coordinates":[[%s,%s],[%s,%s],[%s,%s]]}`,
				ff(x), ff(y), ff(x+float64(r.Intn(400))/100), ff(y+float64(r.Intn(400))/100), ff(x-1), ff(y+2)))
			d.nGeo++
		default:
			x, y := coord(r), coord(r)
			w, h := 0.5+float64(r.Intn(300))/100, 0.5+float64(r.Intn(300))/100
			cmd = append(cmd, "OBJECT", fmt.Sprintf(`{"type":"Polygon","coordinates":[[[%s,%s],[%s,%s],[%s,%s],[%s,%s],[%s,%s]]]}`,
				ff(x), ff(y), ff(x+w), ff(y), ff(x+w), ff(y+h), ff(x), ff(y+h), ff(x), ff(y)))
			d.nGeo++
		}
		d.sets = append(d.sets, cmd)
	}
	return d
}

// ---------------------------------------------------------------- queries

type query struct {
	cmd    string
	order  string // "", "ASC", "DESC"
	fkinds string
	filt   []string
	opts   []string // NOFIELDS / DISTANCE
	area   []string
}

func (q *query) build(key string, cursor uint64, limit int, output string) []string {
	a := []string{q.cmd, key}
	if cursor > 0 {
		a = append(a, "CURSOR", strconv.FormatUint(cursor, 10))
	}
	a = append(a, "LIMIT", strconv.Itoa(limit))
	a = append(a, q.filt...)
	if q.order != "" {
		a = append(a, q.order)
	}
	if output != "COUNT" {
		a = append(a, q.opts...)
	}
	a = append(a, output)
	return append(a, q.area...)
}

func (q *query) label() string {
	o := q.order
	if o == "" {
		o = "-"
	}
	return strings.ToLower(q.cmd) + "|" + q.fkinds + "|" + o
}

var filterCombos = [][]string{
	{}, {"match"}, {"where"}, {"wherein"}, {"whereeval"}, {"match", "where"}, {"match", "wherein"},
	{"where", "wherein", "whereeval"}, {"match", "match"}, {"match", "where", "wherein", "whereeval"}, {"where", "where"},
	{"match", "whereeval"},
}

func genMatch(r *rand.Rand, names []string, g *globref.Gen) string {
	if len(names) == 0 || r.Intn(8) == 0 {
		return g.Pattern()
	}
	s := names[r.Intn(len(names))]
	k := 1 + r.Intn(len(s))
	switch r.Intn(9) {
	case 0:
		return s[:k] + "*"
	case 1:
		return s[:1] + "*"
	case 2:
		return "?" + s[1:k] + "*"
	case 3:
		return "[" + s[:1] + "-" + string([]byte{s[0] + 1}) + "]*"
	case 4:
		return "*" + s[len(s)-1:]
	case 5:
		return s
	case 6:
		c := s[k-1 : k]
		if strings.ContainsAny(c, `\-]^[`) {
			c = `\` + c
		}
		return s[:k-1] + "[^" + c + "]*"
	case 7:
		return "*" + s[k-1:k] + "*"
	}
	return s[:k] + "?*"
}

func genWhere(r *rand.Rand) []string {
	switch r.Intn(10) {
	case 0:
		return []string{"WHERE", "n", fnum(r), "+inf"}
	case 1:
		return []string{"WHERE", "n", "-inf", fnum(r)}
	case 2:
		return []string{"WHERE", "n", "(" + strconv.Itoa(r.Intn(3)), "(" + strconv.Itoa(3+r.Intn(4))}
	case 3:
		return []string{"WHERE", "n", []string{"<", "<=", ">", ">=", "==", "!="}[r.Intn(6)], fnum(r)}
	case 4:
		return []string{"WHERE", "f", []string{"<", "<=", ">", ">=", "!=", "!=", "=="}[r.Intn(7)], fmixed(r)}
	case 5:
		return []string{"WHERE", "f", "-inf", "+inf"}
	case 6:
		return []string{"WHERE", "g", []string{"<", ">=", "==", "!="}[r.Intn(4)], []string{"green", "red", "blue", "0"}[r.Intn(4)]}
	case 7:
		return []string{"WHERE", "f", "0", "0"}
	}
	return []string{"WHERE", "n", strconv.Itoa(r.Intn(3) - 1), strconv.Itoa(2 + r.Intn(5))}
}

func genWherein(r *rand.Rand) []string {
	name := []string{"n", "f", "g"}[r.Intn(3)]
	k := 1 + r.Intn(4)
	a := []string{"WHEREIN", name, strconv.Itoa(k)}
	for i := 0; i < k; i++ {
		if r.Intn(3) == 0 {
			a = append(a, "0") // a missing field reads as 0
			continue
		}
		switch name {
		case "n":
			a = append(a, fnum(r))
		case "f":
			a = append(a, fmixed(r))
		default:
			a = append(a, []string{"red", "GREEN", "blue", "0"}[r.Intn(4)])
		}
	}
	return a
}

func genWhereeval(r *rand.Rand) []string {
	switch r.Intn(4) {
	case 0:
		return []string{"WHEREEVAL", "return (FIELDS.n or 0) >= tonumber(ARGV[1])", "1", strconv.Itoa(r.Intn(5))}
	case 1:
		return []string{"WHEREEVAL", "return (FIELDS.n or 0) < tonumber(ARGV[1]) or (FIELDS.n or 0) > tonumber(ARGV[2])", "2", strconv.Itoa(r.Intn(3)), strconv.Itoa(3 + r.Intn(3))}
	case 2:
		return []string{"WHEREEVAL", "return FIELDS.g ~= nil", "0"}
	}
	return []string{"WHEREEVAL", "return ID > ARGV[1]", "1", []string{"ab", "b", "a", "abc1"}[r.Intn(4)]}
}

func genArea(r *rand.Rand, cmd string) []string {
	if cmd == "NEARBY" {
		a := []string{"POINT", ff(coord(r)), ff(coord(r))}
		if r.Intn(2) == 0 {
			a = append(a, strconv.Itoa(300000+r.Intn(1500000)))
		}
		return a
	}
	switch r.Intn(5) {
	case 0:
		return []string{"BOUNDS", "-90", "-180", "90", "180"}
	case 1:
		return []string{"CIRCLE", ff(coord(r) / 2), ff(coord(r) / 2), strconv.Itoa(400000 + r.Intn(1200000))}
	case 2:
		x, y := coord(r)/2-6, coord(r)/2-6
		w, h := 6+float64(r.Intn(12)), 6+float64(r.Intn(12))
		return []string{"OBJECT", fmt.Sprintf(`{"type":"Polygon","coordinates":[[[%s,%s],[%s,%s],[%s,%s],[%s,%s]]]}`,
			ff(x), ff(y), ff(x+w), ff(y), ff(x+w/2), ff(y+h), ff(x), ff(y))}
	}
	la, lo := coord(r)/2-7, coord(r)/2-7
	return []string{"BOUNDS", ff(la), ff(lo), ff(la + 5 + float64(r.Intn(15))), ff(lo + 5 + float64(r.Intn(15)))}
}

func genQueries(r *rand.Rand, d *dataset, perShape int) []*query {
	g := &globref.Gen{R: r}
	var out []*query
	type shape struct{ cmd, order string }
	shapes := []shape{{"SCAN", ""}, {"SCAN", "DESC"}, {"SEARCH", "ASC"}, {"SEARCH", "DESC"}, {"WITHIN", ""}, {"INTERSECTS", ""}, {"NEARBY", ""}}
	for _, sh := range shapes {
		for _, combo := range filterCombos {
			for rep := 0; rep < perShape; rep++ {
				q := &query{cmd: sh.cmd, order: sh.order, fkinds: strings.Join(combo, "+")}
				if q.fkinds == "" {
					q.fkinds = "none"
				}
				for _, k := range combo {
					switch k {
					case "match":
						names := d.ids
						if sh.cmd == "SEARCH" {
							names = d.values
						}
						q.filt = append(q.filt, "MATCH", genMatch(r, names, g))
					case "where":
						q.filt = append(q.filt, genWhere(r)...)
					case "wherein":
						q.filt = append(q.filt, genWherein(r)...)
					case "whereeval":
						q.filt = append(q.filt, genWhereeval(r)...)
					}
				}
				if r.Intn(6) == 0 {
					q.opts = append(q.opts, "NOFIELDS")
				}
				if sh.cmd == "NEARBY" && r.Intn(3) == 0 {
					q.opts = append(q.opts, "DISTANCE")
				}
				if sh.cmd != "SCAN" && sh.cmd != "SEARCH" {
					q.area = genArea(r, sh.cmd)
				}
				if sh.cmd == "INTERSECTS" && len(q.area) > 0 && q.area[0] == "BOUNDS" && r.Intn(2) == 0 {
					q.opts = append(q.opts, "CLIP") // objects come back clipped; the page boundaries are the same
				}
				out = append(out, q)
			}
		}
	}
	return out
}

// ---------------------------------------------------------------- execution

type item struct {
	id  string
	txt string
}

func parsePage(r respc.Reply) (cursor uint64, items []item, err error) {
	if r.Kind == '-' {
		return 0, nil, fmt.Errorf("error reply: %s", r.Str)
	}
	if r.Kind != '*' || len(r.Arr) != 2 || r.Arr[0].Kind != ':' || r.Arr[1].Kind != '*' || r.Arr[0].Int < 0 {
		return 0, nil, fmt.Errorf("unexpected reply shape: %s", clip(r.String(), 200))
	}
	for _, e := range r.Arr[1].Arr {
		it := item{txt: e.String()}
		if e.Kind == '*' && len(e.Arr) > 0 {
			it.id = e.Arr[0].Str
		} else {
			it.id = e.Str
		}
		items = append(items, it)
	}
	return uint64(r.Arr[0].Int), items, nil
}

func clip(s string, n int) string {
	if len(s) > n {
		return s[:n] + "..."
	}
	return s
}

func idsOf(it []item) []string {
	o := make([]string, len(it))
	for i := range it {
		o[i] = it[i].id
	}
	return o
}

// perKey bounds the number of reports per scenario key (a single defect would
// otherwise use up the whole report budget and end the run early).
var perKey = struct {
	sync.Mutex
	n map[string]int
}{n: map[string]int{}}

func (w *worker) violation(key, what string, replay any) {
	perKey.Lock()
	perKey.n[key]++
	k := perKey.n[key]
	perKey.Unlock()
	if k > 2 {
		w.ctx.Count("repeats_not_reported:"+key, 1)
		return
	}
	w.ctx.Violation(key, what, replay)
}

type worker struct {
	ctx  *core.Ctx
	s    *srv.Server
	c    *respc.Conn
	cj   *respc.Conn // the same server in JSON output mode
	dead bool
}

// jsonPaging follows the cursor of the JSON form of a reply (the footer is
// written by other code than the RESP one): the concatenated pages must be the
// ids of the unlimited RESP reply.
func (w *worker) jsonPaging(d *dataset, q *query, ref []item, limit int) {
	if w.cj == nil {
		c, err := respc.Dial(w.s.Addr(), 5*time.Second)
		if err != nil {
			return
		}
		c.Timeout = 60 * time.Second
		if _, err := c.Do("OUTPUT", "json"); err != nil {
			c.Close()
			return
		}
		w.cj = c
	}
	var got []string
	cursor := uint64(0)
	var trace []string
	for pages := 0; pages <= len(ref)+3; pages++ {
		cmd := q.build(d.key, cursor, limit, "IDS")
		txt, err := w.cj.DoJSON(cmd...)
		if err != nil {
			w.infra("json page query", err)
			return
		}
		var doc struct {
			OK     bool     `json:"ok"`
			IDs    []string `json:"ids"`
			Cursor uint64   `json:"cursor"`
		}
		if json.Unmarshal([]byte(txt), &doc) != nil || !doc.OK {
			w.ctx.Count("json_page_unparsable", 1)
			return
		}
		w.ctx.Eval(1)
		got = append(got, doc.IDs...)
		if len(trace) < 40 {
			trace = append(trace, fmt.Sprintf("cursor %d -> %d ids, cursor %d", cursor, len(doc.IDs), doc.Cursor))
		}
		cursor = doc.Cursor
		if cursor == 0 {
			break
		}
	}
	w.ctx.Count("json_paged_queries", 1)
	want := idsOf(ref)
	same := len(got) == len(want)
	for i := 0; same && i < len(got); i++ {
		same = got[i] == want[i]
	}
	if !same {
		w.violation("json-paging:"+strings.ToLower(q.cmd)+":"+q.fkinds,
			fmt.Sprintf("%q followed through the cursors of its JSON replies (LIMIT %d) yields %d ids, the unlimited reply lists %d; pages: %v", q.build(d.key, 0, limit, "IDS"), limit, len(got), len(want), trace),
			map[string]any{"dataset": d.sets, "query": q.build(d.key, 0, limit, "IDS"), "pages": trace})
	}
}

func (w *worker) infra(what string, err error) {
	time.Sleep(50 * time.Millisecond)
	if !w.s.Alive() {
		_, site := w.s.Crashed()
		w.ctx.Inconclusive("server died during " + what + ": " + site)
	} else {
		w.ctx.Inconclusive(fmt.Sprintf("i/o error during %s: %v", what, err))
	}
	w.dead = true
}

type run struct {
	limit  int
	cursor uint64
	items  []item
	pages  int
	done   bool
	bad    string
	trace  []map[string]any
	cnt    []cntProbe
}

type cntProbe struct {
	cursor   uint64
	expected int
	got      respc.Reply
}

func limitsFor(r *rand.Rand, n, m int, all bool) []int {
	if all {
		ls := make([]int, 0, n+1)
		for l := 1; l <= n+1; l++ {
			ls = append(ls, l)
		}
		return ls
	}
	set := map[int]bool{}
	add := func(l int) {
		if l >= 1 && l <= n+1 {
			set[l] = true
		}
	}
	for l := 1; l <= 12; l++ {
		add(l)
	}
	for k := 1; k <= 8 && m > 0; k++ {
		add(m / k)
		add(m/k + 1)
		add(m/k - 1)
	}
	add(m - 1)
	add(m)
	add(m + 1)
	add(n)
	add(n + 1)
	for _, l := range []int{63, 64, 65, 100, 127, 128, 129, 255, 256, 257, 511, 512, 513} {
		add(l) // page ends around the powers of two (iterator step counters)
	}
	for i := 0; i < 10; i++ {
		add(1 + r.Intn(n+1))
	}
	ls := make([]int, 0, len(set))
	for l := range set {
		ls = append(ls, l)
	}
	sort.Ints(ls)
	return ls
}

func sameTieOrder(a, b []item, dist map[string]string) bool {
	if len(a) != len(b) || dist == nil {
		return false
	}
	cnt := map[string]int{}
	for i := range a {
		da, oka := dist[a[i].id]
		db, okb := dist[b[i].id]
		if !oka || !okb || da != db {
			return false
		}
		cnt[a[i].id]++
		cnt[b[i].id]--
	}
	for _, v := range cnt {
		if v != 0 {
			return false
		}
	}
	return true
}

func isSearchShortcut(q *query) bool {
	if q.cmd != "SEARCH" {
		return false
	}
	for i := 0; i < len(q.filt); i++ {
		switch q.filt[i] {
		case "WHERE":
			return false
		case "MATCH":
			if i+1 < len(q.filt) && q.filt[i+1] != "*" {
				return false
			}
		}
	}
	nm := 0
	for _, t := range q.filt {
		if t == "MATCH" {
			nm++
		}
	}
	return nm <= 1
}

// pageQuery drives one (query, output) pair through every LIMIT.
func (w *worker) pageQuery(d *dataset, q *query, output string, r *rand.Rand, allLimits bool, distOf func() map[string]string) {
	ctx := w.ctx
	n := d.n
	refCmd := q.build(d.key, 0, n+1, output)
	rr, err := w.c.Do(refCmd...)
	if err != nil {
		w.infra("reference query", err)
		return
	}
	cur, ref, perr := parsePage(rr)
	if perr != nil {
		// the generator is meant to produce only valid queries; an error here is
		// not a pagination statement
		ctx.Count("reference_query_errors", 1)
		if ctx.Counter("reference_query_errors") <= 3 {
			ctx.Logf("reference query failed: %q: %v", refCmd, perr)
		}
		return
	}
	if cur != 0 {
		// LIMIT n+1 can never be reached by n objects
		w.violation("nonzero-cursor-unlimited:"+strings.ToLower(q.cmd)+":"+q.fkinds,
			fmt.Sprintf("LIMIT n+1=%d query over %d objects returned cursor %d with %d items", n+1, n, cur, len(ref)),
			map[string]any{"dataset": d.sets, "query": refCmd, "reply": clip(rr.String(), 2000)})
		return
	}
	m := len(ref)
	if output == "IDS" && m >= 2 && len(q.opts) == 0 && r.Intn(6) == 0 {
		w.jsonPaging(d, q, ref, 1+r.Intn(m))
	}
	ctx.Count("queries:"+strings.ToLower(q.cmd), 1)
	ctx.Count("queries_filter:"+q.fkinds, 1)
	ctx.Count("queries_output:"+strings.ToLower(output), 1)
	if m == 0 {
		ctx.Count("queries_empty_result", 1)
	}
	limits := limitsFor(r, n, m, allLimits)
	runs := make([]*run, len(limits))
	for i, l := range limits {
		runs[i] = &run{limit: l}
	}
	doCount := output == "IDS"
	maxPages := m + 3
	for {
		var active []*run
		for _, ru := range runs {
			if !ru.done {
				active = append(active, ru)
			}
		}
		if len(active) == 0 {
			break
		}
		if len(active) > 24 {
			active = active[:24] // bounded pipeline depth
		}
		for _, ru := range active {
			w.c.Send(q.build(d.key, ru.cursor, ru.limit, output)...)
			if doCount {
				w.c.Send(q.build(d.key, ru.cursor, n+1, "COUNT")...)
			}
		}
		for _, ru := range active {
			pr, err := w.c.Recv()
			if err != nil {
				w.infra("page query", err)
				return
			}
			var cr respc.Reply
			if doCount {
				cr, err = w.c.Recv()
				if err != nil {
					w.infra("count query", err)
					return
				}
				ru.cnt = append(ru.cnt, cntProbe{cursor: ru.cursor, expected: m - len(ru.items), got: cr})
			}
			ctx.Eval(1)
			ru.pages++
			c2, items, perr := parsePage(pr)
			if len(ru.trace) < 60 {
				ru.trace = append(ru.trace, map[string]any{"cursor_sent": ru.cursor, "cursor_returned": c2, "ids": idsOf(items)})
			}
			if perr != nil {
				ru.bad = "page-error: " + perr.Error()
				ru.done = true
				continue
			}
			if len(items) > ru.limit {
				ctx.Count("pages_longer_than_limit", 1) // not a statement of C11
			}
			ru.items = append(ru.items, items...)
			if c2 == 0 {
				ru.done = true
			} else if c2 == ru.cursor || ru.pages > maxPages {
				// the same query with the same cursor gives the same reply for ever,
				// or more pages than items: 0 is never reached
				ru.bad = fmt.Sprintf("paging does not end (cursor %d -> %d after %d pages for %d items)", ru.cursor, c2, ru.pages, m)
				ru.done = true
			}
			ru.cursor = c2
		}
	}
	// judge
	fk := strings.ToLower(q.cmd) + ":" + q.fkinds
	sampled := false
	for _, ru := range runs {
		if w.ctx.Violations() >= 25 {
			return
		}
		if m > ru.limit {
			ctx.Distinct(q.label() + "|" + strconv.Itoa(ru.limit))
			ctx.Count("multi_page_runs", 1)
			if !sampled && d.key == "d7" && ru.limit == 2 && output == "IDS" && q.fkinds == "match+where" {
				sampled = true
				ctx.Sample(map[string]any{"query": q.build(d.key, 0, ru.limit, output), "pages": ru.trace, "unlimited": idsOf(ref)})
			}
		} else {
			ctx.Count("single_page_runs", 1)
		}
		replay := func() map[string]any {
			return map[string]any{"dataset": d.sets, "reference_query": refCmd, "reference_ids": idsOf(ref),
				"paged_query": q.build(d.key, 0, ru.limit, output), "pages": ru.trace, "paged_ids": idsOf(ru.items)}
		}
		if ru.bad != "" {
			w.violation("paging:"+fk, fmt.Sprintf("%q LIMIT %d: %s", refCmd, ru.limit, ru.bad), replay())
			continue
		}
		kind := ""
		if len(ru.items) != len(ref) {
			kind = "mismatch"
		} else {
			for i := range ref {
				if ref[i].txt != ru.items[i].txt {
					kind = "mismatch"
					break
				}
			}
		}
		if kind != "" && q.cmd == "NEARBY" && sameTieOrder(ref, ru.items, distOf()) {
			ctx.Count("nearby_tie_permutations_accepted", 1)
			kind = ""
		}
		if kind != "" {
			seen := map[string]bool{}
			for _, it := range ru.items {
				if seen[it.id] {
					kind = "dup"
				}
				seen[it.id] = true
			}
			if kind != "dup" && len(ru.items) < len(ref) {
				prefix := true
				for i := range ru.items {
					if ru.items[i].id != ref[i].id {
						prefix = false
					}
				}
				if prefix {
					kind = "zero-cursor"
				}
			}
			what := map[string]string{"mismatch": "concatenated pages differ from the unlimited reply",
				"dup": "an id is repeated across pages", "zero-cursor": "cursor 0 returned while items remain"}[kind]
			w.violation(kind+":"+fk, fmt.Sprintf("%q: %s with LIMIT %d (unlimited %d items, paged %d items in %d pages)",
				refCmd, what, ru.limit, len(ref), len(ru.items), ru.pages), replay())
			continue
		}
		// COUNT at every page boundary
		for _, cp := range ru.cnt {
			ctx.Count("count_at_cursor_probes", 1)
			if cp.got.Kind == ':' && int(cp.got.Int) == cp.expected {
				continue
			}
			key := "count-at-cursor:" + fk
			if isSearchShortcut(q) {
				key = "count:search-shortcut"
			}
			w.violation(key, fmt.Sprintf("%q gives %s but %d ids are still to come from cursor %d (LIMIT %d paging of %d ids)",
				q.build(d.key, cp.cursor, n+1, "COUNT"), cp.got.String(), cp.expected, cp.cursor, ru.limit, m),
				map[string]any{"dataset": d.sets, "count_query": q.build(d.key, cp.cursor, n+1, "COUNT"), "count_reply": cp.got.String(),
					"ids_query": q.build(d.key, cp.cursor, n+1, "IDS"), "expected": cp.expected, "pages": ru.trace})
			break
		}
	}
}

func (w *worker) dataset(idx int, thorough bool) {
	ctx := w.ctx
	r := ctx.SubRng(int64(idx))
	var n int
	allLimits := true
	perShape := 1
	if !thorough {
		n = []int{1, 2, 3, 5, 8, 13, 20, 27, 34, 40}[idx%10]
		if idx >= 10 {
			n = 5 + r.Intn(36)
		}
		if idx%30 == 29 {
			// a few collections larger than the iterators' internal step counter period (256)
			n = 300 + r.Intn(500)
			allLimits = false
		}
	} else {
		switch {
		case idx%8 == 7:
			n = 100 + r.Intn(201)
			if idx%16 == 15 {
				n = 300 + r.Intn(700)
			}
			allLimits = false
		case idx%8 == 6:
			n = 41 + r.Intn(40)
		default:
			n = 1 + r.Intn(40)
		}
		if idx%5 == 0 {
			perShape = 2
		}
	}
	d := genDataset(r, "d"+strconv.Itoa(idx), n, n >= 300 && (idx%60 == 59 || idx%48 == 47))
	for _, c := range d.sets {
		w.c.Send(c...)
	}
	for _, c := range d.sets {
		rp, err := w.c.Recv()
		if err != nil {
			w.infra("dataset load", err)
			return
		}
		if rp.Kind == '-' {
			ctx.Inconclusive(fmt.Sprintf("dataset load rejected: %q: %s", c, rp.Str))
			w.dead = true
			return
		}
	}
	ctx.Count("datasets", 1)
	ctx.Count("objects_loaded", int64(n))
	w.hostileCursors(d)
	qs := genQueries(r, d, perShape)
	distCache := map[string]map[string]string{}
	for _, q := range qs {
		if w.dead || ctx.Violations() >= 25 {
			break
		}
		outs := []string{"IDS"}
		switch q.cmd {
		case "SEARCH":
			if r.Intn(2) == 0 {
				outs = append(outs, "OBJECTS")
			}
		default:
			outs = append(outs, []string{"OBJECTS", "POINTS"}[r.Intn(2)])
		}
		q := q
		distOf := func() map[string]string {
			if q.cmd != "NEARBY" {
				return nil
			}
			k := strings.Join(q.area[:3], " ")
			if m, ok := distCache[k]; ok {
				return m
			}
			rp, err := w.c.Do("NEARBY", d.key, "LIMIT", strconv.Itoa(d.n+1), "DISTANCE", "IDS", "POINT", q.area[1], q.area[2])
			m := map[string]string{}
			if err == nil && rp.Kind == '*' && len(rp.Arr) == 2 {
				for _, e := range rp.Arr[1].Arr {
					if len(e.Arr) == 2 {
						m[e.Arr[0].Str] = e.Arr[1].Str
					}
				}
			}
			distCache[k] = m
			return m
		}
		for _, o := range outs {
			if w.dead {
				break
			}
			w.pageQuery(d, q, o, r, allLimits, distOf)
		}
	}
	// keep the server small: the collection is not needed any more
	w.c.Do("DROP", d.key)
}

// Run is the C11 check.
func Run(ctx *core.Ctx) {
	ctx.Rule = "PRNG datasets (n objects, strings/points/rectangles/linestrings/polygons mixed, fields n (numeric), f (all value kinds), g (strings), each partly missing) x {SCAN, SCAN DESC, SEARCH ASC, SEARCH DESC, WITHIN, INTERSECTS, NEARBY} x 12 filter-kind combinations of MATCH/WHERE/WHEREIN/WHEREEVAL x outputs IDS + one of OBJECTS/POINTS x every LIMIT 1..n+1 (n > 80, up to 800 (quick) / 1000 (thorough) objects: 30-55 chosen LIMITs incl. 1..12, m/k, m/k+-1, n, n+1, 2^k and 2^k+-1 up to 513); each LIMIT is paged by following the returned cursor until 0 and the concatenation compared element by element (id, object, fields) with the single LIMIT n+1 reply; at every page boundary of the IDS runs `CURSOR c LIMIT n+1 COUNT` is compared with the number of ids still to come. hostile cursors (n, n+1, 2^31.., 2^64-1): empty page, cursor 0, COUNT = number of IDS. non-trivial = the result spans >= 2 pages (result size > LIMIT); distinct key = (command, filter kinds, order, LIMIT)"
	ctx.Assumptions = []string{
		"the collection does not change during paging (each dataset is loaded once by the only client that queries it)",
		"NEARBY: a different order among objects at exactly equal distance is accepted",
		"a non-zero cursor followed by an empty last page is allowed (the statement forbids only a 0 cursor while items remain)",
		"COUNT is judged with CURSOR only (no LIMIT smaller than the result); COUNT vs LIMIT belongs to C12",
	}
	ctx.MinDistinct = 50
	bin, err := srv.Build("plain")
	if err != nil {
		ctx.Fatal("%v", err)
	}
	s, err := srv.Start(srv.Opts{Bin: bin, Args: []string{"--appendonly", "no"}})
	if err != nil {
		ctx.Fatal("%v", err)
	}
	thorough := ctx.Thorough()
	nd := ctx.Pick(90, 500)
	const nworkers = 8
	jobs := make(chan int, nd)
	for i := 0; i < nd; i++ {
		jobs <- i
	}
	close(jobs)
	var wg sync.WaitGroup
	for wi := 0; wi < nworkers; wi++ {
		wg.Add(1)
		go func() {
			defer wg.Done()
			c, err := respc.Dial(s.Addr(), 5*time.Second)
			if err != nil {
				ctx.Inconclusive("dial: " + err.Error())
				return
			}
			defer c.Close()
			c.Timeout = 60 * time.Second
			w := &worker{ctx: ctx, s: s, c: c}
			for idx := range jobs {
				if w.dead || ctx.Violations() >= 25 {
					return
				}
				w.dataset(idx, thorough)
			}
		}()
	}
	wg.Wait()
	ctx.Finish()
}

// hostileCursors: a CURSOR beyond the collection (up to the largest 64-bit
// value) is an ordinary "nothing remains": the page is empty, its cursor is 0,
// and COUNT agrees with the number of ids of the same query.
func (w *worker) hostileCursors(d *dataset) {
	if w.dead {
		return
	}
	ctx := w.ctx
	cursors := []string{strconv.Itoa(d.n), strconv.Itoa(d.n + 1), "2147483647", "2147483648", "4294967295", "4294967296", "9223372036854775807", "9223372036854775808", "18446744073709551615"}
	forms := [][]string{{"SCAN", d.key}, {"SCAN", d.key, "DESC"}, {"SEARCH", d.key}, {"WITHIN", d.key}, {"INTERSECTS", d.key}, {"NEARBY", d.key}, {"SCAN", d.key, "MATCH", "a*"}, {"SCAN", d.key, "WHERE", "n", "-inf", "+inf"}}
	tail := map[string][]string{"WITHIN": {"BOUNDS", "-90", "-180", "90", "180"}, "INTERSECTS": {"BOUNDS", "-90", "-180", "90", "180"}, "NEARBY": {"POINT", "0", "0"}}
	for _, f := range forms {
		for _, cur := range cursors {
			var lens [2]int64
			var replies [2]string
			ok := true
			for k, out := range []string{"IDS", "COUNT"} {
				cmd := append(append(append([]string{}, f...), "CURSOR", cur, out), tail[f[0]]...)
				rp, err := w.c.Do(cmd...)
				if err != nil {
					w.infra("hostile cursor", err)
					return
				}
				replies[k] = rp.String()
				if rp.IsErr() {
					ok = false // refusing the value is fine
					break
				}
				if out == "IDS" {
					if rp.Kind != '*' || len(rp.Arr) != 2 {
						ok = false
						break
					}
					lens[k] = int64(len(rp.Arr[1].Arr))
					if rp.Arr[0].Int != 0 && lens[k] == 0 {
						w.violation("paging:hostile-cursor:"+strings.ToLower(f[0]), fmt.Sprintf("%q: an empty page with the non-zero cursor %d", cmd, rp.Arr[0].Int), map[string]any{"dataset": d.sets, "query": cmd})
						return
					}
				} else {
					if rp.Kind == ':' {
						lens[k] = rp.Int
					} else if rp.Kind == '*' && len(rp.Arr) == 2 {
						lens[k] = rp.Arr[1].Int
					} else {
						ok = false
					}
				}
			}
			if !ok {
				continue
			}
			ctx.Eval(1)
			ctx.Count("hostile_cursor_probes", 1)
			if lens[0] != lens[1] {
				w.violation("count:hostile-cursor:"+strings.ToLower(f[0]), fmt.Sprintf("%q CURSOR %s: IDS returns %d ids (%s), COUNT answers %d (%s) on a collection of %d objects", f, cur, lens[0], clipS(replies[0], 80), lens[1], clipS(replies[1], 80), d.n),
					map[string]any{"dataset": d.sets, "query": f, "cursor": cur})
				return
			}
		}
	}
}

func clipS(s string, n int) string {
	if len(s) > n {
		return s[:n] + "..."
	}
	return s
}
