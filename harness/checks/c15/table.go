package c15

import (
	"crypto/sha1"
	"encoding/hex"
	"strconv"
	"strings"
)

// Mode identifiers (also used in distinctness and violation keys).
const (
	mLeader   = "leader"
	mCatchup  = "follower-catchup" // follower that has never caught up
	mFollower = "follower"         // caught-up follower of a real leader
	mReadonly = "readonly"
	mNoauth   = "noauth" // requirepass set, connection not authenticated
	mProt     = "protected"
)

// cmdSpec is one row of the command table: a command of the dispatcher with
// arguments that are valid on the seeded dataset.
type cmdSpec struct {
	name       string                             // as in commands.json (upper case; "CONFIG GET")
	args       []string                           // default arguments (complete command)
	per        func(mode string, e *env) []string // optional per-mode arguments (nil result = default)
	documented bool                               // key of commands.json
	fresh      bool                               // changes connection state: own connection
	live       bool                               // turns the connection into a stream
	objRead    bool                               // "object reads and searches" of the statement
	authExempt bool                               // PING ECHO QUIT OUTPUT HEALTHZ AUTH
	devOnly    bool                               // needs --dev (not used): always "unknown command"
	unknownOK  bool                               // legitimately answered "unknown command"
	needSha    bool                               // args[1] is replaced by the sha of a loaded script
}

const trivialScript = "return(1)"

func sha1hex(s string) string {
	h := sha1.Sum([]byte(s))
	return hex.EncodeToString(h[:])
}

// theTable is the harness' command table (DESIGN Appendix A).
func theTable() []*cmdSpec {
	doc := func(name string, args ...string) *cmdSpec {
		return &cmdSpec{name: name, args: args, documented: true}
	}
	und := func(name string, args ...string) *cmdSpec {
		return &cmdSpec{name: name, args: args}
	}
	rd := func(c *cmdSpec) *cmdSpec { c.objRead = true; return c }
	t := []*cmdSpec{
		// --- writes
		doc("SET", "SET", "fleet", "new1", "FIELD", "speed", "7", "POINT", "5", "5"),
		doc("DEL", "DEL", "fleet", "truck1"),
		doc("PDEL", "PDEL", "fleet", "truck*"),
		doc("DROP", "DROP", "tmp"),
		doc("FSET", "FSET", "fleet", "truck1", "speed", "99"),
		doc("FLUSHDB", "FLUSHDB"),
		doc("EXPIRE", "EXPIRE", "fleet", "truck1", "3000"),
		doc("PERSIST", "PERSIST", "fleet", "truck2"),
		doc("JSET", "JSET", "fleet", "j1", "a.z", "5"),
		doc("JDEL", "JDEL", "fleet", "j1", "c"),
		doc("RENAME", "RENAME", "tmp", "tmp2"),
		doc("RENAMENX", "RENAMENX", "tmp", "tmp3"),
		doc("SETHOOK", "SETHOOK", "hook2", "http://127.0.0.1:9/h2", "NEARBY", "zone", "FENCE", "POINT", "80", "80", "10"),
		doc("DELHOOK", "DELHOOK", "hook1"),
		doc("PDELHOOK", "PDELHOOK", "hook*"),
		doc("SETCHAN", "SETCHAN", "chan2", "WITHIN", "zone", "FENCE", "BOUNDS", "70", "70", "71", "71"),
		doc("DELCHAN", "DELCHAN", "chan1"),
		doc("PDELCHAN", "PDELCHAN", "chan*"),
		// --- object reads and searches (the statement's list)
		rd(doc("GET", "GET", "fleet", "truck1", "WITHFIELDS")),
		rd(doc("FGET", "FGET", "fleet", "truck1", "speed")),
		rd(doc("JGET", "JGET", "fleet", "j1", "a.b")),
		rd(doc("SCAN", "SCAN", "fleet")),
		rd(doc("SEARCH", "SEARCH", "fleet")),
		rd(doc("NEARBY", "NEARBY", "fleet", "POINT", "33.5", "-112.2", "100000")),
		rd(doc("WITHIN", "WITHIN", "fleet", "BOUNDS", "30", "-115", "40", "-110")),
		rd(doc("INTERSECTS", "INTERSECTS", "fleet", "BOUNDS", "30", "-115", "40", "-110")),
		rd(doc("BOUNDS", "BOUNDS", "fleet")),
		rd(doc("TTL", "TTL", "fleet", "truck2")),
		rd(und("TYPE", "TYPE", "fleet")),
		rd(doc("KEYS", "KEYS", "*")),
		rd(doc("EXISTS", "EXISTS", "fleet", "truck1")),
		rd(doc("FEXISTS", "FEXISTS", "fleet", "truck1", "speed")),
		// --- other reads / info
		doc("HOOKS", "HOOKS", "*"),
		doc("CHANS", "CHANS", "*"),
		doc("SERVER", "SERVER"),
		und("INFO", "INFO"),
		und("ROLE", "ROLE"),
		doc("STATS", "STATS", "fleet", "tmp"),
		doc("TEST", "TEST", "POINT", "1", "1", "WITHIN", "BOUNDS", "0", "0", "2", "2"),
		und("HEALTHZ", "HEALTHZ"),
		doc("PING", "PING"),
		und("ECHO", "ECHO", "hello"),
		doc("TIMEOUT", "TIMEOUT", "5", "GET", "fleet", "truck1"),
		// --- connection
		doc("OUTPUT", "OUTPUT", "json"),
		doc("QUIT", "QUIT"),
		doc("AUTH", "AUTH", "nopassword"),
		und("CLIENT", "CLIENT", "LIST"),
		und("HELLO", "HELLO", "3"),
		// --- log / maintenance
		doc("AOF", "AOF", "0"),
		doc("AOFMD5", "AOFMD5", "0", "10"),
		doc("AOFSHRINK", "AOFSHRINK"),
		doc("GC", "GC"),
		// --- system
		doc("CONFIG GET", "CONFIG", "GET", "requirepass"),
		doc("CONFIG SET", "CONFIG", "SET", "keepalive", "300"),
		doc("CONFIG REWRITE", "CONFIG", "REWRITE"),
		doc("FOLLOW", "FOLLOW", "no", "one"),
		und("SLAVEOF", "SLAVEOF", "no", "one"),
		und("REPLCONF", "REPLCONF", "listening-port", "1234"),
		doc("READONLY", "READONLY", "no"),
		// --- scripts
		doc("EVAL", "EVAL", trivialScript, "0"),
		doc("EVALRO", "EVALRO", trivialScript, "0"),
		doc("EVALNA", "EVALNA", trivialScript, "0"),
		doc("EVALSHA", "EVALSHA", "<sha>", "0"),
		doc("EVALROSHA", "EVALROSHA", "<sha>", "0"),
		doc("EVALNASHA", "EVALNASHA", "<sha>", "0"),
		doc("SCRIPT LOAD", "SCRIPT", "LOAD", "return(2)"),
		doc("SCRIPT EXISTS", "SCRIPT", "EXISTS", sha1hex(trivialScript)),
		doc("SCRIPT FLUSH", "SCRIPT", "FLUSH"),
		// --- pubsub / streams
		doc("SUBSCRIBE", "SUBSCRIBE", "chan1"),
		doc("PSUBSCRIBE", "PSUBSCRIBE", "chan*"),
		und("PUBLISH", "PUBLISH", "chan1", "hello"),
		und("MONITOR", "MONITOR"),
		// --- dev only (server is not started with --dev)
		und("MASSINSERT", "MASSINSERT", "1", "2"),
		und("SLEEP", "SLEEP", "0"),
		und("SHUTDOWN", "SHUTDOWN"),
	}
	by := map[string]*cmdSpec{}
	for _, c := range t {
		by[c.name] = c
	}
	for _, n := range []string{"OUTPUT", "QUIT", "AUTH", "AOF", "SUBSCRIBE", "PSUBSCRIBE", "MONITOR"} {
		by[n].fresh = true
	}
	for _, n := range []string{"AOF", "SUBSCRIBE", "PSUBSCRIBE", "MONITOR"} {
		by[n].live = true
	}
	for _, n := range []string{"PING", "ECHO", "QUIT", "OUTPUT", "HEALTHZ", "AUTH"} {
		by[n].authExempt = true
	}
	for _, n := range []string{"MASSINSERT", "SLEEP", "SHUTDOWN"} {
		by[n].devOnly = true
		by[n].unknownOK = true
	}
	by["HELLO"].unknownOK = true
	for _, n := range []string{"EVALSHA", "EVALROSHA", "EVALNASHA"} {
		by[n].needSha = true
	}
	// per-mode arguments of the commands that would otherwise change the gate itself
	follow := func(name string) func(mode string, e *env) []string {
		return func(mode string, e *env) []string {
			switch mode {
			case mCatchup, mFollower:
				// same leader again: accepted, changes nothing
				return []string{name, "127.0.0.1", strconv.Itoa(e.followPort)}
			}
			return nil
		}
	}
	by["FOLLOW"].per = follow("FOLLOW")
	by["SLAVEOF"].per = follow("SLAVEOF")
	by["READONLY"].per = func(mode string, e *env) []string {
		switch mode {
		case mReadonly, mNoauth, mProt:
			return []string{"READONLY", "yes"}
		}
		return nil
	}
	by["CONFIG SET"].per = func(mode string, e *env) []string {
		switch mode {
		case mNoauth, mProt:
			return []string{"CONFIG", "SET", "requirepass", "hacked"}
		}
		return nil
	}
	by["AUTH"].per = func(mode string, e *env) []string {
		if mode == mNoauth {
			return []string{"AUTH", e.password}
		}
		return nil
	}
	return t
}

// wrapper describes how a command is issued.
type wrapper struct {
	name   string
	outer  string // script command ("EVAL"...), "" for none
	sha    bool   // SCRIPT LOAD first, then <outer>SHA
	rebind string // assign EVAL_CMD to this before the call ("" = no)
	tmo    bool   // TIMEOUT 5 prefix on the outermost command
	inner  bool   // tile38.call('timeout','5',...) inside the script
	pcall  bool
	quick  bool // part of the quick tier
}

func wrappers() []wrapper {
	return []wrapper{
		{name: "plain", quick: true},
		{name: "timeout", tmo: true, quick: true},
		{name: "eval", outer: "EVAL", quick: true},
		{name: "evalro", outer: "EVALRO", quick: true},
		{name: "evalna", outer: "EVALNA", quick: true},
		{name: "evalsha", outer: "EVALSHA", sha: true, quick: true},
		{name: "evalrosha", outer: "EVALROSHA", sha: true, quick: true},
		{name: "evalnasha", outer: "EVALNASHA", sha: true, quick: true},
		{name: "evalro-rebind-eval", outer: "EVALRO", rebind: "eval", quick: true},
		{name: "evalna-rebind-eval", outer: "EVALNA", rebind: "eval", quick: true},
		{name: "timeout-eval", outer: "EVAL", tmo: true, quick: true},
		{name: "timeout-evalna", outer: "EVALNA", tmo: true, quick: true},
		{name: "eval-inner-timeout", outer: "EVAL", inner: true},
		{name: "evalna-inner-timeout", outer: "EVALNA", inner: true},
		{name: "evalna-pcall", outer: "EVALNA", pcall: true},
		{name: "eval-pcall", outer: "EVAL", pcall: true},
	}
}

func luaQuote(s string) string {
	var sb strings.Builder
	sb.WriteByte('\'')
	for i := 0; i < len(s); i++ {
		ch := s[i]
		switch {
		case ch == '\\' || ch == '\'':
			sb.WriteByte('\\')
			sb.WriteByte(ch)
		case ch == '\n':
			sb.WriteString("\\n")
		case ch == '\r':
			sb.WriteString("\\r")
		case ch == 0:
			sb.WriteString("\\0")
		default:
			sb.WriteByte(ch)
		}
	}
	sb.WriteByte('\'')
	return sb.String()
}

// scriptFor builds a one-line script without spaces (so that it survives the
// space-splitting of the HTTP/native transports) that issues args.
func scriptFor(w wrapper, args []string) string {
	var q []string
	if w.inner {
		q = append(q, "'timeout'", "'5'")
	}
	for _, a := range args {
		q = append(q, luaQuote(a))
	}
	fn := "tile38.call"
	if w.pcall {
		fn = "tile38.pcall"
	}
	s := "return(" + fn + "(" + strings.Join(q, ",") + "))"
	if w.rebind != "" {
		s = "EVAL_CMD=" + luaQuote(w.rebind) + ";" + s
	}
	return s
}

// wrap returns (prelude commands to run on an administrative connection, the command).
func wrap(w wrapper, args []string) (pre [][]string, out []string) {
	out = args
	if w.outer != "" {
		sc := scriptFor(w, args)
		if w.sha {
			pre = append(pre, []string{"SCRIPT", "LOAD", sc})
			out = []string{w.outer, sha1hex(sc), "0"}
		} else {
			out = []string{w.outer, sc, "0"}
		}
	}
	if w.tmo {
		out = append([]string{"TIMEOUT", "5"}, out...)
	}
	return pre, out
}

// httpEncodable: the native line format splits at spaces; only a trailing
// argument starting with '{' may contain them; empty arguments are lost.
func httpEncodable(args []string) bool {
	for i, a := range args {
		if a == "" {
			return false
		}
		if strings.ContainsAny(a, " \r\n") {
			if !(i == len(args)-1 && a[0] == '{') {
				return false
			}
		}
		if a[0] == '{' && i != len(args)-1 {
			return false
		}
		if a[0] == '"' {
			return false
		}
	}
	return true
}
