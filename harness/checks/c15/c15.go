// Package c15: follower, read-only, password and protected-mode gates hold for
// every command of the command table (DESIGN.md section 4, C15).
package c15

import (
	"encoding/json"
	"fmt"
	"io"
	"os"
	"path/filepath"
	"sort"
	"strings"
	"time"

	"verifharness/core"
	"verifharness/dump"
	"verifharness/respc"
	"verifharness/srv"
)

// outcome of one issued command.
type outcome struct {
	Class string `json:"class"` // err | ok | closed | timeout
	Text  string `json:"text"`
}

func trunc(s string, n int) string {
	if len(s) > n {
		return s[:n] + "..."
	}
	return s
}

func classify(r respc.Reply) outcome {
	txt := r.String()
	if r.Kind == '-' {
		return outcome{"err", trunc(txt, 300)}
	}
	if r.Kind == '$' || r.Kind == '+' {
		s := strings.TrimSpace(r.Str)
		if isJSONErr(s) {
			return outcome{"err", trunc(s, 300)}
		}
	}
	return outcome{"ok", trunc(txt, 300)}
}

// isJSONErr: an error document, or a script result that is an error table
// (tile38.pcall returning the refusal: RESP output turns it into an error reply,
// JSON output into {"ok":true,"result":{"err":...}}).
func isJSONErr(s string) bool {
	return strings.HasPrefix(s, `{"ok":false`) || strings.HasPrefix(s, `{"ok":true,"result":{"err":`)
}

func classifyHTTP(h httpResult) outcome {
	b := strings.TrimSpace(h.Body)
	if b == "" && h.Status == "" {
		return outcome{"closed", ""}
	}
	if isJSONErr(b) || strings.HasPrefix(b, "-") {
		return outcome{"err", trunc(b, 300)}
	}
	return outcome{"ok", trunc(h.Status+" "+b, 300)}
}

// combo is a transport and output mode.
type combo struct {
	transport string // resp | http
	output    string // resp | json
}

func (c combo) String() string { return c.transport + "/" + c.output }

type cell struct {
	cmd *cmdSpec
	w   wrapper
	cb  combo
}

func (c cell) refKey() string { return c.cmd.name + "|" + c.w.name + "|" + c.cb.transport }

// refResult is what the cell did on an ungated leader.
type refResult struct {
	Out         outcome
	DataChanged bool
	LogChanged  bool
	What        string
}

func (r refResult) modifies() bool { return r.DataChanged || r.LogChanged }

type runner struct {
	lastPre  [][]string // prelude of the last issued cell (SCRIPT LOAD for the SHA wrappers)
	ctx      *core.Ctx
	bin      string
	table    []*cmdSpec
	wraps    []wrapper
	ref      map[int]map[string]refResult // per dataset state
	shared   *respc.Conn
	sharedJS bool
	rebuilds int
	sampled  map[string]int
	driven   map[string]map[string]bool // mode -> command name
	abort    bool
}

func (r *runner) closeShared() {
	if r.shared != nil {
		r.shared.Close()
		r.shared = nil
	}
}

// argsFor resolves the arguments of a table row in an environment.
func (r *runner) argsFor(e *env, c *cmdSpec) ([]string, error) {
	args := c.args
	if c.per != nil {
		if a := c.per(e.mode, e); a != nil {
			args = a
		}
	}
	args = append([]string{}, args...)
	if c.needSha {
		if _, err := e.admin.Do("SCRIPT", "LOAD", trivialScript); err != nil {
			return nil, err
		}
		args[1] = sha1hex(trivialScript)
	}
	return args, nil
}

// issue sends the cell's command the way the cell says and returns the outcome.
// password: "" = do not authenticate.
func (r *runner) issue(e *env, cl cell, password string) (full []string, out outcome, err error) {
	args, err := r.argsFor(e, cl.cmd)
	if err != nil {
		return nil, out, err
	}
	pre, full := wrap(cl.w, args)
	r.lastPre = pre
	for _, p := range pre {
		if _, err := e.admin.Do(p...); err != nil {
			return full, out, err
		}
	}
	if cl.cb.transport == "http" {
		auth := noAuthHeader
		if password != "" {
			auth = password
		}
		to := ioTimeout
		if cl.cmd.live {
			to = 150 * time.Millisecond // a stream never ends; whatever arrives arrives at once on loopback
		}
		h, err := httpDo("", e.s.Addr(), strings.Join(full, " "), auth, to)
		if err != nil {
			if respc.IsTimeout(err) {
				return full, outcome{"timeout", err.Error()}, nil
			}
			return full, outcome{"closed", err.Error()}, nil
		}
		return full, classifyHTTP(h), nil
	}
	if cl.cb.transport == "telnet" || cl.cb.transport == "native" {
		out, err := r.issueText(e, cl, full)
		return full, out, err
	}
	wantJS := cl.cb.output == "json"
	fresh := cl.cmd.fresh || e.mode == mNoauth || password != ""
	var c *respc.Conn
	if !fresh && r.shared != nil && r.sharedJS == wantJS {
		c = r.shared
	} else {
		if !fresh {
			r.closeShared()
		}
		c, err = dial(e.s.Addr())
		if err != nil {
			return full, out, err
		}
		if password != "" {
			if rp, err := c.Do("AUTH", password); err != nil || rp.IsErr() {
				c.Close()
				return full, out, fmt.Errorf("AUTH with the correct password: %v %s", err, rp.String())
			}
		}
		if wantJS {
			if _, err := c.Do("OUTPUT", "json"); err != nil {
				c.Close()
				return full, out, err
			}
		}
		if fresh {
			defer c.Close()
		} else {
			r.shared, r.sharedJS = c, wantJS
		}
	}
	if err := c.Send(full...); err != nil {
		if !fresh {
			r.closeShared()
		}
		return full, outcome{"closed", err.Error()}, nil
	}
	to := ioTimeout
	if cl.cmd.live || cl.cmd.name == "QUIT" {
		to = 1500 * time.Millisecond
	}
	rp, err := c.RecvTimeout(to)
	if err != nil {
		if !fresh {
			r.closeShared()
		}
		if respc.IsTimeout(err) {
			return full, outcome{"timeout", err.Error()}, nil
		}
		return full, outcome{"closed", err.Error()}, nil
	}
	return full, classify(rp), nil
}

// issueText sends the command over the plain-text ("telnet") or the native
// "$<len> <line>" protocol on a fresh connection.
func (r *runner) issueText(e *env, cl cell, full []string) (outcome, error) {
	c, err := dial(e.s.Addr())
	if err != nil {
		return outcome{}, err
	}
	defer c.Close()
	to := ioTimeout
	if cl.cmd.live || cl.cmd.name == "QUIT" {
		to = 150 * time.Millisecond
	}
	if cl.cb.transport == "telnet" {
		var q []string
		for _, a := range full {
			a = strings.ReplaceAll(a, "\\", "\\\\")
			a = strings.ReplaceAll(a, "\"", "\\\"")
			a = strings.ReplaceAll(a, "\n", "\\n")
			a = strings.ReplaceAll(a, "\r", "\\r")
			q = append(q, "\""+a+"\"")
		}
		if err := c.WriteRaw([]byte(strings.Join(q, " ") + "\r\n")); err != nil {
			return outcome{"closed", err.Error()}, nil
		}
		rp, err := c.RecvTimeout(to)
		if err != nil {
			if respc.IsTimeout(err) {
				return outcome{"timeout", err.Error()}, nil
			}
			return outcome{"closed", err.Error()}, nil
		}
		return classify(rp), nil
	}
	line := strings.Join(full, " ")
	if err := c.WriteRaw([]byte(fmt.Sprintf("$%d %s\r\n", len(line), line))); err != nil {
		return outcome{"closed", err.Error()}, nil
	}
	c.C.SetReadDeadline(time.Now().Add(to))
	head, err := c.R.ReadString(' ')
	if err != nil {
		if respc.IsTimeout(err) {
			return outcome{"timeout", err.Error()}, nil
		}
		return outcome{"closed", err.Error() + " " + trunc(head, 80)}, nil
	}
	n := 0
	if _, err := fmt.Sscanf(head, "$%d ", &n); err != nil || n < 0 || n > 1<<26 {
		return outcome{"ok", "unparsed native reply: " + trunc(head, 80)}, nil
	}
	buf := make([]byte, n+2)
	if _, err := io.ReadFull(c.R, buf); err != nil {
		return outcome{"closed", err.Error()}, nil
	}
	body := strings.TrimSpace(string(buf))
	if isJSONErr(body) {
		return outcome{"err", trunc(body, 300)}, nil
	}
	return outcome{"ok", trunc(body, 300)}, nil
}

func shrinkEnded(s *srv.Server) int { return strings.Count(s.AllStderr(), "aof shrink ended") }

// waitShrink: AOFSHRINK answers before the rewrite starts; completion is taken from the log line.
func waitShrink(s *srv.Server, before int) bool {
	deadline := time.Now().Add(30 * time.Second)
	for time.Now().Before(deadline) {
		if shrinkEnded(s) > before {
			return true
		}
		time.Sleep(10 * time.Millisecond)
	}
	return false
}

// cells enumerates the matrix of a pass.
func (r *runner) cells(cb combo, names map[string]bool, only func(*cmdSpec) bool) []cell {
	var out []cell
	for _, w := range r.wraps {
		if names != nil && !names[w.name] {
			continue
		}
		for _, c := range r.table {
			if only != nil && !only(c) {
				continue
			}
			out = append(out, cell{c, w, cb})
		}
	}
	return out
}

// devRef is the offset of the reference tables measured on a --dev leader.
const devRef = 100

// devRows selects the rows that exist only on a server started with --dev.
// SHUTDOWN ends the process by design: it is only driven where it must be refused.
func devRows(mode string) func(*cmdSpec) bool {
	return func(c *cmdSpec) bool {
		if !c.devOnly {
			return false
		}
		return c.name != "SHUTDOWN" || mode == mNoauth
	}
}

func (r *runner) markDriven(mode string, c *cmdSpec) {
	if r.driven[mode] == nil {
		r.driven[mode] = map[string]bool{}
	}
	r.driven[mode][c.name] = true
}

func (r *runner) sample(mode string, v any) {
	if r.sampled[mode] < 1 {
		r.sampled[mode]++
		r.ctx.Sample(v)
	}
}

// ---- (a) reference run on a plain leader

func (r *runner) reference(state int, cbs []combo, wn map[string]map[string]bool, dev bool) bool {
	ctx := r.ctx
	so := setupOpts{mode: mLeader, state: state}
	var only func(*cmdSpec) bool
	refIdx := state
	if dev {
		so.args = []string{"--dev"}
		only = devRows(mLeader)
		refIdx = state + devRef
	}
	e, err := setup(r.bin, so)
	if err != nil {
		ctx.Inconclusive("leader setup: " + err.Error())
		return false
	}
	defer func() { r.closeShared(); e.close() }()
	res := map[string]refResult{}
	r.ref[refIdx] = res
	unknown := 0
	for _, cb := range cbs {
		if cb.transport == "resp" && cb.output == "json" {
			continue // same commands as resp/resp; the reference is per (command, wrapper, transport)
		}
		for _, cl := range r.cells(cb, wn[cb.String()], only) {
			if _, ok := res[cl.refKey()]; ok {
				continue
			}
			if cl.cb.transport == "http" || cl.cb.transport == "native" {
				if a, _ := r.argsFor(e, cl.cmd); a != nil {
					if _, full := wrap(cl.w, a); !httpEncodable(full) {
						continue
					}
				}
			}
			if err := reseed(e.admin, state); err != nil {
				ctx.Inconclusive("reseed: " + err.Error())
				return false
			}
			before, err := e.observe()
			if err != nil {
				ctx.Inconclusive("leader observe: " + err.Error())
				return false
			}
			nshr := shrinkEnded(e.s)
			full, out, err := r.issue(e, cl, "")
			if err != nil || !e.s.Alive() {
				ctx.Inconclusive(fmt.Sprintf("leader: %q: %v alive=%v", full, err, e.s.Alive()))
				return false
			}
			if cl.cmd.name == "AOFSHRINK" && cl.w.outer == "" && out.Class == "ok" {
				if !waitShrink(e.s, nshr) {
					ctx.Inconclusive(fmt.Sprintf("AOFSHRINK did not end in 30 s on the leader: %q %s %v; stderr: %s", full, cl.cb, out, e.s.StderrTail(600)))
					return false
				}
			}
			after, err := e.observe()
			if err != nil {
				ctx.Inconclusive("leader observe: " + err.Error())
				return false
			}
			d, l := diffSnap(before, after)
			rr := refResult{Out: out, DataChanged: d != "", LogChanged: l != "", What: strings.TrimSpace(d + " " + l)}
			res[cl.refKey()] = rr
			ctx.Eval(1)
			ctx.Distinct(mLeader + devTag(dev) + "|" + cl.cmd.name + "|" + cl.w.name + "|" + cl.cb.transport)
			ctx.Count("leader_cells", 1)
			r.markDriven(mLeader, cl.cmd)
			if rr.modifies() {
				ctx.Count("leader_cells_modifying", 1)
			}
			if cl.w.name == "plain" && cl.cb.transport == "resp" {
				if out.Class == "err" && strings.Contains(out.Text, "unknown command") && (!cl.cmd.unknownOK || (dev && cl.cmd.devOnly)) {
					unknown++
					ctx.Logf("table row %s is answered 'unknown command'", cl.cmd.name)
				}
				if cl.cmd.name == "SET" {
					r.sample(mLeader, map[string]any{"mode": mLeader, "command": full, "reply": out, "changed": rr.What})
				}
			}
		}
	}
	if unknown > 0 {
		ctx.Count("table_out_of_date", int64(unknown))
		ctx.Inconclusive(fmt.Sprintf("%d rows of the harness command table are unknown to the server", unknown))
	}
	if dev {
		var mod []string
		for _, c := range r.table {
			if rr := res[c.name+"|plain|resp"]; rr.modifies() {
				mod = append(mod, c.name)
			}
		}
		ctx.Set("measured_data_modifying_dev_only_plain", mod)
		return true
	}
	// the measured must-refuse set (plain, RESP)
	var mod, logonly []string
	for _, c := range r.table {
		rr := res[c.name+"|plain|resp"]
		if rr.DataChanged {
			mod = append(mod, c.name)
		} else if rr.LogChanged {
			logonly = append(logonly, c.name)
		}
	}
	if state == 0 {
		ctx.Set("measured_data_modifying_plain", mod)
		ctx.Set("measured_log_only_plain", logonly)
		var sw []string
		for k, rr := range res {
			if rr.modifies() && !strings.Contains(k, "|plain|") {
				sw = append(sw, k)
			}
		}
		sort.Strings(sw)
		ctx.Set("measured_modifying_wrapped_cells", len(sw))
	}
	if len(mod) < 10 {
		ctx.Inconclusive(fmt.Sprintf("only %d commands changed the leader's dataset: the arguments of the table are not valid", len(mod)))
		return false
	}
	return true
}

// mustRefuse: the cell changed dump or log on the leader. AOFSHRINK rewrites
// the file but not the dataset: the statement is about data, it is not judged.
func mustRefuse(cl cell, rr refResult) bool {
	if cl.cmd.name == "AOFSHRINK" {
		return false
	}
	return rr.modifies()
}

func violationKey(mode string, cl cell, suffix string) string {
	if cl.cmd.name == "JDEL" && (mode == mCatchup || mode == mFollower || mode == mReadonly) {
		return "gate:jdel-not-write-class"
	}
	if cl.cmd.name == "MASSINSERT" && (mode == mCatchup || mode == mFollower || mode == mReadonly) {
		return "gate:massinsert-dev-not-gated"
	}
	if cl.w.rebind != "" && (mode == mCatchup || mode == mFollower || mode == mReadonly) {
		return "gate:evalro-evalcmd-rebind"
	}
	k := "gate:" + mode + ":" + strings.ToLower(strings.ReplaceAll(cl.cmd.name, " ", "-")) + ":" + cl.w.name
	if cl.cb.transport != "resp" {
		k += ":" + cl.cb.transport
	}
	if suffix != "" {
		k += ":" + suffix
	}
	return k
}

// ---- (b) (c) (d) (e): one pass of the matrix over a gated environment

type passOpts struct {
	so  setupOpts
	cb  combo
	wn  map[string]bool
	dev bool // servers run with --dev, only the dev-only rows are driven
}

func devTag(dev bool) string {
	if dev {
		return "+dev"
	}
	return ""
}

func (r *runner) pass(po passOpts) {
	ctx := r.ctx
	mode := po.so.mode
	ref := r.ref[po.so.state]
	var only func(*cmdSpec) bool
	if po.dev {
		ref = r.ref[po.so.state+devRef]
		po.so.args = []string{"--dev"}
		only = devRows(mode)
	}
	e, err := setup(r.bin, po.so)
	if err != nil {
		ctx.Inconclusive(mode + " setup: " + err.Error())
		return
	}
	defer func() { r.closeShared(); e.close() }()
	rebuild := func(why string) bool {
		r.closeShared()
		e.close()
		r.rebuilds++
		ctx.Count("env_rebuilds", 1)
		if r.rebuilds > 120 {
			ctx.Inconclusive("too many environment rebuilds (" + why + ")")
			r.abort = true
			return false
		}
		e, err = setup(r.bin, po.so)
		if err != nil {
			ctx.Inconclusive(mode + " setup: " + err.Error())
			r.abort = true
			return false
		}
		return true
	}
	cells := r.cells(po.cb, po.wn, only)
	// deterministic, seed dependent order
	rng := ctx.SubRng(int64(len(mode))*1000 + int64(po.so.state)*100 + int64(len(po.cb.String())))
	rng.Shuffle(len(cells), func(i, j int) { cells[i], cells[j] = cells[j], cells[i] })
	var before *snapshot
	var nonErrMod []string
	for _, cl := range cells {
		if r.abort || ctx.Violations() >= 25 {
			return
		}
		rr, ok := ref[cl.refKey()]
		if !ok && !(cl.cmd.name == "SHUTDOWN" && mode == mNoauth) {
			ctx.Count("cells_not_encodable_for_http", 1)
			continue
		}
		if before == nil {
			if before, err = e.observe(); err != nil {
				ctx.Inconclusive(mode + " observe: " + err.Error())
				if !rebuild("observe failed") {
					return
				}
				continue
			}
		}
		nshr := shrinkEnded(e.s)
		full, out, err := r.issue(e, cl, "")
		if cl.cmd.name == "SHUTDOWN" && po.dev && mode == mNoauth {
			time.Sleep(30 * time.Millisecond)
			if e.s.WaitExit(0) || !e.s.Alive() {
				ctx.Violation(violationKey(mode, cl, "terminated"), fmt.Sprintf("requirepass set, connection not authenticated: %q ended the server process", full), map[string]any{"command": full, "reply": out})
				before = nil
				if !rebuild("server shut down") {
					return
				}
				continue
			}
		}
		if err != nil || !e.s.Alive() {
			_, site := e.s.Crashed()
			ctx.Inconclusive(fmt.Sprintf("%s: %q: %v alive=%v %s", mode, full, err, e.s.Alive(), site))
			before = nil
			if !rebuild("issue failed") {
				return
			}
			continue
		}
		if out.Class == "timeout" && !cl.cmd.live && cl.cmd.name != "QUIT" {
			ctx.Inconclusive(fmt.Sprintf("%s: no reply to %q within %v", mode, full, ioTimeout))
			before = nil
			if !rebuild("reply timeout") {
				return
			}
			continue
		}
		if cl.cmd.name == "AOFSHRINK" && cl.w.outer == "" && out.Class == "ok" {
			if !waitShrink(e.s, nshr) {
				ctx.Inconclusive("AOFSHRINK did not end in 30 s (" + mode + ")")
			}
		}
		after, err := e.observe()
		if err != nil {
			ctx.Inconclusive(mode + " observe: " + err.Error())
			before = nil
			if !rebuild("observe failed") {
				return
			}
			continue
		}
		d, l := diffSnap(before, after)
		ctx.Eval(1)
		ctx.Distinct(mode + devTag(po.dev) + "|" + cl.cmd.name + "|" + cl.w.name + "|" + cl.cb.String())
		ctx.Count("cells_"+mode+devTag(po.dev), 1)
		if !po.dev {
			r.markDriven(mode, cl.cmd)
		}
		replay := map[string]any{"mode": mode, "dataset_state": po.so.state, "transport": cl.cb.transport, "output": cl.cb.output,
			"gate_via_config_file": po.so.preseed, "server_args": po.so.args, "prelude_on_admin_connection": r.lastPre, "command": full, "reply": out, "reply_on_leader": rr.Out, "effect_on_leader": rr.What,
			"dataset_change": d, "log_change": l, "seed": seedCommands(po.so.state)[:min(12, len(seedCommands(po.so.state)))]}
		bad := false
		must := mustRefuse(cl, rr)
		switch mode {
		case mCatchup, mFollower, mReadonly:
			if must {
				ctx.Count("must_refuse_cells_"+mode, 1)
				if out.Class != "err" {
					bad = true
					nonErrMod = append(nonErrMod, strings.Join(full, " "))
					ctx.Violation(violationKey(mode, cl, ""), fmt.Sprintf("%s: data-modifying command %q (on a leader: %s) was not refused: %s %s; dataset change: %q log change: %q",
						mode, full, rr.What, out.Class, out.Text, d, l), replay)
				} else {
					ctx.Count("refused_"+mode, 1)
				}
			}
			if !bad && d != "" {
				bad = true
				ctx.Violation(violationKey(mode, cl, "state-changed"), fmt.Sprintf("%s: %q answered %s %s but the dataset changed: %s", mode, full, out.Class, out.Text, d), replay)
			}
			if !bad && l != "" {
				if cl.cmd.name == "AOFSHRINK" {
					ctx.Count("aofshrink_log_rewrites_not_judged", 1)
				} else if must || out.Class == "err" {
					bad = true
					ctx.Violation(violationKey(mode, cl, "log-changed"), fmt.Sprintf("%s: %q answered %s %s but the log changed: %s", mode, full, out.Class, out.Text, l), replay)
				} else {
					// an accepted command that is not data-modifying on the leader moved the log: evidence only
					ctx.Count("log_moved_by_non_modifying_cells", 1)
				}
			}
			if mode == mCatchup && cl.cmd.objRead {
				ctx.Count("objread_cells_catchup", 1)
				if out.Class != "err" {
					bad = true
					ctx.Violation(violationKey(mode, cl, "read-served"), fmt.Sprintf("follower that never caught up served %q: %s", full, out.Text), replay)
				} else if strings.Contains(out.Text, "catching up to leader") {
					ctx.Count("objread_catching_up_error", 1)
				} else {
					ctx.Count("objread_other_error", 1)
				}
			}
			if mode == mCatchup && cl.cmd.name == "HEALTHZ" && cl.w.name == "plain" {
				ctx.Set("healthz_on_never_caught_up_follower", out)
			}
			if mode == mFollower && cl.cmd.objRead {
				if out.Class == "ok" {
					ctx.Count("reads_served_by_caught_up_follower", 1)
				} else if rr.Out.Class == "ok" {
					ctx.Count("reads_not_served_by_caught_up_follower", 1)
				}
			}
			if cl.w.rebind != "" && must && out.Class == "err" {
				ctx.Count("evalcmd_rebind_cells_refused", 1)
			}
		case mNoauth:
			lenient := cl.cmd.authExempt && (cl.w.outer == "")
			if !lenient {
				ctx.Count("must_refuse_cells_"+mode, 1)
				if out.Class == "ok" {
					bad = true
					ctx.Violation(violationKey(mode, cl, ""), fmt.Sprintf("requirepass set, connection not authenticated: %q got a non-error reply: %s", full, out.Text), replay)
				} else {
					ctx.Count("refused_"+mode, 1)
				}
			} else {
				ctx.Count("exempt_cells_noauth", 1)
				if out.Class == "ok" && (strings.Contains(out.Text, "truck") || strings.Contains(out.Text, "33.5")) {
					bad = true
					ctx.Violation(violationKey(mode, cl, "data"), fmt.Sprintf("unauthenticated %q returned data: %s", full, out.Text), replay)
				}
			}
			if !bad && (d != "" || l != "") {
				bad = true
				ctx.Violation(violationKey(mode, cl, "state-changed"), fmt.Sprintf("unauthenticated %q (reply %s %s) changed the server: %s %s", full, out.Class, out.Text, d, l), replay)
			}
		}
		if cl.w.name == "plain" && cl.cb.transport == "resp" && cl.cb.output == "resp" && cl.cmd.name == "SET" {
			r.sample(mode, map[string]any{"mode": mode, "command": full, "reply": out})
		}
		if cl.w.name == "evalna" && cl.cmd.name == "GET" && cl.cb.transport == "resp" && cl.cb.output == "resp" && mode == mCatchup {
			r.sampled[mode] = 0
			r.sample(mode, map[string]any{"mode": mode, "command": full, "reply": out})
		}
		if bad || d != "" {
			before = nil
			if !rebuild("state changed") {
				return
			}
		} else {
			before = after
		}
	}
	// end of pass: the full dataset of the never-caught-up follower, readable once it follows no one
	if mode == mCatchup && !r.abort {
		r.closeShared()
		if rp, err := e.admin.Do("FOLLOW", "no", "one"); err != nil || rp.IsErr() {
			ctx.Inconclusive(fmt.Sprintf("FOLLOW no one at the end of the pass: %v %s", err, rp.String()))
			return
		}
		st, err := dump.TakeConn(e.admin, dump.Opts{})
		if err != nil {
			ctx.Inconclusive("dump at the end of the catch-up pass: " + err.Error())
			return
		}
		ctx.Count("catchup_end_dumps", 1)
		if st.Canon() != e.seedDump {
			var seedSt dump.State
			json.Unmarshal([]byte(e.seedDump), &seedSt)
			ctx.Violation("gate:follower-catchup:dataset-changed-during-pass", "the dataset of the never-caught-up follower differs from the seeded one after the pass: "+dump.Diff(&seedSt, st),
				map[string]any{"accepted_modifying_commands": nonErrMod, "state": po.so.state})
		}
	}
}

// Run is the C15 check.
func Run(ctx *core.Ctx) {
	ctx.Rule = "command table (commands.json + undocumented dispatcher names, valid arguments on a seeded dataset) x wrappers {plain, TIMEOUT, EVAL/EVALRO/EVALNA and SHA forms, EVAL_CMD rebinding, TIMEOUT+script, script-inner TIMEOUT, pcall} x transports {RESP, RESP with JSON output, HTTP}; each cell is first run on a plain leader from the reseeded dataset (dump + aof_size + file bytes before/after = measured 'data-modifying'), then in every gated mode {follower never caught up, caught-up follower, READONLY, requirepass unauthenticated} with the reply class and dump/aof_size/file bytes compared per cell; wrong-password, run-time password (connections opened, idle or used, before CONFIG SET requirepass) and protected-mode probes separately; a follower throttled in the middle of its first synchronisation is probed with reads and searches while its log is shorter than the leader's. distinct key = (mode, command, wrapper, transport/output)"
	ctx.Assumptions = []string{
		"'data-modifying' is measured, not listed: a cell that changes dump, aof_size or appendonly.aof on the plain leader; AOFSHRINK (rewrites the file, not the dataset) is recorded but not judged",
		"'object reads and searches' = GET FGET JGET SCAN SEARCH NEARBY WITHIN INTERSECTS BOUNDS TTL TYPE KEYS EXISTS FEXISTS and their wrapped forms; any error reply counts as refusal",
		"on a never-caught-up follower KEYS/SCAN/SERVER are refused by design: per cell the STATS fingerprint and the file bytes are compared, the full dump once per pass after FOLLOW no one",
		"a password that differs from requirepass only by surrounding white space is recorded, not judged; a 127.0.0.2 peer is a loopback peer and is recorded, not judged; a server with an explicit bind address (-h) is by the server's own definition not in protected mode",
		"dev-only commands (MASSINSERT SLEEP SHUTDOWN) are driven on a server without --dev (always 'unknown command')",
		"TTLs >= 1000 s, compared by sign",
	}
	bin, err := srv.Build("plain")
	if err != nil {
		ctx.Fatal("%v", err)
	}
	r := &runner{ctx: ctx, bin: bin, table: theTable(), ref: map[int]map[string]refResult{}, sampled: map[string]int{}, driven: map[string]map[string]bool{}}
	for _, w := range wrappers() {
		if w.quick || ctx.Thorough() {
			r.wraps = append(r.wraps, w)
		}
	}
	r.checkTable()

	// which wrappers run under which transport/output
	all := map[string]bool{}
	for _, w := range r.wraps {
		all[w.name] = true
	}
	subset := map[string]bool{"plain": true, "timeout": true, "eval": true, "evalna": true, "evalro": true}
	cbs := []combo{{"resp", "resp"}, {"resp", "json"}, {"http", "json"}}
	wn := map[string]map[string]bool{"resp/resp": all, "resp/json": subset, "http/json": subset}
	states := []int{0}
	if ctx.Thorough() {
		wn["resp/json"], wn["http/json"] = all, all
		cbs = append(cbs, combo{"telnet", "resp"}, combo{"native", "json"})
		wn["telnet/resp"], wn["native/json"] = subset, subset
		states = []int{0, 1, 2}
	}
	password := fmt.Sprintf("S3cret-%04d", ctx.Rng.Intn(10000))

	for _, st := range states {
		if r.abort {
			break
		}
		ctx.Logf("state %d: reference run on a plain leader", st)
		if !r.reference(st, cbs, wn, false) {
			break
		}
		devOK := st == 0 && r.reference(st, cbs[:1], wn, true)
		for _, mode := range []string{mCatchup, mFollower, mReadonly, mNoauth} {
			for _, cb := range cbs {
				if r.abort || ctx.Violations() >= 25 {
					break
				}
				ctx.Logf("state %d: mode %s %s", st, mode, cb)
				so := setupOpts{mode: mode, state: st, password: password}
				// variation of how the gate is configured (thorough: both ways over the states)
				so.preseed = st == 1
				so.hold = st == 2
				if !ctx.Thorough() {
					// quick: the other way of configuring each gate rides on the secondary passes
					so.preseed = cb.transport == "http"
					so.hold = cb.output == "json" && cb.transport == "resp"
				}
				r.pass(passOpts{so: so, cb: cb, wn: wn[cb.String()]})
			}
		}
		if devOK && !r.abort {
			// the dev-only rows on servers started with --dev
			ctx.Logf("dev-only rows on --dev servers")
			for _, mode := range []string{mCatchup, mFollower, mReadonly, mNoauth} {
				if r.abort || ctx.Violations() >= 25 {
					break
				}
				r.pass(passOpts{so: setupOpts{mode: mode, state: st, password: password}, cb: cbs[0], wn: wn["resp/json"], dev: true})
			}
		}
		if st == 0 && !r.abort {
			ctx.Logf("password probes")
			r.passwordProbes(password)
			r.runtimePasswordProbe(password)
			r.readonlySwitchProbe()
			r.partialSyncProbe()
			ctx.Logf("protected mode probes")
			r.protectedProbes(password)
		}
	}

	// exhaustiveness: every row driven in every mode
	exhaustive := !r.abort
	for _, mode := range []string{mLeader, mCatchup, mFollower, mReadonly, mNoauth, mProt} {
		for _, c := range r.table {
			if !r.driven[mode][c.name] {
				exhaustive = false
				ctx.Count("rows_not_driven_"+mode, 1)
			}
		}
	}
	ctx.Set("matrix_exhaustive", exhaustive)
	ctx.Set("table_rows", len(r.table))
	ctx.Set("wrappers", len(r.wraps))
	ctx.Set("dataset_states", len(states))
	ctx.Finish()
}

// checkTable compares the harness table with core/commands.json.
func (r *runner) checkTable() {
	ctx := r.ctx
	b, err := os.ReadFile(filepath.Join(srv.RepoDir, "core", "commands.json"))
	if err != nil {
		ctx.Inconclusive("commands.json: " + err.Error())
		return
	}
	var m map[string]json.RawMessage
	if err := json.Unmarshal(b, &m); err != nil {
		ctx.Inconclusive("commands.json: " + err.Error())
		return
	}
	have := map[string]*cmdSpec{}
	for _, c := range r.table {
		have[c.name] = c
	}
	var missing []string
	for k := range m {
		if have[strings.ToUpper(k)] == nil {
			missing = append(missing, k)
		}
	}
	sort.Strings(missing)
	if len(missing) > 0 {
		ctx.Count("table_out_of_date", int64(len(missing)))
		ctx.Inconclusive("commands of commands.json missing from the harness table: " + strings.Join(missing, ","))
	}
	extra := 0
	for _, c := range r.table {
		if _, ok := m[c.name]; c.documented && !ok {
			extra++
		}
	}
	ctx.Set("commands_json_keys", len(m))
	ctx.Set("table_rows_no_longer_in_commands_json", extra)
}
