package c15

import (
	"encoding/base64"
	"fmt"
	"net"
	"os"
	"strconv"
	"strings"
	"time"

	"verifharness/dump"
	"verifharness/proxy"
	"verifharness/respc"
	"verifharness/srv"
)

// ---- (e) wrong passwords

type wrongPw struct {
	class string
	pw    string
	judge bool // false: borderline, recorded only
	http  bool
}

func wrongPasswords(pw string) []wrongPw {
	return []wrongPw{
		{"other", "wrong", true, true},
		{"lowercase", strings.ToLower(pw), true, true},
		{"uppercase", strings.ToUpper(pw), true, true},
		{"prefix", pw[:len(pw)-1], true, true},
		{"prefix1", pw[:1], true, true},
		{"extension", pw + "x", true, true},
		{"suffix", pw[1:], true, true},
		{"doubled", pw + pw, true, true},
		{"empty", "", true, false},
		{"nul-suffix", pw + "\x00", true, false},
		{"nul-prefix", "\x00" + pw, true, false},
		{"glob", "*", true, true},
		{"quoted", `"` + pw + `"`, true, true},
		{"inner-space", pw[:3] + " " + pw[3:], true, true},
		{"bearer", "Bearer " + pw, true, true},
		{"basic", "Basic " + base64.StdEncoding.EncodeToString([]byte(":"+pw)), true, true},
		// differs only by surrounding white space: the server trims the supplied password; borderline, not judged
		{"ws-both", " " + pw + " ", false, false},
		{"ws-trailing-newline", pw + "\n", false, false},
		{"ws-leading-tab", "\t" + pw, false, false},
	}
}

func (r *runner) passwordProbes(password string) {
	ctx := r.ctx
	variants := []bool{false}
	if ctx.Thorough() {
		variants = []bool{false, true}
	}
	for _, preseed := range variants {
		e, err := setup(r.bin, setupOpts{mode: mNoauth, state: 0, password: password, preseed: preseed})
		if err != nil {
			ctx.Inconclusive("password probe setup: " + err.Error())
			return
		}
		r.passwordProbesOn(e, password, preseed)
		e.close()
	}
}

func (r *runner) passwordProbesOn(e *env, password string, preseed bool) {
	ctx := r.ctx
	base, err := e.observe()
	if err != nil {
		ctx.Inconclusive("password probe observe: " + err.Error())
		return
	}
	read := []string{"GET", "fleet", "truck1"}
	write := []string{"SET", "fleet", "intruder", "POINT", "1", "1"}
	borderline := map[string]string{}
	for _, w := range wrongPasswords(password) {
		for _, form := range []string{"sequential", "pipelined", "noarg-extra"} {
			c, err := dial(e.s.Addr())
			if err != nil {
				ctx.Inconclusive("dial: " + err.Error())
				return
			}
			authCmd := []string{"AUTH", w.pw}
			if form == "noarg-extra" {
				if w.class != "other" {
					c.Close()
					continue
				}
				authCmd = []string{"AUTH"}
			}
			var r1, r2, r3 respc.Reply
			var e1, e2, e3 error
			write := write
			if !w.judge {
				// borderline password: if the server accepts it the probe must not write
				write = []string{"EXISTS", "fleet", "truck1"}
			}
			if form == "pipelined" {
				c.WriteRaw(append(append(respc.Encode(authCmd...), respc.Encode(read...)...), respc.Encode(write...)...))
				r1, e1 = c.Recv()
				r2, e2 = c.Recv()
				r3, e3 = c.Recv()
			} else {
				r1, e1 = c.Do(authCmd...)
				r2, e2 = c.Do(read...)
				r3, e3 = c.Do(write...)
			}
			if e1 != nil || e2 != nil || e3 != nil {
				c.Close()
				ctx.Inconclusive(fmt.Sprintf("password probe i/o: %v %v %v", e1, e2, e3))
				continue
			}
			ctx.Eval(1)
			ctx.Count("wrong_password_cases", 1)
			class := w.class
			if form == "noarg-extra" {
				class = "noarg"
			}
			ctx.Distinct("wrongpw|resp|" + class + "|" + form)
			accepted := !r1.IsErr() || !r2.IsErr() || !r3.IsErr()
			replay := map[string]any{"requirepass": password, "set_via_config_file": preseed, "commands": [][]string{authCmd, read, write},
				"form": form, "replies": []string{r1.String(), r2.String(), r3.String()}}
			if w.judge || form == "noarg-extra" {
				if accepted {
					ctx.Violation("auth:wrong-password-accepted:"+class, fmt.Sprintf("requirepass %q: %q (%s, %s) -> %s, then GET -> %s, SET -> %s",
						password, authCmd, class, form, r1.String(), trunc(r2.String(), 120), r3.String()), replay)
				}
			} else {
				borderline[w.class] = r1.String()
				if accepted {
					ctx.Count("whitespace_padded_password_accepted_not_judged", 1)
				}
			}
			// correct AUTH on the same connection afterwards
			if !accepted {
				r4, e4 := c.Do("AUTH", password)
				r5, e5 := c.Do(read...)
				if e4 == nil && e5 == nil && !r4.IsErr() && !r5.IsErr() {
					ctx.Count("correct_auth_after_failed_auth_works", 1)
				} else {
					ctx.Count("correct_auth_after_failed_auth_fails", 1)
				}
			}
			c.Close()
		}
		if w.http {
			for _, cmd := range [][]string{read, write} {
				h, err := httpDo("", e.s.Addr(), strings.Join(cmd, " "), w.pw, ioTimeout)
				if err != nil {
					ctx.Inconclusive("http password probe: " + err.Error())
					continue
				}
				out := classifyHTTP(h)
				ctx.Eval(1)
				ctx.Count("wrong_password_cases", 1)
				ctx.Distinct("wrongpw|http|" + w.class + "|" + cmd[0])
				if out.Class == "ok" && w.judge {
					ctx.Violation("auth:wrong-password-accepted:http:"+w.class, fmt.Sprintf("requirepass %q: HTTP Authorization: %q (%s) with %q -> %s", password, w.pw, w.class, cmd, out.Text),
						map[string]any{"requirepass": password, "authorization": w.pw, "command": cmd, "status": h.Status, "body": h.Body})
				}
			}
		}
	}
	ctx.Set("whitespace_padded_password_replies", borderline)
	// the whole table (plain) in ONE write on an unauthenticated connection: every reply an error, except the exempt commands
	{
		var cmds []*cmdSpec
		var raw []byte
		for _, cs := range r.table {
			if cs.fresh || cs.live {
				continue
			}
			a, err := r.argsFor(e, cs)
			if err != nil {
				continue
			}
			cmds = append(cmds, cs)
			raw = append(raw, respc.Encode(a...)...)
		}
		if c, err := dial(e.s.Addr()); err == nil {
			c.WriteRaw(raw)
			for _, cs := range cmds {
				rp, err := c.Recv()
				if err != nil {
					ctx.Inconclusive("pipelined unauthenticated table: " + err.Error())
					break
				}
				ctx.Eval(1)
				ctx.Count("noauth_pipelined_cells", 1)
				ctx.Distinct(mNoauth + "|" + cs.name + "|pipelined|resp")
				if !rp.IsErr() && !cs.authExempt {
					ctx.Violation("gate:noauth:"+strings.ToLower(strings.ReplaceAll(cs.name, " ", "-"))+":pipelined", fmt.Sprintf("requirepass set: %s inside an unauthenticated pipeline got %s", cs.name, trunc(rp.String(), 120)),
						map[string]any{"requirepass": password, "pipeline": "every non-streaming row of the table in one write", "command": cs.name, "reply": rp.String()})
				}
			}
			c.Close()
		}
	}
	after, err := e.observe()
	if err != nil {
		ctx.Inconclusive("password probe observe: " + err.Error())
		return
	}
	if d, l := diffSnap(base, after); d != "" || l != "" {
		ctx.Violation("auth:wrong-password-changed-state", "connections with wrong passwords changed the server: "+d+" "+l, map[string]any{"requirepass": password})
	}
	// authenticated side (evidence that the matrix is not vacuous): correct password over RESP and HTTP
	c, err := dial(e.s.Addr())
	if err == nil {
		r1, _ := c.Do("AUTH", password)
		r2, _ := c.Do(read...)
		r3, _ := c.Do("AUTH", "wrong")
		r4, _ := c.Do(read...)
		ctx.Set("authenticated_resp", map[string]string{"AUTH": r1.String(), "GET": trunc(r2.String(), 80), "then AUTH wrong": r3.String(), "then GET (not judged)": trunc(r4.String(), 80)})
		if r1.IsErr() || r2.IsErr() {
			ctx.Inconclusive("the correct password does not authenticate a RESP connection: " + r1.String() + " " + r2.String())
		}
		c.Close()
	}
	h, err := httpDo("", e.s.Addr(), strings.Join(read, " "), password, ioTimeout)
	if err == nil {
		ctx.Set("authenticated_http", trunc(h.Status+" "+h.Body, 160))
		if classifyHTTP(h).Class != "ok" {
			ctx.Inconclusive("the correct Authorization header is not accepted over HTTP: " + h.Body)
		}
	}
	// a new connection after others authenticated is still unauthenticated
	c2, err := dial(e.s.Addr())
	if err == nil {
		r1, err := c2.Do(read...)
		ctx.Eval(1)
		if err == nil && !r1.IsErr() {
			ctx.Violation("auth:leaks-across-connections", "a fresh connection was served after another connection authenticated: "+r1.String(), map[string]any{"requirepass": password})
		}
		c2.Close()
	}
}

// ---- (f) protected mode

func nonLoopbackAddr() string {
	addrs, err := net.InterfaceAddrs()
	if err != nil {
		return ""
	}
	for _, a := range addrs {
		if ipn, ok := a.(*net.IPNet); ok {
			if ip4 := ipn.IP.To4(); ip4 != nil && !ip4.IsLoopback() {
				return ip4.String()
			}
		}
	}
	return ""
}

// readAll reads replies until the peer closes, an error or the timeout.
func readAll(c *respc.Conn, to time.Duration) (replies []respc.Reply, end string) {
	for {
		rp, err := c.RecvTimeout(to)
		if err != nil {
			if respc.IsTimeout(err) {
				return replies, "timeout"
			}
			return replies, "closed"
		}
		replies = append(replies, rp)
		if len(replies) > 16 {
			return replies, "many"
		}
	}
}

func repliesText(rs []respc.Reply) []string {
	var o []string
	for _, r := range rs {
		o = append(o, trunc(r.String(), 60))
	}
	return o
}

func (r *runner) protectedProbes(password string) {
	ctx := r.ctx
	ext := nonLoopbackAddr()
	if ext == "" {
		ctx.Inconclusive("no non-loopback local address: protected mode cannot be exercised")
		return
	}
	// no bind address (-h "" overrides the harness' -h 127.0.0.1), protected mode on, no password
	e, err := setup(r.bin, setupOpts{mode: mLeader, state: 0, args: []string{"--protected-mode", "yes", "-h", ""}})
	if err != nil {
		ctx.Inconclusive("protected mode setup: " + err.Error())
		return
	}
	defer func() { e.close() }()
	e.mode = mProt
	port := e.s.Port
	extAddr := net.JoinHostPort(ext, fmt.Sprint(port))
	base, err := e.observe()
	if err != nil {
		ctx.Inconclusive("protected observe: " + err.Error())
		return
	}
	// loopback peers are served
	if rp, err := e.admin.Do("PING"); err != nil || rp.IsErr() {
		ctx.Inconclusive(fmt.Sprintf("protected server does not serve loopback: %v %s", err, rp.String()))
		return
	}
	ctx.Count("protected_loopback_served", 1)

	// P2: a silent non-loopback peer is denied without having sent anything
	for _, via := range []string{"ext", "alias"} {
		var c *respc.Conn
		if via == "ext" {
			c, err = respc.Dial(extAddr, 5*time.Second)
		} else {
			c, err = respc.DialFrom("127.0.0.2:0", e.s.Addr(), 5*time.Second)
		}
		if err != nil {
			if via == "ext" {
				ctx.Inconclusive("cannot connect to " + extAddr + ": " + err.Error())
				return
			}
			ctx.Set("loopback_alias_127.0.0.2", "cannot connect: "+err.Error())
			continue
		}
		src := c.C.LocalAddr().String()
		rs, end := readAll(c, 1500*time.Millisecond)
		denied := len(rs) > 0 && rs[0].Kind == '-' && strings.HasPrefix(rs[0].Str, "DENIED")
		if via == "alias" {
			// 127.0.0.2 is a loopback address: whatever the server does with it is recorded, not judged
			ctx.Set("loopback_alias_127.0.0.2", map[string]any{"source": src, "denied": denied, "end": end})
			c.Close()
			continue
		}
		ctx.Eval(1)
		ctx.Distinct(mProt + "|silent-connect")
		replay := map[string]any{"server_args": e.s.Opts.Args, "source": src, "dest": extAddr, "replies_before_sending": repliesText(rs), "end": end}
		switch {
		case denied && end == "closed" && len(rs) == 1:
			ctx.Count("protected_denied_before_any_input", 1)
		case len(rs) > 0 && !denied:
			ctx.Violation("protected:non-loopback-not-denied", "non-loopback peer received "+rs[0].String()+" instead of -DENIED", replay)
		case denied:
			ctx.Violation("protected:not-closed-after-denied", "non-loopback peer got -DENIED but the connection stayed open ("+end+")", replay)
		default:
			// nothing arrived: is the server alive, and does the denial arrive once we send?
			if rp, err := e.admin.Do("PING"); err != nil || rp.IsErr() {
				ctx.Inconclusive("protected server unresponsive during the silent-connect probe")
				break
			}
			if end == "closed" {
				ctx.Count("protected_closed_without_text", 1)
				break
			}
			c.Send("SET", "fleet", "intruder", "POINT", "1", "1")
			rs2, end2 := readAll(c, 1500*time.Millisecond)
			replay["replies_after_sending"] = repliesText(rs2)
			if len(rs2) > 0 && !(rs2[0].Kind == '-' && strings.HasPrefix(rs2[0].Str, "DENIED")) {
				ctx.Violation("protected:non-loopback-served", fmt.Sprintf("protected mode: a non-loopback peer was not denied on connect and its SET was answered %s", trunc(rs2[0].String(), 80)), replay)
			} else if len(rs2) > 0 {
				ctx.Violation("protected:input-read-before-denial", fmt.Sprintf("non-loopback peer was not refused while silent (1.5 s, server responsive); after it sent a command it received %s (%s): input is read before the denial",
					trunc(rs2[0].String(), 80), end2), replay)
			} else {
				ctx.Inconclusive("protected: no reply to a non-loopback peer before or after sending")
			}
		}
		c.Close()
	}

	// P3: every command of the table as the first bytes of a non-loopback connection
	v0 := ctx.Violations()
	for _, cs := range r.table {
		if ctx.Violations() >= v0+4 {
			break
		}
		args, err := r.argsFor(e, cs)
		if err != nil {
			ctx.Inconclusive("protected: " + err.Error())
			return
		}
		c, err := respc.Dial(extAddr, 5*time.Second)
		if err != nil {
			ctx.Inconclusive("cannot connect to " + extAddr + ": " + err.Error())
			return
		}
		c.Send(args...)
		rs, end := readAll(c, 1500*time.Millisecond)
		c.Close()
		ctx.Eval(1)
		ctx.Count("cells_"+mProt, 1)
		ctx.Distinct(mProt + "|" + cs.name + "|plain|resp")
		r.markDriven(mProt, cs)
		replay := map[string]any{"server_args": e.s.Opts.Args, "dest": extAddr, "command": args, "replies": repliesText(rs), "end": end}
		served := false
		for _, rp := range rs {
			if !(rp.Kind == '-' && strings.HasPrefix(rp.Str, "DENIED")) {
				served = true
			}
		}
		if served {
			ctx.Violation("protected:non-loopback-served", fmt.Sprintf("protected mode: non-loopback peer sent %q and received %v", args, repliesText(rs)), replay)
		} else if end == "timeout" {
			ctx.Violation("protected:not-closed-after-denied", fmt.Sprintf("protected mode: connection of a non-loopback peer stayed open after %q (%v)", args, repliesText(rs)), replay)
		} else if len(rs) > 0 {
			ctx.Count("protected_denied_text_seen", 1)
		} else {
			ctx.Count("protected_reset_before_text", 1)
		}
		after, err := e.observe()
		if err != nil {
			ctx.Inconclusive("protected observe: " + err.Error())
			return
		}
		if d, l := diffSnap(base, after); d != "" || l != "" {
			ctx.Violation("protected:non-loopback-changed-state", fmt.Sprintf("protected mode: %q from a non-loopback peer changed the server: %s %s", args, d, l), replay)
			base = after
		}
		if cs.name == "SET" {
			r.sample(mProt, replay)
		}
	}
	// P4: HTTP from a non-loopback peer
	for _, line := range []string{"SET fleet intruder POINT 1 1", "GET fleet truck1"} {
		h, err := httpDo("", extAddr, line, noAuthHeader, 1500*time.Millisecond)
		ctx.Eval(1)
		ctx.Distinct(mProt + "|http|" + strings.Fields(line)[0])
		if err == nil && strings.Contains(h.Status, "HTTP/") {
			ctx.Violation("protected:non-loopback-served:http", "protected mode: HTTP request of a non-loopback peer was answered: "+h.Status+" "+trunc(h.Body, 100), map[string]any{"line": line, "dest": extAddr})
		} else {
			ctx.Count("protected_http_refused", 1)
		}
	}
	if after, err := e.observe(); err == nil {
		if d, l := diffSnap(base, after); d != "" || l != "" {
			ctx.Violation("protected:non-loopback-changed-state", "protected mode: HTTP from a non-loopback peer changed the server: "+d+" "+l, nil)
		}
	}

	// not in protected mode (recorded, the statement promises nothing here)
	probe := func(name string, args []string, host string, prep func(c *respc.Conn)) {
		s, err := srv.Start(srv.Opts{Bin: r.bin, Args: args, Host: host})
		if err != nil {
			ctx.Set("unprotected_"+name, "start failed: "+trunc(err.Error(), 120))
			return
		}
		defer s.Kill9()
		if prep != nil {
			c, err := dial("127.0.0.1:" + fmt.Sprint(s.Port))
			if err != nil {
				return
			}
			prep(c)
			c.Close()
		}
		c, err := respc.Dial(net.JoinHostPort(ext, fmt.Sprint(s.Port)), 5*time.Second)
		if err != nil {
			ctx.Set("unprotected_"+name, "connect failed: "+err.Error())
			return
		}
		defer c.Close()
		c.Send("PING")
		rs, end := readAll(c, 700*time.Millisecond)
		ctx.Set("unprotected_"+name, map[string]any{"args": args, "host": host, "replies_to_PING": repliesText(rs), "end": end})
	}
	probe("protected_mode_no", []string{"--protected-mode", "no", "-h", ""}, "", nil)
	probe("password_set", []string{"--protected-mode", "yes", "-h", ""}, "", func(c *respc.Conn) { c.Do("CONFIG", "SET", "requirepass", password) })
	probe("config_protected_mode_no", []string{"--protected-mode", "yes", "-h", ""}, "", func(c *respc.Conn) { c.Do("CONFIG", "SET", "protected-mode", "no") })
	probe("bind_address_0.0.0.0", []string{"--protected-mode", "yes"}, "0.0.0.0", nil)
}

// ---- (g) a password set at run time locks out connections that are already open

// runtimePasswordProbe: connections that were opened (idle, or already used
// for reads and writes) while no password was configured are unauthenticated
// once CONFIG SET requirepass is acknowledged: no data, no change, and a wrong
// AUTH changes nothing about that.
func (r *runner) runtimePasswordProbe(password string) {
	ctx := r.ctx
	s, err := srv.Start(srv.Opts{Bin: r.bin})
	if err != nil {
		ctx.Inconclusive("runtime password probe: " + err.Error())
		return
	}
	defer s.Kill9()
	admin, err := dial(s.Addr())
	if err != nil {
		ctx.Inconclusive("runtime password probe: " + err.Error())
		return
	}
	defer admin.Close()
	admin.Do("SET", "fleet", "truck1", "FIELD", "speed", "10", "POINT", "33", "-112")
	used, err1 := dial(s.Addr())
	idle, err2 := dial(s.Addr())
	if err1 != nil || err2 != nil {
		ctx.Inconclusive("runtime password probe: dial")
		return
	}
	defer used.Close()
	defer idle.Close()
	for _, c := range [][]string{{"PING"}, {"GET", "fleet", "truck1"}, {"SET", "fleet", "early", "POINT", "1", "1"}, {"SCAN", "fleet", "IDS"}, {"EVAL", "return 1", "0"}} {
		used.Do(c...)
	}
	// streaming connections opened while no password was configured
	subc, e1 := dial(s.Addr())
	livec, e2 := dial(s.Addr())
	monc, e3 := dial(s.Addr())
	if e1 == nil && e2 == nil && e3 == nil {
		defer subc.Close()
		defer livec.Close()
		defer monc.Close()
		admin.Do("SETCHAN", "rtchan", "NEARBY", "fleet", "FENCE", "POINT", "33", "-112", "100000")
		subc.Send("SUBSCRIBE", "rtchan")
		subc.RecvTimeout(2 * time.Second)
		livec.Send("NEARBY", "fleet", "FENCE", "POINT", "33", "-112", "100000")
		livec.RecvTimeout(2 * time.Second)
		monc.Send("MONITOR")
		monc.RecvTimeout(2 * time.Second)
	}
	if rp, err := admin.Do("CONFIG", "SET", "requirepass", password); err != nil || rp.IsErr() {
		ctx.Inconclusive("runtime password probe: CONFIG SET requirepass failed")
		return
	}
	admin.Do("AUTH", password)
	if e1 == nil && e2 == nil && e3 == nil {
		admin.Do("SET", "fleet", "secret-after-password", "POINT", "33", "-112")
		for name, sc := range map[string]*respc.Conn{"subscribed-before": subc, "live-fence-before": livec, "monitor-before": monc} {
			leaked := ""
			for {
				rp, err := sc.RecvTimeout(700 * time.Millisecond)
				if err != nil {
					break
				}
				if strings.Contains(rp.String(), "secret-after-password") {
					leaked = trunc(rp.String(), 160)
				}
			}
			ctx.Eval(1)
			ctx.Distinct("runtime-password|" + name)
			if leaked != "" {
				ctx.Violation("auth:open-stream-kept-access:"+name, fmt.Sprintf("a connection that went live before `CONFIG SET requirepass` (%s; never authenticated) received data produced afterwards: %s", name, leaked),
					map[string]any{"connection": name, "received": leaked})
			}
		}
	}
	before, err := dump.Take(s.Addr(), dump.Opts{Password: password})
	if err != nil {
		ctx.Inconclusive("runtime password probe: " + err.Error())
		return
	}
	cmds := [][]string{{"GET", "fleet", "truck1"}, {"SCAN", "fleet", "IDS"}, {"KEYS", "*"}, {"SET", "fleet", "intruder", "POINT", "1", "1"}, {"DEL", "fleet", "truck1"}, {"FSET", "fleet", "truck1", "speed", "99"},
		{"EVAL", "return tile38.call('get','fleet','truck1')", "0"}, {"EVALNA", "return tile38.call('set','fleet','x','point',1,1)", "0"}, {"SERVER"}, {"CONFIG", "GET", "requirepass"}, {"FLUSHDB"}}
	for name, c := range map[string]*respc.Conn{"used-before": used, "idle-before": idle} {
		for round := 0; round < 2; round++ {
			if round == 1 {
				c.Do("AUTH", "wrong-"+password)
			}
			for _, cmd := range cmds {
				rp, err := c.Do(cmd...)
				if err != nil {
					break
				}
				ctx.Eval(1)
				ctx.Distinct("runtime-password|" + name + "|" + cmd[0] + "|" + strconv.Itoa(round))
				if !rp.IsErr() {
					ctx.Violation("auth:open-connection-kept-access:"+name, fmt.Sprintf("a connection opened before `CONFIG SET requirepass` (%s; never authenticated%s) got a non-error reply to %q afterwards: %s", name, map[int]string{0: "", 1: ", one wrong AUTH"}[round], cmd, trunc(rp.String(), 120)),
						map[string]any{"connection": name, "command": cmd, "reply": rp.String()})
					return
				}
			}
		}
	}
	after, err := dump.Take(s.Addr(), dump.Opts{Password: password})
	if err == nil {
		if d := dump.Diff(before, after); d != "" {
			ctx.Violation("auth:open-connection-changed-state", "connections opened before the password was set changed the dataset afterwards: "+d, nil)
		}
	}
}

// ---- (g2) the READONLY switch means what its acknowledgement says

// readonlySwitchProbe: the argument of READONLY is case-insensitive wherever the
// server accepts it. Whenever `READONLY <spelling of yes>` is answered OK the
// server must refuse writes and report read_only; whenever `READONLY <spelling
// of no>` is answered OK writes must work again. A spelling the server rejects
// with an error must leave the switch where it was.
func (r *runner) readonlySwitchProbe() {
	ctx := r.ctx
	s, err := srv.Start(srv.Opts{Bin: r.bin})
	if err != nil {
		ctx.Inconclusive("readonly switch probe: " + err.Error())
		return
	}
	defer s.Kill9()
	c, err := dial(s.Addr())
	if err != nil {
		ctx.Inconclusive("readonly switch probe: " + err.Error())
		return
	}
	defer c.Close()
	c.Do("SET", "fleet", "truck1", "POINT", "33", "-112")
	readonly := false // what the acknowledged switches add up to
	n := 0
	writable := func() (bool, string, error) {
		n++
		rp, err := c.Do("SET", "fleet", fmt.Sprintf("w%d", n), "POINT", "1", "1")
		if err != nil {
			return false, "", err
		}
		return !rp.IsErr(), rp.String(), nil
	}
	for _, sp := range []string{"yes", "no", "YES", "NO", "Yes", "No", "yEs", "nO", "YES", "yes", "NO"} {
		rp, err := c.Do("READONLY", sp)
		if err != nil {
			ctx.Inconclusive("readonly switch probe: " + err.Error())
			return
		}
		if !rp.IsErr() {
			readonly = strings.EqualFold(sp, "yes")
		}
		w, wr, err := writable()
		if err != nil {
			ctx.Inconclusive("readonly switch probe: " + err.Error())
			return
		}
		f, _ := serverFields(c)
		ctx.Eval(1)
		ctx.Distinct("readonly-switch|" + sp + "|" + strconv.FormatBool(rp.IsErr()))
		if w == readonly || (f["read_only"] == "true") != readonly {
			ctx.Violation("gate:readonly-switch-ignored", fmt.Sprintf("`READONLY %s` was answered %s, so the server should be %s; a following SET is answered %s and SERVER reports read_only=%v", sp, trunc(rp.String(), 60), map[bool]string{true: "read-only", false: "writable"}[readonly], trunc(wr, 80), f["read_only"]),
				map[string]any{"argument": sp, "reply": rp.String(), "set_reply": wr, "read_only": f["read_only"]})
			return
		}
	}
}

// ---- (h) a follower in the middle of its first synchronisation

// partialSyncProbe: a follower that has applied some, but not all, of its
// leader's log (the stream is throttled by a proxy) has never caught up: object
// reads and searches are refused while its log is shorter than the leader's.
func (r *runner) partialSyncProbe() {
	ctx := r.ctx
	leader, err := srv.Start(srv.Opts{Bin: r.bin})
	if err != nil {
		ctx.Inconclusive("partial sync probe: " + err.Error())
		return
	}
	defer leader.Kill9()
	lc, err := dial(leader.Addr())
	if err != nil {
		ctx.Inconclusive("partial sync probe: " + err.Error())
		return
	}
	defer lc.Close()
	for i := 0; i < 300; i++ {
		lc.Send("SET", "fleet", "t"+strconv.Itoa(i), "FIELD", "speed", strconv.Itoa(i), "POINT", "33", "-112")
	}
	for i := 0; i < 10; i++ {
		lc.Send("SET", "big", "b"+strconv.Itoa(i), "STRING", strings.Repeat("v", 50000))
	}
	for i := 0; i < 310; i++ {
		if rp, err := lc.Recv(); err != nil || rp.IsErr() {
			ctx.Inconclusive("partial sync probe: leader load")
			return
		}
	}
	time.Sleep(1200 * time.Millisecond)
	size := func(c *respc.Conn) int64 {
		f, err := serverFields(c)
		if err != nil {
			return -1
		}
		n, _ := strconv.ParseInt(f["aof_size"], 10, 64)
		return n
	}
	L := size(lc)
	px, err := proxy.Start(leader.Addr())
	if err != nil {
		ctx.Inconclusive("partial sync probe: " + err.Error())
		return
	}
	defer px.Close()
	px.Throttle(300, 20*time.Millisecond)
	follower, err := srv.Start(srv.Opts{Bin: r.bin})
	if err != nil {
		ctx.Inconclusive("partial sync probe: " + err.Error())
		return
	}
	defer follower.Kill9()
	fc, err := dial(follower.Addr())
	if err != nil {
		ctx.Inconclusive("partial sync probe: " + err.Error())
		return
	}
	defer fc.Close()
	if rp, err := fc.Do("FOLLOW", "127.0.0.1", strconv.Itoa(px.Port())); err != nil || rp.IsErr() {
		ctx.Inconclusive("partial sync probe: FOLLOW failed")
		return
	}
	// a follower that is catching up does not answer SERVER: its progress is read from its log file
	// (written at least once a second, so it never runs ahead of what was applied)
	fsize := func() int64 {
		fi, err := os.Stat(follower.AOFPath())
		if err != nil {
			return -1
		}
		return fi.Size()
	}
	dl := time.Now().Add(15 * time.Second)
	for fsize() <= 0 && time.Now().Before(dl) {
		time.Sleep(20 * time.Millisecond)
	}
	if s0 := fsize(); s0 <= 0 || s0 >= L {
		ctx.Inconclusive(fmt.Sprintf("partial sync probe: follower log %d of %d bytes: no partial state to observe", s0, L))
		return
	}
	reads := [][]string{{"GET", "fleet", "t0"}, {"SCAN", "fleet", "LIMIT", "3", "IDS"}, {"NEARBY", "fleet", "LIMIT", "3", "IDS", "POINT", "33", "-112"}, {"WITHIN", "fleet", "LIMIT", "3", "IDS", "BOUNDS", "30", "-115", "35", "-110"},
		{"INTERSECTS", "fleet", "LIMIT", "3", "IDS", "BOUNDS", "30", "-115", "35", "-110"}, {"SEARCH", "big", "LIMIT", "1", "IDS"}, {"GET", "big", "b9"}, {"GET", "fleet", "t299"},
		{"TEST", "GET", "fleet", "t0", "INTERSECTS", "CLIP", "BOUNDS", "30", "-115", "35", "-110"}, {"TEST", "GET", "fleet", "t0", "WITHIN", "BOUNDS", "30", "-115", "35", "-110"}, {"STATS", "fleet"},
		{"EVALRO", "return tile38.call('get','fleet','t0')", "0"}, {"EVALNA", "return tile38.call('scan','fleet','limit','2','ids')", "0"}}
	// a second follower that caught up once, with another (small) leader, and is then pointed at
	// this one: it has never caught up with its present leader either
	small, err := srv.Start(srv.Opts{Bin: r.bin})
	if err == nil {
		defer small.Kill9()
		f2, err2 := srv.Start(srv.Opts{Bin: r.bin})
		if err2 == nil {
			defer f2.Kill9()
			if sc, err := dial(small.Addr()); err == nil {
				sc.Do("SET", "other", "o1", "POINT", "1", "1")
				sc.Close()
			}
			if c2, err := dial(f2.Addr()); err == nil {
				defer c2.Close()
				sh, sp, _ := net.SplitHostPort(small.Addr())
				c2.Do("FOLLOW", sh, sp)
				ok := false
				for dl2 := time.Now().Add(10 * time.Second); time.Now().Before(dl2); time.Sleep(50 * time.Millisecond) {
					if rp, err := c2.Do("HEALTHZ"); err == nil && rp.String() == "+OK" {
						ok = true
						break
					}
				}
				if ok {
					c2.Do("FOLLOW", "127.0.0.1", strconv.Itoa(px.Port()))
					time.Sleep(1500 * time.Millisecond)
					f2size := func() int64 {
						fi, err := os.Stat(f2.AOFPath())
						if err != nil {
							return -1
						}
						return fi.Size()
					}
					for _, cmd := range reads[:8] {
						s1 := f2size()
						rp, err := c2.Do(cmd...)
						s2 := f2size()
						if err != nil || s2 >= L {
							continue
						}
						ctx.Eval(1)
						ctx.Distinct("partial-sync-after-switch|" + cmd[0] + "|" + cmd[1])
						if !rp.IsErr() {
							ctx.Violation("gate:follower-partial-sync:read-served-after-switch:"+strings.ToLower(cmd[0]), fmt.Sprintf("a follower that had caught up with another leader and was then pointed at this one (own log %d .. %d bytes, leader's %d bytes) answered %q with %s", s1, s2, L, cmd, trunc(rp.String(), 120)),
								map[string]any{"command": cmd, "follower_log_bytes": []int64{s1, s2}, "leader_log_bytes": L})
							return
						}
					}
				}
			}
		}
	}
	for round := 0; round < 3; round++ {
		for _, cmd := range reads {
			s1 := fsize()
			rp, err := fc.Do(cmd...)
			s2 := fsize()
			if err != nil || s1 <= 0 || s2 <= 0 || s2 >= L {
				continue
			}
			ctx.Eval(1)
			ctx.Distinct("partial-sync|" + cmd[0] + "|" + cmd[1])
			if !rp.IsErr() {
				ctx.Violation("gate:follower-partial-sync:read-served:"+strings.ToLower(cmd[0]), fmt.Sprintf("a follower in its first synchronisation (own log %d .. %d bytes, leader's %d bytes) answered %q with %s", s1, s2, L, cmd, trunc(rp.String(), 120)),
					map[string]any{"command": cmd, "follower_log_bytes": []int64{s1, s2}, "leader_log_bytes": L, "reply": rp.String()})
				return
			}
		}
		time.Sleep(150 * time.Millisecond)
	}
}
