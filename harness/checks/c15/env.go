package c15

import (
	"crypto/sha1"
	"encoding/hex"
	"encoding/json"
	"errors"
	"fmt"
	"io"
	"net"
	"os"
	"path/filepath"
	"strconv"
	"strings"
	"sync"
	"time"

	"verifharness/dump"
	"verifharness/respc"
	"verifharness/srv"
)

const ioTimeout = 8 * time.Second

// seedCommands returns the dataset of a state (0 base, 1 rich, 2 sparse/other kinds).
// Everything the command table refers to exists in every state. TTLs are >= 1000 s.
func seedCommands(state int) [][]string {
	var s [][]string
	switch state {
	default:
		s = [][]string{
			{"SET", "fleet", "truck1", "FIELD", "speed", "10", "POINT", "33.5", "-112.2"},
			{"SET", "fleet", "truck2", "FIELD", "speed", "20", "EX", "5000", "POINT", "33.6", "-112.3"},
			{"SET", "fleet", "truck3", "OBJECT", `{"type":"Polygon","coordinates":[[[-112.5,33.1],[-112.1,33.1],[-112.1,33.4],[-112.5,33.4],[-112.5,33.1]]]}`},
			{"SET", "fleet", "j1", "STRING", `{"a":{"b":1},"c":2}`},
			{"SET", "depot", "d1", "POINT", "10", "10"},
			{"SET", "tmp", "t1", "POINT", "1", "1"},
			{"SET", "tmp", "t2", "FIELD", "n", "3", "POINT", "2", "2"},
		}
	case 2:
		s = [][]string{
			{"SET", "fleet", "truck1", "FIELD", "speed", "10", "FIELD", "heading", "270", "OBJECT", `{"type":"LineString","coordinates":[[-112.2,33.5],[-112.25,33.55]]}`},
			{"SET", "fleet", "truck2", "EX", "1500", "BOUNDS", "33.6", "-112.3", "33.7", "-112.2"},
			{"SET", "fleet", "j1", "STRING", `{"a":{"b":1,"list":[1,2,3]},"c":{"d":"x"},"e":null}`},
			{"SET", "tmp", "t1", "STRING", "just a string"},
		}
	}
	if state == 1 {
		for i := 0; i < 200; i++ {
			c := []string{"SET", "bulk", "p" + strconv.Itoa(i), "FIELD", "n", strconv.Itoa(i % 7)}
			if i%10 == 0 {
				c = append(c, "EX", "4000")
			}
			c = append(c, "POINT", strconv.FormatFloat(33+float64(i)*0.01, 'f', -1, 64), strconv.FormatFloat(-112-float64(i%13)*0.01, 'f', -1, 64))
			s = append(s, c)
		}
		for i := 0; i < 20; i++ {
			s = append(s, []string{"SET", "notes", "n" + strconv.Itoa(i), "STRING", "note number " + strconv.Itoa(i)})
		}
		s = append(s, []string{"SETHOOK", "hook3", "http://127.0.0.1:9/h3", "META", "owner", "c15", "WITHIN", "zone", "FENCE", "DETECT", "enter,exit", "BOUNDS", "60", "60", "61", "61"})
		s = append(s, []string{"SETCHAN", "chan3", "EX", "3000", "NEARBY", "zone", "FENCE", "POINT", "65", "65", "100"})
	}
	s = append(s,
		[]string{"SETHOOK", "hook1", "http://127.0.0.1:9/h1", "NEARBY", "zone", "FENCE", "POINT", "80", "80", "10"},
		[]string{"SETCHAN", "chan1", "WITHIN", "zone", "FENCE", "BOUNDS", "70", "70", "71", "71"},
	)
	return s
}

// fingerprintKeys are the keys STATS is asked about where KEYS/SCAN are refused.
var fingerprintKeys = []string{"fleet", "depot", "tmp", "tmp2", "tmp3", "bulk", "notes", "zone", "mi:0"}

// blackhole is a TCP listener owned by the harness that never speaks RESP: it
// either closes accepted connections at once or holds them silently. A follower
// pointed at it can never catch up, and nobody else can take the port.
type blackhole struct {
	ln    net.Listener
	hold  bool
	mu    sync.Mutex
	conns []net.Conn
	n     int
}

func newBlackhole(hold bool) (*blackhole, error) {
	ln, err := net.Listen("tcp", "127.0.0.1:0")
	if err != nil {
		return nil, err
	}
	b := &blackhole{ln: ln, hold: hold}
	go func() {
		for {
			c, err := ln.Accept()
			if err != nil {
				return
			}
			b.mu.Lock()
			b.n++
			if b.hold {
				b.conns = append(b.conns, c)
			} else {
				c.Close()
			}
			b.mu.Unlock()
		}
	}()
	return b, nil
}

func (b *blackhole) port() int { return b.ln.Addr().(*net.TCPAddr).Port }

func (b *blackhole) close() {
	b.ln.Close()
	b.mu.Lock()
	for _, c := range b.conns {
		c.Close()
	}
	b.conns = nil
	b.mu.Unlock()
}

// env is one gated configuration with a seeded dataset.
type env struct {
	mode       string
	state      int
	s          *srv.Server // the gated server
	leader     *srv.Server // mode follower: its leader
	bh         *blackhole
	followPort int
	password   string
	admin      *respc.Conn // authenticated connection to s (preludes, observation)
	ladmin     *respc.Conn // connection to the leader
	seedDump   string      // canonical dump of the seeded dataset (taken on a leader)
	preseeded  bool        // gate configured through the config file instead of a command
}

func (e *env) close() {
	if e == nil {
		return
	}
	if e.admin != nil {
		e.admin.Close()
	}
	if e.ladmin != nil {
		e.ladmin.Close()
	}
	if e.s != nil {
		e.s.Kill9()
	}
	if e.leader != nil {
		e.leader.Kill9()
	}
	if e.bh != nil {
		e.bh.close()
	}
}

func dial(addr string) (*respc.Conn, error) {
	c, err := respc.Dial(addr, 5*time.Second)
	if err != nil {
		return nil, err
	}
	c.Timeout = ioTimeout
	return c, nil
}

// pipeline sends commands and reads all replies; any error reply is returned as an error.
func pipeline(c *respc.Conn, cmds [][]string, mustSucceed bool) error {
	for i := 0; i < len(cmds); i += 64 {
		j := min(i+64, len(cmds))
		for _, a := range cmds[i:j] {
			if err := c.Send(a...); err != nil {
				return err
			}
		}
		for _, a := range cmds[i:j] {
			r, err := c.Recv()
			if err != nil {
				return err
			}
			if mustSucceed && r.IsErr() {
				return fmt.Errorf("seed command %q: %s", a, r.String())
			}
		}
	}
	return nil
}

func seed(c *respc.Conn, state int) error {
	return pipeline(c, seedCommands(state), true)
}

// reseed brings a leader back to the seeded dataset.
func reseed(c *respc.Conn, state int) error {
	if err := pipeline(c, [][]string{{"FLUSHDB"}, {"PDELHOOK", "*"}, {"PDELCHAN", "*"}, {"SCRIPT", "FLUSH"}}, true); err != nil {
		return err
	}
	return seed(c, state)
}

func serverFields(c *respc.Conn) (map[string]string, error) {
	r, err := c.Do("SERVER")
	if err != nil {
		return nil, err
	}
	if r.Kind != '*' {
		return nil, fmt.Errorf("SERVER: %s", r.String())
	}
	m := map[string]string{}
	for i := 0; i+1 < len(r.Arr); i += 2 {
		m[r.Arr[i].Str] = r.Arr[i+1].Text()
	}
	return m, nil
}

func fileSum(path string) (int64, string) {
	f, err := os.Open(path)
	if err != nil {
		return -1, err.Error()
	}
	defer f.Close()
	fi, err := f.Stat()
	if err != nil {
		return -1, err.Error()
	}
	// large logs (the reference leader's grows with every reseed): length + hash of the tail
	const tail = 256 * 1024
	if fi.Size() > 4*tail {
		if _, err := f.Seek(fi.Size()-tail, io.SeekStart); err != nil {
			return -1, err.Error()
		}
	}
	h := sha1.New()
	if _, err := io.Copy(h, f); err != nil {
		return -1, err.Error()
	}
	return fi.Size(), hex.EncodeToString(h.Sum(nil)[:8])
}

// snapshot is what "nothing changed" is judged on.
type snapshot struct {
	Dump     string `json:"-"`
	st       *dump.State
	AofSize  string `json:"aof_size"`
	FileLen  int64  `json:"file_len"`
	FileSum  string `json:"file_sum"`
	Stats    string `json:"stats,omitempty"`
	LDump    string `json:"-"`
	lst      *dump.State
	LAofSize string `json:"leader_aof_size,omitempty"`
	LFileLen int64  `json:"leader_file_len,omitempty"`
	LFileSum string `json:"leader_file_sum,omitempty"`
}

// observe reads the state of the environment through the public interface
// (dump + SERVER aof_size) and the bytes of appendonly.aof. On a follower that
// has never caught up KEYS/SCAN/SERVER are refused by design: there the STATS
// fingerprint and the file stand in, and the full dump is compared when the
// pass is over (after FOLLOW no one).
func (e *env) observe() (*snapshot, error) {
	sn := &snapshot{}
	if e.mode == mCatchup {
		r, err := e.admin.Do(append([]string{"STATS"}, fingerprintKeys...)...)
		if err != nil {
			return nil, err
		}
		sn.Stats = r.String()
	} else {
		st, err := dump.TakeConn(e.admin, dump.Opts{})
		if err != nil {
			return nil, err
		}
		sn.st = st
		sn.Dump = st.Canon()
		f, err := serverFields(e.admin)
		if err != nil {
			return nil, err
		}
		sn.AofSize = f["aof_size"]
	}
	sn.FileLen, sn.FileSum = fileSum(e.s.AOFPath())
	if e.leader != nil {
		st, err := dump.TakeConn(e.ladmin, dump.Opts{})
		if err != nil {
			return nil, err
		}
		sn.lst = st
		sn.LDump = st.Canon()
		f, err := serverFields(e.ladmin)
		if err != nil {
			return nil, err
		}
		sn.LAofSize = f["aof_size"]
		sn.LFileLen, sn.LFileSum = fileSum(e.leader.AOFPath())
	}
	return sn, nil
}

// diffSnap describes what changed between two snapshots: dataset changes and
// log changes separately.
func diffSnap(a, b *snapshot) (data string, logc string) {
	var d, l []string
	if a.Dump != b.Dump && a.st != nil && b.st != nil {
		d = append(d, "dataset: "+dump.Diff(a.st, b.st))
	}
	if a.Stats != b.Stats {
		d = append(d, "STATS fingerprint: "+a.Stats+" -> "+b.Stats)
	}
	if a.LDump != b.LDump && a.lst != nil && b.lst != nil {
		d = append(d, "leader dataset: "+dump.Diff(a.lst, b.lst))
	}
	if a.AofSize != b.AofSize {
		l = append(l, "aof_size "+a.AofSize+" -> "+b.AofSize)
	}
	if a.FileLen != b.FileLen || a.FileSum != b.FileSum {
		l = append(l, fmt.Sprintf("appendonly.aof %d bytes/%s -> %d bytes/%s", a.FileLen, a.FileSum, b.FileLen, b.FileSum))
	}
	if a.LAofSize != b.LAofSize {
		l = append(l, "leader aof_size "+a.LAofSize+" -> "+b.LAofSize)
	}
	if a.LFileLen != b.LFileLen || a.LFileSum != b.LFileSum {
		l = append(l, fmt.Sprintf("leader appendonly.aof %d bytes -> %d bytes", a.LFileLen, b.LFileLen))
	}
	return strings.Join(d, "; "), strings.Join(l, "; ")
}

// stable waits until the log file of a server has the length SERVER reports
// (followers write their log through a buffer that is flushed in the background).
func stable(c *respc.Conn, s *srv.Server) error {
	deadline := time.Now().Add(20 * time.Second)
	for {
		f, err := serverFields(c)
		if err != nil {
			return err
		}
		n, _ := fileSum(s.AOFPath())
		if f["aof_size"] == strconv.FormatInt(n, 10) {
			return nil
		}
		if time.Now().After(deadline) {
			return fmt.Errorf("log file of %s has %d bytes but aof_size is %s for 20 s", s.Addr(), n, f["aof_size"])
		}
		time.Sleep(20 * time.Millisecond)
	}
}

func editConfig(dir string, set map[string]any) error {
	p := filepath.Join(dir, "config")
	m := map[string]any{}
	if b, err := os.ReadFile(p); err == nil && len(b) > 0 {
		if err := json.Unmarshal(b, &m); err != nil {
			return fmt.Errorf("config file %s: %v", p, err)
		}
	}
	for k, v := range set {
		m[k] = v
	}
	b, _ := json.MarshalIndent(m, "", "\t")
	return os.WriteFile(p, b, 0o644)
}

type setupOpts struct {
	mode     string
	state    int
	password string
	preseed  bool // configure the gate through the config file + restart where possible
	hold     bool // blackhole holds connections instead of closing them
	args     []string
}

// setup builds a fresh environment for a mode.
func setup(bin string, o setupOpts) (e *env, err error) {
	e = &env{mode: o.mode, state: o.state, preseeded: o.preseed}
	defer func() {
		if err != nil {
			e.close()
			e = nil
		}
	}()
	s, err := srv.Start(srv.Opts{Bin: bin, Args: o.args})
	if err != nil {
		return e, err
	}
	e.s = s
	c, err := dial(s.Addr())
	if err != nil {
		return e, err
	}
	e.admin = c
	if o.mode == mFollower {
		// s becomes the follower; the seed goes to a separate leader
		l, err := srv.Start(srv.Opts{Bin: bin, Args: o.args})
		if err != nil {
			return e, err
		}
		e.leader = l
		lc, err := dial(l.Addr())
		if err != nil {
			return e, err
		}
		e.ladmin = lc
		if err := seed(lc, o.state); err != nil {
			return e, err
		}
		st, err := dump.TakeConn(lc, dump.Opts{})
		if err != nil {
			return e, err
		}
		e.seedDump = st.Canon()
		e.followPort = l.Port
		if r, err := c.Do("FOLLOW", "127.0.0.1", strconv.Itoa(l.Port)); err != nil || r.IsErr() {
			return e, fmt.Errorf("FOLLOW: %v %s", err, r.String())
		}
		deadline := time.Now().Add(30 * time.Second)
		for {
			f, err := serverFields(c)
			if err == nil && f["caught_up"] == "true" {
				lf, err2 := serverFields(lc)
				if err2 == nil && lf["aof_size"] == f["aof_size"] {
					break
				}
			}
			if time.Now().After(deadline) {
				return e, fmt.Errorf("follower did not catch up in 30 s: %v %v", f, err)
			}
			time.Sleep(10 * time.Millisecond)
		}
		if err := stable(c, s); err != nil {
			return e, err
		}
		if err := stable(lc, l); err != nil {
			return e, err
		}
		return e, nil
	}
	if err := seed(c, o.state); err != nil {
		return e, err
	}
	st, err := dump.TakeConn(c, dump.Opts{})
	if err != nil {
		return e, err
	}
	e.seedDump = st.Canon()
	restart := func(pw string) error {
		c.Close()
		e.admin = nil
		if !s.Term(10 * time.Second) {
			return errors.New("server did not stop on SIGTERM")
		}
		return nil
	}
	switch o.mode {
	case mLeader:
	case mReadonly:
		if o.preseed {
			if err := restart(""); err != nil {
				return e, err
			}
			if err := editConfig(s.Dir, map[string]any{"read_only": true}); err != nil {
				return e, err
			}
			ns, err := srv.Start(srv.Opts{Bin: bin, Dir: s.Dir, Args: o.args})
			if err != nil {
				return e, err
			}
			e.s = ns
			if e.admin, err = dial(ns.Addr()); err != nil {
				return e, err
			}
		} else if r, err := c.Do("READONLY", "yes"); err != nil || r.IsErr() {
			return e, fmt.Errorf("READONLY yes: %v %s", err, r.String())
		}
		f, err := serverFields(e.admin)
		if err != nil {
			return e, err
		}
		if f["read_only"] != "true" {
			return e, fmt.Errorf("server does not report read_only: %v", f["read_only"])
		}
	case mNoauth:
		e.password = o.password
		if o.preseed {
			if err := restart(""); err != nil {
				return e, err
			}
			if err := editConfig(s.Dir, map[string]any{"requirepass": o.password}); err != nil {
				return e, err
			}
			ns, err := srv.Start(srv.Opts{Bin: bin, Dir: s.Dir, Args: o.args, Password: o.password})
			if err != nil {
				return e, err
			}
			e.s = ns
			if e.admin, err = dial(ns.Addr()); err != nil {
				return e, err
			}
		} else if r, err := c.Do("CONFIG", "SET", "requirepass", o.password); err != nil || r.IsErr() {
			return e, fmt.Errorf("CONFIG SET requirepass: %v %s", err, r.String())
		}
		if r, err := e.admin.Do("AUTH", o.password); err != nil || r.IsErr() {
			return e, fmt.Errorf("the correct password does not authenticate: %v %s", err, r.String())
		}
	case mCatchup:
		// FOLLOW refuses a leader it cannot talk to, so the follower state comes from the config file
		if err := restart(""); err != nil {
			return e, err
		}
		bh, err := newBlackhole(o.hold)
		if err != nil {
			return e, err
		}
		e.bh = bh
		e.followPort = bh.port()
		if err := editConfig(s.Dir, map[string]any{"follow_host": "127.0.0.1", "follow_port": bh.port()}); err != nil {
			return e, err
		}
		ns, err := srv.Start(srv.Opts{Bin: bin, Dir: s.Dir, Args: o.args})
		if err != nil {
			return e, err
		}
		e.s = ns
		if e.admin, err = dial(ns.Addr()); err != nil {
			return e, err
		}
		// really in the wanted state?
		r, err := e.admin.Do("SERVER")
		if err != nil {
			return e, err
		}
		if !r.IsErr() || !strings.Contains(r.Str, "catching up") {
			return e, fmt.Errorf("pre-seeded follower answers SERVER with %s (expected the catching-up error)", r.String())
		}
	}
	if e.mode != mCatchup {
		if err := stable(e.admin, e.s); err != nil {
			return e, err
		}
	}
	return e, nil
}

// ---- HTTP transport

type httpResult struct {
	Status string
	Body   string
}

// httpDo sends one command as an HTTP POST (command line in the body) and
// reads the response until the server closes.
func httpDo(local, addr, line, auth string, timeout time.Duration) (httpResult, error) {
	d := net.Dialer{Timeout: 5 * time.Second}
	if local != "" {
		la, err := net.ResolveTCPAddr("tcp", local)
		if err != nil {
			return httpResult{}, err
		}
		d.LocalAddr = la
	}
	c, err := d.Dial("tcp", addr)
	if err != nil {
		return httpResult{}, err
	}
	defer c.Close()
	c.SetDeadline(time.Now().Add(timeout))
	var sb strings.Builder
	sb.WriteString("POST / HTTP/1.1\r\nHost: t\r\n")
	if auth != "\x00" {
		sb.WriteString("Authorization: " + auth + "\r\n")
	}
	sb.WriteString("Content-Length: " + strconv.Itoa(len(line)) + "\r\n\r\n")
	sb.WriteString(line)
	if _, err := io.WriteString(c, sb.String()); err != nil {
		return httpResult{}, err
	}
	// read until the server closes or a complete HTTP response has arrived
	var b []byte
	buf := make([]byte, 32*1024)
	for {
		n, rerr := c.Read(buf)
		b = append(b, buf[:n]...)
		if i := strings.Index(string(b), "\r\n\r\n"); i >= 0 {
			head := strings.ToLower(string(b[:i]))
			if j := strings.Index(head, "content-length:"); j >= 0 {
				rest := strings.TrimSpace(head[j+len("content-length:"):])
				if k := strings.IndexAny(rest, "\r\n"); k >= 0 {
					rest = rest[:k]
				}
				if cl, perr := strconv.Atoi(strings.TrimSpace(rest)); perr == nil && len(b)-(i+4) >= cl {
					break
				}
			}
		}
		if rerr != nil {
			err = rerr
			break
		}
	}
	if len(b) == 0 && err != nil {
		return httpResult{}, err
	}
	txt := string(b)
	var res httpResult
	if i := strings.Index(txt, "\r\n"); i >= 0 {
		res.Status = txt[:i]
	}
	if i := strings.Index(txt, "\r\n\r\n"); i >= 0 {
		res.Body = strings.TrimSpace(txt[i+4:])
	} else {
		res.Body = txt
	}
	return res, nil
}

const noAuthHeader = "\x00"
