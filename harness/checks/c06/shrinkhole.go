package c06

import (
	"fmt"
	"net"
	"time"

	"verifharness/core"
	"verifharness/respc"
	"verifharness/srv"
)

// runShrinkTwice: a caught-up follower, same-length in-place updates on the
// leader, and a second AOFSHRINK. Both logs are then rewritten images that
// differ only inside a few records; the follower re-synchronises by comparing
// some 512 KiB windows. Afterwards (leader quiescent, follower healthy) the
// updated objects must read the same on both.
func runShrinkTwice(ctx *core.Ctx, bin string, upd []int) {
	leader, err := srv.Start(srv.Opts{Bin: bin})
	if err != nil {
		ctx.Inconclusive(err.Error())
		return
	}
	defer leader.Kill9()
	follower, err := srv.Start(srv.Opts{Bin: bin})
	if err != nil {
		ctx.Inconclusive(err.Error())
		return
	}
	defer follower.Kill9()
	lc, err := dial(leader)
	if err != nil {
		ctx.Inconclusive(err.Error())
		return
	}
	defer lc.Close()
	lc.Timeout = 60 * time.Second
	const n = 20000
	id := func(i int) string { return fmt.Sprintf("id%06d", i) }
	for i := 0; i < n; i++ {
		lc.Send("SET", "fleet", id(i), "POINT", fmt.Sprintf("33.%05d", i), "-115")
	}
	for i := 0; i < n; i++ {
		if r, err := lc.Recv(); err != nil || r.IsErr() {
			ctx.Inconclusive("shrink-twice: load failed")
			return
		}
	}
	shrink := func() bool {
		if r, err := lc.Do("AOFSHRINK"); err != nil || r.IsErr() {
			return false
		}
		dl := time.Now().Add(60 * time.Second)
		time.Sleep(300 * time.Millisecond)
		for time.Now().Before(dl) {
			if r, err := lc.Do("INFO", "persistence"); err == nil && !containsStr(r.Text(), "aof_rewrite_in_progress:1") {
				return true
			}
			time.Sleep(100 * time.Millisecond)
		}
		return false
	}
	if !shrink() {
		ctx.Inconclusive("shrink-twice: first AOFSHRINK did not finish")
		return
	}
	fc, err := dial(follower)
	if err != nil {
		ctx.Inconclusive(err.Error())
		return
	}
	defer fc.Close()
	fc.Timeout = 30 * time.Second
	host, port, _ := net.SplitHostPort(leader.Addr())
	if r, err := fc.Do("FOLLOW", host, port); err != nil || r.IsErr() {
		ctx.Inconclusive("shrink-twice: FOLLOW failed")
		return
	}
	healthy := func(limit time.Duration) bool {
		dl := time.Now().Add(limit)
		for time.Now().Before(dl) {
			c, err := respc.Dial(follower.Addr(), time.Second)
			if err == nil {
				c.Timeout = 5 * time.Second
				r, err := c.Do("HEALTHZ")
				c.Close()
				if err == nil && r.String() == "+OK" {
					return true
				}
			}
			time.Sleep(100 * time.Millisecond)
		}
		return false
	}
	if !healthy(30 * time.Second) {
		ctx.Inconclusive("shrink-twice: follower did not catch up")
		return
	}
	// same-length in-place updates spread over the log
	for _, i := range upd {
		if r, err := lc.Do("SET", "fleet", id(i), "POINT", fmt.Sprintf("34.%05d", i), "-115"); err != nil || r.IsErr() {
			ctx.Inconclusive("shrink-twice: update failed")
			return
		}
	}
	time.Sleep(1200 * time.Millisecond) // streamed and applied
	if !shrink() {
		ctx.Inconclusive("shrink-twice: second AOFSHRINK did not finish")
		return
	}
	time.Sleep(1500 * time.Millisecond) // the rewrite drops the replication connection; the follower reconnects
	if !healthy(60 * time.Second) {
		if !leader.Alive() || !follower.Alive() {
			ctx.Violation("replication-crash:shrink-twice", "a process died after the leader's second rewrite", map[string]any{"leader_stderr": leader.StderrTail(1500), "follower_stderr": follower.StderrTail(1500)})
			return
		}
		// bounded progress, as in the generated scenarios: the leader has been quiescent for a minute
		ctx.Violation("never-healthy:after-second-rewrite", fmt.Sprintf("leader with 20000 objects, AOFSHRINK, caught-up follower, same-length updates %v, AOFSHRINK again: the follower does not report healthy within 60 s of the quiescent leader's second rewrite; follower log: %s", upd, clipStr(follower.StderrTail(600), 600)), map[string]any{"updates": upd})
		return
	}
	time.Sleep(500 * time.Millisecond)
	c2, err := dial(follower)
	if err != nil {
		ctx.Inconclusive(err.Error())
		return
	}
	defer c2.Close()
	ctx.Eval(1)
	ctx.Count("shrink_twice_objects_compared", int64(len(upd)))
	ctx.Distinct(fmt.Sprintf("shrink-twice|inplace-updates|%v", upd))
	var stale []string
	for _, i := range upd {
		lr, e1 := lc.Do("GET", "fleet", id(i))
		fr, e2 := c2.Do("GET", "fleet", id(i))
		if e1 != nil || e2 != nil {
			ctx.Inconclusive("shrink-twice: read failed")
			return
		}
		if lr.String() != fr.String() {
			stale = append(stale, fmt.Sprintf("%s: leader %s, follower %s", id(i), lr.String(), fr.String()))
		}
	}
	if len(stale) > 0 {
		ctx.Violation("stale-after-second-shrink", fmt.Sprintf("leader: %d objects, AOFSHRINK, follower caught up, %d same-length in-place updates, AOFSHRINK again; the follower re-synchronised, reports healthy, and serves old values for %d of the updated objects while the leader is quiescent: %s", n, len(upd), len(stale), stale[0]),
			map[string]any{"scenario": "shrink-twice", "updated_ids": upd, "stale": stale})
	}
}

func containsStr(s, sub string) bool {
	for i := 0; i+len(sub) <= len(s); i++ {
		if s[i:i+len(sub)] == sub {
			return true
		}
	}
	return false
}

// runStraddle: one rewrite is enough when a record straddles the end of the
// last 512 KiB window that still compares equal. 200 string objects of 8 KiB in
// the spelling of the rewrite; the record across the 512 KiB mark is overwritten
// with a value of the same length that differs only behind the mark, its
// successor is deleted (so everything behind moves), AOFSHRINK, the follower
// re-synchronises. It must not keep the tail of its own old record: what lies
// behind the compared window was never compared.
func runStraddle(ctx *core.Ctx, bin string) {
	leader, err := srv.Start(srv.Opts{Bin: bin})
	if err != nil {
		ctx.Inconclusive(err.Error())
		return
	}
	defer leader.Kill9()
	follower, err := srv.Start(srv.Opts{Bin: bin})
	if err != nil {
		ctx.Inconclusive(err.Error())
		return
	}
	defer follower.Kill9()
	lc, e1 := dial(leader)
	fc, e2 := dial(follower)
	if e1 != nil || e2 != nil {
		ctx.Inconclusive("straddle: dial")
		return
	}
	defer lc.Close()
	defer fc.Close()
	lc.Timeout = 60 * time.Second
	host, port, _ := net.SplitHostPort(leader.Addr())
	if r, err := fc.Do("FOLLOW", host, port); err != nil || r.IsErr() {
		ctx.Inconclusive("straddle: FOLLOW failed")
		return
	}
	r := ctx.SubRng(4242)
	payload := func(n int) string {
		const abc = "abcdefghijklmnopqrstuvwxyzABCDEFGHIJKLMNOPQRSTUVWXYZ0123456789"
		b := make([]byte, n)
		for i := range b {
			b[i] = abc[r.Intn(len(abc))]
		}
		return string(b)
	}
	const n, size, block = 200, 8192, 512 * 1024
	vals := make([]string, n)
	off, straddle := 0, -1
	for i := 0; i < n; i++ {
		vals[i] = payload(size)
		cmd := []string{"set", "k", fmt.Sprintf("id%04d", i), "string", vals[i]}
		l := len(respc.Encode(cmd...))
		if off < block && off+l > block {
			straddle = i
		}
		off += l
		if rp, err := lc.Do(cmd...); err != nil || rp.IsErr() {
			ctx.Inconclusive("straddle: load failed")
			return
		}
	}
	if straddle < 0 {
		ctx.Inconclusive("straddle: no record across the 512 KiB mark")
		return
	}
	if ok, why := quiescentCopy(leader, follower, 30*time.Second); !ok {
		ctx.Inconclusive("straddle: first synchronisation: " + why)
		return
	}
	id := fmt.Sprintf("id%04d", straddle)
	newval := vals[straddle][:size-1000] + payload(1000)
	lc.Do("set", "k", id, "string", newval)
	lc.Do("del", "k", fmt.Sprintf("id%04d", straddle+1))
	if ok, why := quiescentCopy(leader, follower, 30*time.Second); !ok {
		ctx.Inconclusive("straddle: the overwrite did not arrive: " + why)
		return
	}
	if rp, err := lc.Do("AOFSHRINK"); err != nil || rp.IsErr() {
		ctx.Inconclusive("straddle: AOFSHRINK refused")
		return
	}
	time.Sleep(300 * time.Millisecond)
	for dl := time.Now().Add(60 * time.Second); time.Now().Before(dl); time.Sleep(100 * time.Millisecond) {
		if rp, err := lc.Do("INFO", "persistence"); err == nil && !containsStr(rp.Text(), "aof_rewrite_in_progress:1") {
			break
		}
	}
	time.Sleep(1500 * time.Millisecond) // the rewrite drops the replication connection; the follower reconnects
	ctx.Eval(1)
	ctx.Distinct("straddle-after-rewrite")
	if ok, why := quiescentCopy(leader, follower, 40*time.Second); !ok {
		ctx.Violation("stale-straddling-record", fmt.Sprintf("200 strings of 8 KiB, the record across the 512 KiB mark (%s) overwritten with a value of the same length that differs only in its last 1000 bytes, its successor deleted, AOFSHRINK: the re-synchronised follower is not a copy: %s", id, clipStr(why, 400)), map[string]any{"scenario": "straddle", "id": id})
	}
}
