package c06

import (
	"fmt"
	"net"
	"strconv"
	"strings"
	"time"

	"verifharness/core"
	"verifharness/dump"
	"verifharness/proxy"
	"verifharness/respc"
	"verifharness/srv"
)

func followerHealthy(f *srv.Server, limit time.Duration) bool {
	dl := time.Now().Add(limit)
	for time.Now().Before(dl) {
		c, err := respc.Dial(f.Addr(), time.Second)
		if err == nil {
			c.Timeout = 5 * time.Second
			r, err := c.Do("HEALTHZ")
			c.Close()
			if err == nil && r.String() == "+OK" {
				return true
			}
		}
		time.Sleep(50 * time.Millisecond)
	}
	return false
}

// quiescentCopy waits until the follower reports healthy and equals its (quiescent) leader.
func quiescentCopy(leader, follower *srv.Server, limit time.Duration) (bool, string) {
	dl := time.Now().Add(limit)
	diff := "follower never reported healthy"
	for time.Now().Before(dl) {
		if followerHealthy(follower, 2*time.Second) {
			l, e1 := dump.Take(leader.Addr(), dump.Opts{})
			f, e2 := dump.Take(follower.Addr(), dump.Opts{})
			if e1 == nil && e2 == nil {
				if diff = dump.Diff(l, f); diff == "" {
					return true, ""
				}
			}
		}
		time.Sleep(150 * time.Millisecond)
	}
	return false, diff
}

// runSwitchLeader: a caught-up follower is pointed at another leader while the
// old one is still alive and writes again. Whatever the old leader sends after
// the switch must not reach the follower: once healthy, it equals the new
// (quiescent) leader.
func runSwitchLeader(ctx *core.Ctx, bin string) {
	var servers []*srv.Server
	defer func() {
		for _, s := range servers {
			s.Kill9()
		}
	}()
	start := func() *srv.Server {
		s, err := srv.Start(srv.Opts{Bin: bin})
		if err != nil {
			return nil
		}
		servers = append(servers, s)
		return s
	}
	l1, l2, f := start(), start(), start()
	if l1 == nil || l2 == nil || f == nil {
		ctx.Inconclusive("switch-leader: server start")
		return
	}
	c1, e1 := dial(l1)
	c2, e2 := dial(l2)
	fc, e3 := dial(f)
	if e1 != nil || e2 != nil || e3 != nil {
		ctx.Inconclusive("switch-leader: dial")
		return
	}
	defer c1.Close()
	defer c2.Close()
	defer fc.Close()
	for i := 0; i < 40; i++ {
		c1.Do("SET", "one", "a"+strconv.Itoa(i), "POINT", "1", strconv.Itoa(i))
		c2.Do("SET", "two", "b"+strconv.Itoa(i), "FIELD", "f", strconv.Itoa(i), "POINT", "2", strconv.Itoa(i))
	}
	c2.Do("SETCHAN", "ch2", "NEARBY", "two", "FENCE", "POINT", "2", "2", "100")
	time.Sleep(1100 * time.Millisecond)
	h1, p1, _ := net.SplitHostPort(l1.Addr())
	h2, p2, _ := net.SplitHostPort(l2.Addr())
	if r, err := fc.Do("FOLLOW", h1, p1); err != nil || r.IsErr() {
		ctx.Inconclusive("switch-leader: FOLLOW failed")
		return
	}
	if ok, why := quiescentCopy(l1, f, 20*time.Second); !ok {
		ctx.Inconclusive("switch-leader: first synchronisation: " + why)
		return
	}
	for round := 0; round < 6; round++ {
		to, th, tp := l2, h2, p2
		old := c1
		if round%2 == 1 {
			to, th, tp = l1, h1, p1
			old = c2
		}
		if r, err := fc.Do("FOLLOW", th, tp); err != nil || r.IsErr() {
			ctx.Inconclusive("switch-leader: FOLLOW failed")
			return
		}
		// the old leader writes again, right after the switch was acknowledged
		for i := 0; i < 3; i++ {
			old.Do("SET", "stale", fmt.Sprintf("r%d-%d", round, i), "POINT", "9", "9")
		}
		ok, why := quiescentCopy(to, f, 20*time.Second)
		ctx.Eval(1)
		ctx.Distinct("switch-leader|round" + strconv.Itoa(round%2))
		if !ok {
			ctx.Violation("switch-leader-diff", fmt.Sprintf("a follower pointed from one live leader to another (round %d; the old leader wrote three more commands right after the FOLLOW was acknowledged) reports healthy and differs from its new, quiescent leader (A=leader B=follower): %s", round, why),
				map[string]any{"scenario": "switch-leader", "round": round})
			return
		}
	}
}

// runTTLAcrossOutage: an object's deadline passes on the follower while the
// replication link is down and the leader has meanwhile made the object
// permanent. After the link returns and the follower reports healthy it must
// hold the object, like its leader; the same after a follower restart.
func runTTLAcrossOutage(ctx *core.Ctx, bin string, drop bool) {
	leader, err := srv.Start(srv.Opts{Bin: bin})
	if err != nil {
		ctx.Inconclusive("ttl-outage: " + err.Error())
		return
	}
	defer leader.Kill9()
	follower, err := srv.Start(srv.Opts{Bin: bin})
	if err != nil {
		ctx.Inconclusive("ttl-outage: " + err.Error())
		return
	}
	defer func() { follower.Kill9() }()
	px, err := proxy.Start(leader.Addr())
	if err != nil {
		ctx.Inconclusive("ttl-outage: " + err.Error())
		return
	}
	defer px.Close()
	lc, e1 := dial(leader)
	fc, e2 := dial(follower)
	if e1 != nil || e2 != nil {
		ctx.Inconclusive("ttl-outage: dial")
		return
	}
	defer lc.Close()
	for i := 0; i < 20; i++ {
		lc.Do("SET", "fleet", "p"+strconv.Itoa(i), "POINT", "1", strconv.Itoa(i))
	}
	if r, err := fc.Do("FOLLOW", "127.0.0.1", strconv.Itoa(px.Port())); err != nil || r.IsErr() {
		ctx.Inconclusive("ttl-outage: FOLLOW failed")
		return
	}
	fc.Close()
	if ok, why := quiescentCopy(leader, follower, 20*time.Second); !ok {
		ctx.Inconclusive("ttl-outage: first synchronisation: " + why)
		return
	}
	for i := 0; i < 6; i++ {
		lc.Do("SET", "fleet", "t"+strconv.Itoa(i), "EX", "2.5", "FIELD", "n", strconv.Itoa(i), "POINT", "3", strconv.Itoa(i))
	}
	time.Sleep(400 * time.Millisecond) // streamed
	px.Pause()
	if drop {
		px.DropAll()
	}
	for i := 0; i < 6; i++ {
		if i%2 == 0 {
			lc.Do("PERSIST", "fleet", "t"+strconv.Itoa(i))
		} else {
			lc.Do("EXPIRE", "fleet", "t"+strconv.Itoa(i), "5000")
		}
	}
	time.Sleep(3200 * time.Millisecond) // the original deadlines pass on the follower
	px.Resume()
	ok, why := quiescentCopy(leader, follower, 25*time.Second)
	ctx.Eval(1)
	ctx.Distinct(fmt.Sprintf("ttl-across-outage|reconnect|drop=%v", drop))
	if !ok {
		how := "was down (connection dropped)"
		key := "ttl-outage-diff"
		if !drop {
			how = "was stalled (bytes held back for 3.2 s, connection kept)"
			key = "ttl-stall-diff"
		}
		ctx.Violation(key, "objects with a 2.5 s lifetime were made permanent (PERSIST / EXPIRE 5000) on the leader while the replication link "+how+" and their first deadline passed on the follower; afterwards the follower reports healthy and differs from its quiescent leader (A=leader B=follower): "+why,
			map[string]any{"scenario": "ttl-across-outage", "connection_dropped": drop})
		return
	}
	follower.Term(10 * time.Second)
	nf, err := follower.Restart()
	if err != nil {
		ctx.Violation("follower-restart-fails", "follower does not restart after the outage scenario: "+err.Error(), nil)
		return
	}
	follower = nf
	ok, why = quiescentCopy(leader, follower, 25*time.Second)
	ctx.Eval(1)
	ctx.Distinct(fmt.Sprintf("ttl-across-outage|restart|drop=%v", drop))
	if !ok {
		ctx.Violation("ttl-outage-diff:after-restart", "the same scenario, after a restart of the follower: "+why, map[string]any{"scenario": "ttl-across-outage"})
	}
}

// runStarValue: the last command in the follower's log carries text that looks
// like the start of a command (`*0\r\n`, `*1\r\n$1\r\na\r\n`) inside a value. A
// reconnect (dropped connection, leader restart) must find the log intact.
func runStarValue(ctx *core.Ctx, bin string) {
	leader, err := srv.Start(srv.Opts{Bin: bin})
	if err != nil {
		ctx.Inconclusive("star-value: " + err.Error())
		return
	}
	defer func() { leader.Kill9() }()
	follower, err := srv.Start(srv.Opts{Bin: bin})
	if err != nil {
		ctx.Inconclusive("star-value: " + err.Error())
		return
	}
	defer follower.Kill9()
	px, err := proxy.Start(leader.Addr())
	if err != nil {
		ctx.Inconclusive("star-value: " + err.Error())
		return
	}
	defer px.Close()
	lc, e1 := dial(leader)
	fc, e2 := dial(follower)
	if e1 != nil || e2 != nil {
		ctx.Inconclusive("star-value: dial")
		return
	}
	defer func() { lc.Close() }()
	lc.Do("SET", "k", "a", "POINT", "1", "2")
	if r, err := fc.Do("FOLLOW", "127.0.0.1", strconv.Itoa(px.Port())); err != nil || r.IsErr() {
		ctx.Inconclusive("star-value: FOLLOW failed")
		return
	}
	fc.Close()
	if ok, why := quiescentCopy(leader, follower, 20*time.Second); !ok {
		ctx.Inconclusive("star-value: first synchronisation: " + why)
		return
	}
	values := []string{"price list *0\r\nsecond line", "*1\r\n$1\r\na\r\n", "x\r\n*3\r\n$3\r\nSET\r\n$1\r\nk\r\n", "tail *2\r\n"}
	for i, v := range values {
		lc.Do("SET", "k", "star"+strconv.Itoa(i), "STRING", v)
		time.Sleep(400 * time.Millisecond) // streamed and applied: the follower's log ends with this command
		what := "the replication connection was dropped"
		if i%2 == 0 {
			px.DropAll()
		} else {
			what = "the leader was restarted"
			lc.Close()
			leader.Term(10 * time.Second)
			nl, err := leader.Restart()
			if err != nil {
				ctx.Inconclusive("star-value: leader restart: " + err.Error())
				return
			}
			leader = nl
			px.SetTarget(leader.Addr())
			if lc, err = dial(leader); err != nil {
				ctx.Inconclusive("star-value: dial")
				return
			}
		}
		time.Sleep(1500 * time.Millisecond)
		ctx.Eval(1)
		ctx.Distinct("star-value|" + strconv.Itoa(i))
		if !follower.Alive() {
			_, site := follower.Crashed()
			ctx.Violation("replication-crash:follower:last-command-with-star", fmt.Sprintf("the follower's log ended with `SET k star%d STRING %q` and %s: the follower process exited (%s); stderr: %s", i, v, what, site, clipStr(follower.StderrTail(600), 600)),
				map[string]any{"last_leader_command": []string{"SET", "k", "star" + strconv.Itoa(i), "STRING", v}, "then": what})
			return
		}
		if ok, why := quiescentCopy(leader, follower, 25*time.Second); !ok {
			ctx.Violation("star-value-diff", fmt.Sprintf("after `SET k star%d STRING %q` and %s the follower does not become a healthy copy again: %s", i, v, what, why), nil)
			return
		}
	}
}

func clipStr(s string, n int) string {
	if len(s) > n {
		return s[len(s)-n:]
	}
	return s
}

// runStalledSwitch: the follower's connection to its old leader is stalled
// (the reply to its stream request is held back) while it is pointed at a new
// leader whose stream is stalled too. Releasing the OLD leader's reply must
// not make the follower report caught up: it has nothing of the new leader yet.
func runStalledSwitch(ctx *core.Ctx, bin string) {
	var servers []*srv.Server
	defer func() {
		for _, s := range servers {
			s.Kill9()
		}
	}()
	start := func() *srv.Server {
		s, err := srv.Start(srv.Opts{Bin: bin})
		if err != nil {
			return nil
		}
		servers = append(servers, s)
		return s
	}
	a, b, f := start(), start(), start()
	if a == nil || b == nil || f == nil {
		ctx.Inconclusive("stalled-switch: server start")
		return
	}
	ca, e1 := dial(a)
	cb, e2 := dial(b)
	fc, e3 := dial(f)
	if e1 != nil || e2 != nil || e3 != nil {
		ctx.Inconclusive("stalled-switch: dial")
		return
	}
	defer ca.Close()
	defer cb.Close()
	defer fc.Close()
	for i := 0; i < 5; i++ {
		ca.Do("SET", "fromA", "a"+strconv.Itoa(i), "POINT", "1", strconv.Itoa(i))
	}
	for i := 0; i < 7; i++ {
		cb.Do("SET", "fromB", "b"+strconv.Itoa(i), "POINT", "2", strconv.Itoa(i))
	}
	time.Sleep(1100 * time.Millisecond)
	pa, err := proxy.Start(a.Addr())
	if err != nil {
		ctx.Inconclusive("stalled-switch: " + err.Error())
		return
	}
	defer pa.Close()
	pb, err := proxy.Start(b.Addr())
	if err != nil {
		ctx.Inconclusive("stalled-switch: " + err.Error())
		return
	}
	defer pb.Close()
	if r, err := fc.Do("FOLLOW", "127.0.0.1", strconv.Itoa(pa.Port())); err != nil || r.IsErr() {
		ctx.Inconclusive("stalled-switch: FOLLOW failed")
		return
	}
	if ok, why := quiescentCopy(a, f, 20*time.Second); !ok {
		ctx.Inconclusive("stalled-switch: first synchronisation: " + why)
		return
	}
	// stall the old leader's side: the follower reconnects and its requests get no answers
	// (a replication step opens its main connection, then one more for the log comparison: the
	// reconnect's main connection passes, the comparison stalls)
	pa.PauseOnRequest("$3\r\naof\r\n") // the old leader's answer to the next stream request is held back
	pa.DropAll()
	time.Sleep(1800 * time.Millisecond) // the follower's retry is inside its stalled step
	pb.PauseFromAccept(2)               // the FOLLOW command's own look at the new leader passes, the stream connections stall
	if r, err := fc.Do("FOLLOW", "127.0.0.1", strconv.Itoa(pb.Port())); err != nil || r.IsErr() {
		// FOLLOW checks the new leader first; with the stream stalled it may be refused: no verdict
		ctx.Count("stalled_switch_follow_refused", 1)
		return
	}
	time.Sleep(300 * time.Millisecond)
	pa.Resume() // the old leader's held-back answers arrive now
	bad := ""
	for dl := time.Now().Add(3 * time.Second); time.Now().Before(dl); time.Sleep(50 * time.Millisecond) {
		c, err := respc.Dial(f.Addr(), time.Second)
		if err != nil {
			continue
		}
		c.Timeout = 2 * time.Second
		hz, err1 := c.Do("HEALTHZ")
		ks, err2 := c.Do("KEYS", "*")
		c.Close()
		if err1 == nil && err2 == nil && hz.String() == "+OK" {
			has := false
			for _, e := range ks.Arr {
				if e.Str == "fromB" {
					has = true
				}
			}
			if !has {
				bad = fmt.Sprintf("HEALTHZ +OK while KEYS * = %s (the new leader holds fromB with 7 objects and its stream is still held back)", ks.String())
				break
			}
		}
	}
	ctx.Eval(1)
	ctx.Distinct("stalled-switch")
	pb.Resume()
	if bad != "" {
		ctx.Violation("caught-up-early:stalled-switch", "a follower was pointed from leader A (connection stalled) to leader B (stream stalled); when A's held-back answers were released it reported healthy without anything of B: "+bad, map[string]any{"scenario": "stalled-switch"})
		return
	}
	if ok, why := quiescentCopy(b, f, 25*time.Second); !ok {
		ctx.Violation("switch-leader-diff", "after the stalled switch the follower does not become a healthy copy of its new leader: "+why, map[string]any{"scenario": "stalled-switch"})
	}
}

// runStalePosition: the follower has compared logs with its leader and its
// request for the stream from the agreed position is still on the way when the
// leader completes an AOFSHRINK. The position belongs to the log as it was; all
// commands here have one length, so it is a command boundary of the rewritten
// log too and nothing garbles. The follower must not end up healthy with the
// tail of the rewritten log applied on top of its old dataset.
func runStalePosition(ctx *core.Ctx, bin string) {
	l, err := srv.Start(srv.Opts{Bin: bin})
	if err != nil {
		ctx.Inconclusive("stale-position: " + err.Error())
		return
	}
	defer l.Kill9()
	f, err := srv.Start(srv.Opts{Bin: bin})
	if err != nil {
		ctx.Inconclusive("stale-position: " + err.Error())
		return
	}
	defer f.Kill9()
	lc, e1 := dial(l)
	fc, e2 := dial(f)
	if e1 != nil || e2 != nil {
		ctx.Inconclusive("stale-position: dial")
		return
	}
	defer lc.Close()
	defer fc.Close()
	set := func(i int) {
		// the form in which the rewrite itself writes a 2D point: old and rewritten records have one length
		lc.Do("set", "fleet", fmt.Sprintf("id%02d", i), "object", fmt.Sprintf(`{"type":"Point","coordinates":[%d,%d]}`, 10+i, 10+i))
	}
	for i := 0; i < 20; i++ {
		set(i)
	}
	px, err := proxy.Start(l.Addr())
	if err != nil {
		ctx.Inconclusive("stale-position: " + err.Error())
		return
	}
	defer px.Close()
	if r, err := fc.Do("FOLLOW", "127.0.0.1", strconv.Itoa(px.Port())); err != nil || r.IsErr() {
		ctx.Inconclusive("stale-position: FOLLOW failed")
		return
	}
	if ok, why := quiescentCopy(l, f, 20*time.Second); !ok {
		ctx.Inconclusive("stale-position: first synchronisation: " + why)
		return
	}
	px.HoldRequest("$3\r\naof\r\n")
	px.DropAll()
	held := false
	for dl := time.Now().Add(15 * time.Second); time.Now().Before(dl); time.Sleep(5 * time.Millisecond) {
		if px.RequestHeld() {
			held = true
			break
		}
	}
	if !held {
		ctx.Inconclusive("stale-position: the follower's stream request was not seen")
		return
	}
	size := func() string {
		m, _ := serverMap(lc)
		return m["aof_size"]
	}
	lc.Do("DEL", "fleet", "id00")
	set(20)
	set(21)
	before := size()
	lc.Do("AOFSHRINK")
	done := false
	for dl := time.Now().Add(20 * time.Second); time.Now().Before(dl); time.Sleep(10 * time.Millisecond) {
		if rp, err := lc.Do("INFO", "persistence"); err == nil && size() != before && !strings.Contains(rp.String(), "aof_rewrite_in_progress:1") {
			done = true
			break
		}
	}
	if !done {
		ctx.Inconclusive("stale-position: the rewrite did not finish")
		return
	}
	px.ReleaseRequest()
	ctx.Eval(1)
	ctx.Distinct("stale-position-after-rewrite")
	if ok, why := quiescentCopy(l, f, 25*time.Second); !ok {
		ctx.Violation("stale-position-after-rewrite", "the follower's request for the stream (position agreed by the log comparison) reached the leader after an AOFSHRINK had replaced the log; leader: DEL id00, SET id20, SET id21, AOFSHRINK in between: "+why, map[string]any{"scenario": "stale-position"})
	}
}

func serverMap(c *respc.Conn) (map[string]string, error) {
	r, err := c.Do("SERVER")
	if err != nil {
		return nil, err
	}
	m := map[string]string{}
	for i := 0; i+1 < len(r.Arr); i += 2 {
		m[r.Arr[i].Str] = r.Arr[i+1].Text()
	}
	return m, nil
}
