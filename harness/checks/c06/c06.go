// Package c06: a caught-up follower is an exact copy of its leader.
// DESIGN.md section 4, C06.
package c06

import (
	"fmt"
	"math/rand"
	"os"
	"path/filepath"
	"strconv"
	"strings"
	"sync"
	"sync/atomic"
	"syscall"
	"time"

	"verifharness/aoflog"
	"verifharness/core"
	"verifharness/dump"
	"verifharness/httpsink"
	"verifharness/kmodel"
	"verifharness/proxy"
	"verifharness/respc"
	"verifharness/srv"
)

var sink *httpsink.Sink

func dial(s *srv.Server) (*respc.Conn, error) {
	c, err := respc.Dial(s.Addr(), 5*time.Second)
	if err != nil {
		return nil, err
	}
	c.Timeout = 20 * time.Second
	return c, nil
}

func big(n int, seed int) string {
	b := make([]byte, n)
	for i := range b {
		b[i] = 'a' + byte((seed+i*13)%26)
	}
	return string(b)
}

// leaderCmd generates one leader write (no FLUSHDB storms, TTLs >= 1000 s).
func leaderCmd(r *rand.Rand, g *kmodel.Gen, n int, bigValues bool) []string {
	switch r.Intn(14) {
	case 0:
		return []string{"SETCHAN", "ch" + strconv.Itoa(r.Intn(3)), "META", "n", strconv.Itoa(n), "WITHIN", g.Keys[r.Intn(len(g.Keys))], "FENCE", "BOUNDS", "0", "0", "1", strconv.Itoa(1 + r.Intn(9))}
	case 1:
		return []string{"SETHOOK", "hk" + strconv.Itoa(r.Intn(3)), sink.URL("h"), "EX", strconv.Itoa(2000 + r.Intn(1000)), "NEARBY", g.Keys[r.Intn(len(g.Keys))], "FENCE", "POINT", "1", "2", strconv.Itoa(100 + r.Intn(900))}
	case 2:
		if r.Intn(2) == 0 {
			return []string{"DELCHAN", "ch" + strconv.Itoa(r.Intn(3))}
		}
		return []string{"PDELHOOK", "hk[0-1]"}
	case 3:
		return []string{"EVAL", `tile38.call('set', KEYS[1], ARGV[1], 'field', 'n', ARGV[2], 'point', 1, 2); tile38.call('fset', KEYS[1], ARGV[1], 's', ARGV[2]); return 1`, "1", g.Keys[r.Intn(len(g.Keys))], g.IDs[r.Intn(len(g.IDs))], strconv.Itoa(n)}
	case 4:
		return []string{"EVALNA", `return tile38.call('set', KEYS[1], 'na', 'string', ARGV[1])`, "1", g.Keys[r.Intn(len(g.Keys))], strconv.Itoa(n)}
	case 5:
		if bigValues {
			return []string{"SET", "bigk", "b" + strconv.Itoa(r.Intn(12)), "STRING", big(30000+r.Intn(30000), n)}
		}
	}
	for {
		c := g.Next()
		switch strings.ToLower(c[0]) {
		case "get", "fget", "exists", "fexists", "ttl", "type", "keys", "scan", "jget":
			continue
		case "flushdb":
			if r.Intn(30) != 0 {
				continue
			}
		}
		return c
	}
}

type scenario struct {
	initial string // empty, prefix-small, prefix-big, unrelated-small, unrelated-big, diverged-same-length, unrelated-channels-only
	faults  []string
	big     bool
}

func (sc scenario) key() string { return sc.initial + "|" + strings.Join(sc.faults, ",") }

var faultKinds = []string{"follower-restart", "follower-kill9", "proxy-drop", "proxy-cut", "leader-shrink", "follower-pause", "leader-restart", "throttle"}

type monitor struct {
	mu        sync.Mutex
	lastAcked atomic.Int64 // last marker acknowledged by the leader
	okSeen    int64
	probes    int64
	early     []string
}

func runScenario(ctx *core.Ctx, bin string, idx int, sc scenario) {
	r := ctx.SubRng(int64(idx) + 60000)
	leader, err := srv.Start(srv.Opts{Bin: bin})
	if err != nil {
		ctx.Inconclusive(err.Error())
		return
	}
	defer func() { leader.Kill9() }()
	lc, err := dial(leader)
	if err != nil {
		ctx.Inconclusive(err.Error())
		return
	}
	defer func() { lc.Close() }()
	g := kmodel.DefaultGen(r)
	g.Keys = []string{"k1", "k2", "kx", "key 4"}
	g.IDs = []string{"a", "b", "ab", "c1", "d", "e"}
	nmark := 0
	mon := &monitor{}
	writeBatch := func(n int) bool {
		for i := 0; i < n; i++ {
			nmark++
			if rep, err := lc.Do("SET", "marker", "m", "STRING", strconv.Itoa(nmark)); err != nil || rep.String() != "+OK" {
				return false
			}
			mon.lastAcked.Store(int64(nmark))
			if _, err := lc.Do(leaderCmd(r, g, nmark, sc.big)...); err != nil {
				return false
			}
		}
		return true
	}
	// leader history before the follower exists
	pre := 60 + r.Intn(100)
	if sc.big {
		pre = 40 + r.Intn(30)
	}
	if !writeBatch(pre) {
		ctx.Inconclusive("leader i/o during pre-history")
		return
	}
	// follower initial state
	fdir := srv.NewDir()
	switch sc.initial {
	case "prefix-small", "prefix-big":
		// a true prefix of the leader's log, cut at a command boundary
		time.Sleep(1100 * time.Millisecond) // background flush
		b, err := os.ReadFile(leader.AOFPath())
		if err != nil {
			ctx.Inconclusive(err.Error())
			return
		}
		entries, _, _ := aoflog.Parse(b)
		if len(entries) < 10 {
			ctx.Inconclusive("leader log too short for a prefix")
			return
		}
		cut := entries[len(entries)/2+r.Intn(len(entries)/3)].End
		os.WriteFile(filepath.Join(fdir, "appendonly.aof"), b[:cut], 0o600)
	case "diverged-same-length":
		// the leader's log with the ids of its later writes in another letter case: a different
		// history of exactly the same byte length (what a failover and failback can leave behind)
		time.Sleep(1100 * time.Millisecond) // background flush
		b, err := os.ReadFile(leader.AOFPath())
		if err != nil {
			ctx.Inconclusive(err.Error())
			return
		}
		entries, boundary, okp := aoflog.Parse(b)
		if !okp || boundary != len(b) || len(entries) < 10 {
			ctx.Inconclusive("leader log not usable for a diverged copy")
			return
		}
		var nb []byte
		changed := 0
		for i, e := range entries {
			args := append([]string(nil), e.Args...)
			if i >= len(entries)/3 && len(args) > 2 && strings.EqualFold(args[0], "set") && args[1] != "marker" {
				if up := strings.ToUpper(args[2]); up != args[2] {
					args[2] = up
					changed++
				}
			}
			nb = append(nb, fmt.Sprintf("*%d\r\n", len(args))...)
			for _, a := range args {
				nb = append(nb, fmt.Sprintf("$%d\r\n%s\r\n", len(a), a)...)
			}
		}
		if len(nb) != len(b) || changed == 0 {
			ctx.Inconclusive("diverged copy does not have the leader log's length")
			return
		}
		os.WriteFile(filepath.Join(fdir, "appendonly.aof"), nb, 0o600)
	case "unrelated-small", "unrelated-big", "unrelated-channels-only":
		u, err := srv.Start(srv.Opts{Bin: bin, Dir: fdir})
		if err != nil {
			ctx.Inconclusive(err.Error())
			return
		}
		uc, err := dial(u)
		if err == nil {
			n := 30
			for i := 0; i < n; i++ {
				uc.Do("SET", "unrelated", "u"+strconv.Itoa(i), "FIELD", "x", strconv.Itoa(i), "POINT", "9", "9")
			}
			uc.Do("SETCHAN", "uchan", "NEARBY", "unrelated", "FENCE", "POINT", "9", "9", "100")
			if sc.initial == "unrelated-channels-only" {
				// a log of its own, channels and a hook, and no object left
				uc.Do("SETCHAN", "uchan2", "META", "m", "v", "WITHIN", "unrelated", "FENCE", "BOUNDS", "0", "0", "1", "1")
				uc.Do("SETHOOK", "uhook", sink.URL("u"), "NEARBY", "unrelated", "FENCE", "POINT", "9", "9", "100")
				uc.Do("DROP", "unrelated")
			}
			if sc.initial == "unrelated-big" {
				for i := 0; i < 14; i++ {
					uc.Do("SET", "unrelatedbig", "u"+strconv.Itoa(i), "STRING", big(50000, i))
				}
			}
			uc.Close()
		}
		u.Term(10 * time.Second)
	}
	follower, err := srv.Start(srv.Opts{Bin: bin, Dir: fdir})
	if err != nil {
		ctx.Inconclusive("follower start: " + err.Error())
		return
	}
	defer func() { follower.Kill9() }()
	px, err := proxy.Start(leader.Addr())
	if err != nil {
		ctx.Inconclusive(err.Error())
		return
	}
	defer px.Close()
	fc, err := dial(follower)
	if err != nil {
		ctx.Inconclusive(err.Error())
		return
	}
	if rep, err := fc.Do("FOLLOW", "127.0.0.1", strconv.Itoa(px.Port())); err != nil || rep.IsErr() {
		ctx.Inconclusive(fmt.Sprintf("FOLLOW failed: %v %s", err, rep.String()))
		fc.Close()
		return
	}
	fc.Close()
	followAt := time.Now()

	// monitor: whenever the follower says it is healthy after a (re)connect the
	// harness knows of, its marker must be >= the last marker acknowledged before
	// that (re)connect was accepted by the proxy.
	stopMon := make(chan struct{})
	var monWG sync.WaitGroup
	var ackLog []struct {
		t time.Time
		n int64
	}
	var ackMu sync.Mutex
	recordAck := func() {
		ackMu.Lock()
		ackLog = append(ackLog, struct {
			t time.Time
			n int64
		}{time.Now(), mon.lastAcked.Load()})
		ackMu.Unlock()
	}
	ackedBefore := func(t time.Time) int64 {
		ackMu.Lock()
		defer ackMu.Unlock()
		var n int64
		for _, a := range ackLog {
			if a.t.Before(t) {
				n = a.n
			}
		}
		return n
	}
	recordAck()
	monWG.Add(1)
	go func() {
		defer monWG.Done()
		var c *respc.Conn
		for {
			select {
			case <-stopMon:
				if c != nil {
					c.Close()
				}
				return
			default:
			}
			if c == nil {
				cc, err := respc.Dial(follower.Addr(), time.Second)
				if err != nil {
					time.Sleep(5 * time.Millisecond)
					continue
				}
				cc.Timeout = 2 * time.Second
				c = cc
			}
			// (re)connects the harness knows happened before the probe. The probe is
			// GET marker, HEALTHZ, GET marker pipelined on one connection: a re-sync
			// legitimately empties the follower (and clears its flag), so a claim is
			// only judged when the marker is below the bound both before and after
			// the HEALTHZ answer and no new connection appeared meanwhile.
			accepts := px.Accepts()
			c.Send("GET", "marker", "m")
			c.Send("HEALTHZ")
			c.Send("GET", "marker", "m")
			m1, err1 := c.Recv()
			rep, err2 := c.Recv()
			m2, err3 := c.Recv()
			if err1 != nil || err2 != nil || err3 != nil {
				c.Close()
				c = nil
				time.Sleep(5 * time.Millisecond)
				continue
			}
			accepts2 := px.Accepts()
			mon.mu.Lock()
			mon.probes++
			mon.mu.Unlock()
			if rep.String() == "+OK" && len(accepts) > 0 && len(accepts) == len(accepts2) {
				have1, _ := strconv.ParseInt(m1.Str, 10, 64)
				have2, _ := strconv.ParseInt(m2.Str, 10, 64)
				last := accepts[len(accepts)-1]
				burst := last
				for i := len(accepts) - 1; i >= 0 && last.Sub(accepts[i]) < 300*time.Millisecond; i-- {
					burst = accepts[i]
				}
				need := ackedBefore(burst)
				mon.mu.Lock()
				mon.okSeen++
				if have1 < need && have2 < need && len(mon.early) < 3 {
					mon.early = append(mon.early, fmt.Sprintf("follower answered HEALTHZ +OK while its marker is %d (before) / %d (after the answer); the leader had acknowledged marker %d before the follower's last (re)connect reached the proxy", have1, have2, need))
				}
				mon.mu.Unlock()
			}
			time.Sleep(2 * time.Millisecond)
		}
	}()

	// faults interleaved with leader writes
	for _, f := range sc.faults {
		if !writeBatch(10 + r.Intn(30)) {
			break
		}
		recordAck()
		time.Sleep(time.Duration(r.Intn(300)) * time.Millisecond)
		recordAck()
		switch f {
		case "follower-restart":
			follower.Term(10 * time.Second)
			writeBatch(5 + r.Intn(20))
			recordAck()
			nf, err := follower.Restart()
			if err != nil {
				ctx.Violation("follower-restart-fails", "follower does not restart on its data directory: "+err.Error(), map[string]any{"scenario": sc.key()})
				close(stopMon)
				monWG.Wait()
				return
			}
			follower = nf
		case "follower-kill9":
			follower.Kill9()
			writeBatch(5 + r.Intn(20))
			recordAck()
			nf, err := follower.Restart()
			if err != nil {
				ctx.Violation("follower-restart-fails", "follower does not restart after kill -9: "+err.Error(), map[string]any{"scenario": sc.key()})
				close(stopMon)
				monWG.Wait()
				return
			}
			follower = nf
		case "proxy-drop":
			px.DropAll()
		case "proxy-cut":
			px.CutAfter(int64(200 + r.Intn(20000)))
			px.DropAll()
		case "leader-shrink":
			lc.Do("AOFSHRINK")
			time.Sleep(time.Duration(100+r.Intn(300)) * time.Millisecond)
		case "follower-pause":
			follower.Signal(syscall.SIGSTOP)
			writeBatch(10 + r.Intn(20))
			recordAck()
			time.Sleep(time.Duration(100+r.Intn(400)) * time.Millisecond)
			follower.Signal(syscall.SIGCONT)
		case "throttle":
			px.Throttle(64+r.Intn(2000), time.Millisecond)
			px.DropAll()
			writeBatch(10)
			recordAck()
			time.Sleep(time.Duration(300+r.Intn(500)) * time.Millisecond)
			px.Throttle(0, 0)
		case "leader-restart":
			lc.Close()
			leader.Term(10 * time.Second)
			nl, err := leader.Restart()
			if err != nil {
				ctx.Inconclusive("leader restart: " + err.Error())
				close(stopMon)
				monWG.Wait()
				return
			}
			leader = nl
			px.SetTarget(leader.Addr())
			lc, err = dial(leader)
			if err != nil {
				ctx.Inconclusive(err.Error())
				close(stopMon)
				monWG.Wait()
				return
			}
		}
		recordAck()
	}
	if sc.initial == "diverged-same-length" && len(sc.faults) == 0 {
		// the leader has been quiescent since before FOLLOW: once the follower reports healthy it
		// must already be a copy (later leader writes, a FLUSHDB among them, would hide a follower
		// that kept its own history)
		dl := time.Now().Add(20 * time.Second)
		var diff string
		okSeen := false
		for time.Now().Before(dl) {
			c, err := respc.Dial(follower.Addr(), time.Second)
			if err != nil {
				time.Sleep(50 * time.Millisecond)
				continue
			}
			c.Timeout = 5 * time.Second
			rep, err := c.Do("HEALTHZ")
			c.Close()
			if err == nil && rep.String() == "+OK" {
				okSeen = true
				l0, e1 := dump.Take(leader.Addr(), dump.Opts{})
				f0, e2 := dump.Take(follower.Addr(), dump.Opts{})
				if e1 == nil && e2 == nil {
					if diff = dump.Diff(l0, f0); diff == "" {
						break
					}
				}
			}
			time.Sleep(150 * time.Millisecond)
		}
		ctx.Eval(1)
		if okSeen && diff != "" {
			ctx.Violation("diverged-history-kept", "the follower started on a different history of exactly the leader log's byte length, reports healthy, and 20 s later still differs from its quiescent leader (A=leader B=follower): "+diff, map[string]any{"scenario": sc.key(), "seed": ctx.Seed, "index": idx})
			close(stopMon)
			monWG.Wait()
			return
		}
	}
	writeBatch(5 + r.Intn(10))
	recordAck()
	px.Throttle(0, 0)
	// quiescence: wait for convergence (bounded progress)
	var ld, fd *dump.State
	converged := false
	deadline := time.Now().Add(25 * time.Second)
	healthy := false
	var lastDiff string
	for time.Now().Before(deadline) {
		c, err := respc.Dial(follower.Addr(), time.Second)
		if err != nil {
			time.Sleep(50 * time.Millisecond)
			continue
		}
		c.Timeout = 5 * time.Second
		rep, err := c.Do("HEALTHZ")
		c.Close()
		healthy = err == nil && rep.String() == "+OK"
		if healthy {
			ld, err = dump.Take(leader.Addr(), dump.Opts{})
			if err != nil {
				break
			}
			fd, err = dump.Take(follower.Addr(), dump.Opts{})
			if err == nil {
				lastDiff = dump.Diff(ld, fd)
				if lastDiff == "" {
					converged = true
					break
				}
			}
		}
		time.Sleep(100 * time.Millisecond)
	}
	close(stopMon)
	monWG.Wait()
	ctx.Eval(1)
	mon.mu.Lock()
	ctx.Count("healthz_probes", mon.probes)
	ctx.Count("healthz_ok_after_reconnect", mon.okSeen)
	early := append([]string(nil), mon.early...)
	mon.mu.Unlock()
	ctx.Count("proxy_accepts", int64(len(px.Accepts())))
	ctx.Count("proxy_cuts", px.Cuts.Load())
	ctx.Count("bytes_streamed", px.Down.Load())
	small := !sc.big
	replay := map[string]any{"scenario": sc.key(), "seed": ctx.Seed, "index": idx, "leader_markers": nmark, "since_follow_ms": time.Since(followAt).Milliseconds()}
	// classification of the listed finding: a follower whose own log is below the
	// 512 KiB checksum window is never reset / re-synchronised from its position
	// (D12 is repaired; the former classification for followers below the
	// checksum window is kept off so that a regression is an ordinary violation)
	belowWindow := false
	_ = small
	if len(early) > 0 {
		key := "caught-up-early"
		if belowWindow {
			key = "follow-reset-below-checksum-window"
		}
		ctx.Violation(key, early[0]+" ["+sc.key()+"]", replay)
	}
	lAlive, fAlive := leader.Alive(), follower.Alive()
	if !lAlive || !fAlive {
		which, s := "leader", leader
		if !fAlive {
			which, s = "follower", follower
		}
		_, site := s.Crashed()
		ctx.Violation("replication-crash:"+which+":"+site, which+" process died during "+sc.key()+": "+site, map[string]any{"stderr": s.StderrTail(3000)})
		return
	}
	if !converged {
		key := "no-convergence"
		what := "follower healthy but its dataset still differs from the quiescent leader's 25 s after the last fault (A=leader B=follower): " + lastDiff
		if !healthy {
			key = "never-healthy"
			what = "follower does not report healthy within 25 s after the last fault"
		}
		if belowWindow && key == "no-convergence" {
			key = "follow-reset-below-checksum-window"
		}
		ctx.Violation(key, what+" ["+sc.key()+"]", replay)
		return
	}
	ctx.Count("converged", 1)
	ctx.Count("objects_compared", int64(ld.NObjects()))
	// a copy stays a copy: clients of the caught-up follower try to write, directly and through
	// every script variant; whatever the follower answers, its dataset must still equal the leader's
	if fc, err := dial(follower); err == nil {
		setScript := `return tile38.call('set', 'intruder', ARGV[1], 'point', 1, 2)`
		delScript := `tile38.call('drop', 'intruder') return tile38.call('flushdb')`
		attempts := [][]string{
			{"SET", "intruder", "direct", "POINT", "1", "2"}, {"FLUSHDB"},
			{"EVAL", setScript, "0", "eval"}, {"EVALNA", setScript, "0", "evalna"}, {"EVALRO", setScript, "0", "evalro"},
			{"EVALNA", delScript, "0"}, {"EVAL", delScript, "0"},
			{"SETCHAN", "intruderchan", "NEARBY", "intruder", "FENCE", "POINT", "1", "2", "100"},
			{"JSET", "intruder", "doc", "a", "1"}, {"EXPIRE", "intruder", "direct", "1"},
		}
		if sha, err := fc.Do("SCRIPT", "LOAD", setScript); err == nil && !sha.IsErr() {
			attempts = append(attempts, []string{"EVALSHA", sha.Str, "0", "evalsha"}, []string{"EVALNASHA", sha.Str, "0", "evalnasha"})
		}
		for _, a := range attempts {
			fc.Do(a...)
		}
		fc.Close()
		ctx.Count("follower_write_attempts", int64(len(attempts)))
		l2, e1 := dump.Take(leader.Addr(), dump.Opts{})
		f2, e2 := dump.Take(follower.Addr(), dump.Opts{})
		if e1 == nil && e2 == nil {
			ctx.Eval(1)
			if d := dump.Diff(l2, f2); d != "" {
				ctx.Violation("follower-changed-by-client", "after clients sent data-modifying commands and scripts to the caught-up follower it is no longer a copy of its quiescent leader (A=leader B=follower): "+d+" ["+sc.key()+"]", replay)
				return
			}
		}
	}
	if len(sc.faults) > 0 || sc.initial != "empty" {
		ctx.Distinct(sc.key())
	}
	if idx == 0 {
		ctx.Sample(map[string]any{"scenario": sc.key(), "leader_markers": nmark, "objects": ld.NObjects(), "hooks": len(ld.Hooks), "chans": len(ld.Chans), "proxy_accepts": len(px.Accepts())})
	}
}

// Run is the C06 check.
func Run(ctx *core.Ctx) {
	ctx.Rule = "leader and follower are separate processes with a harness TCP proxy in between; the leader receives a generated write history (all write commands, hooks/channels with metas and EX, EVAL/EVALNA scripts, TTLs >= 1000 s, optionally > 512 KiB of values) with a monotone marker object; initial follower states: empty, a true prefix of the leader's log (below/above the 512 KiB checksum window), unrelated data (below/above), a diverged history of exactly the leader log's byte length; fault sequences from {follower restart, follower kill -9, connection dropped, connection cut at a PRNG byte offset of the stream, leader AOFSHRINK, follower SIGSTOP/SIGCONT, stream delivered in slices, leader restart}. Four fixed scenarios: 20000 objects, AOFSHRINK, caught-up follower, same-length in-place updates of one or four records in the middle of the log, AOFSHRINK again, re-synchronisation, then the updated objects are compared. Two more fixed scenarios: a follower pointed back and forth between two live leaders that keep writing after each switch; lifetimes of 2.5 s made permanent on the leader while the link is down (dropped) or stalled (bytes held back) and the first deadline passes on the follower (then a follower restart). A reconnect while the follower's last logged command carries `*n\r\n` inside a value. Oracles: after the faults stop and the leader is quiescent the follower must report healthy and its API dump must equal the leader's within 25 s; a monitor polls HEALTHZ throughout and, whenever the follower claims healthy, requires its marker to be at least the last marker the leader acknowledged before the follower's latest (re)connect was accepted by the proxy. non-trivial = scenario with a non-empty initial state or >= 1 fault; distinct key = (initial state, fault sequence)"
	ctx.Assumptions = []string{"the (re)connect instant is taken from the proxy's accept time (start of the latest burst of connections)", "bounded progress: 25 s after the last fault"}
	bin, err := srv.Build("plain")
	if err != nil {
		ctx.Fatal("%v", err)
	}
	sink, err = httpsink.Start()
	if err != nil {
		ctx.Fatal("%v", err)
	}
	defer sink.Close()
	if os.Getenv("VERIF_C06_ONLY") == "stale-position" {
		// debugging / replay aid: only the stale-position scenario
		runStalePosition(ctx, bin)
		return
	}
	var scs []scenario
	inits := []string{"empty", "prefix-small", "unrelated-small", "prefix-big", "unrelated-big", "diverged-same-length", "unrelated-channels-only"}
	// fixed core list: every initial state, every single fault
	for _, in := range inits {
		scs = append(scs, scenario{initial: in, big: strings.HasSuffix(in, "big")})
	}
	for _, f := range faultKinds {
		scs = append(scs, scenario{initial: "empty", faults: []string{f}, big: true})
	}
	n := ctx.Pick(len(scs)+25, 160)
	for len(scs) < n {
		r := ctx.Rng
		in := inits[r.Intn(len(inits))]
		nf := 1 + r.Intn(4)
		var fs []string
		for i := 0; i < nf; i++ {
			fs = append(fs, faultKinds[r.Intn(len(faultKinds))])
		}
		scs = append(scs, scenario{initial: in, faults: fs, big: strings.HasSuffix(in, "big") || r.Intn(2) == 0})
	}
	var wg sync.WaitGroup
	wg.Add(7)
	go func() { defer wg.Done(); runStraddle(ctx, bin) }()
	go func() { defer wg.Done(); runStalePosition(ctx, bin) }()
	go func() { defer wg.Done(); runStalledSwitch(ctx, bin) }()
	go func() { defer wg.Done(); runStarValue(ctx, bin) }()
	go func() { defer wg.Done(); runSwitchLeader(ctx, bin) }()
	go func() { defer wg.Done(); runTTLAcrossOutage(ctx, bin, true) }()
	go func() { defer wg.Done(); runTTLAcrossOutage(ctx, bin, false) }()
	for _, upd := range [][]int{{6500}, {9000}, {12500}, {6500, 9000, 12500, 15000}} {
		wg.Add(1)
		go func() { defer wg.Done(); runShrinkTwice(ctx, bin, upd) }()
	}
	sem := make(chan struct{}, 8)
	for i, sc := range scs {
		wg.Add(1)
		sem <- struct{}{}
		go func(i int, sc scenario) {
			defer wg.Done()
			defer func() { <-sem }()
			runScenario(ctx, bin, i, sc)
		}(i, sc)
	}
	wg.Wait()
}
