// Package c08: a write is handed to the log file before its acknowledgement is
// sent. DESIGN.md section 4, C08.
package c08

import (
	"fmt"
	"io"
	"net"
	"os"
	"path/filepath"
	"regexp"
	"strconv"
	"strings"
	"sync"
	"sync/atomic"
	"time"

	"verifharness/aoflog"
	"verifharness/core"
	"verifharness/respc"
	"verifharness/srv"
)

var c08Re = regexp.MustCompile(`c08 sends=(\d+) sends_writes=(\d+) overtaken=(\d+) violations=(\d+) log_seq=(\d+) flushed_seq=(\d+)`)
var pointRe = regexp.MustCompile(`point (\S+) arrivals=(\d+)`)

type status struct {
	sends, sendsWrites, overtaken, violations int64
	arrivals                                  map[string]int64
}

func getStatus(addr string) (status, error) {
	var st status
	c, err := respc.Dial(addr, 5*time.Second)
	if err != nil {
		return st, err
	}
	defer c.Close()
	c.Timeout = 10 * time.Second
	r, err := c.Do("VERIF", "STATUS")
	if err != nil {
		return st, err
	}
	if r.IsErr() {
		return st, fmt.Errorf("VERIF STATUS: %s (server built without the verif tag?)", r.Str)
	}
	m := c08Re.FindStringSubmatch(r.Str)
	if m == nil {
		return st, fmt.Errorf("cannot parse VERIF STATUS: %q", r.Str)
	}
	st.sends, _ = strconv.ParseInt(m[1], 10, 64)
	st.sendsWrites, _ = strconv.ParseInt(m[2], 10, 64)
	st.overtaken, _ = strconv.ParseInt(m[3], 10, 64)
	st.violations, _ = strconv.ParseInt(m[4], 10, 64)
	st.arrivals = map[string]int64{}
	for _, pm := range pointRe.FindAllStringSubmatch(r.Str, -1) {
		n, _ := strconv.ParseInt(pm[2], 10, 64)
		st.arrivals[pm[1]] = n
	}
	return st, nil
}

type pattern struct {
	name string
	env  string
}

func patterns(ctx *core.Ctx, n int) []pattern {
	r := ctx.Rng
	base := []pattern{
		{"none", ""},
		{"afterFlush-sleep2", "prewrite.afterFlush=sleep:2"},
		{"afterFlush-sleep1+beforeTest-yield", "prewrite.afterFlush=sleep:1;prewrite.beforeTest=yield:3"},
		{"beforeTest-sleep1", "prewrite.beforeTest=sleep:1"},
		{"afterClear-sleep1", "prewrite.afterClear=sleep:1"},
		{"beforeSend-sleep1", "prewrite.beforeSend=sleep:1"},
		{"afterFlush-yield50", "prewrite.afterFlush=yield:50"},
		{"afterFlush-sleep5-sparse", "prewrite.afterFlush=sleep:5@20x200"},
		{"all-yield", "prewrite.beforeTest=yield:5;prewrite.afterFlush=yield:5;prewrite.afterClear=yield:5;prewrite.beforeSend=yield:5"},
		{"afterFlush-sleep3+afterClear-sleep1", "prewrite.afterFlush=sleep:3;prewrite.afterClear=sleep:1"},
	}
	out := append([]pattern{}, base...)
	pts := []string{"prewrite.beforeTest", "prewrite.afterFlush", "prewrite.afterClear", "prewrite.beforeSend"}
	for len(out) < n {
		var parts []string
		for _, p := range pts {
			switch r.Intn(4) {
			case 0:
				parts = append(parts, fmt.Sprintf("%s=sleep:%d", p, 1+r.Intn(6)))
			case 1:
				parts = append(parts, fmt.Sprintf("%s=yield:%d", p, 1+r.Intn(40)))
			case 2:
				parts = append(parts, fmt.Sprintf("%s=sleep:%d@%dx%d", p, 1+r.Intn(20), r.Intn(50), 20+r.Intn(300)))
			}
		}
		env := strings.Join(parts, ";")
		out = append(out, pattern{"rnd:" + env, env})
	}
	return out[:n]
}

func runPattern(ctx *core.Ctx, bin string, pi int, p pattern, spin bool) {
	r := ctx.SubRng(int64(pi) + 500)
	var env []string
	if p.env != "" {
		env = append(env, "T38_VERIF_POINTS="+p.env)
	}
	var args []string
	if spin {
		args = append(args, "--spinlock")
	}
	s, err := srv.Start(srv.Opts{Bin: bin, Env: env, Args: args})
	if err != nil {
		ctx.Inconclusive(err.Error())
		return
	}
	defer s.Kill9()
	nconn := 2 + r.Intn(15)
	perConn := ctx.Pick(2000, 6000) / nconn
	var acked sync.Map // token -> true
	var nAcked atomic.Int64
	var wg sync.WaitGroup
	stop := make(chan struct{})
	writer := func(ci int, limit int) {
		defer wg.Done()
		rr := ctx.SubRng(int64(pi)*1000 + int64(ci))
		c, err := respc.Dial(s.Addr(), 5*time.Second)
		if err != nil {
			return
		}
		defer c.Close()
		c.Timeout = 20 * time.Second
		for i := 0; limit < 0 || i < limit; i++ {
			select {
			case <-stop:
				return
			default:
			}
			tok := fmt.Sprintf("t%d-%d-%d", pi, ci, i)
			var cmd []string
			switch rr.Intn(6) {
			case 0:
				cmd = []string{"EVAL", `return tile38.call('set', KEYS[1], ARGV[1], 'field', 'n', 1, 'string', ARGV[2])`, "1", "k" + strconv.Itoa(ci%3), "id" + strconv.Itoa(rr.Intn(8)), tok}
			case 1:
				cmd = []string{"JSET", "j" + strconv.Itoa(ci%3), "id" + strconv.Itoa(rr.Intn(8)), "tok", tok}
			default:
				cmd = []string{"SET", "k" + strconv.Itoa(ci%3), "id" + strconv.Itoa(rr.Intn(8)), "STRING", tok}
			}
			batch := 1
			if rr.Intn(5) == 0 {
				batch = 2 + rr.Intn(4) // pipelined
			}
			toks := []string{tok}
			if err := c.Send(cmd...); err != nil {
				return
			}
			for b := 1; b < batch; b++ {
				i++
				t2 := fmt.Sprintf("t%d-%d-%d", pi, ci, i)
				toks = append(toks, t2)
				if err := c.Send("SET", "k"+strconv.Itoa(ci%3), "p"+strconv.Itoa(rr.Intn(8)), "STRING", t2); err != nil {
					return
				}
			}
			for _, t := range toks {
				rep, err := c.Recv()
				if err != nil {
					return
				}
				if !rep.IsErr() {
					acked.Store(t, true)
					nAcked.Add(1)
				}
			}
		}
	}
	for ci := 0; ci < nconn; ci++ {
		wg.Add(1)
		go writer(ci, perConn)
	}
	wg.Wait()
	st, err := getStatus(s.Addr())
	if err != nil {
		if !s.Alive() {
			_, site := s.Crashed()
			ctx.Inconclusive("server died during C08 workload: " + site)
		} else {
			ctx.Inconclusive(err.Error())
		}
		return
	}
	ctx.Eval(1)
	ctx.Count("sends_checked", st.sends)
	ctx.Count("sends_of_logged_commands", st.sendsWrites)
	ctx.Count("sends_overtaken_by_another_logger", st.overtaken)
	for k, v := range st.arrivals {
		ctx.Count("point_arrivals:"+k, v)
	}
	replay := map[string]any{"pattern": p.env, "connections": nconn, "spinlock": spin}
	if st.violations > 0 {
		ev, _ := os.ReadFile(filepath.Join(s.Dir, "verif-events.log"))
		lines := strings.Split(strings.TrimSpace(string(ev)), "\n")
		if len(lines) > 5 {
			lines = lines[:5]
		}
		replay["events"] = lines
		ctx.Violation("send-before-flush", fmt.Sprintf("in-process monitor: %d replies of logged commands were sent while the command was not yet written to the file (pattern %q, %d connections): %v", st.violations, p.env, nconn, lines), replay)
	}
	if st.overtaken > 0 {
		ctx.Distinct("overtaken|" + p.name)
	}
	// phase 2 (hook-free oracle): keep writing, kill -9 at a PRNG instant, every
	// acknowledged token must be in the file
	for ci := 0; ci < nconn; ci++ {
		wg.Add(1)
		go writer(ci+100, -1)
	}
	time.Sleep(time.Duration(20+r.Intn(200)) * time.Millisecond)
	s.Kill9()
	close(stop)
	wg.Wait()
	entries, _, okp, err := aoflog.ReadFile(s.AOFPath())
	if err != nil {
		ctx.Inconclusive("read log: " + err.Error())
		return
	}
	if !okp {
		ctx.Violation("log-malformed", "appendonly.aof malformed after kill -9", replay)
		return
	}
	inFile := map[string]bool{}
	for _, e := range entries {
		for _, a := range e.Args {
			if strings.HasPrefix(a, "t") {
				inFile[a] = true
			}
		}
	}
	missing := 0
	var first string
	acked.Range(func(k, _ any) bool {
		if !inFile[k.(string)] {
			missing++
			if first == "" {
				first = k.(string)
			}
		}
		return true
	})
	ctx.Count("acked_tokens_checked_against_file", nAcked.Load())
	ctx.Count("kill9_rounds", 1)
	if missing > 0 {
		replay["first_missing"] = first
		ctx.Violation("acked-not-in-file", fmt.Sprintf("%d acknowledged writes (first %s) are not in appendonly.aof after kill -9 (pattern %q, %d connections)", missing, first, p.env, nconn), replay)
	}
	if missing == 0 && pi%3 == 0 {
		// "a crash loses only unacknowledged commands" includes the next start: loading the log
		// (tens of kilobytes here, possibly with a torn last command) must not cut acknowledged ones
		if pi%6 == 3 {
			// a crash on a file system that had preallocated the next blocks: zeros behind the data
			if f, err := os.OpenFile(s.AOFPath(), os.O_APPEND|os.O_WRONLY, 0); err == nil {
				f.Write(make([]byte, 4096+r.Intn(9000)))
				f.Close()
				replay["zero_padding_appended"] = true
				ctx.Count("restarts_on_zero_padded_log", 1)
			}
		}
		s2, err := s.Restart()
		if err != nil {
			ctx.Violation("restart-fails-after-kill", "the server does not start on the log left by kill -9: "+err.Error(), replay)
			return
		}
		s2.Kill9()
		if entries2, _, _, err := aoflog.ReadFile(s.AOFPath()); err == nil {
			still := map[string]bool{}
			for _, e := range entries2 {
				for _, a := range e.Args {
					if strings.HasPrefix(a, "t") {
						still[a] = true
					}
				}
			}
			cut := 0
			acked.Range(func(k, _ any) bool {
				if !still[k.(string)] {
					cut++
					first = k.(string)
				}
				return true
			})
			ctx.Count("restarts_after_kill9", 1)
			if cut > 0 {
				ctx.Violation("acked-cut-by-restart", fmt.Sprintf("%d acknowledged writes (e.g. %s) were in appendonly.aof after kill -9 (%d entries) and are gone after the next start (%d entries)", cut, first, len(entries), len(entries2)), replay)
			}
		}
	}
	if pi < 2 {
		ctx.Sample(map[string]any{"pattern": p.env, "connections": nconn, "sends_checked": st.sends, "sends_of_logged_commands": st.sendsWrites, "overtaken": st.overtaken, "acked": nAcked.Load(), "log_entries": len(entries)})
	}
}

// ackThenFile is the hook-free immediate oracle: once a reply has been READ by
// the client, the command must already be in appendonly.aof (the reply is sent
// after the write). It is applied to request shapes that take other paths
// through the connection loop than a plain RESP SET: pipelines ending in QUIT,
// large pipelines, HTTP / native / telnet transports, scripts, every write
// command kind, JSON output mode, and values larger than the flush chunk.
func ackThenFile(ctx *core.Ctx, bin string, round int) {
	s, err := srv.Start(srv.Opts{Bin: bin})
	if err != nil {
		ctx.Inconclusive(err.Error())
		return
	}
	defer s.Kill9()
	n := 0
	tokf := func() string { n++; return fmt.Sprintf("ZT%dx%dQ", round, n) }
	inFile := func(tok string) bool {
		b, err := os.ReadFile(s.AOFPath())
		return err == nil && strings.Contains(string(b), tok)
	}
	countInFile := func(tok string) int {
		b, _ := os.ReadFile(s.AOFPath())
		return strings.Count(string(b), tok)
	}
	readAll := func(c net.Conn) string {
		c.SetReadDeadline(time.Now().Add(10 * time.Second))
		b, _ := io.ReadAll(c)
		return string(b)
	}
	type shape struct {
		name string
		run  func(tok string) (acked bool, err error)
	}
	// occurrences of the token the file must hold when the preparing command carries it too
	needs := map[string]int{"jdel-geojson": 2, "jset-geojson": 2, "eval-jset-geojson": 2, "delchan-roam": 2, "delhook-roam": 2, "pdelchan-static": 2, "delchan-roam-json": 2, "delhook-roam-json": 2}
	dial := func() (net.Conn, error) { return net.DialTimeout("tcp", s.Addr(), 5*time.Second) }
	respDo := func(pre [][]string, cmd ...string) func(string) (bool, error) {
		return func(tok string) (bool, error) {
			c, err := respc.Dial(s.Addr(), 5*time.Second)
			if err != nil {
				return false, err
			}
			defer c.Close()
			c.Timeout = 60 * time.Second
			for _, p := range pre {
				pp := make([]string, len(p))
				for i, a := range p {
					pp[i] = strings.ReplaceAll(a, "@T", tok)
				}
				if _, err := c.Do(pp...); err != nil {
					return false, err
				}
			}
			args := make([]string, len(cmd))
			for i, a := range cmd {
				args[i] = strings.ReplaceAll(a, "@T", tok)
			}
			r, err := c.Do(args...)
			if err != nil {
				return false, err
			}
			return !r.IsErr() && !(r.Kind == '$' && r.Nil) && !(r.Kind == ':' && r.Int == 0), nil
		}
	}
	big := func(n int) string { return strings.Repeat("v", n) }
	shapes := []shape{
		{"resp-set", respDo(nil, "SET", "p", "a", "STRING", "@T")},
		{"resp-pipeline-quit", func(tok string) (bool, error) {
			c, err := dial()
			if err != nil {
				return false, err
			}
			defer c.Close()
			var b []byte
			b = append(b, respc.Encode("SET", "p", "q1", "STRING", tok+"a")...)
			b = append(b, respc.Encode("SET", "p", "q2", "STRING", tok)...)
			b = append(b, respc.Encode("QUIT")...)
			if _, err := c.Write(b); err != nil {
				return false, err
			}
			out := readAll(c)
			return strings.Count(out, "+OK") >= 3, nil
		}},
		{"resp-pipeline-60", func(tok string) (bool, error) {
			c, err := respc.Dial(s.Addr(), 5*time.Second)
			if err != nil {
				return false, err
			}
			defer c.Close()
			var b []byte
			for i := 0; i < 59; i++ {
				b = append(b, respc.Encode("SET", "p", "pl"+strconv.Itoa(i), "STRING", "x")...)
			}
			b = append(b, respc.Encode("SET", "p", "last", "STRING", tok)...)
			if err := c.WriteRaw(b); err != nil {
				return false, err
			}
			ok := true
			for i := 0; i < 60; i++ {
				r, err := c.Recv()
				if err != nil {
					return false, err
				}
				ok = ok && !r.IsErr()
			}
			return ok, nil
		}},
		{"http-get", func(tok string) (bool, error) {
			c, err := dial()
			if err != nil {
				return false, err
			}
			defer c.Close()
			fmt.Fprintf(c, "GET /SET+p+h1+STRING+%s HTTP/1.1\r\nHost: x\r\n\r\n", tok)
			out := readAll(c)
			return strings.Contains(out, `"ok":true`), nil
		}},
		{"http-post", func(tok string) (bool, error) {
			c, err := dial()
			if err != nil {
				return false, err
			}
			defer c.Close()
			body := "SET p h2 STRING " + tok
			fmt.Fprintf(c, "POST / HTTP/1.1\r\nHost: x\r\nContent-Length: %d\r\n\r\n%s", len(body), body)
			out := readAll(c)
			return strings.Contains(out, `"ok":true`), nil
		}},
		{"native", func(tok string) (bool, error) {
			c, err := dial()
			if err != nil {
				return false, err
			}
			defer c.Close()
			cmd := "SET p n1 STRING " + tok
			fmt.Fprintf(c, "$%d %s\r\n", len(cmd), cmd)
			c.SetReadDeadline(time.Now().Add(10 * time.Second))
			buf := make([]byte, 4096)
			m, _ := c.Read(buf)
			return strings.Contains(string(buf[:m]), `"ok":true`), nil
		}},
		{"telnet", func(tok string) (bool, error) {
			c, err := dial()
			if err != nil {
				return false, err
			}
			defer c.Close()
			fmt.Fprintf(c, "SET p t1 STRING %s\r\n", tok)
			c.SetReadDeadline(time.Now().Add(10 * time.Second))
			buf := make([]byte, 4096)
			m, _ := c.Read(buf)
			return strings.HasPrefix(string(buf[:m]), "+OK"), nil
		}},
		{"json-mode-set", respDo([][]string{{"OUTPUT", "json"}}, "SET", "p", "j1", "STRING", "@T")},
		{"eval", respDo(nil, "EVAL", `return tile38.call('set','p','e1','string',ARGV[1])`, "0", "@T")},
		{"evalna", respDo(nil, "EVALNA", `return tile38.call('set','p','e2','string',ARGV[1])`, "0", "@T")},
		{"eval-two-writes", respDo(nil, "EVAL", `tile38.call('set','p','e3','string','x'); return tile38.call('set','p','e4','string',ARGV[1])`, "0", "@T")},
		{"fset", respDo([][]string{{"SET", "p", "f1", "POINT", "1", "2"}}, "FSET", "p", "f1", "tokf", "@T")},
		{"jset", respDo(nil, "JSET", "p", "js1", "t", "@T")},
		{"sethook", respDo(nil, "SETHOOK", "hk@T", "http://127.0.0.1:9/x", "NEARBY", "p", "FENCE", "POINT", "1", "2", "100")},
		{"setchan", respDo(nil, "SETCHAN", "ch@T", "NEARBY", "p", "FENCE", "POINT", "1", "2", "100")},
		{"rename", respDo([][]string{{"SET", "rn", "a", "POINT", "1", "2"}}, "RENAME", "rn", "rn@T")},
		{"expire", respDo([][]string{{"SET", "p", "x@T", "POINT", "1", "2"}}, "EXPIRE", "p", "x@T", "5000")},
		{"del", respDo([][]string{{"SET", "p", "d@T", "POINT", "1", "2"}}, "DEL", "p", "d@T")},
		{"value-5MiB", respDo(nil, "SET", "bigp", "b5", "STRING", big(5<<20)+"@T")},
		{"value-9MiB", respDo(nil, "SET", "bigp", "b9", "STRING", big(9<<20)+"@T")},
		{"pipeline-then-big", func(tok string) (bool, error) {
			c, err := respc.Dial(s.Addr(), 5*time.Second)
			if err != nil {
				return false, err
			}
			defer c.Close()
			c.Timeout = 60 * time.Second
			var b []byte
			for i := 0; i < 5; i++ {
				b = append(b, respc.Encode("SET", "bigp", "m"+strconv.Itoa(i), "STRING", big(1<<20))...)
			}
			b = append(b, respc.Encode("SET", "bigp", "mlast", "STRING", tok)...)
			if err := c.WriteRaw(b); err != nil {
				return false, err
			}
			ok := true
			for i := 0; i < 6; i++ {
				r, err := c.Recv()
				if err != nil {
					return false, err
				}
				ok = ok && !r.IsErr()
			}
			return ok, nil
		}},
	}
	// a write followed, in the same packet, by reads whose replies exceed a megabyte
	shapes = append(shapes, shape{"write-then-big-replies-one-packet", func(tok string) (bool, error) {
		pc, err := respc.Dial(s.Addr(), 5*time.Second)
		if err != nil {
			return false, err
		}
		pc.Timeout = 60 * time.Second
		pc.Do("SET", "bigr", "v", "STRING", big(1500000))
		pc.Close()
		c, err := dial()
		if err != nil {
			return false, err
		}
		defer c.Close()
		var b []byte
		b = append(b, respc.Encode("SET", "p", "br1", "STRING", tok)...)
		b = append(b, respc.Encode("GET", "bigr", "v")...)
		b = append(b, respc.Encode("GET", "bigr", "v")...)
		if _, err := c.Write(b); err != nil {
			return false, err
		}
		c.SetReadDeadline(time.Now().Add(20 * time.Second))
		buf := make([]byte, 5)
		if _, err := io.ReadFull(c, buf); err != nil {
			return false, nil
		}
		return string(buf) == "+OK\r\n", nil
	}})
	// JSET / JDEL on a GeoJSON object re-enter SET: the edit itself must be what reaches the log
	feat := `{"type":"Feature","geometry":{"type":"Point","coordinates":[1,2]},"properties":{"@T":1,"keep":2}}`
	shapes = append(shapes, shape{"jdel-geojson", respDo([][]string{{"SET", "p", "jgeo", "OBJECT", feat}}, "JDEL", "p", "jgeo", "properties.@T")})
	shapes = append(shapes, shape{"jset-geojson", respDo([][]string{{"SET", "p", "jgeo2", "OBJECT", feat}}, "JSET", "p", "jgeo2", "properties.@T", "5")})
	shapes = append(shapes, shape{"eval-jset-geojson", respDo([][]string{{"SET", "p", "jgeo3", "OBJECT", feat}}, "EVAL", `return tile38.call('jset','p','jgeo3','properties.' .. ARGV[1], '7')`, "0", "@T")})
	// deleting hooks and channels of every fence form (a roaming fence has no area object)
	shapes = append(shapes, shape{"delchan-roam", respDo([][]string{{"SETCHAN", "rc@T", "NEARBY", "p", "FENCE", "ROAM", "p", "*", "100"}}, "DELCHAN", "rc@T")})
	shapes = append(shapes, shape{"delhook-roam", respDo([][]string{{"SETHOOK", "rh@T", "http://127.0.0.1:9/x", "NEARBY", "p", "FENCE", "ROAM", "p", "*", "100"}}, "DELHOOK", "rh@T")})
	shapes = append(shapes, shape{"delchan-roam-json", respDo([][]string{{"OUTPUT", "json"}, {"SETCHAN", "jrc@T", "NEARBY", "p", "FENCE", "ROAM", "p", "*", "100"}}, "DELCHAN", "jrc@T")})
	shapes = append(shapes, shape{"delhook-roam-json", respDo([][]string{{"OUTPUT", "json"}, {"SETHOOK", "jrh@T", "http://127.0.0.1:9/x", "NEARBY", "p", "FENCE", "ROAM", "p", "*", "100"}}, "DELHOOK", "jrh@T")})
	shapes = append(shapes, shape{"pdelchan-static", respDo([][]string{{"SETCHAN", "sc@T", "WITHIN", "p", "FENCE", "BOUNDS", "0", "0", "1", "1"}}, "PDELCHAN", "sc@T*")})
	// a multi-field FSET whose last pair changes nothing
	shapes = append(shapes, shape{"fset-last-pair-unchanged", respDo([][]string{{"SET", "p", "f2", "FIELD", "load", "5", "POINT", "1", "2"}}, "FSET", "p", "f2", "tokf", "@T", "load", "5")})
	shapes = append(shapes, shape{"fset-first-pair-unchanged", respDo([][]string{{"SET", "p", "f3", "FIELD", "load", "5", "POINT", "1", "2"}}, "FSET", "p", "f3", "load", "5", "tokf", "@T")})
	// a write followed, in the same packet, by a command that turns the connection into a live one
	for _, lv := range [][]string{{"SUBSCRIBE", "chlive"}, {"PSUBSCRIBE", "chl*"}, {"NEARBY", "p", "FENCE", "POINT", "1", "2", "100"}, {"WITHIN", "p", "FENCE", "BOUNDS", "0", "0", "5", "5"}, {"AOF", "0"}, {"MONITOR"}} {
		lv := lv
		shapes = append(shapes, shape{"write-then-" + strings.ToLower(lv[0]) + "-one-packet", func(tok string) (bool, error) {
			c, err := dial()
			if err != nil {
				return false, err
			}
			defer c.Close()
			var b []byte
			b = append(b, respc.Encode("SET", "p", "lv1", "STRING", tok)...)
			b = append(b, respc.Encode(lv...)...)
			if _, err := c.Write(b); err != nil {
				return false, err
			}
			c.SetReadDeadline(time.Now().Add(10 * time.Second))
			buf := make([]byte, 5)
			if _, err := io.ReadFull(c, buf); err != nil {
				return false, nil
			}
			return string(buf) == "+OK\r\n", nil
		}})
	}
	for _, sh := range shapes {
		tok := tokf()
		acked, err := sh.run(tok)
		if err != nil {
			if !s.Alive() {
				_, site := s.Crashed()
				ctx.Inconclusive("server died in ack-then-file probe " + sh.name + ": " + site)
				return
			}
			ctx.Inconclusive("ack-then-file probe " + sh.name + ": " + err.Error())
			continue
		}
		ctx.Eval(1)
		if !acked {
			ctx.Count("ack_file_probe_not_acked:"+sh.name, 1)
			continue
		}
		ctx.Count("ack_file_probes", 1)
		if !inFile(tok) || countInFile(tok) < needs[sh.name] {
			ctx.Violation("acked-not-in-file:"+sh.name, fmt.Sprintf("request shape %s: the success reply was received but the command (token %s) is not in appendonly.aof", sh.name, tok), map[string]any{"shape": sh.name})
			continue
		}
		ctx.Distinct("ackfile|" + sh.name)
	}
}

// ackDuringRewrite: the same immediate oracle while AOFSHRINK is parked between
// two of its scan batches (gate points of the verif build). A write acknowledged
// during the rewrite must be in appendonly.aof at that moment - the rewrite's
// in-memory list of concurrent writes is no substitute, it dies with the
// process - and still be in the file that replaces it.
func ackDuringRewrite(ctx *core.Ctx, bin string) {
	env := "T38_VERIF_POINTS=shrink.betweenKeyBatches=gate;shrink.betweenIdBatches=gate;shrink.beforeFinal=gate;shrink.afterRemoveBak=yield:1"
	s, err := srv.Start(srv.Opts{Bin: bin, Env: []string{env}})
	if err != nil {
		ctx.Inconclusive("ack during rewrite: " + err.Error())
		return
	}
	defer s.Kill9()
	c, err := respc.Dial(s.Addr(), 5*time.Second)
	if err != nil {
		ctx.Inconclusive("ack during rewrite: " + err.Error())
		return
	}
	defer c.Close()
	c.Timeout = 20 * time.Second
	for k := 0; k < 20; k++ {
		for i := 0; i < 3; i++ {
			c.Do("SET", fmt.Sprintf("rw%02d", k), "o"+strconv.Itoa(i), "FIELD", "n", "1", "POINT", strconv.Itoa(k), strconv.Itoa(i))
		}
	}
	if rp, err := c.Do("AOFSHRINK"); err != nil || rp.IsErr() {
		ctx.Inconclusive("ack during rewrite: AOFSHRINK refused")
		return
	}
	parked := func() (string, bool, error) {
		r, err := c.Do("VERIF", "STATUS")
		if err != nil || r.IsErr() {
			return "", false, fmt.Errorf("VERIF STATUS: %v %s", err, r.String())
		}
		done := false
		at := ""
		for _, m := range regexp.MustCompile(`point (\S+) arrivals=(\d+) parked=(\d+)`).FindAllStringSubmatch(r.Str, -1) {
			if m[1] == "shrink.afterRemoveBak" && m[2] != "0" {
				done = true
			}
			if m[3] != "0" {
				at = m[1]
			}
		}
		return at, done, nil
	}
	inFile := func(tok string) bool {
		b, err := os.ReadFile(s.AOFPath())
		return err == nil && strings.Contains(string(b), tok)
	}
	var toks []string
	n := 0
	deadline := time.Now().Add(60 * time.Second)
	for time.Now().Before(deadline) {
		at, done, err := parked()
		if err != nil {
			ctx.Inconclusive("ack during rewrite: " + err.Error())
			return
		}
		if done {
			break
		}
		if at == "" {
			time.Sleep(time.Millisecond)
			continue
		}
		if len(toks) < 40 {
			n++
			tok := fmt.Sprintf("RWT%dQ", n)
			key := fmt.Sprintf("rw%02d", (n*7)%20)
			var cmd []string
			switch n % 5 {
			case 0:
				cmd = []string{"SET", key, "o1", "STRING", tok}
			case 1:
				cmd = []string{"FSET", key, "o0", "tokf", tok}
			case 2:
				cmd = []string{"JSET", key, "doc", "t", tok}
			case 3:
				cmd = []string{"EVAL", `return tile38.call('set', KEYS[1], 'o2', 'string', ARGV[1])`, "1", key, tok}
			default:
				cmd = []string{"SET", "rwnew" + strconv.Itoa(n), "x", "STRING", tok}
			}
			rp, err := c.Do(cmd...)
			if err != nil {
				ctx.Inconclusive("ack during rewrite: " + err.Error())
				return
			}
			if !rp.IsErr() {
				ctx.Eval(1)
				ctx.Count("acks_while_rewrite_parked", 1)
				ctx.Distinct("ack-during-rewrite|" + strings.ToLower(cmd[0]) + "|" + at)
				if !inFile(tok) {
					ctx.Violation("acked-not-in-file:during-rewrite", fmt.Sprintf("%q was acknowledged while AOFSHRINK was parked at %s, but its token is not in appendonly.aof", cmd, at), map[string]any{"command": cmd, "parked_at": at})
					return
				}
				toks = append(toks, tok)
			}
		}
		c.Do("VERIF", "RELEASE", at, "1")
	}
	if _, done, _ := parked(); !done {
		ctx.Inconclusive("ack during rewrite: the rewrite did not finish")
		return
	}
	for i := 0; i < 400; i++ { // the in-progress flag drops right after the last point
		if rp, err := c.Do("INFO", "persistence"); err == nil && !strings.Contains(rp.String(), "aof_rewrite_in_progress:1") {
			break
		}
		time.Sleep(5 * time.Millisecond)
	}
	for _, tok := range toks {
		if !inFile(tok) {
			ctx.Violation("acked-not-in-file:after-rewrite", fmt.Sprintf("token %s, acknowledged while AOFSHRINK was running, is not in the rewritten appendonly.aof", tok), nil)
			return
		}
	}
	if len(toks) == 0 {
		ctx.Inconclusive("ack during rewrite: no write was acknowledged while the rewrite was parked")
	}
}

// Run is the C08 check.
func Run(ctx *core.Ctx) {
	ctx.Rule = "per perturbation pattern (sleep/yield actions at the four legal preemption points of the pre-write path: before the dirty-flag test, after the locked flush, after the flag clear, before the socket write): 2-16 connections issue unique-token writes (SET, JSET, EVAL; partly pipelined) against a verif build; the in-process monitor compares, at every socket write, the sender's last logged sequence number with the flushed sequence number; then writers keep going and the process is killed (-9) at a PRNG instant and every acknowledged token must be in appendonly.aof. non-trivial = a pattern run in which at least one reply of a logged command was sent after another goroutine had logged a later command (the interleaving in which a missing flush would show); distinct key = pattern"
	ctx.Assumptions = []string{"the per-goroutine ownership of logged commands holds (a connection's commands are executed by its own goroutine)", "kill -9 keeps data already handed to write(2)"}
	bin, err := srv.Build("plain")
	if err != nil {
		ctx.Fatal("%v", err)
	}
	pats := patterns(ctx, ctx.Pick(24, 160))
	var wg sync.WaitGroup
	sem := make(chan struct{}, 4)
	for i, p := range pats {
		wg.Add(1)
		sem <- struct{}{}
		go func(i int, p pattern) {
			defer wg.Done()
			defer func() { <-sem }()
			runPattern(ctx, bin, i, p, i%3 == 2)
		}(i, p)
	}
	wg.Wait()
	for i := 0; i < ctx.Pick(2, 12); i++ {
		ackThenFile(ctx, bin, i)
	}
	ackDuringRewrite(ctx, bin)
}
