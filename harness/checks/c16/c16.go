// Package c16: packetisation independence of the request readers and containment
// of malformed input (DESIGN.md section 4, C16).
package c16

import (
	"errors"
	"fmt"
	"math/rand"
	"os"
	"sort"
	"strings"
	"sync"
	"sync/atomic"
	"time"

	"verifharness/core"
	"verifharness/respc"
	"verifharness/srv"
	"verifharness/wire"
)

const ioTimeout = 10 * time.Second

type checker struct {
	ctx      *core.Ctx
	bin      string
	mu       sync.Mutex
	reported map[string]int
	workers  int
	failures atomic.Int64
}

// report files a violation once per key and counts repeats.
func (ck *checker) report(key, what string, replay any) {
	ck.mu.Lock()
	n := ck.reported[key]
	ck.reported[key] = n + 1
	ck.mu.Unlock()
	ck.ctx.Count("violations_by_key:"+key, 1)
	if strings.HasPrefix(key, "seg") || strings.HasPrefix(key, "count:") {
		ck.failures.Add(1)
	}
	if n == 0 {
		ck.ctx.Violation(key, what, replay)
	}
}

// tooMany: enough refutations were collected; the rest of the workload is skipped
// (a broken reader makes every run slow, and more of the same adds nothing).
func (ck *checker) tooMany() bool {
	return ck.ctx.Violations() >= 25 || ck.failures.Load() >= 60
}

func abbreviate(cmds [][]string) [][]string {
	out := make([][]string, len(cmds))
	for i, c := range cmds {
		o := make([]string, len(c))
		for j, a := range c {
			if len(a) > 200 {
				o[j] = fmt.Sprintf("<%d bytes starting %q>", len(a), a[:24])
			} else {
				o[j] = a
			}
		}
		out[i] = o
	}
	return out
}

var errPrefixTimeout = errors.New("timeout: the reply stream did not end within the i/o timeout")

const lateWait = 2 * time.Second

// runner drives segmented sends; for RESP/telnet/native it reuses one
// connection for many runs (each stream starts with FLUSHDB, restores the
// output mode and ends with a sentinel ECHO, so runs are independent), for HTTP
// every run is a connection.
type runner struct {
	addr    string
	c       *wire.Conn
	late    int64
	tainted bool // a run was abandoned while the server may still be executing it
}

func (r *runner) drop() {
	if r.c != nil {
		r.c.Close()
		r.c = nil
	}
}

// finish half-closes, reads to EOF and returns the canonical form of everything
// still unread; the connection is gone afterwards.
func (r *runner) finish(p wire.Proto, canon []string) ([]string, []byte, error) {
	c := r.c
	defer r.drop()
	c.CloseWrite()
	to, rerr := c.ReadToEOF(ioTimeout)
	fr, rest, ferr := wire.SplitAll(p, c.Buf)
	for _, f := range fr {
		canon = append(canon, wire.Canon(p, f))
	}
	if ferr != nil && errors.Is(ferr, wire.ErrMalformed) {
		canon = append(canon, "!malformed:"+ferr.Error())
	}
	if to {
		r.tainted = true
		return canon, rest, errPrefixTimeout
	}
	if rerr != nil && len(canon) == 0 {
		return canon, rest, fmt.Errorf("read: %w", rerr)
	}
	return canon, rest, nil
}

// closeClean ends a reused connection and returns any bytes the server sent
// beyond the replies already consumed.
func (r *runner) closeClean(p wire.Proto) []byte {
	if r.c == nil {
		return nil
	}
	c := r.c
	defer r.drop()
	c.CloseWrite()
	if to, _ := c.ReadToEOF(ioTimeout); to {
		r.tainted = true
	}
	return append([]byte(nil), c.Buf...)
}

// run sends the stream cut at the given offsets (ascending), waiting after each
// segment for the replies of the commands that segment completed, and returns
// the canonical replies. Timeouts while waiting are not verdicts: the run then
// half-closes and judges the complete reply stream at EOF.
func (r *runner) run(s *stream, cuts []int) (canon []string, rest []byte, err error) {
	if r.c == nil {
		c, err := wire.Dial(r.addr, ioTimeout)
		if err != nil {
			return nil, nil, fmt.Errorf("dial: %w", err)
		}
		r.c = c
	}
	c := r.c
	p := s.Proto
	reuse := p == wire.RESP || p == wire.Telnet || p == wire.Native
	pos := 0
	got := 0
	// readUntil consumes frames until 'want' replies were seen; false = fall back to EOF
	readUntil := func(want int) (bool, error) {
		for got < want {
			f, err := c.Next(p, lateWait)
			if err != nil {
				if wire.IsTimeout(err) {
					r.late++
					return false, nil
				}
				if errors.Is(err, wire.ErrMalformed) {
					return false, nil
				}
				return false, err // closed early
			}
			canon = append(canon, wire.Canon(p, f))
			got++
		}
		return true, nil
	}
	fallback := false
	for _, cut := range cuts {
		if cut <= pos || cut >= len(s.Bytes) {
			continue
		}
		if err := c.Write(s.Bytes[pos:cut]); err != nil {
			r.drop()
			return canon, nil, fmt.Errorf("write: %w", err)
		}
		pos = cut
		if fallback {
			continue
		}
		ok, err := readUntil(s.completedBy(cut))
		if err != nil {
			// connection closed by the server before the stream was sent
			canon2, rest, _ := r.finish(p, canon)
			return canon2, rest, nil
		}
		if !ok {
			fallback = true
		}
	}
	if err := c.Write(s.Bytes[pos:]); err != nil {
		canon2, rest, _ := r.finish(p, canon)
		if len(canon2) > 0 {
			return canon2, rest, nil
		}
		return canon, nil, fmt.Errorf("write: %w", err)
	}
	if reuse && !fallback {
		ok, err := readUntil(len(s.Cmds))
		if ok && err == nil {
			if len(c.Buf) > 0 {
				// more bytes than replies: collect them all
				return r.finish(p, canon)
			}
			return canon, nil, nil
		}
	}
	return r.finish(p, canon)
}

// runSegmented is a single run on its own connection.
func runSegmented(addr string, s *stream, cuts []int) ([]string, []byte, error) {
	r := &runner{addr: addr}
	defer r.drop()
	canon, rest, err := r.run(s, cuts)
	if err == nil && r.c != nil {
		if extra := r.closeClean(s.Proto); len(extra) > 0 {
			rest = append(rest, extra...)
		}
	}
	return canon, rest, err
}

func firstDiff(a, b []string) int {
	for i := 0; i < len(a) && i < len(b); i++ {
		if a[i] != b[i] {
			return i
		}
	}
	if len(a) != len(b) {
		return min(len(a), len(b))
	}
	return -1
}

func clip(s string) string {
	if len(s) > 300 {
		return s[:300] + fmt.Sprintf("...(%d bytes)", len(s))
	}
	return s
}

type segJob struct {
	s    *stream
	mode string // "2way", "kway", "bytes"
	cuts [][]int
}

// Run is the C16 check.
func Run(ctx *core.Ctx) {
	ctx.Rule = "part A: homogeneous command streams per transport (RESP, telnet, native: mixed 5-60 commands with quoting/JSON/mode switches, a value > 64 KiB, a command boundary exactly at 0xFFFF, a pipeline of 300-500 (quick) or 1000-3000 (thorough) cheap commands; HTTP: single GET/POST requests incl. a > 64 KiB body); each stream starts with FLUSHDB so its reply stream is a function of its bytes; baseline = one write; compared: EVERY 2-way cut position, random k-way cuts, byte-at-a-time, each segment followed by a wait for the replies it completes, then half-close and read to EOF; canonical reply sequences (timing masked) must be equal and as long as the command list; a mismatch is reported only if it shows again on a fresh server and connection. non-trivial = a cut strictly inside a command, distinct key = (stream, cut positions). terminal streams (commands sharing a stream with SUBSCRIBE/PSUBSCRIBE and the subscription loop's own commands; commands followed by an invalid HTTP request, a protocol error, an unbalanced quote, QUIT in the middle) are judged on the complete reply byte stream read to EOF: every 2-way cut, all unit boundaries, byte-at-a-time against the single write; one OPTIONS request must get one response whatever follows it; 1100 rejected WHEREEVAL clauses of each malformed kind on one connection must leave scripts usable for another connection. " +
		"part B: fuzz inputs from three generators (PRNG bytes / bit-flips of valid streams; grammar mutation of one valid template per command form; the systematic argument-shape sweep shared with C17) plus protocol-header shapes, each logged before it is sent on its own connection to a child server (one per batch) holding a small dataset with hooks; after every input a bystander connection runs one kmodel-checked read or write on a key the generators cannot name; non-trivial = input that produced >= 1 reply, distinct key = (generator, template, mutation ops, transport, reply class)"
	ctx.Assumptions = []string{
		"HTTP: the server closes the connection after one request, so an HTTP stream is one request",
		"a connection fed malformed input may be closed or answered with an error; only server death, a wedged bystander (10 s, canary answering within 1 s) or a bystander reply deviating from kmodel is a violation",
		"inputs naming server-global switches (FLUSHDB, FOLLOW, READONLY, CONFIG, CLIENT, AUTH, SHUTDOWN) run in batches where the bystander is judged on liveness only",
		"no --dev server is used (MASSINSERT/SLEEP/SHUTDOWN answer 'unknown command')",
		"streams avoid process-dependent replies (SERVER, STATS, INFO, CLIENT LIST, TTL of expiring objects)",
	}
	bin, err := srv.Build("plain")
	if err != nil {
		ctx.Fatal("%v", err)
	}
	_, stopSink, err := wire.StartSink()
	if err != nil {
		ctx.Fatal("sink: %v", err)
	}
	defer stopSink()
	ck := &checker{ctx: ctx, bin: bin, reported: map[string]int{}, workers: 16}
	if os.Getenv("VERIF_C16_ONLY") == "T" {
		ck.partTerminal()
		return
	}
	if os.Getenv("VERIF_C16_ONLY") != "B" {
		ck.partA()
		ck.partTerminal()
	}
	if os.Getenv("VERIF_C16_ONLY") == "A" {
		return
	}
	ctx.Logf("part A done: evaluations=%d distinct=%d", ctx.Counter("segmentations_compared"), ctx.DistinctN())
	ck.partB()
}

func (ck *checker) startServer() *srv.Server {
	var err error
	for attempt := 0; attempt < 4; attempt++ {
		var s *srv.Server
		s, err = srv.Start(srv.Opts{Bin: ck.bin})
		if err == nil {
			return s
		}
		time.Sleep(2 * time.Second)
	}
	ck.ctx.Fatal("start server: %v", err)
	return nil
}

// startCapped starts a server whose address space is limited (prlimit64), so that a
// request that allocates without bound ends as an out-of-memory crash of the
// child instead of exhausting the machine.
func (ck *checker) startCapped() *srv.Server {
	s := ck.startServer()
	if err := wire.LimitAddressSpace(s.Pid(), 6<<30); err != nil {
		ck.ctx.Count("address_space_limit_failed", 1)
	}
	return s
}

// crashKey turns srv.Crashed()'s site into a whitespace-free key.
func crashKey(site string) string {
	frame := site
	if i := strings.LastIndex(site, " @ "); i >= 0 {
		frame = site[i+3:]
	}
	if frame == "" {
		frame = site
		if i := strings.Index(frame, " @ "); i >= 0 {
			frame = frame[:i]
		}
	}
	frame = strings.TrimPrefix(frame, "github.com/tidwall/tile38/")
	frame = strings.Map(func(r rune) rune {
		if r == ' ' || r == '\t' {
			return '_'
		}
		return r
	}, frame)
	if len(frame) > 120 {
		frame = frame[:120]
	}
	return "crash:" + frame
}

func (ck *checker) partA() {
	ctx := ck.ctx
	streams := buildStreams(ctx.SubRng(1), ctx.Thorough())
	// baselines on one server
	s0 := ck.startServer()
	var live []*stream
	for _, st := range streams {
		b1, rest, err := runSegmented(s0.Addr(), st, nil)
		if err != nil {
			if !s0.Alive() {
				_, site := s0.Crashed()
				ck.report(crashKey(site), "server died on the unsegmented stream "+st.ID+": "+site, map[string]any{"stream": st.ID, "commands": abbreviate(st.Cmds), "stderr": s0.StderrTail(3000)})
				s0 = ck.startServer()
				continue
			}
			ctx.Inconclusive(fmt.Sprintf("baseline of %s failed: %v", st.ID, err))
			continue
		}
		b2, _, err2 := runSegmented(s0.Addr(), st, nil)
		if err2 != nil || firstDiff(b1, b2) >= 0 {
			ctx.Inconclusive(fmt.Sprintf("baseline of %s is not reproducible (reply %d differs): the stream has an unmasked process-dependent reply", st.ID, firstDiff(b1, b2)))
			continue
		}
		ctx.Eval(1)
		ctx.Count("streams:"+st.Proto.String(), 1)
		ctx.Count("stream_commands", int64(len(st.Cmds)))
		if len(b1) != len(st.Cmds) || len(rest) != 0 {
			ck.report("count:"+st.Proto.String()+":"+st.Kind, fmt.Sprintf("unsegmented stream %s: %d commands, %d replies (%d trailing bytes)", st.ID, len(st.Cmds), len(b1), len(rest)),
				map[string]any{"stream": st.ID, "commands": abbreviate(st.Cmds), "replies": clipAll(b1)})
			continue
		}
		st.Base = b1
		live = append(live, st)
	}
	s0.Kill9()
	if len(live) == 0 {
		ctx.Inconclusive("no stream produced a baseline")
		return
	}
	ctx.Sample(map[string]any{"stream": live[0].ID, "bytes": len(live[0].Bytes), "first_commands": abbreviate(live[0].Cmds[:min(6, len(live[0].Cmds))]), "first_replies": clipAll(live[0].Base[:min(6, len(live[0].Base))])})

	// jobs
	rng := ctx.SubRng(2)
	var jobs []segJob
	var totalCuts int64
	for _, st := range live {
		L := len(st.Bytes)
		// every 2-way cut
		chunk := 400
		if st.Kind == "pipeline" {
			chunk = 40
		}
		for from := 1; from < L; from += chunk {
			var cs [][]int
			for p := from; p < from+chunk && p < L; p++ {
				cs = append(cs, []int{p})
			}
			jobs = append(jobs, segJob{st, "2way", cs})
			totalCuts += int64(len(cs))
		}
		// random k-way cuts
		nk := ctx.Pick(30, 200)
		if st.Kind == "pipeline" || st.Kind == "big" || st.Kind == "edge" {
			nk = ctx.Pick(10, 60)
		}
		var cs [][]int
		for i := 0; i < nk; i++ {
			k := 2 + rng.Intn(11)
			set := map[int]bool{}
			for len(set) < k && len(set) < L-1 {
				var p int
				switch rng.Intn(4) {
				case 0: // near a command boundary
					e := st.Ends[rng.Intn(len(st.Ends))]
					p = e - 3 + rng.Intn(7)
				case 1: // near the 0xFFFF buffer edge
					p = 0xFFFF - 4 + rng.Intn(9)
				default:
					p = 1 + rng.Intn(L-1)
				}
				if p >= 1 && p < L {
					set[p] = true
				}
			}
			var c []int
			for p := range set {
				c = append(c, p)
			}
			sort.Ints(c)
			cs = append(cs, c)
		}
		jobs = append(jobs, segJob{st, "kway", cs})
		// byte at a time
		all := make([]int, 0, L)
		for p := 1; p < L; p++ {
			all = append(all, p)
		}
		jobs = append(jobs, segJob{st, "bytes", [][]int{all}})
	}
	ctx.Logf("part A: %d streams, %d two-way cut positions, %d jobs", len(live), totalCuts, len(jobs))
	// largest jobs first would need sorting by cost; interleave instead for balance
	rng.Shuffle(len(jobs), func(i, j int) { jobs[i], jobs[j] = jobs[j], jobs[i] })

	jobc := make(chan segJob, len(jobs))
	for _, j := range jobs {
		jobc <- j
	}
	close(jobc)
	var wg sync.WaitGroup
	var done2way atomic.Int64
	var aborted atomic.Bool
	for w := 0; w < ck.workers; w++ {
		wg.Add(1)
		go func(w int) {
			defer wg.Done()
			s := ck.startServer()
			defer func() { s.Kill9() }()
			r := &runner{addr: s.Addr()}
			for j := range jobc {
				if ck.tooMany() {
					aborted.Store(true)
					continue
				}
				for _, cuts := range j.cuts {
					ok := ck.compareOne(&s, r, j.s, j.mode, cuts)
					if j.mode == "2way" && ok {
						done2way.Add(1)
					}
				}
				if extra := r.closeClean(j.s.Proto); len(extra) > 0 {
					ck.report("seg-extra:"+j.s.Proto.String(), fmt.Sprintf("stream %s (%s cuts): %d bytes beyond the replies to the commands sent: %q", j.s.ID, j.mode, len(extra), clip(string(extra))),
						map[string]any{"stream": j.s.ID, "commands": abbreviate(j.s.Cmds), "extra": clip(string(extra))})
				}
			}
			ctx.Count("late_reply_waits", r.late)
		}(w)
	}
	wg.Wait()
	ctx.Count("two_way_cuts_total", totalCuts)
	ctx.Count("two_way_cuts_done", done2way.Load())
	ctx.Set("two_way_cuts_exhaustive", done2way.Load() == totalCuts && !aborted.Load())
	ctx.Set("streams", len(live))
}

func clipAll(a []string) []string {
	o := make([]string, len(a))
	for i, s := range a {
		o[i] = clip(s)
	}
	if len(o) > 40 {
		o = o[:40]
	}
	return o
}

// compareOne runs one segmentation and compares with the baseline. It returns
// true when the case was executed to a verdict.
func (ck *checker) compareOne(sp **srv.Server, r *runner, st *stream, mode string, cuts []int) bool {
	ctx := ck.ctx
	for attempt := 0; ; attempt++ {
		if r.tainted {
			// an abandoned run may still be executing on this server: never reuse it
			r.drop()
			(*sp).Kill9()
			*sp = ck.startServer()
			r.addr = (*sp).Addr()
			r.tainted = false
			ctx.Count("servers_replaced_after_abandoned_run", 1)
		}
		s := *sp
		got, rest, err := r.run(st, cuts)
		descr := func() string {
			if len(cuts) > 12 {
				return fmt.Sprintf("%s %d cuts", mode, len(cuts))
			}
			return fmt.Sprintf("%s cuts=%v", mode, cuts)
		}
		part := "byte-at-a-time"
		if len(cuts) <= 12 && len(cuts) > 0 {
			part = st.partAt(cuts[0])
			for _, c := range cuts {
				if st.insideCommand(c) {
					part = st.partAt(c)
					break
				}
			}
		}
		if !s.Alive() {
			_, site := s.Crashed()
			ck.report(crashKey(site), fmt.Sprintf("server died on stream %s %s: %s", st.ID, descr(), site),
				map[string]any{"stream": st.ID, "commands": abbreviate(st.Cmds), "cuts": cutsForReplay(cuts), "stderr": s.StderrTail(3000)})
			ctx.Count("crashes", 1)
			r.drop()
			*sp = ck.startServer()
			r.addr = (*sp).Addr()
			return true
		}
		if err == errPrefixTimeout {
			// the replies of completed commands did not arrive within 10 s: decide
			// whether the machine or the server is at fault
			if attempt == 0 {
				continue
			}
			if pingOK(s.Addr()) {
				ck.report("seg-noreply:"+st.Proto.String()+":"+part, fmt.Sprintf("stream %s %s: replies of completed commands did not arrive within %v (twice) although the server answers PING; got %d replies of %d", st.ID, descr(), ioTimeout, len(got), len(st.Cmds)),
					map[string]any{"stream": st.ID, "commands": abbreviate(st.Cmds), "cuts": cutsForReplay(cuts), "got": clipAll(got)})
				s.Kill9()
				*sp = ck.startServer()
				r.addr = (*sp).Addr()
				return true
			}
			ctx.Inconclusive("segmented send timed out and the server does not answer PING")
			s.Kill9()
			*sp = ck.startServer()
			r.addr = (*sp).Addr()
			return false
		}
		if err != nil {
			r.drop()
			if attempt < 2 {
				time.Sleep(20 * time.Millisecond)
				continue
			}
			ctx.Inconclusive(fmt.Sprintf("i/o trouble on stream %s: %v", st.ID, err))
			return false
		}
		ctx.Eval(1)
		ctx.Count("segmentations_compared", 1)
		ctx.Count("segmentations:"+mode+":"+st.Proto.String(), 1)
		ctx.Count("replies_compared", int64(len(got)))
		inside := false
		for _, c := range cuts {
			if st.insideCommand(c) {
				inside = true
				break
			}
		}
		if inside {
			if len(cuts) == 1 {
				ctx.Distinct(st.ID + "@" + fmt.Sprint(cuts[0]))
			} else if len(cuts) <= 12 {
				ctx.Distinct(st.ID + "@" + fmt.Sprint(cuts))
			} else {
				ctx.Distinct(st.ID + "@bytes")
			}
		}
		d := firstDiff(st.Base, got)
		if d < 0 && len(rest) == 0 {
			return true
		}
		r.drop() // do not let a broken run leak into the next one
		// confirm on a fresh server and connection: a reader defect depends on the bytes
		// and the segmentation only; a mismatch that never shows again is interference
		// (an overloaded machine), not a refutation
		confirmed := false
		for i := 0; i < 2 && !confirmed; i++ {
			fresh := ck.startServer()
			got2, rest2, err2 := runSegmented(fresh.Addr(), st, cuts)
			fresh.Kill9()
			if err2 == nil && (firstDiff(st.Base, got2) >= 0 || len(rest2) > 0) {
				confirmed = true
			}
		}
		if !confirmed {
			ctx.Count("mismatch_not_reproduced", 1)
			r.tainted = true
			return true
		}
		exp, g := "<none>", "<none>"
		if d >= 0 && d < len(st.Base) {
			exp = st.Base[d]
		}
		if d >= 0 && d < len(got) {
			g = got[d]
		}
		cmd := []string{}
		if d >= 0 && d < len(st.Cmds) {
			cmd = abbreviate([][]string{st.Cmds[d]})[0]
		}
		ck.report("seg:"+st.Proto.String()+":"+part,
			fmt.Sprintf("stream %s (%d commands, %d bytes) %s: %d replies vs %d in the unsegmented baseline; first difference at reply %d (command %q): baseline %s, segmented %s; %d unparsed trailing bytes",
				st.ID, len(st.Cmds), len(st.Bytes), descr(), len(got), len(st.Base), d, cmd, clip(exp), clip(g), len(rest)),
			map[string]any{"stream": st.ID, "transport": st.Proto.String(), "commands": abbreviate(st.Cmds), "cuts": cutsForReplay(cuts), "baseline": clipAll(st.Base), "segmented": clipAll(got), "first_difference": d})
		return true
	}
}

func cutsForReplay(c []int) any {
	if len(c) > 64 {
		return fmt.Sprintf("every offset 1..%d", len(c))
	}
	return c
}

func pingOK(addr string) bool {
	c, err := respc.Dial(addr, 2*time.Second)
	if err != nil {
		return false
	}
	defer c.Close()
	c.Timeout = 3 * time.Second
	r, err := c.Do("PING")
	return err == nil && r.Str == "PONG"
}

var _ = rand.Int
