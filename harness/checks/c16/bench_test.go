package c16

import (
	"fmt"
	"math/rand"
	"testing"
	"time"

	"verifharness/srv"
)

func TestBenchCuts(t *testing.T) {
	bin, err := srv.Build("plain")
	if err != nil {
		t.Fatal(err)
	}
	defer srv.Cleanup()
	s, _ := srv.Start(srv.Opts{Bin: bin})
	streams := buildStreams(rand.New(rand.NewSource(1)), false)
	for _, st := range streams {
		base, _, err := runSegmented(s.Addr(), st, nil)
		if err != nil {
			t.Fatal(err)
		}
		r := &runner{addr: s.Addr()}
		t0 := time.Now()
		n := 0
		step := len(st.Bytes)/300 + 1
		for p := 1; p < len(st.Bytes); p += step {
			got, _, err := r.run(st, []int{p})
			if err != nil || firstDiff(base, got) >= 0 {
				t.Fatalf("%s cut %d: %v diff %d", st.ID, p, err, firstDiff(base, got))
			}
			n++
		}
		r.closeClean(st.Proto)
		fmt.Printf("%-22s bytes=%6d cmds=%4d  %4d runs  %.0f us/run  exhaustive=%.1fs\n", st.ID, len(st.Bytes), len(st.Cmds), n, float64(time.Since(t0).Microseconds())/float64(n), time.Since(t0).Seconds()/float64(n)*float64(len(st.Bytes)))
	}
}
