package c16

import (
	"bytes"
	"encoding/hex"
	"encoding/json"
	"fmt"
	"math/rand"
	"os"
	"path/filepath"
	"regexp"
	"strconv"
	"strings"
	"sync"
	"time"

	"verifharness/kmodel"
	"verifharness/respc"
	"verifharness/srv"
	"verifharness/wire"
)

// fuzzInput is one input of part B.
type fuzzInput struct {
	Gen    string
	Tmpl   string
	Muts   string
	Proto  wire.Proto
	Args   []string // command-level inputs (one command); nil for byte-level
	Raw    []byte
	Global bool
}

func (in *fuzzInput) sig() string {
	if in.Args != nil {
		return in.Gen + "|" + in.Tmpl + "|" + in.Proto.String() + "|" + strings.Join(in.Args, "\x00")
	}
	return in.Gen + "|" + hex.EncodeToString(in.Raw)
}

// words that switch server-global behaviour (or kill other connections): inputs
// containing one are run with the bystander judged on liveness only.
var globalWords = []string{"flushdb", "follow", "slaveof", "readonly", "config", "shutdown", "auth", "client", "massinsert", "sleep", "replconf"}

func isGlobal(raw []byte) bool {
	l := bytes.ToLower(raw)
	for _, w := range globalWords {
		if bytes.Contains(l, []byte(w)) {
			return true
		}
	}
	return false
}

var fuzzProtos = []wire.Proto{wire.RESP, wire.RESP, wire.RESP, wire.Telnet, wire.Telnet, wire.Native, wire.HTTPGet, wire.HTTPPost, wire.WS}

// encodeAny encodes args in the wanted transport, falling back to RESP when the
// tokens cannot be expressed in it.
func encodeAny(p wire.Proto, args []string) ([]byte, wire.Proto) {
	if len(args) == 0 {
		return []byte("\r\n"), wire.Telnet
	}
	if b, ok := wire.Encode(p, args...); ok {
		return b, p
	}
	return wire.EncodeRESP(args...), wire.RESP
}

func genGrammar(rng *rand.Rand) *fuzzInput {
	tms := wire.Templates()
	var tm *wire.Tmpl
	for {
		tm = tms[rng.Intn(len(tms))]
		if tm.Flags&wire.FDev == 0 {
			break
		}
	}
	args, muts := wire.Mutate(rng, tm)
	p := fuzzProtos[rng.Intn(len(fuzzProtos))]
	raw, p2 := encodeAny(p, args)
	ms := make([]string, len(muts))
	for i, m := range muts {
		ms[i] = m.String()
	}
	return &fuzzInput{Gen: "grammar", Tmpl: tm.ID, Muts: strings.Join(ms, ","), Proto: p2, Args: args, Raw: raw}
}

func mutOps(muts string) string {
	var ops []string
	for _, m := range strings.Split(muts, ",") {
		if i := strings.IndexByte(m, '@'); i > 0 {
			ops = append(ops, m[:i])
		}
	}
	return strings.Join(ops, "+")
}

// validStream encodes 1-4 valid or mutated commands in one transport.
func validStream(rng *rand.Rand, p wire.Proto) []byte {
	var b []byte
	n := 1 + rng.Intn(4)
	if p == wire.HTTPGet || p == wire.HTTPPost || p == wire.WS {
		n = 1
	}
	for i := 0; i < n; i++ {
		in := genGrammar(rng)
		if r, ok := wire.Encode(p, in.Args...); ok && len(in.Args) > 0 {
			b = append(b, r...)
		} else {
			b = append(b, wire.EncodeRESP("PING", strconv.Itoa(i))...)
		}
	}
	return b
}

func genBytes(rng *rand.Rand) *fuzzInput {
	switch rng.Intn(10) {
	case 0: // pure PRNG bytes
		b := make([]byte, 1+rng.Intn(200))
		rng.Read(b)
		return &fuzzInput{Gen: "bytes", Tmpl: "random", Proto: wire.RESP, Raw: b}
	case 1: // PRNG bytes behind a plausible first byte, CRLF terminated
		b := make([]byte, 1+rng.Intn(80))
		rng.Read(b)
		b[0] = "*$GPO+-:\"' "[rng.Intn(11)]
		b = append(b, '\r', '\n')
		return &fuzzInput{Gen: "bytes", Tmpl: "random-line", Proto: wire.RESP, Raw: b}
	case 2: // printable tokens
		var sb strings.Builder
		n := 1 + rng.Intn(8)
		for i := 0; i < n; i++ {
			if i > 0 {
				sb.WriteByte(' ')
			}
			if rng.Intn(2) == 0 {
				sb.WriteString(wire.OptionWords[rng.Intn(len(wire.OptionWords))])
			} else {
				sb.WriteString(wire.HostileAny[rng.Intn(len(wire.HostileAny))])
			}
		}
		sb.WriteString("\r\n")
		return &fuzzInput{Gen: "bytes", Tmpl: "random-words", Proto: wire.Telnet, Raw: []byte(sb.String())}
	case 3: // protocols mixed in one stream
		var b []byte
		for i := 0; i < 2+rng.Intn(4); i++ {
			b = append(b, validStream(rng, []wire.Proto{wire.RESP, wire.Telnet, wire.Native, wire.HTTPGet}[rng.Intn(4)])...)
		}
		return &fuzzInput{Gen: "bytes", Tmpl: "mixed-protocols", Proto: wire.RESP, Raw: b}
	}
	// bit flips / byte edits of a valid stream
	p := []wire.Proto{wire.RESP, wire.RESP, wire.Telnet, wire.Native, wire.HTTPGet, wire.HTTPPost, wire.WS}[rng.Intn(7)]
	b := append([]byte(nil), validStream(rng, p)...)
	ne := 1 + rng.Intn(6)
	kind := "flip"
	for e := 0; e < ne && len(b) > 0; e++ {
		i := rng.Intn(len(b))
		switch rng.Intn(8) {
		case 0, 1, 2:
			b[i] ^= 1 << uint(rng.Intn(8))
		case 3:
			b[i] = byte(rng.Intn(256))
		case 4: // delete a byte
			b = append(b[:i], b[i+1:]...)
		case 5: // insert
			ins := []string{"\r\n", "\n", "\r", "\x00", "\"", "'", "-", "9", "*", "$", " "}[rng.Intn(11)]
			b = append(b[:i], append([]byte(ins), b[i:]...)...)
		case 6: // truncate
			b = b[:i]
		case 7: // corrupt a length field: find a digit run and replace it
			for j := i; j < len(b); j++ {
				if b[j] >= '0' && b[j] <= '9' && j > 0 && (b[j-1] == '$' || b[j-1] == '*' || b[j-1] == ' ') {
					k := j
					for k < len(b) && b[k] >= '0' && b[k] <= '9' {
						k++
					}
					repl := []string{"-1", "0", "99999999", "9223372036854775807", "18446744073709551616", "-9223372036854775808", "1e3", "", "2147483648", "65535", "65536"}[rng.Intn(11)]
					b = append(b[:j], append([]byte(repl), b[k:]...)...)
					break
				}
			}
			kind = "flip-length"
		}
	}
	return &fuzzInput{Gen: "bytes", Tmpl: kind + "-" + p.String(), Proto: p, Raw: b}
}

// protoShapes are systematic protocol-header shapes.
func protoShapes() []*fuzzInput {
	var out []*fuzzInput
	add := func(name string, p wire.Proto, raw string) {
		out = append(out, &fuzzInput{Gen: "proto", Tmpl: name, Proto: p, Raw: []byte(raw)})
	}
	nums := []string{"-1", "0", "-0", "+1", "1e2", "99999999", "2147483647", "2147483648", "4294967296", "9223372036854775807", "9223372036854775806", "9223372036854775805", "9223372036854775808", "18446744073709551615", "18446744073709551616", "-9223372036854775808", "", " ", "x", "0x10"}
	for _, n := range nums {
		add("resp-array-len="+n, wire.RESP, "*"+n+"\r\n$4\r\nPING\r\n")
		add("resp-bulk-len="+n, wire.RESP, "*1\r\n$"+n+"\r\nPING\r\n")
		add("resp-bulk-len2="+n, wire.RESP, "*2\r\n$4\r\nECHO\r\n$"+n+"\r\nxy\r\n")
		add("native-len="+n, wire.Native, "$"+n+" PING\r\n")
		add("native-len-nodata="+n, wire.Native, "$"+n+" ")
		add("http-content-length="+n, wire.HTTPPost, "POST / HTTP/1.1\r\nContent-Length: "+n+"\r\n\r\nPING")
		add("ws-version="+n, wire.WS, "GET /PING HTTP/1.1\r\nUpgrade: websocket\r\nSec-WebSocket-Version: "+n+"\r\nSec-WebSocket-Key: abc\r\n\r\n")
	}
	add("resp-empty-array", wire.RESP, "*0\r\n*1\r\n$4\r\nPING\r\n")
	add("resp-null-array", wire.RESP, "*-1\r\n*1\r\n$4\r\nPING\r\n")
	add("resp-nested", wire.RESP, "*1\r\n*1\r\n$4\r\nPING\r\n")
	add("resp-lf-only", wire.RESP, "*1\n$4\nPING\n")
	add("resp-int-arg", wire.RESP, "*2\r\n$4\r\nECHO\r\n:5\r\n")
	add("resp-missing-crlf", wire.RESP, "*1\r\n$4\r\nPINGXX*1\r\n$4\r\nPING\r\n")
	add("telnet-empty-lines", wire.Telnet, "\r\n\r\n\nPING\r\n")
	add("telnet-quotes", wire.Telnet, "ECHO \"a\"b\r\nECHO 'x\r\nECHO \"\\\r\nECHO a\"b\"\r\nPING\r\n")
	add("telnet-nul", wire.Telnet, "EC\x00HO x\r\n\x00\r\nPING\r\n")
	add("telnet-bare-cr", wire.Telnet, "PING\rPING\r\r\n")
	add("telnet-long-line", wire.Telnet, "ECHO "+strings.Repeat("x", 200000)+"\r\n")
	add("telnet-many-tokens", wire.Telnet, "ECHO"+strings.Repeat(" a", 50000)+"\r\n")
	add("resp-many-args", wire.RESP, "*100000\r\n"+strings.Repeat("$1\r\na\r\n", 100000))
	add("native-empty", wire.Native, "$0 \r\n$4 PING\r\n")
	add("native-spaces", wire.Native, "$9    PING  \r\n")
	add("native-json-tail", wire.Native, "$12 ECHO {a b  c\r\n")
	add("native-quote", wire.Native, "$21 SET k i STRING \"a b\"x\"\r\n$9 GET k i x\r\n")
	add("native-bad-term", wire.Native, "$4 PINGxx$4 PING\r\n")
	// the native line parser (HTTP paths, POST bodies and `$n line` share it): quotes and JSON starts
	for i, line := range []string{`set k i string "`, `set k i string ""`, `set k i string "a`, `set k i string a"`, `set k i STRING "`, `set k i object {`, `set k i object {"type":"Point"`,
		`"`, `""`, `" "`, `set "`, `get k "`, `set k i string  `, `  set   k  i  string  x  `, `set k i string "x" y`, `set k i field "f" 1 string "`,
		` `, `  `, "\t", ` "" `, `   ping`} {
		esc := strings.NewReplacer(" ", "+", `"`, "%22", "{", "%7B", "}", "%7D").Replace(line)
		add("http-native-line-"+strconv.Itoa(i), wire.HTTPGet, "GET /"+esc+" HTTP/1.1\r\n\r\n")
		add("post-native-line-"+strconv.Itoa(i), wire.HTTPPost, "POST / HTTP/1.1\r\nContent-Length: "+strconv.Itoa(len(line))+"\r\n\r\n"+line)
		add("native-line-"+strconv.Itoa(i), wire.Native, "$"+strconv.Itoa(len(line))+" "+line+"\r\n")
	}
	// script results that refer to themselves; deeply nested values; both must be answered, not crash
	add("eval-return-G", wire.RESP, string(wire.EncodeRESP("EVAL", "return _G", "0")))
	add("eval-return-self-table", wire.RESP, string(wire.EncodeRESP("EVAL", "local t = {} t[1] = t return t", "0")))
	add("evalro-return-self-map", wire.RESP, string(wire.EncodeRESP("EVALRO", "local t = {} t.x = t return t", "0")))
	add("eval-return-deep-table", wire.RESP, string(wire.EncodeRESP("EVAL", "local t = {} local r = t for i = 1, 200000 do local n = {} t[1] = n t = n end return r", "0")))
	add("field-deep-brackets", wire.RESP, string(wire.EncodeRESP("SET", "deepk", "a", "FIELD", "f", strings.Repeat("[", 8000000), "POINT", "1", "1")))
	add("fset-deep-braces", wire.RESP, string(wire.EncodeRESP("FSET", "fleet", "truck1", "f", strings.Repeat(`{"a":`, 200000))))
	add("where-deep-brackets", wire.RESP, string(wire.EncodeRESP("SCAN", "fleet", "WHEREIN", "f", "1", strings.Repeat("[", 1000000), "IDS")))
	add("set-string-deep-brackets", wire.RESP, string(wire.EncodeRESP("SET", "deepk", "s", "STRING", strings.Repeat("[", 1000000))))
	add("jset-deep-brackets", wire.RESP, string(wire.EncodeRESP("JSET", "deepk", "j", "p", strings.Repeat("[", 1000000), "RAW")))
	// the largest SPARSE values the parser accepts
	for _, sp := range []string{"12", "16"} {
		add("within-sparse-"+sp, wire.RESP, string(wire.EncodeRESP("WITHIN", "fleet", "SPARSE", sp, "IDS", "BOUNDS", "-90", "-180", "90", "180")))
		add("nearby-sparse-"+sp, wire.RESP, string(wire.EncodeRESP("TIMEOUT", "2", "INTERSECTS", "fleet", "SPARSE", sp, "COUNT", "BOUNDS", "-90", "-180", "90", "180")))
	}
	add("known-line-within-line", wire.RESP, string(wire.EncodeRESP("TEST", "OBJECT", `{"type":"LineString","coordinates":[[0,0],[1,0],[1,1]]}`, "WITHIN", "OBJECT", `{"type":"LineString","coordinates":[[0,0],[1,0],[2,0]]}`)))
	add("known-jset-balloon", wire.RESP, "*5\r\n$4\r\nJSET\r\n$7\r\nballoon\r\n$3\r\ndoc\r\n$9\r\n999999999\r\n$1\r\n1\r\n")
	// paths and bodies that decode to blanks only: no command name at all
	for i, pth := range []string{"%20", "%20%20", "+%20", "%09", "%0D%0A", "%00", "%20?x=1", "%22%22"} {
		add("http-blank-path-"+strconv.Itoa(i), wire.HTTPGet, "GET /"+pth+" HTTP/1.1\r\nHost: x\r\n\r\n")
	}
	add("post-blank-crlf", wire.HTTPPost, "POST / HTTP/1.1\r\nContent-Length: 4\r\n\r\n \r\n ")
	add("http-no-path", wire.HTTPGet, "GET  HTTP/1.1\r\n\r\n")
	add("http-root", wire.HTTPGet, "GET / HTTP/1.1\r\n\r\n")
	add("http-bad-escape", wire.HTTPGet, "GET /PING%zz HTTP/1.1\r\n\r\n")
	add("http-method", wire.HTTPGet, "PATCH /PING HTTP/1.1\r\n\r\n")
	add("http-options", wire.HTTPGet, "OPTIONS /PING HTTP/1.1\r\n\r\n")
	add("http-0.9", wire.HTTPGet, "GET /PING\r\n\r\n")
	add("http-header-nocolon", wire.HTTPGet, "GET /PING HTTP/1.1\r\nnocolon\r\n\r\n")
	add("http-many-headers", wire.HTTPGet, "GET /PING HTTP/1.1\r\n"+strings.Repeat("X-H: v\r\n", 5000)+"\r\n")
	add("http-query", wire.HTTPGet, "GET /PING?x=1 HTTP/1.1\r\n\r\n")
	add("http-mvt", wire.HTTPGet, "GET /fleet/1/2/3.mvt HTTP/1.1\r\n\r\n")
	add("http-mvt-bad", wire.HTTPGet, "GET /a.mvt HTTP/1.1\r\n\r\n")
	add("http-mvt-query", wire.HTTPGet, "GET /fleet/1/2/3.pbf?limit=x&sparse=99999999999999999999 HTTP/1.1\r\n\r\n")
	add("http-viewer", wire.HTTPGet, "GET /viewer HTTP/1.1\r\n\r\n")
	add("http-viewer-path", wire.HTTPGet, "GET /viewer/../../etc/passwd HTTP/1.1\r\n\r\n")
	add("http-auth", wire.HTTPGet, "GET /PING HTTP/1.1\r\nAuthorization: x\r\n\r\n")
	add("http-accept-encoding", wire.HTTPGet, "GET /SCAN+fleet HTTP/1.1\r\nAccept-Encoding: gzip\r\n\r\n")
	add("http-pipelined", wire.HTTPGet, "GET /PING HTTP/1.1\r\n\r\nGET /PING HTTP/1.1\r\n\r\n")
	add("http-then-resp", wire.HTTPGet, "GET /PING HTTP/1.1\r\n\r\n*1\r\n$4\r\nPING\r\n")
	add("ws-frames", wire.WS, "GET /NEARBY+fleet+FENCE+POINT+33+-112+1000 HTTP/1.1\r\nUpgrade: websocket\r\nSec-WebSocket-Version: 13\r\nSec-WebSocket-Key: abc\r\n\r\n\x81\x84\x00\x00\x00\x00QUIT\x88\x80\x00\x00\x00\x00\xff\xff\xff\xff\xff\xff\xff\xff\xff\xff")
	add("sniff-get-telnet", wire.Telnet, "GET fleet truck1 HTTP/1.1\r\n\r\n")
	add("sniff-p", wire.Telnet, "P\r\nPING\r\n")
	add("sniff-long", wire.Telnet, "G"+strings.Repeat("x", 70000))
	return out
}

// shapeInputs is the systematic argument-shape sweep shared with C17.
func shapeInputs(rng *rand.Rand, full bool) []*fuzzInput {
	var out []*fuzzInput
	perTok := 2
	for _, tm := range wire.Templates() {
		if tm.Flags&wire.FDev != 0 {
			continue
		}
		for _, sh := range wire.Shapes(tm, rng, perTok, full) {
			p := fuzzProtos[rng.Intn(len(fuzzProtos))]
			raw, p2 := encodeAny(p, sh.Args)
			out = append(out, &fuzzInput{Gen: "shape", Tmpl: tm.ID, Muts: sh.Name, Proto: p2, Args: sh.Args, Raw: raw})
		}
	}
	return out
}

// ---- bystander

type bystander struct {
	c    *respc.Conn
	m    *kmodel.Model
	key  string
	rng  *rand.Rand
	last []string
}

func newBystander(addr string, rng *rand.Rand) (*bystander, error) {
	c, err := respc.Dial(addr, 5*time.Second)
	if err != nil {
		return nil, err
	}
	c.Timeout = ioTimeout
	return &bystander{c: c, m: kmodel.New(), key: fmt.Sprintf("BYST~%08x%08x", rng.Uint32(), rng.Uint32()), rng: rng}, nil
}

func (b *bystander) nextOp(write bool) []string {
	r := b.rng
	id := []string{"a", "b", "c", "d"}[r.Intn(4)]
	if write {
		switch r.Intn(6) {
		case 0, 1:
			return []string{"SET", b.key, id, "POINT", strconv.Itoa(r.Intn(80)), strconv.Itoa(r.Intn(170))}
		case 2:
			return []string{"SET", b.key, id, "FIELD", "f", strconv.Itoa(r.Intn(9)), "STRING", "s" + strconv.Itoa(r.Intn(100))}
		case 3:
			return []string{"FSET", b.key, id, "g", strconv.Itoa(r.Intn(5))}
		case 4:
			return []string{"DEL", b.key, id}
		default:
			return []string{"SET", b.key, id, "XX", "POINT", "1", "2"}
		}
	}
	switch r.Intn(6) {
	case 0, 1:
		return []string{"GET", b.key, id, "WITHFIELDS"}
	case 2:
		return []string{"SCAN", b.key, "IDS"}
	case 3:
		return []string{"SCAN", b.key, "COUNT"}
	case 4:
		return []string{"FGET", b.key, id, "f"}
	default:
		return []string{"EXISTS", b.key, id}
	}
}

const (
	byOK = iota
	byDeviated
	byTimeout
	byIOErr
)

// step runs one operation. strict: judged against the model; otherwise any
// reply counts.
func (b *bystander) step(strict, forceWrite bool) (int, string) {
	write := forceWrite || b.rng.Intn(2) == 0
	if !strict {
		op := []string{"SET", b.key, "l", "POINT", "1", "2"}
		b.last = op
		_, err := b.c.Do(op...)
		if err != nil {
			if respc.IsTimeout(err) {
				return byTimeout, err.Error()
			}
			return byIOErr, err.Error()
		}
		return byOK, ""
	}
	op := b.nextOp(write)
	b.last = op
	exp, known := b.m.Apply(op)
	got, err := b.c.Do(op...)
	if err != nil {
		if respc.IsTimeout(err) {
			return byTimeout, err.Error()
		}
		return byIOErr, err.Error()
	}
	if !known {
		return byOK, ""
	}
	if ok, why := b.m.Match(exp, got); !ok {
		return byDeviated, fmt.Sprintf("bystander command %q: %s", op, why)
	}
	return byOK, ""
}

// ---- canary

type canary struct {
	mu sync.Mutex
	s  *srv.Server
}

// answers reports whether the canary process answers a write within 1 s.
func (cn *canary) answers() bool {
	cn.mu.Lock()
	defer cn.mu.Unlock()
	c, err := respc.Dial(cn.s.Addr(), time.Second)
	if err != nil {
		return false
	}
	defer c.Close()
	c.Timeout = time.Second
	t0 := time.Now()
	r, err := c.Do("SET", "canary", "c", "POINT", "1", "2")
	return err == nil && r.Str == "OK" && time.Since(t0) <= time.Second
}

// ---- part B driver

type quarantine struct {
	mu    sync.Mutex
	sigs  map[string]bool
	words map[string]bool // command+option classes that wedged
}

func nonFinite(args []string) bool {
	for _, a := range args {
		switch strings.ToLower(strings.TrimSpace(a)) {
		case "inf", "+inf", "-inf", "nan", "infinity", "+infinity", "-infinity":
			return true
		}
	}
	return false
}

// balloonIn: does the input contain the listed JSET balloon (a JSET with a
// numeric path component >= 1000000)? Byte-level inputs are decoded loosely.
func balloonIn(in *fuzzInput) bool {
	if in.Args != nil {
		return wire.JSETBalloon(in.Args)
	}
	for _, c := range wire.SplitCommands(in.Raw) {
		if len(c) < 4 || !strings.EqualFold(c[0], "JSET") {
			continue
		}
		for i := 3; i < len(c); i++ {
			if wire.JSETBalloon([]string{"JSET", "k", "i", c[i]}) {
				return true
			}
		}
	}
	return false
}

// lineWithinLineIn: does the input contain the listed line-WITHIN-line test?
func lineWithinLineIn(in *fuzzInput) bool {
	if in.Args != nil {
		return wire.LineWithinLine(in.Args)
	}
	if !bytes.Contains(in.Raw, []byte("LineString")) {
		return false
	}
	for _, c := range wire.SplitCommands(in.Raw) {
		if wire.LineWithinLine(c) {
			return true
		}
	}
	return false
}

func (q *quarantine) skip(in *fuzzInput) bool {
	q.mu.Lock()
	defer q.mu.Unlock()
	if q.sigs[in.sig()] {
		return true
	}
	if in.Args != nil && len(q.words) > 0 && q.words[wire.CommandWord(in.Args)] && nonFinite(in.Args) {
		return true
	}
	// the two listed findings are exercised once per run: the first input of each
	// class is sent, every later one is skipped (each observation costs a server
	// and tens of seconds)
	if balloonIn(in) {
		// only the canonical shape of the protocol-shape list is sent, so that the listed
		// finding is observed in every run and by the same input
		return in.Tmpl != "known-jset-balloon"
	}
	if lineWithinLineIn(in) {
		return in.Tmpl != "known-line-within-line"
	}
	return false
}

func (ck *checker) partB() {
	ctx := ck.ctx
	can := &canary{s: ck.startServer()}
	q := &quarantine{sigs: map[string]bool{}, words: map[string]bool{}}
	logDir := filepath.Join(srv.WorkDir(), "c16-inputs")
	os.MkdirAll(logDir, 0o755)

	// the deterministic batch list
	batchSize := 250
	nGrammar := ctx.Pick(14000, 400000)
	nBytes := ctx.Pick(5000, 150000)
	type batch struct {
		idx    int
		kind   string
		n      int
		inputs []*fuzzInput
	}
	var batches []*batch
	add := func(kind string, n int, inputs []*fuzzInput) {
		batches = append(batches, &batch{idx: len(batches), kind: kind, n: n, inputs: inputs})
	}
	ps := protoShapes()
	add("proto", len(ps), ps)
	shapes := shapeInputs(ctx.SubRng(3), ctx.Thorough())
	for i := 0; i < len(shapes); i += batchSize {
		add("shape", 0, shapes[i:min(len(shapes), i+batchSize)])
	}
	for i := 0; i < nGrammar; i += batchSize {
		add("grammar", batchSize, nil)
	}
	for i := 0; i < nBytes; i += batchSize {
		add("bytes", batchSize, nil)
	}
	ctx.Logf("part B: %d batches (%d shape inputs, %d protocol shapes, %d grammar, %d byte-level)", len(batches), len(shapes), len(ps), nGrammar, nBytes)
	ctx.Set("fuzz_templates", len(wire.Templates()))

	bc := make(chan *batch, len(batches))
	for _, b := range batches {
		bc <- b
	}
	close(bc)
	var wg sync.WaitGroup
	for w := 0; w < ck.workers; w++ {
		wg.Add(1)
		go func(w int) {
			defer wg.Done()
			logf, err := os.Create(filepath.Join(logDir, fmt.Sprintf("worker-%02d.jsonl", w)))
			if err != nil {
				ctx.Inconclusive("cannot create the input log: " + err.Error())
				return
			}
			defer logf.Close()
			for b := range bc {
				if ctx.Violations() >= 25 {
					continue
				}
				rng := ctx.SubRng(int64(5000 + b.idx))
				inputs := b.inputs
				if inputs == nil {
					for i := 0; i < b.n; i++ {
						if b.kind == "grammar" {
							inputs = append(inputs, genGrammar(rng))
						} else {
							inputs = append(inputs, genBytes(rng))
						}
					}
				}
				for _, in := range inputs {
					in.Global = isGlobal(in.Raw)
				}
				ck.runBatch(b.idx, inputs, rng, logf, can, q)
			}
		}(w)
	}
	wg.Wait()
	can.s.Kill9()
}

type fuzzSession struct {
	s      *srv.Server
	ctl    *respc.Conn
	by     *bystander
	strict bool
}

func (ck *checker) newSession(rng *rand.Rand, strict bool) *fuzzSession {
	for attempt := 0; attempt < 3; attempt++ {
		s := ck.startCapped()
		ctl, err := respc.Dial(s.Addr(), 5*time.Second)
		if err != nil {
			s.Kill9()
			continue
		}
		ctl.Timeout = ioTimeout
		fs := &fuzzSession{s: s, ctl: ctl, strict: strict}
		if !fs.dataset() {
			s.Kill9()
			continue
		}
		by, err := newBystander(s.Addr(), rng)
		if err != nil {
			s.Kill9()
			continue
		}
		fs.by = by
		return fs
	}
	ck.ctx.Fatal("cannot set up a fuzz session")
	return nil
}

// dataset (re)creates the small dataset with hooks that the templates refer to.
func (fs *fuzzSession) dataset() bool {
	cmds := wire.StateCommands("hooks")
	cmds = append(cmds, []string{"SCRIPT", "LOAD", wire.ScriptBody})
	for _, c := range cmds {
		if err := fs.ctl.Send(c...); err != nil {
			return false
		}
	}
	for range cmds {
		if _, err := fs.ctl.Recv(); err != nil {
			return false
		}
	}
	return true
}

func (fs *fuzzSession) close() {
	if fs.ctl != nil {
		fs.ctl.Close()
	}
	if fs.by != nil {
		fs.by.c.Close()
	}
	fs.s.Kill9()
	os.RemoveAll(fs.s.Dir)
}

func replyFraming(in *fuzzInput, buf []byte) wire.Proto {
	if bytes.HasPrefix(buf, []byte("HTTP/")) {
		return wire.HTTPGet
	}
	if in.Proto == wire.Native || (len(buf) > 2 && buf[0] == '$' && bytes.IndexByte(buf[:min(len(buf), 24)], ' ') > 0 && bytes.IndexByte(buf[:min(len(buf), 24)], '\r') < 0) {
		return wire.Native
	}
	return wire.RESP
}

func replyClass(p wire.Proto, frame []byte) string {
	switch p {
	case wire.HTTPGet:
		h, err := wire.ParseHTTP(frame)
		if err != nil {
			return "http?"
		}
		return "http" + strconv.Itoa(h.Code)
	case wire.Native:
		pl := wire.NativePayload(frame)
		if bytes.HasPrefix(pl, []byte(`{"ok":true`)) {
			return "json-ok"
		}
		if bytes.HasPrefix(pl, []byte(`{"ok":false`)) {
			return "json-err"
		}
		return "native-other"
	}
	if len(frame) == 0 {
		return "?"
	}
	if frame[0] == '$' && bytes.Contains(frame[:min(len(frame), 40)], []byte(`{"ok":`)) {
		if bytes.Contains(frame[:min(len(frame), 40)], []byte(`{"ok":true`)) {
			return "json-ok"
		}
		return "json-err"
	}
	if frame[0] == '-' {
		w := string(frame[1:min(len(frame), 12)])
		if i := strings.IndexAny(w, " \r"); i > 0 {
			w = w[:i]
		}
		return "-" + w
	}
	return string(frame[:1])
}

type logRec struct {
	Batch int      `json:"batch"`
	I     int      `json:"i"`
	Gen   string   `json:"gen"`
	Tmpl  string   `json:"tmpl,omitempty"`
	Muts  string   `json:"muts,omitempty"`
	Proto string   `json:"proto"`
	Args  []string `json:"args,omitempty"`
	Hex   string   `json:"hex"`
}

func replayOf(recent []*fuzzInput) []map[string]any {
	var out []map[string]any
	for _, in := range recent {
		m := map[string]any{"gen": in.Gen, "tmpl": in.Tmpl, "muts": in.Muts, "transport": in.Proto.String()}
		if in.Args != nil {
			m["args"] = abbreviate([][]string{in.Args})[0]
		}
		if len(in.Raw) <= 4096 {
			m["raw"] = strconv.QuoteToASCII(string(in.Raw))
		} else {
			m["raw_len"] = len(in.Raw)
			m["raw_head"] = strconv.QuoteToASCII(string(in.Raw[:512]))
		}
		out = append(out, m)
	}
	return out
}

// runBatch sends the inputs of one batch to one child server: first the inputs
// that cannot name a global switch (bystander judged strictly), then the rest
// (bystander judged on liveness).
func (ck *checker) runBatch(bidx int, inputs []*fuzzInput, rng *rand.Rand, logf *os.File, can *canary, q *quarantine) {
	ctx := ck.ctx
	var strictIn, looseIn []*fuzzInput
	for _, in := range inputs {
		if in.Global {
			looseIn = append(looseIn, in)
		} else {
			strictIn = append(strictIn, in)
		}
	}
	fs := ck.newSession(rng, true)
	defer func() { fs.close() }()
	var recent []*fuzzInput
	n := 0
	runList := func(list []*fuzzInput, strict bool) {
		for li, in := range list {
			if ctx.Violations() >= 25 {
				return
			}
			if q.skip(in) {
				ctx.Count("fuzz_skipped_quarantined", 1)
				continue
			}
			n++
			if n%40 == 0 {
				if !fs.dataset() && fs.s.Alive() {
					// control connection lost (CLIENT KILL in a loose list): reconnect
					fs.ctl.Close()
					if c, err := respc.Dial(fs.s.Addr(), 5*time.Second); err == nil {
						c.Timeout = ioTimeout
						fs.ctl = c
					}
				}
			}
			// log before sending
			rec, _ := json.Marshal(logRec{Batch: bidx, I: li, Gen: in.Gen, Tmpl: in.Tmpl, Muts: in.Muts, Proto: in.Proto.String(), Args: nil, Hex: hex.EncodeToString(in.Raw)})
			logf.Write(append(rec, '\n'))
			recent = append(recent, in)
			if len(recent) > 8 {
				recent = recent[1:]
			}
			slow, nrep, class := ck.sendInput(fs.s.Addr(), in)
			ctx.Eval(1)
			ctx.Count("fuzz_inputs:"+in.Gen, 1)
			ctx.Count("fuzz_transport:"+in.Proto.String(), 1)
			ctx.Count("fuzz_replies", int64(nrep))
			if nrep > 0 && n%997 == 1 {
				ctx.Sample(map[string]any{"fuzz_input": replayOf([]*fuzzInput{in})[0], "replies": nrep, "first_reply_class": class})
			}
			if nrep > 0 {
				ctx.Distinct("fuzz|" + in.Gen + "|" + in.Tmpl + "|" + mutOps(in.Muts) + "|" + in.Proto.String() + "|" + class)
			}
			if slow {
				ctx.Count("fuzz_slow_inputs", 1)
			}
			st, detail := fs.by.step(strict, slow)
			ctx.Count("bystander_ops", 1)
			switch st {
			case byOK:
				continue
			case byDeviated:
				if !fs.s.Alive() {
					break
				}
				ck.report("bystander:"+strings.ToUpper(fs.by.last[0])+":after:"+wire.CommandWord(in.Args)+":"+in.Gen, "a bystander connection got a wrong reply while another connection was fed "+in.Gen+" input: "+detail,
					map[string]any{"recent_inputs": replayOf(recent), "bystander_command": fs.by.last})
				fs.close()
				fs = ck.newSession(rng, true)
				continue
			case byTimeout:
				// wedge? the canary decides between server and machine, and the wedge must
				// show again when the recent inputs are replayed on a fresh server
				if can.answers() && !ck.confirmWedge(recent, rng, can) {
					ctx.Count("wedge_not_reproduced", 1)
					fs.s.Kill9()
					fs.close()
					fs = ck.newSession(rng, true)
					continue
				}
				if can.answers() {
					fs.s.Abort()
					dumpb, _ := os.ReadFile(fs.s.Stderr)
					stacks, handler := lockHolders(string(dumpb))
					word := "handler:" + handler
					if in.Args != nil {
						word = wire.CommandWord(in.Args)
					}
					// the listed JSET balloon has exactly the key wedge:JSET; any other JSET wedge must not share it
					balloon := balloonIn(in)
					if balloon && (in.Args != nil || handler == "JSET") {
						word = "JSET"
					} else if word == "JSET" {
						word = "JSET+other"
					}
					// the listed geometry-library hang: exactly wedge:line-within-line
					if lineWithinLineIn(in) && (in.Args != nil || handler == "TEST" || strings.HasPrefix(handler, "WITHIN")) {
						word = "line-within-line"
					} else if word == "line-within-line" {
						word = "line-within-line+other"
					}
					ck.report("wedge:"+word, fmt.Sprintf("the bystander's write %q was not answered within %v after input %s %q (canary process answered a write within 1 s): a request never returns while holding the server lock", fs.by.last, ioTimeout, in.Gen, abbreviate([][]string{in.Args})),
						map[string]any{"recent_inputs": replayOf(recent), "handler": handler, "goroutines_in_handlers": stacks})
					ctx.Count("wedges", 1)
					q.mu.Lock()
					q.words[word] = true
					q.sigs[in.sig()] = true
					q.mu.Unlock()
				} else {
					ctx.Inconclusive("bystander timed out and the canary process was slow too (stalled machine)")
					fs.s.Abort()
				}
				fs.close()
				fs = ck.newSession(rng, true)
				continue
			}
			// i/o error or deviated-with-dead-server: did the server die?
			if fs.s.WaitExit(3 * time.Second) {
				crashed, site := fs.s.Crashed()
				if !crashed {
					// the child is gone without a panic or runtime error in its stderr: killed
					// from outside (e.g. the kernel's OOM killer on an overloaded machine)
					if balloonIn(in) {
						ck.report("wedge:JSET", "server process was killed while executing the JSET balloon "+fmt.Sprint(abbreviate([][]string{in.Args})), map[string]any{"recent_inputs": replayOf(recent)})
					} else {
						ctx.Inconclusive("a child server disappeared without a crash report (killed from outside?)")
					}
					fs.close()
					fs = ck.newSession(rng, true)
					continue
				}
				key := crashKey(site)
				if strings.Contains(site, "cmdJset") && (strings.Contains(site, "out of memory") || strings.Contains(site, "cannot allocate")) && balloonIn(in) {
					// the listed JSET balloon, ended by the address-space limit of the child instead of the wedge watchdog
					key = "wedge:JSET"
					q.mu.Lock()
					q.words["JSET"] = true
					q.mu.Unlock()
				}
				ctx.Count("crashes", 1)
				ctx.Count("crashes_by_site:"+key, 1)
				ck.report(key, fmt.Sprintf("server process died after %s input (template %s, %s) %q: %s", in.Gen, in.Tmpl, in.Muts, abbreviate([][]string{in.Args}), site),
					map[string]any{"recent_inputs": replayOf(recent), "stderr": clipTail(fs.s.StderrTail(6000), 6000)})
				q.mu.Lock()
				q.sigs[in.sig()] = true
				q.mu.Unlock()
				fs.close()
				fs = ck.newSession(rng, true)
				continue
			}
			// alive but the bystander connection broke
			if strict {
				ck.report("bystander-disconnected:"+wire.CommandWord(in.Args)+":"+in.Gen, "the bystander connection was closed by the server while another connection was fed "+in.Gen+" input: "+detail,
					map[string]any{"recent_inputs": replayOf(recent)})
			} else {
				ctx.Count("bystander_reconnects_loose", 1)
			}
			fs.by.c.Close()
			if by, err := newBystander(fs.s.Addr(), rng); err == nil {
				fs.by = by
			} else {
				fs.close()
				fs = ck.newSession(rng, true)
			}
		}
	}
	runList(strictIn, true)
	if len(looseIn) > 0 {
		runList(looseIn, false)
	}
}

// confirmWedge replays the recent inputs on a fresh server and reports whether a
// bystander write is again unanswered for 10 s while the canary answers.
func (ck *checker) confirmWedge(recent []*fuzzInput, rng *rand.Rand, can *canary) bool {
	try := func(list []*fuzzInput) bool {
		fs := ck.newSession(rng, true)
		defer func() { fs.s.Kill9(); fs.close() }()
		for _, in := range list {
			ck.sendInput(fs.s.Addr(), in)
		}
		st, _ := fs.by.step(false, true)
		return st == byTimeout && can.answers()
	}
	if len(recent) > 0 && try(recent[len(recent)-1:]) {
		return true
	}
	return len(recent) > 1 && try(recent)
}

func clipTail(s string, n int) string {
	if len(s) > n {
		return s[len(s)-n:]
	}
	return s
}

var cmdFnRe = regexp.MustCompile(`server\.\(\*Server\)\.(cmd\w+)`)

// lockHolders extracts from a goroutine dump the stacks that are inside a
// command handler and not waiting for the server lock (candidates for the
// request that never returned) and the handler's name.
func lockHolders(dump string) (stacks []string, handler string) {
	for _, g := range strings.Split(dump, "\n\n") {
		if strings.Contains(g, "handleInputCommand") && !strings.Contains(g, "sync.(*RWMutex)") && !strings.Contains(g, "rwspinlock") && !strings.Contains(g, "sync.runtime_Semacquire") {
			if handler == "" {
				if m := cmdFnRe.FindStringSubmatch(g); m != nil {
					handler = strings.ToUpper(strings.TrimPrefix(m[1], "cmd"))
				}
			}
			if len(g) > 2500 {
				g = g[:2500] + "..."
			}
			stacks = append(stacks, g)
		}
	}
	if len(stacks) == 0 {
		stacks = append(stacks, clipTail(dump, 3000))
	}
	if len(stacks) > 3 {
		stacks = stacks[:3]
	}
	return stacks, handler
}

// sendInput sends one input on its own connection, half-closes and reads the
// reply stream; it returns whether the read timed out, the number of complete
// replies and the class of the first one.
func (ck *checker) sendInput(addr string, in *fuzzInput) (slow bool, nrep int, class string) {
	c, err := wire.Dial(addr, 3*time.Second)
	if err != nil {
		return false, 0, "noconn"
	}
	defer c.Close()
	c.Timeout = 3 * time.Second
	if err := c.Write(in.Raw); err != nil {
		// the server may close while we are still writing a long input
		ck.ctx.Count("fuzz_write_errors", 1)
	}
	c.CloseWrite()
	to, _ := c.ReadToEOF(2 * time.Second)
	buf := c.Buf
	if in.Proto == wire.WS && bytes.HasPrefix(buf, []byte("HTTP/1.1 101")) {
		if n, err := wire.FrameHTTP(buf); err == nil {
			nrep++
			class = "ws101"
			buf = buf[n:]
			fr, _, _ := wire.SplitAll(wire.WS, buf)
			nrep += len(fr)
			return to, nrep, class
		}
	}
	p := replyFraming(in, buf)
	fr, _, _ := wire.SplitAll(p, buf)
	if len(fr) > 0 {
		class = replyClass(p, fr[0])
	} else if len(buf) > 0 {
		class = "partial"
	} else {
		class = "closed"
	}
	return to, len(fr), class
}
