package c16

import (
	"fmt"
	"math/rand"
	"strconv"
	"strings"

	"verifharness/wire"
)

// stream is one homogeneous command stream of one transport.
type stream struct {
	ID    string
	Kind  string
	Proto wire.Proto
	Cmds  [][]string
	Bytes []byte
	Ends  []int // Ends[i] = offset just past command i
	// baseline
	Base []string // canonical replies of the unsegmented send
}

func (s *stream) add(args ...string) bool {
	b, ok := wire.Encode(s.Proto, args...)
	if !ok {
		return false
	}
	s.Cmds = append(s.Cmds, args)
	s.Bytes = append(s.Bytes, b...)
	s.Ends = append(s.Ends, len(s.Bytes))
	return true
}

// completedBy returns how many commands end at or before offset p.
func (s *stream) completedBy(p int) int {
	lo, hi := 0, len(s.Ends)
	for lo < hi {
		m := (lo + hi) / 2
		if s.Ends[m] <= p {
			lo = m + 1
		} else {
			hi = m
		}
	}
	return lo
}

// insideCommand reports whether offset p is strictly inside a command.
func (s *stream) insideCommand(p int) bool {
	if p <= 0 || p >= len(s.Bytes) {
		return false
	}
	k := s.completedBy(p)
	return !(k > 0 && s.Ends[k-1] == p)
}

// partAt names the syntactic part of the stream that offset p falls into (the
// scenario class of a segmentation finding).
func (s *stream) partAt(p int) string {
	k := s.completedBy(p)
	start := 0
	if k > 0 {
		start = s.Ends[k-1]
	}
	if p == start {
		return "command-boundary"
	}
	if k >= len(s.Cmds) {
		return "end"
	}
	cmd := s.Bytes[start:s.Ends[k]]
	off := p - start
	big := ""
	if len(cmd) > 60000 {
		big = "big-"
	}
	switch s.Proto {
	case wire.RESP:
		// walk the RESP structure; classify by the last byte of the prefix
		lb := off - 1
		i := 0
		part := "array-header"
		for i < len(cmd) {
			e := indexCRLF(cmd, i)
			if e < 0 || lb < i {
				break
			}
			if lb < e {
				return big + part
			}
			if lb == e {
				return big + part + "-crlf-split"
			}
			if lb == e+1 {
				return big + "after-" + part
			}
			if cmd[i] == '$' {
				n, _ := strconv.Atoi(string(cmd[i+1 : e]))
				pe := e + 2 + n
				if lb < pe {
					return big + "bulk-payload"
				}
				if lb == pe {
					return big + "bulk-crlf-split"
				}
				if lb == pe+1 {
					return big + "after-bulk"
				}
				i = pe + 2
			} else {
				i = e + 2
			}
			part = "bulk-header"
		}
		return big + "resp"
	case wire.Telnet:
		if off == len(cmd)-1 {
			return big + "between-cr-lf"
		}
		inq := false
		for j := 0; j < off && j < len(cmd); j++ {
			if cmd[j] == '\\' && inq {
				j++
				continue
			}
			if cmd[j] == '"' {
				inq = !inq
			}
		}
		if inq {
			return big + "quoted-token"
		}
		return big + "inline"
	case wire.Native:
		sp := strings.IndexByte(string(cmd[:min(len(cmd), 24)]), ' ')
		if off <= sp {
			return big + "native-length"
		}
		if off >= len(cmd)-2 {
			return big + "native-crlf"
		}
		return big + "native-payload"
	default:
		he := strings.Index(string(cmd), "\r\n\r\n")
		le := strings.Index(string(cmd), "\r\n")
		switch {
		case off <= le+1:
			return big + "http-request-line"
		case he >= 0 && off <= he+3:
			return big + "http-headers"
		default:
			return big + "http-body"
		}
	}
}

func indexCRLF(b []byte, from int) int {
	for i := from; i+1 < len(b); i++ {
		if b[i] == '\r' && b[i+1] == '\n' {
			return i
		}
	}
	return -1
}

// ---- generators

type cmdGen struct {
	rng   *rand.Rand
	proto wire.Proto
	json  bool // current output mode is JSON (only to alternate OUTPUT commands sensibly)
}

func (g *cmdGen) pick(a ...string) string { return a[g.rng.Intn(len(a))] }

func (g *cmdGen) key() string { return g.pick("k1", "k1", "k2") }

func (g *cmdGen) id() string {
	if g.proto == wire.RESP || g.proto == wire.Telnet {
		return g.pick("a", "b", "c", "a", "b", "x y", `q"t`, "nl\nid", `b\s`, "it's", "é")
	}
	return g.pick("a", "b", "c", "d", "é", "a'b")
}

func (g *cmdGen) val() string {
	if g.proto == wire.RESP || g.proto == wire.Telnet {
		return g.pick("v", "hello world", "", `say "hi"`, "tab\there", "line1\r\nline2", `back\slash`, "12.5", "'single'", "  lead", "trail  ")
	}
	return g.pick("v", "hello", "12.5", "x'y", "a\\b")
}

func (g *cmdGen) num() string {
	return strconv.FormatFloat(float64(g.rng.Intn(2000)-1000)/10, 'f', -1, 64)
}

// next returns one command with a deterministic, state-determined reply.
func (g *cmdGen) next() []string {
	r := g.rng
	lat, lon := strconv.Itoa(30+r.Intn(8)), strconv.Itoa(-115+r.Intn(8))
	switch r.Intn(34) {
	case 0, 1, 2:
		return []string{"SET", g.key(), g.id(), "POINT", lat, lon}
	case 3:
		return []string{"SET", g.key(), g.id(), "FIELD", g.pick("speed", "age", "f1"), g.num(), "POINT", lat, lon, strconv.Itoa(r.Intn(500))}
	case 4:
		return []string{"SET", g.key(), g.id(), "STRING", g.val()}
	case 5:
		return []string{"SET", g.key(), g.id(), "OBJECT", `{"type":"Point","coordinates":[` + lon + `, ` + lat + `]}`}
	case 6:
		return []string{"SET", g.key(), g.id(), g.pick("NX", "XX"), "BOUNDS", "30", "-115", lat, lon}
	case 7, 8:
		return []string{"GET", g.key(), g.id()}
	case 9:
		return []string{"GET", g.key(), g.id(), "WITHFIELDS", g.pick("OBJECT", "POINT", "BOUNDS")}
	case 10:
		return []string{"FSET", g.key(), g.id(), g.pick("speed", "age"), g.num()}
	case 11:
		return []string{"FGET", g.key(), g.id(), g.pick("speed", "age")}
	case 12:
		return []string{"DEL", g.key(), g.id()}
	case 13:
		return []string{"SCAN", g.key(), g.pick("IDS", "COUNT", "OBJECTS", "POINTS")}
	case 14:
		return []string{"SCAN", g.key(), "LIMIT", strconv.Itoa(1 + r.Intn(3)), "MATCH", g.pick("*", "a*", "[a-b]"), "IDS"}
	case 15:
		return []string{"NEARBY", g.key(), "DISTANCE", "IDS", "POINT", lat, lon, "900000"}
	case 16:
		return []string{"WITHIN", g.key(), "IDS", "BOUNDS", "30", "-115", "38", "-107"}
	case 17:
		return []string{"INTERSECTS", g.key(), "COUNT", "CIRCLE", lat, lon, "500000"}
	case 18:
		return []string{"KEYS", g.pick("*", "k*", "k1")}
	case 19:
		return []string{g.pick("TTL", "EXISTS"), g.key(), g.id()}
	case 20:
		return []string{g.pick("TYPE", "BOUNDS"), g.key()}
	case 21:
		return []string{"JSET", g.key(), "doc", g.pick("a", "b.c", "n"), g.pick("1", "true", "word")}
	case 22:
		return []string{"JGET", g.key(), "doc", g.pick("a", "b.c", "b")}
	case 23:
		return []string{"PING"}
	case 24:
		return []string{"ECHO", g.val()}
	case 25:
		g.json = !g.json
		if g.proto == wire.Native {
			if g.json {
				return []string{"OUTPUT", "resp"}
			}
			return []string{"OUTPUT", "json"}
		}
		if g.json {
			return []string{"OUTPUT", "json"}
		}
		return []string{"OUTPUT", "resp"}
	case 26:
		return []string{g.pick("NOSUCHCMD", "GETT", "sett"), g.key()}
	case 27:
		return []string{g.pick("GET", "SET", "FSET", "SCAN", "NEARBY", "EXPIRE"), g.key()}
	case 28:
		return []string{"TEST", "POINT", lat, lon, "WITHIN", "BOUNDS", "30", "-115", "34", "-111"}
	case 29:
		return []string{"SETCHAN", g.pick("c1", "c2"), "NEARBY", g.key(), "FENCE", "POINT", lat, lon, "1000"}
	case 30:
		return []string{"CHANS", "*"}
	case 31:
		return []string{"SEARCH", g.key(), g.pick("IDS", "COUNT")}
	case 32:
		return []string{"PDEL", g.key(), g.pick("a*", "z*")}
	default:
		return []string{"RENAMENX", "k1", "k2"}
	}
}

func bigValue(rng *rand.Rand, n int) string {
	b := make([]byte, n)
	const al = "abcdefghijklmnopqrstuvwxyzABCDEFGHIJKLMNOPQRSTUVWXYZ0123456789"
	for i := range b {
		b[i] = al[rng.Intn(len(al))]
	}
	return string(b)
}

// buildStreams produces the stream set of the tier.
func buildStreams(rng *rand.Rand, thorough bool) []*stream {
	var out []*stream
	nMixed, nBig := 5, 1
	pipeLen := map[wire.Proto]int{wire.RESP: 300, wire.Telnet: 500, wire.Native: 300}
	if thorough {
		nMixed, nBig = 24, 1
		pipeLen = map[wire.Proto]int{wire.RESP: 1000, wire.Telnet: 3000, wire.Native: 1000}
	}
	for _, p := range []wire.Proto{wire.RESP, wire.Telnet, wire.Native} {
		// mixed small streams, 5..60 commands
		for i := 0; i < nMixed; i++ {
			s := &stream{ID: fmt.Sprintf("%s-mixed-%d", p, i), Kind: "mixed", Proto: p}
			g := &cmdGen{rng: rng, proto: p}
			s.add("FLUSHDB")
			n := 5 + rng.Intn(56)
			if !thorough {
				n = 5 + rng.Intn(30)
			}
			for len(s.Cmds) < n {
				s.add(g.next()...)
			}
			if g.json { // restore the transport's default output mode (connections are reused)
				if p == wire.Native {
					s.add("OUTPUT", "json")
				} else {
					s.add("OUTPUT", "resp")
				}
			}
			s.add("ECHO", "end-of-"+s.ID)
			out = append(out, s)
		}
		// a value larger than the 0xFFFF read buffer
		for i := 0; i < nBig; i++ {
			s := &stream{ID: fmt.Sprintf("%s-big-%d", p, i), Kind: "big", Proto: p}
			s.add("FLUSHDB")
			s.add("SET", "k1", "small", "POINT", "33", "-112")
			s.add("SET", "k1", "big", "STRING", bigValue(rng, 65600+rng.Intn(600)))
			s.add("GET", "k1", "small")
			s.add("EXISTS", "k1", "big")
			if i%2 == 1 {
				s.add("GET", "k1", "big")
			}
			s.add("SCAN", "k1", "IDS")
			s.add("ECHO", "end-of-"+s.ID)
			out = append(out, s)
		}
		// a command boundary exactly at offset 0xFFFF (and the next command straddling it)
		if thorough {
			s := &stream{ID: fmt.Sprintf("%s-edge", p), Kind: "edge", Proto: p}
			s.add("FLUSHDB")
			s.add("PING")
			// size the pad so that the SET command ends exactly at 0xFFFF
			probe := &stream{Proto: p}
			probe.add("SET", "k1", "pad", "STRING", "")
			overhead := len(s.Bytes) + len(probe.Bytes)
			padLen := 0xFFFF - overhead
			// the length field of the value grows with the value: adjust
			for tries := 0; tries < 8; tries++ {
				t := &stream{Proto: p}
				t.add("SET", "k1", "pad", "STRING", strings.Repeat("p", padLen))
				d := 0xFFFF - (len(s.Bytes) + len(t.Bytes))
				if d == 0 {
					break
				}
				padLen += d
			}
			s.add("SET", "k1", "pad", "STRING", strings.Repeat("p", padLen))
			s.add("SET", "k1", "after", "POINT", "1", "2")
			s.add("GET", "k1", "after")
			s.add("EXISTS", "k1", "pad")
			s.add("ECHO", "end-of-"+s.ID)
			out = append(out, s)
		}
		// a long pipeline of cheap commands
		{
			pipeN := pipeLen[p]
			s := &stream{ID: fmt.Sprintf("%s-pipe-%d", p, pipeN), Kind: "pipeline", Proto: p}
			s.add("FLUSHDB")
			s.add("SET", "k1", "a", "POINT", "33", "-112")
			for len(s.Cmds) < pipeN-1 {
				switch rng.Intn(6) {
				case 0:
					s.add("PING")
				case 1:
					s.add("ECHO", strconv.Itoa(len(s.Cmds)))
				case 2:
					s.add("GET", "k1", "a")
				case 3:
					s.add("EXISTS", "k1", "a")
				case 4:
					s.add("TTL", "k1", "zz")
				case 5:
					s.add("GET", "k1")
				}
			}
			s.add("ECHO", "end-of-"+s.ID)
			out = append(out, s)
		}
	}
	// HTTP: the server answers one request per connection, so a stream is one request
	httpCmds := [][]string{
		{"PING"},
		{"PING", "héllo%20+x"},
		{"SET", "hk", "id'1", "POINT", "33.5", "-112.25"},
		{"SET", "hk", "obj", "OBJECT", `{"type":"Point","coordinates":[-112, 33]}`},
		{"TEST", "POINT", "33", "-112", "WITHIN", "BOUNDS", "30", "-115", "34", "-111"},
		{"KEYS", "nomatch*"},
		{"NOSUCHCMD", "x"},
		{"GET", "nokey"},
	}
	for i, c := range httpCmds {
		for _, p := range []wire.Proto{wire.HTTPGet, wire.HTTPPost} {
			if !thorough && (i+int(p))%2 == 1 {
				continue
			}
			s := &stream{ID: fmt.Sprintf("%s-%d", p, i), Kind: "http", Proto: p}
			if s.add(c...) {
				out = append(out, s)
			}
		}
	}
	for i := 0; i < max(1, nBig); i++ {
		s := &stream{ID: fmt.Sprintf("http-post-big-%d", i), Kind: "big", Proto: wire.HTTPPost}
		s.add("SET", "hk", "big", "STRING", bigValue(rng, 65600+rng.Intn(600)))
		out = append(out, s)
	}
	if thorough {
		s := &stream{ID: "http-get-big", Kind: "big", Proto: wire.HTTPGet}
		s.add("SET", "hk", "big", "STRING", bigValue(rng, 66000))
		out = append(out, s)
	}
	return out
}
